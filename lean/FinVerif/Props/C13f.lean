/-
  C13 (part f) — weekdays, validation, and day/weekday/tenor stepping, for EVERY date and EVERY step count:

  * weekday periodicity of the GENERATED kernel: `serial + 7` has the same weekday, the next day has the next weekday,
    and any 7 consecutive serials contain each weekday exactly once;
  * `Date(d, m, y)` is accepted EXACTLY for the valid calendar dates of the specification with `y ≥ 1900`
    (`mkDateQ_ok_iff_valid`), and every rejection is a `FinError` — never an `IndexError` (`mkDateQ_rejects_with_finError`);
  * `add_days`: the walk of `|n|` table steps composes (`stepDays_add`), a backward walk undoes a forward walk of the same
    length (`stepDays_inverse`), hence `add_days(n)` then `add_days(−n)` returns the start for every `n` of either sign
    (`addDays_inverse`), and same-sign calls compose (`addDays_compose`);
  * `add_weekdays(n)`: the loop is the generic counting loop of C14 at the predicate "Monday–Friday"
    (`addWeekdaysLoop_eq_abdLoop`), so it visits consecutive days, EXACTLY `|n|` of the visited days are weekdays and the
    result is the last visited day (`addWeekdays_counts_exactly`); `+n` then `−n` returns to a weekday start
    (`addWeekdays_inverse`);
  * `add_tenor("nD")` = `add_days(n)`, `add_tenor("nW")` = `add_days(7n)` (`addTenor_days_eq_addDays`,
    `addTenor_weeks_eq_addDays`), so the serial moves by exactly `n` / `7n` and a week tenor keeps the weekday.
-/
import FinVerif.Props.C13b
import FinVerif.Props.C14d
import Mathlib.Tactic.IntervalCases
import Mathlib.Tactic.SplitIfs
import Mathlib.Tactic.Ring

set_option linter.unusedSimpArgs false
set_option linter.unusedVariables false

namespace FinVerif.Props.C13
open FinVerif FinVerif.Model FinVerif.Spec FinVerif.Gen.DateK
open FinVerif.Props.C14 (ValidG WF mkDateQ_iff Chain abdTrace abd_trace_spec abd_trace_exists abd_forward_then_backward)

/-! ### weekday periodicity (GENERATED `weekday`) -/

theorem weekday_range (s : Int) : 0 ≤ weekday s ∧ weekday s < 7 := by
  simp only [weekday]; omega

/-- C13: a week later is the same weekday. -/
theorem weekday_add_seven (s : Int) : weekday (s + 7) = weekday s := by
  simp only [weekday]; omega

theorem weekday_add_weeks (s k : Int) : weekday (s + 7 * k) = weekday s := by
  simp only [weekday]; omega

/-- The next day has the next weekday (Sunday wraps to Monday). -/
theorem weekday_succ (s : Int) : weekday (s + 1) = (weekday s + 1) % 7 := by
  simp only [weekday]; omega

/-- C13: any seven consecutive serials `s, …, s+6` contain each weekday exactly once. -/
theorem week_contains_each_weekday_once (s w : Int) (hw : 0 ≤ w ∧ w < 7) :
    ∃ i, (0 ≤ i ∧ i < 7 ∧ weekday (s + i) = w) ∧ ∀ j, (0 ≤ j ∧ j < 7 ∧ weekday (s + j) = w) → j = i := by
  refine ⟨(w - (s + 5)) % 7, ⟨by omega, by omega, by simp only [weekday]; omega⟩, ?_⟩
  rintro j ⟨j0, j7, hj⟩
  simp only [weekday] at hj
  omega

/-- Two serials have the same weekday iff they differ by a multiple of 7. -/
theorem weekday_eq_iff (s t : Int) : weekday s = weekday t ↔ (s - t) % 7 = 0 := by
  simp only [weekday]; omega

/-! ### the constructor accepts exactly the valid dates -/

/-- C13 "invalid day/month/year combinations are rejected": `Date(d, m, y)` succeeds exactly when `y ≥ 1900` and
`d/m/y` is a valid date of the SPECIFICATION's Gregorian calendar, and then returns the date with the closed-form serial
and the generated weekday. -/
theorem mkDateQ_ok_iff_valid (d m y : Int) (r : PyDate) :
    mkDate? d m y = .ok r ↔ (1900 ≤ y ∧ Valid d m y ∧ r = mkDate d m y) := by
  rw [mkDateQ_iff]
  constructor
  · rintro ⟨⟨hy, h1, h2, h3, h4⟩, hr⟩
    exact ⟨hy, ⟨h1, h2, h3, by rw [← monthDays_eq_monthLen y m ⟨h1, h2⟩]; exact h4⟩, hr⟩
  · rintro ⟨hy, ⟨h1, h2, h3, h4⟩, hr⟩
    exact ⟨⟨hy, h1, h2, h3, by rw [monthDays_eq_monthLen y m ⟨h1, h2⟩]; exact h4⟩, hr⟩

theorem mkDateQ_accepts_iff (d m y : Int) : (∃ r, mkDate? d m y = .ok r) ↔ (1900 ≤ y ∧ Valid d m y) := by
  constructor
  · rintro ⟨r, hr⟩
    obtain ⟨a, b, _⟩ := (mkDateQ_ok_iff_valid d m y r).mp hr
    exact ⟨a, b⟩
  · rintro ⟨a, b⟩
    exact ⟨mkDate d m y, (mkDateQ_ok_iff_valid d m y _).mpr ⟨a, b, rfl⟩⟩

/-- … and every rejected combination is rejected with `FinError` (the constructor never raises `IndexError`, whatever
the month — the month is validated before the month-length table is read). -/
theorem mkDateQ_rejects_with_finError (d m y : Int) (h : ¬ (1900 ≤ y ∧ Valid d m y)) :
    mkDate? d m y = .error .finError := by
  simp only [mkDate?]
  by_cases a : y < 1900
  · simp [a]
  by_cases b : d < 1
  · simp [a, b]
  by_cases c : (m < 1 ∨ m > 12)
  · simp [a, b, c]
  simp only [a, b, c, if_false]
  have hm : 1 ≤ m ∧ m ≤ 12 := by omega
  have hd : ¬ d ≤ monthLen y m := by
    intro hd; exact h ⟨by omega, hm.1, hm.2, by omega, hd⟩
  rw [← monthDays_eq_monthLen y m hm] at hd
  simp only [monthDays] at hd
  obtain ⟨h1, h2⟩ := hm
  split_ifs at hd ⊢ <;> interval_cases m <;>
    simp_all [pyIdxD, pyIdx?, month_days_leap_year, month_days_not_leap_year] <;> omega

/-- The error kind per failing condition, in the code's order. -/
theorem mkDateQ_error_kinds (d m y : Int) :
    (y < 1900 → mkDate? d m y = .error .finError) ∧
    (d < 1 → mkDate? d m y = .error .finError) ∧
    ((m < 1 ∨ m > 12) → mkDate? d m y = .error .finError) ∧
    (1 ≤ m ∧ m ≤ 12 → d > monthLen y m → mkDate? d m y = .error .finError) ∧
    mkDate? d m y ≠ .error .indexError ∧ mkDate? d m y ≠ .error .other := by
  have key : ∀ (hbad : ¬ (1900 ≤ y ∧ Valid d m y)), mkDate? d m y = .error .finError :=
    mkDateQ_rejects_with_finError d m y
  refine ⟨fun h => key (by omega), fun h => key (by simp only [Valid]; omega),
    fun h => key (by simp only [Valid]; omega), fun _ h => key (by simp only [Valid]; omega), ?_, ?_⟩
  all_goals (
    by_cases hv : 1900 ≤ y ∧ Valid d m y
    · rw [(mkDateQ_ok_iff_valid d m y _).mpr ⟨hv.1, hv.2, rfl⟩]; simp
    · rw [key hv]; simp)

/-- Non-vacuity: 29 Feb 2100 and 29 Feb 2200 (century non-leap years), month 0, month 13, day 0 and year 1899 are
rejected with FinError; 29 Feb 2000 is accepted with serial 36585. -/
example : mkDate? 29 2 2100 = .error .finError ∧ mkDate? 29 2 2200 = .error .finError ∧
    mkDate? 15 0 2020 = .error .finError ∧ mkDate? 15 13 2020 = .error .finError ∧ mkDate? 0 1 2020 = .error .finError ∧
    mkDate? 1 1 1899 = .error .finError ∧ (mkDate? 29 2 2000).toOption.map (·.serial) = some 36585 := by
  decide +kernel

/-! ### `add_days`: composition and inverse of the walk, any number of steps -/

/-- one step of the `add_days` index walk -/
def step1 (fwd : Bool) (t : Int × Int × Int) : Int × Int × Int :=
  if fwd then nextDayT t.1 t.2.1 t.2.2 else prevDayT t.1 t.2.1 t.2.2

def TV (t : Int × Int × Int) : Prop := TableValid t.1 t.2.1 t.2.2

theorem stepDays_zero (fwd : Bool) (t : Int × Int × Int) : stepDays 0 fwd t = t := by
  obtain ⟨d, m, y⟩ := t; simp [stepDays]

theorem stepDays_succ (k : Nat) (fwd : Bool) (t : Int × Int × Int) :
    stepDays (k + 1) fwd t = stepDays k fwd (step1 fwd t) := by
  obtain ⟨d, m, y⟩ := t; simp [stepDays, step1]

theorem stepDays_snoc (k : Nat) (fwd : Bool) (t : Int × Int × Int) :
    stepDays (k + 1) fwd t = step1 fwd (stepDays k fwd t) := by
  induction k generalizing t with
  | zero => rw [stepDays_succ, stepDays_zero, stepDays_zero]
  | succ n ih => rw [stepDays_succ, ih, ← stepDays_succ]

/-- walking `a + b` entries = walking `a`, then `b` -/
theorem stepDays_add (a b : Nat) (fwd : Bool) (t : Int × Int × Int) :
    stepDays (a + b) fwd t = stepDays b fwd (stepDays a fwd t) := by
  induction a generalizing t with
  | zero => simp [stepDays_zero]
  | succ n ih =>
    have : n + 1 + b = (n + b) + 1 := by omega
    rw [this, stepDays_succ, ih, ← stepDays_succ]

theorem step1_inverse (fwd : Bool) (t : Int × Int × Int) (hv : TV t) :
    TV (step1 fwd t) ∧ step1 (!fwd) (step1 fwd t) = t := by
  obtain ⟨d, m, y⟩ := t
  cases fwd with
  | true =>
    simp only [step1, TV, if_true, Bool.not_true, Bool.false_eq_true, if_false]
    exact ⟨(nextDayT_valid d m y hv).1, prevDayT_nextDayT d m y hv⟩
  | false =>
    simp only [step1, TV, if_true, Bool.not_false, Bool.false_eq_true, if_false]
    exact ⟨(prevDayT_valid d m y hv).1, nextDayT_prevDayT d m y hv⟩

theorem stepDays_valid (k : Nat) (fwd : Bool) (t : Int × Int × Int) (hv : TV t) : TV (stepDays k fwd t) := by
  induction k generalizing t with
  | zero => rw [stepDays_zero]; exact hv
  | succ n ih => rw [stepDays_succ]; exact ih _ (step1_inverse fwd t hv).1

/-- C13 "forward then backward day steps are inverse", for the walk: `k` steps one way then `k` steps the other way
return to the start — any `k`, any table-valid start, either direction first, any year. -/
theorem stepDays_inverse (k : Nat) (fwd : Bool) (t : Int × Int × Int) (hv : TV t) :
    stepDays k (!fwd) (stepDays k fwd t) = t := by
  induction k generalizing t with
  | zero => simp [stepDays_zero]
  | succ n ih =>
    rw [stepDays_snoc n fwd t, stepDays_succ, (step1_inverse fwd _ (stepDays_valid n fwd t hv)).2]
    exact ih t hv

/-- The constructor's month length never exceeds the table's (they differ only in February 1900). -/
theorem tableValid_of_validG (d m y : Int) (h : ValidG d m y) : TableValid d m y := by
  obtain ⟨hy, h1, h2, h3, h4⟩ := h
  refine ⟨h1, h2, h3, ?_⟩
  by_cases hy0 : y = 1900
  · subst hy0
    have : monthDays 1900 m ≤ tableMonthDays 1900 m := by interval_cases m <;> decide
    omega
  · rw [tableMonthDays_eq y m ⟨h1, h2⟩ hy0, ← monthDays_eq_monthLen y m ⟨h1, h2⟩]; exact h4

theorem addDays_unfold (a : PyDate) (n : Int) :
    addDays a n = mkDate? (stepDays n.natAbs (decide (n ≥ 0)) (a.d, a.m, a.y)).1
      (stepDays n.natAbs (decide (n ≥ 0)) (a.d, a.m, a.y)).2.1 (stepDays n.natAbs (decide (n ≥ 0)) (a.d, a.m, a.y)).2.2 := by
  simp only [addDays]

/-- the direction flag is irrelevant for a zero-length walk -/
theorem stepDays_dir (n : Int) (f : Bool) (hf : n ≠ 0 → f = decide (n ≥ 0)) (t : Int × Int × Int) :
    stepDays n.natAbs (decide (n ≥ 0)) t = stepDays n.natAbs f t := by
  by_cases hn : n = 0
  · subst hn; simp [stepDays_zero]
  · rw [hf hn]

/-- `add_days` returns a well-formed date whose (d, m, y) is the end of the walk. -/
theorem addDays_ok (a r : PyDate) (n : Int) (h : addDays a n = .ok r) :
    WF r ∧ (r.d, r.m, r.y) = stepDays n.natAbs (decide (n ≥ 0)) (a.d, a.m, a.y) := by
  rw [addDays_unfold] at h
  obtain ⟨hv, hr⟩ := (mkDateQ_iff _ _ _ _).mp h
  subst hr
  exact ⟨⟨rfl, hv⟩, rfl⟩

/-- C13 "forward then backward day steps are inverse" at full strength: for every well-formed date and EVERY `n`
(either sign, no bound, any year), if `add_days(n)` returns `r` then `r.add_days(−n)` returns the start. -/
theorem addDays_inverse (a r : PyDate) (n : Int) (ha : WF a) (h : addDays a n = .ok r) :
    addDays r (-n) = .ok a := by
  obtain ⟨hwr, hr⟩ := addDays_ok a r n h
  have htv : TV (a.d, a.m, a.y) := tableValid_of_validG _ _ _ ha.2
  rw [addDays_unfold, hr]
  rw [stepDays_dir (-n) (!decide (n ≥ 0)) (by
    intro hn
    by_cases hp : n ≥ 0
    · have hq : ¬ (-n ≥ 0) := by omega
      rw [decide_eq_true hp, decide_eq_false hq]; rfl
    · have hq : -n ≥ 0 := by omega
      rw [decide_eq_false hp, decide_eq_true hq]; rfl)]
  rw [Int.natAbs_neg, stepDays_inverse _ _ _ htv]
  exact (mkDateQ_iff _ _ _ _).mpr ⟨ha.2, ha.1⟩

/-- Same-sign `add_days` calls compose: `add_days(n₁)` then `add_days(n₂)` is `add_days(n₁ + n₂)`. -/
theorem addDays_compose (a b r : PyDate) (n₁ n₂ : Int) (hs : (0 ≤ n₁ ∧ 0 ≤ n₂) ∨ (n₁ ≤ 0 ∧ n₂ ≤ 0))
    (h1 : addDays a n₁ = .ok b) (h2 : addDays b n₂ = .ok r) : addDays a (n₁ + n₂) = .ok r := by
  obtain ⟨_, hb⟩ := addDays_ok a b n₁ h1
  rw [addDays_unfold, hb] at h2
  rw [addDays_unfold]
  rcases hs with ⟨p1, p2⟩ | ⟨p1, p2⟩
  · have e : (n₁ + n₂).natAbs = n₁.natAbs + n₂.natAbs := by omega
    have d1 : decide (n₁ ≥ 0) = true := decide_eq_true p1
    have d2 : decide (n₂ ≥ 0) = true := decide_eq_true p2
    have d3 : decide (n₁ + n₂ ≥ 0) = true := decide_eq_true (by omega)
    rw [e, d3, stepDays_add]
    rw [d1, d2] at h2
    exact h2
  · have e : (n₁ + n₂).natAbs = n₁.natAbs + n₂.natAbs := by omega
    rw [stepDays_dir n₁ false (by intro h; exact (decide_eq_false (by omega)).symm),
      stepDays_dir n₂ false (by intro h; exact (decide_eq_false (by omega)).symm)] at h2
    rw [stepDays_dir (n₁ + n₂) false (by intro h; exact (decide_eq_false (by omega)).symm), e, stepDays_add]
    exact h2

/-- Non-vacuity: 31 Jan 2024 + 30 days = 1 Mar 2024 (leap February crossed), and − 30 days returns. -/
example : (match addDays (mkDate 31 1 2024) 30 with | .ok r => (r.d, r.m, r.y) | .error _ => (0, 0, 0)) = (1, 3, 2024) ∧
    addDays (mkDate 1 3 2024) (-30) = .ok (mkDate 31 1 2024) := by
  decide +kernel

/-! ### `add_weekdays` counts exactly |n| weekdays -/

/-- Monday–Friday -/
def isWeekday (d : PyDate) : Bool := !(decide (d.wd = 5 ∨ d.wd = 6))

def wdBd (d : PyDate) : Option Bool := some (isWeekday d)

/-- The loop of `add_weekdays` IS the generic counting loop (the one `add_business_days` uses, C14) at the predicate
"Monday–Friday" and the step `add_days(±1)`. -/
theorem addWeekdaysLoop_eq_abdLoop (fwd : Bool) (fuel left : Nat) (cur : PyDate) :
    addWeekdaysLoop fwd fuel left cur
      = Algo.abdLoop wdBd (fun c => addDays c (if fwd then 1 else -1)) fuel left cur := by
  induction fuel generalizing left cur with
  | zero => cases left <;> simp [addWeekdaysLoop, Algo.abdLoop]
  | succ f ih =>
    cases left with
    | zero => simp [addWeekdaysLoop, Algo.abdLoop]
    | succ l =>
      simp only [addWeekdaysLoop, Algo.abdLoop]
      cases hs : addDays cur (if fwd then 1 else -1) with
      | error e => rfl
      | ok nd =>
        simp only
        by_cases hw : nd.wd = 5 ∨ nd.wd = 6
        · simp [wdBd, isWeekday, hw, ih]
        · simp [wdBd, isWeekday, hw, ih]

/-- C13 `add_weekdays(n)`: the loop visits consecutive days (each one `add_days(±1)` of the previous, starting strictly
after/before the start), EXACTLY `|n|` of the visited days are weekdays, the result is the last visited day — i.e. the
`|n|`-th weekday strictly after (before) the start — and it is a weekday when `n ≠ 0`. -/
theorem addWeekdays_counts_exactly (dt r : PyDate) (n : Int) (h : addWeekdays dt n = .ok r) :
    ∃ l : List PyDate, Chain (fun c => addDays c (if n > 0 then 1 else -1)) dt l ∧
      (l.filter isWeekday).length = n.natAbs ∧ r = l.getLast?.getD dt ∧ l.length ≤ n.natAbs * 3 + 7 ∧
      (n ≠ 0 → isWeekday r = true) := by
  simp only [addWeekdays, addWeekdaysLoop_eq_abdLoop] at h
  obtain ⟨l, hl⟩ := abd_trace_exists _ _ _ _ _ _ h
  obtain ⟨hc, hn, hres⟩ := abd_trace_spec _ _ _ _ _ _ hl
  obtain ⟨_, hlen⟩ := C14.abdTrace_defined _ _ _ _ _ _ hl
  rw [h] at hres
  refine ⟨l, ?_, ?_, Except.ok.inj hres, hlen, ?_⟩
  · simpa using hc
  · rw [← hn]; congr 1; apply List.filter_congr; intro x _; simp [wdBd]
  · intro hn0
    obtain ⟨k, hk⟩ : ∃ k, n.natAbs = k + 1 := ⟨n.natAbs - 1, by omega⟩
    rw [hk] at h
    have := C14.abd_lands_on_business_day _ _ _ _ _ _ h
    simpa [wdBd] using this

/-- C13: `add_weekdays(n)` then `add_weekdays(−n)` returns to the start when the start is a weekday — every
well-formed date, every `n`. -/
theorem addWeekdays_inverse (dt r : PyDate) (n : Int) (hwf : WF dt) (hwd : isWeekday dt = true)
    (h : addWeekdays dt n = .ok r) : addWeekdays r (-n) = .ok dt := by
  by_cases hn : n = 0
  · subst hn
    simp [addWeekdays, addWeekdaysLoop] at h ⊢
    exact h.symm
  simp only [addWeekdays, addWeekdaysLoop_eq_abdLoop, Int.natAbs_neg] at h ⊢
  have key := fun (s : Int) => abd_forward_then_backward wdBd WF (fun c => addDays c s) (fun c => addDays c (-s))
    (fun a b ha hab => ⟨(addDays_ok a b s hab).1, addDays_inverse a b s ha hab⟩) (n.natAbs * 3 + 7) n.natAbs dt r hwf
    (by simp [wdBd, hwd])
  by_cases hp : n > 0
  · have hq : ¬ (-n > 0) := by omega
    simp only [hp, hq, decide_true, decide_false, if_true, Bool.false_eq_true, if_false] at h ⊢
    exact key 1 h
  · have hq : -n > 0 := by omega
    simp only [hp, hq, decide_true, decide_false, if_true, Bool.false_eq_true, if_false] at h ⊢
    have := key (-1) h
    simpa using this

/-- Non-vacuity: Friday 5 Jan 2024 + 1 weekday = Monday 8 Jan 2024 (three days visited, one weekday counted);
+ 6 weekdays = Monday 15 Jan; − 6 from there returns. -/
example : (match addWeekdays (mkDate 5 1 2024) 1 with | .ok r => (r.d, r.m, r.y, r.wd) | .error _ => (0, 0, 0, 0)) = (8, 1, 2024, 0) ∧
    (match addWeekdays (mkDate 5 1 2024) 6 with | .ok r => (r.d, r.m, r.y) | .error _ => (0, 0, 0)) = (15, 1, 2024) ∧
    addWeekdays (mkDate 15 1 2024) (-6) = .ok (mkDate 5 1 2024) := by
  decide +kernel

/-! ### day and week tenors -/

/-- Iterating `add_days(c)` `k` times is `add_days(k·c)`. -/
theorem iterE_addDays (c : Int) (k : Nat) (a r : PyDate) (ha : WF a)
    (h : iterE (fun x => addDays x c) k a = .ok r) : addDays a ((k : Int) * c) = .ok r ∧ WF r := by
  induction k generalizing a with
  | zero =>
    simp only [iterE, Except.ok.injEq] at h; subst h
    refine ⟨?_, ha⟩
    rw [addDays_unfold]
    simp only [Nat.cast_zero, zero_mul, Int.natAbs_zero, stepDays_zero]
    exact (mkDateQ_iff _ _ _ _).mpr ⟨ha.2, ha.1⟩
  | succ n ih =>
    simp only [iterE] at h
    cases hs : addDays a c with
    | error e => simp [hs] at h
    | ok b =>
      simp only [hs] at h
      obtain ⟨i1, i2⟩ := ih b (addDays_ok a b c hs).1 h
      refine ⟨?_, i2⟩
      have e : ((n + 1 : Nat) : Int) * c = c + (n : Int) * c := by push_cast; ring
      rw [e]
      refine addDays_compose a b r c ((n : Int) * c) ?_ hs i1
      rcases le_total 0 c with hc | hc
      · left; exact ⟨hc, Int.mul_nonneg (by omega) hc⟩
      · right; exact ⟨hc, Int.mul_nonpos_of_nonneg_of_nonpos (by omega) hc⟩

/-- C13 tenor "nD": `add_tenor("nD")` is `add_days(n)` on the validated start (both signs). -/
theorem addTenor_days_eq_addDays (dt d0 r : PyDate) (n : Int) (h0 : mkDate? dt.d dt.m dt.y = .ok d0)
    (h : addTenor dt n 1 = .ok r) : addDays d0 n = .ok r := by
  obtain ⟨hv0, hd0⟩ := (mkDateQ_iff _ _ _ _).mp h0
  have hwf : WF d0 := by subst hd0; exact ⟨rfl, hv0⟩
  simp only [addTenor, h0, if_true] at h
  have := (iterE_addDays _ _ _ _ hwf h).1
  have e : ((n.natAbs : Nat) : Int) * (if n ≥ 0 then 1 else -1) = n := by split_ifs <;> omega
  rwa [e] at this

/-- C13 tenor "nW": `add_tenor("nW")` is `add_days(7n)`. -/
theorem addTenor_weeks_eq_addDays (dt d0 r : PyDate) (n : Int) (h0 : mkDate? dt.d dt.m dt.y = .ok d0)
    (h : addTenor dt n 2 = .ok r) : addDays d0 (7 * n) = .ok r := by
  obtain ⟨hv0, hd0⟩ := (mkDateQ_iff _ _ _ _).mp h0
  have hwf : WF d0 := by subst hd0; exact ⟨rfl, hv0⟩
  simp only [addTenor, h0] at h
  norm_num at h
  have := (iterE_addDays _ _ _ _ hwf h).1
  have e : ((n.natAbs : Nat) : Int) * (if 0 ≤ n then 7 else -7) = 7 * n := by split_ifs <;> omega
  rwa [e] at this

/-- Hence a day tenor moves the serial by exactly `n` and a week tenor by exactly `7n`, keeping the weekday
(forward: any `n ≥ 0`; backward: as long as the walk stays after 1901, as in `addDays_serial`). -/
theorem addTenor_days_weeks_serial (d m y n : Int) (r : PyDate) (u : Int) (hu : u = 1 ∨ u = 2)
    (hv : Valid d m y) (hy : 1901 ≤ y) (hback : n < 0 → 1901 + 7 * (-n) ≤ y)
    (h : addTenor (mkDate d m y) n u = .ok r) :
    r.serial = (mkDate d m y).serial + (if u = 1 then n else 7 * n) ∧ (u = 2 → r.wd = (mkDate d m y).wd) := by
  have h0 : mkDate? d m y = .ok (mkDate d m y) := (mkDateQ_ok_iff_valid d m y _).mpr ⟨by omega, hv, rfl⟩
  have htv : TableValid d m y := tableValid_of_validG d m y ((mkDateQ_iff _ _ _ _).mp h0).1
  rcases hu with rfl | rfl
  · have := addTenor_days_eq_addDays (mkDate d m y) (mkDate d m y) r n h0 h
    have hs := addDays_serial d m y n r htv hy (by intro hn; have := hback hn; omega) this
    exact ⟨by simpa using hs, by intro h; omega⟩
  · have := addTenor_weeks_eq_addDays (mkDate d m y) (mkDate d m y) r n h0 h
    have hs := addDays_serial d m y (7 * n) r htv hy (by intro hn; have := hback (by omega); omega) this
    refine ⟨by simpa using hs, fun _ => ?_⟩
    have hwr := (addDays_ok _ _ _ this).1.1
    have hwd : r.wd = weekday r.serial := by rw [hwr]; rfl
    rw [hwd, hs]
    simp only [mkDate]
    exact weekday_add_weeks _ _

/-- Non-vacuity: 28 Feb 2023 + "2W" = 14 Mar 2023, same weekday (Tuesday); + "-3D" = 25 Feb 2023. -/
example : (match addTenor (mkDate 28 2 2023) 2 2 with | .ok r => (r.d, r.m, r.y, r.wd) | .error _ => (0, 0, 0, 0)) = (14, 3, 2023, 1) ∧
    (mkDate 28 2 2023).wd = 1 ∧
    (match addTenor (mkDate 28 2 2023) (-3) 1 with | .ok r => (r.d, r.m, r.y) | .error _ => (0, 0, 0)) = (25, 2, 2023) := by
  decide +kernel

end FinVerif.Props.C13
