/-
  C13 (part g) — month arithmetic and month ends, for EVERY date and EVERY `k`:

  * `add_months` succeeds on a date with a valid day exactly when the target year is ≥ 1900 (`addMonths_ok_iff`) — it can
    never fail by producing an invalid day, because the day is clipped to the target month's length;
  * `add_months` keeps the day whenever the target month has it (`addMonths_keeps_day`), `add_months(0)` is the identity;
  * composition on the month index: `add_months(a)` then `add_months(b)` lands in the same month as `add_months(a + b)`,
    with a day that is never later, and equal when the start day is ≤ 28 (`addMonths_compose`); in particular
    `add_months(k)` then `add_months(−k)` returns to the same month, the same day when it is ≤ 28;
  * monotonicity: `dt₁ ≤ dt₂` (calendar order) ⇒ `dt₁.add_months(k) ≤ dt₂.add_months(k)`, also stated on the spec serial
    (`addMonths_mono`, `addMonths_mono_serial`) — but not strictly (`addMonths_not_strict`: 30 and 31 Jan + 1M collide);
  * `eom()` returns the last valid day of the month and the GENERATED `is_eom` / `days_in_month` agree with the
    specification's month length (`eom_spec`, `is_eom_iff`, `days_in_month_eq_monthLen`);
  * "nY" and "12nM": the two tenor calls succeed or fail TOGETHER (`add_tenor_years_months_fail_together`), completing
    `add_tenor_years_eq_months_partial`: both fail exactly when the target month lies before January 1900.
-/
import FinVerif.Props.C13c
import FinVerif.Props.C13d
import FinVerif.Props.C13f
import Mathlib.Tactic.IntervalCases
import Mathlib.Tactic.SplitIfs
import Mathlib.Tactic.Ring

set_option linter.unusedSimpArgs false
set_option linter.unusedVariables false

namespace FinVerif.Props.C13
open FinVerif FinVerif.Model FinVerif.Spec FinVerif.Gen.DateK
open FinVerif.Props.C14 (ValidG WF mkDateQ_iff)

theorem monthLen_range (y m : Int) : 28 ≤ monthLen y m ∧ monthLen y m ≤ 31 := by
  simp only [monthLen]; split_ifs <;> omega

/-- target month and year of `add_months(k)` -/
def tgtY (dt : PyDate) (k : Int) : Int := dt.y + (dt.m + k - 1) / 12
def tgtM (dt : PyDate) (k : Int) : Int := (dt.m + k - 1) % 12 + 1

theorem tgtM_range (dt : PyDate) (k : Int) : 1 ≤ tgtM dt k ∧ tgtM dt k ≤ 12 := by
  simp only [tgtM]; omega

theorem addMonths_unfold (dt : PyDate) (k : Int) :
    addMonths dt k = mkDate? (if dt.d > monthLen (tgtY dt k) (tgtM dt k) then monthLen (tgtY dt k) (tgtM dt k) else dt.d)
      (tgtM dt k) (tgtY dt k) := by
  simp only [addMonths, tgtY, tgtM]
  rw [monthDays_eq_monthLen _ _ (by omega)]
  rfl

/-- C13: `add_months(k)` on a date with `d ≥ 1` succeeds EXACTLY when the target year is ≥ 1900 — the clipped day is
always valid in the target month, so the only possible rejection is the year. -/
theorem addMonths_ok_iff (dt : PyDate) (k : Int) (hd : 1 ≤ dt.d) :
    (∃ r, addMonths dt k = .ok r) ↔ 1900 ≤ tgtY dt k := by
  rw [addMonths_unfold, mkDateQ_accepts_iff]
  have hm := tgtM_range dt k
  have hl := monthLen_range (tgtY dt k) (tgtM dt k)
  constructor
  · exact fun h => h.1
  · intro h
    refine ⟨h, hm.1, hm.2, ?_, ?_⟩ <;> split_ifs <;> omega

/-- The result explicitly. -/
theorem addMonths_eq (dt r : PyDate) (k : Int) (h : addMonths dt k = .ok r) :
    r = mkDate (if dt.d > monthLen (tgtY dt k) (tgtM dt k) then monthLen (tgtY dt k) (tgtM dt k) else dt.d)
      (tgtM dt k) (tgtY dt k) ∧ 1900 ≤ tgtY dt k := by
  rw [addMonths_unfold] at h
  obtain ⟨a, _, c⟩ := (mkDateQ_ok_iff_valid _ _ _ _).mp h
  exact ⟨c, a⟩

/-- C13 "a tenor keeps the original day-of-month wherever the target month has it", for `add_months`. -/
theorem addMonths_keeps_day (dt r : PyDate) (k : Int) (h : addMonths dt k = .ok r)
    (hd : dt.d ≤ monthLen r.y r.m) : r.d = dt.d := by
  obtain ⟨_, _, _, h4⟩ := addMonths_spec dt k r h
  rw [h4, if_neg (by omega)]

/-- `add_months(0)` is the identity on well-formed dates. -/
theorem addMonths_zero (dt : PyDate) (hwf : WF dt) : addMonths dt 0 = .ok dt := by
  obtain ⟨h1, hy, hm1, hm2, hd1, hd2⟩ := hwf
  have ey : tgtY dt 0 = dt.y := by simp only [tgtY]; omega
  have em : tgtM dt 0 = dt.m := by simp only [tgtM]; omega
  rw [addMonths_unfold, ey, em]
  rw [monthDays_eq_monthLen _ _ ⟨hm1, hm2⟩] at hd2
  rw [if_neg (by omega)]
  exact (mkDateQ_iff _ _ _ _).mpr ⟨⟨hy, hm1, hm2, hd1, by rw [monthDays_eq_monthLen _ _ ⟨hm1, hm2⟩]; exact hd2⟩, h1⟩

/-- C13 composition law of month arithmetic: `add_months(a)` then `add_months(b)` lands in the same month and year as
`add_months(a + b)`; its day is never later (a clipped day sticks), and it is the same date when the start day is ≤ 28. -/
theorem addMonths_compose (dt r₁ r₂ r₃ : PyDate) (a b : Int) (h1 : addMonths dt a = .ok r₁)
    (h2 : addMonths r₁ b = .ok r₂) (h3 : addMonths dt (a + b) = .ok r₃) :
    r₂.m = r₃.m ∧ r₂.y = r₃.y ∧ r₂.d ≤ r₃.d ∧ (dt.d ≤ 28 → r₂ = r₃) := by
  obtain ⟨i1, m1a, m1b, d1⟩ := addMonths_spec dt a r₁ h1
  obtain ⟨i2, m2a, m2b, d2⟩ := addMonths_spec r₁ b r₂ h2
  obtain ⟨i3, m3a, m3b, d3⟩ := addMonths_spec dt (a + b) r₃ h3
  have em : r₂.m = r₃.m := by omega
  have ey : r₂.y = r₃.y := by omega
  have l1 := monthLen_range r₁.y r₁.m
  have l3 := monthLen_range r₃.y r₃.m
  rw [em, ey] at d2
  refine ⟨em, ey, ?_, ?_⟩
  · rw [d2, d3, d1]; split_ifs <;> omega
  · intro h28
    have ed : r₂.d = r₃.d := by rw [d2, d3, d1]; split_ifs <;> omega
    rw [(addMonths_eq _ _ _ h2).1, (addMonths_eq _ _ _ h3).1]
    have e2 := (addMonths_eq _ _ _ h2).1
    have e3 := (addMonths_eq _ _ _ h3).1
    have f2d : r₂.d = _ := congrArg PyDate.d e2
    have f2m : r₂.m = _ := congrArg PyDate.m e2
    have f2y : r₂.y = _ := congrArg PyDate.y e2
    have f3d : r₃.d = _ := congrArg PyDate.d e3
    have f3m : r₃.m = _ := congrArg PyDate.m e3
    have f3y : r₃.y = _ := congrArg PyDate.y e3
    simp only [mkDate] at f2d f2m f2y f3d f3m f3y
    rw [← f2d, ← f2m, ← f2y, ← f3d, ← f3m, ← f3y, ed, em, ey]

/-- In particular `add_months(k)` then `add_months(−k)` returns to the start's month, with the start's day when
it is ≤ 28 (a 29th–31st may come back clipped). -/
theorem addMonths_there_and_back (dt r₁ r₂ : PyDate) (k : Int) (hwf : WF dt) (h1 : addMonths dt k = .ok r₁)
    (h2 : addMonths r₁ (-k) = .ok r₂) : r₂.m = dt.m ∧ r₂.y = dt.y ∧ r₂.d ≤ dt.d ∧ (dt.d ≤ 28 → r₂ = dt) := by
  have h3 : addMonths dt (k + -k) = .ok dt := by rw [Int.add_right_neg]; exact addMonths_zero dt hwf
  exact addMonths_compose dt r₁ r₂ dt k (-k) h1 h2 h3

/-- calendar order on (month index, day) -/
def lexLe (a b : PyDate) : Prop := monthIndex a < monthIndex b ∨ (monthIndex a = monthIndex b ∧ a.d ≤ b.d)

/-- C13 monotonicity of month arithmetic: if `dt₁` is not after `dt₂` in the calendar order then `dt₁.add_months(k)` is
not after `dt₂.add_months(k)` — for every `k`. -/
theorem addMonths_mono (dt₁ dt₂ r₁ r₂ : PyDate) (k : Int) (hle : lexLe dt₁ dt₂)
    (h1 : addMonths dt₁ k = .ok r₁) (h2 : addMonths dt₂ k = .ok r₂) : lexLe r₁ r₂ := by
  obtain ⟨i1, m1a, m1b, d1⟩ := addMonths_spec dt₁ k r₁ h1
  obtain ⟨i2, m2a, m2b, d2⟩ := addMonths_spec dt₂ k r₂ h2
  simp only [lexLe, monthIndex] at hle ⊢
  rcases hle with hlt | ⟨heq, hd⟩
  · left; omega
  · right
    have em : r₁.m = r₂.m := by omega
    have ey : r₁.y = r₂.y := by omega
    refine ⟨by omega, ?_⟩
    rw [d1, d2, em, ey]; split_ifs <;> omega

theorem lexLe_iff_serial_le (a b : PyDate) (ha : Valid a.d a.m a.y) (hb : Valid b.d b.m b.y) :
    lexLe a b ↔ serial a.d a.m a.y ≤ serial b.d b.m b.y := by
  have key := serial_lt_iff_lex b.d b.m b.y a.d a.m a.y hb ha
  obtain ⟨a1, a2, _, _⟩ := ha
  obtain ⟨b1, b2, _, _⟩ := hb
  simp only [lexLe, monthIndex]
  constructor
  · intro h
    by_contra hc
    have := key.mp (by omega)
    omega
  · intro h
    by_contra hc
    have : serial b.d b.m b.y < serial a.d a.m a.y := key.mpr (by omega)
    omega

/-- … the same on the specification's serial numbers: `serial dt₁ ≤ serial dt₂ ⇒ serial (dt₁ + kM) ≤ serial (dt₂ + kM)`. -/
theorem addMonths_mono_serial (dt₁ dt₂ r₁ r₂ : PyDate) (k : Int) (hv1 : Valid dt₁.d dt₁.m dt₁.y)
    (hv2 : Valid dt₂.d dt₂.m dt₂.y) (hle : serial dt₁.d dt₁.m dt₁.y ≤ serial dt₂.d dt₂.m dt₂.y)
    (h1 : addMonths dt₁ k = .ok r₁) (h2 : addMonths dt₂ k = .ok r₂) :
    serial r₁.d r₁.m r₁.y ≤ serial r₂.d r₂.m r₂.y := by
  have v1 : Valid r₁.d r₁.m r₁.y := by
    rw [addMonths_unfold] at h1
    obtain ⟨_, b, c⟩ := (mkDateQ_ok_iff_valid _ _ _ _).mp h1
    rw [c]; exact b
  have v2 : Valid r₂.d r₂.m r₂.y := by
    rw [addMonths_unfold] at h2
    obtain ⟨_, b, c⟩ := (mkDateQ_ok_iff_valid _ _ _ _).mp h2
    rw [c]; exact b
  exact (lexLe_iff_serial_le r₁ r₂ v1 v2).mp
    (addMonths_mono dt₁ dt₂ r₁ r₂ k ((lexLe_iff_serial_le dt₁ dt₂ hv1 hv2).mpr hle) h1 h2)

/-- Monotone but NOT strictly: 30 Jan 2023 and 31 Jan 2023 plus one month are both 28 Feb 2023. -/
theorem addMonths_not_strict :
    addMonths (mkDate 30 1 2023) 1 = addMonths (mkDate 31 1 2023) 1 ∧
    addMonths (mkDate 31 1 2023) 1 = .ok (mkDate 28 2 2023) := by
  decide +kernel

/-! ### month ends -/

/-- C13: `eom()` of a date with a valid month (year ≥ 1900) is the LAST valid day of its month. -/
theorem eom_spec (dt : PyDate) (hm : 1 ≤ dt.m ∧ dt.m ≤ 12) (hy : 1900 ≤ dt.y) :
    eom dt = .ok (mkDate (monthLen dt.y dt.m) dt.m dt.y) ∧
    (∀ d, Valid d dt.m dt.y → d ≤ monthLen dt.y dt.m) ∧ Valid (monthLen dt.y dt.m) dt.m dt.y := by
  have hl := monthLen_range dt.y dt.m
  have hv : Valid (monthLen dt.y dt.m) dt.m dt.y := ⟨hm.1, hm.2, by omega, le_refl _⟩
  refine ⟨?_, fun d hd => hd.2.2.2, hv⟩
  simp only [eom]
  rw [monthDays_eq_monthLen _ _ hm]
  exact (mkDateQ_ok_iff_valid _ _ _ _).mpr ⟨hy, hv, rfl⟩

open FinVerif.Gen.DateLogic in
/-- The GENERATED `is_eom` is "the day equals the specification's month length". -/
theorem is_eom_iff (dt : PyDate) (hm : 1 ≤ dt.m ∧ dt.m ≤ 12) :
    is_eom dt = .ok (decide (dt.d = monthLen dt.y dt.m)) := by
  obtain ⟨h1, h2⟩ := hm
  simp only [is_eom, monthLen, is_leap_year_eq_gLeap]
  generalize dt.m = m at *
  by_cases hl : gLeap dt.y = true <;>
    interval_cases m <;> simp [hl, pyIdxD, pyIdx?, tbl_month_days_leap_year, tbl_month_days_not_leap_year] <;>
    (split_ifs with hh <;> simp [hh])

open FinVerif.Gen.DateLogic in
/-- The GENERATED `days_in_month(m, y)` is the specification's month length for months 1..12 and a `FinError` otherwise. -/
theorem days_in_month_eq_monthLen (m y : Int) :
    days_in_month m y = if 1 ≤ m ∧ m ≤ 12 then .ok (monthLen y m) else .error .finError := by
  by_cases hm : 1 ≤ m ∧ m ≤ 12
  · obtain ⟨h1, h2⟩ := hm
    simp only [days_in_month, monthLen, is_leap_year_eq_gLeap]
    by_cases hl : gLeap y = true <;>
      interval_cases m <;> simp [hl, pyIdxD, pyIdx?, tbl_month_days_leap_year, tbl_month_days_not_leap_year]
  · rw [if_neg hm]
    simp only [days_in_month]
    have : (decide (m < 1) || decide (m > 12)) = true := by
      simp only [Bool.or_eq_true, decide_eq_true_eq]; omega
    rw [if_pos this]

/-- Non-vacuity: eom of 10 Feb 2100 (NOT a leap year) is 28 Feb 2100; of 10 Feb 2000 it is the 29th. -/
example : eom (mkDate 10 2 2100) = .ok (mkDate 28 2 2100) ∧ eom (mkDate 10 2 2000) = .ok (mkDate 29 2 2000) ∧
    Gen.DateLogic.days_in_month 2 2100 = .ok 28 := by decide +kernel

/-! ### "nY" and "12nM" succeed or fail together -/

/-- Iterated month steps of constant size `c` from a valid date succeed exactly when the FINAL month index is not before
January 1900 (the index moves monotonically, so no intermediate step can fail otherwise). -/
theorem iterE_addMonths_ok_iff (c : Int) (k : Nat) (d0 : PyDate) (hd : 1 ≤ d0.d) (hm : 1 ≤ d0.m ∧ d0.m ≤ 12)
    (hy : 1900 ≤ d0.y) :
    (∃ r, iterE (fun x => addMonths x c) k d0 = .ok r) ↔ 22800 ≤ monthIndex d0 + (k : Int) * c := by
  induction k generalizing d0 with
  | zero =>
    simp only [iterE, monthIndex, Nat.cast_zero, zero_mul, add_zero]
    exact ⟨fun _ => by omega, fun _ => ⟨d0, rfl⟩⟩
  | succ n ih =>
    have hk : ((n + 1 : Nat) : Int) * c = c + (n : Int) * c := by push_cast; ring
    have hsgn : (0 ≤ c ∧ 0 ≤ (n : Int) * c) ∨ (c < 0 ∧ (n : Int) * c ≤ 0) := by
      rcases le_or_gt 0 c with hc | hc
      · left; exact ⟨hc, Int.mul_nonneg (by omega) hc⟩
      · right; exact ⟨hc, Int.mul_nonpos_of_nonneg_of_nonpos (by omega) (by omega)⟩
    have facts : ∀ nd, addMonths d0 c = .ok nd →
        monthIndex nd = monthIndex d0 + c ∧ 1 ≤ nd.d ∧ (1 ≤ nd.m ∧ nd.m ≤ 12) ∧ 1900 ≤ nd.y := by
      intro nd ha
      obtain ⟨s1, s2, s3, s4⟩ := addMonths_spec d0 c nd ha
      have hy' := addMonths_eq d0 nd c ha
      have ndy : nd.y = tgtY d0 c := congrArg PyDate.y hy'.1
      have hl := monthLen_range nd.y nd.m
      refine ⟨by simp only [monthIndex]; omega, by rw [s4]; split_ifs <;> omega, ⟨s2, s3⟩, by omega⟩
    rw [hk]
    simp only [iterE]
    constructor
    · rintro ⟨r, hr⟩
      cases ha : addMonths d0 c with
      | error e => simp [ha] at hr
      | ok nd =>
        simp only [ha] at hr
        obtain ⟨f1, f2, f3, f4⟩ := facts nd ha
        have := (ih nd f2 f3 f4).mp ⟨r, hr⟩
        omega
    · intro h
      have hok : 1900 ≤ tgtY d0 c := by
        simp only [tgtY, monthIndex] at h ⊢
        rcases hsgn with ⟨a, b⟩ | ⟨a, b⟩ <;> omega
      obtain ⟨nd, ha⟩ := (addMonths_ok_iff d0 c hd).mpr hok
      obtain ⟨f1, f2, f3, f4⟩ := facts nd ha
      obtain ⟨r, hr⟩ := (ih nd f2 f3 f4).mpr (by omega)
      exact ⟨r, by simp only [ha]; exact hr⟩

/-- the common tail of the month and year tenors (restore the original day, clipped to the month end) never fails -/
theorem tenor_tail_ok (dt r : PyDate) (hd : 1 ≤ dt.d) (hm : 1 ≤ r.m ∧ r.m ≤ 12) (hy : 1900 ≤ r.y) :
    ∃ a, (match eom r with
      | .error e => (.error e : Except PyErr PyDate)
      | .ok e => mkDate? (min dt.d e.d) r.m r.y) = .ok a := by
  rw [(eom_spec r hm hy).1]
  have hl := monthLen_range r.y r.m
  refine ⟨_, (mkDateQ_ok_iff_valid _ _ _ _).mpr ⟨hy, ⟨hm.1, hm.2, ?_, ?_⟩, rfl⟩⟩
  · simp only [mkDate]; omega
  · simp only [mkDate]; omega

/-- C13 "nY and 12nM agree", completed: the two calls succeed or fail TOGETHER — each succeeds exactly when the start is a
valid date and the target month (12n months away) is not before January 1900.  With
`add_tenor_years_eq_months_partial` (equal results when both succeed) this is the full statement: `add_tenor("nY")` and
`add_tenor("12nM")` have the same outcome for every date and every `n`. -/
theorem add_tenor_years_months_fail_together (dt : PyDate) (n : Int) :
    ((∃ a, addTenor dt n 4 = .ok a) ↔ ((∃ d0, mkDate? dt.d dt.m dt.y = .ok d0) ∧ 22800 ≤ monthIndex dt + 12 * n)) ∧
    ((∃ b, addTenor dt (12 * n) 3 = .ok b) ↔ ((∃ d0, mkDate? dt.d dt.m dt.y = .ok d0) ∧ 22800 ≤ monthIndex dt + 12 * n)) := by
  cases h0 : mkDate? dt.d dt.m dt.y with
  | error e =>
    constructor <;> (simp only [addTenor, h0]; simp)
  | ok d0 =>
    obtain ⟨hy0, ⟨hm1, hm2, hd1, hd2⟩, hd0⟩ := (mkDateQ_ok_iff_valid _ _ _ _).mp h0
    have e0 : d0.d = dt.d ∧ d0.m = dt.m ∧ d0.y = dt.y := by subst hd0; exact ⟨rfl, rfl, rfl⟩
    have hidx : monthIndex d0 = monthIndex dt := by simp only [monthIndex]; omega
    have hit := fun (c : Int) (k : Nat) =>
      iterE_addMonths_ok_iff c k d0 (by omega) ⟨by omega, by omega⟩ (by omega)
    have tail := fun (c : Int) (k : Nat) (r : PyDate) (hr : iterE (fun x => addMonths x c) k d0 = .ok r) =>
      tenor_tail_ok dt r hd1 (iterE_addMonths_index c k d0 r ⟨by omega, by omega⟩ hr).2
        (by
          have hi := (iterE_addMonths_index c k d0 r ⟨by omega, by omega⟩ hr)
          have := (hit c k).mp ⟨r, hr⟩
          simp only [monthIndex] at hi this
          omega)
    constructor
    · simp only [addTenor, h0]
      norm_num
      have ek : ((n.natAbs : Nat) : Int) * (if 0 ≤ n then 12 else -12) = 12 * n := by split_ifs <;> omega
      constructor
      · rintro ⟨a, ha⟩
        cases hr : iterE (fun x => addMonths x (if 0 ≤ n then 12 else -12)) n.natAbs d0 with
        | error e => simp [hr] at ha
        | ok r =>
          have := (hit _ _).mp ⟨r, hr⟩
          rw [ek, hidx] at this
          exact this
      · intro h
        obtain ⟨r, hr⟩ := (hit (if 0 ≤ n then 12 else -12) n.natAbs).mpr (by rw [ek, hidx]; exact h)
        obtain ⟨a, ha⟩ := tail _ _ r hr
        exact ⟨a, by simp only [hr]; exact ha⟩
    · simp only [addTenor, h0]
      norm_num
      have ek : (((12 * n).natAbs : Nat) : Int) * (if 0 ≤ n then 1 else -1) = 12 * n := by split_ifs <;> omega
      constructor
      · rintro ⟨a, ha⟩
        cases hr : iterE (fun x => addMonths x (if 0 ≤ n then 1 else -1)) (12 * n).natAbs d0 with
        | error e => simp [hr] at ha
        | ok r =>
          have := (hit _ _).mp ⟨r, hr⟩
          rw [ek, hidx] at this
          exact this
      · intro h
        obtain ⟨r, hr⟩ := (hit (if 0 ≤ n then 1 else -1) (12 * n).natAbs).mpr (by rw [ek, hidx]; exact h)
        obtain ⟨a, ha⟩ := tail _ _ r hr
        exact ⟨a, by simp only [hr]; exact ha⟩

/-- Corollary: same outcome — `add_tenor("nY")` succeeds iff `add_tenor("12nM")` does. -/
theorem add_tenor_years_ok_iff_months_ok (dt : PyDate) (n : Int) :
    (∃ a, addTenor dt n 4 = .ok a) ↔ (∃ b, addTenor dt (12 * n) 3 = .ok b) := by
  obtain ⟨h1, h2⟩ := add_tenor_years_months_fail_together dt n
  rw [h1, h2]

/-- Non-vacuity (failure side): from 15 Jun 1901, "-2Y" and "-24M" both fail (target June 1899), "-1Y" and "-12M" both
give 15 Jun 1900. -/
example : (addTenor (mkDate 15 6 1901) (-2) 4).toOption = none ∧ (addTenor (mkDate 15 6 1901) (-24) 3).toOption = none ∧
    addTenor (mkDate 15 6 1901) (-1) 4 = .ok (mkDate 15 6 1900) ∧
    addTenor (mkDate 15 6 1901) (-12) 3 = .ok (mkDate 15 6 1900) := by
  decide +kernel

end FinVerif.Props.C13
