/-
  C14 (part a) — every calendar's holiday function, as GENERATED from
  `financepy/utils/calendar.py`, equals its readable rule list, for ALL integers
  `d y wd diy` and every month `1 ≤ m ≤ 12` (no bound on the year); the Easter table equals the
  Gregorian computus for every year 1901–2199; the dispatch of `Calendar.is_holiday` selects the
  function of the calendar's own name.

  Proof method (semantic, robust to re-ordering of the tests in the source): split on the month,
  let `simp` evaluate every `decide (k = m')` with literal months, convert the remaining Bool
  equation to a Prop equivalence and close it with `omega`.
-/
import FinVerif.Gen.Calendar
import FinVerif.Spec.Calendar
import FinVerif.Lemmas.CalTactic

set_option linter.unusedSimpArgs false
set_option linter.unusedVariables false

namespace FinVerif.Props.C14
open FinVerif FinVerif.Gen.Calendar FinVerif.Spec

/-- The Easter-Monday table of the source equals the Gregorian computus, entry by entry
(299 entries, kernel evaluation, no axioms). -/
theorem easter_table_computus_all :
    (List.range 299).all (fun k => tbl_easterMondayDay[k]? == some ((easterMondayDoy (1901 + k) : Nat) : Int)) = true := by
  decide +kernel

theorem easter_table_length : tbl_easterMondayDay.length = 299 := by decide +kernel

/-- C14: Easter Monday used by every calendar is the computus Easter Monday, 1901 ≤ y ≤ 2199. -/
theorem easter_table_computus (y : Int) (h1 : 1901 ≤ y) (h2 : y ≤ 2199) :
    pyIdxD tbl_easterMondayDay (y - 1901) 0 = (easterMondayDoy y.toNat : Int) := by
  have hall := easter_table_computus_all
  rw [List.all_eq_true] at hall
  obtain ⟨k, rfl⟩ : ∃ k : Nat, y = 1901 + (k : Int) := ⟨(y - 1901).toNat, by omega⟩
  have hk : k < 299 := by omega
  have := hall k (List.mem_range.mpr hk)
  simp only [beq_iff_eq] at this
  have hlen := easter_table_length
  simp only [pyIdxD, pyIdx?, hlen]
  have e1 : (1901 + (k : Int) - 1901) = (k : Int) := by omega
  have e2 : (1901 + (k : Int)).toNat = 1901 + k := by omega
  rw [e1, e2]
  simp only [Int.natCast_nonneg, true_and, Int.toNat_natCast]
  have hk' : (k : Int) < (299 : Nat) := by omega
  simp only [hk', if_true, this, Option.getD_some]

/-- The year range on which the table read cannot fail (outside it the code wraps around for
1900 and raises IndexError from 2200 on — exercised in the correspondence's malformed stream). -/
theorem easter_index_in_range (y : Int) (h1 : 1901 ≤ y) (h2 : y ≤ 2199) :
    0 ≤ y - 1901 ∧ y - 1901 < (tbl_easterMondayDay.length : Int) := by
  rw [easter_table_length]; omega

section rules
variable (m d y wd diy em : Int)

/-- C14 UNITED_STATES -/
theorem holiday_united_states_iff_rules (hm : 1 ≤ m ∧ m ≤ 12) (hd : 1 ≤ d ∧ d ≤ 31) :
    holiday_united_states m d y wd diy = anyRule rulesUnitedStates m d y wd diy em := by
  obtain ⟨h1, h2⟩ := hm
  interval_cases m <;>
    simp [holiday_united_states, anyRule, rulesUnitedStates, Rule.holds, List.any] <;> cal_close

/-- C14 UNITED_KINGDOM -/
theorem holiday_united_kingdom_iff_rules (hm : 1 ≤ m ∧ m ≤ 12) (hd : 1 ≤ d ∧ d ≤ 31)
    (hem : pyIdxD tbl_easterMondayDay (y - 1901) 0 = em) :
    holiday_united_kingdom m d y wd diy = anyRule rulesUnitedKingdom m d y wd diy em := by
  obtain ⟨h1, h2⟩ := hm
  interval_cases m <;>
    simp [holiday_united_kingdom, anyRule, rulesUnitedKingdom, Rule.holds, List.any, hem] <;> cal_close

/-- C14 AUSTRALIA -/
theorem holiday_australia_iff_rules (hm : 1 ≤ m ∧ m ≤ 12) (hd : 1 ≤ d ∧ d ≤ 31)
    (hem : pyIdxD tbl_easterMondayDay (y - 1901) 0 = em) :
    holiday_australia m d y wd diy = anyRule rulesAustralia m d y wd diy em := by
  obtain ⟨h1, h2⟩ := hm
  interval_cases m <;>
    simp [holiday_australia, anyRule, rulesAustralia, Rule.holds, List.any, hem] <;> cal_close

/-- C14 CANADA -/
theorem holiday_canada_iff_rules (hm : 1 ≤ m ∧ m ≤ 12) (hd : 1 ≤ d ∧ d ≤ 31)
    (hem : pyIdxD tbl_easterMondayDay (y - 1901) 0 = em) :
    holiday_canada m d y wd diy = anyRule rulesCanada m d y wd diy em := by
  obtain ⟨h1, h2⟩ := hm
  interval_cases m <;>
    simp [holiday_canada, anyRule, rulesCanada, Rule.holds, List.any, hem] <;> cal_close

/-- C14 FRANCE -/
theorem holiday_france_iff_rules (hm : 1 ≤ m ∧ m ≤ 12) (hd : 1 ≤ d ∧ d ≤ 31)
    (hem : pyIdxD tbl_easterMondayDay (y - 1901) 0 = em) :
    holiday_france m d y wd diy = anyRule rulesFrance m d y wd diy em := by
  obtain ⟨h1, h2⟩ := hm
  interval_cases m <;>
    simp [holiday_france, anyRule, rulesFrance, Rule.holds, List.any, hem] <;> cal_close

/-- C14 GERMANY -/
theorem holiday_germany_iff_rules (hm : 1 ≤ m ∧ m ≤ 12) (hd : 1 ≤ d ∧ d ≤ 31)
    (hem : pyIdxD tbl_easterMondayDay (y - 1901) 0 = em) :
    holiday_germany m d y wd diy = anyRule rulesGermany m d y wd diy em := by
  obtain ⟨h1, h2⟩ := hm
  interval_cases m <;>
    simp [holiday_germany, anyRule, rulesGermany, Rule.holds, List.any, hem] <;> cal_close

/-- C14 ITALY -/
theorem holiday_italy_iff_rules (hm : 1 ≤ m ∧ m ≤ 12) (hd : 1 ≤ d ∧ d ≤ 31)
    (hem : pyIdxD tbl_easterMondayDay (y - 1901) 0 = em) :
    holiday_italy m d y wd diy = anyRule rulesItaly m d y wd diy em := by
  obtain ⟨h1, h2⟩ := hm
  interval_cases m <;>
    simp [holiday_italy, anyRule, rulesItaly, Rule.holds, List.any, hem] <;> cal_close

/-- C14 JAPAN -/
theorem holiday_japan_iff_rules (hm : 1 ≤ m ∧ m ≤ 12) (hd : 1 ≤ d ∧ d ≤ 31) :
    holiday_japan m d y wd diy = anyRule rulesJapan m d y wd diy em := by
  obtain ⟨h1, h2⟩ := hm
  interval_cases m <;>
    simp [holiday_japan, anyRule, rulesJapan, Rule.holds, List.any] <;> cal_close

/-- C14 NEW_ZEALAND -/
theorem holiday_new_zealand_iff_rules (hm : 1 ≤ m ∧ m ≤ 12) (hd : 1 ≤ d ∧ d ≤ 31)
    (hem : pyIdxD tbl_easterMondayDay (y - 1901) 0 = em) :
    holiday_new_zealand m d y wd diy = anyRule rulesNewZealand m d y wd diy em := by
  obtain ⟨h1, h2⟩ := hm
  interval_cases m <;>
    simp [holiday_new_zealand, anyRule, rulesNewZealand, Rule.holds, List.any, hem] <;> cal_close

/-- C14 NORWAY -/
theorem holiday_norway_iff_rules (hm : 1 ≤ m ∧ m ≤ 12) (hd : 1 ≤ d ∧ d ≤ 31)
    (hem : pyIdxD tbl_easterMondayDay (y - 1901) 0 = em) :
    holiday_norway m d y wd diy = anyRule rulesNorway m d y wd diy em := by
  obtain ⟨h1, h2⟩ := hm
  interval_cases m <;>
    simp [holiday_norway, anyRule, rulesNorway, Rule.holds, List.any, hem] <;> cal_close

/-- C14 SWEDEN -/
theorem holiday_sweden_iff_rules (hm : 1 ≤ m ∧ m ≤ 12) (hd : 1 ≤ d ∧ d ≤ 31)
    (hem : pyIdxD tbl_easterMondayDay (y - 1901) 0 = em) :
    holiday_sweden m d y wd diy = anyRule rulesSweden m d y wd diy em := by
  obtain ⟨h1, h2⟩ := hm
  interval_cases m <;>
    simp [holiday_sweden, anyRule, rulesSweden, Rule.holds, List.any, hem] <;> cal_close

/-- C14 SWITZERLAND -/
theorem holiday_switzerland_iff_rules (hm : 1 ≤ m ∧ m ≤ 12) (hd : 1 ≤ d ∧ d ≤ 31)
    (hem : pyIdxD tbl_easterMondayDay (y - 1901) 0 = em) :
    holiday_switzerland m d y wd diy = anyRule rulesSwitzerland m d y wd diy em := by
  obtain ⟨h1, h2⟩ := hm
  interval_cases m <;>
    simp [holiday_switzerland, anyRule, rulesSwitzerland, Rule.holds, List.any, hem] <;> cal_close

/-- C14 TARGET -/
theorem holiday_target_iff_rules (hm : 1 ≤ m ∧ m ≤ 12) (hd : 1 ≤ d ∧ d ≤ 31)
    (hem : pyIdxD tbl_easterMondayDay (y - 1901) 0 = em) :
    holiday_target m d y wd diy = anyRule rulesTarget m d y wd diy em := by
  obtain ⟨h1, h2⟩ := hm
  interval_cases m <;>
    simp [holiday_target, anyRule, rulesTarget, Rule.holds, List.any, hem] <;> cal_close

/-- C14 NONE: no day is a holiday. -/
theorem holiday_none_never : holiday_none m d y wd diy = false := by
  simp [holiday_none]

/-- C14 WEEKEND: `is_holiday` of the WEEKEND calendar is "is a weekend" (the code's own rule). -/
theorem holiday_weekend_iff : holiday_weekend m d y wd diy = (decide (wd = SAT) || decide (wd = SUN)) := by
  simp [holiday_weekend, is_weekend, SAT, SUN]

end rules

/-- C14: `Calendar.is_holiday` dispatches every `CalendarTypes` value to the holiday function of
that calendar's own name, and covers all 15 members of the enum as it is in the source now. -/
theorem dispatch_is_by_name :
    calendarTypes.all (fun (nm, code) =>
      isHolidayDispatch.any (fun (c, f) => c == code && f == "holiday_" ++ nm.toLower)) = true := by
  decide +kernel

/-- Non-vacuity: 4 July 2023 (a Tuesday, day 185) satisfies the hypotheses and is a US holiday;
5 July 2023 is not. -/
example : holiday_united_states 7 4 2023 1 185 = true ∧ holiday_united_states 7 5 2023 2 186 = false := by
  decide

end FinVerif.Props.C14
