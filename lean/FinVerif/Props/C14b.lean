/-
  C14 (part b) — laws of `Calendar.adjust` and `add_business_days`, proved for the generic
  algorithm (`FinVerif.Algo`), hence for the model of the code (instantiated with the GENERATED
  holiday functions) and for the spec.  For every business-day predicate, every stepping function,
  every fuel, every date — no bound on anything.
-/
import FinVerif.Core.AdjustAlgo
import FinVerif.Model.Calendar

namespace FinVerif.Props.C14
open FinVerif FinVerif.Algo

variable (bd : PyDate → Option Bool) (addDays : PyDate → Int → Except PyErr PyDate)
  (mk : Int → Int → Int → PyDate)

/-- The walk only ever returns a business day. -/
theorem walk_result_is_business_day (dir : Int) (fuel : Nat) (dt r : PyDate)
    (h : walk bd addDays dir fuel dt = .ok r) : bd r = some true := by
  induction fuel generalizing dt with
  | zero => simp [walk] at h
  | succ n ih =>
    unfold walk at h
    split at h
    · simp at h
    · rename_i hb; simp at h; subst h; exact hb
    · split at h
      · simp at h
      · exact ih _ h

/-- The walk does not move a business day. -/
theorem walk_business_day_id (dir : Int) (fuel : Nat) (dt : PyDate) (h : bd dt = some true) :
    walk bd addDays dir (fuel + 1) dt = .ok dt := by
  simp [walk, h]

/-- The dates visited by `k` steps of the walk. -/
def iter (addDays : PyDate → Int → Except PyErr PyDate) (dir : Int) : Nat → PyDate → Except PyErr PyDate
  | 0, dt => .ok dt
  | k + 1, dt => match addDays dt dir with
    | .error e => .error e
    | .ok dt' => iter addDays dir k dt'

/-- The walk returns the NEAREST business day in its direction: the result is reached after `k`
single-day steps and every date visited before it is not a business day. -/
theorem walk_nearest (dir : Int) (fuel : Nat) (dt r : PyDate)
    (h : walk bd addDays dir fuel dt = .ok r) :
    ∃ k, iter addDays dir k dt = .ok r ∧
      ∀ j, j < k → ∃ x, iter addDays dir j dt = .ok x ∧ bd x = some false := by
  induction fuel generalizing dt with
  | zero => simp [walk] at h
  | succ n ih =>
    unfold walk at h
    split at h
    · simp at h
    · simp at h; subst h; exact ⟨0, rfl, fun j hj => absurd hj (Nat.not_lt_zero j)⟩
    · rename_i hb
      split at h
      · simp at h
      · rename_i dt' hstep
        obtain ⟨k, hk, hall⟩ := ih _ h
        refine ⟨k + 1, by simp [iter, hstep, hk], ?_⟩
        intro j hj
        cases j with
        | zero => exact ⟨dt, rfl, hb⟩
        | succ j =>
          obtain ⟨x, hx, hbx⟩ := hall j (by omega)
          exact ⟨x, by simp [iter, hstep, hx], hbx⟩

/-- Adjusting with calendar NONE or convention NONE returns the date itself. -/
theorem adjust_none (fuel : Nat) (calNone : Bool) (conv : Int) (dt : PyDate)
    (hc : 1 ≤ conv ∧ conv ≤ 5) (h : calNone = true ∨ conv = 1) :
    adjust bd addDays mk fuel calNone conv dt = .ok dt := by
  unfold adjust
  have : ¬ (conv < 1 ∨ conv > 5) := by omega
  rcases h with h | h <;> simp [this, h]

/-- An unknown convention is rejected with the library's error. -/
theorem adjust_bad_convention (fuel : Nat) (calNone : Bool) (conv : Int) (dt : PyDate)
    (hc : conv < 1 ∨ conv > 5) : adjust bd addDays mk fuel calNone conv dt = .error .finError := by
  simp [adjust, hc]

/-- Adjusting a business day returns it unchanged, under every convention. -/
theorem adjust_business_day_id (fuel : Nat) (calNone : Bool) (conv : Int) (dt : PyDate)
    (hc : 1 ≤ conv ∧ conv ≤ 5) (h : bd dt = some true) :
    adjust bd addDays mk (fuel + 1) calNone conv dt = .ok dt := by
  unfold adjust
  have h0 : ¬ (conv < 1 ∨ conv > 5) := by omega
  have hw : ∀ dir, walk bd addDays dir (fuel + 1) dt = .ok dt := fun dir =>
    walk_business_day_id bd addDays dir fuel dt h
  simp only [h0, if_false]
  split
  · rfl
  · split
    · rfl
    · split
      · exact hw 1
      · split
        · simp [hw 1]
        · split
          · exact hw (-1)
          · simp [hw (-1)]

/-- Whenever a real calendar and a real convention are used, the result is a business day. -/
theorem adjust_result_is_business_day (fuel : Nat) (conv : Int) (dt r : PyDate)
    (hc : 2 ≤ conv ∧ conv ≤ 5) (h : adjust bd addDays mk fuel false conv dt = .ok r) :
    bd r = some true := by
  unfold adjust at h
  have h0 : ¬ (conv < 1 ∨ conv > 5) := by omega
  have h1 : ¬ conv = 1 := by omega
  simp only [h0, if_false, h1, Bool.false_eq_true] at h
  split at h
  · exact walk_result_is_business_day bd addDays _ _ _ _ h
  · split at h
    · split at h
      · simp at h
      · rename_i r1 hr1
        split at h
        · exact walk_result_is_business_day bd addDays _ _ _ _ h
        · simp at h; subst h; exact walk_result_is_business_day bd addDays _ _ _ _ hr1
    · split at h
      · exact walk_result_is_business_day bd addDays _ _ _ _ h
      · split at h
        · simp at h
        · rename_i r1 hr1
          split at h
          · exact walk_result_is_business_day bd addDays _ _ _ _ h
          · simp at h; subst h; exact walk_result_is_business_day bd addDays _ _ _ _ hr1

/-- Adjustment is idempotent. -/
theorem adjust_idempotent (fuel : Nat) (conv : Int) (dt r : PyDate)
    (hc : 2 ≤ conv ∧ conv ≤ 5) (h : adjust bd addDays mk (fuel + 1) false conv dt = .ok r) :
    adjust bd addDays mk (fuel + 1) false conv r = .ok r :=
  adjust_business_day_id bd addDays mk fuel false conv r (by omega)
    (adjust_result_is_business_day bd addDays mk (fuel + 1) conv dt r hc h)

/-- MODIFIED FOLLOWING switches direction only when the month would change: it is FOLLOWING when
FOLLOWING stays in the month, and otherwise the PRECEDING walk from the original date. -/
theorem adjust_modified_following (fuel : Nat) (dt r1 : PyDate)
    (h1 : walk bd addDays 1 fuel dt = .ok r1) :
    adjust bd addDays mk fuel false 3 dt =
      if r1.m = dt.m then .ok r1 else walk bd addDays (-1) fuel (mk dt.d dt.m dt.y) := by
  simp only [adjust, h1]
  by_cases hm : r1.m = dt.m <;> simp [hm]

/-- MODIFIED PRECEDING, symmetrically. -/
theorem adjust_modified_preceding (fuel : Nat) (dt r1 : PyDate)
    (h1 : walk bd addDays (-1) fuel dt = .ok r1) :
    adjust bd addDays mk fuel false 5 dt =
      if r1.m = dt.m then .ok r1 else walk bd addDays 1 fuel (mk dt.d dt.m dt.y) := by
  simp only [adjust, h1]
  by_cases hm : r1.m = dt.m <;> simp [hm]

/-- `add_business_days` lands on a business day whenever it moves at all. -/
theorem abd_lands_on_business_day (step : PyDate → Except PyErr PyDate) (fuel left : Nat) (cur r : PyDate)
    (h : abdLoop bd step fuel (left + 1) cur = .ok r) : bd r = some true := by
  induction fuel generalizing left cur with
  | zero => simp [abdLoop] at h
  | succ n ih =>
    unfold abdLoop at h
    split at h
    · simp at h
    · rename_i nd hnd
      split at h
      · simp at h
      · rename_i hb
        cases left with
        | zero => simp [abdLoop] at h; subst h; exact hb
        | succ l => exact ih _ _ h
      · exact ih _ _ h

/-- The model of the code is the generic algorithm at the generated predicates (so every law above
holds for it). -/
theorem model_adjust_is_algo (cal conv : Int) (dt : PyDate) :
    Model.adjust cal conv dt =
      adjust (Model.isBusinessDay cal) Model.addDays Model.mkDate Model.adjustFuel (decide (cal = 1)) conv dt := rfl

/-- Non-vacuity: Saturday 30 Sep 2023 under US / MODIFIED_FOLLOWING goes back to Friday 29 Sep. -/
example : (match Model.adjust 14 3 (Model.mkDate 30 9 2023) with | .ok r => (r.d, r.m, r.y) | .error _ => (0, 0, 0))
    = (29, 9, 2023) := by decide +kernel

end FinVerif.Props.C14
