/-
  C14 (part c) — `add_business_days` counts exactly |n| business days: the loop visits consecutive days,
  exactly `left` of the visited days are business days, and the result is the last visited day.
  Proved for the generic algorithm (any business-day predicate, any stepping function, any fuel).
-/
import FinVerif.Core.AdjustAlgo
import FinVerif.Model.Calendar
namespace FinVerif.Props.C14
open FinVerif FinVerif.Algo

variable (bd : PyDate → Option Bool) (step : PyDate → Except PyErr PyDate)

/-- The dates visited by the loop of `add_business_days` (instrumented copy of `abdLoop`). -/
def abdTrace : Nat → Nat → PyDate → Except PyErr (List PyDate)
  | _, 0, _ => .ok []
  | 0, _ + 1, _ => .error .other
  | fuel + 1, left + 1, cur =>
    match step cur with
    | .error e => .error e
    | .ok nd =>
      match bd nd with
      | none => .error .finError
      | some true => (abdTrace fuel left nd).map (nd :: ·)
      | some false => (abdTrace fuel (left + 1) nd).map (nd :: ·)

/-- each visited date is one step after the previous one, starting from `cur` -/
def Chain (step : PyDate → Except PyErr PyDate) : PyDate → List PyDate → Prop
  | _, [] => True
  | c, d :: ds => step c = .ok d ∧ Chain step d ds

/-- C14: `add_business_days` visits consecutive days; exactly `left` of them are business days; and the
result is the last visited day (the start itself when nothing is left to count). -/
theorem abd_trace_spec (fuel left : Nat) (cur : PyDate) (l : List PyDate)
    (h : abdTrace bd step fuel left cur = .ok l) :
    Chain step cur l ∧ (l.filter (fun d => bd d == some true)).length = left ∧
      abdLoop bd step fuel left cur = .ok (l.getLast?.getD cur) := by
  induction fuel generalizing left cur l with
  | zero =>
    cases left with
    | zero => simp [abdTrace] at h; subst h; simp [Chain, abdLoop]
    | succ n => simp [abdTrace] at h
  | succ f ih =>
    cases left with
    | zero => simp [abdTrace] at h; subst h; simp [Chain, abdLoop]
    | succ n =>
      simp only [abdTrace] at h
      cases hs : step cur with
      | error e => simp [hs] at h
      | ok nd =>
        simp only [hs] at h
        cases hb : bd nd with
        | none => simp [hb] at h
        | some b =>
          cases b with
          | true =>
            simp only [hb] at h
            cases ht : abdTrace bd step f n nd with
            | error e => simp [ht, Except.map] at h
            | ok t =>
              simp [ht, Except.map] at h; subst h
              obtain ⟨hc, hn, hl⟩ := ih n nd t ht
              refine ⟨⟨hs, hc⟩, by simp [hb, hn], ?_⟩
              simp only [abdLoop, hs, hb, hl]
              cases t with
              | nil => simp
              | cons x xs =>
                have hne : (x :: xs).getLast? ≠ none := by simp
                obtain ⟨z, hz⟩ := Option.ne_none_iff_exists'.mp hne
                simp [hz]
          | false =>
            simp only [hb] at h
            cases ht : abdTrace bd step f (n + 1) nd with
            | error e => simp [ht, Except.map] at h
            | ok t =>
              simp [ht, Except.map] at h; subst h
              obtain ⟨hc, hn, hl⟩ := ih (n + 1) nd t ht
              refine ⟨⟨hs, hc⟩, by simp [hb, hn], ?_⟩
              simp only [abdLoop, hs, hb, hl]
              cases t with
              | nil => simp
              | cons x xs =>
                have hne : (x :: xs).getLast? ≠ none := by simp
                obtain ⟨z, hz⟩ := Option.ne_none_iff_exists'.mp hne
                simp [hz]

/-- the trace exists whenever the loop returns -/
theorem abd_trace_exists (fuel left : Nat) (cur r : PyDate)
    (h : abdLoop bd step fuel left cur = .ok r) : ∃ l, abdTrace bd step fuel left cur = .ok l := by
  induction fuel generalizing left cur with
  | zero =>
    cases left with
    | zero => exact ⟨[], by simp [abdTrace]⟩
    | succ n => simp [abdLoop] at h
  | succ f ih =>
    cases left with
    | zero => exact ⟨[], by simp [abdTrace]⟩
    | succ n =>
      simp only [abdLoop] at h
      cases hs : step cur with
      | error e => simp [hs] at h
      | ok nd =>
        simp only [hs] at h
        cases hb : bd nd with
        | none => simp [hb] at h
        | some b =>
          cases b with
          | true =>
            simp only [hb] at h
            obtain ⟨t, ht⟩ := ih n nd h
            exact ⟨nd :: t, by simp [abdTrace, hs, hb, ht, Except.map]⟩
          | false =>
            simp only [hb] at h
            obtain ⟨t, ht⟩ := ih (n + 1) nd h
            exact ⟨nd :: t, by simp [abdTrace, hs, hb, ht, Except.map]⟩

end FinVerif.Props.C14
