/-
  C14 (part d) — `add_business_days`: +n then −n returns to the start when the start is a business day.

  Proved for the generic algorithm: any business-day predicate `bd`, any pair of stepping functions where the
  backward step undoes the forward step (`back b = a` whenever `fwd a = b` — for the model of the code these are
  `add_days(+1)` / `add_days(−1)`, whose inverse law is `prevDayT_nextDayT` / `nextDayT_prevDayT` of C13), any
  fuel, any `n`.  The proof follows the dates the forward loop visits (`abdTrace`, part c): walking them backwards
  meets the same business days in reverse order, and the n-th one is the start itself.
-/
import FinVerif.Props.C14b
import FinVerif.Props.C14c
import FinVerif.Props.C13
import Mathlib.Tactic.IntervalCases

set_option linter.unusedVariables false
set_option linter.unusedSimpArgs false

namespace FinVerif.Props.C14
open FinVerif FinVerif.Algo

variable (bd : PyDate → Option Bool)

/-- number of business days in a list of dates -/
def countB (l : List PyDate) : Nat := (l.filter (fun d => bd d == some true)).length

def bOf (x : PyDate) : Nat := if bd x = some true then 1 else 0

theorem countB_cons (x : PyDate) (l : List PyDate) : countB bd (x :: l) = bOf bd x + countB bd l := by
  simp only [countB, bOf, List.filter_cons]
  by_cases h : bd x = some true
  · simp [h]; omega
  · have : (bd x == some true) = false := by simpa using h
    simp [h, this]

theorem countB_append (a b : List PyDate) : countB bd (a ++ b) = countB bd a + countB bd b := by
  simp [countB, List.filter_append]

theorem countB_nil : countB bd [] = 0 := rfl

def lastD (c : PyDate) (l : List PyDate) : PyDate := l.getLast?.getD c

theorem lastD_nil (c : PyDate) : lastD c [] = c := rfl
theorem lastD_cons (c d : PyDate) (ds : List PyDate) : lastD c (d :: ds) = lastD d ds := by
  cases ds with
  | nil => rfl
  | cons e es =>
    simp only [lastD, List.getLast?_cons_cons]
    cases h : (e :: es).getLast? with
    | none => simp at h
    | some v => rfl
theorem lastD_append_singleton (c x : PyDate) (l : List PyDate) : lastD c (l ++ [x]) = x := by
  simp [lastD]

/-- A run of the counting loop along an explicit path: if `p` is a chain of steps from `cur`, `bd` is defined on
it, it contains exactly `left` business days and (when non-empty) ends on one, then with enough fuel the loop
returns the last date of `p`. -/
theorem abdLoop_along_path (step : PyDate → Except PyErr PyDate) (p : List PyDate) (fuel left : Nat) (cur : PyDate)
    (hc : Chain step cur p) (hdef : ∀ x ∈ p, bd x ≠ none) (hcount : countB bd p = left)
    (hlast : p ≠ [] → bd (lastD cur p) = some true) (hf : p.length ≤ fuel) :
    abdLoop bd step fuel left cur = .ok (lastD cur p) := by
  induction p generalizing fuel left cur with
  | nil =>
    simp only [countB_nil] at hcount; subst hcount
    cases fuel <;> simp [abdLoop, lastD]
  | cons x xs ih =>
    obtain ⟨hs, hcx⟩ := hc
    rw [countB_cons] at hcount
    rw [lastD_cons] at hlast ⊢
    cases fuel with
    | zero => simp at hf
    | succ f =>
      have hf' : xs.length ≤ f := by simpa using hf
      have hdx : bd x ≠ none := hdef x (by simp)
      have hdxs : ∀ y ∈ xs, bd y ≠ none := fun y hy => hdef y (by simp [hy])
      have hl := hlast (by simp)
      cases hb : bd x with
      | none => exact absurd hb hdx
      | some b =>
        cases b with
        | true =>
          have hb1 : bOf bd x = 1 := by simp [bOf, hb]
          cases left with
          | zero => omega
          | succ n =>
            simp only [abdLoop, hs, hb]
            refine ih f n x hcx hdxs (by omega) ?_ hf'
            intro _; exact hl
        | false =>
          have hb0 : bOf bd x = 0 := by simp [bOf, hb]
          have hxs : xs ≠ [] := by
            intro e; subst e
            rw [lastD_nil] at hl; rw [hl] at hb; cases hb
          cases left with
          | zero =>
            -- no business day in x :: xs, yet it ends on one
            exfalso
            have hz : countB bd xs = 0 := by omega
            obtain ⟨ys, y, rfl⟩ : ∃ ys y, xs = ys ++ [y] := by
              exact ⟨xs.dropLast, xs.getLast hxs, (List.dropLast_concat_getLast hxs).symm⟩
            rw [lastD_append_singleton] at hl
            rw [countB_append, countB_cons, countB_nil] at hz
            simp [bOf, hl] at hz
          | succ n =>
            simp only [abdLoop, hs, hb]
            refine ih f (n + 1) x hcx hdxs (by omega) ?_ hf'
            intro _; exact hl

/-- the dates met when walking the chain `c → l` backwards from its end: `[d_{k-1}, …, d_1, c]` -/
def backPath : PyDate → List PyDate → List PyDate
  | _, [] => []
  | c, d :: ds => backPath d ds ++ [c]

theorem backPath_length (c : PyDate) (l : List PyDate) : (backPath c l).length = l.length := by
  induction l generalizing c with
  | nil => rfl
  | cons d ds ih => simp [backPath, ih]

theorem backPath_last (d : PyDate) (ds : List PyDate) : lastD (lastD d ds) (backPath d ds) = d := by
  cases ds with
  | nil => rfl
  | cons e es => simp [backPath, lastD_append_singleton]

theorem chain_append (step : PyDate → Except PyErr PyDate) (x c : PyDate) (q : List PyDate)
    (h : Chain step x q) (hs : step (lastD x q) = .ok c) : Chain step x (q ++ [c]) := by
  induction q generalizing x with
  | nil => exact ⟨by simpa [lastD] using hs, trivial⟩
  | cons y ys ih =>
    obtain ⟨h1, h2⟩ := h
    rw [lastD_cons] at hs
    exact ⟨h1, ih y h2 hs⟩

theorem backPath_chain (P : PyDate → Prop) (fwd back : PyDate → Except PyErr PyDate)
    (hinv : ∀ a b, P a → fwd a = .ok b → P b ∧ back b = .ok a) (c : PyDate) (hP : P c) (l : List PyDate)
    (h : Chain fwd c l) : Chain back (lastD c l) (backPath c l) := by
  induction l generalizing c with
  | nil => trivial
  | cons d ds ih =>
    obtain ⟨h1, h2⟩ := h
    obtain ⟨hPd, hb⟩ := hinv c d hP h1
    rw [lastD_cons]
    simp only [backPath]
    refine chain_append back _ c _ (ih d hPd h2) ?_
    rw [backPath_last]
    exact hb

theorem backPath_count (c : PyDate) (l : List PyDate) :
    countB bd (backPath c l) + bOf bd (lastD c l) = countB bd l + bOf bd c := by
  induction l generalizing c with
  | nil => simp [backPath, countB_nil, lastD_nil]
  | cons d ds ih =>
    rw [lastD_cons, countB_cons]
    simp only [backPath]
    rw [countB_append, countB_cons, countB_nil]
    have := ih d
    omega

theorem backPath_mem (c : PyDate) (l : List PyDate) (x : PyDate) (hx : x ∈ backPath c l) : x = c ∨ x ∈ l := by
  induction l generalizing c with
  | nil => simp [backPath] at hx
  | cons d ds ih =>
    simp only [backPath, List.mem_append, List.mem_singleton] at hx
    rcases hx with hx | hx
    · rcases ih d hx with h | h
      · right; simp [h]
      · right; simp [h]
    · left; exact hx

/-- every date the forward loop visits has a defined business-day status, and there are at most `fuel` of them -/
theorem abdTrace_defined (step : PyDate → Except PyErr PyDate) (fuel left : Nat) (cur : PyDate) (l : List PyDate)
    (h : abdTrace bd step fuel left cur = .ok l) : (∀ x ∈ l, bd x ≠ none) ∧ l.length ≤ fuel := by
  induction fuel generalizing left cur l with
  | zero =>
    cases left with
    | zero => simp [abdTrace] at h; subst h; simp
    | succ n => simp [abdTrace] at h
  | succ f ih =>
    cases left with
    | zero => simp [abdTrace] at h; subst h; simp
    | succ n =>
      simp only [abdTrace] at h
      cases hs : step cur with
      | error e => simp [hs] at h
      | ok nd =>
        simp only [hs] at h
        cases hb : bd nd with
        | none => simp [hb] at h
        | some b =>
          cases b with
          | true =>
            simp only [hb] at h
            cases ht : abdTrace bd step f n nd with
            | error e => simp [ht, Except.map] at h
            | ok t =>
              simp [ht, Except.map] at h; subst h
              obtain ⟨h1, h2⟩ := ih n nd t ht
              refine ⟨?_, by simp; omega⟩
              intro x hx
              simp only [List.mem_cons] at hx
              rcases hx with rfl | hx
              · simp [hb]
              · exact h1 x hx
          | false =>
            simp only [hb] at h
            cases ht : abdTrace bd step f (n + 1) nd with
            | error e => simp [ht, Except.map] at h
            | ok t =>
              simp [ht, Except.map] at h; subst h
              obtain ⟨h1, h2⟩ := ih (n + 1) nd t ht
              refine ⟨?_, by simp; omega⟩
              intro x hx
              simp only [List.mem_cons] at hx
              rcases hx with rfl | hx
              · simp [hb]
              · exact h1 x hx

/-- C14: **+n then −n returns to the start** when the start is a business day — for the generic loop, any
predicate, any inverse pair of steps, any `n`, with the same fuel.  `P` is an invariant of the dates the loop handles (for the model: "a well-formed valid date")
under which the backward step undoes the forward step. -/
theorem abd_forward_then_backward (P : PyDate → Prop) (fwd back : PyDate → Except PyErr PyDate)
    (hinv : ∀ a b, P a → fwd a = .ok b → P b ∧ back b = .ok a) (fuel n : Nat) (start r : PyDate) (hP : P start)
    (hstart : bd start = some true) (h : abdLoop bd fwd fuel n start = .ok r) :
    abdLoop bd back fuel n r = .ok start := by
  obtain ⟨l, hl⟩ := abd_trace_exists bd fwd fuel n start r h
  obtain ⟨hc, hn, hres⟩ := abd_trace_spec bd fwd fuel n start l hl
  obtain ⟨hdef, hlen⟩ := abdTrace_defined bd fwd fuel n start l hl
  rw [h] at hres
  have hr : r = lastD start l := Except.ok.inj hres
  cases l with
  | nil =>
    simp only [List.filter_nil, List.length_nil] at hn
    subst hn
    simp only [lastD_nil] at hr; subst hr
    cases fuel <;> simp [abdLoop]
  | cons d ds =>
    have hrb : bd r = some true := by
      cases n with
      | zero => cases fuel <;> simp [abdLoop] at h <;> (subst h; exact hstart)
      | succ m => exact abd_lands_on_business_day bd fwd fuel m start r h
    have hpath := abdLoop_along_path bd back (backPath start (d :: ds)) fuel n r
      (by rw [hr]; exact backPath_chain P fwd back hinv start hP (d :: ds) hc)
      (by
        intro x hx
        rcases backPath_mem start (d :: ds) x hx with rfl | hm
        · simp [hstart]
        · exact hdef x hm)
      (by
        have := backPath_count bd start (d :: ds)
        rw [← hr] at this
        have e1 : bOf bd r = 1 := by simp [bOf, hrb]
        have e2 : bOf bd start = 1 := by simp [bOf, hstart]
        have e3 : countB bd (d :: ds) = n := hn
        omega)
      (by
        intro _
        simp only [backPath, lastD_append_singleton]
        exact hstart)
      (by rw [backPath_length]; exact hlen)
    rw [hpath]
    simp only [backPath, lastD_append_singleton]

/-! ### the model of the code -/

open FinVerif.Model FinVerif.Gen.DateK

/-- a valid date as `Date.__init__` accepts it -/
def ValidG (d m y : Int) : Prop := 1900 ≤ y ∧ 1 ≤ m ∧ m ≤ 12 ∧ 1 ≤ d ∧ d ≤ monthDays y m

/-- a well-formed date object: its fields are those `Date(d, m, y)` computes, and the date is valid -/
def WF (a : PyDate) : Prop := a = mkDate a.d a.m a.y ∧ ValidG a.d a.m a.y

theorem monthDays_range (y m : Int) (hm : 1 ≤ m ∧ m ≤ 12) : 28 ≤ monthDays y m ∧ monthDays y m ≤ 31 := by
  obtain ⟨h1, h2⟩ := hm
  simp only [monthDays]
  split_ifs <;> interval_cases m <;> simp [pyIdxD, pyIdx?, month_days_leap_year, month_days_not_leap_year]

theorem monthDays_dec (y : Int) : monthDays y 12 = 31 := by
  simp only [monthDays]
  split_ifs <;> simp [pyIdxD, pyIdx?, month_days_leap_year, month_days_not_leap_year]

theorem mkDateQ_iff (d m y : Int) (r : PyDate) : mkDate? d m y = .ok r ↔ (ValidG d m y ∧ r = mkDate d m y) := by
  constructor
  · intro h
    have hr := FinVerif.Props.C13.mkDateQ_ok d m y r h
    refine ⟨?_, hr⟩
    simp only [mkDate?] at h
    split_ifs at h with a b c e
    all_goals (
      have hm : 1 ≤ m ∧ m ≤ 12 := by omega
      obtain ⟨h1, h2⟩ := hm
      simp only [ValidG, monthDays]
      interval_cases m <;>
        simp_all [pyIdxD, pyIdx?, month_days_leap_year, month_days_not_leap_year] <;> omega)
  · rintro ⟨⟨hy, h1, h2, h3, h4⟩, rfl⟩
    simp only [monthDays] at h4
    simp only [mkDate?]
    have a : ¬ y < 1900 := by omega
    have b : ¬ d < 1 := by omega
    have c : ¬ (m < 1 ∨ m > 12) := by omega
    simp only [a, b, c, if_false]
    split_ifs at h4 ⊢ with e <;> interval_cases m <;>
      simp_all [pyIdxD, pyIdx?, month_days_leap_year, month_days_not_leap_year] <;> omega

theorem prevDayG_nextDayG (d m y : Int) (hv : ValidG d m y) :
    prevDayG (nextDayG d m y).1 (nextDayG d m y).2.1 (nextDayG d m y).2.2 = (d, m, y) := by
  obtain ⟨hy, h1, h2, h3, h4⟩ := hv
  simp only [nextDayG]
  split_ifs with a b <;> dsimp only
  · simp [prevDayG]; omega
  · have : d = monthDays y m := by omega
    simp [prevDayG, this]; omega
  · have hm : m = 12 := by omega
    subst hm
    have : d = 31 := by have := monthDays_dec y; omega
    simp [prevDayG, this]

theorem nextDayG_prevDayG (d m y : Int) (hv : ValidG d m y) :
    nextDayG (prevDayG d m y).1 (prevDayG d m y).2.1 (prevDayG d m y).2.2 = (d, m, y) := by
  obtain ⟨hy, h1, h2, h3, h4⟩ := hv
  simp only [prevDayG]
  split_ifs with a b <;> dsimp only
  · simp [nextDayG]; omega
  · have hp := monthDays_range y (m - 1) ⟨by omega, by omega⟩
    have hd : d = 1 := by omega
    simp [nextDayG, hd]; omega
  · have hd : d = 1 := by omega
    have hm : m = 1 := by omega
    simp [nextDayG, hd, hm, monthDays_dec]

/-- For well-formed dates, one `datetime` step forward then backward (or backward then forward) is the identity,
and steps preserve well-formedness. -/
theorem stepG_inverse (fwd : Bool) (a b : PyDate) (ha : WF a) (h : stepG fwd a = .ok b) :
    WF b ∧ stepG (!fwd) b = .ok a := by
  obtain ⟨ha1, ha2⟩ := ha
  simp only [stepG] at h
  cases fwd with
  | true =>
    simp only [if_true] at h
    obtain ⟨hv, hb⟩ := (mkDateQ_iff _ _ _ _).mp h
    refine ⟨⟨by subst hb; rfl, by subst hb; exact hv⟩, ?_⟩
    have := prevDayG_nextDayG a.d a.m a.y ha2
    subst hb
    simp only [stepG, Bool.not_true, Bool.false_eq_true, if_false, mkDate]
    rw [this]
    exact (mkDateQ_iff _ _ _ _).mpr ⟨ha2, ha1⟩
  | false =>
    simp only [Bool.false_eq_true, if_false] at h
    obtain ⟨hv, hb⟩ := (mkDateQ_iff _ _ _ _).mp h
    refine ⟨⟨by subst hb; rfl, by subst hb; exact hv⟩, ?_⟩
    have := nextDayG_prevDayG a.d a.m a.y ha2
    subst hb
    simp only [stepG, Bool.not_false, if_true, mkDate]
    rw [this]
    exact (mkDateQ_iff _ _ _ _).mpr ⟨ha2, ha1⟩

theorem abdLoop_WF (cal : Int) (fwd : Bool) (fuel left : Nat) (cur r : PyDate) (hc : WF cur)
    (h : abdLoop (isBusinessDay cal) (stepG fwd) fuel left cur = .ok r) : WF r := by
  induction fuel generalizing left cur with
  | zero => cases left <;> simp [abdLoop] at h; subst h; exact hc
  | succ f ih =>
    cases left with
    | zero => simp [abdLoop] at h; subst h; exact hc
    | succ n =>
      simp only [abdLoop] at h
      cases hs : stepG fwd cur with
      | error e => simp [hs] at h
      | ok nd =>
        simp only [hs] at h
        have hnd := (stepG_inverse fwd cur nd hc hs).1
        cases hb : isBusinessDay cal nd with
        | none => simp [hb] at h
        | some b =>
          cases b with
          | true => simp only [hb] at h; exact ih _ _ hnd h
          | false => simp only [hb] at h; exact ih _ _ hnd h

/-- C14, the model of `Calendar.add_business_days`: **+n then −n returns to the start** when the start is a
business day — every calendar, every valid start date, every `n`. -/
theorem add_business_days_inverse (cal : Int) (start s0 r : PyDate) (n : Int)
    (h0 : mkDate? start.d start.m start.y = .ok s0) (hb : isBusinessDay cal s0 = some true)
    (h : addBusinessDays cal start n = .ok r) : addBusinessDays cal r (-n) = .ok s0 := by
  obtain ⟨hv0, hs0⟩ := (mkDateQ_iff _ _ _ _).mp h0
  have hwf0 : WF s0 := by subst hs0; exact ⟨rfl, hv0⟩
  simp only [addBusinessDays, h0] at h
  have hwfr : WF r := abdLoop_WF cal _ _ _ s0 r hwf0 h
  have hr0 : mkDate? r.d r.m r.y = .ok r := (mkDateQ_iff _ _ _ _).mpr ⟨hwfr.2, hwfr.1⟩
  simp only [addBusinessDays, hr0, Int.natAbs_neg]
  have key := abd_forward_then_backward (isBusinessDay cal) WF (stepG (decide (n ≥ 0))) (stepG (!decide (n ≥ 0)))
    (fun a b ha hab => stepG_inverse _ a b ha hab) (n.natAbs * 40 + 40) n.natAbs s0 r hwf0 hb h
  by_cases hn : n = 0
  · subst hn
    simp [abdLoop] at h ⊢
    exact h.symm ▸ rfl
  · have : decide (-n ≥ 0) = !decide (n ≥ 0) := by
      by_cases hp : n ≥ 0
      · have hq : ¬ (-n ≥ 0) := by omega
        rw [decide_eq_true hp, decide_eq_false hq]; rfl
      · have hq : -n ≥ 0 := by omega
        rw [decide_eq_false hp, decide_eq_true hq]; rfl
    rw [this]
    exact key

/-- Non-vacuity: US calendar, Thursday 2 Jul 2020 is a business day, +5 business days skips the observed
Independence Day (Fri 3 Jul) and the weekend and lands on Fri 10 Jul 2020. -/
example : isBusinessDay 14 (mkDate 2 7 2020) = some true ∧
    (match addBusinessDays 14 (mkDate 2 7 2020) 5 with | .ok r => (r.d, r.m, r.y) | .error _ => (0, 0, 0)) = (10, 7, 2020) := by
  decide +kernel

end FinVerif.Props.C14
