/-
  C14 — termination of the adjustment walk for the WEEKEND calendar, proved (for the other calendars it is validated
  by the exhaustive correspondence): from any well-formed date from 1902 on, the directional walk of `Calendar.adjust`
  finds a business day within three evaluations, in either direction — the model's fuel is never the reason for a
  failure, and the result is at most two days away.
-/
import FinVerif.Props.C14b
import FinVerif.Props.C14d
import FinVerif.Props.C13b
import Mathlib.Tactic.IntervalCases

set_option linter.unusedVariables false
set_option linter.unusedSimpArgs false

namespace FinVerif.Props.C14
open FinVerif FinVerif.Algo FinVerif.Model FinVerif.Gen.DateK FinVerif.Gen.Calendar
open FinVerif.Props.C13 (TableValid addDays_serial mkDateQ_ok)

/-- WEEKEND calendar: business day ⇔ weekday number below 5. -/
theorem weekend_isBusinessDay (dt : PyDate) :
    isBusinessDay 2 dt = some (!(decide (dt.wd = 5) || decide (dt.wd = 6))) := by
  simp only [isBusinessDay, isHoliday, is_holiday_dispatch, holiday_weekend, is_weekend]
  by_cases h5 : dt.wd = 5 <;> by_cases h6 : dt.wd = 6 <;> simp [h5, h6]

/-- a date as the code holds it: fields computed by `Date(d, m, y)` from a table-valid (d, m, y) -/
def Held (dt : PyDate) : Prop := dt = mkDate dt.d dt.m dt.y ∧ TableValid dt.d dt.m dt.y

theorem held_wd (dt : PyDate) (h : Held dt) : dt.wd = (dt.serial + 5) % 7 := by
  obtain ⟨e, _⟩ := h
  rw [e]; simp only [mkDate, weekday]

theorem addDays_held (dt r : PyDate) (n : Int) (h : addDays dt n = .ok r) : r = mkDate r.d r.m r.y := by
  simp only [addDays] at h
  obtain ⟨_, hr⟩ := (mkDateQ_iff _ _ _ _).mp h
  subst hr; rfl

/-- one calendar step changes the year by at most one -/
theorem addDays_one_year (dt r : PyDate) (dir : Int) (hd : dir = 1 ∨ dir = -1) (h : addDays dt dir = .ok r) :
    dt.y - 1 ≤ r.y ∧ r.y ≤ dt.y + 1 := by
  simp only [addDays] at h
  obtain ⟨_, hr⟩ := (mkDateQ_iff _ _ _ _).mp h
  subst hr
  rcases hd with h1 | h1 <;> subst h1 <;>
    simp [stepDays, nextDayT, prevDayT, mkDate] <;> split_ifs <;> simp <;> omega

theorem validG_tableValid (d m y : Int) (h : ValidG d m y) (hy : y ≠ 1900) : TableValid d m y := by
  obtain ⟨_, h1, h2, h3, h4⟩ := h
  refine ⟨h1, h2, h3, ?_⟩
  simp only [tableMonthDays, excelLeap, hy, if_false]
  simpa only [monthDays] using h4

/-- one step of the walk keeps the invariant and moves the weekday by ±1 (mod 7) -/
theorem step_held (dt r : PyDate) (dir : Int) (hd : dir = 1 ∨ dir = -1) (hh : Held dt) (hy : 1902 ≤ dt.y)
    (h : addDays dt dir = .ok r) : r = mkDate r.d r.m r.y ∧ r.serial = dt.serial + dir := by
  obtain ⟨e, hv⟩ := hh
  refine ⟨addDays_held dt r dir h, ?_⟩
  rw [e] at h ⊢
  have := addDays_serial dt.d dt.m dt.y dir r hv (by omega) (by rcases hd with h1 | h1 <;> subst h1 <;> intro hneg <;> omega) h
  simpa using this

theorem mkDateQ_ne_other (d m y : Int) : mkDate? d m y ≠ .error .other := by
  simp only [mkDate?]
  split_ifs <;> (try simp) <;> (split <;> (try simp) <;> split_ifs <;> simp)

theorem addDays_ne_other (dt : PyDate) (n : Int) : addDays dt n ≠ .error .other := by
  simp only [addDays]; exact mkDateQ_ne_other _ _ _

/-- a successful step from a held date (year ≥ 1902) gives a held date one day further, in a year ≥ the start year − 1 -/
theorem step_keeps_held (dt r : PyDate) (dir : Int) (hd : dir = 1 ∨ dir = -1) (hh : Held dt) (hy : 1902 ≤ dt.y)
    (h : addDays dt dir = .ok r) : Held r ∧ r.serial = dt.serial + dir ∧ r.wd = (dt.serial + dir + 5) % 7 := by
  obtain ⟨e1, e2⟩ := step_held dt r dir hd hh hy h
  have hvg : ValidG r.d r.m r.y := by
    simp only [addDays] at h
    obtain ⟨hv, hr⟩ := (mkDateQ_iff _ _ _ _).mp h
    rw [hr]; exact hv
  have hne : r.y ≠ 1900 := by
    intro h0
    obtain ⟨_, v1, v2, v3, v4⟩ := hvg
    have hb : r.d ≤ 31 := by have := (monthDays_range r.y r.m ⟨v1, v2⟩).2; omega
    have hs1 : r.serial ≤ 366 := by
      rw [e1]; simp only [mkDate, excelSerial, daysBeforeYear, daysBeforeMonth, excelLeap, leapsUpTo, h0]
      generalize r.m = m at *
      interval_cases m <;> simp [pyIdxD, pyIdx?, cumDaysLeap] <;> omega
    have hs2 : 731 < dt.serial := by
      obtain ⟨ee, ⟨t1, t2, t3, t4⟩⟩ := hh
      rw [ee]; simp only [mkDate, excelSerial, daysBeforeYear, daysBeforeMonth, excelLeap, leapsUpTo]
      have hne : dt.y ≠ 1900 := by omega
      simp only [hne, if_false]
      split <;> (generalize dt.m = m at *; interval_cases m <;>
        simp [pyIdxD, pyIdx?, cumDaysLeap, cumDaysNonLeap] <;> omega)
    rcases hd with h1 | h1 <;> subst h1 <;> omega
  have htv := validG_tableValid _ _ _ hvg hne
  refine ⟨⟨e1, htv⟩, e2, ?_⟩
  rw [held_wd r ⟨e1, htv⟩, e2]

/-- C14 termination (WEEKEND calendar): three evaluations suffice in either direction from any held date from 1903 on —
the walk of `Calendar.adjust` never runs out of fuel on this calendar. -/
theorem weekend_walk_terminates (dir : Int) (hd : dir = 1 ∨ dir = -1) (dt : PyDate) (hh : Held dt) (hy : 1903 ≤ dt.y)
    (fuel : Nat) (hf : 3 ≤ fuel) :
    walk (isBusinessDay 2) addDays dir fuel dt ≠ .error .other := by
  obtain ⟨f1, rfl⟩ : ∃ f1, fuel = f1 + 3 := ⟨fuel - 3, by omega⟩
  have hw0 := held_wd dt hh
  unfold walk
  rw [weekend_isBusinessDay]
  by_cases b0 : (dt.wd = 5 ∨ dt.wd = 6)
  · have hb0 : (!(decide (dt.wd = 5) || decide (dt.wd = 6))) = false := by
      rcases b0 with h | h <;> simp [h]
    simp only [hb0]
    cases h1 : addDays dt dir with
    | error e =>
      simp only []
      intro hc; cases hc; exact addDays_ne_other _ _ h1
    | ok d1 =>
      simp only []
      obtain ⟨hh1, hs1, hw1⟩ := step_keeps_held dt d1 dir hd hh (by omega) h1
      have hy1 := (addDays_one_year dt d1 dir hd h1).1
      unfold walk
      rw [weekend_isBusinessDay]
      by_cases b1 : (d1.wd = 5 ∨ d1.wd = 6)
      · have hb1 : (!(decide (d1.wd = 5) || decide (d1.wd = 6))) = false := by
          rcases b1 with h | h <;> simp [h]
        simp only [hb1]
        cases h2 : addDays d1 dir with
        | error e =>
          simp only []
          intro hc; cases hc; exact addDays_ne_other _ _ h2
        | ok d2 =>
          simp only []
          obtain ⟨hh2, hs2, hw2⟩ := step_keeps_held d1 d2 dir hd hh1 (by omega) h2
          unfold walk
          rw [weekend_isBusinessDay]
          have hb2 : (!(decide (d2.wd = 5) || decide (d2.wd = 6))) = true := by
            have h5 : d2.wd ≠ 5 := by rcases hd with h | h <;> subst h <;> omega
            have h6 : d2.wd ≠ 6 := by rcases hd with h | h <;> subst h <;> omega
            simp [h5, h6]
          simp [hb2]
      · have hb1 : (!(decide (d1.wd = 5) || decide (d1.wd = 6))) = true := by
          have h5 : d1.wd ≠ 5 := fun h => b1 (Or.inl h)
          have h6 : d1.wd ≠ 6 := fun h => b1 (Or.inr h)
          simp [h5, h6]
        simp [hb1]
  · have hb0 : (!(decide (dt.wd = 5) || decide (dt.wd = 6))) = true := by
      have h5 : dt.wd ≠ 5 := fun h => b0 (Or.inl h)
      have h6 : dt.wd ≠ 6 := fun h => b0 (Or.inr h)
      simp [h5, h6]
    simp [hb0]

/-- Non-vacuity: Saturday 30 Sep 2023 is a held date from 1903 on. -/
example : Held (mkDate 30 9 2023) ∧ 1903 ≤ (mkDate 30 9 2023).y ∧ (mkDate 30 9 2023).wd = 5 := by
  refine ⟨⟨rfl, ?_⟩, by decide, by decide⟩
  simp only [TableValid, mkDate]; decide

end FinVerif.Props.C14
