/-
  C14 (part f) — what the GENERATED holiday functions say, calendar by calendar, and the business-day clause:

  * business day ⇔ neither weekend nor holiday (`business_day_iff`); weekend days are never business days in any
    calendar; the predicate is defined exactly on the 15 `CalendarTypes` values;
  * NONE has no holidays (its business days are the WEEKEND calendar's);
  * 1 January is a holiday in every country calendar (CalendarTypes 3..15), 25 December in every one except JAPAN
    (whose rule list has no December entry), on every weekday; 26 December in the eleven calendars that list it
    unconditionally; 1 May in the seven European ones;
  * Easter: the day the table calls Easter Monday IS a Monday for every year 1901–2199 (weekday function of the date
    class applied to the serial number of 1 January plus the table entry), hence Good Friday (−3) is a Friday, Ascension
    (+38) a Thursday, Whit Monday (+49) a Monday; the computus Easter Sunday is a Sunday; Easter Monday lies between
    23 March and 26 April;
  * MODIFIED FOLLOWING / PRECEDING, exact two-way statement; distance walked is below the fuel;
  * `add_business_days`: n = 0 is the identity; n₁ then n₂ of the same sign is n₁ + n₂ (generic loop and model).
-/
import FinVerif.Props.C14a
import FinVerif.Props.C14b
import FinVerif.Props.C14c
import FinVerif.Props.C14d
import Mathlib.Tactic.IntervalCases

set_option linter.unusedVariables false
set_option linter.unusedSimpArgs false

namespace FinVerif.Props.C14
open FinVerif FinVerif.Algo FinVerif.Model FinVerif.Gen.DateK FinVerif.Gen.Calendar FinVerif.Spec

/-! ### business day ⇔ neither weekend nor holiday -/

/-- C14: a date is a business day exactly when it is neither a weekend nor a holiday of the calendar. -/
theorem business_day_iff (cal : Int) (dt : PyDate) :
    isBusinessDay cal dt = some true ↔ (dt.wd ≠ 5 ∧ dt.wd ≠ 6 ∧ isHoliday cal dt = some false) := by
  simp only [isBusinessDay, is_weekend]
  by_cases h5 : dt.wd = 5
  · simp [h5]
  · by_cases h6 : dt.wd = 6
    · simp [h6]
    · simp only [h5, h6, decide_false, Bool.or_false, Bool.false_eq_true, if_false, ne_eq, not_false_eq_true, true_and]
      cases isHoliday cal dt with
      | none => simp
      | some b => cases b <;> simp

/-- … and it is NOT a business day exactly when it is a weekend or a holiday. -/
theorem non_business_day_iff (cal : Int) (dt : PyDate) :
    isBusinessDay cal dt = some false ↔ (dt.wd = 5 ∨ dt.wd = 6 ∨ isHoliday cal dt = some true) := by
  simp only [isBusinessDay, is_weekend]
  by_cases h5 : dt.wd = 5
  · simp [h5]
  · by_cases h6 : dt.wd = 6
    · simp [h6]
    · simp only [h5, h6, decide_false, Bool.or_false, Bool.false_eq_true, if_false, false_or]
      cases isHoliday cal dt with
      | none => simp
      | some b => cases b <;> simp

/-- C14: weekend days are never business days — in ANY calendar (the weekend test comes first in the code, so this
holds even for NONE). -/
theorem weekend_never_business_day (cal : Int) (dt : PyDate) (h : dt.wd = 5 ∨ dt.wd = 6) :
    isBusinessDay cal dt = some false :=
  (non_business_day_iff cal dt).mpr (by rcases h with h | h <;> simp [h])

/-- `is_holiday` is defined exactly on the 15 `CalendarTypes` values (otherwise the code raises FinError). -/
theorem isHoliday_defined_iff (cal : Int) (dt : PyDate) :
    (isHoliday cal dt ≠ none) ↔ (1 ≤ cal ∧ cal ≤ 15) := by
  simp only [isHoliday, is_holiday_dispatch]
  constructor
  · intro h
    by_contra hc
    apply h
    have : ¬ cal = 1 ∧ ¬ cal = 2 ∧ ¬ cal = 3 ∧ ¬ cal = 4 ∧ ¬ cal = 5 ∧ ¬ cal = 6 ∧ ¬ cal = 7 ∧ ¬ cal = 8 ∧
        ¬ cal = 9 ∧ ¬ cal = 10 ∧ ¬ cal = 11 ∧ ¬ cal = 12 ∧ ¬ cal = 13 ∧ ¬ cal = 14 ∧ ¬ cal = 15 := by omega
    obtain ⟨a1, a2, a3, a4, a5, a6, a7, a8, a9, a10, a11, a12, a13, a14, a15⟩ := this
    simp only [a1, a2, a3, a4, a5, a6, a7, a8, a9, a10, a11, a12, a13, a14, a15, if_false]
  · rintro ⟨h1, h2⟩
    interval_cases cal <;> simp

/-- On a weekday the business-day answer is defined exactly when the calendar is one of the 15. -/
theorem business_day_defined (cal : Int) (dt : PyDate) (hc : 1 ≤ cal ∧ cal ≤ 15) :
    ∃ b, isBusinessDay cal dt = some b := by
  have hd := (isHoliday_defined_iff cal dt).mpr hc
  simp only [isBusinessDay]
  split
  · exact ⟨false, rfl⟩
  · cases hh : isHoliday cal dt with
    | none => exact absurd hh hd
    | some b => cases b <;> simp

/-! ### NONE and WEEKEND -/

/-- C14: the NONE calendar has no holidays. -/
theorem none_no_holidays (dt : PyDate) : isHoliday 1 dt = some false := by
  simp [isHoliday, is_holiday_dispatch, holiday_none]

/-- The business days of NONE are those of WEEKEND: Monday to Friday (the weekend test of `is_business_day` does
not look at the calendar; `adjust` short-cuts NONE before asking — `adjust_none`). -/
theorem none_business_day (dt : PyDate) :
    isBusinessDay 1 dt = some (!(decide (dt.wd = 5) || decide (dt.wd = 6))) := by
  simp only [isBusinessDay, none_no_holidays, is_weekend]
  by_cases h5 : dt.wd = 5 <;> by_cases h6 : dt.wd = 6 <;> simp [h5, h6]

/-- The holidays of WEEKEND are exactly the weekend days. -/
theorem weekend_holiday (dt : PyDate) :
    isHoliday 2 dt = some (decide (dt.wd = 5) || decide (dt.wd = 6)) := by
  simp only [isHoliday, is_holiday_dispatch, holiday_weekend, is_weekend]
  by_cases h5 : dt.wd = 5 <;> by_cases h6 : dt.wd = 6 <;> simp [h5, h6]

/-! ### fixed dates shared by the country calendars (read off the generated functions) -/

/-- C14: 25 December is a holiday in every country calendar (CalendarTypes 3..15) except JAPAN (= 8, whose rule list
has no December entry) — whatever the weekday. -/
theorem christmas_every_country (cal y wd diy : Int) (hc : 3 ≤ cal ∧ cal ≤ 15) (h8 : cal ≠ 8) :
    is_holiday_dispatch cal 12 25 y wd diy = some true := by
  have : cal = 3 ∨ cal = 4 ∨ cal = 5 ∨ cal = 6 ∨ cal = 7 ∨ cal = 9 ∨ cal = 10 ∨ cal = 11 ∨ cal = 12 ∨ cal = 13 ∨
      cal = 14 ∨ cal = 15 := by omega
  rcases this with h | h | h | h | h | h | h | h | h | h | h | h <;> subst h <;>
    simp [is_holiday_dispatch, holiday_australia, holiday_canada, holiday_france, holiday_germany, holiday_italy,
      holiday_new_zealand, holiday_norway, holiday_sweden, holiday_switzerland, holiday_target,
      holiday_united_kingdom, holiday_united_states]

/-- JAPAN has no holiday rule in December (nor in June): every such day is an ordinary day. -/
theorem japan_no_december_june_holidays (m d y wd diy : Int) (hm : m = 12 ∨ m = 6) :
    holiday_japan m d y wd diy = false := by
  rcases hm with h | h <;> subst h <;> simp [holiday_japan]

/-- C14: 1 January is a holiday in every country calendar — whatever the weekday. -/
theorem new_year_every_country (cal y wd diy : Int) (hc : 3 ≤ cal ∧ cal ≤ 15) :
    is_holiday_dispatch cal 1 1 y wd diy = some true := by
  obtain ⟨h1, h2⟩ := hc
  interval_cases cal <;>
    simp [is_holiday_dispatch, holiday_australia, holiday_canada, holiday_france, holiday_germany, holiday_italy,
      holiday_japan, holiday_new_zealand, holiday_norway, holiday_sweden, holiday_switzerland, holiday_target,
      holiday_united_kingdom, holiday_united_states]

/-- 26 December is a holiday on every weekday in the eleven calendars that list it as a fixed date (all country
calendars except JAPAN = 8, which does not have it, and UNITED_STATES = 14, which has it only as the Monday
substitute of a Sunday Christmas). -/
theorem boxing_day_where_listed (cal y wd diy : Int) (hc : 3 ≤ cal ∧ cal ≤ 15) (h8 : cal ≠ 8) (h14 : cal ≠ 14) :
    is_holiday_dispatch cal 12 26 y wd diy = some true := by
  have : cal = 3 ∨ cal = 4 ∨ cal = 5 ∨ cal = 6 ∨ cal = 7 ∨ cal = 9 ∨ cal = 10 ∨ cal = 11 ∨ cal = 12 ∨ cal = 13 ∨
      cal = 15 := by omega
  rcases this with h | h | h | h | h | h | h | h | h | h | h <;> subst h <;>
    simp [is_holiday_dispatch, holiday_australia, holiday_canada, holiday_france, holiday_germany, holiday_italy,
      holiday_new_zealand, holiday_norway, holiday_sweden, holiday_switzerland, holiday_target,
      holiday_united_kingdom]

/-- … and in the other two it is not a fixed holiday: 26 Dec on a Tuesday (not an Easter-relative day in
either: they have no Easter rules) is an ordinary day in JAPAN and UNITED_STATES. -/
theorem boxing_day_not_fixed_us_japan (y diy : Int) :
    is_holiday_dispatch 14 12 26 y 1 diy = some false ∧ is_holiday_dispatch 8 12 26 y 1 diy = some false := by
  constructor <;> simp [is_holiday_dispatch, holiday_united_states, holiday_japan]

/-- 1 May is a holiday on every weekday in FRANCE, GERMANY, ITALY, NORWAY, SWEDEN, SWITZERLAND and TARGET. -/
theorem labour_day_europe (cal y wd diy : Int) (hc : cal = 5 ∨ cal = 6 ∨ cal = 7 ∨ cal = 10 ∨ cal = 11 ∨ cal = 12 ∨ cal = 13) :
    is_holiday_dispatch cal 5 1 y wd diy = some true := by
  rcases hc with h | h | h | h | h | h | h <;> subst h <;>
    simp [is_holiday_dispatch, holiday_france, holiday_germany, holiday_italy, holiday_norway, holiday_sweden,
      holiday_switzerland, holiday_target]

/-- Model form: a date object whose month/day are 1 January (any country calendar) or 25 December (any but JAPAN) is
not a business day. -/
theorem christmas_new_year_not_business (cal : Int) (dt : PyDate) (hc : 3 ≤ cal ∧ cal ≤ 15)
    (h : (dt.m = 12 ∧ dt.d = 25 ∧ cal ≠ 8) ∨ (dt.m = 1 ∧ dt.d = 1)) : isBusinessDay cal dt = some false := by
  apply (non_business_day_iff cal dt).mpr
  right; right
  simp only [isHoliday]
  rcases h with ⟨hm, hd, h8⟩ | ⟨hm, hd⟩
  · rw [hm, hd]; exact christmas_every_country cal _ _ _ hc h8
  · rw [hm, hd]; exact new_year_every_country cal _ _ _ hc

/-- Non-vacuity: Wednesday 25 Dec 2024 in the US calendar (14) and Monday 1 Jan 2024 in TARGET (13). -/
example : isBusinessDay 14 (mkDate 25 12 2024) = some false ∧ isBusinessDay 13 (mkDate 1 1 2024) = some false ∧
    (mkDate 25 12 2024).wd = 2 ∧ (mkDate 1 1 2024).wd = 0 := by decide +kernel

/-! ### Easter -/

/-- Kernel-checked table: for each of the 299 years, the weekday (date class's own `weekday` of the serial number)
of day-in-year `easterMondayDay[y-1901]` of year `y` is 0 = Monday. -/
theorem easter_monday_weekday_all :
    (List.range 299).all (fun k =>
      weekday ((mkDate 1 1 (1901 + (k : Int))).serial - 1 + pyIdxD tbl_easterMondayDay ((k : Int)) 0) == 0) = true := by
  decide +kernel

/-- C14: the table's Easter Monday is a Monday, every year 1901–2199. -/
theorem easter_monday_is_monday (y : Int) (h1 : 1901 ≤ y) (h2 : y ≤ 2199) :
    weekday ((mkDate 1 1 y).serial - 1 + pyIdxD tbl_easterMondayDay (y - 1901) 0) = 0 := by
  have hall := easter_monday_weekday_all
  rw [List.all_eq_true] at hall
  obtain ⟨k, rfl⟩ : ∃ k : Nat, y = 1901 + (k : Int) := ⟨(y - 1901).toNat, by omega⟩
  have := hall k (List.mem_range.mpr (by omega))
  simp only [beq_iff_eq] at this
  have e1 : (1901 + (k : Int) - 1901) = (k : Int) := by omega
  rw [e1]; exact this

/-- C14: a date object that sits `off` days after the table's Easter Monday (as `is_holiday` measures it: by
`day_in_year`) has weekday `off mod 7` — so every Easter-relative rule fires on one fixed weekday. -/
theorem easter_relative_weekday (dt : PyDate) (off : Int) (hdt : dt = mkDate dt.d dt.m dt.y)
    (h1 : 1901 ≤ dt.y) (h2 : dt.y ≤ 2199)
    (h : dayInYear dt = pyIdxD tbl_easterMondayDay (dt.y - 1901) 0 + off) : dt.wd = off % 7 := by
  have hm := easter_monday_is_monday dt.y h1 h2
  have hw : dt.wd = weekday dt.serial := by rw [hdt]; simp only [mkDate]
  simp only [dayInYear] at h
  simp only [weekday] at hm hw
  rw [hw]
  omega

/-- Easter Monday (offset 0) is a Monday; Good Friday (−3) a Friday; Maundy Thursday (−4, NORWAY) a Thursday;
Ascension (+38) a Thursday; Whit Monday (+49) a Monday. -/
theorem easter_rules_weekdays (dt : PyDate) (hdt : dt = mkDate dt.d dt.m dt.y) (h1 : 1901 ≤ dt.y) (h2 : dt.y ≤ 2199)
    (em : Int) (hem : em = pyIdxD tbl_easterMondayDay (dt.y - 1901) 0) :
    (dayInYear dt = em → dt.wd = 0) ∧ (dayInYear dt = em - 3 → dt.wd = 4) ∧ (dayInYear dt = em - 4 → dt.wd = 3) ∧
    (dayInYear dt = em + 38 → dt.wd = 3) ∧ (dayInYear dt = em + 49 → dt.wd = 0) := by
  subst hem
  refine ⟨fun h => ?_, fun h => ?_, fun h => ?_, fun h => ?_, fun h => ?_⟩
  · have := easter_relative_weekday dt 0 hdt h1 h2 (by omega); omega
  · have := easter_relative_weekday dt (-3) hdt h1 h2 (by omega); omega
  · have := easter_relative_weekday dt (-4) hdt h1 h2 (by omega); omega
  · have := easter_relative_weekday dt 38 hdt h1 h2 (by omega); omega
  · have := easter_relative_weekday dt 49 hdt h1 h2 (by omega); omega

/-- The computus Easter Sunday is a Sunday (weekday 6 of the date class) for every year 1901–2199. -/
theorem computus_easter_sunday_is_sunday_all :
    (List.range 299).all (fun k =>
      (mkDate ((easterSunday (1901 + k)).2 : Int) ((easterSunday (1901 + k)).1 : Int) (1901 + (k : Int))).wd == 6) = true := by
  decide +kernel

theorem computus_easter_sunday_is_sunday (y : Nat) (h1 : 1901 ≤ y) (h2 : y ≤ 2199) :
    (mkDate ((easterSunday y).2 : Int) ((easterSunday y).1 : Int) (y : Int)).wd = 6 := by
  have hall := computus_easter_sunday_is_sunday_all
  rw [List.all_eq_true] at hall
  obtain ⟨k, rfl⟩ : ∃ k : Nat, y = 1901 + k := ⟨y - 1901, by omega⟩
  have := hall k (List.mem_range.mpr (by omega))
  simp only [beq_iff_eq] at this
  have e : ((1901 + k : Nat) : Int) = 1901 + (k : Int) := by push_cast; rfl
  rw [e]; exact this

/-- Easter Monday lies between 23 March (day 82 of a common year) and 26 April (day 117 of a leap year). -/
theorem easter_monday_range_all :
    tbl_easterMondayDay.all (fun e => decide (82 ≤ e) && decide (e ≤ 117)) = true := by decide +kernel

theorem easter_monday_range (y : Int) (h1 : 1901 ≤ y) (h2 : y ≤ 2199) :
    82 ≤ pyIdxD tbl_easterMondayDay (y - 1901) 0 ∧ pyIdxD tbl_easterMondayDay (y - 1901) 0 ≤ 117 := by
  have hall := easter_monday_range_all
  rw [List.all_eq_true] at hall
  have hlen := easter_table_length
  obtain ⟨k, rfl⟩ : ∃ k : Nat, y = 1901 + (k : Int) := ⟨(y - 1901).toNat, by omega⟩
  have hk : k < tbl_easterMondayDay.length := by omega
  have e1 : (1901 + (k : Int) - 1901) = (k : Int) := by omega
  have hget : pyIdxD tbl_easterMondayDay (k : Int) 0 = tbl_easterMondayDay[k] := by
    simp only [pyIdxD, pyIdx?, hlen]
    have hk' : (k : Int) < (299 : Nat) := by omega
    simp only [Int.natCast_nonneg, true_and, hk', if_true, Int.toNat_natCast]
    rw [List.getElem?_eq_getElem hk]; rfl
  rw [e1, hget]
  have := hall _ (List.getElem_mem hk)
  simpa using this

/-- Non-vacuity: Easter Monday 2024 = 1 April 2024 (day 92), a Monday; Good Friday 29 March 2024 a Friday. -/
example : dayInYear (mkDate 1 4 2024) = pyIdxD tbl_easterMondayDay (2024 - 1901) 0 ∧ (mkDate 1 4 2024).wd = 0 ∧
    dayInYear (mkDate 29 3 2024) = pyIdxD tbl_easterMondayDay (2024 - 1901) 0 - 3 ∧ (mkDate 29 3 2024).wd = 4 := by
  decide +kernel

/-! ### MODIFIED conventions: exact two-way statement; distance -/

variable (bd : PyDate → Option Bool) (addDays' : PyDate → Int → Except PyErr PyDate)
  (mk : Int → Int → Int → PyDate)

/-- C14: MODIFIED FOLLOWING returns `r` exactly when either FOLLOWING returns `r` in the month of the input, or
FOLLOWING leaves the month and `r` is the PRECEDING business day of the (re-made) input date. -/
theorem adjust_modified_following_iff (fuel : Nat) (dt r : PyDate) :
    Algo.adjust bd addDays' mk fuel false 3 dt = .ok r ↔
      ((walk bd addDays' 1 fuel dt = .ok r ∧ r.m = dt.m) ∨
       (∃ r1, walk bd addDays' 1 fuel dt = .ok r1 ∧ r1.m ≠ dt.m ∧
          walk bd addDays' (-1) fuel (mk dt.d dt.m dt.y) = .ok r)) := by
  cases h1 : walk bd addDays' 1 fuel dt with
  | error e => simp [Algo.adjust, h1]
  | ok r1 =>
    rw [adjust_modified_following bd addDays' mk fuel dt r1 h1]
    by_cases hm : r1.m = dt.m
    · simp only [hm, if_true]
      constructor
      · intro h; cases h; exact Or.inl ⟨rfl, hm⟩
      · rintro (⟨h, _⟩ | ⟨r2, h, hne, _⟩)
        · exact h
        · cases h; exact absurd hm hne
    · simp only [hm, if_false]
      constructor
      · intro h; exact Or.inr ⟨r1, rfl, hm, h⟩
      · rintro (⟨h, hr⟩ | ⟨r2, h, hne, hw⟩)
        · cases h; exact absurd hr hm
        · exact hw

/-- C14: MODIFIED PRECEDING, symmetrically. -/
theorem adjust_modified_preceding_iff (fuel : Nat) (dt r : PyDate) :
    Algo.adjust bd addDays' mk fuel false 5 dt = .ok r ↔
      ((walk bd addDays' (-1) fuel dt = .ok r ∧ r.m = dt.m) ∨
       (∃ r1, walk bd addDays' (-1) fuel dt = .ok r1 ∧ r1.m ≠ dt.m ∧
          walk bd addDays' 1 fuel (mk dt.d dt.m dt.y) = .ok r)) := by
  cases h1 : walk bd addDays' (-1) fuel dt with
  | error e => simp [Algo.adjust, h1]
  | ok r1 =>
    rw [adjust_modified_preceding bd addDays' mk fuel dt r1 h1]
    by_cases hm : r1.m = dt.m
    · simp only [hm, if_true]
      constructor
      · intro h; cases h; exact Or.inl ⟨rfl, hm⟩
      · rintro (⟨h, _⟩ | ⟨r2, h, hne, _⟩)
        · exact h
        · cases h; exact absurd hm hne
    · simp only [hm, if_false]
      constructor
      · intro h; exact Or.inr ⟨r1, rfl, hm, h⟩
      · rintro (⟨h, hr⟩ | ⟨r2, h, hne, hw⟩)
        · cases h; exact absurd hr hm
        · exact hw

/-- The walk reaches its result in fewer single-day steps than its fuel (strengthens `walk_nearest`). -/
theorem walk_steps_lt_fuel (dir : Int) (fuel : Nat) (dt r : PyDate)
    (h : walk bd addDays' dir fuel dt = .ok r) :
    ∃ k, k < fuel ∧ iter addDays' dir k dt = .ok r ∧
      ∀ j, j < k → ∃ x, iter addDays' dir j dt = .ok x ∧ bd x = some false := by
  induction fuel generalizing dt with
  | zero => simp [walk] at h
  | succ n ih =>
    unfold walk at h
    split at h
    · simp at h
    · simp at h; subst h; exact ⟨0, by omega, rfl, fun j hj => absurd hj (Nat.not_lt_zero j)⟩
    · rename_i hb
      split at h
      · simp at h
      · rename_i dt' hstep
        obtain ⟨k, hkf, hk, hall⟩ := ih _ h
        refine ⟨k + 1, by omega, by simp [iter, hstep, hk], ?_⟩
        intro j hj
        cases j with
        | zero => exact ⟨dt, rfl, hb⟩
        | succ j =>
          obtain ⟨x, hx, hbx⟩ := hall j (by omega)
          exact ⟨x, by simp [iter, hstep, hx], hbx⟩

/-- The result of the walk does not depend on the fuel: two runs that both return, return the same date. -/
theorem walk_fuel_irrelevant (dir : Int) (f1 f2 : Nat) (dt r1 r2 : PyDate)
    (h1 : walk bd addDays' dir f1 dt = .ok r1) (h2 : walk bd addDays' dir f2 dt = .ok r2) : r1 = r2 := by
  induction f1 generalizing f2 dt with
  | zero => simp [walk] at h1
  | succ n ih =>
    cases f2 with
    | zero => simp [walk] at h2
    | succ m =>
      unfold walk at h1 h2
      cases hb : bd dt with
      | none => simp [hb] at h1
      | some b =>
        cases b with
        | true => simp [hb] at h1 h2; rw [← h1, ← h2]
        | false =>
          simp only [hb] at h1 h2
          cases hs : addDays' dt dir with
          | error e => simp [hs] at h1
          | ok d' =>
            simp only [hs] at h1 h2
            exact ih m d' h1 h2

/-! ### add_business_days: n = 0, additivity -/

variable (step : PyDate → Except PyErr PyDate)

/-- C14: counting zero business days returns the start itself (any fuel). -/
theorem abd_zero (fuel : Nat) (cur : PyDate) : abdLoop bd step fuel 0 cur = .ok cur := by
  cases fuel <;> simp [abdLoop]

/-- The result of the counting loop does not depend on the fuel. -/
theorem abdLoop_fuel_irrelevant (f1 f2 left : Nat) (cur r1 r2 : PyDate)
    (h1 : abdLoop bd step f1 left cur = .ok r1) (h2 : abdLoop bd step f2 left cur = .ok r2) : r1 = r2 := by
  induction f1 generalizing f2 left cur with
  | zero =>
    cases left with
    | zero => rw [abd_zero] at h1 h2; cases h1; cases h2; rfl
    | succ n => simp [abdLoop] at h1
  | succ f ih =>
    cases left with
    | zero => rw [abd_zero] at h1 h2; cases h1; cases h2; rfl
    | succ n =>
      cases f2 with
      | zero => simp [abdLoop] at h2
      | succ g =>
        simp only [abdLoop] at h1 h2
        cases hs : step cur with
        | error e => simp [hs] at h1
        | ok nd =>
          simp only [hs] at h1 h2
          cases hb : bd nd with
          | none => simp [hb] at h1
          | some b =>
            cases b with
            | true => simp only [hb] at h1 h2; exact ih g n nd h1 h2
            | false => simp only [hb] at h1 h2; exact ih g (n + 1) nd h1 h2

/-- More fuel never changes a returned result. -/
theorem abdLoop_fuel_mono (f k left : Nat) (cur r : PyDate)
    (h : abdLoop bd step f left cur = .ok r) : abdLoop bd step (f + k) left cur = .ok r := by
  induction f generalizing left cur with
  | zero =>
    cases left with
    | zero => rw [abd_zero] at h ⊢; exact h
    | succ n => simp [abdLoop] at h
  | succ f ih =>
    cases left with
    | zero => rw [abd_zero] at h ⊢; exact h
    | succ n =>
      have e : f + 1 + k = (f + k) + 1 := by omega
      rw [e]
      simp only [abdLoop] at h ⊢
      cases hs : step cur with
      | error e => simp [hs] at h
      | ok nd =>
        simp only [hs] at h ⊢
        cases hb : bd nd with
        | none => simp [hb] at h
        | some b =>
          cases b with
          | true => simp only [hb] at h ⊢; exact ih n nd h
          | false => simp only [hb] at h ⊢; exact ih (n + 1) nd h

/-- C14 additivity (generic loop): counting `a` business days and then `b` more from where that ended is counting
`a + b` business days. -/
theorem abdLoop_add (f1 f2 a b : Nat) (cur mid r : PyDate)
    (h1 : abdLoop bd step f1 a cur = .ok mid) (h2 : abdLoop bd step f2 b mid = .ok r) :
    abdLoop bd step (f1 + f2) (a + b) cur = .ok r := by
  induction f1 generalizing a cur with
  | zero =>
    cases a with
    | zero =>
      rw [abd_zero] at h1; cases h1
      simpa using h2
    | succ n => simp [abdLoop] at h1
  | succ f ih =>
    cases a with
    | zero =>
      rw [abd_zero] at h1; cases h1
      have := abdLoop_fuel_mono bd step f2 (f + 1) b _ r h2
      have e : f + 1 + f2 = f2 + (f + 1) := by omega
      rw [e]; simpa using this
    | succ n =>
      have e1 : f + 1 + f2 = (f + f2) + 1 := by omega
      have e2 : n + 1 + b = (n + b) + 1 := by omega
      rw [e1, e2]
      simp only [abdLoop] at h1 ⊢
      cases hs : step cur with
      | error e => simp [hs] at h1
      | ok nd =>
        simp only [hs] at h1 ⊢
        cases hb : bd nd with
        | none => simp [hb] at h1
        | some bb =>
          cases bb with
          | true => simp only [hb] at h1 ⊢; exact ih n nd h1
          | false =>
            simp only [hb] at h1 ⊢
            have := ih (n + 1) nd h1
            have e3 : n + 1 + b = n + b + 1 := by omega
            rw [e3] at this; exact this

/-- C14, model of `Calendar.add_business_days`: n = 0 returns the (re-made) start date, in every calendar — even
when the start is not a business day. -/
theorem add_business_days_zero (cal : Int) (start s0 : PyDate)
    (h0 : mkDate? start.d start.m start.y = .ok s0) : addBusinessDays cal start 0 = .ok s0 := by
  simp [addBusinessDays, h0, abdLoop]

/-- C14, model of `Calendar.add_business_days`: **n₁ then n₂ with the same sign is n₁ + n₂** — every calendar, every
valid start.  (The hypothesis that the combined call returns only excludes exhaustion of the model's fuel, which the
code does not have; the two-stage result then IS the one-stage result.) -/
theorem add_business_days_additive (cal : Int) (start mid r r' : PyDate) (n1 n2 : Int)
    (hs : (0 ≤ n1 ∧ 0 ≤ n2) ∨ (n1 < 0 ∧ n2 < 0))
    (h1 : addBusinessDays cal start n1 = .ok mid) (h2 : addBusinessDays cal mid n2 = .ok r)
    (h12 : addBusinessDays cal start (n1 + n2) = .ok r') : r' = r := by
  simp only [addBusinessDays] at h1 h12
  cases h0 : mkDate? start.d start.m start.y with
  | error e => simp [h0] at h1
  | ok s0 =>
    simp only [h0] at h1 h12
    obtain ⟨hv0, hs0⟩ := (mkDateQ_iff _ _ _ _).mp h0
    have hwf0 : WF s0 := by subst hs0; exact ⟨rfl, hv0⟩
    have hwfm : WF mid := abdLoop_WF cal _ _ _ s0 mid hwf0 h1
    have hm0 : mkDate? mid.d mid.m mid.y = .ok mid := (mkDateQ_iff _ _ _ _).mpr ⟨hwfm.2, hwfm.1⟩
    simp only [addBusinessDays, hm0] at h2
    have hd : decide (n2 ≥ 0) = decide (n1 ≥ 0) ∧ decide (n1 + n2 ≥ 0) = decide (n1 ≥ 0) ∧
        (n1 + n2).natAbs = n1.natAbs + n2.natAbs := by
      rcases hs with ⟨a, b⟩ | ⟨a, b⟩
      · refine ⟨?_, ?_, by omega⟩ <;> simp [a, b] <;> omega
      · have c1 : ¬ n1 ≥ 0 := by omega
        have c2 : ¬ n2 ≥ 0 := by omega
        have c3 : ¬ n1 + n2 ≥ 0 := by omega
        refine ⟨?_, ?_, by omega⟩ <;> simp [c1, c2, c3]
    obtain ⟨d2, d12, dabs⟩ := hd
    rw [d2] at h2
    rw [d12, dabs] at h12
    have hadd := abdLoop_add (isBusinessDay cal) (stepG (decide (n1 ≥ 0))) _ _ _ _ s0 mid r h1 h2
    exact abdLoop_fuel_irrelevant (isBusinessDay cal) (stepG (decide (n1 ≥ 0))) _ _ _ s0 r' r h12 hadd

/-- Non-vacuity: US calendar from Thursday 2 Jul 2020: +2 lands on Tue 7 Jul (3 Jul observed holiday, weekend), +3
more on Fri 10 Jul, which is +5 directly. -/
example :
    (match addBusinessDays 14 (mkDate 2 7 2020) 2 with | .ok r => (r.d, r.m, r.y) | .error _ => (0, 0, 0)) = (7, 7, 2020) ∧
    (match addBusinessDays 14 (mkDate 7 7 2020) 3 with | .ok r => (r.d, r.m, r.y) | .error _ => (0, 0, 0)) = (10, 7, 2020) ∧
    (match addBusinessDays 14 (mkDate 2 7 2020) 5 with | .ok r => (r.d, r.m, r.y) | .error _ => (0, 0, 0)) = (10, 7, 2020) := by
  decide +kernel

end FinVerif.Props.C14
