/-
  C14 (part g) — TERMINATION of the walk of `Calendar.adjust` beyond the WEEKEND calendar.

  Generic part (any predicate, any stepping function): if the walk runs out of fuel then every date it visited was a
  non-business day; hence a bound on the number of consecutive non-business days bounds the fuel needed.

  Model part: the dates visited from a held date are held dates with consecutive serial numbers (so consecutive
  weekdays), a backward walk read from its far end is a forward walk, and therefore:
  **if a calendar never has `L` consecutive non-business days starting on weekday `w`, then `6 + L` evaluations always
  suffice, in either direction** (`walk_terminates_of_run`).  The run hypothesis is then discharged from the
  GENERATED holiday functions by structural reasoning on their rules (no enumeration of dates):

    NONE, WEEKEND  : no Tuesday is a non-business day                     (L = 1,  7 evaluations)
    UNITED_STATES  : never Tuesday and Wednesday both holidays            (L = 2,  8 evaluations)
    TARGET         : never Tuesday, Wednesday and Thursday all holidays   (L = 3,  9 evaluations; uses "Easter Monday
                     is a Monday", C14f, to exclude the Easter-relative rules on those weekdays; years ≤ 2199)
    JAPAN          : never Tuesday … Friday all holidays                  (L = 4, 10 evaluations)

  The other ten calendars (those with Easter-relative and weekday-substitution rules) are done in part h with the same
  generic theorem (`noRun_every_calendar`, `adjust_terminates_every_calendar`); `adjust_terminates_partial` below is
  the five-calendar statement of this file, `AdjustTerminatesEveryCalendar` the full one (proved in part h).
-/
import FinVerif.Props.C14e
import FinVerif.Props.C14f

set_option linter.unusedVariables false
set_option linter.unusedSimpArgs false

namespace FinVerif.Props.C14
open FinVerif FinVerif.Algo FinVerif.Model FinVerif.Gen.DateK FinVerif.Gen.Calendar
open FinVerif.Props.C13 (TableValid addDays_serial mkDateQ_ok nextDayT_prevDayT prevDayT_nextDayT tableMonthDays_pos)

/-! ### generic -/

section generic
variable (bd : PyDate → Option Bool) (addD : PyDate → Int → Except PyErr PyDate)

/-- `iter` unfolded at the far end. -/
theorem iter_succ_right (dir : Int) (k : Nat) (dt : PyDate) :
    iter addD dir (k + 1) dt = match iter addD dir k dt with
      | .error e => .error e
      | .ok x => addD x dir := by
  induction k generalizing dt with
  | zero =>
    simp only [iter]
    cases addD dt dir <;> rfl
  | succ n ih =>
    rw [iter]
    cases hs : addD dt dir with
    | error e => simp [iter, hs]
    | ok d' =>
      simp only []
      rw [ih d']
      simp [iter, hs]

/-- If the walk runs out of fuel, every date it evaluated was a non-business day (the stepping function itself never
reports exhaustion). -/
theorem walk_exhausted_all_nonbusiness (dir : Int) (hne : ∀ d, addD d dir ≠ .error .other) (fuel : Nat) (dt : PyDate)
    (h : walk bd addD dir fuel dt = .error .other) :
    ∀ j, j < fuel → ∃ x, iter addD dir j dt = .ok x ∧ bd x = some false := by
  induction fuel generalizing dt with
  | zero => intro j hj; omega
  | succ n ih =>
    unfold walk at h
    cases hb : bd dt with
    | none => simp [hb] at h
    | some b =>
      cases b with
      | true => simp [hb] at h
      | false =>
        simp only [hb] at h
        cases hs : addD dt dir with
        | error e =>
          simp only [hs] at h
          exfalso; apply hne dt; rw [hs]; exact h
        | ok d' =>
          simp only [hs] at h
          intro j hj
          cases j with
          | zero => exact ⟨dt, rfl, hb⟩
          | succ j =>
            obtain ⟨x, hx, hbx⟩ := ih d' h j (by omega)
            exact ⟨x, by simp [iter, hs, hx], hbx⟩

/-- Contrapositive: if one of the first `fuel` dates on the way is a business day (or has no answer), the walk does
not run out of fuel. -/
theorem walk_terminates_of_business_day_ahead (dir : Int) (hne : ∀ d, addD d dir ≠ .error .other) (fuel : Nat)
    (dt : PyDate) (j : Nat) (hj : j < fuel) (x : PyDate) (hx : iter addD dir j dt = .ok x) (hb : bd x ≠ some false) :
    walk bd addD dir fuel dt ≠ .error .other := by
  intro h
  obtain ⟨x', hx', hb'⟩ := walk_exhausted_all_nonbusiness bd addD dir hne fuel dt h j hj
  rw [hx] at hx'; cases hx'
  exact hb hb'

end generic

/-! ### the dates visited by the model's walk -/

theorem tableValid_validG (d m y : Int) (h : TableValid d m y) (hy : 1901 ≤ y) : ValidG d m y := by
  obtain ⟨h1, h2, h3, h4⟩ := h
  refine ⟨by omega, h1, h2, h3, ?_⟩
  have hne : y ≠ 1900 := by omega
  simp only [tableMonthDays, excelLeap, hne, if_false] at h4
  simpa only [monthDays] using h4

/-- the (d, m, y) of one forward / backward step -/
theorem addDays_fields (dt r : PyDate) (h : addDays dt 1 = .ok r) : (r.d, r.m, r.y) = nextDayT dt.d dt.m dt.y := by
  simp only [addDays] at h
  obtain ⟨_, hr⟩ := (mkDateQ_iff _ _ _ _).mp h
  subst hr
  simp [stepDays, mkDate]

theorem addDays_fields_back (dt r : PyDate) (h : addDays dt (-1) = .ok r) :
    (r.d, r.m, r.y) = prevDayT dt.d dt.m dt.y := by
  simp only [addDays] at h
  obtain ⟨_, hr⟩ := (mkDateQ_iff _ _ _ _).mp h
  subst hr
  simp [stepDays, mkDate]

/-- a backward step from a held date is undone by a forward step -/
theorem addDays_back_then_forward (dt r : PyDate) (hh : Held dt) (hy : 1901 ≤ dt.y) (h : addDays dt (-1) = .ok r) :
    addDays r 1 = .ok dt := by
  have hf := addDays_fields_back dt r h
  obtain ⟨e, hv⟩ := hh
  have hinv := nextDayT_prevDayT dt.d dt.m dt.y hv
  have e1 : r.d = (prevDayT dt.d dt.m dt.y).1 := by rw [← hf]
  have e2 : r.m = (prevDayT dt.d dt.m dt.y).2.1 := by rw [← hf]
  have e3 : r.y = (prevDayT dt.d dt.m dt.y).2.2 := by rw [← hf]
  simp only [addDays, stepDays, Int.natAbs_one, show decide ((1 : Int) ≥ 0) = true by decide, if_true]
  rw [e1, e2, e3, hinv]
  exact (mkDateQ_iff _ _ _ _).mpr ⟨tableValid_validG _ _ _ hv hy, e⟩

/-- C14: the `k`-th date visited from a held date is a held date exactly `k` days away (so its weekday is known). -/
theorem iter_held (dir : Int) (hd : dir = 1 ∨ dir = -1) (k : Nat) (dt x : PyDate) (hh : Held dt)
    (hy : 1902 + (k : Int) ≤ dt.y) (h : iter addDays dir k dt = .ok x) :
    Held x ∧ x.serial = dt.serial + k * dir ∧ dt.y - k ≤ x.y := by
  induction k generalizing dt with
  | zero => simp only [iter] at h; cases h; exact ⟨hh, by simp, by simp⟩
  | succ n ih =>
    simp only [iter] at h
    cases hs : addDays dt dir with
    | error e => simp [hs] at h
    | ok d' =>
      simp only [hs] at h
      obtain ⟨hh1, hs1, _⟩ := step_keeps_held dt d' dir hd hh (by omega) hs
      have hy1 := (addDays_one_year dt d' dir hd hs).1
      obtain ⟨a, b, c⟩ := ih d' hh1 (by push_cast at hy ⊢; omega) h
      refine ⟨a, ?_, ?_⟩
      · rw [b, hs1]; rcases hd with rfl | rfl <;> push_cast <;> omega
      · push_cast; omega

/-- a backward walk of `k` steps, read from its end, is a forward walk of `k` steps -/
theorem iter_back_then_forward (k : Nat) (dt x : PyDate) (hh : Held dt) (hy : 1902 + (k : Int) ≤ dt.y)
    (h : iter addDays (-1) k dt = .ok x) : iter addDays 1 k x = .ok dt := by
  induction k generalizing dt with
  | zero => simp only [iter] at h ⊢; cases h; rfl
  | succ n ih =>
    simp only [iter] at h
    cases hs : addDays dt (-1) with
    | error e => simp [hs] at h
    | ok d' =>
      simp only [hs] at h
      obtain ⟨hh1, _, _⟩ := step_keeps_held dt d' (-1) (Or.inr rfl) hh (by omega) hs
      have hy1 := (addDays_one_year dt d' (-1) (Or.inr rfl) hs).1
      have := ih d' hh1 (by push_cast at hy ⊢; omega) h
      rw [iter_succ_right, this]
      exact addDays_back_then_forward dt d' hh (by omega) hs

/-- splitting a walk: the date after `i + j` steps is the date `j` steps after the date after `i` steps -/
theorem iter_add (addD : PyDate → Int → Except PyErr PyDate) (dir : Int) (i j : Nat) (dt x : PyDate)
    (h : iter addD dir i dt = .ok x) : iter addD dir (i + j) dt = iter addD dir j x := by
  induction i generalizing dt with
  | zero => simp only [iter] at h; cases h; simp
  | succ n ih =>
    simp only [iter] at h
    cases hs : addD dt dir with
    | error e => simp [hs] at h
    | ok d' =>
      simp only [hs] at h
      have e : n + 1 + j = (n + j) + 1 := by omega
      rw [e]
      simp only [iter, hs]
      exact ih d' h

/-- prefixes of a successful walk are successful -/
theorem iter_prefix (addD : PyDate → Int → Except PyErr PyDate) (dir : Int) (i j : Nat) (dt x : PyDate)
    (h : iter addD dir (i + j) dt = .ok x) : ∃ z, iter addD dir i dt = .ok z := by
  cases hz : iter addD dir i dt with
  | ok z => exact ⟨z, rfl⟩
  | error e =>
    exfalso
    induction i generalizing dt with
    | zero => simp [iter] at hz
    | succ n ih =>
      have e1 : n + 1 + j = (n + j) + 1 := by omega
      rw [e1] at h
      simp only [iter] at h hz
      cases hs : addD dt dir with
      | error e' => simp [hs] at h
      | ok d' =>
        simp only [hs] at h hz
        exact ih d' h hz

/-! ### years of nearby dates -/

theorem serial_year_bounds (d m y : Int) (hv : TableValid d m y) :
    daysBeforeYear y + 1 ≤ excelSerial d m y ∧ excelSerial d m y ≤ daysBeforeYear y + 366 := by
  obtain ⟨h1, h2, h3, h4⟩ := hv
  simp only [excelSerial, daysBeforeMonth]
  simp only [tableMonthDays] at h4
  split at h4 <;> rename_i hl <;> simp only [hl, if_true, if_false, Bool.false_eq_true] <;>
    (interval_cases m <;>
      simp [pyIdxD, pyIdx?, cumDaysLeap, cumDaysNonLeap, month_days_leap_year, month_days_not_leap_year] at h4 ⊢ <;>
      omega)

theorem daysBeforeYear_gap (y y' : Int) (hy : 1900 ≤ y) (h : y + 2 ≤ y') :
    daysBeforeYear y + 729 ≤ daysBeforeYear y' := by
  simp only [daysBeforeYear, leapsUpTo]
  split_ifs <;> omega

/-- two held dates less than a year apart in serial number are in the same or in adjacent years -/
theorem year_close (a b : PyDate) (ha : Held a) (hb : Held b) (hy : 1900 ≤ a.y) (h : b.serial ≤ a.serial + 360) :
    b.y ≤ a.y + 1 := by
  by_contra hc
  have hgap := daysBeforeYear_gap a.y b.y hy (by omega)
  obtain ⟨ea, va⟩ := ha
  obtain ⟨eb, vb⟩ := hb
  have sa := (serial_year_bounds a.d a.m a.y va).2
  have sb := (serial_year_bounds b.d b.m b.y vb).1
  have e1 : a.serial = excelSerial a.d a.m a.y := by rw [ea]; simp only [mkDate]
  have e2 : b.serial = excelSerial b.d b.m b.y := by rw [eb]; simp only [mkDate]
  omega

/-! ### the general termination theorem -/

/-- `NoRun cal w L ymax`: no `L` consecutive dates starting on weekday `w` (years 1903 + L to `ymax`) are all non-business
days of calendar `cal`. -/
def NoRun (cal : Int) (w : Int) (L : Nat) (ymax : Int) : Prop :=
  ∀ a : PyDate, Held a → 1903 + (L : Int) ≤ a.y → a.y ≤ ymax → a.wd = w →
    ¬ (∀ i, i < L → ∃ x, iter addDays 1 i a = .ok x ∧ isBusinessDay cal x = some false)

/-- C14 TERMINATION: if calendar `cal` never has `L` consecutive non-business days starting on weekday `w`, then from
every held date the walk of `Calendar.adjust` finds a business day (or stops with the library's own error) within
`6 + L` evaluations, in either direction — the model's fuel (40) is never what ends it. -/
theorem walk_terminates_of_run (cal w : Int) (L : Nat) (ymax : Int) (hw : 0 ≤ w ∧ w < 7) (hL : 1 ≤ L) (hL2 : L ≤ 300)
    (hrun : NoRun cal w L ymax)
    (dir : Int) (hd : dir = 1 ∨ dir = -1) (dt : PyDate) (hh : Held dt)
    (hy : 1903 + 6 + 2 * (L : Int) ≤ dt.y) (hy2 : dt.y + 1 ≤ ymax) (fuel : Nat) (hf : 6 + L ≤ fuel) :
    walk (isBusinessDay cal) addDays dir fuel dt ≠ .error .other := by
  intro hex
  have hall := walk_exhausted_all_nonbusiness (isBusinessDay cal) addDays dir (fun d => addDays_ne_other d dir) fuel dt hex
  -- every visited date, with its serial and year bounds
  have hvis : ∀ j, j < 6 + L → ∃ x, iter addDays dir j dt = .ok x ∧ isBusinessDay cal x = some false ∧ Held x ∧
      x.serial = dt.serial + j * dir ∧ dt.y - j ≤ x.y := by
    intro j hj
    obtain ⟨x, hx, hb⟩ := hall j (by omega)
    obtain ⟨a, b, c⟩ := iter_held dir hd j dt x hh (by push_cast; omega) hx
    exact ⟨x, hx, hb, a, b, c⟩
  rcases hd with hd | hd <;> subst hd
  · -- forward: the run starts at the first day of weekday `w`, at most 6 steps ahead
    obtain ⟨j, hj6, hjw⟩ : ∃ j : Nat, j ≤ 6 ∧ (dt.serial + j + 5) % 7 = w := by
      refine ⟨((w - (dt.serial + 5)) % 7).toNat, by omega, by omega⟩
    obtain ⟨a, ha, hba, hha, hsa, hya⟩ := hvis j (by omega)
    have hya2 : a.y ≤ dt.y + 1 := year_close dt a hh hha (by omega) (by rw [hsa]; push_cast; omega)
    refine hrun a hha (by push_cast at hya; omega) (by omega) (by rw [held_wd a hha, hsa]; simpa using hjw) ?_
    intro i hi
    obtain ⟨x, hx, hbx, _⟩ := hvis (j + i) (by omega)
    exact ⟨x, by rw [← iter_add addDays 1 j i dt a ha]; exact hx, hbx⟩
  · -- backward: the run ends where the walk is after at most `L - 1 + 6` steps; read it forwards
    obtain ⟨j, hjl, hj6, hjw⟩ : ∃ j : Nat, L - 1 ≤ j ∧ j ≤ L - 1 + 6 ∧ (dt.serial - j + 5) % 7 = w := by
      refine ⟨(L - 1) + ((dt.serial - ((L - 1 : Nat) : Int) + 5 - w) % 7).toNat, by omega, by omega, ?_⟩
      push_cast
      omega
    obtain ⟨a, ha, hba, hha, hsa, hya⟩ := hvis j (by omega)
    have hya2 : a.y ≤ dt.y + 1 := year_close dt a hh hha (by omega) (by rw [hsa]; push_cast; omega)
    refine hrun a hha (by push_cast at hya; omega) (by omega)
      (by rw [held_wd a hha, hsa]; push_cast; have := hjw; omega) ?_
    intro i hi
    obtain ⟨z, hz, hbz, hhz, hsz, hyz⟩ := hvis (j - i) (by omega)
    refine ⟨z, ?_, hbz⟩
    have hsplit : iter addDays (-1) ((j - i) + i) dt = iter addDays (-1) i z := iter_add addDays (-1) (j - i) i dt z hz
    have e : (j - i) + i = j := by omega
    rw [e, ha] at hsplit
    exact iter_back_then_forward i z a hhz (by push_cast at hyz ⊢; omega) hsplit.symm

/-! ### reading a run: consecutive held dates, their weekdays and (d, m, y) -/

/-- the three ways one table step changes (d, m, y) -/
theorem nextDayT_cases (d m y d' m' y' : Int) (hv : TableValid d m y) (hn : (d', m', y') = nextDayT d m y) :
    (d' = d + 1 ∧ m' = m ∧ y' = y ∧ d' ≤ 31) ∨ (d' = 1 ∧ m' = m + 1 ∧ y' = y ∧ 28 ≤ d ∧ m < 12) ∨
    (d' = 1 ∧ m' = 1 ∧ y' = y + 1 ∧ m = 12 ∧ d = 31) := by
  obtain ⟨h1, h2, h3, h4⟩ := hv
  have hp := tableMonthDays_pos y m ⟨h1, h2⟩
  rcases (show m = 12 ∨ m < 12 by omega) with rfl | hm
  · have hdec := FinVerif.Props.C13.tableMonthDays_dec y
    rw [hdec] at h4
    simp only [nextDayT, hdec] at hn
    split_ifs at hn with a b <;> simp only [Prod.mk.injEq] at hn <;> omega
  · simp only [nextDayT] at hn
    split_ifs at hn with a b <;> simp only [Prod.mk.injEq] at hn <;> omega

/-- two consecutive dates of a forward run from a held date -/
theorem run_pair (a x x' : PyDate) (i : Nat) (hi : i ≤ 300) (ha : Held a) (hy : 1903 + (i : Int) ≤ a.y)
    (hx : iter addDays 1 i a = .ok x) (hx' : iter addDays 1 (i + 1) a = .ok x') :
    Held x ∧ Held x' ∧ x.wd = (a.serial + i + 5) % 7 ∧ x'.wd = (a.serial + i + 1 + 5) % 7 ∧
      1901 ≤ x.y ∧ x.y ≤ a.y + 1 ∧ 1901 ≤ x'.y ∧ x'.y ≤ a.y + 1 ∧
      ((x'.d = x.d + 1 ∧ x'.m = x.m ∧ x'.y = x.y ∧ x'.d ≤ 31) ∨ (x'.d = 1 ∧ x'.m = x.m + 1 ∧ x'.y = x.y ∧ 28 ≤ x.d ∧ x.m < 12) ∨
       (x'.d = 1 ∧ x'.m = 1 ∧ x'.y = x.y + 1 ∧ x.m = 12 ∧ x.d = 31)) := by
  obtain ⟨h1, s1, y1⟩ := iter_held 1 (Or.inl rfl) i a x ha (by omega) hx
  obtain ⟨h2, s2, y2⟩ := iter_held 1 (Or.inl rfl) (i + 1) a x' ha (by push_cast; omega) hx'
  have c1 := year_close a x ha h1 (by omega) (by rw [s1]; omega)
  have c2 := year_close a x' ha h2 (by omega) (by rw [s2]; push_cast; omega)
  rw [iter_succ_right, hx] at hx'
  have hf := addDays_fields x x' hx'
  refine ⟨h1, h2, by rw [held_wd x h1, s1]; simp, by rw [held_wd x' h2, s2]; push_cast; congr 1; omega,
    by push_cast at y1; omega, c1, by push_cast at y2; omega, c2, ?_⟩
  exact nextDayT_cases x.d x.m x.y x'.d x'.m x'.y h1.2 hf

/-- a weekday that is not a business day is a holiday according to the dispatch of `is_holiday` -/
theorem nonbusiness_weekday_is_holiday (cal : Int) (x : PyDate) (hwd : x.wd ≠ 5 ∧ x.wd ≠ 6)
    (h : isBusinessDay cal x = some false) :
    is_holiday_dispatch cal x.m x.d x.y x.wd (dayInYear x) = some true := by
  rcases (non_business_day_iff cal x).mp h with h5 | h6 | hh
  · exact absurd h5 hwd.1
  · exact absurd h6 hwd.2
  · exact hh

/-! ### NONE and WEEKEND: no Tuesday is a non-business day -/

theorem noRun_none : NoRun 1 1 1 (10 ^ 9) := by
  intro a ha _ _ hw hall
  obtain ⟨x, hx, hb⟩ := hall 0 (by omega)
  simp only [iter] at hx; cases hx
  rw [none_business_day] at hb
  simp [hw] at hb

theorem noRun_weekend : NoRun 2 1 1 (10 ^ 9) := by
  intro a ha _ _ hw hall
  obtain ⟨x, hx, hb⟩ := hall 0 (by omega)
  simp only [iter] at hx; cases hx
  rw [weekend_isBusinessDay] at hb
  simp [hw] at hb

/-! ### UNITED_STATES: Tuesday and Wednesday are never both holidays -/

/-- UNITED_STATES: a holiday on a Tuesday or Wednesday is one of the four fixed dates (every other rule names Monday,
Thursday or Friday). -/
theorem us_midweek_fixed (m d y wd diy : Int) (hwd : wd = 1 ∨ wd = 2)
    (h : holiday_united_states m d y wd diy = true) :
    (m = 1 ∧ d = 1) ∨ (m = 7 ∧ d = 4) ∨ (m = 11 ∧ d = 11) ∨ (m = 12 ∧ d = 25) := by
  simp only [holiday_united_states, Bool.or_eq_true, Bool.and_eq_true, decide_eq_true_eq, Bool.or_false] at h
  rcases hwd with rfl | rfl <;> omega

theorem noRun_united_states : NoRun 14 1 2 (10 ^ 9) := by
  intro a ha hy _ hw hall
  obtain ⟨x0, hx0, hb0⟩ := hall 0 (by omega)
  obtain ⟨x1, hx1, hb1⟩ := hall 1 (by omega)
  obtain ⟨_, _, w0, w1, _, _, _, _, hn⟩ := run_pair a x0 x1 0 (by omega) ha (by push_cast at hy ⊢; omega) hx0 hx1
  have hwa := held_wd a ha
  have e0 : x0.wd = 1 := by omega
  have e1 : x1.wd = 2 := by omega
  have k0 := nonbusiness_weekday_is_holiday 14 x0 (by omega) hb0
  have k1 := nonbusiness_weekday_is_holiday 14 x1 (by omega) hb1
  simp only [is_holiday_dispatch, Option.some.injEq] at k0 k1
  norm_num at k0 k1
  have f0 := us_midweek_fixed _ _ _ _ _ (Or.inl e0) k0
  have f1 := us_midweek_fixed _ _ _ _ _ (Or.inr e1) k1
  omega

/-! ### TARGET: Tuesday, Wednesday and Thursday are never all holidays -/

/-- TARGET: on a Tuesday, Wednesday or Thursday (years 1901–2199) a holiday is one of the four fixed dates — the two
Easter-relative rules fire on Friday and Monday only (`easter_rules_weekdays`). -/
theorem target_midweek_fixed (x : PyDate) (hx : Held x) (h1 : 1901 ≤ x.y) (h2 : x.y ≤ 2199)
    (hwd : x.wd = 1 ∨ x.wd = 2 ∨ x.wd = 3)
    (h : holiday_target x.m x.d x.y x.wd (dayInYear x) = true) :
    (x.m = 1 ∧ x.d = 1) ∨ (x.m = 5 ∧ x.d = 1) ∨ (x.m = 12 ∧ x.d = 25) ∨ (x.m = 12 ∧ x.d = 26) := by
  obtain ⟨E0, E3, _⟩ := easter_rules_weekdays x hx.1 h1 h2 _ rfl
  simp only [holiday_target, Bool.or_eq_true, Bool.and_eq_true, decide_eq_true_eq, Bool.or_false] at h
  rcases h with h | h | h | h | h | h
  · omega
  · omega
  · have := E3 h; omega
  · have := E0 h; omega
  · omega
  · omega

theorem noRun_target : NoRun 13 1 3 2198 := by
  intro a ha hy hy2 hw hall
  obtain ⟨x0, hx0, hb0⟩ := hall 0 (by omega)
  obtain ⟨x1, hx1, hb1⟩ := hall 1 (by omega)
  obtain ⟨x2, hx2, hb2⟩ := hall 2 (by omega)
  obtain ⟨hh0, hh1, w0, w1, l0, u0, l1, u1, hn0⟩ := run_pair a x0 x1 0 (by omega) ha (by push_cast at hy ⊢; omega) hx0 hx1
  obtain ⟨_, hh2, _, w2, _, _, l2, u2, hn1⟩ := run_pair a x1 x2 1 (by omega) ha (by push_cast at hy ⊢; omega) hx1 hx2
  have hwa := held_wd a ha
  have e0 : x0.wd = 1 := by omega
  have e1 : x1.wd = 2 := by omega
  have e2 : x2.wd = 3 := by omega
  have k0 := nonbusiness_weekday_is_holiday 13 x0 (by omega) hb0
  have k1 := nonbusiness_weekday_is_holiday 13 x1 (by omega) hb1
  have k2 := nonbusiness_weekday_is_holiday 13 x2 (by omega) hb2
  simp only [is_holiday_dispatch, Option.some.injEq] at k0 k1 k2
  norm_num at k0 k1 k2
  have f0 := target_midweek_fixed x0 hh0 l0 (by omega) (by omega) k0
  have f1 := target_midweek_fixed x1 hh1 l1 (by omega) (by omega) k1
  have f2 := target_midweek_fixed x2 hh2 l2 (by omega) (by omega) k2
  omega

/-! ### JAPAN: Tuesday … Friday are never all holidays -/

/-- the fixed dates of the JAPAN rule list (year guards dropped) -/
def JapanFixed (m d : Int) : Prop :=
  (m = 1 ∧ d = 1) ∨ (m = 2 ∧ d = 11) ∨ (m = 2 ∧ d = 23) ∨ (m = 3 ∧ d = 20) ∨ (m = 4 ∧ d = 29) ∨ (m = 5 ∧ d = 3) ∨
  (m = 5 ∧ d = 4) ∨ (m = 5 ∧ d = 5) ∨ (m = 7 ∧ d = 22) ∨ (m = 7 ∧ d = 23) ∨ (m = 8 ∧ d = 11) ∨ (m = 9 ∧ d = 23) ∨
  (m = 11 ∧ d = 3) ∨ (m = 11 ∧ d = 23)

/-- JAPAN: every rule that is not a fixed date names Monday — so a holiday on any other weekday is a fixed date. -/
theorem japan_nonmonday_fixed (m d y wd diy : Int) (hm : 1 ≤ m ∧ m ≤ 12) (hwd : wd ≠ 0)
    (h : holiday_japan m d y wd diy = true) : JapanFixed m d := by
  obtain ⟨h1, h2⟩ := hm
  interval_cases m <;>
    simp [holiday_japan, JapanFixed, hwd] at h ⊢ <;> omega

/-- two consecutive fixed dates of JAPAN: the first is 3 May, 4 May or 22 July -/
theorem japan_fixed_pair (m d y m' d' y' : Int) (f : JapanFixed m d) (f' : JapanFixed m' d')
    (hn : (d' = d + 1 ∧ m' = m ∧ y' = y ∧ d' ≤ 31) ∨ (d' = 1 ∧ m' = m + 1 ∧ y' = y ∧ 28 ≤ d ∧ m < 12) ∨
      (d' = 1 ∧ m' = 1 ∧ y' = y + 1 ∧ m = 12 ∧ d = 31)) :
    (m = 5 ∧ d = 3) ∨ (m = 5 ∧ d = 4) ∨ (m = 7 ∧ d = 22) := by
  simp only [JapanFixed] at f f'
  rcases hn with ⟨a, b, _, _⟩ | ⟨a, b, _, c, _⟩ | ⟨a, b, _, c, e⟩
  · subst a b; omega
  · subst a b; omega
  · subst a b; omega

theorem noRun_japan : NoRun 8 1 4 (10 ^ 9) := by
  intro a ha hy hy2 hw hall
  obtain ⟨x0, hx0, hb0⟩ := hall 0 (by omega)
  obtain ⟨x1, hx1, hb1⟩ := hall 1 (by omega)
  obtain ⟨x2, hx2, hb2⟩ := hall 2 (by omega)
  obtain ⟨x3, hx3, hb3⟩ := hall 3 (by omega)
  obtain ⟨hh0, hh1, w0, w1, _, _, _, _, hn0⟩ := run_pair a x0 x1 0 (by omega) ha (by push_cast at hy ⊢; omega) hx0 hx1
  obtain ⟨_, hh2, _, w2, _, _, _, _, hn1⟩ := run_pair a x1 x2 1 (by omega) ha (by push_cast at hy ⊢; omega) hx1 hx2
  obtain ⟨_, hh3, _, w3, _, _, _, _, hn2⟩ := run_pair a x2 x3 2 (by omega) ha (by push_cast at hy ⊢; omega) hx2 hx3
  have hwa := held_wd a ha
  have e0 : x0.wd = 1 := by omega
  have e1 : x1.wd = 2 := by omega
  have e2 : x2.wd = 3 := by omega
  have e3 : x3.wd = 4 := by omega
  have k0 := nonbusiness_weekday_is_holiday 8 x0 (by omega) hb0
  have k1 := nonbusiness_weekday_is_holiday 8 x1 (by omega) hb1
  have k2 := nonbusiness_weekday_is_holiday 8 x2 (by omega) hb2
  have k3 := nonbusiness_weekday_is_holiday 8 x3 (by omega) hb3
  simp only [is_holiday_dispatch, Option.some.injEq] at k0 k1 k2 k3
  norm_num at k0 k1 k2 k3
  have f0 := japan_nonmonday_fixed _ _ _ _ _ ⟨hh0.2.1, hh0.2.2.1⟩ (by omega) k0
  have f1 := japan_nonmonday_fixed _ _ _ _ _ ⟨hh1.2.1, hh1.2.2.1⟩ (by omega) k1
  have f2 := japan_nonmonday_fixed _ _ _ _ _ ⟨hh2.2.1, hh2.2.2.1⟩ (by omega) k2
  have f3 := japan_nonmonday_fixed _ _ _ _ _ ⟨hh3.2.1, hh3.2.2.1⟩ (by omega) k3
  have p0 := japan_fixed_pair _ _ _ _ _ _ f0 f1 hn0
  have p1 := japan_fixed_pair _ _ _ _ _ _ f1 f2 hn1
  have p2 := japan_fixed_pair _ _ _ _ _ _ f2 f3 hn2
  omega

/-! ### termination of `Calendar.adjust` for the covered calendars -/

/-- `Calendar.adjust` (all five conventions) never ends by exhausting the model's fuel, for a calendar with a run bound
`6 + L ≤ 40`. -/
theorem adjust_terminates_of_run (cal w : Int) (L : Nat) (ymax : Int) (hw : 0 ≤ w ∧ w < 7) (hL : 1 ≤ L) (hL2 : 6 + L ≤ 40)
    (hrun : NoRun cal w L ymax) (conv : Int) (dt : PyDate) (hh : Held dt)
    (hy : 1903 + 6 + 2 * (L : Int) ≤ dt.y) (hy2 : dt.y + 1 ≤ ymax) :
    Model.adjust cal conv dt ≠ .error .other := by
  have hwalk : ∀ dir, dir = 1 ∨ dir = -1 → walk (isBusinessDay cal) addDays dir adjustFuel dt ≠ .error .other :=
    fun dir hd => walk_terminates_of_run cal w L ymax hw hL (by omega) hrun dir hd dt hh hy hy2 adjustFuel
      (by simp only [adjustFuel]; omega)
  have hre : mkDate dt.d dt.m dt.y = dt := hh.1.symm
  simp only [Model.adjust, Algo.adjust, hre]
  split_ifs
  · simp
  · simp
  · simp
  · exact hwalk 1 (Or.inl rfl)
  · cases h1 : walk (isBusinessDay cal) addDays 1 adjustFuel dt with
    | error e =>
      simp only []
      intro hc; cases hc; exact hwalk 1 (Or.inl rfl) h1
    | ok r =>
      simp only []
      split_ifs
      · exact hwalk (-1) (Or.inr rfl)
      · simp
  · exact hwalk (-1) (Or.inr rfl)
  · cases h1 : walk (isBusinessDay cal) addDays (-1) adjustFuel dt with
    | error e =>
      simp only []
      intro hc; cases hc; exact hwalk (-1) (Or.inr rfl) h1
    | ok r =>
      simp only []
      split_ifs
      · exact hwalk 1 (Or.inl rfl)
      · simp

/-- C14 TERMINATION, covered calendars: for NONE (1), WEEKEND (2), JAPAN (8), TARGET (13) and UNITED_STATES (14), every
convention and every held date of the years 1917 … 2197, `Calendar.adjust` does not run out of fuel: the walk meets a
business day within 7 / 7 / 10 / 9 / 8 evaluations.  (The other ten calendars: validated only — see the header.) -/
theorem adjust_terminates_covered (cal : Int) (hc : cal = 1 ∨ cal = 2 ∨ cal = 8 ∨ cal = 13 ∨ cal = 14)
    (conv : Int) (dt : PyDate) (hh : Held dt) (hy : 1917 ≤ dt.y) (hy2 : dt.y ≤ 2197) :
    Model.adjust cal conv dt ≠ .error .other := by
  rcases hc with rfl | rfl | rfl | rfl | rfl
  · exact adjust_terminates_of_run 1 1 1 _ (by omega) (by omega) (by omega) noRun_none conv dt hh (by push_cast; omega) (by norm_num; omega)
  · exact adjust_terminates_of_run 2 1 1 _ (by omega) (by omega) (by omega) noRun_weekend conv dt hh (by push_cast; omega) (by norm_num; omega)
  · exact adjust_terminates_of_run 8 1 4 _ (by omega) (by omega) (by omega) noRun_japan conv dt hh (by push_cast; omega) (by norm_num; omega)
  · exact adjust_terminates_of_run 13 1 3 _ (by omega) (by omega) (by omega) noRun_target conv dt hh (by push_cast; omega) (by omega)
  · exact adjust_terminates_of_run 14 1 2 _ (by omega) (by omega) (by omega) noRun_united_states conv dt hh (by push_cast; omega) (by norm_num; omega)

/-- The full statement, kept visible: termination for EVERY calendar.  Proved in this file for five of the fifteen
(`adjust_terminates_partial`) and in part h for all of them (`adjust_terminates_every_calendar`).  Outside the years
1917 … 2197 it stays validated by the exhaustive correspondence (the code's own unbounded loop returns and agrees
with the fuel-40 model on every non-business date 1901–2199 in the thorough tier). -/
def AdjustTerminatesEveryCalendar : Prop :=
  ∀ cal conv dt, 1 ≤ cal ∧ cal ≤ 15 → Held dt → 1917 ≤ dt.y → dt.y ≤ 2197 → Model.adjust cal conv dt ≠ .error .other

theorem adjust_terminates_partial (cal : Int) (hc : cal = 1 ∨ cal = 2 ∨ cal = 8 ∨ cal = 13 ∨ cal = 14)
    (conv : Int) (dt : PyDate) (hh : Held dt) (hy : 1917 ≤ dt.y) (hy2 : dt.y ≤ 2197) :
    Model.adjust cal conv dt ≠ .error .other := adjust_terminates_covered cal hc conv dt hh hy hy2

/-- Non-vacuity: the longest US run — Fri 31 Dec 2021 (observed New Year) … Sun 2 Jan 2022 — and Mon 3 Jan 2022 (rule 1/3-if-Monday) — is left by FOLLOWING on
Tue 4 Jan 2022; the start is a held date within the theorem's range. -/
example : Held (mkDate 31 12 2021) ∧ isBusinessDay 14 (mkDate 31 12 2021) = some false ∧
    (match Model.adjust 14 2 (mkDate 31 12 2021) with | .ok r => (r.d, r.m, r.y) | .error _ => (0, 0, 0)) = (4, 1, 2022) := by
  refine ⟨⟨rfl, ?_⟩, by decide +kernel, by decide +kernel⟩
  simp only [TableValid, mkDate]; decide

end FinVerif.Props.C14
