/-
  C14 (part h) — TERMINATION of the walk of `Calendar.adjust` for the remaining ten calendars, hence for ALL fifteen.

  Method (structural, on the GENERATED holiday functions; no enumeration of dates): for every calendar,
  "Tuesday, Wednesday, Thursday and Friday of one week are never all holidays".

  * Every rule that can fire on a Tuesday … Friday is either a fixed date (possibly guarded by a weekday or a year), or
    an Easter-relative rule, or a Friday rule of June (Swedish midsummer).
  * An Easter-relative rule `day_in_year = em + off` fires on weekday `off mod 7` only, and only in March … June
    (`easter_offsets`: Easter Monday is a Monday and lies in days 82 … 117 of the year — C14f — and
    `day_in_year` of a held date is its month offset plus its day).  So on Tuesday and Wednesday only fixed dates
    are holidays; two consecutive fixed dates exist only around Christmas / New Year (and 2–3 June, UK jubilee);
    two days later the date is neither a fixed date nor in March … June.
  * `noRun4_of_midweek` turns this into the run bound of part g (`NoRun cal 1 4 2198`), and
    `walk_terminates_of_run` / `adjust_terminates_of_run` into termination within 10 evaluations.

  Result: `adjust_terminates_every_calendar` — for each of the 15 calendars, each convention and each held date of
  1917 … 2197, the model's fuel (40) is never what ends `Calendar.adjust`.
-/
import FinVerif.Props.C14g

set_option linter.unusedVariables false
set_option linter.unusedSimpArgs false

namespace FinVerif.Props.C14
open FinVerif FinVerif.Algo FinVerif.Model FinVerif.Gen.DateK FinVerif.Gen.Calendar
open FinVerif.Props.C13 (TableValid)

/-! ### Easter-relative rules: one weekday, March … June -/

/-- `day_in_year` of a held date = days before its month + its day -/
theorem dayInYear_eq (x : PyDate) (hx : Held x) : dayInYear x = daysBeforeMonth x.y x.m + x.d := by
  obtain ⟨e, _⟩ := hx
  have e1 : x.serial = excelSerial x.d x.m x.y := by rw [e]; simp only [mkDate]
  simp only [dayInYear, e1]
  simp only [mkDate, excelSerial, daysBeforeMonth]
  split <;> simp [pyIdxD, pyIdx?, cumDaysLeap, cumDaysNonLeap] <;> omega

theorem daysBeforeMonth_bounds (y m : Int) (hm : 1 ≤ m ∧ m ≤ 12) :
    (m ≤ 2 → daysBeforeMonth y m ≤ 31) ∧ (7 ≤ m → 181 ≤ daysBeforeMonth y m) := by
  obtain ⟨h1, h2⟩ := hm
  simp only [daysBeforeMonth]
  split <;> interval_cases m <;> simp [pyIdxD, pyIdx?, cumDaysLeap, cumDaysNonLeap]

/-- C14: an Easter-relative rule (`day_in_year = em + off`, −4 ≤ off ≤ 49 — every offset used by any calendar) holds
for a held date of 1901–2199 only on weekday `off mod 7` and only in March … June. -/
theorem easter_offsets (x : PyDate) (hx : Held x) (h1 : 1901 ≤ x.y) (h2 : x.y ≤ 2199) (off : Int)
    (ho1 : -4 ≤ off) (ho2 : off ≤ 49)
    (h : dayInYear x = pyIdxD tbl_easterMondayDay (x.y - 1901) 0 + off) :
    3 ≤ x.m ∧ x.m ≤ 6 ∧ x.wd = off % 7 := by
  have hw := easter_relative_weekday x off hx.1 h1 h2 h
  have hr := easter_monday_range x.y h1 h2
  have hd := dayInYear_eq x hx
  obtain ⟨_, m1, m2, d1, d2⟩ := hx
  have hb := daysBeforeMonth_bounds x.y x.m ⟨m1, m2⟩
  have hp := FinVerif.Props.C13.tableMonthDays_pos x.y x.m ⟨m1, m2⟩
  refine ⟨?_, ?_, hw⟩
  · by_contra hc
    have := hb.1 (by omega)
    omega
  · by_contra hc
    have := hb.2 (by omega)
    omega

/-! ### from "midweek holidays are fixed dates" to the run bound -/

/-- one table step, as a relation on (d, m, y) -/
def Next (d m y d' m' y' : Int) : Prop :=
  (d' = d + 1 ∧ m' = m ∧ y' = y ∧ d' ≤ 31) ∨ (d' = 1 ∧ m' = m + 1 ∧ y' = y ∧ 28 ≤ d ∧ m < 12) ∨
  (d' = 1 ∧ m' = 1 ∧ y' = y + 1 ∧ m = 12 ∧ d = 31)

/-- `Q m d wd` over-approximates "is a holiday of `cal`" on Tuesday … Friday -/
def Midweek (cal : Int) (Q : Int → Int → Int → Prop) : Prop :=
  ∀ x : PyDate, Held x → 1901 ≤ x.y → x.y ≤ 2199 → 1 ≤ x.wd ∧ x.wd ≤ 4 →
    isBusinessDay cal x = some false → Q x.m x.d x.wd

/-- the hypothesis the tuple-level lemmas receive about the Easter-relative tests -/
def EasterFacts (m wd diy em : Int) : Prop :=
  ∀ off, -4 ≤ off → off ≤ 49 → diy = em + off → 3 ≤ m ∧ m ≤ 6 ∧ wd = off % 7

/-- from a lemma about the generated holiday function on (m, d, y, wd, diy) tuples to the model's dates -/
theorem midweek_of_tuple (cal : Int) (hol : Int → Int → Int → Int → Int → Bool)
    (hdisp : ∀ m d y wd diy, is_holiday_dispatch cal m d y wd diy = some (hol m d y wd diy))
    (Q : Int → Int → Int → Prop)
    (htuple : ∀ m d y wd diy em, 1 ≤ m ∧ m ≤ 12 → 1 ≤ wd ∧ wd ≤ 4 → pyIdxD tbl_easterMondayDay (y - 1901) 0 = em →
      EasterFacts m wd diy em → hol m d y wd diy = true → Q m d wd) : Midweek cal Q := by
  intro x hx h1 h2 hwd hb
  have k := nonbusiness_weekday_is_holiday cal x (by omega) hb
  rw [hdisp] at k
  exact htuple x.m x.d x.y x.wd (dayInYear x) _ ⟨hx.2.1, hx.2.2.1⟩ hwd rfl
    (fun off a b c => easter_offsets x hx h1 h2 off a b c) (Option.some.inj k)

/-- C14: if Tuesday … Friday holidays are confined to `Q` and no four consecutive dates on Tuesday … Friday satisfy `Q`,
then the calendar never has 4 consecutive non-business days starting on a Tuesday. -/
theorem noRun4_of_midweek (cal : Int) (Q : Int → Int → Int → Prop) (hmid : Midweek cal Q)
    (harith : ∀ d0 m0 y0 d1 m1 y1 d2 m2 y2 d3 m3 y3, Q m0 d0 1 → Q m1 d1 2 → Q m2 d2 3 → Q m3 d3 4 →
      Next d0 m0 y0 d1 m1 y1 → Next d1 m1 y1 d2 m2 y2 → Next d2 m2 y2 d3 m3 y3 → False) :
    NoRun cal 1 4 2198 := by
  intro a ha hy hy2 hw hall
  obtain ⟨x0, hx0, hb0⟩ := hall 0 (by omega)
  obtain ⟨x1, hx1, hb1⟩ := hall 1 (by omega)
  obtain ⟨x2, hx2, hb2⟩ := hall 2 (by omega)
  obtain ⟨x3, hx3, hb3⟩ := hall 3 (by omega)
  obtain ⟨hh0, hh1, w0, w1, l0, u0, l1, u1, hn0⟩ := run_pair a x0 x1 0 (by omega) ha (by push_cast at hy ⊢; omega) hx0 hx1
  obtain ⟨_, hh2, _, w2, _, _, l2, u2, hn1⟩ := run_pair a x1 x2 1 (by omega) ha (by push_cast at hy ⊢; omega) hx1 hx2
  obtain ⟨_, hh3, _, w3, _, _, l3, u3, hn2⟩ := run_pair a x2 x3 2 (by omega) ha (by push_cast at hy ⊢; omega) hx2 hx3
  have hwa := held_wd a ha
  have e0 : x0.wd = 1 := by omega
  have e1 : x1.wd = 2 := by omega
  have e2 : x2.wd = 3 := by omega
  have e3 : x3.wd = 4 := by omega
  have q0 := hmid x0 hh0 l0 (by omega) (by omega) hb0
  have q1 := hmid x1 hh1 l1 (by omega) (by omega) hb1
  have q2 := hmid x2 hh2 l2 (by omega) (by omega) hb2
  have q3 := hmid x3 hh3 l3 (by omega) (by omega) hb3
  rw [e0] at q0; rw [e1] at q1; rw [e2] at q2; rw [e3] at q3
  exact harith _ _ _ _ _ _ _ _ _ _ _ _ q0 q1 q2 q3 hn0 hn1 hn2

/-! ### the ten calendars -/

/-- closes the month-by-month goals of the `*_midweek` lemmas -/
macro "midweek_close" : tactic => `(tactic| (first | omega | (simp only [EasterFacts] at *; omega)))

-- AUSTRALIA (3)
def QAustralia (m d wd : Int) : Prop :=
  (m = 1 ∧ d = 1) ∨ (m = 1 ∧ d = 26) ∨ (m = 4 ∧ d = 25) ∨ (m = 12 ∧ d = 25) ∨ (m = 12 ∧ d = 26) ∨
  (wd = 4 ∧ 3 ≤ m ∧ m ≤ 6)

theorem australia_midweek (m d y wd diy em : Int) (hm : 1 ≤ m ∧ m ≤ 12) (hwd : 1 ≤ wd ∧ wd ≤ 4)
    (hem : pyIdxD tbl_easterMondayDay (y - 1901) 0 = em) (hE : EasterFacts m wd diy em)
    (h : holiday_australia m d y wd diy = true) : QAustralia m d wd := by
  obtain ⟨h1, h2⟩ := hm
  have E0 := not_or_of_imp (hE 0 (by omega) (by omega))
  have E3 := not_or_of_imp (hE (-3) (by omega) (by omega))
  interval_cases m <;> simp [holiday_australia, QAustralia, hem] at h ⊢ <;> omega

theorem australia_arith (d0 m0 y0 d1 m1 y1 d2 m2 y2 d3 m3 y3 : Int) (q0 : QAustralia m0 d0 1) (q1 : QAustralia m1 d1 2)
    (q2 : QAustralia m2 d2 3) (q3 : QAustralia m3 d3 4) (n0 : Next d0 m0 y0 d1 m1 y1) (n1 : Next d1 m1 y1 d2 m2 y2)
    (n2 : Next d2 m2 y2 d3 m3 y3) : False := by
  simp only [QAustralia, Next] at *
  have p : m0 = 12 ∧ d0 = 25 := by clear q2 q3 n1 n2; omega
  have t : m2 = 12 ∧ d2 = 27 := by clear q0 q1 q2 q3 n2; omega
  clear q0 q1 q3 n0 n1 n2; omega

theorem noRun_australia : NoRun 3 1 4 2198 :=
  noRun4_of_midweek 3 QAustralia
    (midweek_of_tuple 3 holiday_australia (by intros; simp [is_holiday_dispatch]) QAustralia australia_midweek)
    australia_arith

-- CANADA (4)
def QCanada (m d wd : Int) : Prop :=
  (m = 1 ∧ d = 1) ∨ (m = 7 ∧ d = 1) ∨ (m = 11 ∧ d = 11) ∨ (m = 12 ∧ d = 25) ∨ (m = 12 ∧ d = 26) ∨ (m = 12 ∧ d = 28 ∧ wd = 1) ∨
  (wd = 4 ∧ 3 ≤ m ∧ m ≤ 6)

theorem canada_midweek (m d y wd diy em : Int) (hm : 1 ≤ m ∧ m ≤ 12) (hwd : 1 ≤ wd ∧ wd ≤ 4)
    (hem : pyIdxD tbl_easterMondayDay (y - 1901) 0 = em) (hE : EasterFacts m wd diy em)
    (h : holiday_canada m d y wd diy = true) : QCanada m d wd := by
  obtain ⟨h1, h2⟩ := hm
  have E0 := not_or_of_imp (hE (-3) (by omega) (by omega))
  interval_cases m <;> simp [holiday_canada, QCanada, hem] at h ⊢ <;> omega

theorem canada_arith (d0 m0 y0 d1 m1 y1 d2 m2 y2 d3 m3 y3 : Int) (q0 : QCanada m0 d0 1) (q1 : QCanada m1 d1 2)
    (q2 : QCanada m2 d2 3) (q3 : QCanada m3 d3 4) (n0 : Next d0 m0 y0 d1 m1 y1) (n1 : Next d1 m1 y1 d2 m2 y2)
    (n2 : Next d2 m2 y2 d3 m3 y3) : False := by
  simp only [QCanada, Next] at *
  have p : (m0 = 12 ∧ d0 = 25) := by clear q2 q3 n1 n2; omega
  have t : (m2 = 12 ∧ d2 = 27) := by clear q0 q1 q2 q3 n2; omega
  clear q0 q1 n0 n1 p; omega

theorem noRun_canada : NoRun 4 1 4 2198 :=
  noRun4_of_midweek 4 QCanada
    (midweek_of_tuple 4 holiday_canada (by intros; simp [is_holiday_dispatch]) QCanada canada_midweek)
    canada_arith

-- FRANCE (5)
def QFrance (m d wd : Int) : Prop :=
  (m = 1 ∧ d = 1) ∨ (m = 5 ∧ d = 1) ∨ (m = 5 ∧ d = 8) ∨ (m = 7 ∧ d = 14) ∨ (m = 8 ∧ d = 15) ∨ (m = 11 ∧ d = 1) ∨ (m = 11 ∧ d = 11) ∨ (m = 12 ∧ d = 25) ∨ (m = 12 ∧ d = 26) ∨
  (3 ≤ wd ∧ 3 ≤ m ∧ m ≤ 6)

theorem france_midweek (m d y wd diy em : Int) (hm : 1 ≤ m ∧ m ≤ 12) (hwd : 1 ≤ wd ∧ wd ≤ 4)
    (hem : pyIdxD tbl_easterMondayDay (y - 1901) 0 = em) (hE : EasterFacts m wd diy em)
    (h : holiday_france m d y wd diy = true) : QFrance m d wd := by
  obtain ⟨h1, h2⟩ := hm
  have E0 := not_or_of_imp (hE (0) (by omega) (by omega))
  have E1 := not_or_of_imp (hE (-3) (by omega) (by omega))
  have E2 := not_or_of_imp (hE (38) (by omega) (by omega))
  have E3 := not_or_of_imp (hE (49) (by omega) (by omega))
  interval_cases m <;> simp [holiday_france, QFrance, hem] at h ⊢ <;> omega

theorem france_arith (d0 m0 y0 d1 m1 y1 d2 m2 y2 d3 m3 y3 : Int) (q0 : QFrance m0 d0 1) (q1 : QFrance m1 d1 2)
    (q2 : QFrance m2 d2 3) (q3 : QFrance m3 d3 4) (n0 : Next d0 m0 y0 d1 m1 y1) (n1 : Next d1 m1 y1 d2 m2 y2)
    (n2 : Next d2 m2 y2 d3 m3 y3) : False := by
  simp only [QFrance, Next] at *
  have p : (m0 = 12 ∧ d0 = 25) := by clear q2 q3 n1 n2; omega
  have t : (m2 = 12 ∧ d2 = 27) := by clear q0 q1 q2 q3 n2; omega
  clear q0 q1 n0 n1 p; omega

theorem noRun_france : NoRun 5 1 4 2198 :=
  noRun4_of_midweek 5 QFrance
    (midweek_of_tuple 5 holiday_france (by intros; simp [is_holiday_dispatch]) QFrance france_midweek)
    france_arith

-- GERMANY (6)
def QGermany (m d wd : Int) : Prop :=
  (m = 1 ∧ d = 1) ∨ (m = 5 ∧ d = 1) ∨ (m = 10 ∧ d = 3) ∨ (m = 12 ∧ d = 24) ∨ (m = 12 ∧ d = 25) ∨ (m = 12 ∧ d = 26) ∨
  (3 ≤ wd ∧ 3 ≤ m ∧ m ≤ 6)

theorem germany_midweek (m d y wd diy em : Int) (hm : 1 ≤ m ∧ m ≤ 12) (hwd : 1 ≤ wd ∧ wd ≤ 4)
    (hem : pyIdxD tbl_easterMondayDay (y - 1901) 0 = em) (hE : EasterFacts m wd diy em)
    (h : holiday_germany m d y wd diy = true) : QGermany m d wd := by
  obtain ⟨h1, h2⟩ := hm
  have E0 := not_or_of_imp (hE (0) (by omega) (by omega))
  have E1 := not_or_of_imp (hE (-3) (by omega) (by omega))
  have E2 := not_or_of_imp (hE (38) (by omega) (by omega))
  have E3 := not_or_of_imp (hE (49) (by omega) (by omega))
  interval_cases m <;> simp [holiday_germany, QGermany, hem] at h ⊢ <;> omega

theorem germany_arith (d0 m0 y0 d1 m1 y1 d2 m2 y2 d3 m3 y3 : Int) (q0 : QGermany m0 d0 1) (q1 : QGermany m1 d1 2)
    (q2 : QGermany m2 d2 3) (q3 : QGermany m3 d3 4) (n0 : Next d0 m0 y0 d1 m1 y1) (n1 : Next d1 m1 y1 d2 m2 y2)
    (n2 : Next d2 m2 y2 d3 m3 y3) : False := by
  simp only [QGermany, Next] at *
  have p : (m0 = 12 ∧ d0 = 24) ∨ (m0 = 12 ∧ d0 = 25) := by clear q2 q3 n1 n2; omega
  have t : (m2 = 12 ∧ d2 = 26) ∨ (m2 = 12 ∧ d2 = 27) := by clear q0 q1 q2 q3 n2; omega
  clear q0 q1 n0 n1 p; omega

theorem noRun_germany : NoRun 6 1 4 2198 :=
  noRun4_of_midweek 6 QGermany
    (midweek_of_tuple 6 holiday_germany (by intros; simp [is_holiday_dispatch]) QGermany germany_midweek)
    germany_arith

-- ITALY (7)
def QItaly (m d wd : Int) : Prop :=
  (m = 1 ∧ d = 1) ∨ (m = 1 ∧ d = 6) ∨ (m = 4 ∧ d = 25) ∨ (m = 5 ∧ d = 1) ∨ (m = 6 ∧ d = 2) ∨ (m = 8 ∧ d = 15) ∨ (m = 11 ∧ d = 1) ∨ (m = 12 ∧ d = 8) ∨ (m = 12 ∧ d = 25) ∨ (m = 12 ∧ d = 26) ∨
  (wd = 4 ∧ 3 ≤ m ∧ m ≤ 6)

theorem italy_midweek (m d y wd diy em : Int) (hm : 1 ≤ m ∧ m ≤ 12) (hwd : 1 ≤ wd ∧ wd ≤ 4)
    (hem : pyIdxD tbl_easterMondayDay (y - 1901) 0 = em) (hE : EasterFacts m wd diy em)
    (h : holiday_italy m d y wd diy = true) : QItaly m d wd := by
  obtain ⟨h1, h2⟩ := hm
  have E0 := not_or_of_imp (hE (0) (by omega) (by omega))
  have E1 := not_or_of_imp (hE (-3) (by omega) (by omega))
  interval_cases m <;> simp [holiday_italy, QItaly, hem] at h ⊢ <;> omega

theorem italy_arith (d0 m0 y0 d1 m1 y1 d2 m2 y2 d3 m3 y3 : Int) (q0 : QItaly m0 d0 1) (q1 : QItaly m1 d1 2)
    (q2 : QItaly m2 d2 3) (q3 : QItaly m3 d3 4) (n0 : Next d0 m0 y0 d1 m1 y1) (n1 : Next d1 m1 y1 d2 m2 y2)
    (n2 : Next d2 m2 y2 d3 m3 y3) : False := by
  simp only [QItaly, Next] at *
  have p : (m0 = 12 ∧ d0 = 25) := by clear q2 q3 n1 n2; omega
  have t : (m2 = 12 ∧ d2 = 27) := by clear q0 q1 q2 q3 n2; omega
  clear q0 q1 n0 n1 p; omega

theorem noRun_italy : NoRun 7 1 4 2198 :=
  noRun4_of_midweek 7 QItaly
    (midweek_of_tuple 7 holiday_italy (by intros; simp [is_holiday_dispatch]) QItaly italy_midweek)
    italy_arith

-- NEW_ZEALAND (9)
def QNewZealand (m d wd : Int) : Prop :=
  (m = 1 ∧ d = 1) ∨ (m = 2 ∧ d = 6) ∨ (m = 4 ∧ d = 25) ∨ (m = 12 ∧ d = 25) ∨ (m = 12 ∧ d = 26) ∨
  (wd = 4 ∧ 3 ≤ m ∧ m ≤ 6)

theorem new_zealand_midweek (m d y wd diy em : Int) (hm : 1 ≤ m ∧ m ≤ 12) (hwd : 1 ≤ wd ∧ wd ≤ 4)
    (hem : pyIdxD tbl_easterMondayDay (y - 1901) 0 = em) (hE : EasterFacts m wd diy em)
    (h : holiday_new_zealand m d y wd diy = true) : QNewZealand m d wd := by
  obtain ⟨h1, h2⟩ := hm
  have E0 := not_or_of_imp (hE (0) (by omega) (by omega))
  have E1 := not_or_of_imp (hE (-3) (by omega) (by omega))
  interval_cases m <;> simp [holiday_new_zealand, QNewZealand, hem] at h ⊢ <;> omega

theorem new_zealand_arith (d0 m0 y0 d1 m1 y1 d2 m2 y2 d3 m3 y3 : Int) (q0 : QNewZealand m0 d0 1) (q1 : QNewZealand m1 d1 2)
    (q2 : QNewZealand m2 d2 3) (q3 : QNewZealand m3 d3 4) (n0 : Next d0 m0 y0 d1 m1 y1) (n1 : Next d1 m1 y1 d2 m2 y2)
    (n2 : Next d2 m2 y2 d3 m3 y3) : False := by
  simp only [QNewZealand, Next] at *
  have p : (m0 = 12 ∧ d0 = 25) := by clear q2 q3 n1 n2; omega
  have t : (m2 = 12 ∧ d2 = 27) := by clear q0 q1 q2 q3 n2; omega
  clear q0 q1 n0 n1 p; omega

theorem noRun_new_zealand : NoRun 9 1 4 2198 :=
  noRun4_of_midweek 9 QNewZealand
    (midweek_of_tuple 9 holiday_new_zealand (by intros; simp [is_holiday_dispatch]) QNewZealand new_zealand_midweek)
    new_zealand_arith

-- NORWAY (10)
def QNorway (m d wd : Int) : Prop :=
  (m = 1 ∧ d = 1) ∨ (m = 5 ∧ d = 1) ∨ (m = 5 ∧ d = 17) ∨ (m = 12 ∧ d = 25) ∨ (m = 12 ∧ d = 26) ∨
  (3 ≤ wd ∧ 3 ≤ m ∧ m ≤ 6)

theorem norway_midweek (m d y wd diy em : Int) (hm : 1 ≤ m ∧ m ≤ 12) (hwd : 1 ≤ wd ∧ wd ≤ 4)
    (hem : pyIdxD tbl_easterMondayDay (y - 1901) 0 = em) (hE : EasterFacts m wd diy em)
    (h : holiday_norway m d y wd diy = true) : QNorway m d wd := by
  obtain ⟨h1, h2⟩ := hm
  have E0 := not_or_of_imp (hE (-4) (by omega) (by omega))
  have E1 := not_or_of_imp (hE (-3) (by omega) (by omega))
  have E2 := not_or_of_imp (hE (0) (by omega) (by omega))
  have E3 := not_or_of_imp (hE (38) (by omega) (by omega))
  have E4 := not_or_of_imp (hE (49) (by omega) (by omega))
  interval_cases m <;> simp [holiday_norway, QNorway, hem] at h ⊢ <;> omega

theorem norway_arith (d0 m0 y0 d1 m1 y1 d2 m2 y2 d3 m3 y3 : Int) (q0 : QNorway m0 d0 1) (q1 : QNorway m1 d1 2)
    (q2 : QNorway m2 d2 3) (q3 : QNorway m3 d3 4) (n0 : Next d0 m0 y0 d1 m1 y1) (n1 : Next d1 m1 y1 d2 m2 y2)
    (n2 : Next d2 m2 y2 d3 m3 y3) : False := by
  simp only [QNorway, Next] at *
  have p : (m0 = 12 ∧ d0 = 25) := by clear q2 q3 n1 n2; omega
  have t : (m2 = 12 ∧ d2 = 27) := by clear q0 q1 q2 q3 n2; omega
  clear q0 q1 n0 n1 p; omega

theorem noRun_norway : NoRun 10 1 4 2198 :=
  noRun4_of_midweek 10 QNorway
    (midweek_of_tuple 10 holiday_norway (by intros; simp [is_holiday_dispatch]) QNorway norway_midweek)
    norway_arith

-- SWEDEN (11)
def QSweden (m d wd : Int) : Prop :=
  (m = 1 ∧ d = 1) ∨ (m = 1 ∧ d = 6) ∨ (m = 5 ∧ d = 1) ∨ (m = 6 ∧ d = 6) ∨ (m = 12 ∧ d = 24) ∨ (m = 12 ∧ d = 25) ∨ (m = 12 ∧ d = 26) ∨ (m = 12 ∧ d = 31) ∨
  (3 ≤ wd ∧ 3 ≤ m ∧ m ≤ 6)

theorem sweden_midweek (m d y wd diy em : Int) (hm : 1 ≤ m ∧ m ≤ 12) (hwd : 1 ≤ wd ∧ wd ≤ 4)
    (hem : pyIdxD tbl_easterMondayDay (y - 1901) 0 = em) (hE : EasterFacts m wd diy em)
    (h : holiday_sweden m d y wd diy = true) : QSweden m d wd := by
  obtain ⟨h1, h2⟩ := hm
  have E0 := not_or_of_imp (hE (-3) (by omega) (by omega))
  have E1 := not_or_of_imp (hE (0) (by omega) (by omega))
  have E2 := not_or_of_imp (hE (38) (by omega) (by omega))
  interval_cases m <;> simp [holiday_sweden, QSweden, hem] at h ⊢ <;> omega

theorem sweden_arith (d0 m0 y0 d1 m1 y1 d2 m2 y2 d3 m3 y3 : Int) (q0 : QSweden m0 d0 1) (q1 : QSweden m1 d1 2)
    (q2 : QSweden m2 d2 3) (q3 : QSweden m3 d3 4) (n0 : Next d0 m0 y0 d1 m1 y1) (n1 : Next d1 m1 y1 d2 m2 y2)
    (n2 : Next d2 m2 y2 d3 m3 y3) : False := by
  simp only [QSweden, Next] at *
  have p : (m0 = 12 ∧ d0 = 24) ∨ (m0 = 12 ∧ d0 = 25) ∨ (m0 = 12 ∧ d0 = 31) := by clear q2 q3 n1 n2; omega
  have t : (m2 = 12 ∧ d2 = 26) ∨ (m2 = 12 ∧ d2 = 27) ∨ (m2 = 1 ∧ d2 = 2) := by clear q0 q1 q2 q3 n2; omega
  clear q0 q1 n0 n1 p; omega

theorem noRun_sweden : NoRun 11 1 4 2198 :=
  noRun4_of_midweek 11 QSweden
    (midweek_of_tuple 11 holiday_sweden (by intros; simp [is_holiday_dispatch]) QSweden sweden_midweek)
    sweden_arith

-- SWITZERLAND (12)
def QSwitzerland (m d wd : Int) : Prop :=
  (m = 1 ∧ d = 1) ∨ (m = 1 ∧ d = 2) ∨ (m = 5 ∧ d = 1) ∨ (m = 8 ∧ d = 1) ∨ (m = 12 ∧ d = 25) ∨ (m = 12 ∧ d = 26) ∨
  (3 ≤ wd ∧ 3 ≤ m ∧ m ≤ 6)

theorem switzerland_midweek (m d y wd diy em : Int) (hm : 1 ≤ m ∧ m ≤ 12) (hwd : 1 ≤ wd ∧ wd ≤ 4)
    (hem : pyIdxD tbl_easterMondayDay (y - 1901) 0 = em) (hE : EasterFacts m wd diy em)
    (h : holiday_switzerland m d y wd diy = true) : QSwitzerland m d wd := by
  obtain ⟨h1, h2⟩ := hm
  have E0 := not_or_of_imp (hE (0) (by omega) (by omega))
  have E1 := not_or_of_imp (hE (-3) (by omega) (by omega))
  have E2 := not_or_of_imp (hE (38) (by omega) (by omega))
  have E3 := not_or_of_imp (hE (49) (by omega) (by omega))
  interval_cases m <;> simp [holiday_switzerland, QSwitzerland, hem] at h ⊢ <;> omega

theorem switzerland_arith (d0 m0 y0 d1 m1 y1 d2 m2 y2 d3 m3 y3 : Int) (q0 : QSwitzerland m0 d0 1) (q1 : QSwitzerland m1 d1 2)
    (q2 : QSwitzerland m2 d2 3) (q3 : QSwitzerland m3 d3 4) (n0 : Next d0 m0 y0 d1 m1 y1) (n1 : Next d1 m1 y1 d2 m2 y2)
    (n2 : Next d2 m2 y2 d3 m3 y3) : False := by
  simp only [QSwitzerland, Next] at *
  have p : (m0 = 1 ∧ d0 = 1) ∨ (m0 = 12 ∧ d0 = 25) := by clear q2 q3 n1 n2; omega
  have t : (m2 = 1 ∧ d2 = 3) ∨ (m2 = 12 ∧ d2 = 27) := by clear q0 q1 q2 q3 n2; omega
  clear q0 q1 n0 n1 p; omega

theorem noRun_switzerland : NoRun 12 1 4 2198 :=
  noRun4_of_midweek 12 QSwitzerland
    (midweek_of_tuple 12 holiday_switzerland (by intros; simp [is_holiday_dispatch]) QSwitzerland switzerland_midweek)
    switzerland_arith

-- UNITED_KINGDOM (15)
def QUnitedKingdom (m d wd : Int) : Prop :=
  (m = 1 ∧ d = 1) ∨ (m = 6 ∧ d = 2) ∨ (m = 6 ∧ d = 3) ∨ (m = 12 ∧ d = 25) ∨ (m = 12 ∧ d = 26) ∨ (m = 12 ∧ d = 27 ∧ wd = 1) ∨ (m = 12 ∧ d = 28 ∧ wd = 1) ∨
  (wd = 4 ∧ 3 ≤ m ∧ m ≤ 6)

theorem united_kingdom_midweek (m d y wd diy em : Int) (hm : 1 ≤ m ∧ m ≤ 12) (hwd : 1 ≤ wd ∧ wd ≤ 4)
    (hem : pyIdxD tbl_easterMondayDay (y - 1901) 0 = em) (hE : EasterFacts m wd diy em)
    (h : holiday_united_kingdom m d y wd diy = true) : QUnitedKingdom m d wd := by
  obtain ⟨h1, h2⟩ := hm
  have E0 := not_or_of_imp (hE (0) (by omega) (by omega))
  have E1 := not_or_of_imp (hE (-3) (by omega) (by omega))
  interval_cases m <;> simp [holiday_united_kingdom, QUnitedKingdom, hem] at h ⊢ <;> omega

theorem united_kingdom_arith (d0 m0 y0 d1 m1 y1 d2 m2 y2 d3 m3 y3 : Int) (q0 : QUnitedKingdom m0 d0 1) (q1 : QUnitedKingdom m1 d1 2)
    (q2 : QUnitedKingdom m2 d2 3) (q3 : QUnitedKingdom m3 d3 4) (n0 : Next d0 m0 y0 d1 m1 y1) (n1 : Next d1 m1 y1 d2 m2 y2)
    (n2 : Next d2 m2 y2 d3 m3 y3) : False := by
  simp only [QUnitedKingdom, Next] at *
  have p : (m0 = 6 ∧ d0 = 2) ∨ (m0 = 12 ∧ d0 = 25) := by clear q2 q3 n1 n2; omega
  have t : (m2 = 6 ∧ d2 = 4) ∨ (m2 = 12 ∧ d2 = 27) := by clear q0 q1 q2 q3 n2; omega
  clear q0 q1 n0 n1 p; omega

theorem noRun_united_kingdom : NoRun 15 1 4 2198 :=
  noRun4_of_midweek 15 QUnitedKingdom
    (midweek_of_tuple 15 holiday_united_kingdom (by intros; simp [is_holiday_dispatch]) QUnitedKingdom united_kingdom_midweek)
    united_kingdom_arith

/-! ### all fifteen calendars -/

/-- a run bound stays a run bound for longer runs and for a smaller year range -/
theorem NoRun_mono (cal w : Int) (L L' : Nat) (ymax ymax' : Int) (hL : L ≤ L') (hy : ymax' ≤ ymax)
    (h : NoRun cal w L ymax) : NoRun cal w L' ymax' := by
  intro a ha h1 h2 hw hall
  exact h a ha (by push_cast at h1 ⊢; omega) (by omega) hw (fun i hi => hall i (by omega))

/-- C14: **no calendar has four consecutive non-business days starting on a Tuesday** (held dates of 1907 … 2198) — all
15 `CalendarTypes`, from the generated holiday functions. -/
theorem noRun_every_calendar (cal : Int) (hc : 1 ≤ cal ∧ cal ≤ 15) : NoRun cal 1 4 2198 := by
  obtain ⟨h1, h2⟩ := hc
  interval_cases cal
  · exact NoRun_mono 1 1 1 4 _ _ (by omega) (by norm_num) noRun_none
  · exact NoRun_mono 2 1 1 4 _ _ (by omega) (by norm_num) noRun_weekend
  · exact noRun_australia
  · exact noRun_canada
  · exact noRun_france
  · exact noRun_germany
  · exact noRun_italy
  · exact NoRun_mono 8 1 4 4 _ _ (by omega) (by norm_num) noRun_japan
  · exact noRun_new_zealand
  · exact noRun_norway
  · exact noRun_sweden
  · exact noRun_switzerland
  · exact NoRun_mono 13 1 3 4 _ _ (by omega) (by omega) noRun_target
  · exact NoRun_mono 14 1 2 4 _ _ (by omega) (by norm_num) noRun_united_states
  · exact noRun_united_kingdom

/-- C14 TERMINATION, every calendar: from every held date of 1917 … 2197 the directional walk of `Calendar.adjust`
meets a business day within TEN evaluations, in either direction — no calendar has ten consecutive non-business
days. -/
theorem walk_ten_evaluations_suffice (cal : Int) (hc : 1 ≤ cal ∧ cal ≤ 15) (dir : Int) (hd : dir = 1 ∨ dir = -1)
    (dt : PyDate) (hh : Held dt) (hy : 1917 ≤ dt.y) (hy2 : dt.y ≤ 2197) (fuel : Nat) (hf : 10 ≤ fuel) :
    walk (isBusinessDay cal) addDays dir fuel dt ≠ .error .other :=
  walk_terminates_of_run cal 1 4 2198 (by omega) (by omega) (by omega) (noRun_every_calendar cal hc) dir hd dt hh
    (by push_cast; omega) (by omega) fuel (by omega)

/-- C14 TERMINATION of `Calendar.adjust`, the full statement of part g: every calendar, every convention, every held
date of 1917 … 2197 — the model's fuel is never what ends the adjustment. -/
theorem adjust_terminates_every_calendar : AdjustTerminatesEveryCalendar := by
  intro cal conv dt hc hh hy hy2
  exact adjust_terminates_of_run cal 1 4 2198 (by omega) (by omega) (by omega) (noRun_every_calendar cal hc) conv dt hh
    (by push_cast; omega) (by omega)

/-- a walk that does not run out of fuel gives the same answer with more fuel -/
theorem walk_fuel_stable (bd : PyDate → Option Bool) (addD : PyDate → Int → Except PyErr PyDate) (dir : Int)
    (f k : Nat) (dt : PyDate) (h : walk bd addD dir f dt ≠ .error .other) :
    walk bd addD dir (f + k) dt = walk bd addD dir f dt := by
  induction f generalizing dt with
  | zero => simp [walk] at h
  | succ n ih =>
    have e : n + 1 + k = (n + k) + 1 := by omega
    rw [e]
    unfold walk at h ⊢
    cases hb : bd dt with
    | none => rfl
    | some b =>
      cases b with
      | true => rfl
      | false =>
        simp only [hb] at h ⊢
        cases hs : addD dt dir with
        | error e => rfl
        | ok d' =>
          simp only [hs] at h ⊢
          exact ih d' h

/-- C14: the business day returned by FOLLOWING / PRECEDING is **at most nine days** from the input — every calendar
(held dates of 1917 … 2197; serial numbers count days). -/
theorem walk_result_within_nine_days (cal : Int) (hc : 1 ≤ cal ∧ cal ≤ 15) (dir : Int) (hd : dir = 1 ∨ dir = -1)
    (dt r : PyDate) (hh : Held dt) (hy : 1917 ≤ dt.y) (hy2 : dt.y ≤ 2197)
    (h : walk (isBusinessDay cal) addDays dir adjustFuel dt = .ok r) :
    ∃ k : Nat, k ≤ 9 ∧ iter addDays dir k dt = .ok r ∧ r.serial = dt.serial + k * dir ∧ Held r ∧
      isBusinessDay cal r = some true := by
  have h10 := walk_ten_evaluations_suffice cal hc dir hd dt hh hy hy2 10 (by omega)
  have hst := walk_fuel_stable (isBusinessDay cal) addDays dir 10 30 dt h10
  have e : adjustFuel = 10 + 30 := rfl
  rw [e, hst] at h
  obtain ⟨k, hk, hit, _⟩ := walk_steps_lt_fuel (isBusinessDay cal) addDays dir 10 dt r h
  obtain ⟨hr, hs, _⟩ := iter_held dir hd k dt r hh (by push_cast; omega) hit
  exact ⟨k, by omega, hit, hs, hr, walk_result_is_business_day (isBusinessDay cal) addDays dir 10 dt r h⟩

/-- Non-vacuity: Sweden, Tuesday 24 Dec 2024 — Christmas Eve, Christmas Day, Boxing Day are consecutive holidays
(Tue, Wed, Thu), Friday 27 Dec is the business day FOLLOWING finds; the start is a held date in range. -/
example : Held (mkDate 24 12 2024) ∧ (mkDate 24 12 2024).wd = 1 ∧
    (match Model.adjust 11 2 (mkDate 24 12 2024) with | .ok r => (r.d, r.m, r.y) | .error _ => (0, 0, 0)) = (27, 12, 2024) := by
  refine ⟨⟨rfl, ?_⟩, by decide +kernel, by decide +kernel⟩
  simp only [TableValid, mkDate]; decide

end FinVerif.Props.C14
