/-
  C14 (part i) — MODIFIED FOLLOWING / MODIFIED PRECEDING never leave the month of the input, for every calendar.

  ISDA: "MODIFIED switches direction only when the month would change" — parts b/f give the exact case split of the
  code; with the run bound of parts g/h (a business day is met within nine days in either direction) the missing half
  follows: when FOLLOWING leaves the month the input is on day 20 or later, so the PRECEDING walk (at most nine days)
  stays in the month — the result of MODIFIED FOLLOWING is ALWAYS in the month (and year) of the input, is a business
  day (calendar ≠ NONE), and is at most nine days away.  Symmetrically for MODIFIED PRECEDING.
-/
import FinVerif.Props.C14h

set_option linter.unusedVariables false
set_option linter.unusedSimpArgs false

namespace FinVerif.Props.C14
open FinVerif FinVerif.Algo FinVerif.Model FinVerif.Gen.DateK FinVerif.Gen.Calendar
open FinVerif.Props.C13 (TableValid tableMonthDays_pos)

/-- forward steps that stay below day 29 stay in the month -/
theorem iter_fwd_same_month (k : Nat) (dt x : PyDate) (hh : Held dt) (hy : 1902 ≤ dt.y) (hk : dt.d + k ≤ 28)
    (h : iter addDays 1 k dt = .ok x) : x.d = dt.d + k ∧ x.m = dt.m ∧ x.y = dt.y := by
  induction k generalizing dt with
  | zero => simp only [iter] at h; cases h; simp
  | succ n ih =>
    simp only [iter] at h
    cases hs : addDays dt 1 with
    | error e => simp [hs] at h
    | ok d' =>
      simp only [hs] at h
      obtain ⟨hh1, _, _⟩ := step_keeps_held dt d' 1 (Or.inl rfl) hh hy hs
      have hf := nextDayT_cases dt.d dt.m dt.y d'.d d'.m d'.y hh.2 (addDays_fields dt d' hs)
      have hd1 : 1 ≤ dt.d := hh.2.2.2.1
      push_cast at hk
      have hc : d'.d = dt.d + 1 ∧ d'.m = dt.m ∧ d'.y = dt.y := by omega
      obtain ⟨a, b, c⟩ := ih d' hh1 (by omega) (by omega) h
      refine ⟨by push_cast; omega, by omega, by omega⟩

/-- backward steps that stay above day 0 stay in the month -/
theorem iter_bwd_same_month (k : Nat) (dt x : PyDate) (hh : Held dt) (hy : 1902 ≤ dt.y) (hk : (k : Int) + 1 ≤ dt.d)
    (h : iter addDays (-1) k dt = .ok x) : x.d = dt.d - k ∧ x.m = dt.m ∧ x.y = dt.y := by
  induction k generalizing dt with
  | zero => simp only [iter] at h; cases h; simp
  | succ n ih =>
    simp only [iter] at h
    cases hs : addDays dt (-1) with
    | error e => simp [hs] at h
    | ok d' =>
      simp only [hs] at h
      obtain ⟨hh1, _, _⟩ := step_keeps_held dt d' (-1) (Or.inr rfl) hh hy hs
      have hf := addDays_fields_back dt d' hs
      push_cast at hk
      have hgt : dt.d > 1 := by omega
      simp only [prevDayT, hgt, if_true, Prod.mk.injEq] at hf
      obtain ⟨a, b, c⟩ := ih d' hh1 (by omega) (by omega) h
      refine ⟨by push_cast; omega, by omega, by omega⟩

theorem daysBeforeYear_step (y : Int) (hy : 1900 ≤ y) : daysBeforeYear y + 365 ≤ daysBeforeYear (y + 1) := by
  simp only [daysBeforeYear, leapsUpTo]
  split_ifs <;> omega

theorem daysBeforeMonth_near (y y' m : Int) (hm : 1 ≤ m ∧ m ≤ 12) :
    daysBeforeMonth y m ≤ daysBeforeMonth y' m + 1 := by
  obtain ⟨h1, h2⟩ := hm
  simp only [daysBeforeMonth]
  split <;> split <;> interval_cases m <;> simp [pyIdxD, pyIdx?, cumDaysLeap, cumDaysNonLeap]

/-- two held dates with the same month number and less than 300 days apart are in the same year -/
theorem same_month_close_same_year (a b : PyDate) (ha : Held a) (hb : Held b) (hya : 1900 ≤ a.y) (hyb : 1900 ≤ b.y)
    (hm : a.m = b.m) (h1 : b.serial ≤ a.serial + 300) (h2 : a.serial ≤ b.serial + 300) : b.y = a.y := by
  have c1 := year_close a b ha hb hya (by omega)
  have c2 := year_close b a hb ha hyb (by omega)
  obtain ⟨ea, ma1, ma2, da1, da2⟩ := ha
  obtain ⟨eb, mb1, mb2, db1, db2⟩ := hb
  have sa : a.serial = excelSerial a.d a.m a.y := by rw [ea]; simp only [mkDate]
  have sb : b.serial = excelSerial b.d b.m b.y := by rw [eb]; simp only [mkDate]
  have pa := tableMonthDays_pos a.y a.m ⟨ma1, ma2⟩
  have pb := tableMonthDays_pos b.y b.m ⟨mb1, mb2⟩
  simp only [excelSerial] at sa sb
  by_contra hne
  rcases (show b.y = a.y + 1 ∨ a.y = b.y + 1 by omega) with e | e
  · have g := daysBeforeYear_step a.y hya
    have n := daysBeforeMonth_near a.y b.y a.m ⟨ma1, ma2⟩
    rw [e] at sb; rw [← hm] at sb; rw [e] at n
    omega
  · have g := daysBeforeYear_step b.y hyb
    have n := daysBeforeMonth_near b.y a.y b.m ⟨mb1, mb2⟩
    rw [e] at sa; rw [hm] at sa; rw [e] at n
    omega

/-- C14: **MODIFIED FOLLOWING stays in the month.**  Every calendar, every held date of 1917 … 2197: the result is in the
month and year of the input and at most nine days from it. -/
theorem modified_following_stays_in_month (cal : Int) (hc : 1 ≤ cal ∧ cal ≤ 15) (dt r : PyDate) (hh : Held dt)
    (hy : 1917 ≤ dt.y) (hy2 : dt.y ≤ 2197) (h : Model.adjust cal 3 dt = .ok r) :
    r.m = dt.m ∧ r.y = dt.y ∧ r.serial - dt.serial ≤ 9 ∧ dt.serial - r.serial ≤ 9 := by
  by_cases hnone : cal = 1
  · subst hnone
    simp [Model.adjust, Algo.adjust] at h
    subst h; simp
  have hre : mkDate dt.d dt.m dt.y = dt := hh.1.symm
  have hdn : decide (cal = 1) = false := by simp [hnone]
  rw [model_adjust_is_algo, hdn] at h
  rcases (adjust_modified_following_iff (isBusinessDay cal) addDays mkDate adjustFuel dt r).mp h with
    ⟨hw, hm⟩ | ⟨r1, hw1, hne, hw2⟩
  · obtain ⟨k, hk, hit, hs, hr, _⟩ := walk_result_within_nine_days cal hc 1 (Or.inl rfl) dt r hh hy hy2 hw
    refine ⟨hm, ?_, by rw [hs]; omega, by rw [hs]; omega⟩
    -- same month, at most nine days apart: same year
    obtain ⟨_, _, hyr⟩ := iter_held 1 (Or.inl rfl) k dt r hh (by push_cast; omega) hit
    exact same_month_close_same_year dt r hh hr (by omega) (by push_cast at hyr; omega) hm.symm (by rw [hs]; omega)
      (by rw [hs]; omega)
  · rw [hre] at hw2
    obtain ⟨k1, hk1, hit1, _, _, _⟩ := walk_result_within_nine_days cal hc 1 (Or.inl rfl) dt r1 hh hy hy2 hw1
    have hlate : ¬ dt.d + k1 ≤ 28 := fun hsm => hne (iter_fwd_same_month k1 dt r1 hh (by omega) hsm hit1).2.1
    obtain ⟨k2, hk2, hit2, hs2, _, _⟩ := walk_result_within_nine_days cal hc (-1) (Or.inr rfl) dt r hh hy hy2 hw2
    obtain ⟨_, b, c⟩ := iter_bwd_same_month k2 dt r hh (by omega) (by omega) hit2
    exact ⟨b, c, by rw [hs2]; omega, by rw [hs2]; omega⟩

/-- C14: **MODIFIED PRECEDING stays in the month**, symmetrically. -/
theorem modified_preceding_stays_in_month (cal : Int) (hc : 1 ≤ cal ∧ cal ≤ 15) (dt r : PyDate) (hh : Held dt)
    (hy : 1917 ≤ dt.y) (hy2 : dt.y ≤ 2197) (h : Model.adjust cal 5 dt = .ok r) :
    r.m = dt.m ∧ r.y = dt.y ∧ r.serial - dt.serial ≤ 9 ∧ dt.serial - r.serial ≤ 9 := by
  by_cases hnone : cal = 1
  · subst hnone
    simp [Model.adjust, Algo.adjust] at h
    subst h; simp
  have hre : mkDate dt.d dt.m dt.y = dt := hh.1.symm
  have hdn : decide (cal = 1) = false := by simp [hnone]
  rw [model_adjust_is_algo, hdn] at h
  rcases (adjust_modified_preceding_iff (isBusinessDay cal) addDays mkDate adjustFuel dt r).mp h with
    ⟨hw, hm⟩ | ⟨r1, hw1, hne, hw2⟩
  · obtain ⟨k, hk, hit, hs, hr, _⟩ := walk_result_within_nine_days cal hc (-1) (Or.inr rfl) dt r hh hy hy2 hw
    refine ⟨hm, ?_, by rw [hs]; omega, by rw [hs]; omega⟩
    obtain ⟨_, _, hyr⟩ := iter_held (-1) (Or.inr rfl) k dt r hh (by push_cast; omega) hit
    exact same_month_close_same_year dt r hh hr (by omega) (by omega) hm.symm (by rw [hs]; omega)
      (by rw [hs]; omega)
  · rw [hre] at hw2
    obtain ⟨k1, hk1, hit1, _, _, _⟩ := walk_result_within_nine_days cal hc (-1) (Or.inr rfl) dt r1 hh hy hy2 hw1
    have hearly : ¬ (k1 : Int) + 1 ≤ dt.d := fun hsm => hne (iter_bwd_same_month k1 dt r1 hh (by omega) hsm hit1).2.1
    obtain ⟨k2, hk2, hit2, hs2, _, _⟩ := walk_result_within_nine_days cal hc 1 (Or.inl rfl) dt r hh hy hy2 hw2
    obtain ⟨_, b, c⟩ := iter_fwd_same_month k2 dt r hh (by omega) (by omega) hit2
    exact ⟨b, c, by rw [hs2]; omega, by rw [hs2]; omega⟩

/-- C14, all conventions together (model of `Calendar.adjust`, every calendar but NONE, held dates of 1917 … 2197):
the adjusted date is a business day at most nine days from the input, and for the two MODIFIED conventions it is in
the input's month. -/
theorem adjust_summary (cal : Int) (hc : 2 ≤ cal ∧ cal ≤ 15) (conv : Int) (hcv : 2 ≤ conv ∧ conv ≤ 5) (dt r : PyDate)
    (hh : Held dt) (hy : 1917 ≤ dt.y) (hy2 : dt.y ≤ 2197) (h : Model.adjust cal conv dt = .ok r) :
    isBusinessDay cal r = some true ∧ r.serial - dt.serial ≤ 9 ∧ dt.serial - r.serial ≤ 9 ∧
      ((conv = 3 ∨ conv = 5) → r.m = dt.m ∧ r.y = dt.y) ∧ (conv = 2 → dt.serial ≤ r.serial) ∧
      (conv = 4 → r.serial ≤ dt.serial) := by
  have hnone : ¬ cal = 1 := by omega
  have hdn : decide (cal = 1) = false := by simp [hnone]
  have hbd : isBusinessDay cal r = some true := by
    have h' := h
    rw [model_adjust_is_algo, hdn] at h'
    exact adjust_result_is_business_day (isBusinessDay cal) addDays mkDate adjustFuel conv dt r hcv h'
  obtain ⟨c1, c2⟩ := hcv
  interval_cases conv
  · -- FOLLOWING
    have hw : walk (isBusinessDay cal) addDays 1 adjustFuel dt = .ok r := by
      simpa [Model.adjust, Algo.adjust, hnone] using h
    obtain ⟨k, hk, _, hs, _, _⟩ := walk_result_within_nine_days cal (by omega) 1 (Or.inl rfl) dt r hh hy hy2 hw
    refine ⟨hbd, by rw [hs]; omega, by rw [hs]; omega, by omega, fun _ => by rw [hs]; omega, by omega⟩
  · obtain ⟨a, b, c, d⟩ := modified_following_stays_in_month cal (by omega) dt r hh hy hy2 h
    exact ⟨hbd, c, d, fun _ => ⟨a, b⟩, by omega, by omega⟩
  · -- PRECEDING
    have hw : walk (isBusinessDay cal) addDays (-1) adjustFuel dt = .ok r := by
      simpa [Model.adjust, Algo.adjust, hnone] using h
    obtain ⟨k, hk, _, hs, _, _⟩ := walk_result_within_nine_days cal (by omega) (-1) (Or.inr rfl) dt r hh hy hy2 hw
    refine ⟨hbd, by rw [hs]; omega, by rw [hs]; omega, by omega, by omega, fun _ => by rw [hs]; omega⟩
  · obtain ⟨a, b, c, d⟩ := modified_preceding_stays_in_month cal (by omega) dt r hh hy hy2 h
    exact ⟨hbd, c, d, fun _ => ⟨a, b⟩, by omega, by omega⟩

/-- Non-vacuity: Saturday 30 Nov 2024, TARGET: FOLLOWING gives Monday 2 Dec (another month), MODIFIED FOLLOWING goes back
to Friday 29 Nov — in November; Sunday 1 Dec 2024: PRECEDING gives Fri 29 Nov, MODIFIED PRECEDING Monday 2 Dec. -/
example :
    (match Model.adjust 13 2 (mkDate 30 11 2024) with | .ok r => (r.d, r.m, r.y) | .error _ => (0, 0, 0)) = (2, 12, 2024) ∧
    (match Model.adjust 13 3 (mkDate 30 11 2024) with | .ok r => (r.d, r.m, r.y) | .error _ => (0, 0, 0)) = (29, 11, 2024) ∧
    (match Model.adjust 13 4 (mkDate 1 12 2024) with | .ok r => (r.d, r.m, r.y) | .error _ => (0, 0, 0)) = (29, 11, 2024) ∧
    (match Model.adjust 13 5 (mkDate 1 12 2024) with | .ok r => (r.d, r.m, r.y) | .error _ => (0, 0, 0)) = (2, 12, 2024) := by
  decide +kernel

end FinVerif.Props.C14
