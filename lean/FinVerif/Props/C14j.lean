/-
  C14 (part j) — TERMINATION of `Calendar.add_business_days`: the counting loop never runs out of the model's fuel.

  Generic part: if from every date the loop can reach a business day is met within ten single-day evaluations (the run
  bound of parts g/h), then `10·|n| + 1` iterations suffice to count `|n|` business days — a credit argument along the
  loop: after a business day the next one is at most ten steps ahead, and each non-business step uses up one of them.
  No counting of lists is needed.

  Model part: `datetime` steps (`stepG`) coincide with `add_days(±1)` on held dates after 1900; the dates the loop can
  reach within `F` iterations lie within `F` days of the start, hence within `F/365 + 1` years.

  Result: `add_business_days_terminates` — every calendar, every `n`, every valid start whose year leaves room for
  `10·|n| + 1` days inside 1917 … 2197: the result is never the model's "out of fuel".
-/
import FinVerif.Props.C14i

set_option linter.unusedVariables false
set_option linter.unusedSimpArgs false

namespace FinVerif.Props.C14
open FinVerif FinVerif.Algo FinVerif.Model FinVerif.Gen.DateK FinVerif.Gen.Calendar
open FinVerif.Props.C13 (TableValid)

/-! ### generic -/

section generic
variable (bd : PyDate → Option Bool) (addD : PyDate → Int → Except PyErr PyDate) (dir : Int)
  (step : PyDate → Except PyErr PyDate)

/-- a loop that does not run out of fuel gives the same answer with more fuel -/
theorem abdLoop_fuel_stable (f k left : Nat) (cur : PyDate) (h : abdLoop bd step f left cur ≠ .error .other) :
    abdLoop bd step (f + k) left cur = abdLoop bd step f left cur := by
  induction f generalizing left cur with
  | zero =>
    cases left with
    | zero => rw [abd_zero, abd_zero]
    | succ n => simp [abdLoop] at h
  | succ f ih =>
    cases left with
    | zero => rw [abd_zero, abd_zero]
    | succ n =>
      have e : f + 1 + k = (f + k) + 1 := by omega
      rw [e]
      simp only [abdLoop] at h ⊢
      cases hs : step cur with
      | error e => rfl
      | ok nd =>
        simp only [hs] at h ⊢
        cases hb : bd nd with
        | none => rfl
        | some b =>
          cases b with
          | true => simp only [hb] at h ⊢; exact ih n nd h
          | false => simp only [hb] at h ⊢; exact ih (n + 1) nd h

/-- C14 (generic): the credit argument.  `I f x` is an invariant of the dates the loop can be at with `f` iterations
left; on it the loop's step is `addD · dir`, and a business day is met within ten evaluations of the walk.  Then with
`10·l + g + 1` iterations left, `l + 1` business days still to count, and a business day at most `g` steps ahead, the
loop does not run out of fuel. -/
theorem abd_no_exhaust_aux (I : Nat → PyDate → Prop)
    (hstep : ∀ f x, I f x → step x = addD x dir)
    (hI : ∀ f x nd, I (f + 1) x → addD x dir = .ok nd → I f nd)
    (hne : ∀ x, addD x dir ≠ .error .other)
    (hwin : ∀ f x, I f x → walk bd addD dir 10 x ≠ .error .other)
    (fuel l g : Nat) (cur : PyDate) (hinv : I fuel cur) (hf : 10 * l + g + 1 ≤ fuel)
    (hG : ∀ nd, addD cur dir = .ok nd → walk bd addD dir g nd ≠ .error .other) :
    abdLoop bd step fuel (l + 1) cur ≠ .error .other := by
  induction fuel generalizing l g cur with
  | zero => omega
  | succ f ih =>
    simp only [abdLoop]
    rw [hstep _ _ hinv]
    cases hs : addD cur dir with
    | error e =>
      simp only []
      intro hc; cases hc; exact hne cur hs
    | ok nd =>
      simp only []
      have hnd := hI f cur nd hinv hs
      have hw := hG nd hs
      cases g with
      | zero => simp [walk] at hw
      | succ g' =>
        unfold walk at hw
        cases hb : bd nd with
        | none => simp
        | some b =>
          cases b with
          | true =>
            simp only []
            cases l with
            | zero => rw [abd_zero]; simp
            | succ l' =>
              cases f with
              | zero => omega
              | succ f' =>
                refine ih l' 10 nd hnd (by omega) ?_
                intro nd2 hs2
                exact hwin f' nd2 (hI f' nd nd2 hnd hs2)
          | false =>
            simp only [hb] at hw ⊢
            refine ih l g' nd hnd (by omega) ?_
            intro nd2 hs2
            simp only [hs2] at hw
            exact hw

end generic

/-! ### the model -/

/-- `datetime.date ± timedelta(1)` followed by `Date(d, m, y)` is `add_days(±1)` (years other than 1900, where the
date table has its Excel leap day) -/
theorem stepG_eq_addDays (fwd : Bool) (x : PyDate) (hx : x.y ≠ 1900) (hm : 1 ≤ x.m ∧ x.m ≤ 12) :
    stepG fwd x = addDays x (if fwd then 1 else -1) := by
  have e1 : ∀ m, tableMonthDays x.y m = monthDays x.y m := by
    intro m; simp only [tableMonthDays, monthDays, excelLeap, hx, if_false]
  cases fwd with
  | true =>
    have hdec : decide ((1 : Int) ≥ 0) = true := by decide
    simp only [stepG, addDays, if_true, Int.natAbs_one, stepDays, nextDayT, nextDayG, e1, hdec]
  | false =>
    have hdec : decide ((-1 : Int) ≥ 0) = false := by decide
    simp only [stepG, addDays, Bool.false_eq_true, if_false, Int.natAbs_neg, Int.natAbs_one, stepDays, prevDayT,
      prevDayG, e1, hdec]

theorem daysBeforeYear_mono_gap (y y' : Int) (hy : 1900 ≤ y) (h : y ≤ y') :
    daysBeforeYear y + 365 * (y' - y) ≤ daysBeforeYear y' := by
  simp only [daysBeforeYear, leapsUpTo]
  split_ifs <;> omega

/-- a held date at most `K` days after another is at most `K/365 + 1` years after it -/
theorem year_within (a b : PyDate) (ha : Held a) (hb : Held b) (hy : 1900 ≤ a.y) (K : Int) (hK : 0 ≤ K)
    (h : b.serial ≤ a.serial + K) : b.y ≤ a.y + K / 365 + 1 := by
  by_contra hc
  have hgap := daysBeforeYear_mono_gap a.y b.y hy (by omega)
  obtain ⟨ea, va⟩ := ha
  obtain ⟨eb, vb⟩ := hb
  have sa := (serial_year_bounds a.d a.m a.y va).2
  have sb := (serial_year_bounds b.d b.m b.y vb).1
  have e1 : a.serial = excelSerial a.d a.m a.y := by rw [ea]; simp only [mkDate]
  have e2 : b.serial = excelSerial b.d b.m b.y := by rw [eb]; simp only [mkDate]
  omega

/-- the invariant: a held date, not before 1900, within `F − f` days of the start -/
def Near (s0 : PyDate) (F : Nat) (f : Nat) (x : PyDate) : Prop :=
  Held x ∧ 1900 ≤ x.y ∧ x.serial - s0.serial + f ≤ F ∧ s0.serial - x.serial + f ≤ F

theorem near_year (s0 : PyDate) (F f : Nat) (x : PyDate) (h0 : Held s0) (hy0 : 1900 ≤ s0.y) (h : Near s0 F f x) :
    s0.y - (F : Int) / 365 - 1 ≤ x.y ∧ x.y ≤ s0.y + (F : Int) / 365 + 1 := by
  obtain ⟨hx, hy, s1, s2⟩ := h
  have a := year_within s0 x h0 hx hy0 F (by omega) (by omega)
  have b := year_within x s0 hx h0 hy F (by omega) (by omega)
  omega

/-- C14 TERMINATION of `Calendar.add_business_days` (model): every calendar, every `n`, every valid start date whose
year leaves room for `10·|n| + 1` days inside 1917 … 2197 — the loop never runs out of the model's fuel: between two
business days it steps at most ten times. -/
theorem add_business_days_terminates (cal : Int) (hc : 1 ≤ cal ∧ cal ≤ 15) (start s0 : PyDate) (n : Int)
    (h0 : mkDate? start.d start.m start.y = .ok s0)
    (hy1 : 1918 + (10 * (n.natAbs : Int) + 1) / 365 ≤ s0.y) (hy2 : s0.y + (10 * (n.natAbs : Int) + 1) / 365 ≤ 2196) :
    addBusinessDays cal start n ≠ .error .other := by
  obtain ⟨hv0, hs0⟩ := (mkDateQ_iff _ _ _ _).mp h0
  have hne0 : start.y ≠ 1900 := by
    subst hs0; simp only [mkDate] at hy1; omega
  have hheld0 : Held s0 := by
    subst hs0
    exact ⟨rfl, validG_tableValid _ _ _ hv0 hne0⟩
  simp only [addBusinessDays, h0]
  cases hn : n.natAbs with
  | zero => rw [abd_zero]; simp
  | succ l =>
    rw [hn] at hy1 hy2
    set F : Nat := 10 * (l + 1) + 1 with hF
    set dir : Int := if decide (n ≥ 0) = true then 1 else -1 with hdir
    have hd : dir = 1 ∨ dir = -1 := by
      by_cases hp : n ≥ 0 <;> simp [hdir, hp]
    have hFq : ((F : Nat) : Int) / 365 = (10 * ((l + 1 : Nat) : Int) + 1) / 365 := by
      rw [hF]; push_cast; rfl
    have hrange : ∀ f x, Near s0 F f x → 1917 ≤ x.y ∧ x.y ≤ 2197 := by
      intro f x hx
      have := near_year s0 F f x hheld0 (by omega) hx
      rw [hFq] at this
      omega
    have key : abdLoop (isBusinessDay cal) (stepG (decide (n ≥ 0))) F (l + 1) s0 ≠ .error .other := by
      refine abd_no_exhaust_aux (isBusinessDay cal) addDays dir (stepG (decide (n ≥ 0))) (Near s0 F) ?_ ?_ ?_ ?_
        F l 10 s0 ⟨hheld0, by omega, by omega, by omega⟩ (by omega) ?_
      · intro f x hx
        have hr := hrange f x hx
        rw [stepG_eq_addDays _ x (by omega) ⟨hx.1.2.1, hx.1.2.2.1⟩]
      · intro f x nd hx hs
        have hr := hrange _ x hx
        obtain ⟨hh1, hs1, _⟩ := step_keeps_held x nd dir hd hx.1 (by omega) hs
        have hy1' := (addDays_one_year x nd dir hd hs).1
        obtain ⟨_, _, s1, s2⟩ := hx
        refine ⟨hh1, by omega, ?_, ?_⟩ <;> rcases hd with e | e <;> rw [hs1, e] <;> push_cast at s1 s2 ⊢ <;> omega
      · intro x; exact addDays_ne_other x dir
      · intro f x hx
        have hr := hrange f x hx
        exact walk_ten_evaluations_suffice cal hc dir hd x hx.1 hr.1 hr.2 10 (by omega)
      · intro nd hs
        obtain ⟨hh1, _, _⟩ := step_keeps_held s0 nd dir hd hheld0 (by omega) hs
        have hyn := addDays_one_year s0 nd dir hd hs
        exact walk_ten_evaluations_suffice cal hc dir hd nd hh1 (by omega) (by omega) 10 (by omega)
    have hfuel : (l + 1) * 40 + 40 = F + (30 * (l + 1) + 39) := by rw [hF]; omega
    rw [hfuel, abdLoop_fuel_stable _ _ _ _ _ _ key]
    exact key

/-- Non-vacuity: US calendar, Thursday 2 Jul 2020, n = 5 and n = −5: hypotheses hold (2020 is far inside the range) and
the call returns. -/
example : mkDate? 2 7 2020 = .ok (mkDate 2 7 2020) ∧
    1918 + (10 * ((5 : Int).natAbs : Int) + 1) / 365 ≤ (mkDate 2 7 2020).y ∧
    (match addBusinessDays 14 (mkDate 2 7 2020) (-5) with | .ok r => (r.d, r.m, r.y) | .error _ => (0, 0, 0)) = (25, 6, 2020) := by
  decide +kernel

end FinVerif.Props.C14
