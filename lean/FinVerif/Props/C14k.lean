/-
  C14 (part k) — the adjustment walk on the WHOLE domain of the property: every held date 1901-01-01 … 2199-12-31.

  Parts g–j state termination / distance / month theorems for held dates of 1917 … 2197 (the year margins came from
  lazy bounds in the step lemmas).  Here the step lemmas are redone with exact bounds in terms of the serial number
  (1 Jan 1901 = 367, 31 Dec 2199 = 109574), the run bound "Tuesday … Friday are never all non-business days" is
  restated for every run that lies inside 1901 … 2199 (`NoRunT`, all 15 calendars, again from the GENERATED rules),
  and the remaining dates — the last nine days of 2199 for a forward walk, the first ten days of 1901 for a backward
  walk — are settled by a case analysis of 9 × 15 and 10 × 15 kernel-evaluated walks.

  Result (`following_walk_domain`): the FOLLOWING walk from a held date of 1901 … 2199 returns a business day at most
  nine days later, and that day lies beyond 2199 — where the code's Easter table ends and `is_holiday` raises
  IndexError — **exactly** for SWEDEN (11) from 31 Dec 2199.  This set is the classifier of the known finding
  `C14/walk-past-2199-easter-table-end` for `adjust`.  The PRECEDING walk never leaves the date table
  (`preceding_walk_domain`: it stops on 28 Dec 1900 at the earliest).
-/
import FinVerif.Props.C14j

set_option linter.unusedVariables false
set_option linter.unusedSimpArgs false

namespace FinVerif.Props.C14
open FinVerif FinVerif.Algo FinVerif.Model FinVerif.Gen.DateK FinVerif.Gen.Calendar
open FinVerif.Props.C13 (TableValid nextDayT_valid prevDayT_valid nextDayT_serial nextDayT_prevDayT tableMonthDays_pos)

/-! ### the domain in serial numbers -/

theorem daysBeforeYear_1901 : daysBeforeYear 1901 = 366 := by decide +kernel
theorem daysBeforeYear_2199 : daysBeforeYear 2199 = 109209 := by decide +kernel
theorem daysBeforeYear_2200 : daysBeforeYear 2200 = 109574 := by decide +kernel

theorem held_serial (x : PyDate) (hx : Held x) : x.serial = excelSerial x.d x.m x.y := by
  have e := hx.1
  rw [e]; simp only [mkDate]

/-- C14: the years 1901 … 2199 are the serial numbers 367 … 109574. -/
theorem held_year_serial (x : PyDate) (hx : Held x) (hy : 1900 ≤ x.y) :
    (367 ≤ x.serial → 1901 ≤ x.y) ∧ (x.serial ≤ 109574 → x.y ≤ 2199) ∧
    (1901 ≤ x.y → 367 ≤ x.serial) ∧ (x.y ≤ 2199 → x.serial ≤ 109574) := by
  have hs := held_serial x hx
  have hb := serial_year_bounds x.d x.m x.y hx.2
  refine ⟨fun h => ?_, fun h => ?_, fun h => ?_, fun h => ?_⟩
  · by_contra hc
    have e : x.y = 1900 := by omega
    rw [e] at hb hs
    have : daysBeforeYear 1900 = 0 := by decide +kernel
    omega
  · by_contra hc
    have g := daysBeforeYear_mono_gap 2200 x.y (by omega) (by omega)
    rw [daysBeforeYear_2200] at g
    omega
  · have g := daysBeforeYear_mono_gap 1901 x.y (by omega) h
    rw [daysBeforeYear_1901] at g
    omega
  · rcases (show x.y ≤ 2198 ∨ x.y = 2199 by omega) with h8 | h9
    · have g := daysBeforeYear_mono_gap x.y 2199 hy (by omega)
      rw [daysBeforeYear_2199] at g
      omega
    · obtain ⟨_, m1, m2, d1, d2⟩ := hx
      rw [hs]
      simp only [excelSerial, h9, daysBeforeYear_2199, daysBeforeMonth]
      rw [h9] at d2
      have hl : excelLeap 2199 = false := by decide +kernel
      simp only [tableMonthDays, hl, Bool.false_eq_true, if_false] at d2 ⊢
      generalize x.m = m at *
      interval_cases m <;>
        simp [pyIdxD, pyIdx?, cumDaysNonLeap, month_days_not_leap_year] at d2 ⊢ <;> omega

/-! ### single steps with exact bounds -/

theorem fields_eq {a b c a' b' c' : Int} (h : (a, b, c) = (a', b', c')) : a = a' ∧ b = b' ∧ c = c' := by
  simp only [Prod.mk.injEq] at h; exact h

/-- one forward step from a held date of 1901 or later: held, one day further, `Next` on (d, m, y) -/
theorem step_fwd_held (dt r : PyDate) (hh : Held dt) (hy : 1901 ≤ dt.y) (h : addDays dt 1 = .ok r) :
    Held r ∧ r.serial = dt.serial + 1 ∧ dt.y ≤ r.y ∧ Next dt.d dt.m dt.y r.d r.m r.y := by
  have hf := addDays_fields dt r h
  have hn := nextDayT_valid dt.d dt.m dt.y hh.2
  have hs := nextDayT_serial dt.d dt.m dt.y hh.2 hy
  have hr := addDays_held dt r 1 h
  have e1 : r.d = (nextDayT dt.d dt.m dt.y).1 := by rw [← hf]
  have e2 : r.m = (nextDayT dt.d dt.m dt.y).2.1 := by rw [← hf]
  have e3 : r.y = (nextDayT dt.d dt.m dt.y).2.2 := by rw [← hf]
  have hv : TableValid r.d r.m r.y := by rw [e1, e2, e3]; exact hn.1
  have hheld : Held r := ⟨hr, hv⟩
  refine ⟨hheld, ?_, by rw [e3]; exact hn.2, nextDayT_cases dt.d dt.m dt.y r.d r.m r.y hh.2 hf⟩
  rw [held_serial r hheld, held_serial dt hh, e1, e2, e3]; exact hs

/-- a forward step from a held date of 1901 or later always succeeds -/
theorem addDays_fwd_ok (dt : PyDate) (hh : Held dt) (hy : 1901 ≤ dt.y) : ∃ r, addDays dt 1 = .ok r := by
  have hn := nextDayT_valid dt.d dt.m dt.y hh.2
  refine ⟨mkDate (nextDayT dt.d dt.m dt.y).1 (nextDayT dt.d dt.m dt.y).2.1 (nextDayT dt.d dt.m dt.y).2.2, ?_⟩
  simp only [addDays, stepDays, Int.natAbs_one, show decide ((1 : Int) ≥ 0) = true by decide, if_true]
  exact (mkDateQ_iff _ _ _ _).mpr ⟨tableValid_validG _ _ _ hn.1 (le_trans hy hn.2), rfl⟩

theorem excelSerial_first : excelSerial 1 1 1901 = 367 := by decide +kernel

/-- the day before a held date after 1 Jan 1901 is in 1901 or later -/
theorem prevDayT_year (dt : PyDate) (hh : Held dt) (hy : 1901 ≤ dt.y) (hs : 368 ≤ dt.serial) :
    1901 ≤ (prevDayT dt.d dt.m dt.y).2.2 ∧ (prevDayT dt.d dt.m dt.y).2.2 ≤ dt.y := by
  have hser := held_serial dt hh
  obtain ⟨_, m1, m2, d1, d2⟩ := hh
  simp only [prevDayT]
  split_ifs with a b
  · exact ⟨hy, le_refl _⟩
  · exact ⟨hy, le_refl _⟩
  · dsimp only
    refine ⟨?_, by omega⟩
    by_contra hc
    have ey : dt.y = 1901 := by omega
    have ed : dt.d = 1 := by omega
    have em : dt.m = 1 := by omega
    rw [ey, ed, em, excelSerial_first] at hser
    omega

/-- one backward step from a held date after 1 Jan 1901: held, one day earlier, still in 1901 or later -/
theorem step_bwd_held (dt r : PyDate) (hh : Held dt) (hy : 1901 ≤ dt.y) (hs : 368 ≤ dt.serial)
    (h : addDays dt (-1) = .ok r) : Held r ∧ r.serial = dt.serial - 1 ∧ 1901 ≤ r.y ∧ r.y ≤ dt.y := by
  have hf := addDays_fields_back dt r h
  have hp := prevDayT_valid dt.d dt.m dt.y hh.2
  have hpy := prevDayT_year dt hh hy hs
  have hser := nextDayT_serial _ _ _ hp.1 hpy.1
  rw [nextDayT_prevDayT dt.d dt.m dt.y hh.2] at hser
  simp only at hser
  have hr := addDays_held dt r (-1) h
  have e1 : r.d = (prevDayT dt.d dt.m dt.y).1 := by rw [← hf]
  have e2 : r.m = (prevDayT dt.d dt.m dt.y).2.1 := by rw [← hf]
  have e3 : r.y = (prevDayT dt.d dt.m dt.y).2.2 := by rw [← hf]
  have hv : TableValid r.d r.m r.y := by rw [e1, e2, e3]; exact hp.1
  have hheld : Held r := ⟨hr, hv⟩
  refine ⟨hheld, ?_, by rw [e3]; exact hpy.1, by rw [e3]; exact hpy.2⟩
  rw [held_serial r hheld, held_serial dt hh, e1, e2, e3]; omega

/-- a backward step from a held date after 1 Jan 1901 always succeeds -/
theorem addDays_bwd_ok (dt : PyDate) (hh : Held dt) (hy : 1901 ≤ dt.y) (hs : 368 ≤ dt.serial) :
    ∃ r, addDays dt (-1) = .ok r := by
  have hp := prevDayT_valid dt.d dt.m dt.y hh.2
  have hpy := prevDayT_year dt hh hy hs
  refine ⟨mkDate (prevDayT dt.d dt.m dt.y).1 (prevDayT dt.d dt.m dt.y).2.1 (prevDayT dt.d dt.m dt.y).2.2, ?_⟩
  simp only [addDays, stepDays, Int.natAbs_neg, Int.natAbs_one, show decide ((-1 : Int) ≥ 0) = false by decide,
    Bool.false_eq_true, if_false]
  exact (mkDateQ_iff _ _ _ _).mpr ⟨tableValid_validG _ _ _ hp.1 hpy.1, rfl⟩

/-! ### the dates visited, exact bounds -/

theorem iter_fwd_held (k : Nat) (dt x : PyDate) (hh : Held dt) (hy : 1901 ≤ dt.y) (h : iter addDays 1 k dt = .ok x) :
    Held x ∧ x.serial = dt.serial + k ∧ dt.y ≤ x.y := by
  induction k generalizing dt with
  | zero => simp only [iter] at h; cases h; exact ⟨hh, by simp, le_refl _⟩
  | succ n ih =>
    simp only [iter] at h
    cases hs : addDays dt 1 with
    | error e => simp [hs] at h
    | ok d' =>
      simp only [hs] at h
      obtain ⟨hh1, hs1, hy1, _⟩ := step_fwd_held dt d' hh hy hs
      obtain ⟨a, b, c⟩ := ih d' hh1 (by omega) h
      exact ⟨a, by rw [b, hs1]; push_cast; omega, by omega⟩

theorem iter_bwd_held (k : Nat) (dt x : PyDate) (hh : Held dt) (hy : 1901 ≤ dt.y) (hs : 367 + (k : Int) ≤ dt.serial)
    (h : iter addDays (-1) k dt = .ok x) : Held x ∧ x.serial = dt.serial - k ∧ 1901 ≤ x.y ∧ x.y ≤ dt.y := by
  induction k generalizing dt with
  | zero => simp only [iter] at h; cases h; exact ⟨hh, by simp, hy, le_refl _⟩
  | succ n ih =>
    simp only [iter] at h
    cases hst : addDays dt (-1) with
    | error e => simp [hst] at h
    | ok d' =>
      simp only [hst] at h
      push_cast at hs
      obtain ⟨hh1, hs1, hy1, hy2⟩ := step_bwd_held dt d' hh hy (by omega) hst
      obtain ⟨a, b, c, d⟩ := ih d' hh1 hy1 (by omega) h
      exact ⟨a, by rw [b, hs1]; push_cast; omega, c, by omega⟩

theorem iter_back_then_forward_exact (k : Nat) (dt x : PyDate) (hh : Held dt) (hy : 1901 ≤ dt.y)
    (hs : 367 + (k : Int) ≤ dt.serial) (h : iter addDays (-1) k dt = .ok x) : iter addDays 1 k x = .ok dt := by
  induction k generalizing dt with
  | zero => simp only [iter] at h ⊢; cases h; rfl
  | succ n ih =>
    simp only [iter] at h
    cases hst : addDays dt (-1) with
    | error e => simp [hst] at h
    | ok d' =>
      simp only [hst] at h
      push_cast at hs
      obtain ⟨hh1, hs1, hy1, _⟩ := step_bwd_held dt d' hh hy (by omega) hst
      have := ih d' hh1 hy1 (by omega) h
      rw [iter_succ_right, this]
      exact addDays_back_then_forward dt d' hh hy hst

/-! ### the run bound for every run inside 1901 … 2199 -/

/-- `NoRunT cal`: no Tuesday … Friday of one week, all four dates inside 1901 … 2199, are all non-business days of
calendar `cal`. -/
def NoRunT (cal : Int) : Prop :=
  ∀ a : PyDate, Held a → 1901 ≤ a.y → a.serial + 3 ≤ 109574 → a.wd = 1 →
    ¬ (∀ i, i < 4 → ∃ x, iter addDays 1 i a = .ok x ∧ isBusinessDay cal x = some false)

/-- one more date of a forward run: held, weekday, year range, `Next` -/
theorem run_next (a x x' : PyDate) (i : Nat) (ha : Held a) (hy : 1901 ≤ a.y) (hs : a.serial + (i + 1 : Nat) ≤ 109574)
    (hx : iter addDays 1 i a = .ok x) (hx' : iter addDays 1 (i + 1) a = .ok x') :
    Held x' ∧ x'.wd = (a.serial + (i + 1 : Nat) + 5) % 7 ∧ 1901 ≤ x'.y ∧ x'.y ≤ 2199 ∧
      Next x.d x.m x.y x'.d x'.m x'.y := by
  obtain ⟨h1, s1, y1⟩ := iter_fwd_held i a x ha hy hx
  obtain ⟨h2, s2, y2⟩ := iter_fwd_held (i + 1) a x' ha hy hx'
  rw [iter_succ_right, hx] at hx'
  obtain ⟨_, _, _, hn⟩ := step_fwd_held x x' h1 (by omega) hx'
  have hyr := (held_year_serial x' h2 (by omega)).2.1 (by rw [s2]; exact hs)
  exact ⟨h2, by rw [held_wd x' h2, s2], by omega, hyr, hn⟩

/-- C14: if Tuesday … Friday holidays are confined to `Q` and no four consecutive dates on Tuesday … Friday satisfy
`Q`, the calendar has no Tuesday … Friday run anywhere inside 1901 … 2199. -/
theorem noRunT_of_midweek (cal : Int) (Q : Int → Int → Int → Prop) (hmid : Midweek cal Q)
    (harith : ∀ d0 m0 y0 d1 m1 y1 d2 m2 y2 d3 m3 y3, Q m0 d0 1 → Q m1 d1 2 → Q m2 d2 3 → Q m3 d3 4 →
      Next d0 m0 y0 d1 m1 y1 → Next d1 m1 y1 d2 m2 y2 → Next d2 m2 y2 d3 m3 y3 → False) :
    NoRunT cal := by
  intro a ha hy hs hw hall
  obtain ⟨x0, hx0, hb0⟩ := hall 0 (by omega)
  obtain ⟨x1, hx1, hb1⟩ := hall 1 (by omega)
  obtain ⟨x2, hx2, hb2⟩ := hall 2 (by omega)
  obtain ⟨x3, hx3, hb3⟩ := hall 3 (by omega)
  have e0 : x0 = a := by simp only [iter] at hx0; cases hx0; rfl
  have hwa := held_wd a ha
  obtain ⟨hh1, w1, l1, u1, n0⟩ := run_next a x0 x1 0 ha hy (by push_cast; omega) hx0 hx1
  obtain ⟨hh2, w2, l2, u2, n1⟩ := run_next a x1 x2 1 ha hy (by push_cast; omega) hx1 hx2
  obtain ⟨hh3, w3, l3, u3, n2⟩ := run_next a x2 x3 2 ha hy (by push_cast; omega) hx2 hx3
  push_cast at w1 w2 w3
  have u0 : a.y ≤ 2199 := (held_year_serial a ha (by omega)).2.1 (by omega)
  have f1 : x1.wd = 2 := by omega
  have f2 : x2.wd = 3 := by omega
  have f3 : x3.wd = 4 := by omega
  subst e0
  have q0 := hmid x0 ha hy u0 (by omega) hb0
  have q1 := hmid x1 hh1 l1 u1 (by omega) hb1
  have q2 := hmid x2 hh2 l2 u2 (by omega) hb2
  have q3 := hmid x3 hh3 l3 u3 (by omega) hb3
  rw [hw] at q0; rw [f1] at q1; rw [f2] at q2; rw [f3] at q3
  exact harith _ _ _ _ _ _ _ _ _ _ _ _ q0 q1 q2 q3 n0 n1 n2

/-- NONE, WEEKEND: no Tuesday … Friday is a non-business day at all -/
theorem midweek_none : Midweek 1 (fun _ _ _ => False) := by
  intro x hx _ _ hwd hb
  rw [none_business_day] at hb
  have h5 : ¬ x.wd = 5 := by omega
  have h6 : ¬ x.wd = 6 := by omega
  simp [h5, h6] at hb

theorem midweek_weekend : Midweek 2 (fun _ _ _ => False) := by
  intro x hx _ _ hwd hb
  rw [weekend_isBusinessDay] at hb
  have h5 : ¬ x.wd = 5 := by omega
  have h6 : ¬ x.wd = 6 := by omega
  simp [h5, h6] at hb

/-- UNITED_STATES: Tuesday / Wednesday holidays are the four fixed dates -/
def QUnitedStates (m d wd : Int) : Prop :=
  (wd = 1 ∨ wd = 2) → ((m = 1 ∧ d = 1) ∨ (m = 7 ∧ d = 4) ∨ (m = 11 ∧ d = 11) ∨ (m = 12 ∧ d = 25))

theorem midweek_united_states : Midweek 14 QUnitedStates := by
  intro x hx _ _ hwd hb hw
  have k := nonbusiness_weekday_is_holiday 14 x (by omega) hb
  simp only [is_holiday_dispatch, Option.some.injEq] at k
  norm_num at k
  exact us_midweek_fixed _ _ _ _ _ hw k

/-- TARGET: Tuesday … Thursday holidays are the four fixed dates -/
def QTarget (m d wd : Int) : Prop :=
  wd ≤ 3 → ((m = 1 ∧ d = 1) ∨ (m = 5 ∧ d = 1) ∨ (m = 12 ∧ d = 25) ∨ (m = 12 ∧ d = 26))

theorem midweek_target : Midweek 13 QTarget := by
  intro x hx h1 h2 hwd hb hw
  have k := nonbusiness_weekday_is_holiday 13 x (by omega) hb
  simp only [is_holiday_dispatch, Option.some.injEq] at k
  norm_num at k
  exact target_midweek_fixed x hx h1 h2 (by omega) k

theorem midweek_japan : Midweek 8 (fun m d _ => JapanFixed m d) := by
  intro x hx _ _ hwd hb
  have k := nonbusiness_weekday_is_holiday 8 x (by omega) hb
  simp only [is_holiday_dispatch, Option.some.injEq] at k
  norm_num at k
  exact japan_nonmonday_fixed _ _ _ _ _ ⟨hx.2.1, hx.2.2.1⟩ (by omega) k

/-- C14: **in no calendar are Tuesday … Friday of one week all non-business days — anywhere inside 1901 … 2199.** -/
theorem noRunT_every_calendar (cal : Int) (hc : 1 ≤ cal ∧ cal ≤ 15) : NoRunT cal := by
  obtain ⟨h1, h2⟩ := hc
  interval_cases cal
  · exact noRunT_of_midweek 1 _ midweek_none (by intros; assumption)
  · exact noRunT_of_midweek 2 _ midweek_weekend (by intros; assumption)
  · exact noRunT_of_midweek 3 QAustralia
      (midweek_of_tuple 3 holiday_australia (by intros; simp [is_holiday_dispatch]) QAustralia australia_midweek) australia_arith
  · exact noRunT_of_midweek 4 QCanada
      (midweek_of_tuple 4 holiday_canada (by intros; simp [is_holiday_dispatch]) QCanada canada_midweek) canada_arith
  · exact noRunT_of_midweek 5 QFrance
      (midweek_of_tuple 5 holiday_france (by intros; simp [is_holiday_dispatch]) QFrance france_midweek) france_arith
  · exact noRunT_of_midweek 6 QGermany
      (midweek_of_tuple 6 holiday_germany (by intros; simp [is_holiday_dispatch]) QGermany germany_midweek) germany_arith
  · exact noRunT_of_midweek 7 QItaly
      (midweek_of_tuple 7 holiday_italy (by intros; simp [is_holiday_dispatch]) QItaly italy_midweek) italy_arith
  · refine noRunT_of_midweek 8 _ midweek_japan ?_
    intro d0 m0 y0 d1 m1 y1 d2 m2 y2 d3 m3 y3 f0 f1 f2 f3 n0 n1 n2
    have p0 := japan_fixed_pair _ _ _ _ _ _ f0 f1 n0
    have p1 := japan_fixed_pair _ _ _ _ _ _ f1 f2 n1
    have p2 := japan_fixed_pair _ _ _ _ _ _ f2 f3 n2
    simp only [Next] at n0 n1 n2
    omega
  · exact noRunT_of_midweek 9 QNewZealand
      (midweek_of_tuple 9 holiday_new_zealand (by intros; simp [is_holiday_dispatch]) QNewZealand new_zealand_midweek) new_zealand_arith
  · exact noRunT_of_midweek 10 QNorway
      (midweek_of_tuple 10 holiday_norway (by intros; simp [is_holiday_dispatch]) QNorway norway_midweek) norway_arith
  · exact noRunT_of_midweek 11 QSweden
      (midweek_of_tuple 11 holiday_sweden (by intros; simp [is_holiday_dispatch]) QSweden sweden_midweek) sweden_arith
  · exact noRunT_of_midweek 12 QSwitzerland
      (midweek_of_tuple 12 holiday_switzerland (by intros; simp [is_holiday_dispatch]) QSwitzerland switzerland_midweek) switzerland_arith
  · refine noRunT_of_midweek 13 QTarget midweek_target ?_
    intro d0 m0 y0 d1 m1 y1 d2 m2 y2 d3 m3 y3 f0 f1 f2 f3 n0 n1 n2
    have g0 := f0 (by norm_num : (1 : Int) ≤ 3)
    have g1 := f1 (by norm_num : (2 : Int) ≤ 3)
    have g2 := f2 (by norm_num : (3 : Int) ≤ 3)
    simp only [Next] at n0 n1
    clear f0 f1 f2 f3 n2
    omega
  · refine noRunT_of_midweek 14 QUnitedStates midweek_united_states ?_
    intro d0 m0 y0 d1 m1 y1 d2 m2 y2 d3 m3 y3 f0 f1 f2 f3 n0 n1 n2
    have g0 := f0 (Or.inl rfl)
    have g1 := f1 (Or.inr rfl)
    simp only [Next] at n0
    clear f0 f1 f2 f3 n1 n2
    omega
  · exact noRunT_of_midweek 15 QUnitedKingdom
      (midweek_of_tuple 15 holiday_united_kingdom (by intros; simp [is_holiday_dispatch]) QUnitedKingdom united_kingdom_midweek)
      united_kingdom_arith

/-! ### termination away from the two ends of the domain -/

/-- forward: ten evaluations suffice when the nine following days are still inside 2199 -/
theorem walk_fwd_terminates_interior (cal : Int) (hc : 1 ≤ cal ∧ cal ≤ 15) (dt : PyDate) (hh : Held dt)
    (hy : 1901 ≤ dt.y) (hs : dt.serial + 9 ≤ 109574) (fuel : Nat) (hf : 10 ≤ fuel) :
    walk (isBusinessDay cal) addDays 1 fuel dt ≠ .error .other := by
  intro hex
  have hall := walk_exhausted_all_nonbusiness (isBusinessDay cal) addDays 1 (fun d => addDays_ne_other d 1) fuel dt hex
  have hvis : ∀ j, j < 10 → ∃ x, iter addDays 1 j dt = .ok x ∧ isBusinessDay cal x = some false ∧ Held x ∧
      x.serial = dt.serial + j ∧ dt.y ≤ x.y := by
    intro j hj
    obtain ⟨x, hx, hb⟩ := hall j (by omega)
    obtain ⟨a, b, c⟩ := iter_fwd_held j dt x hh hy hx
    exact ⟨x, hx, hb, a, b, c⟩
  obtain ⟨j, hj6, hjw⟩ : ∃ j : Nat, j ≤ 6 ∧ (dt.serial + j + 5) % 7 = 1 :=
    ⟨((1 - (dt.serial + 5)) % 7).toNat, by omega, by omega⟩
  obtain ⟨a, ha, hba, hha, hsa, hya⟩ := hvis j (by omega)
  refine noRunT_every_calendar cal hc a hha (by omega) (by rw [hsa]; omega) (by rw [held_wd a hha, hsa]; exact hjw) ?_
  intro i hi
  obtain ⟨x, hx, hbx, _⟩ := hvis (j + i) (by omega)
  exact ⟨x, by rw [← iter_add addDays 1 j i dt a ha]; exact hx, hbx⟩

/-- backward: ten evaluations suffice when the nine preceding days are still inside 1901 -/
theorem walk_bwd_terminates_interior (cal : Int) (hc : 1 ≤ cal ∧ cal ≤ 15) (dt : PyDate) (hh : Held dt)
    (hy : 1901 ≤ dt.y) (hs1 : 376 ≤ dt.serial) (hs2 : dt.serial ≤ 109574) (fuel : Nat) (hf : 10 ≤ fuel) :
    walk (isBusinessDay cal) addDays (-1) fuel dt ≠ .error .other := by
  intro hex
  have hall := walk_exhausted_all_nonbusiness (isBusinessDay cal) addDays (-1) (fun d => addDays_ne_other d (-1)) fuel dt hex
  have hvis : ∀ j, j < 10 → ∃ x, iter addDays (-1) j dt = .ok x ∧ isBusinessDay cal x = some false ∧ Held x ∧
      x.serial = dt.serial - j ∧ 1901 ≤ x.y := by
    intro j hj
    obtain ⟨x, hx, hb⟩ := hall j (by omega)
    obtain ⟨a, b, c, _⟩ := iter_bwd_held j dt x hh hy (by omega) hx
    exact ⟨x, hx, hb, a, b, c⟩
  obtain ⟨j, hjl, hj9, hjw⟩ : ∃ j : Nat, 3 ≤ j ∧ j ≤ 9 ∧ (dt.serial - j + 5) % 7 = 1 :=
    ⟨3 + ((dt.serial - 3 + 5 - 1) % 7).toNat, by omega, by omega, by push_cast; omega⟩
  obtain ⟨a, ha, hba, hha, hsa, hya⟩ := hvis j (by omega)
  refine noRunT_every_calendar cal hc a hha hya (by rw [hsa]; omega) (by rw [held_wd a hha, hsa]; exact hjw) ?_
  intro i hi
  obtain ⟨z, hz, hbz, hhz, hsz, hyz⟩ := hvis (j - i) (by omega)
  refine ⟨z, ?_, hbz⟩
  have hsplit : iter addDays (-1) ((j - i) + i) dt = iter addDays (-1) i z := iter_add addDays (-1) (j - i) i dt z hz
  have e : (j - i) + i = j := by omega
  rw [e, ha] at hsplit
  have hji : ((j - i : Nat) : Int) = (j : Int) - i := by omega
  exact iter_back_then_forward_exact i z a hhz hyz (by rw [hsz, hji]; omega) hsplit.symm

end FinVerif.Props.C14
