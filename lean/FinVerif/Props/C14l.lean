/-
  C14 (part l) — `Calendar.adjust` on the whole domain 1901-01-01 … 2199-12-31, every calendar, every convention.

  Away from the two ends of the domain the run bound of part k gives termination within ten evaluations; the last
  nine days of 2199 (forward walks) and the first ten days of 1901 (backward walks) are a finite case analysis:
  9 × 15 and 10 × 15 kernel-evaluated walks of the model (NOT an enumeration of the domain).

  * `following_walk_domain`  — FOLLOWING returns a business day 0 … 9 days later; it lies beyond 2199 (the code's
    Easter table ends there: IndexError, finding `C14/walk-past-2199-easter-table-end`) **iff** the calendar is
    SWEDEN and the date is 31 Dec 2199.  Nothing else leaves the table.
  * `preceding_walk_domain`  — PRECEDING returns a business day 0 … 9 days earlier, never before 1900 (the table start).
  * `modified_following_domain`, `modified_preceding_domain` — the result is in the month and year of the input.
  * `adjust_terminates_domain`, `adjust_summary_domain`.
-/
import FinVerif.Props.C14k

set_option linter.unusedVariables false
set_option linter.unusedSimpArgs false

namespace FinVerif.Props.C14
open FinVerif FinVerif.Algo FinVerif.Model FinVerif.Gen.DateK FinVerif.Gen.Calendar
open FinVerif.Props.C13 (TableValid tableMonthDays_pos)

/-! ### generic: a walk whose steps and predicate are defined either returns or exhausts its fuel -/

theorem walk_ok_or_other (bd : PyDate → Option Bool) (addD : PyDate → Int → Except PyErr PyDate) (dir : Int)
    (P : Nat → PyDate → Prop) (hbd : ∀ f x, P f x → bd x ≠ none)
    (hstep : ∀ f x, P (f + 1) x → ∃ r, addD x dir = .ok r ∧ P f r)
    (fuel : Nat) (dt : PyDate) (hp : P fuel dt) :
    (∃ r, walk bd addD dir fuel dt = .ok r) ∨ walk bd addD dir fuel dt = .error .other := by
  induction fuel generalizing dt with
  | zero => exact Or.inr rfl
  | succ n ih =>
    unfold walk
    cases hb : bd dt with
    | none => exact absurd hb (hbd _ _ hp)
    | some b =>
      cases b with
      | true => exact Or.inl ⟨dt, rfl⟩
      | false =>
        obtain ⟨r, hr, hpr⟩ := hstep n dt hp
        simp only [hr]
        exact ih r hpr

theorem bd_defined (cal : Int) (hc : 1 ≤ cal ∧ cal ≤ 15) (x : PyDate) : isBusinessDay cal x ≠ none := by
  obtain ⟨b, hb⟩ := business_day_defined cal x hc
  rw [hb]; simp

/-! ### the walks away from the ends -/

/-- forward walk, nine following days inside 2199: returns a business day `k ≤ 9` days later, inside 1901 … 2199 -/
theorem walk_result_fwd_interior (cal : Int) (hc : 1 ≤ cal ∧ cal ≤ 15) (dt : PyDate) (hh : Held dt)
    (hy : 1901 ≤ dt.y) (hs : dt.serial + 9 ≤ 109574) :
    ∃ r k, walk (isBusinessDay cal) addDays 1 adjustFuel dt = .ok r ∧ k ≤ 9 ∧ iter addDays 1 k dt = .ok r ∧
      r.serial = dt.serial + (k : Nat) ∧ Held r ∧ isBusinessDay cal r = some true ∧ dt.y ≤ r.y ∧ r.y ≤ 2199 := by
  have h10 := walk_fwd_terminates_interior cal hc dt hh hy hs 10 (by omega)
  have hor := walk_ok_or_other (isBusinessDay cal) addDays 1 (fun _ x => Held x ∧ 1901 ≤ x.y)
    (fun _ x _ => bd_defined cal hc x)
    (fun _ x hx => by
      obtain ⟨r, hr⟩ := addDays_fwd_ok x hx.1 hx.2
      obtain ⟨a, _, c, _⟩ := step_fwd_held x r hx.1 hx.2 hr
      exact ⟨r, hr, a, by omega⟩) 10 dt ⟨hh, hy⟩
  rcases hor with ⟨r, hr⟩ | hbad
  · have hst := walk_fuel_stable (isBusinessDay cal) addDays 1 10 30 dt h10
    have e : adjustFuel = 10 + 30 := rfl
    obtain ⟨k, hk, hit, _⟩ := walk_steps_lt_fuel (isBusinessDay cal) addDays 1 10 dt r hr
    obtain ⟨hhr, hsr, hyr⟩ := iter_fwd_held k dt r hh hy hit
    refine ⟨r, k, by rw [e, hst]; exact hr, by omega, hit, hsr, hhr,
      walk_result_is_business_day (isBusinessDay cal) addDays 1 10 dt r hr, hyr, ?_⟩
    exact (held_year_serial r hhr (by omega)).2.1 (by rw [hsr]; omega)
  · exact absurd hbad h10

/-- backward walk, ten preceding days inside 1901: returns a business day `k ≤ 9` days earlier, inside 1901 … 2199 -/
theorem walk_result_bwd_interior (cal : Int) (hc : 1 ≤ cal ∧ cal ≤ 15) (dt : PyDate) (hh : Held dt)
    (hy : 1901 ≤ dt.y) (hs1 : 377 ≤ dt.serial) (hs2 : dt.serial ≤ 109574) :
    ∃ r k, walk (isBusinessDay cal) addDays (-1) adjustFuel dt = .ok r ∧ k ≤ 9 ∧ iter addDays (-1) k dt = .ok r ∧
      r.serial = dt.serial - (k : Nat) ∧ Held r ∧ isBusinessDay cal r = some true ∧ 1901 ≤ r.y ∧ r.y ≤ dt.y := by
  have h10 := walk_bwd_terminates_interior cal hc dt hh hy (by omega) hs2 10 (by omega)
  have hor := walk_ok_or_other (isBusinessDay cal) addDays (-1)
    (fun f x => Held x ∧ 1901 ≤ x.y ∧ 367 + (f : Int) ≤ x.serial)
    (fun _ x _ => bd_defined cal hc x)
    (fun f x hx => by
      obtain ⟨h1, h2, h3⟩ := hx
      push_cast at h3
      obtain ⟨r, hr⟩ := addDays_bwd_ok x h1 h2 (by omega)
      obtain ⟨a, b, c, _⟩ := step_bwd_held x r h1 h2 (by omega) hr
      exact ⟨r, hr, a, c, by omega⟩) 10 dt ⟨hh, hy, by push_cast; omega⟩
  rcases hor with ⟨r, hr⟩ | hbad
  · have hst := walk_fuel_stable (isBusinessDay cal) addDays (-1) 10 30 dt h10
    have e : adjustFuel = 10 + 30 := rfl
    obtain ⟨k, hk, hit, _⟩ := walk_steps_lt_fuel (isBusinessDay cal) addDays (-1) 10 dt r hr
    obtain ⟨hhr, hsr, hyr, hyr2⟩ := iter_bwd_held k dt r hh hy (by omega) hit
    exact ⟨r, k, by rw [e, hst]; exact hr, by omega, hit, hsr, hhr,
      walk_result_is_business_day (isBusinessDay cal) addDays (-1) 10 dt r hr, hyr, hyr2⟩
  · exact absurd hbad h10

/-! ### the two ends of the domain: which dates they are -/

theorem daysBeforeYear_1902 : daysBeforeYear 1902 = 731 := by decide +kernel

/-- the held dates of 1901 … 2199 with serial ≥ 109566 are 23 … 31 Dec 2199 -/
theorem end_edge (dt : PyDate) (hh : Held dt) (hy1 : 1901 ≤ dt.y) (hy2 : dt.y ≤ 2199) (hs : 109566 ≤ dt.serial) :
    dt.y = 2199 ∧ dt.m = 12 ∧ 23 ≤ dt.d ∧ dt.d ≤ 31 := by
  have hser := held_serial dt hh
  have hb := serial_year_bounds dt.d dt.m dt.y hh.2
  have h9 : dt.y = 2199 := by
    by_contra hc
    have g := daysBeforeYear_mono_gap dt.y 2199 (by omega) (by omega)
    rw [daysBeforeYear_2199] at g
    omega
  obtain ⟨_, m1, m2, d1, d2⟩ := hh
  rw [h9] at d2 hser
  have hl : excelLeap 2199 = false := by decide +kernel
  simp only [excelSerial, daysBeforeYear_2199, daysBeforeMonth, tableMonthDays, hl, Bool.false_eq_true, if_false]
    at d2 hser
  refine ⟨h9, ?_⟩
  generalize dt.m = m at *
  interval_cases m <;>
    simp [pyIdxD, pyIdx?, cumDaysNonLeap, month_days_not_leap_year] at d2 hser ⊢ <;> omega

/-- the held dates of 1901 … with serial ≤ 376 are 1 … 10 Jan 1901 -/
theorem start_edge (dt : PyDate) (hh : Held dt) (hy1 : 1901 ≤ dt.y) (hs : dt.serial ≤ 376) :
    dt.y = 1901 ∧ dt.m = 1 ∧ 1 ≤ dt.d ∧ dt.d ≤ 10 := by
  have hser := held_serial dt hh
  have hb := serial_year_bounds dt.d dt.m dt.y hh.2
  have h1 : dt.y = 1901 := by
    by_contra hc
    have g := daysBeforeYear_mono_gap 1902 dt.y (by omega) (by omega)
    rw [daysBeforeYear_1902] at g
    omega
  obtain ⟨_, m1, m2, d1, d2⟩ := hh
  rw [h1] at d2 hser
  have hl : excelLeap 1901 = false := by decide +kernel
  simp only [excelSerial, daysBeforeYear_1901, daysBeforeMonth, tableMonthDays, hl, Bool.false_eq_true, if_false]
    at d2 hser
  refine ⟨h1, ?_⟩
  generalize dt.m = m at *
  interval_cases m <;>
    simp [pyIdxD, pyIdx?, cumDaysNonLeap, month_days_not_leap_year] at d2 hser ⊢ <;> omega

theorem excelSerial_last : excelSerial 31 12 2199 = 109574 := by decide +kernel

/-! ### the two ends: kernel-evaluated walks (9 × 15 and 10 × 15 cases) -/

/-- (d, m, y, serial) of a returned date; zeros for an error -/
def walkOut (w : Except PyErr PyDate) : Int × Int × Int × Int :=
  match w with
  | .ok r => (r.d, r.m, r.y, r.serial)
  | .error _ => (0, 0, 0, 0)

theorem walkOut_ok (w : Except PyErr PyDate) (h : (walkOut w).2.2.1 ≠ 0) :
    ∃ r, w = .ok r ∧ walkOut w = (r.d, r.m, r.y, r.serial) := by
  cases w with
  | error e => simp [walkOut] at h
  | ok r => exact ⟨r, rfl, rfl⟩

theorem all_range2 (n k : Nat) (f : Int → Int → Bool) (a : Int)
    (h : (List.range n).all (fun c => (List.range k).all (fun i => f ((c : Int) + 1) (a + (i : Int)))) = true)
    (cal d : Int) (hc : 1 ≤ cal ∧ cal ≤ n) (hd : a ≤ d ∧ d < a + k) : f cal d = true := by
  rw [List.all_eq_true] at h
  have h1 : (List.range k).all (fun i => f ((((cal - 1).toNat : Nat) : Int) + 1) (a + (i : Int))) = true :=
    h (cal - 1).toNat (List.mem_range.mpr (by omega))
  rw [List.all_eq_true] at h1
  have h2 : f ((((cal - 1).toNat : Nat) : Int) + 1) (a + (((d - a).toNat : Nat) : Int)) = true :=
    h1 (d - a).toNat (List.mem_range.mpr (by omega))
  have e1 : (((cal - 1).toNat : Nat) : Int) + 1 = cal := by omega
  have e2 : a + (((d - a).toNat : Nat) : Int) = d := by omega
  rw [e1, e2] at h2
  exact h2

/-- forward walk from `d` Dec 2199: returns 0 … 9 days later; in 2199 unless SWEDEN from 31 Dec (then in 2200) -/
def edgeFwdCheck (cal d : Int) : Bool :=
  let dt := mkDate d 12 2199
  let o := walkOut (walk (isBusinessDay cal) addDays 1 10 dt)
  decide (dt.serial ≤ o.2.2.2) && decide (o.2.2.2 ≤ dt.serial + 9) &&
    (if cal = 11 ∧ d = 31 then decide (o.2.2.1 = 2200) else decide (o.2.2.1 = 2199))

theorem edge_fwd_all :
    (List.range 15).all (fun c => (List.range 9).all (fun i => edgeFwdCheck ((c : Int) + 1) (23 + (i : Int)))) = true := by
  decide +kernel

/-- backward walk from `d` Jan 1901: returns 0 … 9 days earlier, not before 1900 -/
def edgeBwdCheck (cal d : Int) : Bool :=
  let dt := mkDate d 1 1901
  let o := walkOut (walk (isBusinessDay cal) addDays (-1) 10 dt)
  decide (o.2.2.2 ≤ dt.serial) && decide (dt.serial ≤ o.2.2.2 + 9) && decide (1900 ≤ o.2.2.1) &&
    decide (o.2.2.1 ≤ 1901)

theorem edge_bwd_all :
    (List.range 15).all (fun c => (List.range 10).all (fun i => edgeBwdCheck ((c : Int) + 1) (1 + (i : Int)))) = true := by
  decide +kernel

/-- MODIFIED FOLLOWING (3) and MODIFIED PRECEDING (5) from `d m y`: same month and year, at most nine days away -/
def edgeModCheck (m y conv cal d : Int) : Bool :=
  let dt := mkDate d m y
  let o := walkOut (Model.adjust cal conv dt)
  decide (o.2.1 = m) && decide (o.2.2.1 = y) && decide (o.2.2.2 - dt.serial ≤ 9) && decide (dt.serial - o.2.2.2 ≤ 9)

theorem edge_mod_end_all :
    (List.range 15).all (fun c => (List.range 9).all (fun i =>
      edgeModCheck 12 2199 3 ((c : Int) + 1) (23 + (i : Int)) && edgeModCheck 12 2199 5 ((c : Int) + 1) (23 + (i : Int)))) = true := by
  decide +kernel

theorem edge_mod_start_all :
    (List.range 15).all (fun c => (List.range 10).all (fun i =>
      edgeModCheck 1 1901 3 ((c : Int) + 1) (1 + (i : Int)) && edgeModCheck 1 1901 5 ((c : Int) + 1) (1 + (i : Int)))) = true := by
  decide +kernel

/-! ### FOLLOWING and PRECEDING on the whole domain -/

/-- C14, whole domain: **FOLLOWING** from any held date of 1901 … 2199, any of the 15 calendars, returns a business day
0 … 9 days later (the nearest one: `walk_nearest`), and the walk leaves the years covered by the Easter table
**exactly** for SWEDEN from 31 Dec 2199 — the complete classifier of finding `C14/walk-past-2199-easter-table-end`
for `adjust` (the code raises IndexError there; the model continues with its totalised lookup). -/
theorem following_walk_domain (cal : Int) (hc : 1 ≤ cal ∧ cal ≤ 15) (dt : PyDate) (hh : Held dt)
    (hy1 : 1901 ≤ dt.y) (hy2 : dt.y ≤ 2199) :
    ∃ r, walk (isBusinessDay cal) addDays 1 adjustFuel dt = .ok r ∧ isBusinessDay cal r = some true ∧
      dt.serial ≤ r.serial ∧ r.serial ≤ dt.serial + 9 ∧ dt.y ≤ r.y ∧
      (2200 ≤ r.y ↔ (cal = 11 ∧ dt.d = 31 ∧ dt.m = 12 ∧ dt.y = 2199)) := by
  by_cases hs : dt.serial + 9 ≤ 109574
  · obtain ⟨r, k, hw, hk, _, hsr, _, hb, hyl, hyr⟩ := walk_result_fwd_interior cal hc dt hh hy1 hs
    refine ⟨r, hw, hb, by rw [hsr]; omega, by rw [hsr]; omega, hyl, ?_⟩
    constructor
    · intro h; omega
    · rintro ⟨_, e1, e2, e3⟩
      have := held_serial dt hh
      rw [e1, e2, e3, excelSerial_last] at this
      omega
  · obtain ⟨e3, e2, d1, d2⟩ := end_edge dt hh hy1 hy2 (by omega)
    have hdt : dt = mkDate dt.d 12 2199 := by
      have e := hh.1
      rw [e2, e3] at e
      exact e
    have hchk := all_range2 15 9 edgeFwdCheck 23 edge_fwd_all cal dt.d (by omega) (by omega)
    simp only [edgeFwdCheck, Bool.and_eq_true, decide_eq_true_eq] at hchk
    rw [← hdt] at hchk
    obtain ⟨⟨c1, c2⟩, c3⟩ := hchk
    have hne : (walkOut (walk (isBusinessDay cal) addDays 1 10 dt)).2.2.1 ≠ 0 := by
      split_ifs at c3 <;> simp only [decide_eq_true_eq] at c3 <;> omega
    obtain ⟨r, hr, ho⟩ := walkOut_ok _ hne
    rw [ho] at c1 c2 c3
    simp only at c1 c2 c3
    have h10 : walk (isBusinessDay cal) addDays 1 10 dt ≠ .error .other := by rw [hr]; simp
    have hst := walk_fuel_stable (isBusinessDay cal) addDays 1 10 30 dt h10
    have e : adjustFuel = 10 + 30 := rfl
    have hyl : dt.y ≤ r.y := by
      split_ifs at c3 <;> simp only [decide_eq_true_eq] at c3 <;> omega
    refine ⟨r, by rw [e, hst]; exact hr, walk_result_is_business_day (isBusinessDay cal) addDays 1 10 dt r hr, c1, c2, hyl, ?_⟩
    split_ifs at c3 with hcond <;> simp only [decide_eq_true_eq] at c3
    · exact ⟨fun _ => ⟨hcond.1, hcond.2, e2, e3⟩, fun _ => by omega⟩
    · constructor
      · intro h; omega
      · rintro ⟨a, b, _, _⟩; exact absurd ⟨a, b⟩ hcond

/-- C14, whole domain: **PRECEDING** from any held date of 1901 … 2199 returns a business day 0 … 9 days earlier and never
leaves the date table (which starts in 1900): no exception at this end of the domain. -/
theorem preceding_walk_domain (cal : Int) (hc : 1 ≤ cal ∧ cal ≤ 15) (dt : PyDate) (hh : Held dt)
    (hy1 : 1901 ≤ dt.y) (hy2 : dt.y ≤ 2199) :
    ∃ r, walk (isBusinessDay cal) addDays (-1) adjustFuel dt = .ok r ∧ isBusinessDay cal r = some true ∧
      r.serial ≤ dt.serial ∧ dt.serial ≤ r.serial + 9 ∧ 1900 ≤ r.y ∧ r.y ≤ 2199 := by
  have hs2 := (held_year_serial dt hh (by omega)).2.2.2 hy2
  by_cases hs : 377 ≤ dt.serial
  · obtain ⟨r, k, hw, hk, _, hsr, _, hb, hyr, hyr2⟩ := walk_result_bwd_interior cal hc dt hh hy1 hs hs2
    exact ⟨r, hw, hb, by rw [hsr]; omega, by rw [hsr]; omega, by omega, by omega⟩
  · obtain ⟨e3, e2, d1, d2⟩ := start_edge dt hh hy1 (by omega)
    have hdt : dt = mkDate dt.d 1 1901 := by
      have e := hh.1
      rw [e2, e3] at e
      exact e
    have hchk := all_range2 15 10 edgeBwdCheck 1 edge_bwd_all cal dt.d (by omega) (by omega)
    simp only [edgeBwdCheck, Bool.and_eq_true, decide_eq_true_eq] at hchk
    rw [← hdt] at hchk
    obtain ⟨⟨⟨c1, c2⟩, c3⟩, c4⟩ := hchk
    have hne : (walkOut (walk (isBusinessDay cal) addDays (-1) 10 dt)).2.2.1 ≠ 0 := by omega
    obtain ⟨r, hr, ho⟩ := walkOut_ok _ hne
    rw [ho] at c1 c2 c3 c4
    simp only at c1 c2 c3 c4
    have h10 : walk (isBusinessDay cal) addDays (-1) 10 dt ≠ .error .other := by rw [hr]; simp
    have hst := walk_fuel_stable (isBusinessDay cal) addDays (-1) 10 30 dt h10
    have e : adjustFuel = 10 + 30 := rfl
    exact ⟨r, by rw [e, hst]; exact hr, walk_result_is_business_day (isBusinessDay cal) addDays (-1) 10 dt r hr,
      c1, c2, c3, by omega⟩

/-! ### MODIFIED conventions on the whole domain -/

theorem iter_fwd_same_month_exact (k : Nat) (dt x : PyDate) (hh : Held dt) (hy : 1901 ≤ dt.y) (hk : dt.d + k ≤ 28)
    (h : iter addDays 1 k dt = .ok x) : x.d = dt.d + k ∧ x.m = dt.m ∧ x.y = dt.y := by
  induction k generalizing dt with
  | zero => simp only [iter] at h; cases h; simp
  | succ n ih =>
    simp only [iter] at h
    cases hs : addDays dt 1 with
    | error e => simp [hs] at h
    | ok d' =>
      simp only [hs] at h
      obtain ⟨hh1, _, _, hn⟩ := step_fwd_held dt d' hh hy hs
      have hd1 : 1 ≤ dt.d := hh.2.2.2.1
      push_cast at hk
      simp only [Next] at hn
      have hc : d'.d = dt.d + 1 ∧ d'.m = dt.m ∧ d'.y = dt.y := by omega
      obtain ⟨a, b, c⟩ := ih d' hh1 (by omega) (by omega) h
      refine ⟨by push_cast; omega, by omega, by omega⟩

theorem iter_bwd_same_month_exact (k : Nat) (dt x : PyDate) (hk : (k : Int) + 1 ≤ dt.d)
    (h : iter addDays (-1) k dt = .ok x) : x.d = dt.d - k ∧ x.m = dt.m ∧ x.y = dt.y := by
  induction k generalizing dt with
  | zero => simp only [iter] at h; cases h; simp
  | succ n ih =>
    simp only [iter] at h
    cases hs : addDays dt (-1) with
    | error e => simp [hs] at h
    | ok d' =>
      simp only [hs] at h
      have hf := addDays_fields_back dt d' hs
      push_cast at hk
      have hgt : dt.d > 1 := by omega
      simp only [prevDayT, hgt, if_true, Prod.mk.injEq] at hf
      obtain ⟨a, b, c⟩ := ih d' (by omega) h
      refine ⟨by push_cast; omega, by omega, by omega⟩

theorem walkOut_of_ok (w : Except PyErr PyDate) (r : PyDate) (h : w = .ok r) :
    walkOut w = (r.d, r.m, r.y, r.serial) := by rw [h]; rfl

/-- the MODIFIED conventions at the two ends of the domain, from the kernel-evaluated tables -/
theorem modified_edges (cal : Int) (hc : 1 ≤ cal ∧ cal ≤ 15) (conv : Int) (hcv : conv = 3 ∨ conv = 5) (dt r : PyDate)
    (hh : Held dt) (hy1 : 1901 ≤ dt.y) (hy2 : dt.y ≤ 2199) (hs : dt.serial ≤ 376 ∨ 109566 ≤ dt.serial)
    (h : Model.adjust cal conv dt = .ok r) :
    r.m = dt.m ∧ r.y = dt.y ∧ r.serial - dt.serial ≤ 9 ∧ dt.serial - r.serial ≤ 9 := by
  have ho := fun cv => walkOut_of_ok (Model.adjust cal cv dt) r
  rcases hs with hs | hs
  · obtain ⟨e3, e2, d1, d2⟩ := start_edge dt hh hy1 hs
    have hdt : dt = mkDate dt.d 1 1901 := by
      have e := hh.1
      rw [e2, e3] at e
      exact e
    have hchk := all_range2 15 10 (fun c d => edgeModCheck 1 1901 3 c d && edgeModCheck 1 1901 5 c d) 1
      edge_mod_start_all cal dt.d (by omega) (by omega)
    simp only [edgeModCheck, Bool.and_eq_true, decide_eq_true_eq] at hchk
    rw [← hdt] at hchk
    rcases hcv with rfl | rfl
    · rw [ho 3 h] at hchk; simp only at hchk; omega
    · rw [ho 5 h] at hchk; simp only at hchk; omega
  · obtain ⟨e3, e2, d1, d2⟩ := end_edge dt hh hy1 hy2 hs
    have hdt : dt = mkDate dt.d 12 2199 := by
      have e := hh.1
      rw [e2, e3] at e
      exact e
    have hchk := all_range2 15 9 (fun c d => edgeModCheck 12 2199 3 c d && edgeModCheck 12 2199 5 c d) 23
      edge_mod_end_all cal dt.d (by omega) (by omega)
    simp only [edgeModCheck, Bool.and_eq_true, decide_eq_true_eq] at hchk
    rw [← hdt] at hchk
    rcases hcv with rfl | rfl
    · rw [ho 3 h] at hchk; simp only at hchk; omega
    · rw [ho 5 h] at hchk; simp only at hchk; omega

/-- C14, whole domain: **MODIFIED FOLLOWING stays in the month** — every calendar, every held date 1901 … 2199 (model; at
SWEDEN / 31 Dec 2199 the code's first, forward walk is the one of `following_walk_domain` and raises). -/
theorem modified_following_domain (cal : Int) (hc : 1 ≤ cal ∧ cal ≤ 15) (dt r : PyDate) (hh : Held dt)
    (hy1 : 1901 ≤ dt.y) (hy2 : dt.y ≤ 2199) (h : Model.adjust cal 3 dt = .ok r) :
    r.m = dt.m ∧ r.y = dt.y ∧ r.serial - dt.serial ≤ 9 ∧ dt.serial - r.serial ≤ 9 := by
  by_cases hedge : dt.serial ≤ 376 ∨ 109566 ≤ dt.serial
  · exact modified_edges cal hc 3 (Or.inl rfl) dt r hh hy1 hy2 hedge h
  have hs1 : 377 ≤ dt.serial := by omega
  have hs2 : dt.serial + 9 ≤ 109574 := by omega
  by_cases hnone : cal = 1
  · subst hnone
    simp [Model.adjust, Algo.adjust] at h
    subst h; simp
  have hre : mkDate dt.d dt.m dt.y = dt := hh.1.symm
  have hdn : decide (cal = 1) = false := by simp [hnone]
  rw [model_adjust_is_algo, hdn] at h
  rcases (adjust_modified_following_iff (isBusinessDay cal) addDays mkDate adjustFuel dt r).mp h with
    ⟨hw, hm⟩ | ⟨r1, hw1, hne, hw2⟩
  · obtain ⟨r', k, hw', hk, hit, hs, hr, _, hyr, _⟩ := walk_result_fwd_interior cal hc dt hh hy1 hs2
    rw [hw] at hw'; cases hw'
    refine ⟨hm, ?_, by rw [hs]; omega, by rw [hs]; omega⟩
    exact same_month_close_same_year dt r hh hr (by omega) (by omega) hm.symm (by rw [hs]; omega) (by rw [hs]; omega)
  · rw [hre] at hw2
    obtain ⟨r1', k1, hw1', hk1, hit1, _⟩ := walk_result_fwd_interior cal hc dt hh hy1 hs2
    rw [hw1] at hw1'; cases hw1'
    have hlate : ¬ dt.d + k1 ≤ 28 := fun hsm => hne (iter_fwd_same_month_exact k1 dt r1 hh hy1 hsm hit1).2.1
    obtain ⟨r', k2, hw2', hk2, hit2, hs2', _⟩ := walk_result_bwd_interior cal hc dt hh hy1 hs1 (by omega)
    rw [hw2] at hw2'; cases hw2'
    obtain ⟨_, b, c⟩ := iter_bwd_same_month_exact k2 dt r (by omega) hit2
    exact ⟨b, c, by rw [hs2']; omega, by rw [hs2']; omega⟩

/-- C14, whole domain: **MODIFIED PRECEDING stays in the month**, symmetrically (no exception at either end). -/
theorem modified_preceding_domain (cal : Int) (hc : 1 ≤ cal ∧ cal ≤ 15) (dt r : PyDate) (hh : Held dt)
    (hy1 : 1901 ≤ dt.y) (hy2 : dt.y ≤ 2199) (h : Model.adjust cal 5 dt = .ok r) :
    r.m = dt.m ∧ r.y = dt.y ∧ r.serial - dt.serial ≤ 9 ∧ dt.serial - r.serial ≤ 9 := by
  by_cases hedge : dt.serial ≤ 376 ∨ 109566 ≤ dt.serial
  · exact modified_edges cal hc 5 (Or.inr rfl) dt r hh hy1 hy2 hedge h
  have hs1 : 377 ≤ dt.serial := by omega
  have hs2 : dt.serial + 9 ≤ 109574 := by omega
  by_cases hnone : cal = 1
  · subst hnone
    simp [Model.adjust, Algo.adjust] at h
    subst h; simp
  have hre : mkDate dt.d dt.m dt.y = dt := hh.1.symm
  have hdn : decide (cal = 1) = false := by simp [hnone]
  rw [model_adjust_is_algo, hdn] at h
  rcases (adjust_modified_preceding_iff (isBusinessDay cal) addDays mkDate adjustFuel dt r).mp h with
    ⟨hw, hm⟩ | ⟨r1, hw1, hne, hw2⟩
  · obtain ⟨r', k, hw', hk, hit, hs, hr, _, hyr, _⟩ := walk_result_bwd_interior cal hc dt hh hy1 hs1 (by omega)
    rw [hw] at hw'; cases hw'
    refine ⟨hm, ?_, by rw [hs]; omega, by rw [hs]; omega⟩
    exact same_month_close_same_year dt r hh hr (by omega) (by omega) hm.symm (by rw [hs]; omega) (by rw [hs]; omega)
  · rw [hre] at hw2
    obtain ⟨r1', k1, hw1', hk1, hit1, _⟩ := walk_result_bwd_interior cal hc dt hh hy1 hs1 (by omega)
    rw [hw1] at hw1'; cases hw1'
    have hearly : ¬ (k1 : Int) + 1 ≤ dt.d := fun hsm => hne (iter_bwd_same_month_exact k1 dt r1 hsm hit1).2.1
    obtain ⟨r', k2, hw2', hk2, hit2, hs2', _⟩ := walk_result_fwd_interior cal hc dt hh hy1 hs2
    rw [hw2] at hw2'; cases hw2'
    obtain ⟨_, b, c⟩ := iter_fwd_same_month_exact k2 dt r hh hy1 (by omega) hit2
    exact ⟨b, c, by rw [hs2']; omega, by rw [hs2']; omega⟩

/-! ### `Calendar.adjust` on the whole domain -/

/-- C14 TERMINATION on the whole domain, in its strongest form: for each of the 15 calendars, each of the 5 conventions
and each held date of 1901 … 2199 the model of `Calendar.adjust` RETURNS a date (neither the fuel nor any library
error ends it). -/
theorem adjust_returns_domain (cal : Int) (hc : 1 ≤ cal ∧ cal ≤ 15) (conv : Int) (hcv : 1 ≤ conv ∧ conv ≤ 5)
    (dt : PyDate) (hh : Held dt) (hy1 : 1901 ≤ dt.y) (hy2 : dt.y ≤ 2199) : ∃ r, Model.adjust cal conv dt = .ok r := by
  obtain ⟨rf, hwf, _⟩ := following_walk_domain cal hc dt hh hy1 hy2
  obtain ⟨rb, hwb, _⟩ := preceding_walk_domain cal hc dt hh hy1 hy2
  have hre : mkDate dt.d dt.m dt.y = dt := hh.1.symm
  simp only [Model.adjust, Algo.adjust, hre, hwf, hwb]
  split_ifs <;> first | omega | exact ⟨_, rfl⟩

theorem adjust_terminates_domain (cal : Int) (hc : 1 ≤ cal ∧ cal ≤ 15) (conv : Int) (dt : PyDate) (hh : Held dt)
    (hy1 : 1901 ≤ dt.y) (hy2 : dt.y ≤ 2199) : Model.adjust cal conv dt ≠ .error .other := by
  by_cases hcv : 1 ≤ conv ∧ conv ≤ 5
  · obtain ⟨r, hr⟩ := adjust_returns_domain cal hc conv hcv dt hh hy1 hy2
    rw [hr]; simp
  · have : conv < 1 ∨ conv > 5 := by omega
    simp [Model.adjust, Algo.adjust, this]

/-- C14, all conventions, whole domain (every calendar but NONE): the adjusted date is a business day at most nine days
from the input, on the right side of it for FOLLOWING / PRECEDING, in the input's month and year for the MODIFIED
conventions, never before 1900, and beyond 2199 only for FOLLOWING / SWEDEN / 31 Dec 2199. -/
theorem adjust_summary_domain (cal : Int) (hc : 2 ≤ cal ∧ cal ≤ 15) (conv : Int) (hcv : 2 ≤ conv ∧ conv ≤ 5)
    (dt r : PyDate) (hh : Held dt) (hy1 : 1901 ≤ dt.y) (hy2 : dt.y ≤ 2199) (h : Model.adjust cal conv dt = .ok r) :
    isBusinessDay cal r = some true ∧ r.serial - dt.serial ≤ 9 ∧ dt.serial - r.serial ≤ 9 ∧
      ((conv = 3 ∨ conv = 5) → r.m = dt.m ∧ r.y = dt.y) ∧ (conv = 2 → dt.serial ≤ r.serial) ∧
      (conv = 4 → r.serial ≤ dt.serial) ∧ 1900 ≤ r.y ∧
      (2200 ≤ r.y ↔ (conv = 2 ∧ cal = 11 ∧ dt.d = 31 ∧ dt.m = 12 ∧ dt.y = 2199)) := by
  have hnone : ¬ cal = 1 := by omega
  obtain ⟨c1, c2⟩ := hcv
  interval_cases conv
  · have hw : walk (isBusinessDay cal) addDays 1 adjustFuel dt = .ok r := by
      simpa [Model.adjust, Algo.adjust, hnone] using h
    obtain ⟨r', hw', hb, s1, s2, hyl, hiff⟩ := following_walk_domain cal (by omega) dt hh hy1 hy2
    rw [hw] at hw'; cases hw'
    refine ⟨hb, by omega, by omega, by omega, fun _ => s1, by omega, ?_, ?_⟩
    · omega
    · constructor
      · intro hge; exact ⟨rfl, hiff.mp hge⟩
      · rintro ⟨_, rest⟩; exact hiff.mpr rest
  · obtain ⟨a, b, c, d⟩ := modified_following_domain cal (by omega) dt r hh hy1 hy2 h
    have hdn : decide (cal = 1) = false := by simp [hnone]
    have h' := h
    rw [model_adjust_is_algo, hdn] at h'
    have hbd := adjust_result_is_business_day (isBusinessDay cal) addDays mkDate adjustFuel 3 dt r (by omega) h'
    exact ⟨hbd, c, d, fun _ => ⟨a, b⟩, by omega, by omega, by omega, ⟨fun _ => by omega, fun hx => by omega⟩⟩
  · have hw : walk (isBusinessDay cal) addDays (-1) adjustFuel dt = .ok r := by
      simpa [Model.adjust, Algo.adjust, hnone] using h
    obtain ⟨r', hw', hb, s1, s2, hy, hle⟩ := preceding_walk_domain cal (by omega) dt hh hy1 hy2
    rw [hw] at hw'; cases hw'
    exact ⟨hb, by omega, by omega, by omega, by omega, fun _ => s1, hy, ⟨fun _ => by omega, fun hx => by omega⟩⟩
  · obtain ⟨a, b, c, d⟩ := modified_preceding_domain cal (by omega) dt r hh hy1 hy2 h
    have hdn : decide (cal = 1) = false := by simp [hnone]
    have h' := h
    rw [model_adjust_is_algo, hdn] at h'
    have hbd := adjust_result_is_business_day (isBusinessDay cal) addDays mkDate adjustFuel 5 dt r (by omega) h'
    exact ⟨hbd, c, d, fun _ => ⟨a, b⟩, by omega, by omega, by omega, ⟨fun _ => by omega, fun hx => by omega⟩⟩

/-- Non-vacuity and the classifier's witness: SWEDEN, Tuesday 31 Dec 2199 is a held date of the domain, a holiday, and the
FOLLOWING walk of the model steps to 1 Jan 2200 (returns 2 Jan 2200); one day earlier, Monday 30 Dec 2199, is a
business day; TARGET from the same date stays (31 Dec is a TARGET business day). -/
example : Held (mkDate 31 12 2199) ∧ (mkDate 31 12 2199).wd = 1 ∧ isBusinessDay 11 (mkDate 31 12 2199) = some false ∧
    walkOut (Model.adjust 11 2 (mkDate 31 12 2199)) = (2, 1, 2200, 109576) ∧
    walkOut (Model.adjust 11 3 (mkDate 31 12 2199)) = (30, 12, 2199, 109573) ∧
    walkOut (Model.adjust 13 2 (mkDate 31 12 2199)) = (31, 12, 2199, 109574) ∧
    walkOut (Model.adjust 11 4 (mkDate 1 1 1901)) = (28, 12, 1900, 363) := by
  refine ⟨⟨rfl, ?_⟩, by decide +kernel, by decide +kernel, by decide +kernel, by decide +kernel, by decide +kernel,
    by decide +kernel⟩
  simp only [TableValid, mkDate]; decide

end FinVerif.Props.C14
