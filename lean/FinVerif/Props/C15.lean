/-
  C15 — day-count fractions: the function GENERATED from `DayCount.year_frac` equals the ISDA/ICMA
  specification, convention by convention, for ALL dates (no bound on years), and the consequences
  the property lists (zero on equal dates, additivity for ACT/fixed, ICMA regular period = 1/freq,
  error kind).
-/
import FinVerif.Gen.DayCount
import FinVerif.Spec.DayCount
import Mathlib.Tactic.Ring
import Mathlib.Tactic.Linarith
import Mathlib.Tactic.FieldSimp
import Mathlib.Tactic.Push
import Mathlib.Tactic.SplitIfs
import Mathlib.Tactic.NormNum
import Mathlib.Algebra.Order.Field.Basic

set_option linter.unusedSimpArgs false
set_option linter.unusedVariables false

namespace FinVerif.Props.C15
open FinVerif FinVerif.Gen.DayCount FinVerif.Spec

/-- The generated leap-year test is the Gregorian rule of the spec. -/
theorem is_leap_year_eq_gLeap (y : Int) : FinVerif.Gen.DateK.is_leap_year y = gLeap y := by
  simp only [FinVerif.Gen.DateK.is_leap_year, gLeap]
  rw [Bool.eq_iff_iff]
  simp

/-- The generated "last day of February" test is the spec's. -/
theorem is_last_day_of_feb_eq (dt : PyDate) :
    is_last_day_of_feb dt = isLastDayOfFeb dt.d dt.m dt.y := by
  simp only [is_last_day_of_feb, isLastDayOfFeb, monthLen, is_leap_year_eq_gLeap]
  by_cases hm : dt.m = 2 <;> by_cases hl : gLeap dt.y = true <;> simp [hm, hl]

/-- The fraction component of a result (0 for an error, which the theorems below rule out). -/
def fracOf (r : Except PyErr (Rat × Rat × Rat)) : Rat := match r with | .ok t => t.1 | .error _ => 0

variable (dt1 dt2 : PyDate) (dt3 : Option PyDate) (f : Int) (term : Bool)

/-- C15 30/360 Bond Basis = ISDA 2006 §4.16(f), for every pair of dates with day-of-month ≤ 31. -/
theorem year_frac_30_360_bond (h1 : dt1.d ≤ 31) :
    year_frac dt1 dt2 dt3 f term 1 =
      .ok (((num30_360Bond dt1.d dt1.m dt1.y dt2.d dt2.m dt2.y : Int) : Rat) / 360,
           ((num30_360Bond dt1.d dt1.m dt1.y dt2.d dt2.m dt2.y : Int) : Rat), 360) := by
  simp only [year_frac, num30_360Bond, thirty360]
  by_cases a : dt1.d = 31 <;> by_cases b : dt2.d = 31 <;> simp [a, b] <;>
    (try (by_cases c : dt1.d = 30 <;> simp [c] <;> (try omega)))

/-- C15 30E/360 = ISDA 2006 §4.16(g). -/
theorem year_frac_30E_360 :
    year_frac dt1 dt2 dt3 f term 2 =
      .ok (((num30E360 dt1.d dt1.m dt1.y dt2.d dt2.m dt2.y : Int) : Rat) / 360,
           ((num30E360 dt1.d dt1.m dt1.y dt2.d dt2.m dt2.y : Int) : Rat), 360) := by
  simp only [year_frac, num30E360, thirty360]
  by_cases a : dt1.d = 31 <;> by_cases b : dt2.d = 31 <;> simp [a, b]

/-- C15 30E/360 (ISDA) = ISDA 2006 §4.16(h), with its termination-date exception. -/
theorem year_frac_30E_360_ISDA :
    year_frac dt1 dt2 dt3 f term 3 =
      .ok (((num30E360ISDA dt1.d dt1.m dt1.y dt2.d dt2.m dt2.y term : Int) : Rat) / 360,
           ((num30E360ISDA dt1.d dt1.m dt1.y dt2.d dt2.m dt2.y term : Int) : Rat), 360) := by
  simp only [year_frac, num30E360ISDA, thirty360, is_last_day_of_feb_eq]
  by_cases a : dt1.d = 31 <;> by_cases b : dt2.d = 31 <;>
    by_cases c : isLastDayOfFeb dt1.d dt1.m dt1.y = true <;>
    by_cases e : isLastDayOfFeb dt2.d dt2.m dt2.y = true <;> cases term <;> simp [a, b, c, e]

/-- C15 30E+/360. -/
theorem year_frac_30E_plus_360 :
    year_frac dt1 dt2 dt3 f term 4 =
      .ok (((num30EPlus360 dt1.d dt1.m dt1.y dt2.d dt2.m dt2.y : Int) : Rat) / 360,
           ((num30EPlus360 dt1.d dt1.m dt1.y dt2.d dt2.m dt2.y : Int) : Rat), 360) := by
  simp only [year_frac, num30EPlus360, thirty360]
  by_cases a : dt1.d = 31 <;> by_cases b : dt2.d = 31 <;> simp [a, b]

/-- C15 ACT/365F: actual days over 365. -/
theorem year_frac_act_365F :
    year_frac dt1 dt2 dt3 f term 7 =
      .ok (((dt2.serial - dt1.serial : Int) : Rat) / 365, ((dt2.serial - dt1.serial : Int) : Rat), 365) := by
  simp [year_frac, pyIn]

/-- C15 ACT/360: actual days over 360. -/
theorem year_frac_act_360 :
    year_frac dt1 dt2 dt3 f term 8 =
      .ok (((dt2.serial - dt1.serial : Int) : Rat) / 360, ((dt2.serial - dt1.serial : Int) : Rat), 360) := by
  simp [year_frac, pyIn]

/-- C15 SIMPLE: actual days over `g_days_in_year` = 365. -/
theorem year_frac_simple :
    year_frac dt1 dt2 dt3 f term 10 =
      .ok (((dt2.serial - dt1.serial : Int) : Rat) / 365, ((dt2.serial - dt1.serial : Int) : Rat), 365) := by
  simp [year_frac, pyIn]

/-- C15 ACT/ACT ICMA = ICMA Rule 251: days over frequency × days in the coupon period; the
library's own error when the period end or a coupon frequency is missing. -/
theorem year_frac_act_act_icma (d3 : PyDate) (q : Rat)
    (hf : FinVerif.Model.annualFrequency f = some q) (hne : q * ((d3.serial - dt1.serial : Int) : Rat) ≠ 0) :
    year_frac dt1 dt2 (some d3) f term 6 =
      .ok (actActICMA dt1.serial dt2.serial d3.serial q, ((dt2.serial - dt1.serial : Int) : Rat),
           q * ((d3.serial - dt1.serial : Int) : Rat)) := by
  have h2 := mul_ne_zero_iff.mp hne
  push_cast at h2
  simp [year_frac, pyIn, hf, actActICMA, pyGetNum, pyGetDate, h2.1, h2.2]

theorem year_frac_act_act_icma_needs_period_end :
    year_frac dt1 dt2 none f term 6 = .error .finError := by
  simp [year_frac, pyIn]

/-- ACT/ACT ISDA inside one calendar year: days over that year's length. -/
theorem year_frac_act_act_isda_same_year (hy : dt1.y = dt2.y) :
    year_frac dt1 dt2 dt3 f term 5 =
      .ok (((dt2.serial - dt1.serial : Int) : Rat) / (yearLen dt1.y : Int),
           ((dt2.serial - dt1.serial : Int) : Rat), ((yearLen dt1.y : Int) : Rat)) := by
  simp only [year_frac, yearLen, is_leap_year_eq_gLeap, hy]
  by_cases hl : gLeap dt2.y = true <;> simp [hl, pyIn]

/-! ### Consequences listed by the property -/

/-- Zero for equal dates (ACT/fixed conventions and 30/360 conventions without the ISDA
end-of-February rule). -/
theorem zero_on_equal_dates (dcc : Int) (h : dcc = 1 ∨ dcc = 2 ∨ dcc = 4 ∨ dcc = 7 ∨ dcc = 8 ∨ dcc = 10)
    (h31 : dt1.d ≤ 31) (hplus : dcc = 4 → dt1.d ≠ 31) :
    fracOf (year_frac dt1 dt1 dt3 f term dcc) = 0 := by
  rcases h with h | h | h | h | h | h <;> subst h
  · rw [year_frac_30_360_bond _ _ _ _ _ h31]
    simp only [num30_360Bond, thirty360, fracOf]
    by_cases a : dt1.d = 31 <;> simp [a]
  · rw [year_frac_30E_360]; simp [num30E360, thirty360, fracOf]
  · rw [year_frac_30E_plus_360]
    simp only [num30EPlus360, thirty360, fracOf]
    have a : dt1.d ≠ 31 := hplus rfl
    simp [a]
  · rw [year_frac_act_365F]; simp [fracOf]
  · rw [year_frac_act_360]; simp [fracOf]
  · rw [year_frac_simple]; simp [fracOf]

/-- 30E+/360 on a 31st: the published rule itself ("D2 = 31 → the 1st of the next month", while
D1 = 31 → 30) makes the fraction of a date against itself 1/360, not 0.  The code follows the rule. -/
theorem thirty_E_plus_360_equal_31st (h : dt1.d = 31) :
    fracOf (year_frac dt1 dt1 dt3 f term 4) = 1 / 360 := by
  rw [year_frac_30E_plus_360]
  simp [num30EPlus360, thirty360, fracOf, h]

/-- ACT/ACT ISDA is zero for equal dates. -/
theorem zero_on_equal_dates_act_act :
    fracOf (year_frac dt1 dt1 dt3 f term 5) = 0 := by
  rw [year_frac_act_act_isda_same_year _ _ _ _ _ rfl]; simp [fracOf]

/-- 30E/360 ISDA is zero for equal dates unless the date is the last day of February flagged as the
termination date — there the published definition itself gives −2/360 (or −1/360 in a leap year). -/
theorem zero_on_equal_dates_30E_360_ISDA (h : ¬ (isLastDayOfFeb dt1.d dt1.m dt1.y = true ∧ term = true)) :
    fracOf (year_frac dt1 dt1 dt3 f term 3) = 0 := by
  rw [year_frac_30E_360_ISDA]
  simp only [num30E360ISDA, thirty360, fracOf]
  by_cases a : dt1.d = 31 <;> by_cases c : isLastDayOfFeb dt1.d dt1.m dt1.y = true <;> cases term <;>
    simp_all

/-- Additivity over adjacent periods for the ACT/fixed-denominator conventions. -/
theorem additive_act_fixed (a b c : PyDate) (dcc : Int) (h : dcc = 7 ∨ dcc = 8 ∨ dcc = 10) :
    fracOf (year_frac a b dt3 f term dcc) + fracOf (year_frac b c dt3 f term dcc)
      = fracOf (year_frac a c dt3 f term dcc) := by
  rcases h with h | h | h <;> subst h
  · simp only [year_frac_act_365F, fracOf]; push_cast; ring
  · simp only [year_frac_act_360, fracOf]; push_cast; ring
  · simp only [year_frac_simple, fracOf]; push_cast; ring

/-- The ACT/fixed fractions have the sign of (end − start). -/
theorem sign_act_fixed (a b : PyDate) (dcc : Int) (h : dcc = 7 ∨ dcc = 8 ∨ dcc = 10) :
    (0 < fracOf (year_frac a b dt3 f term dcc) ↔ a.serial < b.serial) ∧
    (fracOf (year_frac a b dt3 f term dcc) = 0 ↔ a.serial = b.serial) := by
  have key : ∀ c : Rat, 0 < c →
      ((0 < ((b.serial - a.serial : Int) : Rat) / c ↔ a.serial < b.serial) ∧
       (((b.serial - a.serial : Int) : Rat) / c = 0 ↔ a.serial = b.serial)) := by
    intro c hc
    constructor
    · rw [div_pos_iff_of_pos_right hc]
      constructor
      · intro h; have : (0 : Int) < b.serial - a.serial := by exact_mod_cast h
        omega
      · intro h; have : (0 : Int) < b.serial - a.serial := by omega
        exact_mod_cast this
    · rw [div_eq_zero_iff]
      constructor
      · rintro (h | h)
        · have : b.serial - a.serial = 0 := by exact_mod_cast h
          omega
        · exact absurd h (ne_of_gt hc)
      · intro h; left; have : b.serial - a.serial = 0 := by omega
        exact_mod_cast this
  rcases h with h | h | h <;> subst h
  · simpa only [year_frac_act_365F, fracOf] using key 365 (by norm_num)
  · simpa only [year_frac_act_360, fracOf] using key 360 (by norm_num)
  · simpa only [year_frac_simple, fracOf] using key 365 (by norm_num)

/-- A regular coupon period under ACT/ACT ICMA is exactly 1/frequency. -/
theorem icma_regular_period (d3 : PyDate) (q : Rat) (hf : FinVerif.Model.annualFrequency f = some q)
    (hq : q ≠ 0) (hd : d3.serial ≠ dt1.serial) :
    fracOf (year_frac dt1 d3 (some d3) f term 6) = 1 / q := by
  have hne : q * ((d3.serial - dt1.serial : Int) : Rat) ≠ 0 := by
    refine mul_ne_zero hq ?_
    have : d3.serial - dt1.serial ≠ 0 := by omega
    exact_mod_cast this
  rw [year_frac_act_act_icma _ _ _ _ d3 q hf hne]
  simp only [fracOf, actActICMA]
  have h2 : ((d3.serial - dt1.serial : Int) : Rat) ≠ 0 := by
    have : d3.serial - dt1.serial ≠ 0 := by omega
    exact_mod_cast this
  field_simp


/-! ### Error kind: a call fails only with the library's own error -/

theorem ok_act_365L : ∃ t, year_frac dt1 dt2 dt3 f term 9 = .ok t := by
  simp only [year_frac, pyIn]
  simp
  split_ifs <;> first | exact ⟨_, rfl⟩ | exact ⟨_, _, rfl⟩ | exact ⟨_, _, _, rfl⟩

theorem ok_act_act_isda (dcc : Int) (h : dcc = 5 ∨ dcc = 0) :
    ∃ t, year_frac dt1 dt2 dt3 f term dcc = .ok t := by
  rcases h with h | h <;> subst h <;> simp only [year_frac, pyIn] <;> simp <;> split_ifs <;>
    first | exact ⟨_, rfl⟩ | exact ⟨_, _, rfl⟩ | exact ⟨_, _, _, rfl⟩

theorem unknown_convention_is_finError (dcc : Int) (h : dcc < 0 ∨ dcc > 10) :
    year_frac dt1 dt2 dt3 f term dcc = .error .finError := by
  have h1 : dcc ≠ 1 := by omega
  have h2 : dcc ≠ 2 := by omega
  have h3 : dcc ≠ 3 := by omega
  have h4 : dcc ≠ 4 := by omega
  have h5 : dcc ≠ 5 := by omega
  have h0 : dcc ≠ 0 := by omega
  have h6 : dcc ≠ 6 := by omega
  have h7 : dcc ≠ 7 := by omega
  have h8 : dcc ≠ 8 := by omega
  have h9 : dcc ≠ 9 := by omega
  have h10 : dcc ≠ 10 := by omega
  simp [year_frac, pyIn, h1, h2, h3, h4, h5, h0, h6, h7, h8, h9, h10]

theorem icma_error_kind (e : PyErr) (h : year_frac dt1 dt2 dt3 f term 6 = .error e) :
    e = .finError ∨ e = .zeroDiv := by
  simp only [year_frac, pyIn] at h
  simp at h
  split_ifs at h <;> simp_all

/-- C15 error kind: whatever the dates, flags, frequency and convention code, `year_frac` (as the
source reads now) either returns a triple or fails with `FinError`; the only other failure is the
division by a zero-length coupon period under ACT/ACT ICMA (`dt3 = dt1`, not a valid call). In
particular no AttributeError / IndexError / TypeError is reachable. -/
theorem error_kind (dcc : Int) (e : PyErr) (h : year_frac dt1 dt2 dt3 f term dcc = .error e) :
    e = .finError ∨ (e = .zeroDiv ∧ dcc = 6) := by
  by_cases hr : dcc < 0 ∨ dcc > 10
  · rw [unknown_convention_is_finError _ _ _ _ _ _ hr] at h; injection h with h; exact Or.inl h.symm
  · have : dcc = 0 ∨ dcc = 1 ∨ dcc = 2 ∨ dcc = 3 ∨ dcc = 4 ∨ dcc = 5 ∨ dcc = 6 ∨ dcc = 7 ∨ dcc = 8 ∨
        dcc = 9 ∨ dcc = 10 := by omega
    rcases this with h' | h' | h' | h' | h' | h' | h' | h' | h' | h' | h' <;> subst h'
    · obtain ⟨t, ht⟩ := ok_act_act_isda dt1 dt2 dt3 f term 0 (Or.inr rfl); rw [ht] at h; cases h
    · by_cases h31 : dt1.d ≤ 31
      · rw [year_frac_30_360_bond _ _ _ _ _ h31] at h; cases h
      · exfalso
        simp only [year_frac] at h
        have a : dt1.d ≠ 31 := by omega
        simp [a] at h
    · rw [year_frac_30E_360] at h; cases h
    · rw [year_frac_30E_360_ISDA] at h; cases h
    · rw [year_frac_30E_plus_360] at h; cases h
    · obtain ⟨t, ht⟩ := ok_act_act_isda dt1 dt2 dt3 f term 5 (Or.inl rfl); rw [ht] at h; cases h
    · rcases icma_error_kind _ _ _ _ _ e h with h' | h'
      · exact Or.inl h'
      · exact Or.inr ⟨h', rfl⟩
    · rw [year_frac_act_365F] at h; cases h
    · rw [year_frac_act_360] at h; cases h
    · obtain ⟨t, ht⟩ := ok_act_365L dt1 dt2 dt3 f term; rw [ht] at h; cases h
    · rw [year_frac_simple] at h; cases h

/-- Non-vacuity: 30/360 bond basis from 31 Jan 2020 to 31 Mar 2020 is 60/360. -/
example : fracOf (year_frac (Model.mkDate 31 1 2020) (Model.mkDate 31 3 2020) none 1 false 1) = 60 / 360 := by
  rw [year_frac_30_360_bond _ _ _ _ _ (by decide)]; simp [fracOf, num30_360Bond, thirty360, Model.mkDate]

end FinVerif.Props.C15
