/-
  C15 (part b) — ACT/ACT ISDA over several calendar years: the closed form coded in `year_frac`
  (first-year stub + last-year stub + whole years) equals the per-calendar-year sum of the ISDA 2006
  definition, for any number of years, by induction-free list algebra over the year range.
-/
import FinVerif.Props.C15
import FinVerif.Props.C13
import Mathlib.Algebra.BigOperators.Group.List.Basic
import Mathlib.Tactic.Ring
import Mathlib.Tactic.FieldSimp
import Mathlib.Tactic.Linarith

set_option linter.unusedSimpArgs false
set_option linter.unusedVariables false
set_option linter.unusedTactic false
set_option linter.unreachableTactic false

namespace FinVerif.Props.C15
open FinVerif FinVerif.Gen.DayCount FinVerif.Spec

/-- 1 January serial -/
def J (y : Int) : Int := serial 1 1 y

theorem J_step (y : Int) : J (y + 1) = J y + yearLen y := by
  simp only [J, serial, daysFromCivil, yearLen]
  by_cases hl : gLeap y = true
  · have hl' := hl
    simp only [gLeap, Bool.or_eq_true, Bool.and_eq_true, beq_iff_eq, bne_iff_ne] at hl'
    simp [hl]; omega
  · have hl' := hl
    simp only [gLeap, Bool.or_eq_true, Bool.and_eq_true, beq_iff_eq, bne_iff_ne, not_or, not_and] at hl'
    simp [hl]; omega

theorem yearLen_pos (y : Int) : 0 < yearLen y := by simp only [yearLen]; split <;> omega

theorem J_mono_step (y : Int) (k : Nat) : J y ≤ J (y + k) := by
  induction k with
  | zero => simp
  | succ n ih =>
    have := J_step (y + n); have := yearLen_pos (y + n)
    push_cast; rw [← add_assoc]; omega

theorem sum_const_one (g : Nat → Rat) (m : Nat) (h : ∀ i, i < m → g i = 1) :
    ((List.range m).map g).sum = m := by
  induction m with
  | zero => simp
  | succ n ih =>
    rw [List.sum_range_succ, ih (fun i hi => h i (by omega)), h n (by omega)]
    push_cast; ring

/-- ACT/ACT ISDA as a per-calendar-year sum collapses to first stub + whole years + last stub. -/
theorem actActISDA_closed (s1 y1 s2 y2 : Int) (hy : y1 < y2)
    (h1 : J y1 ≤ s1 ∧ s1 < J (y1 + 1)) (h2 : J y2 ≤ s2 ∧ s2 < J (y2 + 1)) :
    actActISDA s1 y1 s2 y2 =
      ((J (y1 + 1) - s1 : Int) : Rat) / (yearLen y1 : Int) + ((s2 - J y2 : Int) : Rat) / (yearLen y2 : Int)
        + ((y2 - y1 - 1 : Int) : Rat) := by
  obtain ⟨n, hn⟩ : ∃ n : Nat, y2 = y1 + (n + 1 : Nat) := ⟨(y2 - y1 - 1).toNat, by omega⟩
  subst hn
  have e : (y1 + ((n + 1 : Nat) : Int) - y1).toNat = n + 1 := by omega
  simp only [actActISDA, e]
  rw [List.sum_range_succ, List.sum_range_succ']
  have hJ1 : J (y1 + 1) ≤ J (y1 + ((n + 1 : Nat) : Int)) := by
    have := J_mono_step (y1 + 1) n
    have e2 : y1 + 1 + (n : Int) = y1 + ((n + 1 : Nat) : Int) := by push_cast; ring
    rwa [e2] at this
  -- interior terms are 1
  have hint : ((List.range n).map (fun i : Nat =>
      ((daysInYearOverlap s1 s2 (y1 + ((i + 1 : Nat) : Int)) : Int) : Rat) / (yearLen (y1 + ((i + 1 : Nat) : Int)) : Int))).sum = n := by
    apply sum_const_one
    intro i hi
    have hlen := yearLen_pos (y1 + ((i + 1 : Nat) : Int))
    have hstep := J_step (y1 + ((i + 1 : Nat) : Int))
    have ha : J (y1 + 1) ≤ J (y1 + ((i + 1 : Nat) : Int)) := by
      have := J_mono_step (y1 + 1) i
      have e2 : y1 + 1 + (i : Int) = y1 + ((i + 1 : Nat) : Int) := by push_cast; ring
      rwa [e2] at this
    have hb : J (y1 + ((i + 1 : Nat) : Int) + 1) ≤ J (y1 + ((n + 1 : Nat) : Int)) := by
      have := J_mono_step (y1 + ((i + 1 : Nat) : Int) + 1) (n - 1 - i)
      have e2 : y1 + ((i + 1 : Nat) : Int) + 1 + ((n - 1 - i : Nat) : Int) = y1 + ((n + 1 : Nat) : Int) := by
        push_cast; omega
      rwa [e2] at this
    have hov : daysInYearOverlap s1 s2 (y1 + ((i + 1 : Nat) : Int)) = yearLen (y1 + ((i + 1 : Nat) : Int)) := by
      simp only [daysInYearOverlap]
      have : serial 1 1 (y1 + ((i + 1 : Nat) : Int) + 1) = J (y1 + ((i + 1 : Nat) : Int) + 1) := rfl
      have : serial 1 1 (y1 + ((i + 1 : Nat) : Int)) = J (y1 + ((i + 1 : Nat) : Int)) := rfl
      omega
    rw [hov]
    have : ((yearLen (y1 + ((i + 1 : Nat) : Int)) : Int) : Rat) ≠ 0 := by
      have : yearLen (y1 + ((i + 1 : Nat) : Int)) ≠ 0 := by omega
      exact_mod_cast this
    field_simp
  simp only [Nat.cast_succ, Nat.cast_zero, add_zero] at hint ⊢
  -- first and last
  have hfirst : daysInYearOverlap s1 s2 (y1 + ((0 : Nat) : Int)) = J (y1 + 1) - s1 := by
    simp only [daysInYearOverlap, Nat.cast_zero, add_zero]
    have : serial 1 1 (y1 + 1) = J (y1 + 1) := rfl
    have : serial 1 1 y1 = J y1 := rfl
    omega
  have hlast : daysInYearOverlap s1 s2 (y1 + ((n + 1 : Nat) : Int)) = s2 - J (y1 + ((n + 1 : Nat) : Int)) := by
    simp only [daysInYearOverlap]
    have : serial 1 1 (y1 + ((n + 1 : Nat) : Int) + 1) = J (y1 + ((n + 1 : Nat) : Int) + 1) := rfl
    have : serial 1 1 (y1 + ((n + 1 : Nat) : Int)) = J (y1 + ((n + 1 : Nat) : Int)) := rfl
    omega
  simp only [Nat.cast_succ, Nat.cast_zero, add_zero] at hfirst hlast
  rw [hint, hfirst, hlast]
  have : ((y1 + ((n : Int) + 1) - y1 - 1 : Int) : Rat) = (n : Rat) := by push_cast; ring
  rw [this]; ring

set_option maxHeartbeats 1000000 in
theorem serial_in_year (d m y : Int) (hv : Valid d m y) : J y ≤ serial d m y ∧ serial d m y < J (y + 1) := by
  obtain ⟨h1, h2, h3, h4⟩ := hv
  simp only [J, serial, daysFromCivil]
  by_cases hl : gLeap y = true
  · have hl' := hl
    simp only [gLeap, Bool.or_eq_true, Bool.and_eq_true, beq_iff_eq, bne_iff_ne] at hl'
    interval_cases m <;> simp [monthLen, hl] at h4 ⊢ <;> omega
  · have hl' := hl
    simp only [gLeap, Bool.or_eq_true, Bool.and_eq_true, beq_iff_eq, bne_iff_ne, not_or, not_and] at hl'
    interval_cases m <;> simp [monthLen, hl] at h4 ⊢ <;> omega

/-- C15 ACT/ACT ISDA across calendar years (ISDA 2006 §4.16(b)): the fraction computed by the GENERATED
`year_frac` — first-year stub + last-year stub + whole years in between — equals the per-calendar-year sum
Σ_y (days of the period in year y) / (days in year y), for any number of years (start year ≥ 1901). -/
theorem year_frac_act_act_isda_multi_year (dt1 dt2 : PyDate) (dt3 : Option PyDate) (f : Int) (term : Bool)
    (hy : dt1.y < dt2.y) (h1901 : 1901 ≤ dt1.y)
    (hv1 : Valid dt1.d dt1.m dt1.y) (hs1 : dt1.serial = serial dt1.d dt1.m dt1.y)
    (hv2 : Valid dt2.d dt2.m dt2.y) (hs2 : dt2.serial = serial dt2.d dt2.m dt2.y) :
    fracOf (year_frac dt1 dt2 dt3 f term 5) = actActISDA dt1.serial dt1.y dt2.serial dt2.y := by
  have hne : dt1.y ≠ dt2.y := by omega
  have hin1 := serial_in_year _ _ _ hv1
  have hin2 := serial_in_year _ _ _ hv2
  rw [← hs1] at hin1; rw [← hs2] at hin2
  rw [actActISDA_closed _ _ _ _ hy hin1 hin2]
  have e1 : (Model.mkDate 1 1 (dt1.y + 1)).serial = J (dt1.y + 1) := by
    simp only [Model.mkDate, J]
    exact FinVerif.Props.C13.excelSerial_eq_spec 1 1 (dt1.y + 1) ⟨by omega, by omega⟩ (by omega)
  have e2 : (Model.mkDate 1 1 dt2.y).serial = J dt2.y := by
    simp only [Model.mkDate, J]
    exact FinVerif.Props.C13.excelSerial_eq_spec 1 1 dt2.y ⟨by omega, by omega⟩ (by omega)
  simp only [year_frac, pyIn, is_leap_year_eq_gLeap, datediff, e1, e2]
  by_cases a : gLeap dt1.y = true <;> by_cases b : gLeap dt2.y = true <;>
    simp [hne, fracOf, yearLen, a, b]

/-- closed form of the generated ACT/ACT ISDA branch for dates in different years (either order) -/
theorem year_frac_act_act_isda_diff_year_shape (dt1 dt2 : PyDate) (dt3 : Option PyDate) (f : Int) (term : Bool)
    (hne : dt1.y ≠ dt2.y) (h1 : 1901 ≤ dt1.y) (h2 : 1901 ≤ dt2.y) :
    fracOf (year_frac dt1 dt2 dt3 f term 5) =
      ((J (dt1.y + 1) - dt1.serial : Int) : Rat) / (yearLen dt1.y : Int)
        + ((dt2.serial - J dt2.y : Int) : Rat) / (yearLen dt2.y : Int) + ((dt2.y - dt1.y - 1 : Int) : Rat) := by
  have e1 : (Model.mkDate 1 1 (dt1.y + 1)).serial = J (dt1.y + 1) := by
    simp only [Model.mkDate, J]
    exact FinVerif.Props.C13.excelSerial_eq_spec 1 1 (dt1.y + 1) ⟨by omega, by omega⟩ (by omega)
  have e2 : (Model.mkDate 1 1 dt2.y).serial = J dt2.y := by
    simp only [Model.mkDate, J]
    exact FinVerif.Props.C13.excelSerial_eq_spec 1 1 dt2.y ⟨by omega, by omega⟩ (by omega)
  simp only [year_frac, pyIn, is_leap_year_eq_gLeap, datediff, e1, e2]
  by_cases a : gLeap dt1.y = true <;> by_cases b : gLeap dt2.y = true <;>
    simp [hne, fracOf, yearLen, a, b]

/-- C15 sign / antisymmetry of ACT/ACT ISDA across calendar years: swapping the two dates negates the
fraction exactly (so the fraction has the sign of end − start), for dates in different years ≥ 1901. -/
theorem act_act_isda_antisymmetric (a b : PyDate) (dt3 : Option PyDate) (f : Int) (term : Bool)
    (hne : a.y ≠ b.y) (ha : 1901 ≤ a.y) (hb : 1901 ≤ b.y) :
    fracOf (year_frac b a dt3 f term 5) = - fracOf (year_frac a b dt3 f term 5) := by
  rw [year_frac_act_act_isda_diff_year_shape a b dt3 f term hne ha hb,
      year_frac_act_act_isda_diff_year_shape b a dt3 f term (Ne.symm hne) hb ha]
  have sa := J_step a.y
  have sb := J_step b.y
  have la : ((yearLen a.y : Int) : Rat) ≠ 0 := by
    have := yearLen_pos a.y; have : yearLen a.y ≠ 0 := by omega
    exact_mod_cast this
  have lb : ((yearLen b.y : Int) : Rat) ≠ 0 := by
    have := yearLen_pos b.y; have : yearLen b.y ≠ 0 := by omega
    exact_mod_cast this
  rw [sa, sb]
  push_cast
  field_simp
  ring

end FinVerif.Props.C15
