/-
  C15 — ACT/365L: the function GENERATED from `DayCount.year_frac` equals the specification for every pair of
  dates from 1900 on, with or without the period-end date, every frequency.

  The code looks for "the" 29 February in the start year, else in the period-end year, else uses the sentinel
  `Date(1, 1, 1900)` (serial 1), which can never lie after a start date; the spec (`den365L`) says: annual
  coupons → 366 iff such a 29 February lies in (start, period end]; otherwise 366 iff the period end is in a leap
  year.
-/
import FinVerif.Props.C15
import FinVerif.Props.C13

set_option linter.unusedSimpArgs false
set_option linter.unusedVariables false

namespace FinVerif.Props.C15
open FinVerif FinVerif.Gen.DayCount FinVerif.Spec

theorem gLeap_ge_1901 (y : Int) (hy : 1900 ≤ y) (hl : gLeap y = true) : 1901 ≤ y := by
  by_contra hc
  have : y = 1900 := by omega
  subst this
  revert hl; decide

theorem feb29_serial (y : Int) (hy : 1900 ≤ y) (hl : gLeap y = true) :
    (FinVerif.Model.mkDate 29 2 y).serial = serial 29 2 y := by
  simp only [FinVerif.Model.mkDate]
  exact FinVerif.Props.C13.excelSerial_eq_spec 29 2 y ⟨by omega, by omega⟩ (gLeap_ge_1901 y hy hl)

theorem sentinel_serial : (FinVerif.Model.mkDate 1 1 1900).serial = 1 := by decide +kernel

theorem annualFrequency_eq (f : Int) : FinVerif.Model.annualFrequency f = annualFreq f := by
  simp only [FinVerif.Model.annualFrequency, annualFreq]
  split_ifs <;> first | rfl | omega

/-- C15 ACT/365L = its published rule, for all dates from 1900 on (`dt3 = none`: the period is `[dt1, dt2]`). -/
theorem year_frac_act_365L (dt1 dt2 : PyDate) (dt3 : Option PyDate) (f : Int) (term : Bool)
    (h1 : 1900 ≤ dt1.y) (h3 : 1900 ≤ (dt3.getD dt2).y) (hs : 1 ≤ dt1.serial) :
    year_frac dt1 dt2 dt3 f term 9 = specYearFrac 9 dt1 dt2 dt3 f term := by
  have e1 := fun hl => feb29_serial dt1.y h1 hl
  have e3 := fun hl => feb29_serial (dt3.getD dt2).y h3 hl
  cases dt3 with
  | none =>
    simp only [Option.getD_none] at h3 e3
    simp only [year_frac, specYearFrac, den365L, pyIn, annualFrequency_eq, is_leap_year_eq_gLeap]
    simp
    by_cases hl1 : gLeap dt1.y = true
    · simp [hl1, e1 hl1]
      split_ifs <;> simp_all
    · by_cases hl3 : gLeap dt2.y = true
      · simp [hl1, hl3, e3 hl3]
        split_ifs <;> simp_all
      · simp [hl1, hl3, sentinel_serial]
        split_ifs <;> simp_all <;> omega
  | some d3 =>
    simp only [Option.getD_some] at h3 e3
    simp only [year_frac, specYearFrac, den365L, pyIn, annualFrequency_eq, is_leap_year_eq_gLeap, pyGetDate]
    simp
    by_cases hl1 : gLeap dt1.y = true
    · simp [hl1, e1 hl1]
      split_ifs <;> simp_all
    · by_cases hl3 : gLeap d3.y = true
      · simp [hl1, hl3, e3 hl3]
        split_ifs <;> simp_all
      · simp [hl1, hl3, sentinel_serial]
        split_ifs <;> simp_all <;> omega

end FinVerif.Props.C15
