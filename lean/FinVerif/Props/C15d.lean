/-
  C15 — sign and bounds, for all dates:

  * ACT/ACT ISDA across calendar years is strictly positive when the start is before the end
    (`act_act_isda_pos_diff_year`), so with `act_act_isda_antisymmetric` the fraction has the sign of end − start;
    same-year: `act_act_isda_sign_same_year`;
  * ACT/ACT ICMA inside a coupon period lies in [0, 1/f] and is strictly below one coupon before the period end
    (`icma_fraction_bounds`, `icma_fraction_lt_period`), and is monotone in the settlement date;
  * ACT/365L has the sign of end − start and |fraction| ≤ days/365 (`act_365L_sign_and_bound`).
-/
import FinVerif.Props.C15b
import FinVerif.Props.C15c

set_option linter.unusedSimpArgs false
set_option linter.unusedVariables false

namespace FinVerif.Props.C15
open FinVerif FinVerif.Gen.DayCount FinVerif.Spec

/-- C15 sign (ACT/ACT ISDA, different years): start before end ⇒ fraction > 0, and at least the number of whole
calendar years in between. -/
theorem act_act_isda_pos_diff_year (a b : PyDate) (dt3 : Option PyDate) (f : Int) (term : Bool)
    (hy : a.y < b.y) (ha : 1901 ≤ a.y)
    (hva : J a.y ≤ a.serial ∧ a.serial < J (a.y + 1)) (hvb : J b.y ≤ b.serial ∧ b.serial < J (b.y + 1)) :
    0 < fracOf (year_frac a b dt3 f term 5) ∧
      ((b.y - a.y - 1 : Int) : Rat) < fracOf (year_frac a b dt3 f term 5) := by
  rw [year_frac_act_act_isda_diff_year_shape a b dt3 f term (by omega) ha (by omega)]
  have la : (0 : Rat) < ((yearLen a.y : Int) : Rat) := by exact_mod_cast yearLen_pos a.y
  have lb : (0 : Rat) < ((yearLen b.y : Int) : Rat) := by exact_mod_cast yearLen_pos b.y
  have n1 : (0 : Rat) < ((J (a.y + 1) - a.serial : Int) : Rat) := by exact_mod_cast (by omega : (0 : Int) < J (a.y + 1) - a.serial)
  have n2 : (0 : Rat) ≤ ((b.serial - J b.y : Int) : Rat) := by exact_mod_cast (by omega : (0 : Int) ≤ b.serial - J b.y)
  have t1 : (0 : Rat) < ((J (a.y + 1) - a.serial : Int) : Rat) / ((yearLen a.y : Int) : Rat) := div_pos n1 la
  have t2 : (0 : Rat) ≤ ((b.serial - J b.y : Int) : Rat) / ((yearLen b.y : Int) : Rat) := div_nonneg n2 lb.le
  have t3 : (0 : Rat) ≤ ((b.y - a.y - 1 : Int) : Rat) := by exact_mod_cast (by omega : (0 : Int) ≤ b.y - a.y - 1)
  constructor <;> linarith

/-- C15 sign (ACT/ACT ISDA, same year): the fraction is (end − start)/days-in-year, so it has the sign of end − start
and is zero exactly for equal serials. -/
theorem act_act_isda_sign_same_year (a b : PyDate) (dt3 : Option PyDate) (f : Int) (term : Bool)
    (hy : a.y = b.y) :
    (0 < fracOf (year_frac a b dt3 f term 5) ↔ a.serial < b.serial) ∧
    (fracOf (year_frac a b dt3 f term 5) = 0 ↔ a.serial = b.serial) := by
  have hl : (0 : Rat) < ((yearLen a.y : Int) : Rat) := by exact_mod_cast yearLen_pos a.y
  have key : fracOf (year_frac a b dt3 f term 5) = ((b.serial - a.serial : Int) : Rat) / ((yearLen a.y : Int) : Rat) := by
    rw [year_frac_act_act_isda_same_year a b dt3 f term hy]
    rfl
  rw [key]
  constructor
  · rw [div_pos_iff_of_pos_right hl]
    constructor
    · intro h; have : (0 : Int) < b.serial - a.serial := by exact_mod_cast h
      omega
    · intro h; exact_mod_cast (by omega : (0 : Int) < b.serial - a.serial)
  · rw [div_eq_zero_iff]
    constructor
    · rintro (h | h)
      · have : b.serial - a.serial = 0 := by exact_mod_cast h
        omega
      · exact absurd h hl.ne'
    · intro h; left; exact_mod_cast (by omega : b.serial - a.serial = 0)

/-- C15 ACT/ACT ICMA inside a coupon period: for start ≤ settlement ≤ period end (period of positive length) and a
positive frequency the accrued fraction lies in [0, 1/f]. -/
theorem icma_fraction_bounds (dt1 dt2 d3 : PyDate) (f : Int) (term : Bool) (q : Rat)
    (hf : FinVerif.Model.annualFrequency f = some q) (hq : 0 < q)
    (h12 : dt1.serial ≤ dt2.serial) (h23 : dt2.serial ≤ d3.serial) (h13 : dt1.serial < d3.serial) :
    0 ≤ fracOf (year_frac dt1 dt2 (some d3) f term 6) ∧ fracOf (year_frac dt1 dt2 (some d3) f term 6) ≤ 1 / q := by
  have hp : (0 : Rat) < ((d3.serial - dt1.serial : Int) : Rat) := by exact_mod_cast (by omega : (0 : Int) < d3.serial - dt1.serial)
  have hne : q * ((d3.serial - dt1.serial : Int) : Rat) ≠ 0 := (mul_pos hq hp).ne'
  rw [year_frac_act_act_icma _ _ _ _ d3 q hf hne]
  simp only [fracOf, actActICMA]
  have hn : (0 : Rat) ≤ ((dt2.serial - dt1.serial : Int) : Rat) := by exact_mod_cast (by omega : (0 : Int) ≤ dt2.serial - dt1.serial)
  have hle : ((dt2.serial - dt1.serial : Int) : Rat) ≤ ((d3.serial - dt1.serial : Int) : Rat) := by
    exact_mod_cast (by omega : dt2.serial - dt1.serial ≤ d3.serial - dt1.serial)
  constructor
  · exact div_nonneg hn (mul_pos hq hp).le
  · rw [div_le_div_iff₀ (mul_pos hq hp) hq]
    nlinarith

/-- … strictly below one coupon (1/f) before the period end — the accrued of a bond under ACT/ACT ICMA is strictly
less than one coupon. -/
theorem icma_fraction_lt_period (dt1 dt2 d3 : PyDate) (f : Int) (term : Bool) (q : Rat)
    (hf : FinVerif.Model.annualFrequency f = some q) (hq : 0 < q)
    (h12 : dt1.serial ≤ dt2.serial) (h23 : dt2.serial < d3.serial) :
    fracOf (year_frac dt1 dt2 (some d3) f term 6) < 1 / q := by
  have hp : (0 : Rat) < ((d3.serial - dt1.serial : Int) : Rat) := by exact_mod_cast (by omega : (0 : Int) < d3.serial - dt1.serial)
  have hne : q * ((d3.serial - dt1.serial : Int) : Rat) ≠ 0 := (mul_pos hq hp).ne'
  rw [year_frac_act_act_icma _ _ _ _ d3 q hf hne]
  simp only [fracOf, actActICMA]
  have hlt : ((dt2.serial - dt1.serial : Int) : Rat) < ((d3.serial - dt1.serial : Int) : Rat) := by
    exact_mod_cast (by omega : dt2.serial - dt1.serial < d3.serial - dt1.serial)
  rw [div_lt_div_iff₀ (mul_pos hq hp) hq]
  nlinarith

/-- … and monotone in the settlement date within a period. -/
theorem icma_fraction_mono (dt1 s s' d3 : PyDate) (f : Int) (term : Bool) (q : Rat)
    (hf : FinVerif.Model.annualFrequency f = some q) (hq : 0 < q) (h13 : dt1.serial < d3.serial)
    (hs : s.serial ≤ s'.serial) :
    fracOf (year_frac dt1 s (some d3) f term 6) ≤ fracOf (year_frac dt1 s' (some d3) f term 6) := by
  have hp : (0 : Rat) < ((d3.serial - dt1.serial : Int) : Rat) := by exact_mod_cast (by omega : (0 : Int) < d3.serial - dt1.serial)
  have hne : q * ((d3.serial - dt1.serial : Int) : Rat) ≠ 0 := (mul_pos hq hp).ne'
  rw [year_frac_act_act_icma _ _ _ _ d3 q hf hne, year_frac_act_act_icma _ _ _ _ d3 q hf hne]
  simp only [fracOf, actActICMA]
  have hle : ((s.serial - dt1.serial : Int) : Rat) ≤ ((s'.serial - dt1.serial : Int) : Rat) := by
    exact_mod_cast (by omega : s.serial - dt1.serial ≤ s'.serial - dt1.serial)
  exact div_le_div_of_nonneg_right hle (mul_pos hq hp).le

/-- C15 ACT/365L: the denominator is 365 or 366, so the fraction has the sign of end − start and is bounded by days/365. -/
theorem act_365L_sign_and_bound (dt1 dt2 : PyDate) (dt3 : Option PyDate) (f : Int) (term : Bool)
    (h1 : 1900 ≤ dt1.y) (h3 : 1900 ≤ (dt3.getD dt2).y) (hs : 1 ≤ dt1.serial) :
    (0 < fracOf (year_frac dt1 dt2 dt3 f term 9) ↔ dt1.serial < dt2.serial) ∧
    |fracOf (year_frac dt1 dt2 dt3 f term 9)| ≤ |((dt2.serial - dt1.serial : Int) : Rat)| / 365 := by
  rw [year_frac_act_365L dt1 dt2 dt3 f term h1 h3 hs]
  simp only [specYearFrac, fracOf]
  norm_num
  generalize hden : den365L dt1.serial dt1.y (dt3.getD dt2).serial (dt3.getD dt2).y (annualFreq f) = den
  have hd : den = 365 ∨ den = 366 := by
    rw [← hden]; simp only [den365L]; split_ifs <;> (try split) <;> (try split_ifs) <;> simp
  have hdp : (0 : Rat) < (den : Rat) := by rcases hd with h | h <;> rw [h] <;> norm_num
  constructor
  · rw [div_pos_iff_of_pos_right hdp]
    constructor
    · intro h; have : (0 : Int) < dt2.serial - dt1.serial := by exact_mod_cast h
      omega
    · intro h; exact_mod_cast (by omega : (0 : Int) < dt2.serial - dt1.serial)
  · rw [abs_div, abs_of_pos hdp]
    apply div_le_div_of_nonneg_left (abs_nonneg _) (by norm_num)
    rcases hd with h | h <;> rw [h] <;> norm_num

end FinVerif.Props.C15
