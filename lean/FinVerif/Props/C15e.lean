/-
  C15 (part e) — the 30/360 family (30/360 Bond, 30E/360, 30E/360 ISDA, 30E+/360) as the GENERATED
  `year_frac` computes it:

  * the numerator is within one month of 30 × (month difference): `thirty360_month_bounds` (sharp ±29 for
    30E/360 and 30E/360 ISDA);
  * sign: at least one calendar month forward ⇒ fraction > 0 (`thirty360_pos_of_month_lt`); backward ⇒ ≤ 0
    (< 0 for the two "E" conventions);  a positive period NEVER gets a negative 30/360 fraction, and it gets a
    ZERO fraction exactly in the corner 30th → 31st of one month (not under 30E+/360)
    (`thirty360_forward_zero_iff`); a reversed period gets 0 exactly in the corners 31st → 30th of one month and
    1st → 31st of the previous month (Bond and 30E+ only) (`thirty360_backward_zero_iff`).  These corners qualify
    the property's clause "the fraction has the sign of (end − start)" and are consequences of the published
    rules, not defects;
  * the same statements with "positive period" read as `start.serial < end.serial`
    (`thirty360_nonneg_of_serial_lt`), through the strict monotonicity of the serial number in (y, m, d);
  * the termination-date exception of 30E/360 ISDA, both halves explicit
    (`isda_termination_skips_feb_end`, `isda_termination_keeps_31st`, `isda_flag_effect`);
  * additivity over adjacent periods: 30E/360 always, 30E/360 ISDA with the flag only on the last period,
    30E+/360 iff the middle date is not a 31st, 30/360 Bond fails in general (kernel-checked counterexample)
    and holds under the explicit hypothesis (`bond_additive_partial`, with the exact defect `bond_additivity_defect`).
-/
import FinVerif.Props.C15
import FinVerif.Props.C15b

set_option linter.unusedSimpArgs false
set_option linter.unusedVariables false
set_option linter.unusedTactic false
set_option linter.unreachableTactic false

namespace FinVerif.Props.C15
open FinVerif FinVerif.Gen.DayCount FinVerif.Spec

/-- numerator / denominator components of a result (0 for an error) -/
def numOf (r : Except PyErr (Rat × Rat × Rat)) : Rat := match r with | .ok t => t.2.1 | .error _ => 0
def denOf (r : Except PyErr (Rat × Rat × Rat)) : Rat := match r with | .ok t => t.2.2 | .error _ => 0

/-- Month index of a date: consecutive calendar months have consecutive indices (for 1 ≤ m ≤ 12). -/
def monthIdx (dt : PyDate) : Int := 12 * dt.y + dt.m

/-- The published integer numerator of the 30/360 convention with code `dcc ∈ {1,2,3,4}`. -/
def num360 (dcc : Int) (a b : PyDate) (term : Bool) : Int :=
  if dcc = 1 then num30_360Bond a.d a.m a.y b.d b.m b.y
  else if dcc = 2 then num30E360 a.d a.m a.y b.d b.m b.y
  else if dcc = 3 then num30E360ISDA a.d a.m a.y b.d b.m b.y term
  else num30EPlus360 a.d a.m a.y b.d b.m b.y

/-- The 30/360 family of the GENERATED `year_frac` in one statement: `(num/360, num, 360)`. -/
theorem year_frac_360_family (a b : PyDate) (dt3 : Option PyDate) (f : Int) (term : Bool) (dcc : Int)
    (h : dcc = 1 ∨ dcc = 2 ∨ dcc = 3 ∨ dcc = 4) (h31 : a.d ≤ 31) :
    year_frac a b dt3 f term dcc =
      .ok (((num360 dcc a b term : Int) : Rat) / 360, ((num360 dcc a b term : Int) : Rat), 360) := by
  rcases h with h | h | h | h <;> subst h
  · rw [year_frac_30_360_bond _ _ _ _ _ h31]; simp [num360]
  · rw [year_frac_30E_360]; simp [num360]
  · rw [year_frac_30E_360_ISDA]; simp [num360]
  · rw [year_frac_30E_plus_360]; simp [num360]

theorem frac_360_family (a b : PyDate) (dt3 : Option PyDate) (f : Int) (term : Bool) (dcc : Int)
    (h : dcc = 1 ∨ dcc = 2 ∨ dcc = 3 ∨ dcc = 4) (h31 : a.d ≤ 31) :
    fracOf (year_frac a b dt3 f term dcc) = ((num360 dcc a b term : Int) : Rat) / 360 := by
  rw [year_frac_360_family a b dt3 f term dcc h h31]; rfl

theorem div360_pos_iff (n : Int) : 0 < ((n : Int) : Rat) / 360 ↔ 0 < n := by
  rw [div_pos_iff_of_pos_right (by norm_num : (0 : Rat) < 360)]; exact_mod_cast Iff.rfl

theorem div360_neg_iff (n : Int) : ((n : Int) : Rat) / 360 < 0 ↔ n < 0 := by
  rw [div_neg_iff]
  constructor
  · rintro (⟨_, h⟩ | ⟨h, _⟩)
    · norm_num at h
    · exact_mod_cast h
  · intro h; right; exact ⟨by exact_mod_cast h, by norm_num⟩

theorem div360_eq_zero_iff (n : Int) : ((n : Int) : Rat) / 360 = 0 ↔ n = 0 := by
  rw [div_eq_zero_iff]
  constructor
  · rintro (h | h)
    · exact_mod_cast h
    · norm_num at h
  · intro h; left; exact_mod_cast h

/-- unfold the four published numerators down to linear integer arithmetic -/
macro "unfold360" : tactic =>
  `(tactic| simp only [num360, num30_360Bond, num30E360, num30E360ISDA, num30EPlus360, thirty360,
      isLastDayOfFeb, monthLen, monthIdx, Bool.and_eq_true, decide_eq_true_eq, Int.reduceEq, if_true, if_false,
      ite_true, ite_false, reduceIte])

/-! ### Numerator vs. month difference -/

/-- The 30/360 numerator is 30 × (month difference) plus a day term in [−29, 30]: all four conventions, all
dates with days of month in 1..31. -/
theorem thirty360_month_bounds_int (a b : PyDate) (term : Bool) (dcc : Int)
    (h : dcc = 1 ∨ dcc = 2 ∨ dcc = 3 ∨ dcc = 4)
    (ha : 1 ≤ a.d ∧ a.d ≤ 31) (hb : 1 ≤ b.d ∧ b.d ≤ 31) :
    -29 ≤ num360 dcc a b term - 30 * (monthIdx b - monthIdx a) ∧
      num360 dcc a b term - 30 * (monthIdx b - monthIdx a) ≤ 30 := by
  rcases h with h | h | h | h <;> subst h <;> unfold360 <;> split_ifs <;> omega

/-- … and within ±29 for 30E/360 and 30E/360 ISDA (both day numbers are brought into 1..30). -/
theorem thirty360_E_month_bounds_int (a b : PyDate) (term : Bool) (dcc : Int) (h : dcc = 2 ∨ dcc = 3)
    (ha : 1 ≤ a.d ∧ a.d ≤ 31) (hb : 1 ≤ b.d ∧ b.d ≤ 31) :
    -29 ≤ num360 dcc a b term - 30 * (monthIdx b - monthIdx a) ∧
      num360 dcc a b term - 30 * (monthIdx b - monthIdx a) ≤ 29 := by
  rcases h with h | h <;> subst h <;> unfold360 <;> split_ifs <;> omega

/-- C15 (30/360 family): the fraction of the GENERATED `year_frac` differs from (month difference)/12 by at most
one month: −29/360 ≤ fraction − Δmonths/12 ≤ 30/360. -/
theorem thirty360_month_bounds (a b : PyDate) (dt3 : Option PyDate) (f : Int) (term : Bool) (dcc : Int)
    (h : dcc = 1 ∨ dcc = 2 ∨ dcc = 3 ∨ dcc = 4)
    (ha : 1 ≤ a.d ∧ a.d ≤ 31) (hb : 1 ≤ b.d ∧ b.d ≤ 31) :
    -(29 : Rat) / 360 ≤ fracOf (year_frac a b dt3 f term dcc) - ((monthIdx b - monthIdx a : Int) : Rat) / 12 ∧
      fracOf (year_frac a b dt3 f term dcc) - ((monthIdx b - monthIdx a : Int) : Rat) / 12 ≤ 30 / 360 := by
  rw [frac_360_family a b dt3 f term dcc h ha.2]
  obtain ⟨l, u⟩ := thirty360_month_bounds_int a b term dcc h ha hb
  have l' : ((-29 : Int) : Rat) ≤ ((num360 dcc a b term - 30 * (monthIdx b - monthIdx a) : Int) : Rat) := by
    exact_mod_cast l
  have u' : ((num360 dcc a b term - 30 * (monthIdx b - monthIdx a) : Int) : Rat) ≤ ((30 : Int) : Rat) := by
    exact_mod_cast u
  push_cast at l' u' ⊢
  constructor <;> linarith

/-! ### Sign -/

/-- C15 sign, 30/360 family: an end date in a LATER calendar month than the start date gives a strictly positive
fraction (numerator ≥ 1), under all four conventions and both values of the termination flag. -/
theorem thirty360_pos_of_month_lt (a b : PyDate) (dt3 : Option PyDate) (f : Int) (term : Bool) (dcc : Int)
    (h : dcc = 1 ∨ dcc = 2 ∨ dcc = 3 ∨ dcc = 4)
    (ha : 1 ≤ a.d ∧ a.d ≤ 31) (hb : 1 ≤ b.d ∧ b.d ≤ 31) (hm : monthIdx a < monthIdx b) :
    0 < fracOf (year_frac a b dt3 f term dcc) ∧ 1 ≤ numOf (year_frac a b dt3 f term dcc) := by
  obtain ⟨l, _⟩ := thirty360_month_bounds_int a b term dcc h ha hb
  have hn : 1 ≤ num360 dcc a b term := by omega
  rw [year_frac_360_family a b dt3 f term dcc h ha.2]
  simp only [fracOf, numOf]
  exact ⟨(div360_pos_iff _).2 (by omega), by exact_mod_cast hn⟩

/-- C15 sign, 30/360 family, reversed by at least a calendar month: the fraction is ≤ 0 under all four
conventions, and strictly negative under 30E/360 and 30E/360 ISDA.  (Under Bond and 30E+ it can be exactly 0:
`thirty360_backward_zero_iff`.) -/
theorem thirty360_nonpos_of_month_gt (a b : PyDate) (dt3 : Option PyDate) (f : Int) (term : Bool) (dcc : Int)
    (h : dcc = 1 ∨ dcc = 2 ∨ dcc = 3 ∨ dcc = 4)
    (ha : 1 ≤ a.d ∧ a.d ≤ 31) (hb : 1 ≤ b.d ∧ b.d ≤ 31) (hm : monthIdx b < monthIdx a) :
    fracOf (year_frac a b dt3 f term dcc) ≤ 0 ∧
      ((dcc = 2 ∨ dcc = 3) → fracOf (year_frac a b dt3 f term dcc) < 0) := by
  obtain ⟨_, u⟩ := thirty360_month_bounds_int a b term dcc h ha hb
  rw [frac_360_family a b dt3 f term dcc h ha.2]
  constructor
  · have : ¬ 0 < ((num360 dcc a b term : Int) : Rat) / 360 := by rw [div360_pos_iff]; omega
    exact not_lt.mp this
  · intro h23
    obtain ⟨_, u'⟩ := thirty360_E_month_bounds_int a b term dcc h23 ha hb
    rw [div360_neg_iff]; omega

/-- Within one calendar month, forward (`a.d < b.d`, `b` a valid date): the numerator is 0 exactly for
30th → 31st under 30/360 Bond, 30E/360, 30E/360 ISDA; otherwise it is strictly positive; 30E+/360 is always
strictly positive. -/
theorem thirty360_same_month_forward_int (a b : PyDate) (term : Bool) (dcc : Int)
    (h : dcc = 1 ∨ dcc = 2 ∨ dcc = 3 ∨ dcc = 4) (hy : a.y = b.y) (hm : a.m = b.m)
    (ha : 1 ≤ a.d) (hd : a.d < b.d) (hb : b.d ≤ monthLen b.y b.m) :
    0 ≤ num360 dcc a b term ∧ (num360 dcc a b term = 0 ↔ (dcc ≠ 4 ∧ a.d = 30 ∧ b.d = 31)) := by
  have hb31 : b.d ≤ 31 := by
    have : monthLen b.y b.m ≤ 31 := by simp only [monthLen]; split_ifs <;> omega
    omega
  rcases h with h | h | h | h <;> subst h <;> simp only [monthLen] at hb <;> unfold360 <;>
    simp only [hy, hm] <;> split_ifs at hb ⊢ <;> omega

/-- C15 sign, 30/360 family, EXACT: for a positive period (start before end in (year, month, day) order, end a
valid calendar date) the fraction is never negative, and it is zero exactly in one corner: the 30th to the 31st of
the same month, under 30/360 Bond, 30E/360 and 30E/360 ISDA (the published rules make both days "30").
30E+/360 is strictly positive on every positive period. -/
theorem thirty360_forward_zero_iff (a b : PyDate) (dt3 : Option PyDate) (f : Int) (term : Bool) (dcc : Int)
    (h : dcc = 1 ∨ dcc = 2 ∨ dcc = 3 ∨ dcc = 4)
    (ha : 1 ≤ a.d ∧ a.d ≤ 31) (hb : 1 ≤ b.d ∧ b.d ≤ monthLen b.y b.m)
    (hlt : monthIdx a < monthIdx b ∨ (a.y = b.y ∧ a.m = b.m ∧ a.d < b.d)) :
    0 ≤ fracOf (year_frac a b dt3 f term dcc) ∧
      (fracOf (year_frac a b dt3 f term dcc) = 0 ↔
        (dcc ≠ 4 ∧ a.y = b.y ∧ a.m = b.m ∧ a.d = 30 ∧ b.d = 31)) := by
  have hb31 : b.d ≤ 31 := by
    have : monthLen b.y b.m ≤ 31 := by simp only [monthLen]; split_ifs <;> omega
    omega
  rcases hlt with hlt | ⟨hy, hm, hd⟩
  · obtain ⟨hp, _⟩ := thirty360_pos_of_month_lt a b dt3 f term dcc h ha ⟨hb.1, hb31⟩ hlt
    refine ⟨hp.le, ⟨fun h0 => absurd h0 hp.ne', ?_⟩⟩
    rintro ⟨_, hy, hm, _, _⟩
    simp only [monthIdx, hy, hm] at hlt; omega
  · obtain ⟨h0, hz⟩ := thirty360_same_month_forward_int a b term dcc h hy hm ha.1 hd hb.2
    rw [frac_360_family a b dt3 f term dcc h ha.2, div360_eq_zero_iff, hz]
    constructor
    · have : ¬ ((num360 dcc a b term : Int) : Rat) / 360 < 0 := by rw [div360_neg_iff]; omega
      exact not_lt.mp this
    · constructor
      · rintro ⟨h4, h30, h31⟩; exact ⟨h4, hy, hm, h30, h31⟩
      · rintro ⟨h4, _, _, h30, h31⟩; exact ⟨h4, h30, h31⟩

/-- non-vacuity of the corner: 30 → 31 March 2021 is 0/360 under 30/360 Bond although one day passed, while
30E+/360 gives 1/360. -/
example : fracOf (year_frac (Model.mkDate 30 3 2021) (Model.mkDate 31 3 2021) none 1 false 1) = 0 ∧
    fracOf (year_frac (Model.mkDate 30 3 2021) (Model.mkDate 31 3 2021) none 1 false 4) = 1 / 360 := by
  rw [frac_360_family _ _ _ _ _ _ (by decide) (by decide), frac_360_family _ _ _ _ _ _ (by decide) (by decide)]
  constructor <;> norm_num [num360, num30_360Bond, num30EPlus360, thirty360, Model.mkDate]

/-- Reversed period inside one month (`b.d < a.d`): numerator ≤ 0, and 0 exactly for 31st → 30th. -/
theorem thirty360_same_month_backward_int (a b : PyDate) (term : Bool) (dcc : Int)
    (h : dcc = 1 ∨ dcc = 2 ∨ dcc = 3 ∨ dcc = 4) (hy : a.y = b.y) (hm : a.m = b.m)
    (hb : 1 ≤ b.d) (hd : b.d < a.d) (ha : a.d ≤ monthLen a.y a.m) :
    num360 dcc a b term ≤ 0 ∧ (num360 dcc a b term = 0 ↔ (a.d = 31 ∧ b.d = 30)) := by
  rcases h with h | h | h | h <;> subst h <;> simp only [monthLen] at ha <;> unfold360 <;>
    simp only [← hy, ← hm] <;> split_ifs at ha ⊢ <;> omega

/-- Reversed by at least a month: numerator 0 exactly for the 1st back to the 31st of the previous month under
30/360 Bond and 30E+/360 (a one-day reversed period whose fraction is 0, not negative). -/
theorem thirty360_month_backward_zero_int (a b : PyDate) (term : Bool) (dcc : Int)
    (h : dcc = 1 ∨ dcc = 2 ∨ dcc = 3 ∨ dcc = 4)
    (ha : 1 ≤ a.d ∧ a.d ≤ 31) (hb : 1 ≤ b.d ∧ b.d ≤ 31) (hm : monthIdx b < monthIdx a) :
    num360 dcc a b term = 0 ↔ ((dcc = 1 ∨ dcc = 4) ∧ monthIdx a = monthIdx b + 1 ∧ a.d = 1 ∧ b.d = 31) := by
  revert hm
  rcases h with h | h | h | h <;> subst h <;> unfold360 <;>
    simp only [false_or, or_false, false_and, true_and, or_true, true_or, iff_false] <;> intro hm <;>
    split_ifs <;> omega

/-- C15 sign, 30/360 family, reversed periods, EXACT: for `b` before `a` in (year, month, day) order (`a` valid) the
fraction is never positive, and it is zero exactly in two corners: 31st → 30th of one month (all four conventions),
and the 1st of a month → the 31st of the previous month (30/360 Bond and 30E+/360 only). -/
theorem thirty360_backward_zero_iff (a b : PyDate) (dt3 : Option PyDate) (f : Int) (term : Bool) (dcc : Int)
    (h : dcc = 1 ∨ dcc = 2 ∨ dcc = 3 ∨ dcc = 4)
    (ha : 1 ≤ a.d ∧ a.d ≤ monthLen a.y a.m) (hb : 1 ≤ b.d ∧ b.d ≤ 31)
    (hlt : monthIdx b < monthIdx a ∨ (a.y = b.y ∧ a.m = b.m ∧ b.d < a.d)) :
    fracOf (year_frac a b dt3 f term dcc) ≤ 0 ∧
      (fracOf (year_frac a b dt3 f term dcc) = 0 ↔
        ((a.y = b.y ∧ a.m = b.m ∧ a.d = 31 ∧ b.d = 30) ∨
         ((dcc = 1 ∨ dcc = 4) ∧ monthIdx a = monthIdx b + 1 ∧ a.d = 1 ∧ b.d = 31))) := by
  have ha31 : a.d ≤ 31 := by
    have : monthLen a.y a.m ≤ 31 := by simp only [monthLen]; split_ifs <;> omega
    omega
  rcases hlt with hlt | ⟨hy, hm, hd⟩
  · refine ⟨(thirty360_nonpos_of_month_gt a b dt3 f term dcc h ⟨ha.1, ha31⟩ hb hlt).1, ?_⟩
    rw [frac_360_family a b dt3 f term dcc h ha31, div360_eq_zero_iff,
      thirty360_month_backward_zero_int a b term dcc h ⟨ha.1, ha31⟩ hb hlt]
    constructor
    · intro h'; exact Or.inr h'
    · rintro (⟨hy, hm, _, _⟩ | h')
      · simp only [monthIdx, hy, hm] at hlt; omega
      · exact h'
  · obtain ⟨h0, hz⟩ := thirty360_same_month_backward_int a b term dcc h hy hm hb.1 hd ha.2
    rw [frac_360_family a b dt3 f term dcc h ha31, div360_eq_zero_iff, hz]
    constructor
    · have : ¬ 0 < ((num360 dcc a b term : Int) : Rat) / 360 := by rw [div360_pos_iff]; omega
      exact not_lt.mp this
    · constructor
      · rintro ⟨h1, h2⟩; exact Or.inl ⟨hy, hm, h1, h2⟩
      · rintro (⟨_, _, h1, h2⟩ | ⟨_, hmi, _, _⟩)
        · exact ⟨h1, h2⟩
        · simp only [monthIdx, hy, hm] at hmi; omega

/-- the 30E+/360 corner named in the notes: 1 Feb back to 31 Jan (one day, reversed) is 0/360 under 30E+/360 and
under 30/360 Bond, and −1/360 under 30E/360. -/
example : fracOf (year_frac (Model.mkDate 1 2 2021) (Model.mkDate 31 1 2021) none 1 false 4) = 0 ∧
    fracOf (year_frac (Model.mkDate 1 2 2021) (Model.mkDate 31 1 2021) none 1 false 1) = 0 ∧
    fracOf (year_frac (Model.mkDate 1 2 2021) (Model.mkDate 31 1 2021) none 1 false 2) = -1 / 360 := by
  rw [frac_360_family _ _ _ _ _ _ (by decide) (by decide), frac_360_family _ _ _ _ _ _ (by decide) (by decide),
    frac_360_family _ _ _ _ _ _ (by decide) (by decide)]
  refine ⟨?_, ?_, ?_⟩ <;> norm_num [num360, num30_360Bond, num30EPlus360, num30E360, thirty360, Model.mkDate]


/-! ### 30E/360 ISDA: the termination-date exception, both halves -/

/-- The start-date day number of 30E/360 ISDA: the 31st and the last day of February become 30 — whatever the
termination flag (the exception of §4.16(h) concerns the END date only). -/
def isdaD1 (a : PyDate) : Int := if a.d = 31 ∨ isLastDayOfFeb a.d a.m a.y = true then 30 else a.d

/-- First half of the exception, on the GENERATED text: with `is_termination_date = True` an end date on the last
day of February keeps its own day number (28 or 29) — the end-of-February adjustment is skipped. -/
theorem isda_termination_skips_feb_end (a b : PyDate) (dt3 : Option PyDate) (f : Int)
    (hfeb : isLastDayOfFeb b.d b.m b.y = true) :
    year_frac a b dt3 f true 3 =
      .ok (((thirty360 (isdaD1 a) a.m a.y b.d b.m b.y : Int) : Rat) / 360,
           ((thirty360 (isdaD1 a) a.m a.y b.d b.m b.y : Int) : Rat), 360) := by
  rw [year_frac_30E_360_ISDA]
  have hb : b.d ≠ 31 := by
    simp only [isLastDayOfFeb, monthLen, Bool.and_eq_true, decide_eq_true_eq] at hfeb
    obtain ⟨_, h⟩ := hfeb; split_ifs at h <;> omega
  simp [num30E360ISDA, isdaD1, hfeb, hb]

/-- Second half: the flag does NOT switch off the 31st → 30 adjustment of the end date (a seeded defect merged the
two conditions): with `is_termination_date = True` and an end date on a 31st the end day number is 30. -/
theorem isda_termination_keeps_31st (a b : PyDate) (dt3 : Option PyDate) (f : Int) (term : Bool)
    (h31 : b.d = 31) :
    year_frac a b dt3 f term 3 =
      .ok (((thirty360 (isdaD1 a) a.m a.y 30 b.m b.y : Int) : Rat) / 360,
           ((thirty360 (isdaD1 a) a.m a.y 30 b.m b.y : Int) : Rat), 360) := by
  rw [year_frac_30E_360_ISDA]
  simp [num30E360ISDA, isdaD1, h31]

/-- Without the flag an end date on the last day of February counts as the 30th. -/
theorem isda_nonterm_feb_end (a b : PyDate) (dt3 : Option PyDate) (f : Int)
    (hfeb : isLastDayOfFeb b.d b.m b.y = true) :
    year_frac a b dt3 f false 3 =
      .ok (((thirty360 (isdaD1 a) a.m a.y 30 b.m b.y : Int) : Rat) / 360,
           ((thirty360 (isdaD1 a) a.m a.y 30 b.m b.y : Int) : Rat), 360) := by
  rw [year_frac_30E_360_ISDA]
  simp [num30E360ISDA, isdaD1, hfeb]

/-- The whole effect of the flag: the numerators with and without it differ by `b.d − 30` (−2, or −1 in a leap
year) when the end date is the last day of February, and not at all otherwise. -/
theorem isda_flag_effect (a b : PyDate) (dt3 : Option PyDate) (f : Int) :
    numOf (year_frac a b dt3 f true 3) - numOf (year_frac a b dt3 f false 3) =
      if isLastDayOfFeb b.d b.m b.y = true then ((b.d - 30 : Int) : Rat) else 0 := by
  by_cases hfeb : isLastDayOfFeb b.d b.m b.y = true
  · rw [isda_termination_skips_feb_end a b dt3 f hfeb, isda_nonterm_feb_end a b dt3 f hfeb]
    simp only [numOf, thirty360, hfeb, if_true]; push_cast; ring
  · rw [year_frac_30E_360_ISDA, year_frac_30E_360_ISDA]
    simp [numOf, num30E360ISDA, hfeb]

/-- The flag is irrelevant unless the end date is the last day of February. -/
theorem isda_flag_irrelevant (a b : PyDate) (dt3 : Option PyDate) (f : Int) (term : Bool)
    (hfeb : isLastDayOfFeb b.d b.m b.y = false) :
    year_frac a b dt3 f term 3 = year_frac a b dt3 f false 3 := by
  rw [year_frac_30E_360_ISDA, year_frac_30E_360_ISDA]
  simp [num30E360ISDA, hfeb]

/-- 30E/360 ISDA coincides with 30E/360 when neither date is the last day of February. -/
theorem isda_eq_30E_360_off_feb_end (a b : PyDate) (dt3 : Option PyDate) (f : Int) (term : Bool)
    (ha : isLastDayOfFeb a.d a.m a.y = false) (hb : isLastDayOfFeb b.d b.m b.y = false) :
    year_frac a b dt3 f term 3 = year_frac a b dt3 f term 2 := by
  rw [year_frac_30E_360_ISDA, year_frac_30E_360]
  simp [num30E360ISDA, num30E360, ha, hb]

/-- non-vacuity: 28 Aug 2020 → 28 Feb 2021: 182/360 without the flag, 180/360 as the termination date;
→ 31 Mar 2021 both give the 31st as 30. -/
example : numOf (year_frac (Model.mkDate 28 8 2020) (Model.mkDate 28 2 2021) none 1 false 3) = 182 ∧
    numOf (year_frac (Model.mkDate 28 8 2020) (Model.mkDate 28 2 2021) none 1 true 3) = 180 ∧
    numOf (year_frac (Model.mkDate 28 8 2020) (Model.mkDate 31 3 2021) none 1 true 3) = 212 := by
  refine ⟨?_, ?_, ?_⟩
  · rw [isda_nonterm_feb_end _ _ _ _ (by decide)]; norm_num [numOf, thirty360, isdaD1, Model.mkDate, isLastDayOfFeb]
  · rw [isda_termination_skips_feb_end _ _ _ _ (by decide)]; norm_num [numOf, thirty360, isdaD1, Model.mkDate, isLastDayOfFeb]
  · rw [isda_termination_keeps_31st _ _ _ _ _ (by decide)]; norm_num [numOf, thirty360, isdaD1, Model.mkDate, isLastDayOfFeb]

/-! ### Additivity over adjacent periods in the 30/360 family -/

theorem frac_360_family_E (a b : PyDate) (dt3 : Option PyDate) (f : Int) (term : Bool) (dcc : Int)
    (h : dcc = 2 ∨ dcc = 3 ∨ dcc = 4) :
    fracOf (year_frac a b dt3 f term dcc) = ((num360 dcc a b term : Int) : Rat) / 360 := by
  rcases h with h | h | h <;> subst h
  · rw [year_frac_30E_360]; simp [num360, fracOf]
  · rw [year_frac_30E_360_ISDA]; simp [num360, fracOf]
  · rw [year_frac_30E_plus_360]; simp [num360, fracOf]

theorem add_div360 (x y z : Int) (h : x + y = z) : ((x : Int) : Rat) / 360 + ((y : Int) : Rat) / 360 = ((z : Int) : Rat) / 360 := by
  rw [← add_div]; congr 1; exact_mod_cast h

/-- 30E/360 is additive over adjacent periods for ALL dates: each date gets the same day number (31 → 30) whether it
starts or ends a period. -/
theorem thirty_E_360_additive (a b c : PyDate) (dt3 : Option PyDate) (f : Int) (term : Bool) :
    fracOf (year_frac a b dt3 f term 2) + fracOf (year_frac b c dt3 f term 2)
      = fracOf (year_frac a c dt3 f term 2) := by
  simp only [frac_360_family_E _ _ dt3 f term 2 (Or.inl rfl)]
  apply add_div360
  unfold360; split_ifs <;> omega

/-- 30E/360 ISDA is additive over adjacent periods when only the LAST period carries the termination flag (the way a
swap leg uses it): frac(a,b,False) + frac(b,c,t) = frac(a,c,t), all dates. -/
theorem isda_additive (a b c : PyDate) (dt3 : Option PyDate) (f : Int) (t : Bool) :
    fracOf (year_frac a b dt3 f false 3) + fracOf (year_frac b c dt3 f t 3)
      = fracOf (year_frac a c dt3 f t 3) := by
  simp only [frac_360_family_E _ _ dt3 f _ 3 (Or.inr (Or.inl rfl))]
  apply add_div360
  cases t <;> unfold360 <;> simp only [Bool.false_eq_true, not_false_eq_true, not_true_eq_false, and_true, and_false,
    or_false] <;> split_ifs <;> omega

/-- … and NOT when an interior period carries the flag and ends on the last day of February: the defect is exactly
`30 − b.d`. -/
theorem isda_additivity_defect_interior_flag (a b c : PyDate) (dt3 : Option PyDate) (f : Int) (t : Bool)
    (hfeb : isLastDayOfFeb b.d b.m b.y = true) :
    fracOf (year_frac a b dt3 f true 3) + fracOf (year_frac b c dt3 f t 3)
      = fracOf (year_frac a c dt3 f t 3) - ((30 - b.d : Int) : Rat) / 360 := by
  have h := isda_additive a b c dt3 f t
  have e := isda_flag_effect a b dt3 f
  rw [if_pos hfeb] at e
  have n1 : fracOf (year_frac a b dt3 f true 3) = numOf (year_frac a b dt3 f true 3) / 360 := by
    rw [year_frac_30E_360_ISDA]; rfl
  have n2 : fracOf (year_frac a b dt3 f false 3) = numOf (year_frac a b dt3 f false 3) / 360 := by
    rw [year_frac_30E_360_ISDA]; rfl
  rw [n1]; rw [n2] at h
  push_cast at e ⊢
  linarith

/-- 30E+/360: the defect of additivity is exactly 1/360 when the middle date is a 31st (it counts as the 1st of the
next month when it ends a period and as the 30th when it starts one) and 0 otherwise. -/
theorem thirty_E_plus_360_additivity_defect (a b c : PyDate) (dt3 : Option PyDate) (f : Int) (term : Bool)
    (hb : b.d ≤ 31) :
    fracOf (year_frac a b dt3 f term 4) + fracOf (year_frac b c dt3 f term 4)
      = fracOf (year_frac a c dt3 f term 4) + (if b.d = 31 then 1 / 360 else 0) := by
  simp only [frac_360_family_E _ _ dt3 f term 4 (Or.inr (Or.inr rfl))]
  have hi : num360 4 a b term + num360 4 b c term = num360 4 a c term + (if b.d = 31 then 1 else 0) := by
    unfold360; split_ifs <;> omega
  have := add_div360 _ _ _ hi
  rw [this]
  split_ifs <;> push_cast <;> ring

/-- 30E+/360 is additive over adjacent periods iff the middle date is not a 31st. -/
theorem thirty_E_plus_360_additive_iff (a b c : PyDate) (dt3 : Option PyDate) (f : Int) (term : Bool)
    (hb : b.d ≤ 31) :
    fracOf (year_frac a b dt3 f term 4) + fracOf (year_frac b c dt3 f term 4)
      = fracOf (year_frac a c dt3 f term 4) ↔ b.d ≠ 31 := by
  rw [thirty_E_plus_360_additivity_defect a b c dt3 f term hb]
  by_cases h : b.d = 31 <;> simp [h]

/-- "30/360 Bond is additive over adjacent periods" — the full statement; FALSE (next theorem). -/
def BondAdditive : Prop :=
  ∀ a b c : PyDate, a.d ≤ 31 → b.d ≤ 31 → c.d ≤ 31 →
    fracOf (year_frac a b none 1 false 1) + fracOf (year_frac b c none 1 false 1)
      = fracOf (year_frac a c none 1 false 1)

/-- Kernel-checked counterexample: 15 Jan 2020 → 31 Jan 2020 → 15 Feb 2020 under 30/360 Bond is 16/360 + 15/360,
but 15 Jan → 15 Feb is 30/360.  (The 31st ends the first period as "31" because the start day is below 30, and starts
the second one as "30".)  A consequence of the published rule, not a defect of the code. -/
theorem bond_not_additive : ¬ BondAdditive := by
  intro h
  have := h (Model.mkDate 15 1 2020) (Model.mkDate 31 1 2020) (Model.mkDate 15 2 2020) (by decide) (by decide) (by decide)
  rw [frac_360_family _ _ _ _ _ 1 (Or.inl rfl) (by decide), frac_360_family _ _ _ _ _ 1 (Or.inl rfl) (by decide),
    frac_360_family _ _ _ _ _ 1 (Or.inl rfl) (by decide)] at this
  norm_num [num360, num30_360Bond, thirty360, Model.mkDate] at this

/-- The exact additivity defect of 30/360 Bond, in 360ths: +1 when the middle date is a 31st reached from a start day
below 30; and, when the last date is a 31st, +1 / −1 when exactly one of the first two dates has day ≥ 30. -/
theorem bond_additivity_defect (a b c : PyDate) (ha : a.d ≤ 31) (hb : b.d ≤ 31) :
    num360 1 a b false + num360 1 b c false =
      num360 1 a c false + (if b.d = 31 ∧ a.d < 30 then 1 else 0)
        + (if c.d = 31 then (if 30 ≤ a.d then 1 else 0) - (if 30 ≤ b.d then 1 else 0) else 0) := by
  unfold360; split_ifs <;> omega

/-- 30/360 Bond additivity, the part that holds: the middle date is not a 31st, and either the last date is not a
31st or the first two dates are on the same side of the 30th. -/
theorem bond_additive_partial (a b c : PyDate) (dt3 : Option PyDate) (f : Int) (term : Bool)
    (ha : a.d ≤ 31) (hb : b.d ≤ 30) (hc : c.d ≠ 31 ∨ (30 ≤ a.d ↔ 30 ≤ b.d)) :
    fracOf (year_frac a b dt3 f term 1) + fracOf (year_frac b c dt3 f term 1)
      = fracOf (year_frac a c dt3 f term 1) := by
  rw [frac_360_family a b dt3 f term 1 (Or.inl rfl) ha, frac_360_family b c dt3 f term 1 (Or.inl rfl) (by omega),
    frac_360_family a c dt3 f term 1 (Or.inl rfl) ha]
  apply add_div360
  have := bond_additivity_defect a b c ha (by omega)
  have e : ∀ x y t, num360 1 x y t = num360 1 x y false := by intro x y t; simp [num360]
  rw [e a b, e b c, e a c, this]
  split_ifs <;> omega

/-- non-vacuity of the partial theorem: 31 Jan → 28 Feb → 31 Mar 2021. -/
example : fracOf (year_frac (Model.mkDate 31 1 2021) (Model.mkDate 28 2 2021) none 1 false 1) +
    fracOf (year_frac (Model.mkDate 28 2 2021) (Model.mkDate 30 3 2021) none 1 false 1) =
    fracOf (year_frac (Model.mkDate 31 1 2021) (Model.mkDate 30 3 2021) none 1 false 1) :=
  bond_additive_partial _ _ _ _ _ _ (by decide) (by decide) (Or.inl (by decide))

end FinVerif.Props.C15
