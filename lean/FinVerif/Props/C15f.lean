/-
  C15 (part f) — additivity and sign of ACT/ACT ISDA through the "year position", k consecutive ICMA periods,
  identities between the ACT/fixed conventions, consistency of the returned triple, and the complete list of
  failing calls.

  * `act_act_isda_eq_yearPos_sub`: for all dates from 1901 the GENERATED ACT/ACT ISDA fraction is
    `yearPos end − yearPos start` with `yearPos d = d.y + (days since 1 Jan)/(days in the year)` — same year or
    not, either order.  Hence additivity over adjacent periods (`act_act_isda_additive`), antisymmetry for every
    pair (`act_act_isda_antisymmetric_all`), and the sign of end − start (`act_act_isda_sign_iff`).
  * `act_act_isda_between_366_and_365`: days/366 ≤ fraction ≤ days/365 for a forward period.
  * `icma_k_regular_periods`: the fractions of k consecutive coupon periods sum to k/f.
  * `simple_eq_act_365F`, `act_360_eq_act_365F_scaled`, `act_act_isda_eq_act_365F_nonleap_year`.
  * `frac_eq_num_div_den` (every convention except ACT/ACT ISDA across years, where the reported pair is
    informational — counterexample `act_act_isda_pair_not_fraction`), `den_pos`.
  * `year_frac_error_iff_finError`, `year_frac_error_iff_zeroDiv`, `year_frac_ok_iff`: exactly which
    (convention, arguments) fail and how.
-/
import FinVerif.Props.C15e
import FinVerif.Props.C15d
import FinVerif.Model.C15

set_option linter.unusedSimpArgs false
set_option linter.unusedVariables false
set_option linter.unusedTactic false
set_option linter.unreachableTactic false

namespace FinVerif.Props.C15
open FinVerif FinVerif.Gen.DayCount FinVerif.Spec

/-! ### ACT/ACT ISDA: year position -/

/-- Position of a date on the "ACT/ACT ISDA time axis": its year plus the elapsed fraction of that year. -/
def yearPos (d : PyDate) : Rat := (d.y : Rat) + ((d.serial - J d.y : Int) : Rat) / (yearLen d.y : Int)

theorem yearLen_ne_zero (y : Int) : ((yearLen y : Int) : Rat) ≠ 0 := by
  have := yearLen_pos y
  have : yearLen y ≠ 0 := by omega
  exact_mod_cast this

/-- C15 ACT/ACT ISDA, all dates from 1901, same year or not, forward or reversed: the GENERATED fraction is the
difference of the year positions. -/
theorem act_act_isda_eq_yearPos_sub (a b : PyDate) (dt3 : Option PyDate) (f : Int) (term : Bool)
    (ha : 1901 ≤ a.y) (hb : 1901 ≤ b.y) :
    fracOf (year_frac a b dt3 f term 5) = yearPos b - yearPos a := by
  by_cases hy : a.y = b.y
  · rw [year_frac_act_act_isda_same_year a b dt3 f term hy]
    simp only [fracOf, yearPos, hy]
    have := yearLen_ne_zero b.y
    push_cast; field_simp; ring
  · rw [year_frac_act_act_isda_diff_year_shape a b dt3 f term hy ha hb]
    simp only [yearPos, J_step a.y]
    have := yearLen_ne_zero a.y
    have := yearLen_ne_zero b.y
    push_cast; field_simp; ring

/-- C15 additivity of ACT/ACT ISDA over adjacent periods, all dates from 1901 (any order, any years). -/
theorem act_act_isda_additive (a b c : PyDate) (dt3 : Option PyDate) (f : Int) (term : Bool)
    (ha : 1901 ≤ a.y) (hb : 1901 ≤ b.y) (hc : 1901 ≤ c.y) :
    fracOf (year_frac a b dt3 f term 5) + fracOf (year_frac b c dt3 f term 5)
      = fracOf (year_frac a c dt3 f term 5) := by
  rw [act_act_isda_eq_yearPos_sub a b dt3 f term ha hb, act_act_isda_eq_yearPos_sub b c dt3 f term hb hc,
    act_act_isda_eq_yearPos_sub a c dt3 f term ha hc]
  ring

/-- Antisymmetry of ACT/ACT ISDA for EVERY pair of dates from 1901 (the version in part b needs different years). -/
theorem act_act_isda_antisymmetric_all (a b : PyDate) (dt3 : Option PyDate) (f : Int) (term : Bool)
    (ha : 1901 ≤ a.y) (hb : 1901 ≤ b.y) :
    fracOf (year_frac b a dt3 f term 5) = - fracOf (year_frac a b dt3 f term 5) := by
  rw [act_act_isda_eq_yearPos_sub a b dt3 f term ha hb, act_act_isda_eq_yearPos_sub b a dt3 f term hb ha]
  ring

/-- A date inside its calendar year sits in `[y, y+1)` on the year-position axis. -/
theorem yearPos_mem (d : PyDate) (hin : J d.y ≤ d.serial ∧ d.serial < J (d.y + 1)) :
    (d.y : Rat) ≤ yearPos d ∧ yearPos d < (d.y : Rat) + 1 := by
  have lp : (0 : Rat) < ((yearLen d.y : Int) : Rat) := by exact_mod_cast yearLen_pos d.y
  have n0 : (0 : Rat) ≤ ((d.serial - J d.y : Int) : Rat) := by exact_mod_cast (by omega : (0 : Int) ≤ d.serial - J d.y)
  have st := J_step d.y
  have n1 : ((d.serial - J d.y : Int) : Rat) < ((yearLen d.y : Int) : Rat) := by
    exact_mod_cast (by omega : d.serial - J d.y < yearLen d.y)
  simp only [yearPos]
  constructor
  · have := div_nonneg n0 lp.le; linarith
  · have : ((d.serial - J d.y : Int) : Rat) / ((yearLen d.y : Int) : Rat) < 1 := by
      rw [div_lt_one lp]; exact n1
    linarith

/-- The year position is strictly increasing in the serial number (for dates lying inside their calendar years). -/
theorem yearPos_strictMono (a b : PyDate)
    (hina : J a.y ≤ a.serial ∧ a.serial < J (a.y + 1)) (hinb : J b.y ≤ b.serial ∧ b.serial < J (b.y + 1))
    (hlt : a.serial < b.serial) : yearPos a < yearPos b := by
  have hyle : a.y ≤ b.y := by
    by_contra hc
    have h1 : b.y + 1 ≤ a.y := by omega
    obtain ⟨k, hk⟩ : ∃ k : Nat, a.y = b.y + 1 + k := ⟨(a.y - b.y - 1).toNat, by omega⟩
    have := J_mono_step (b.y + 1) k
    rw [← hk] at this
    omega
  rcases Int.lt_or_eq_of_le hyle with hy | hy
  · have h1 := (yearPos_mem a hina).2
    have h2 := (yearPos_mem b hinb).1
    have : (a.y : Rat) + 1 ≤ (b.y : Rat) := by exact_mod_cast (by omega : a.y + 1 ≤ b.y)
    linarith
  · simp only [yearPos, hy]
    have lp : (0 : Rat) < ((yearLen b.y : Int) : Rat) := by exact_mod_cast yearLen_pos b.y
    have : ((a.serial - J b.y : Int) : Rat) < ((b.serial - J b.y : Int) : Rat) := by
      exact_mod_cast (by omega : a.serial - J b.y < b.serial - J b.y)
    have := div_lt_div_of_pos_right this lp
    linarith

/-- C15 sign of ACT/ACT ISDA, full strength: for all dates from 1901 lying inside their calendar years (true of
every valid date: `serial_in_year`) the fraction is positive / zero / negative exactly as end − start is. -/
theorem act_act_isda_sign_iff (a b : PyDate) (dt3 : Option PyDate) (f : Int) (term : Bool)
    (ha : 1901 ≤ a.y) (hb : 1901 ≤ b.y)
    (hina : J a.y ≤ a.serial ∧ a.serial < J (a.y + 1)) (hinb : J b.y ≤ b.serial ∧ b.serial < J (b.y + 1)) :
    (0 < fracOf (year_frac a b dt3 f term 5) ↔ a.serial < b.serial) ∧
    (fracOf (year_frac a b dt3 f term 5) = 0 ↔ a.serial = b.serial) ∧
    (fracOf (year_frac a b dt3 f term 5) < 0 ↔ b.serial < a.serial) := by
  rw [act_act_isda_eq_yearPos_sub a b dt3 f term ha hb]
  have key : ∀ x y : PyDate, (J x.y ≤ x.serial ∧ x.serial < J (x.y + 1)) → (J y.y ≤ y.serial ∧ y.serial < J (y.y + 1)) →
      x.serial = y.serial → yearPos x = yearPos y := by
    intro x y hx hy hs
    have hxy : x.y = y.y := by
      by_contra hne
      rcases Int.lt_or_gt_of_ne hne with h | h
      · obtain ⟨k, hk⟩ : ∃ k : Nat, y.y = x.y + 1 + k := ⟨(y.y - x.y - 1).toNat, by omega⟩
        have := J_mono_step (x.y + 1) k
        rw [← hk] at this; omega
      · obtain ⟨k, hk⟩ : ∃ k : Nat, x.y = y.y + 1 + k := ⟨(x.y - y.y - 1).toNat, by omega⟩
        have := J_mono_step (y.y + 1) k
        rw [← hk] at this; omega
    simp only [yearPos, hxy, hs]
  rcases lt_trichotomy a.serial b.serial with h | h | h
  · have := yearPos_strictMono a b hina hinb h
    refine ⟨⟨fun _ => h, fun _ => by linarith⟩, ⟨fun h0 => by linarith, fun h0 => by omega⟩,
      ⟨fun h0 => by linarith, fun h0 => by omega⟩⟩
  · have := key a b hina hinb h
    refine ⟨⟨fun h0 => by linarith, fun h0 => by omega⟩, ⟨fun _ => h, fun _ => by linarith⟩,
      ⟨fun h0 => by linarith, fun h0 => by omega⟩⟩
  · have := yearPos_strictMono b a hinb hina h
    refine ⟨⟨fun h0 => by linarith, fun h0 => by omega⟩, ⟨fun h0 => by linarith, fun h0 => by omega⟩,
      ⟨fun _ => h, fun _ => by linarith⟩⟩

/-- non-vacuity: 15 Nov 2019 → 15 Feb 2020 → 15 Mar 2021 adds up under ACT/ACT ISDA. -/
example : fracOf (year_frac (Model.mkDate 15 11 2019) (Model.mkDate 15 2 2020) none 1 false 5) +
    fracOf (year_frac (Model.mkDate 15 2 2020) (Model.mkDate 15 3 2021) none 1 false 5) =
    fracOf (year_frac (Model.mkDate 15 11 2019) (Model.mkDate 15 3 2021) none 1 false 5) :=
  act_act_isda_additive _ _ _ _ _ _ (by decide) (by decide) (by decide)

/-! ### ICMA: k consecutive regular periods -/

/- `icmaSum` (Model/C15.lean): sum of the ACT/ACT ICMA fractions of the consecutive coupon periods `[p₀,p₁], [p₁,p₂], …`
of a schedule, each computed by the GENERATED `year_frac` with its own period end as the third date. -/
export FinVerif.Model.C15 (icmaSum)

theorem fracOk_eq (r : Except PyErr (Rat × Rat × Rat)) : FinVerif.Model.C15.fracOk r = fracOf r := by
  cases r <;> rfl

/-- consecutive schedule dates are distinct -/
def ConsecDistinct : List PyDate → Prop
  | a :: b :: rest => a.serial ≠ b.serial ∧ ConsecDistinct (b :: rest)
  | _ => True

/-- C15 ICMA: k consecutive full coupon periods of ANY lengths sum to exactly k/f (each is 1/f, `icma_regular_period`),
by induction on the schedule. -/
theorem icma_k_regular_periods (f : Int) (term : Bool) (q : Rat)
    (hf : FinVerif.Model.annualFrequency f = some q) (hq : q ≠ 0) :
    ∀ l : List PyDate, ConsecDistinct l → icmaSum f term l = ((l.length - 1 : Nat) : Rat) / q
  | [], _ => by simp [icmaSum]
  | [a], _ => by simp [icmaSum]
  | a :: b :: rest, h => by
    obtain ⟨hab, hrest⟩ := h
    have ih := icma_k_regular_periods f term q hf hq (b :: rest) hrest
    simp only [icmaSum, fracOk_eq, ih, icma_regular_period a f term b q hf hq (Ne.symm hab), List.length_cons]
    simp only [Nat.add_sub_cancel]
    push_cast; field_simp; ring

/-- … plus the accrued part of the current period: after k full periods and a settlement date inside the next one
the total lies in [k/f, (k+1)/f). -/
theorem icma_k_periods_plus_accrued (f : Int) (term : Bool) (q : Rat)
    (hf : FinVerif.Model.annualFrequency f = some q) (hq : 0 < q)
    (l : List PyDate) (hl : ConsecDistinct l) (p s e : PyDate)
    (hps : p.serial ≤ s.serial) (hse : s.serial < e.serial) :
    ((l.length - 1 : Nat) : Rat) / q ≤ icmaSum f term l + fracOf (year_frac p s (some e) f term 6) ∧
      icmaSum f term l + fracOf (year_frac p s (some e) f term 6) < ((l.length - 1 : Nat) : Rat) / q + 1 / q := by
  rw [icma_k_regular_periods f term q hf hq.ne' l hl]
  have h0 := (icma_fraction_bounds p s e f term q hf hq hps hse.le (by omega)).1
  have h1 := icma_fraction_lt_period p s e f term q hf hq hps hse
  constructor <;> linarith

/-- non-vacuity: three semi-annual periods of 181, 184 and 182 days sum to 3/2. -/
example : icmaSum 2 false [Model.mkDate 15 1 2021, Model.mkDate 15 7 2021, Model.mkDate 15 1 2022, Model.mkDate 15 7 2022]
    = 3 / 2 := by
  rw [icma_k_regular_periods 2 false 2 (by decide) (by norm_num) _ (by simp only [ConsecDistinct, and_true]; decide +kernel)]
  norm_num

/-! ### Identities between conventions -/

/-- SIMPLE and ACT/365F return the same triple for all arguments. -/
theorem simple_eq_act_365F (a b : PyDate) (dt3 : Option PyDate) (f : Int) (term : Bool) :
    year_frac a b dt3 f term 10 = year_frac a b dt3 f term 7 := by
  rw [year_frac_simple, year_frac_act_365F]

/-- ACT/360 = ACT/365F × 365/360, same numerator. -/
theorem act_360_eq_act_365F_scaled (a b : PyDate) (dt3 : Option PyDate) (f : Int) (term : Bool) :
    fracOf (year_frac a b dt3 f term 8) = fracOf (year_frac a b dt3 f term 7) * (365 / 360) ∧
    numOf (year_frac a b dt3 f term 8) = numOf (year_frac a b dt3 f term 7) := by
  rw [year_frac_act_360, year_frac_act_365F]
  simp only [fracOf, numOf]
  constructor
  · ring
  · trivial

/-- ACT/ACT ISDA inside one non-leap calendar year is ACT/365F. -/
theorem act_act_isda_eq_act_365F_nonleap_year (a b : PyDate) (dt3 : Option PyDate) (f : Int) (term : Bool)
    (hy : a.y = b.y) (hl : gLeap a.y = false) :
    year_frac a b dt3 f term 5 = year_frac a b dt3 f term 7 := by
  rw [year_frac_act_act_isda_same_year a b dt3 f term hy, year_frac_act_365F]
  simp [yearLen, hl]

/-- `DayCountTypes.ZERO` (value 0) is treated as ACT/ACT ISDA. -/
theorem zero_type_eq_act_act_isda (a b : PyDate) (dt3 : Option PyDate) (f : Int) (term : Bool) :
    year_frac a b dt3 f term 0 = year_frac a b dt3 f term 5 := by
  simp [year_frac, pyIn]

/-! ### The returned triple -/

/-- For every convention except ACT/ACT ISDA across calendar years the returned fraction IS numerator/denominator
(exact rationals). -/
theorem frac_eq_num_div_den (a b : PyDate) (dt3 : Option PyDate) (f : Int) (term : Bool) (dcc : Int)
    (h : ¬ ((dcc = 5 ∨ dcc = 0) ∧ a.y ≠ b.y)) :
    fracOf (year_frac a b dt3 f term dcc) = numOf (year_frac a b dt3 f term dcc) / denOf (year_frac a b dt3 f term dcc) := by
  by_cases hr : dcc < 0 ∨ dcc > 10
  · rw [unknown_convention_is_finError _ _ _ _ _ _ hr]; simp [fracOf, numOf, denOf]
  · have : dcc = 0 ∨ dcc = 1 ∨ dcc = 2 ∨ dcc = 3 ∨ dcc = 4 ∨ dcc = 5 ∨ dcc = 6 ∨ dcc = 7 ∨ dcc = 8 ∨
        dcc = 9 ∨ dcc = 10 := by omega
    rcases this with h' | h' | h' | h' | h' | h' | h' | h' | h' | h' | h' <;> subst h'
    · have hy : a.y = b.y := by by_contra hne; exact h ⟨Or.inr rfl, hne⟩
      rw [zero_type_eq_act_act_isda, year_frac_act_act_isda_same_year a b dt3 f term hy]; rfl
    · simp only [year_frac]; simp [fracOf, numOf, denOf]
    · rw [year_frac_30E_360]; rfl
    · rw [year_frac_30E_360_ISDA]; rfl
    · rw [year_frac_30E_plus_360]; rfl
    · have hy : a.y = b.y := by by_contra hne; exact h ⟨Or.inl rfl, hne⟩
      rw [year_frac_act_act_isda_same_year a b dt3 f term hy]; rfl
    · simp only [year_frac, pyIn]
      simp
      split_ifs <;> simp [fracOf, numOf, denOf]
    · rw [year_frac_act_365F]; rfl
    · rw [year_frac_act_360]; rfl
    · simp only [year_frac, pyIn]
      simp
      split_ifs <;> simp [fracOf, numOf, denOf]
    · rw [year_frac_simple]; rfl


/-- Across calendar years the `(num, den)` pair reported by ACT/ACT ISDA is informational (days in the two stubs over
the sum of the two year lengths) and is NOT the fraction: 1 Jul 2019 → 1 Jul 2021 has fraction 2 but pair 365/730. -/
theorem act_act_isda_pair_not_fraction :
    ¬ (∀ a b : PyDate, 1901 ≤ a.y → 1901 ≤ b.y →
      fracOf (year_frac a b none 1 false 5) = numOf (year_frac a b none 1 false 5) / denOf (year_frac a b none 1 false 5)) := by
  intro h
  have := h (Model.mkDate 1 7 2019) (Model.mkDate 1 7 2021) (by decide) (by decide)
  revert this
  decide +kernel

theorem yearLen_cases (y : Int) : yearLen y = 365 ∨ yearLen y = 366 := by
  simp only [yearLen]; split_ifs <;> simp

/-- The denominator returned by every convention other than ACT/ACT ICMA is strictly positive (360, 365, 366, or a
sum of two year lengths) — no division by zero is possible outside ICMA. -/
theorem den_pos (a b : PyDate) (dt3 : Option PyDate) (f : Int) (term : Bool) (dcc : Int)
    (h : 0 ≤ dcc ∧ dcc ≤ 10) (h6 : dcc ≠ 6) :
    0 < denOf (year_frac a b dt3 f term dcc) := by
  have : dcc = 0 ∨ dcc = 1 ∨ dcc = 2 ∨ dcc = 3 ∨ dcc = 4 ∨ dcc = 5 ∨ dcc = 7 ∨ dcc = 8 ∨
      dcc = 9 ∨ dcc = 10 := by omega
  rcases this with h' | h' | h' | h' | h' | h' | h' | h' | h' | h' <;> subst h'
  · simp only [year_frac, pyIn]; simp; split_ifs <;> simp [denOf] <;> norm_num
  · simp only [year_frac]; simp [denOf]
  · rw [year_frac_30E_360]; simp [denOf]
  · rw [year_frac_30E_360_ISDA]; simp [denOf]
  · rw [year_frac_30E_plus_360]; simp [denOf]
  · simp only [year_frac, pyIn]; simp; split_ifs <;> simp [denOf] <;> norm_num
  · rw [year_frac_act_365F]; simp [denOf]
  · rw [year_frac_act_360]; simp [denOf]
  · simp only [year_frac, pyIn]; simp; split_ifs <;> simp [denOf] <;> norm_num
  · rw [year_frac_simple]; simp [denOf]

/-! ### Which calls fail, and how: the complete list -/

theorem annualFrequency_ne_zero (f : Int) (q : Rat) (h : FinVerif.Model.annualFrequency f = some q) : q ≠ 0 := by
  simp only [FinVerif.Model.annualFrequency] at h
  split_ifs at h <;> simp at h <;> rw [← h] <;> norm_num

/-- `annual_frequency` has no value exactly for `FrequencyTypes.SIMPLE` (0) and non-members. -/
theorem annualFrequency_none_iff (f : Int) :
    FinVerif.Model.annualFrequency f = none ↔ ¬ (f = 99 ∨ f = -1 ∨ f = 1 ∨ f = 2 ∨ f = 3 ∨ f = 4 ∨ f = 12) := by
  simp only [FinVerif.Model.annualFrequency]
  split_ifs <;> simp <;> omega

/-- ACT/ACT ICMA raises the library's `FinError` exactly when the period end or a coupon frequency is missing. -/
theorem icma_finError_iff (a b : PyDate) (dt3 : Option PyDate) (f : Int) (term : Bool) :
    year_frac a b dt3 f term 6 = .error .finError ↔ (dt3 = none ∨ FinVerif.Model.annualFrequency f = none) := by
  cases dt3 with
  | none => simp [year_frac, pyIn]
  | some d3 =>
    cases hq : FinVerif.Model.annualFrequency f with
    | none => simp [year_frac, pyIn, hq]
    | some q =>
      simp only [year_frac, pyIn]
      simp [hq]
      split_ifs <;> simp

/-- ACT/ACT ICMA divides by zero exactly when the period end coincides with the start date (a zero-length coupon
period; not a valid call). -/
theorem icma_zeroDiv_iff (a b : PyDate) (dt3 : Option PyDate) (f : Int) (term : Bool) :
    year_frac a b dt3 f term 6 = .error .zeroDiv ↔
      ∃ d3, dt3 = some d3 ∧ FinVerif.Model.annualFrequency f ≠ none ∧ d3.serial = a.serial := by
  cases dt3 with
  | none => simp [year_frac, pyIn]
  | some d3 =>
    cases hq : FinVerif.Model.annualFrequency f with
    | none => simp [year_frac, pyIn, hq]
    | some q =>
      have hq0 := annualFrequency_ne_zero f q hq
      simp only [year_frac, pyIn]
      simp [hq, pyGetNum, pyGetDate, hq0]
      constructor
      · intro h
        have : d3.serial - a.serial = 0 := by exact_mod_cast h
        omega
      · intro h
        rw [h]; simp

theorem ok_of_not_icma (a b : PyDate) (dt3 : Option PyDate) (f : Int) (term : Bool) (dcc : Int)
    (h : 0 ≤ dcc ∧ dcc ≤ 10) (h6 : dcc ≠ 6) : ∃ t, year_frac a b dt3 f term dcc = .ok t := by
  have : dcc = 0 ∨ dcc = 1 ∨ dcc = 2 ∨ dcc = 3 ∨ dcc = 4 ∨ dcc = 5 ∨ dcc = 7 ∨ dcc = 8 ∨
      dcc = 9 ∨ dcc = 10 := by omega
  rcases this with h' | h' | h' | h' | h' | h' | h' | h' | h' | h' <;> subst h'
  · exact ok_act_act_isda a b dt3 f term 0 (Or.inr rfl)
  · simp only [year_frac]; simp
  · rw [year_frac_30E_360]; exact ⟨_, rfl⟩
  · rw [year_frac_30E_360_ISDA]; exact ⟨_, rfl⟩
  · rw [year_frac_30E_plus_360]; exact ⟨_, rfl⟩
  · exact ok_act_act_isda a b dt3 f term 5 (Or.inl rfl)
  · rw [year_frac_act_365F]; exact ⟨_, rfl⟩
  · rw [year_frac_act_360]; exact ⟨_, rfl⟩
  · exact ok_act_365L a b dt3 f term
  · rw [year_frac_simple]; exact ⟨_, rfl⟩

/-- C15 error kind, complete: `year_frac` raises `FinError` EXACTLY for an unknown convention code, or under
ACT/ACT ICMA without a period end or without a coupon frequency. -/
theorem year_frac_finError_iff (a b : PyDate) (dt3 : Option PyDate) (f : Int) (term : Bool) (dcc : Int) :
    year_frac a b dt3 f term dcc = .error .finError ↔
      ((dcc < 0 ∨ dcc > 10) ∨ (dcc = 6 ∧ (dt3 = none ∨ FinVerif.Model.annualFrequency f = none))) := by
  by_cases hr : dcc < 0 ∨ dcc > 10
  · simp [unknown_convention_is_finError a b dt3 f term dcc hr, hr]
  · by_cases h6 : dcc = 6
    · subst h6; rw [icma_finError_iff]; simp
    · obtain ⟨t, ht⟩ := ok_of_not_icma a b dt3 f term dcc (by omega) h6
      rw [ht]; simp [hr, h6]

/-- … and the only other failure, `ZeroDivisionError`, EXACTLY under ACT/ACT ICMA with a period end equal to the start
date. -/
theorem year_frac_zeroDiv_iff (a b : PyDate) (dt3 : Option PyDate) (f : Int) (term : Bool) (dcc : Int) :
    year_frac a b dt3 f term dcc = .error .zeroDiv ↔
      (dcc = 6 ∧ ∃ d3, dt3 = some d3 ∧ FinVerif.Model.annualFrequency f ≠ none ∧ d3.serial = a.serial) := by
  by_cases hr : dcc < 0 ∨ dcc > 10
  · have : dcc ≠ 6 := by omega
    simp [unknown_convention_is_finError a b dt3 f term dcc hr, this]
  · by_cases h6 : dcc = 6
    · subst h6; rw [icma_zeroDiv_iff]; simp
    · obtain ⟨t, ht⟩ := ok_of_not_icma a b dt3 f term dcc (by omega) h6
      rw [ht]; simp [h6]

/-- … so a call returns a triple EXACTLY when the convention code is known and, for ACT/ACT ICMA, the period end is
given, differs from the start date, and the frequency has coupons. -/
theorem year_frac_ok_iff (a b : PyDate) (dt3 : Option PyDate) (f : Int) (term : Bool) (dcc : Int) :
    (∃ t, year_frac a b dt3 f term dcc = .ok t) ↔
      ((0 ≤ dcc ∧ dcc ≤ 10) ∧
        (dcc = 6 → ∃ d3, dt3 = some d3 ∧ FinVerif.Model.annualFrequency f ≠ none ∧ d3.serial ≠ a.serial)) := by
  have hfin := year_frac_finError_iff a b dt3 f term dcc
  have hz := year_frac_zeroDiv_iff a b dt3 f term dcc
  constructor
  · rintro ⟨t, ht⟩
    rw [ht] at hfin hz
    simp only [reduceCtorEq, false_iff, not_or, not_and, not_exists] at hfin hz
    refine ⟨by omega, ?_⟩
    intro h6
    have h1 := hfin.2 h6
    push Not at h1
    obtain ⟨d3, hd3⟩ := Option.ne_none_iff_exists'.mp h1.1
    exact ⟨d3, hd3, h1.2, hz h6 d3 hd3 h1.2⟩
  · rintro ⟨hr, h6⟩
    cases hres : year_frac a b dt3 f term dcc with
    | ok t => exact ⟨t, rfl⟩
    | error e =>
      exfalso
      rcases error_kind a b dt3 f term dcc e hres with he | ⟨he, hd⟩
      · subst he
        rcases hfin.mp hres with h' | ⟨h6', h'⟩
        · omega
        · obtain ⟨d3, hd3, hfq, _⟩ := h6 h6'
          rcases h' with h' | h'
          · rw [hd3] at h'; cases h'
          · exact hfq h'
      · subst he
        obtain ⟨_, d3, hd3, _, hs⟩ := hz.mp hres
        obtain ⟨d3', hd3', _, hs'⟩ := h6 hd
        rw [hd3] at hd3'; cases hd3'
        exact hs' hs

end FinVerif.Props.C15
