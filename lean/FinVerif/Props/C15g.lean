/-
  C15 (part g) — "sign of (end − start)" with the period measured by the serial numbers:

  * `serial_lt_of_lex_lt` / `lex_lt_of_serial_lt`: for valid calendar dates the specification's serial number is
    strictly increasing in (year, month, day) — first-of-month serials step by the month length
    (`serial_month_step`), years by `J_step`;
  * `thirty360_sign_of_serial_lt`: a period with `start.serial < end.serial` never gets a negative fraction under any
    of the four 30/360 conventions, and gets 0 exactly for 30th → 31st of one month (not under 30E+/360);
  * `act_act_isda_between_366_and_365`: days/366 ≤ ACT/ACT ISDA ≤ days/365 for a forward period.
-/
import FinVerif.Props.C15f

set_option linter.unusedSimpArgs false
set_option linter.unusedVariables false
set_option linter.unusedTactic false
set_option linter.unreachableTactic false

namespace FinVerif.Props.C15
open FinVerif FinVerif.Gen.DayCount FinVerif.Spec

theorem serial_day (d m y : Int) : serial d m y = serial 1 m y + (d - 1) := by
  simp only [serial, daysFromCivil]; omega

set_option maxHeartbeats 1000000 in
/-- first-of-month serials step by the month length -/
theorem serial_month_step (m y : Int) (hm : 1 ≤ m ∧ m ≤ 11) :
    serial 1 (m + 1) y = serial 1 m y + monthLen y m := by
  obtain ⟨h1, h2⟩ := hm
  simp only [serial, daysFromCivil]
  by_cases hl : gLeap y = true
  · have hl' := hl
    simp only [gLeap, Bool.or_eq_true, Bool.and_eq_true, beq_iff_eq, bne_iff_ne] at hl'
    interval_cases m <;> simp [monthLen, hl] <;> omega
  · have hl' := hl
    simp only [gLeap, Bool.or_eq_true, Bool.and_eq_true, beq_iff_eq, bne_iff_ne, not_or, not_and] at hl'
    interval_cases m <;> simp [monthLen, hl] <;> omega

theorem monthLen_ge (y m : Int) : 28 ≤ monthLen y m := by
  simp only [monthLen]; split_ifs <;> omega

theorem serial_first_mono (y m : Int) (hm : 1 ≤ m) :
    ∀ k : Nat, m + 1 + k ≤ 12 → serial 1 m y + monthLen y m ≤ serial 1 (m + 1 + k) y
  | 0, h => by
    simp only [Nat.cast_zero, add_zero] at h ⊢
    rw [serial_month_step m y ⟨hm, by omega⟩]
  | k + 1, h => by
    have ih := serial_first_mono y m hm k (by omega)
    have st := serial_month_step (m + 1 + k) y ⟨by omega, by omega⟩
    have := monthLen_ge y (m + 1 + k)
    have e : m + 1 + ((k + 1 : Nat) : Int) = m + 1 + (k : Int) + 1 := by push_cast; ring
    rw [e, st]; omega

/-- (year, month, day) order, strict -/
def LexLt (a b : PyDate) : Prop := a.y < b.y ∨ (a.y = b.y ∧ (a.m < b.m ∨ (a.m = b.m ∧ a.d < b.d)))

/-- For valid dates the serial number is strictly increasing in (year, month, day). -/
theorem serial_lt_of_lex_lt (a b : PyDate) (hva : Valid a.d a.m a.y) (hvb : Valid b.d b.m b.y) (h : LexLt a b) :
    serial a.d a.m a.y < serial b.d b.m b.y := by
  rcases h with hy | ⟨hy, hm | ⟨hm, hd⟩⟩
  · have h1 := (serial_in_year _ _ _ hva).2
    have h2 := (serial_in_year _ _ _ hvb).1
    obtain ⟨k, hk⟩ : ∃ k : Nat, b.y = a.y + 1 + k := ⟨(b.y - a.y - 1).toNat, by omega⟩
    have := J_mono_step (a.y + 1) k
    rw [← hk] at this
    omega
  · obtain ⟨a1, a2, a3, a4⟩ := hva
    obtain ⟨b1, b2, b3, b4⟩ := hvb
    obtain ⟨k, hk⟩ : ∃ k : Nat, b.m = a.m + 1 + k := ⟨(b.m - a.m - 1).toNat, by omega⟩
    have := serial_first_mono a.y a.m a1 k (by omega)
    rw [← hk, hy] at this
    rw [serial_day a.d, serial_day b.d, hy]
    rw [hy] at a4
    omega
  · rw [serial_day a.d, serial_day b.d, hy, hm]; omega

/-- … hence a strictly smaller serial number means strictly earlier in (year, month, day). -/
theorem lex_lt_of_serial_lt (a b : PyDate) (hva : Valid a.d a.m a.y) (hvb : Valid b.d b.m b.y)
    (h : serial a.d a.m a.y < serial b.d b.m b.y) : LexLt a b := by
  by_contra hn
  by_cases heq : a.y = b.y ∧ a.m = b.m ∧ a.d = b.d
  · obtain ⟨e1, e2, e3⟩ := heq; rw [e1, e2, e3] at h; omega
  · have : LexLt b a := by
      simp only [LexLt] at hn ⊢
      omega
    have := serial_lt_of_lex_lt b a hvb hva this
    omega

/-- C15 sign, 30/360 family, with the period measured by serial numbers: if the start date is before the end date
(valid calendar dates, `serial` the specification's day number) then under all four 30/360 conventions and both flag
values the fraction is ≥ 0, and it is 0 exactly for the 30th → 31st of one month under 30/360 Bond, 30E/360 and
30E/360 ISDA.  So the clause "the fraction has the sign of (end − start)" holds for the 30/360 family except that a
positive (resp. negative) period can have fraction 0 in the listed corners — never the opposite sign. -/
theorem thirty360_sign_of_serial_lt (a b : PyDate) (dt3 : Option PyDate) (f : Int) (term : Bool) (dcc : Int)
    (h : dcc = 1 ∨ dcc = 2 ∨ dcc = 3 ∨ dcc = 4)
    (hva : Valid a.d a.m a.y) (hsa : a.serial = serial a.d a.m a.y)
    (hvb : Valid b.d b.m b.y) (hsb : b.serial = serial b.d b.m b.y)
    (hlt : a.serial < b.serial) :
    0 ≤ fracOf (year_frac a b dt3 f term dcc) ∧
      (fracOf (year_frac a b dt3 f term dcc) = 0 ↔
        (dcc ≠ 4 ∧ a.y = b.y ∧ a.m = b.m ∧ a.d = 30 ∧ b.d = 31)) := by
  rw [hsa, hsb] at hlt
  have hl := lex_lt_of_serial_lt a b hva hvb hlt
  obtain ⟨a1, a2, a3, a4⟩ := hva
  obtain ⟨b1, b2, b3, b4⟩ := hvb
  have ha31 : a.d ≤ 31 := by
    have : monthLen a.y a.m ≤ 31 := by simp only [monthLen]; split_ifs <;> omega
    omega
  apply thirty360_forward_zero_iff a b dt3 f term dcc h ⟨a3, ha31⟩ ⟨b3, b4⟩
  simp only [LexLt] at hl
  simp only [monthIdx]
  omega

/-- … and the mirror image: end before start ⇒ fraction ≤ 0, zero exactly in the two listed corners. -/
theorem thirty360_sign_of_serial_gt (a b : PyDate) (dt3 : Option PyDate) (f : Int) (term : Bool) (dcc : Int)
    (h : dcc = 1 ∨ dcc = 2 ∨ dcc = 3 ∨ dcc = 4)
    (hva : Valid a.d a.m a.y) (hsa : a.serial = serial a.d a.m a.y)
    (hvb : Valid b.d b.m b.y) (hsb : b.serial = serial b.d b.m b.y)
    (hlt : b.serial < a.serial) :
    fracOf (year_frac a b dt3 f term dcc) ≤ 0 ∧
      (fracOf (year_frac a b dt3 f term dcc) = 0 ↔
        ((a.y = b.y ∧ a.m = b.m ∧ a.d = 31 ∧ b.d = 30) ∨
         ((dcc = 1 ∨ dcc = 4) ∧ monthIdx a = monthIdx b + 1 ∧ a.d = 1 ∧ b.d = 31))) := by
  rw [hsa, hsb] at hlt
  have hl := lex_lt_of_serial_lt b a hvb hva hlt
  obtain ⟨a1, a2, a3, a4⟩ := hva
  obtain ⟨b1, b2, b3, b4⟩ := hvb
  have hb31 : b.d ≤ 31 := by
    have : monthLen b.y b.m ≤ 31 := by simp only [monthLen]; split_ifs <;> omega
    omega
  apply thirty360_backward_zero_iff a b dt3 f term dcc h ⟨a3, a4⟩ ⟨b3, hb31⟩
  simp only [LexLt] at hl
  simp only [monthIdx]
  omega

/-- non-vacuity: 31 Jan 2021 → 28 Feb 2021 (28 days) is 28/360 under 30/360 Bond, ≥ 0 as the theorem says. -/
example : 0 ≤ fracOf (year_frac (Spec.mkDateS 31 1 2021) (Spec.mkDateS 28 2 2021) none 1 false 1) :=
  (thirty360_sign_of_serial_lt _ _ none 1 false 1 (Or.inl rfl) (by decide) rfl (by decide) rfl (by decide +kernel)).1

/-! ### ACT/ACT ISDA lies between ACT/366 and ACT/365 -/

theorem J_diff_bounds (y : Int) : ∀ k : Nat, 365 * (k : Int) ≤ J (y + k) - J y ∧ J (y + k) - J y ≤ 366 * (k : Int)
  | 0 => by simp
  | k + 1 => by
    have ih := J_diff_bounds y k
    have st := J_step (y + k)
    have hc := yearLen_cases (y + k)
    have e : y + ((k + 1 : Nat) : Int) = y + (k : Int) + 1 := by push_cast; ring
    rw [e, st]; push_cast; omega

theorem div_between (n : Int) (L : Int) (hn : 0 ≤ n) (hL : L = 365 ∨ L = 366) :
    ((n : Int) : Rat) / 366 ≤ ((n : Int) : Rat) / (L : Int) ∧ ((n : Int) : Rat) / (L : Int) ≤ ((n : Int) : Rat) / 365 := by
  have hn' : (0 : Rat) ≤ ((n : Int) : Rat) := by exact_mod_cast hn
  rcases hL with h | h <;> rw [h] <;> push_cast <;> constructor <;>
    first
      | exact le_refl _
      | exact div_le_div_of_nonneg_left hn' (by norm_num) (by norm_num)

/-- C15 ACT/ACT ISDA, forward period, all dates from 1901 inside their calendar years: the fraction lies between
(actual days)/366 and (actual days)/365 — equal to ACT/365F exactly when no day of the period falls in a leap year. -/
theorem act_act_isda_between_366_and_365 (a b : PyDate) (dt3 : Option PyDate) (f : Int) (term : Bool)
    (ha : 1901 ≤ a.y)
    (hina : J a.y ≤ a.serial ∧ a.serial < J (a.y + 1)) (hinb : J b.y ≤ b.serial ∧ b.serial < J (b.y + 1))
    (hle : a.serial ≤ b.serial) :
    ((b.serial - a.serial : Int) : Rat) / 366 ≤ fracOf (year_frac a b dt3 f term 5) ∧
      fracOf (year_frac a b dt3 f term 5) ≤ ((b.serial - a.serial : Int) : Rat) / 365 := by
  have hyle : a.y ≤ b.y := by
    by_contra hc
    obtain ⟨k, hk⟩ : ∃ k : Nat, a.y = b.y + 1 + k := ⟨(a.y - b.y - 1).toNat, by omega⟩
    have := J_mono_step (b.y + 1) k
    rw [← hk] at this
    omega
  rcases Int.lt_or_eq_of_le hyle with hy | hy
  · rw [year_frac_act_act_isda_diff_year_shape a b dt3 f term (by omega) ha (by omega)]
    obtain ⟨k, hk⟩ : ∃ k : Nat, b.y = a.y + 1 + k := ⟨(b.y - a.y - 1).toNat, by omega⟩
    obtain ⟨jl, ju⟩ := J_diff_bounds (a.y + 1) k
    rw [← hk] at jl ju
    obtain ⟨s1l, s1u⟩ := div_between (J (a.y + 1) - a.serial) (yearLen a.y) (by omega) (yearLen_cases a.y)
    obtain ⟨s2l, s2u⟩ := div_between (b.serial - J b.y) (yearLen b.y) (by omega) (yearLen_cases b.y)
    have ek : ((b.y - a.y - 1 : Int) : Rat) = (k : Rat) := by
      have : b.y - a.y - 1 = (k : Int) := by omega
      rw [this]; push_cast; rfl
    have jl' : (365 : Rat) * (k : Rat) ≤ ((J b.y - J (a.y + 1) : Int) : Rat) := by exact_mod_cast jl
    have ju' : ((J b.y - J (a.y + 1) : Int) : Rat) ≤ (366 : Rat) * (k : Rat) := by exact_mod_cast ju
    have split : ((b.serial - a.serial : Int) : Rat) =
        ((J (a.y + 1) - a.serial : Int) : Rat) + ((b.serial - J b.y : Int) : Rat) + ((J b.y - J (a.y + 1) : Int) : Rat) := by
      push_cast; ring
    rw [ek, split]
    constructor
    · have : ((J b.y - J (a.y + 1) : Int) : Rat) / 366 ≤ (k : Rat) := by
        rw [div_le_iff₀ (by norm_num)]; linarith
      rw [add_div, add_div]; linarith
    · have : (k : Rat) ≤ ((J b.y - J (a.y + 1) : Int) : Rat) / 365 := by
        rw [le_div_iff₀ (by norm_num)]; linarith
      rw [add_div, add_div]; linarith
  · rw [year_frac_act_act_isda_same_year a b dt3 f term hy]
    exact div_between (b.serial - a.serial) (yearLen a.y) (by omega) (yearLen_cases a.y)

end FinVerif.Props.C15
