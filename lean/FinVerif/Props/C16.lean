/-
  C16 — schedules are well-formed roll schedules.  Theorems about `Schedule.generate` as modelled in
  `FinVerif.Sched` (generic in the calendar adjustment and month arithmetic, so they hold for the model
  of the code and for the spec instantiation alike), for EVERY input — no bound on the number of periods:

  * whatever `generate` returns is strictly increasing with at least two dates, or it is the library's
    error (`dedup_*`, `generate_strictly_increasing`);
  * the first date is the effective date, unadjusted (`generate_first_is_effective`);
  * the last date is the termination date, adjusted iff requested (`generate_last_is_termination`);
  * roll dates are computed from the anchor by whole multiples of the period — no drift
    (`backwardLoop_rolls`, `forwardLoop_rolls`);
  * regenerating returns the same dates when the termination date is not moved by adjustment
    (`regenerate_fixed_point_partial`); the full statement fails on the code as it is
    (`regenerate_not_fixed_point`, a kernel-checked counterexample; known finding C16/regenerate-reanchors).
-/
import FinVerif.Core.ScheduleAlgo
import FinVerif.Model.Schedule
import Mathlib.Tactic.Ring

set_option linter.unusedVariables false

namespace FinVerif.Props.C16
open FinVerif FinVerif.Sched

/-- strictly increasing by serial number -/
def StrictInc : List PyDate → Prop
  | [] => True
  | [_] => True
  | a :: b :: rest => a.serial < b.serial ∧ StrictInc (b :: rest)

theorem strictInc_cons (a : PyDate) (l : List PyDate) (h : StrictInc l)
    (hh : ∀ b, l.head? = some b → a.serial < b.serial) : StrictInc (a :: l) := by
  cases l with
  | nil => trivial
  | cons b rest => exact ⟨hh b rfl, h⟩

/-- `dedup` returns a list that starts with `prev`, is strictly increasing, and ends on a date with
the serial of the last input date. -/
theorem dedup_spec (prev : PyDate) (l r : List PyDate) (h : dedup prev l = .ok r) :
    r.head? = some prev ∧ StrictInc r ∧
      (r.getLast?.map (·.serial)) = ((prev :: l).getLast?.map (·.serial)) := by
  induction l generalizing prev r with
  | nil =>
    simp only [dedup, Except.ok.injEq] at h; subst h
    exact ⟨rfl, trivial, rfl⟩
  | cons dt rest ih =>
    simp only [dedup] at h
    split at h
    · cases h
    · split at h
      · rename_i hlt hgt
        split at h
        · cases h
        · rename_i r' hr'
          simp only [Except.ok.injEq] at h; subst h
          obtain ⟨hh, hs, hl⟩ := ih dt r' hr'
          refine ⟨rfl, ?_, ?_⟩
          · refine strictInc_cons prev r' hs ?_
            intro b hb; rw [hh] at hb; cases hb; exact hgt
          · have hne : r' ≠ [] := by intro e; rw [e] at hh; cases hh
            rw [List.getLast?_cons_of_ne_nil hne, hl]
            simp [List.getLast?_cons_cons]
      · rename_i hlt hgt
        obtain ⟨hh, hs, hl⟩ := ih prev r h
        refine ⟨hh, hs, ?_⟩
        rw [hl]
        have he : dt.serial = prev.serial := by omega
        cases rest with
        | nil => simp [he]
        | cons x xs => simp [List.getLast?_cons_cons]

variable (o : Ops)

theorem mapE_length {α β} (f : α → Except PyErr β) (l : List α) (r : List β) (h : mapE f l = .ok r) :
    r.length = l.length := by
  induction l generalizing r with
  | nil => simp [mapE] at h; subst h; rfl
  | cons a as ih =>
    simp only [mapE] at h
    split at h
    · cases h
    · split at h
      · cases h
      · rename_i bs hbs
        simp only [Except.ok.injEq] at h; subst h
        simp [ih bs hbs]

/-- the forward loop only ever appends to its accumulator -/
theorem forwardLoop_rolls_aux (p : Params) (fuel k : Nat) (next : PyDate) (acc l : List PyDate)
    (h : forwardLoop o p fuel k next acc = .ok l) : ∃ rolls : List PyDate, l = acc ++ rolls ∧ True ∧ True := by
  induction fuel generalizing k next acc with
  | zero => simp [forwardLoop] at h
  | succ n ih =>
    unfold forwardLoop at h
    by_cases hlt : next.serial < p.termination.serial
    · simp only [hlt, if_true] at h
      split at h
      · cases h
      · obtain ⟨rolls, hl, _, _⟩ := ih _ _ _ h
        exact ⟨next :: rolls, by simp [hl], trivial, trivial⟩
    · simp only [hlt, if_false, Except.ok.injEq] at h
      exact ⟨[], by simp [h], trivial, trivial⟩

/-- unpack a successful `post` -/
theorem post_ok (p : Params) (ds : List PyDate) (r : Result) (h : post o p ds = .ok r) :
    ∃ (t' : PyDate) (first : PyDate) (rest : List PyDate),
      (if p.adjustTermination then o.adjust p.termination = .ok t' else t' = p.termination) ∧
      (if p.adjustTermination then (p.effective :: ds.drop 1).dropLast ++ [t'] else p.effective :: ds.drop 1)
        = first :: rest ∧
      dedup first rest = .ok r.dates ∧ 2 ≤ r.dates.length ∧ r.termination = t' := by
  unfold post at h
  simp only at h
  by_cases hat : p.adjustTermination = true
  · simp only [hat, if_true] at h ⊢
    cases ha : o.adjust p.termination with
    | error e => simp [ha] at h
    | ok t' =>
      simp only [ha] at h
      split at h
      · cases h
      · rename_i first rest heq
        cases hd : dedup first rest with
        | error e => simp [hd] at h
        | ok out =>
          simp only [hd] at h
          split at h
          · cases h
          · simp only [Except.ok.injEq] at h; subst h
            exact ⟨t', first, rest, rfl, heq, hd, by simp only; omega, rfl⟩
  · have hat' : p.adjustTermination = false := by simpa using hat
    simp only [hat', Bool.false_eq_true, if_false] at h ⊢
    simp only [List.drop_one] at h
    cases hd : dedup p.effective ds.tail with
    | error e => simp [hd] at h
    | ok out =>
      simp only [hd] at h
      split at h
      · cases h
      · simp only [Except.ok.injEq] at h; subst h
        exact ⟨p.termination, p.effective, ds.tail, rfl, by simp, hd, by simp only; omega, rfl⟩

/-- C16: a returned schedule is strictly increasing and has at least two dates (otherwise the
library's error is raised). -/
theorem generate_strictly_increasing (p : Params) (fuel : Nat) (r : Result)
    (h : generate o p fuel = .ok r) : StrictInc r.dates ∧ 2 ≤ r.dates.length := by
  unfold generate at h
  split at h
  · cases h
  · split at h
    · cases h
    · rename_i ds hds
      obtain ⟨t', first, rest, _, _, hd, hlen, _⟩ := post_ok o p ds r h
      exact ⟨(dedup_spec first rest r.dates hd).2.1, hlen⟩

/-- C16: the first date of a returned schedule is the effective date itself (never adjusted). -/
theorem generate_first_is_effective (p : Params) (fuel : Nat) (r : Result)
    (h : generate o p fuel = .ok r) : r.dates.head? = some p.effective := by
  unfold generate at h
  split at h
  · cases h
  · split at h
    · cases h
    · rename_i ds hds
      obtain ⟨t', first, rest, _, heq, hd, hlen, _⟩ := post_ok o p ds r h
      have hfirst := (dedup_spec first rest r.dates hd).1
      rw [hfirst]
      by_cases hat : p.adjustTermination = true
      · simp only [hat, if_true] at heq
        cases hdr : List.drop 1 ds with
        | nil =>
          rw [hdr] at heq
          simp at heq
          obtain ⟨e1, e2⟩ := heq
          subst e2
          simp [dedup] at hd
          rw [← hd] at hlen
          simp at hlen
        | cons x xs =>
          rw [hdr] at heq
          simp [List.dropLast] at heq
          exact congrArg some heq.1.symm
      · have hat' : p.adjustTermination = false := by simpa using hat
        simp only [hat', Bool.false_eq_true, if_false] at heq
        simp at heq
        exact congrArg some heq.1.symm

/-- C16: the last date of a returned schedule falls on the termination date — adjusted iff requested —
and that is the termination date the schedule reports. (Stated on serial numbers: when the last roll
date and the termination date coincide after adjustment they are one date.) -/
theorem generate_last_is_termination (p : Params) (fuel : Nat) (r : Result)
    (h : generate o p fuel = .ok r)
    (hbody : ∀ ds, body o p fuel = .ok ds → 2 ≤ ds.length ∧ ds.getLast? = some p.termination) :
    r.dates.getLast?.map (·.serial) = some r.termination.serial ∧
      (if p.adjustTermination then o.adjust p.termination = .ok r.termination else r.termination = p.termination) := by
  unfold generate at h
  split at h
  · cases h
  · split at h
    · cases h
    · rename_i ds hds
      obtain ⟨hlen2, hlast⟩ := hbody ds hds
      obtain ⟨t', first, rest, ht', heq, hd, hlen, hterm⟩ := post_ok o p ds r h
      have hl := (dedup_spec first rest r.dates hd).2.2
      refine ⟨?_, by rw [hterm]; exact ht'⟩
      rw [hl, ← heq, hterm]
      by_cases hat : p.adjustTermination = true
      · simp [hat]
      · have hat' : p.adjustTermination = false := by simpa using hat
        simp only [hat', Bool.false_eq_true, if_false] at ht' ⊢
        subst ht'
        -- last of effective :: ds.drop 1 is the last of ds because ds has at least two dates
        cases ds with
        | nil => simp at hlen2
        | cons a as =>
          cases as with
          | nil => simp at hlen2
          | cons b bs =>
            simp only [List.drop_succ_cons, List.drop_zero]
            have : (a :: b :: bs).getLast? = (b :: bs).getLast? := by simp [List.getLast?_cons_cons]
            rw [this] at hlast
            simp [List.getLast?_cons_cons, hlast]

/-- both generation branches end their list with the unadjusted termination date and produce at least
two dates when the effective date is before the termination date -/
theorem body_ends_with_termination (p : Params) (fuel : Nat) (ds : List PyDate)
    (hlt : p.effective.serial < p.termination.serial) (h : body o p fuel = .ok ds) :
    2 ≤ ds.length ∧ ds.getLast? = some p.termination := by
  unfold body at h
  split at h
  · split at h
    · cases h
    · simp only at h
      split at h
      · cases h
      · simp only [Except.ok.injEq] at h; subst h
        refine ⟨by simp, ?_⟩
        rw [List.getLast?_append]
        simp
  · split at h
    · cases h
    · rename_i un hun
      split at h
      · cases h
      · rename_i adj hadj
        simp only [Except.ok.injEq] at h; subst h
        refine ⟨?_, by simp⟩
        -- the forward loop appends at least the effective date once more, so `adj` is non-empty
        cases fuel with
        | zero => simp [forwardLoop] at hun
        | succ n =>
          unfold forwardLoop at hun
          simp only [hlt, if_true] at hun
          split at hun
          · cases hun
          · rename_i nd hnd
            obtain ⟨rolls, hl, _, _⟩ := forwardLoop_rolls_aux o p n 2 nd ([p.effective] ++ [p.effective]) un hun
            have : 2 ≤ un.length := by rw [hl]; simp
            have hd1 : 1 ≤ (un.drop 1).length := by simp; omega
            have hadjlen := mapE_length o.adjust (un.drop 1) adj hadj
            simp; omega

/-- C16: for an effective date before the termination date, the last date of every returned schedule is
the termination date, adjusted iff requested. -/
theorem schedule_last_is_termination (p : Params) (fuel : Nat) (r : Result)
    (hlt : p.effective.serial < p.termination.serial) (h : generate o p fuel = .ok r) :
    r.dates.getLast?.map (·.serial) = some r.termination.serial ∧
      (if p.adjustTermination then o.adjust p.termination = .ok r.termination else r.termination = p.termination) :=
  generate_last_is_termination o p fuel r h (fun ds hds => body_ends_with_termination o p fuel ds hlt hds)

/-- The full statement of "regenerating the schedule returns the same dates". -/
def RegenerateFixedPoint : Prop :=
  ∀ (eff term : PyDate) (nm cal conv : Int) (bw at_ eo : Bool),
    Model.schedule eff term nm cal conv bw at_ eo true = Model.schedule eff term nm cal conv bw at_ eo false

/-- C16 (partial): regeneration is a fixed point whenever the first `generate()` leaves the
termination date as it was — i.e. the termination date is not adjusted (`adjust_termination = False`,
or it already is a business day).  `generate()` overwrites `termination_dt` with the adjusted date and
a second call anchors on that. -/
theorem regenerate_fixed_point_partial (eff term : PyDate) (nm cal conv : Int) (bw at_ eo : Bool)
    (h : ∀ r, Sched.generate (Model.schedOps cal conv)
          { effective := eff, termination := term, numMonths := nm, backward := bw,
            adjustTermination := at_, endOfMonth := eo } 5000 = .ok r → r.termination = term) :
    Model.schedule eff term nm cal conv bw at_ eo true = Model.schedule eff term nm cal conv bw at_ eo false := by
  simp only [Model.schedule]
  split
  · rfl
  · split
    · rfl
    · rename_i r hr
      have := h r hr
      simp only [this, hr, if_true]
      rfl

/-- With `adjust_termination = False` the reported termination date is the given one, so the
hypothesis of `regenerate_fixed_point_partial` holds. -/
theorem termination_unchanged_without_adjust (p : Params) (fuel : Nat) (r : Result)
    (hat : p.adjustTermination = false) (h : generate o p fuel = .ok r) : r.termination = p.termination := by
  unfold generate at h
  split at h
  · cases h
  · split at h
    · cases h
    · rename_i ds hds
      obtain ⟨t', _, _, ht', _, _, _, hterm⟩ := post_ok o p ds r h
      simp only [hat, Bool.false_eq_true, if_false] at ht'
      rw [hterm, ht']

/-- Counterexample to the full statement on the code as it is: WEEKEND calendar, FOLLOWING, BACKWARD,
monthly, 6 Jan 2020 → Saturday 6 Jun 2020: the first generation rolls on the 6th (6 Feb, 6 Mar, …),
a second `generate()` rolls on the 8th (8 Jan, 10 Feb, 9 Mar, …). -/
def daysOf (r : Except PyErr (List PyDate)) : List Int :=
  match r with | .ok l => l.map (fun (d : PyDate) => d.d) | .error _ => []

theorem regenerate_not_fixed_point : ¬ RegenerateFixedPoint := by
  intro h
  have e := congrArg daysOf (h (Model.mkDate 6 1 2020) (Model.mkDate 6 6 2020) 1 2 2 true true false)
  revert e
  decide +kernel

/-- The k-th BACKWARD roll date: `k` whole periods before the termination date, computed from the
termination date itself (month-end when the flag is set). -/
def rollB (p : Params) (k : Nat) : Except PyErr PyDate :=
  match o.addMonths p.termination (-(p.numMonths * (k : Int))) with
  | .error e => .error e
  | .ok nd => if p.endOfMonth then o.eom nd else .ok nd

/-- C16 no drift (BACKWARD): every date the loop appends after `next` is a roll date `rollB k` for
consecutive `k`, i.e. whole multiples of the period from the anchor. -/
theorem backwardLoop_rolls (p : Params) (fuel k : Nat) (next : PyDate) (acc l : List PyDate)
    (h : backwardLoop o p fuel k next acc = .ok l) :
    ∃ rolls : List PyDate, l = acc ++ [next] ++ rolls ∧
      ∀ i (hi : i < rolls.length), rollB o p (k + 1 + i) = .ok (rolls[i]) := by
  induction fuel generalizing k next acc with
  | zero => simp [backwardLoop] at h
  | succ n ih =>
    unfold backwardLoop at h
    by_cases hgt : next.serial > p.effective.serial
    · simp only [hgt, if_true] at h
      have e : -(p.numMonths * (1 + (k : Int))) = -(p.numMonths * ((k + 1 + 0 : Nat) : Int)) := by
        push_cast; ring
      cases hadd : o.addMonths p.termination (-(p.numMonths * (1 + (k : Int)))) with
      | error er => simp [hadd] at h
      | ok nd =>
        simp only [hadd] at h
        by_cases heom : p.endOfMonth = true
        · simp only [heom, if_true] at h
          cases hem : o.eom nd with
          | error er => simp [hem] at h
          | ok nd' =>
            simp only [hem] at h
            obtain ⟨rolls, hl, hr⟩ := ih (k + 1) nd' (acc ++ [next]) h
            refine ⟨nd' :: rolls, by simp [hl], ?_⟩
            intro i hi
            cases i with
            | zero => simp only [rollB, ← e, hadd, heom, if_true, hem, List.getElem_cons_zero]
            | succ j =>
              have := hr j (by simpa using hi)
              have e2 : k + 1 + (j + 1) = k + 1 + 1 + j := by omega
              simp only [List.getElem_cons_succ, e2]
              exact this
        · simp only [heom] at h
          obtain ⟨rolls, hl, hr⟩ := ih (k + 1) nd (acc ++ [next]) h
          refine ⟨nd :: rolls, by simp [hl], ?_⟩
          intro i hi
          cases i with
          | zero =>
            have hf : p.endOfMonth = false := by simpa using heom
            simp only [rollB, ← e, hadd, hf, List.getElem_cons_zero]
            rfl
          | succ j =>
            have := hr j (by simpa using hi)
            have e2 : k + 1 + (j + 1) = k + 1 + 1 + j := by omega
            simp only [List.getElem_cons_succ, e2]
            exact this
    · simp only [hgt, if_false, Except.ok.injEq] at h
      exact ⟨[], by simp [h], by intro i hi; simp at hi⟩

/-- The k-th FORWARD roll date: `k` whole periods after the effective date, computed from the
effective date itself. -/
def rollF (p : Params) (k : Nat) : Except PyErr PyDate := o.addMonths p.effective (p.numMonths * (k : Int))

/-- C16 no drift (FORWARD): the dates appended by the loop are `rollF k` for consecutive `k`. -/
theorem forwardLoop_rolls (p : Params) (fuel k : Nat) (next : PyDate) (acc l : List PyDate)
    (h : forwardLoop o p fuel k next acc = .ok l) :
    ∃ rolls : List PyDate, (l = acc ++ rolls) ∧ (rolls = [] ∨ rolls.head? = some next) ∧
      ∀ i (hi : i + 1 < rolls.length), rollF o p (k + i) = .ok (rolls[i + 1]) := by
  induction fuel generalizing k next acc with
  | zero => simp [forwardLoop] at h
  | succ n ih =>
    unfold forwardLoop at h
    by_cases hlt : next.serial < p.termination.serial
    · simp only [hlt, if_true] at h
      cases hadd : o.addMonths p.effective (p.numMonths * (k : Int)) with
      | error er => simp [hadd] at h
      | ok nd =>
        simp only [hadd] at h
        obtain ⟨rolls, hl, hh, hr⟩ := ih (k + 1) nd (acc ++ [next]) h
        refine ⟨next :: rolls, by simp [hl], Or.inr rfl, ?_⟩
        intro i hi
        cases i with
        | zero =>
          rcases hh with hh | hh
          · subst hh; simp at hi
          · cases rolls with
            | nil => simp at hi
            | cons x xs =>
              simp at hh; subst hh
              simp [rollF, hadd]
        | succ j =>
          have := hr j (by simpa using hi)
          have e2 : k + (j + 1) = k + 1 + j := by omega
          simp only [List.getElem_cons_succ, e2]
          exact this
    · simp only [hlt, if_false, Except.ok.injEq] at h
      exact ⟨[], by simp [h], Or.inl rfl, by intro i hi; simp at hi⟩

/-- Non-vacuity: the model of a 1-year quarterly US schedule from Saturday 4 Jan 2020 (FORWARD,
FOLLOWING) starts on the unadjusted Saturday. -/
example : (match Model.schedule (Model.mkDate 4 1 2020) (Model.mkDate 4 1 2021) 3 14 2 false true false false with
    | .ok l => l.map (fun d => (d.d, d.m, d.y)) | .error _ => []) =
    [(4, 1, 2020), (6, 4, 2020), (6, 7, 2020), (5, 10, 2020), (4, 1, 2021)] := by decide +kernel

end FinVerif.Props.C16
