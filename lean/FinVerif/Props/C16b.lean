/-
  C16 — the CDS premium-leg roll schedule (`CDS._generate_adjusted_cds_payment_dts`, modelled in
  `FinVerif.Sched.cdsGenerate`).  For EVERY step-in date, maturity date, period and calendar adjustment:

  * the unadjusted dates are whole multiples of the period from the anchor — no drift
    (`cdsBackLoop_rolls`, `cdsFwdLoop_rolls`);
  * every payment date is the business-day adjustment of such a roll date, none is lost
    (`cds_payments_are_adjusted_rolls`);
  * the last payment date is the adjusted maturity date (`cds_last_payment_is_adjusted_maturity`);
  * accrual periods chain: each accrual start after the first is the previous payment date, and there are
    as many accrual periods as payments (`cds_accrual_chain`).
-/
import FinVerif.Core.CDSAlgo
import FinVerif.Model.Schedule
import FinVerif.Props.C16

set_option linter.unusedVariables false

namespace FinVerif.Props.C16
open FinVerif FinVerif.Sched

variable (o : Ops)

/-- the k-th unadjusted BACKWARD roll date of a CDS: k whole periods before maturity -/
def cdsRollB (maturity : PyDate) (nm : Int) (k : Nat) : Except PyErr PyDate :=
  o.addMonths maturity (-(nm * (k : Int)))

/-- the k-th unadjusted FORWARD roll date of a CDS: k whole periods after the step-in date -/
def cdsRollF (stepIn : PyDate) (nm : Int) (k : Nat) : Except PyErr PyDate :=
  o.addMonths stepIn (nm * (k : Int))

/-- C16 no drift (CDS, BACKWARD): the dates appended are `cdsRollB (k+1+i)` for consecutive `i`. -/
theorem cdsBackLoop_rolls (stepIn maturity : PyDate) (nm : Int) (fuel k : Nat) (next : PyDate)
    (acc l : List PyDate) (h : cdsBackLoop o stepIn maturity nm fuel k next acc = .ok l) :
    ∃ rolls : List PyDate, l = acc ++ rolls ∧
      ∀ i (hi : i < rolls.length), cdsRollB o maturity nm (k + 1 + i) = .ok (rolls[i]) := by
  induction fuel generalizing k next acc with
  | zero => simp [cdsBackLoop] at h
  | succ n ih =>
    unfold cdsBackLoop at h
    by_cases hgt : next.serial > stepIn.serial
    · rw [if_pos hgt] at h
      cases hadd : o.addMonths maturity (-(nm * ((k + 1 : Nat) : Int))) with
      | error er => rw [hadd] at h; cases h
      | ok nd =>
        simp only [hadd] at h
        obtain ⟨rolls, hl, hr⟩ := ih (k + 1) nd (acc ++ [nd]) h
        refine ⟨nd :: rolls, by simp [hl], ?_⟩
        intro i hi
        cases i with
        | zero =>
          simp only [cdsRollB, Nat.add_zero, List.getElem_cons_zero]; exact hadd
        | succ j =>
          have := hr j (by simpa using hi)
          have e2 : k + 1 + (j + 1) = k + 1 + 1 + j := by omega
          simp only [List.getElem_cons_succ, e2]
          exact this
    · simp only [hgt, if_false, Except.ok.injEq] at h
      exact ⟨[], by simp [h], by intro i hi; simp at hi⟩

/-- C16 no drift (CDS, FORWARD): with `next = cdsRollF k`, the dates appended are `cdsRollF (k+i)`. -/
theorem cdsFwdLoop_rolls (stepIn maturity : PyDate) (nm : Int) (fuel k : Nat) (next : PyDate)
    (acc l : List PyDate) (hn : cdsRollF o stepIn nm k = .ok next)
    (h : cdsFwdLoop o stepIn maturity nm fuel k next acc = .ok l) :
    ∃ rolls : List PyDate, l = acc ++ rolls ∧
      ∀ i (hi : i < rolls.length), cdsRollF o stepIn nm (k + i) = .ok (rolls[i]) := by
  induction fuel generalizing k next acc with
  | zero => simp [cdsFwdLoop] at h
  | succ n ih =>
    unfold cdsFwdLoop at h
    by_cases hlt : next.serial < maturity.serial
    · rw [if_pos hlt] at h
      cases hadd : o.addMonths stepIn (nm * ((k + 1 : Nat) : Int)) with
      | error er => rw [hadd] at h; cases h
      | ok nd =>
        simp only [hadd] at h
        obtain ⟨rolls, hl, hr⟩ := ih (k + 1) nd (acc ++ [next]) hadd h
        refine ⟨next :: rolls, by simp [hl], ?_⟩
        intro i hi
        cases i with
        | zero => simpa using hn
        | succ j =>
          have := hr j (by simpa using hi)
          have e2 : k + (j + 1) = k + 1 + j := by omega
          simp only [List.getElem_cons_succ, e2]
          exact this
    · simp only [hlt, if_false, Except.ok.injEq] at h
      exact ⟨[], by simp [h], by intro i hi; simp at hi⟩

theorem mapE_getElem {α β} (f : α → Except PyErr β) (l : List α) (r : List β) (h : mapE f l = .ok r)
    (i : Nat) (hi : i < l.length) (hi' : i < r.length) : f l[i] = .ok r[i] := by
  induction l generalizing r i with
  | nil => simp at hi
  | cons a as ih =>
    simp only [mapE] at h
    cases hfa : f a with
    | error e => simp [hfa] at h
    | ok b =>
      simp only [hfa] at h
      cases hm : mapE f as with
      | error e => simp [hm] at h
      | ok bs =>
        simp only [hm, Except.ok.injEq] at h; subst h
        cases i with
        | zero => simpa using hfa
        | succ j => simpa using ih bs hm j (by simpa using hi) (by simpa using hi')

/-- C16 (CDS): what `cdsGenerate` returns is, position by position, the adjustment of the unadjusted roll
dates: nothing is lost, nothing inserted; the first unadjusted date (the previous coupon date) is the first
accrual start and is not a payment date. -/
theorem cds_payments_are_adjusted_rolls (stepIn maturity : PyDate) (nm : Int) (bw : Bool) (fuel : Nat)
    (r : CdsDates) (h : cdsGenerate o stepIn maturity nm bw fuel = .ok r) :
    ∃ un : List PyDate, cdsUnadjusted o stepIn maturity nm bw fuel = .ok un ∧
      r.payment.length + 1 = un.length ∧
      ∀ i (hi : i < r.payment.length) (hu : i + 1 < un.length), o.adjust un[i + 1] = .ok r.payment[i] := by
  unfold cdsGenerate at h
  split at h
  · cases h
  · split at h
    · cases h
    · cases hun : cdsUnadjusted o stepIn maturity nm bw fuel with
      | error e => simp [hun] at h
      | ok un =>
        simp only [hun] at h
        cases hm : mapE o.adjust un with
        | error e => simp [hm] at h
        | ok adj =>
          simp only [hm, Except.ok.injEq] at h; subst h
          have hlen := mapE_length o.adjust un adj hm
          have hne : un ≠ [] := by
            intro e
            unfold cdsUnadjusted at hun
            split at hun
            · split at hun
              · cases hun
              · rename_i un' hb
                obtain ⟨rolls, hl, _⟩ := cdsBackLoop_rolls o stepIn maturity nm fuel 0 maturity [maturity] un' hb
                simp only [Except.ok.injEq] at hun
                rw [hl] at hun; rw [e] at hun; simp at hun
            · split at hun
              · cases hun
              · simp only [Except.ok.injEq] at hun; rw [e] at hun; simp at hun
          have hpos : 0 < un.length := List.length_pos_iff.mpr hne
          refine ⟨un, rfl, by simp only [List.length_drop]; omega, ?_⟩
          intro i hi hu
          have := mapE_getElem o.adjust un adj hm (i + 1) hu (by omega)
          simpa [List.getElem_drop, Nat.add_comm] using this

/-- C16 (CDS): accrual periods chain — as many accrual starts as payments, and each accrual start after the
first is the previous payment date. -/
theorem cds_accrual_chain (stepIn maturity : PyDate) (nm : Int) (bw : Bool) (fuel : Nat)
    (r : CdsDates) (h : cdsGenerate o stepIn maturity nm bw fuel = .ok r) :
    r.accrualStart.length = r.payment.length ∧
      ∀ i (hi : i + 1 < r.accrualStart.length) (hp : i < r.payment.length),
        r.accrualStart[i + 1] = r.payment[i] := by
  unfold cdsGenerate at h
  split at h
  · cases h
  · split at h
    · cases h
    · split at h
      · cases h
      · split at h
        · cases h
        · rename_i un hun adj hm
          simp only [Except.ok.injEq] at h; subst h
          refine ⟨by simp, ?_⟩
          intro i hi hp
          simp [List.getElem_dropLast, List.getElem_drop, Nat.add_comm]

/-- C16 (CDS): the last unadjusted date is the maturity date, so the last payment date is its adjustment. -/
theorem cdsUnadjusted_last (stepIn maturity : PyDate) (nm : Int) (bw : Bool) (fuel : Nat) (un : List PyDate)
    (h : cdsUnadjusted o stepIn maturity nm bw fuel = .ok un) : un.getLast? = some maturity := by
  unfold cdsUnadjusted at h
  split at h
  · split at h
    · cases h
    · rename_i un' hb
      obtain ⟨rolls, hl, _⟩ := cdsBackLoop_rolls o stepIn maturity nm fuel 0 maturity [maturity] un' hb
      simp only [Except.ok.injEq] at h; subst h; subst hl
      simp
  · split at h
    · cases h
    · simp only [Except.ok.injEq] at h; subst h; simp

theorem mapE_getLast {α β} (f : α → Except PyErr β) (l : List α) (r : List β) (h : mapE f l = .ok r)
    (a : α) (ha : l.getLast? = some a) : ∃ b, r.getLast? = some b ∧ f a = .ok b := by
  have hlen := mapE_length f l r h
  have hne : l ≠ [] := by intro e; rw [e] at ha; cases ha
  have hpos : 0 < l.length := List.length_pos_iff.mpr hne
  have hl : l.getLast? = some (l[l.length - 1]'(by omega)) := by
    rw [List.getLast?_eq_getElem?]; simp [hpos]
  rw [hl] at ha; cases ha
  refine ⟨r[l.length - 1]'(by omega), ?_, mapE_getElem f l r h (l.length - 1) (by omega) (by omega)⟩
  rw [List.getLast?_eq_getElem?]
  have : r.length - 1 < r.length := by omega
  simp [hlen, this]

theorem cds_last_payment_is_adjusted_maturity (stepIn maturity : PyDate) (nm : Int) (bw : Bool) (fuel : Nat)
    (r : CdsDates) (h : cdsGenerate o stepIn maturity nm bw fuel = .ok r) (hne : r.payment ≠ []) :
    ∃ b, r.payment.getLast? = some b ∧ o.adjust maturity = .ok b := by
  unfold cdsGenerate at h
  split at h
  · cases h
  · split at h
    · cases h
    · cases hun : cdsUnadjusted o stepIn maturity nm bw fuel with
      | error e => simp [hun] at h
      | ok un =>
        simp only [hun] at h
        cases hm : mapE o.adjust un with
        | error e => simp [hm] at h
        | ok adj =>
          simp only [hm, Except.ok.injEq] at h; subst h
          obtain ⟨b, hb, hf⟩ := mapE_getLast o.adjust un adj hm maturity
            (cdsUnadjusted_last o stepIn maturity nm bw fuel un hun)
          refine ⟨b, ?_, hf⟩
          simp only at hne
          have h1 : 1 < adj.length := by
            by_contra hc
            apply hne; apply List.eq_nil_of_length_eq_zero; simp; omega
          rw [List.getLast?_drop]; simp [hb]; omega

/-- Non-vacuity and the ISDA standard example (cdsmodel.com): 20-Mar-2010 quarterly BACKWARD CDS stepped in
on 20-Dec-2008, WEEKEND calendar, FOLLOWING. -/
example : (match Model.cdsDates (Model.mkDate 20 12 2008) (Model.mkDate 20 3 2010) 3 2 2 true with
    | .ok r => r.payment.map (fun d => (d.d, d.m, d.y)) | .error _ => []) =
    [(20, 3, 2009), (22, 6, 2009), (21, 9, 2009), (21, 12, 2009), (22, 3, 2010)] := by decide +kernel

end FinVerif.Props.C16

/-! ### `Schedule.generate`: no date is lost, interior dates are adjusted rolls -/

namespace FinVerif.Props.C16
open FinVerif FinVerif.Sched

/-- C16 "no date is lost": merging coinciding dates keeps every distinct date — each input date's serial is
the serial of some output date. -/
theorem dedup_no_loss (prev : PyDate) (l r : List PyDate) (h : dedup prev l = .ok r) :
    ∀ x ∈ prev :: l, ∃ y ∈ r, y.serial = x.serial := by
  induction l generalizing prev r with
  | nil =>
    simp only [dedup, Except.ok.injEq] at h; subst h
    intro x hx; exact ⟨x, hx, rfl⟩
  | cons dt rest ih =>
    simp only [dedup] at h
    split at h
    · cases h
    · split at h
      · split at h
        · cases h
        · rename_i r' hr'
          simp only [Except.ok.injEq] at h; subst h
          intro x hx
          simp only [List.mem_cons] at hx
          rcases hx with rfl | hx
          · exact ⟨x, by simp, rfl⟩
          · obtain ⟨y, hy, hs⟩ := ih dt r' hr' x (by simpa using hx)
            exact ⟨y, by simp [hy], hs⟩
      · rename_i hlt hgt
        have he : dt.serial = prev.serial := by omega
        intro x hx
        simp only [List.mem_cons] at hx
        rcases hx with rfl | rfl | hx
        · exact ih x r h x (by simp)
        · obtain ⟨y, hy, hs⟩ := ih prev r h prev (by simp)
          exact ⟨y, hy, by rw [hs, he]⟩
        · exact ih prev r h x (by simp [hx])

/-- … and nothing is invented: every output date is one of the input dates. -/
theorem dedup_subset (prev : PyDate) (l r : List PyDate) (h : dedup prev l = .ok r) :
    ∀ y ∈ r, y ∈ prev :: l := by
  induction l generalizing prev r with
  | nil =>
    simp only [dedup, Except.ok.injEq] at h; subst h
    intro y hy; exact hy
  | cons dt rest ih =>
    simp only [dedup] at h
    split at h
    · cases h
    · split at h
      · split at h
        · cases h
        · rename_i r' hr'
          simp only [Except.ok.injEq] at h; subst h
          intro y hy
          simp only [List.mem_cons] at hy
          rcases hy with rfl | hy
          · simp
          · have := ih dt r' hr' y hy
            simp only [List.mem_cons] at this ⊢
            rcases this with h1 | h1
            · right; left; exact h1
            · right; right; exact h1
      · intro y hy
        have := ih prev r h y hy
        simp only [List.mem_cons] at this ⊢
        rcases this with h1 | h1
        · left; exact h1
        · right; right; exact h1

variable (o : Ops)

/-- C16 (BACKWARD): the list built by `generate` before the end-point handling is
`[previous coupon date] ++ adjust(interior rolls, increasing) ++ [termination]`, where the rolls are
`termination − k·period` for consecutive `k = 1, 2, …` (whole periods from the anchor) and the previous coupon
date is the last (earliest) of them — every interior date is the adjustment of a regular roll date and every
roll date strictly after the effective date appears. -/
theorem body_backward_interior (p : Params) (fuel : Nat) (ds : List PyDate) (hb : p.backward = true)
    (h : body o p fuel = .ok ds) :
    ∃ rolls adj : List PyDate,
      (∀ i (hi : i < rolls.length), rollB o p (0 + 1 + i) = .ok (rolls[i])) ∧
      mapE o.adjust (rolls.dropLast.reverse) = .ok adj ∧
      ds = [(p.termination :: rolls).getLast?.getD p.termination] ++ adj ++ [p.termination] := by
  simp only [body, hb, if_true] at h
  cases hl : backwardLoop o p fuel 0 p.termination [] with
  | error e => simp [hl] at h
  | ok un =>
    simp only [hl] at h
    obtain ⟨rolls, hun, hr⟩ := backwardLoop_rolls o p fuel 0 p.termination [] un hl
    have hun' : un = p.termination :: rolls := by simpa using hun
    subst hun'
    simp only [List.drop_succ_cons, List.drop_zero] at h
    cases hm : mapE o.adjust (rolls.dropLast.reverse) with
    | error e => simp [hm] at h
    | ok adj =>
      simp only [hm, Except.ok.injEq] at h
      exact ⟨rolls, adj, hr, hm, h.symm⟩

/-- C16 (FORWARD): the list built by `generate` before the end-point handling is
`adjust([effective, effective + period, effective + 2·period, …]) ++ [termination]`: the rolls are whole periods
from the anchor (the effective date) for consecutive `k = 1, 2, …` while they are before the termination date. -/
theorem body_forward_interior (p : Params) (fuel : Nat) (ds : List PyDate) (hb : p.backward = false)
    (h : body o p fuel = .ok ds) :
    ∃ rolls adj : List PyDate,
      (rolls = [] ∨ rolls.head? = some p.effective) ∧
      (∀ i (hi : i + 1 < rolls.length), rollF o p (1 + i) = .ok (rolls[i + 1])) ∧
      mapE o.adjust rolls = .ok adj ∧ ds = adj ++ [p.termination] := by
  simp only [body, hb, Bool.false_eq_true, if_false] at h
  cases hl : forwardLoop o p fuel 1 p.effective [p.effective] with
  | error e => simp [hl] at h
  | ok un =>
    simp only [hl] at h
    obtain ⟨rolls, hun, hh, hr⟩ := forwardLoop_rolls o p fuel 1 p.effective [p.effective] un hl
    subst hun
    simp only [List.singleton_append, List.drop_succ_cons, List.drop_zero] at h
    cases hm : mapE o.adjust rolls with
    | error e => simp [hm] at h
    | ok adj =>
      simp only [hm, Except.ok.injEq] at h
      exact ⟨rolls, adj, hh, hr, hm, h.symm⟩

/-- C16 "no date is lost or duplicated", for the whole of `generate`: the returned dates are exactly the distinct
dates of `effective :: interior ++ [termination (adjusted iff requested)]` — every date of that list is
represented (same serial) in the result, and every returned date is one of them. -/
theorem generate_no_loss (p : Params) (fuel : Nat) (r : Result) (h : generate o p fuel = .ok r) :
    ∃ (ds : List PyDate) (first : PyDate) (rest : List PyDate),
      body o p fuel = .ok ds ∧
      (if p.adjustTermination then (p.effective :: ds.drop 1).dropLast ++ [r.termination] else p.effective :: ds.drop 1)
        = first :: rest ∧
      (∀ x ∈ first :: rest, ∃ y ∈ r.dates, y.serial = x.serial) ∧ (∀ y ∈ r.dates, y ∈ first :: rest) := by
  unfold generate at h
  split at h
  · cases h
  · cases hb : body o p fuel with
    | error e => simp [hb] at h
    | ok ds =>
      simp only [hb] at h
      obtain ⟨t', first, rest, _, hlist, hd, _, ht⟩ := post_ok o p ds r h
      subst ht
      exact ⟨ds, first, rest, rfl, hlist, dedup_no_loss first rest r.dates hd, dedup_subset first rest r.dates hd⟩

end FinVerif.Props.C16
