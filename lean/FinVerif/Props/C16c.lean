/-
  C16 — termination of the roll loops of `Schedule.generate` for the model of the code's `Date`:
  the fuel of the model is never the reason for a failure.  With period `p ≥ 1` months, a BACKWARD loop started
  at the termination date needs at most `monthIndex(T) − monthIndex(E) + 2` iterations (a FORWARD loop likewise),
  so the model's fuel of 5000 covers every schedule of up to 416 years — the `.error .other` ("out of fuel")
  outcome of the generic algorithm is unreachable for such inputs, for every calendar and convention.

  Ingredients: `add_months` moves the month index by exactly `k` (`addMonths_spec`, C13), well-formed valid dates
  are ordered by serial as by (year, month) (`serial_lt_of_month_lt`, `serial_lt_of_year_lt`, C13), and
  `Date(d, m, y)` fails only with the library's error / IndexError, never "out of fuel".
-/
import FinVerif.Props.C16
import FinVerif.Props.C13c
import FinVerif.Props.C14d

set_option linter.unusedVariables false
set_option linter.unusedSimpArgs false

namespace FinVerif.Props.C16
open FinVerif FinVerif.Sched FinVerif.Model FinVerif.Spec
open FinVerif.Props.C13 (monthIndex addMonths_spec mkDateQ_ok excelSerial_eq_spec serial_lt_of_month_lt serial_lt_of_year_lt
  monthDays_eq_monthLen)
open FinVerif.Props.C14 (WF ValidG mkDateQ_iff)

theorem mkDateQ_not_other (d m y : Int) : mkDate? d m y ≠ .error .other := by
  simp only [mkDate?]
  split_ifs <;> (try simp) <;> (split <;> (try simp) <;> split_ifs <;> simp)

theorem addMonths_not_other (dt : PyDate) (k : Int) : addMonths dt k ≠ .error .other := by
  simp only [addMonths]; exact mkDateQ_not_other _ _ _

theorem eom_not_other (dt : PyDate) : eom dt ≠ .error .other := by
  simp only [eom]; exact mkDateQ_not_other _ _ _

theorem addMonths_wf (dt r : PyDate) (k : Int) (h : addMonths dt k = .ok r) : WF r := by
  simp only [addMonths] at h
  obtain ⟨hv, hr⟩ := (mkDateQ_iff _ _ _ _).mp h
  subst hr; exact ⟨rfl, hv⟩

theorem eom_wf (dt r : PyDate) (h : eom dt = .ok r) : WF r ∧ r.m = dt.m ∧ r.y = dt.y := by
  simp only [eom] at h
  obtain ⟨hv, hr⟩ := (mkDateQ_iff _ _ _ _).mp h
  subst hr; exact ⟨⟨rfl, hv⟩, rfl, rfl⟩

/-- well-formed dates from 1901 on are ordered by serial as by month index: a date in an earlier month has a smaller
serial -/
theorem serial_lt_of_monthIndex_lt (a b : PyDate) (ha : WF a) (hb : WF b) (hya : 1901 ≤ a.y) (hyb : 1901 ≤ b.y)
    (h : monthIndex a < monthIndex b) : a.serial < b.serial := by
  obtain ⟨ea, ⟨_, a1, a2, a3, a4⟩⟩ := ha
  obtain ⟨eb, ⟨_, b1, b2, b3, b4⟩⟩ := hb
  have sa : a.serial = serial a.d a.m a.y := by
    rw [ea]; simp only [mkDate]; exact excelSerial_eq_spec _ _ _ ⟨a1, a2⟩ hya
  have sb : b.serial = serial b.d b.m b.y := by
    rw [eb]; simp only [mkDate]; exact excelSerial_eq_spec _ _ _ ⟨b1, b2⟩ hyb
  have va : Valid a.d a.m a.y := ⟨a1, a2, a3, by rw [← monthDays_eq_monthLen _ _ ⟨a1, a2⟩]; exact a4⟩
  have vb : Valid b.d b.m b.y := ⟨b1, b2, b3, by rw [← monthDays_eq_monthLen _ _ ⟨b1, b2⟩]; exact b4⟩
  rw [sa, sb]
  simp only [monthIndex] at h
  by_cases hy : a.y < b.y
  · exact serial_lt_of_year_lt _ _ _ _ _ _ va vb hy
  · have hyy : a.y = b.y := by omega
    have hm : a.m < b.m := by omega
    rw [hyy] at va ⊢
    exact serial_lt_of_month_lt _ _ _ _ _ va vb hm

/-- C16 termination (BACKWARD): for the model's date arithmetic, with period `p ≥ 1` and a well-formed effective date
from 1901 on, the loop never runs out of fuel once `fuel + k ≥ monthIndex(T) − monthIndex(E) + 2` — whatever it returns
(dates, or the library's error for a date before 1900) is not the "out of fuel" outcome. -/
theorem backwardLoop_fuel_suffices (cal conv : Int) (p : Params) (hp : 1 ≤ p.numMonths)
    (hE : WF p.effective) (hEy : 1901 ≤ p.effective.y) (hT : WF p.termination)
    (fuel k : Nat) (next : PyDate) (acc : List PyDate)
    (hnext : WF next) (hidx : monthIndex next = monthIndex p.termination - p.numMonths * (k : Int))
    (hfuel1 : 1 ≤ fuel)
    (hfuel : monthIndex p.termination - monthIndex p.effective + 2 ≤ (fuel : Int) + (k : Int)) :
    backwardLoop (schedOps cal conv) p fuel k next acc ≠ .error .other := by
  induction fuel generalizing k next acc with
  | zero => omega
  | succ n ih =>
    unfold backwardLoop
    by_cases hgt : next.serial > p.effective.serial
    · rw [if_pos hgt]
      -- still after the effective date: its month index is not smaller, so k is bounded
      have hge : monthIndex p.effective ≤ monthIndex next := by
        by_contra hc
        have hlt : monthIndex next < monthIndex p.effective := by omega
        by_cases hny : 1901 ≤ next.y
        · have := serial_lt_of_monthIndex_lt next p.effective hnext hE hny hEy hlt
          omega
        · -- a year before 1901: its serial is below every serial from 1901 on
          obtain ⟨en, ⟨hy0, n1, n2, n3, n4⟩⟩ := hnext
          obtain ⟨ee, ⟨_, e1, e2, e3, e4⟩⟩ := hE
          have hyn : next.y = 1900 := by omega
          have : next.serial ≤ 366 := by
            rw [en]; simp only [mkDate, excelSerial, daysBeforeYear, daysBeforeMonth, excelLeap, leapsUpTo, hyn]
            have hb : next.d ≤ 31 := by
              have := (FinVerif.Props.C14.monthDays_range next.y next.m ⟨n1, n2⟩).2; omega
            generalize next.m = m at *
            interval_cases m <;> simp [pyIdxD, pyIdx?, cumDaysLeap] <;> omega
          have : 366 < p.effective.serial := by
            rw [ee]; simp only [mkDate, excelSerial, daysBeforeYear, daysBeforeMonth, excelLeap, leapsUpTo]
            have hne : p.effective.y ≠ 1900 := by omega
            simp only [hne, if_false]
            split <;> (generalize p.effective.m = m at *; interval_cases m <;>
              simp [pyIdxD, pyIdx?, cumDaysLeap, cumDaysNonLeap] <;> omega)
          omega
      have hk : p.numMonths * (k : Int) ≤ monthIndex p.termination - monthIndex p.effective := by omega
      have hkk : (k : Int) ≤ monthIndex p.termination - monthIndex p.effective := by
        have h1 : (1 : Int) * (k : Int) ≤ p.numMonths * (k : Int) :=
          Int.mul_le_mul_of_nonneg_right hp (Int.natCast_nonneg k)
        omega
      have hn1 : 1 ≤ n := by omega
      simp only [schedOps]
      cases hadd : addMonths p.termination (-(p.numMonths * (1 + (k : Int)))) with
      | error e =>
        simp only []
        intro hc; cases hc
        exact addMonths_not_other _ _ hadd
      | ok nd =>
        simp only []
        have hndwf := addMonths_wf _ _ _ hadd
        have hndidx : monthIndex nd = monthIndex p.termination - p.numMonths * ((k + 1 : Nat) : Int) := by
          have := (addMonths_spec _ _ _ hadd).1
          have e : p.numMonths * ((k : Int) + 1) = p.numMonths * (1 + (k : Int)) := by ring
          simp only [monthIndex]; push_cast; rw [e]; omega
        by_cases heom : p.endOfMonth = true
        · rw [if_pos heom]
          cases he : eom nd with
          | error e =>
            simp only []
            intro hc; cases hc
            exact eom_not_other _ he
          | ok nd' =>
            simp only []
            obtain ⟨hwf', hm', hy'⟩ := eom_wf _ _ he
            refine ih (k + 1) nd' _ hwf' ?_ hn1 (by push_cast; omega)
            simp only [monthIndex, hm', hy']; simpa [monthIndex] using hndidx
        · rw [if_neg heom]
          exact ih (k + 1) nd _ hndwf hndidx hn1 (by push_cast; omega)
    · rw [if_neg hgt]; simp

/-- … in particular the model's own fuel (5000) suffices for every BACKWARD schedule spanning fewer than 4998 months
(416 years). -/
theorem backward_schedule_never_out_of_fuel (cal conv : Int) (p : Params) (hp : 1 ≤ p.numMonths)
    (hE : WF p.effective) (hEy : 1901 ≤ p.effective.y) (hT : WF p.termination)
    (hspan : monthIndex p.termination - monthIndex p.effective ≤ 4998) (acc : List PyDate) :
    backwardLoop (schedOps cal conv) p 5000 0 p.termination acc ≠ .error .other :=
  backwardLoop_fuel_suffices cal conv p hp hE hEy hT 5000 0 p.termination acc hT (by simp) (by norm_num)
    (by push_cast; omega)

/-- C16 termination (FORWARD): stepping whole periods forward from the effective date, the loop never runs out of fuel once
`fuel + k ≥ monthIndex(T) − monthIndex(E) + 3`. (`next` is the roll `E + p·(k−1)` for `k ≥ 1`.) -/
theorem forwardLoop_fuel_suffices (cal conv : Int) (p : Params) (hp : 1 ≤ p.numMonths)
    (hE : WF p.effective) (hEy : 1901 ≤ p.effective.y) (hT : WF p.termination) (hTy : 1901 ≤ p.termination.y)
    (fuel k : Nat) (next : PyDate) (acc : List PyDate) (hk1 : 1 ≤ k)
    (hnext : WF next) (hny : 1901 ≤ next.y)
    (hidx : monthIndex next = monthIndex p.effective + p.numMonths * ((k : Int) - 1))
    (hfuel1 : 1 ≤ fuel)
    (hfuel : monthIndex p.termination - monthIndex p.effective + 3 ≤ (fuel : Int) + (k : Int)) :
    forwardLoop (schedOps cal conv) p fuel k next acc ≠ .error .other := by
  induction fuel generalizing k next acc with
  | zero => omega
  | succ n ih =>
    unfold forwardLoop
    by_cases hlt : next.serial < p.termination.serial
    · rw [if_pos hlt]
      have hle : monthIndex next ≤ monthIndex p.termination := by
        by_contra hc
        have := serial_lt_of_monthIndex_lt p.termination next hT hnext hTy hny (by omega)
        omega
      have h1 : (1 : Int) * ((k : Int) - 1) ≤ p.numMonths * ((k : Int) - 1) :=
        Int.mul_le_mul_of_nonneg_right hp (by omega)
      have hkk : (k : Int) - 1 ≤ monthIndex p.termination - monthIndex p.effective := by omega
      have hn1 : 1 ≤ n := by omega
      simp only [schedOps]
      cases hadd : addMonths p.effective (p.numMonths * (k : Int)) with
      | error e =>
        simp only []
        intro hc; cases hc
        exact addMonths_not_other _ _ hadd
      | ok nd =>
        simp only []
        have hndwf := addMonths_wf _ _ _ hadd
        have hsp := addMonths_spec _ _ _ hadd
        have hndidx : monthIndex nd = monthIndex p.effective + p.numMonths * (((k + 1 : Nat) : Int) - 1) := by
          have := hsp.1
          simp only [monthIndex]; push_cast
          have e : p.numMonths * ((k : Int) + 1 - 1) = p.numMonths * (k : Int) := by ring
          rw [e]; omega
        have hndy : 1901 ≤ nd.y := by
          -- the month index grew, so the year did not fall below the effective year
          have hge : monthIndex p.effective ≤ monthIndex nd := by
            rw [hndidx]
            have : 0 ≤ p.numMonths * (((k + 1 : Nat) : Int) - 1) :=
              Int.mul_nonneg (by omega) (by push_cast; omega)
            omega
          obtain ⟨_, ⟨_, e1, e2, _, _⟩⟩ := hE
          have := hsp.2.1; have := hsp.2.2.1
          simp only [monthIndex] at hge
          omega
        exact ih (k + 1) nd _ (by omega) hndwf hndy hndidx hn1 (by push_cast; omega)
    · rw [if_neg hlt]; simp

/-- … the model's fuel (5000) suffices for every FORWARD schedule spanning fewer than 4996 months. -/
theorem forward_schedule_never_out_of_fuel (cal conv : Int) (p : Params) (hp : 1 ≤ p.numMonths)
    (hE : WF p.effective) (hEy : 1901 ≤ p.effective.y) (hT : WF p.termination) (hTy : 1901 ≤ p.termination.y)
    (hspan : monthIndex p.termination - monthIndex p.effective ≤ 4996) (acc : List PyDate) :
    forwardLoop (schedOps cal conv) p 5000 1 p.effective acc ≠ .error .other :=
  forwardLoop_fuel_suffices cal conv p hp hE hEy hT hTy 5000 1 p.effective acc (by omega) hE hEy (by simp) (by norm_num)
    (by push_cast; omega)


/-- Non-vacuity: 6-Jan-2020 … 6-Jun-2020 are well-formed dates from 1901 on, five month indices apart. -/
example : WF (mkDate 6 1 2020) ∧ WF (mkDate 6 6 2020) ∧ 1901 ≤ (mkDate 6 1 2020).y ∧
    monthIndex (mkDate 6 6 2020) - monthIndex (mkDate 6 1 2020) = 5 := by
  refine ⟨⟨rfl, ?_⟩, ⟨rfl, ?_⟩, by decide, by decide⟩ <;> (simp only [ValidG, mkDate]; decide)

end FinVerif.Props.C16
