/-
  C16 — the STUB clause and the END-OF-MONTH clause of `Schedule.generate`, for the model of the code's `Date`
  (`Model.schedOps`): "all periods are regular except one short stub at the non-anchor end; month-end rolls when the flag
  is set".  For EVERY input (no bound on the number of periods):

  * what the `while` tests guarantee on exit (`backwardLoop_exit`, `forwardLoop_exit`, generic in the date operations):
    BACKWARD — every unadjusted date but the last is after the effective date and the last (the previous coupon date) is
    on or before it; FORWARD — every unadjusted date is before the termination date and the roll computed last (not
    appended) is on or after it;
  * the month index (12·year + month − 1) of the k-th roll is exactly k·p away from the anchor's
    (`model_rollB_monthIndex`, `model_rollF_monthIndex`), so consecutive unadjusted dates are exactly p months apart
    (`backward_periods_regular`, `forward_periods_regular`);
  * the one irregular period is the stub at the non-anchor end and it is SHORT: from the effective date to the first roll
    after it there are between 0 and p months (`backward_stub_short`); from the last roll to the termination date likewise
    (`forward_stub_short`);
  * with `end_of_month = True` every BACKWARD roll date is the last day of its month (`backward_rolls_month_end`).
-/
import FinVerif.Props.C16c
import FinVerif.Props.C16e

set_option linter.unusedVariables false
set_option linter.unusedSimpArgs false

namespace FinVerif.Props.C16
open FinVerif FinVerif.Sched FinVerif.Model FinVerif.Spec
open FinVerif.Props.C13 (monthIndex addMonths_spec mkDateQ_ok)
open FinVerif.Props.C14 (WF ValidG mkDateQ_iff)

/-! ### what the loop tests guarantee (generic in the operations) -/

/-- BACKWARD exit condition: the loop returns `acc ++ next :: rolls`; every date of `next :: rolls` except the last passed
the test `next_dt > effective_dt`, and the last one failed it (it is the previous coupon date, on or before the effective
date). -/
theorem backwardLoop_exit (o : Ops) (p : Params) (fuel k : Nat) (next : PyDate) (acc l : List PyDate)
    (h : backwardLoop o p fuel k next acc = .ok l) :
    ∃ (rolls : List PyDate) (last : PyDate), l = acc ++ [next] ++ rolls ∧
      (next :: rolls).getLast? = some last ∧ last.serial ≤ p.effective.serial ∧
      ∀ x ∈ (next :: rolls).dropLast, x.serial > p.effective.serial := by
  induction fuel generalizing k next acc with
  | zero => simp [backwardLoop] at h
  | succ n ih =>
    unfold backwardLoop at h
    by_cases hgt : next.serial > p.effective.serial
    · simp only [hgt, if_true] at h
      have key : ∀ nd, backwardLoop o p n (k + 1) nd (acc ++ [next]) = .ok l →
          ∃ (rolls : List PyDate) (last : PyDate), l = acc ++ [next] ++ rolls ∧
            (next :: rolls).getLast? = some last ∧ last.serial ≤ p.effective.serial ∧
            ∀ x ∈ (next :: rolls).dropLast, x.serial > p.effective.serial := by
        intro nd hnd
        obtain ⟨rolls, last, hl, hlast, hle, hall⟩ := ih (k + 1) nd (acc ++ [next]) hnd
        refine ⟨nd :: rolls, last, by simp [hl], ?_, hle, ?_⟩
        · rw [List.getLast?_cons_cons]; exact hlast
        · intro x hx
          rw [List.dropLast_cons₂] at hx
          simp only [List.mem_cons] at hx
          rcases hx with rfl | hx
          · exact hgt
          · exact hall x hx
      cases hadd : o.addMonths p.termination (-(p.numMonths * (1 + (k : Int)))) with
      | error er => simp [hadd] at h
      | ok nd =>
        simp only [hadd] at h
        by_cases heom : p.endOfMonth = true
        · simp only [heom, if_true] at h
          cases hem : o.eom nd with
          | error er => simp [hem] at h
          | ok nd' => simp only [hem] at h; exact key nd' h
        · simp only [heom] at h
          exact key nd h
    · simp only [hgt, if_false, Except.ok.injEq] at h
      exact ⟨[], next, by simp [h], rfl, by omega, by simp⟩

/-- FORWARD exit condition: the loop returns `acc ++ rolls`; every appended date passed the test
`next_dt < termination_dt`; the date computed last — `next` itself if nothing was appended, else the roll
`effective + p·(k + |rolls| − 1)` — failed it and was not appended. -/
theorem forwardLoop_exit (o : Ops) (p : Params) (fuel k : Nat) (next : PyDate) (acc l : List PyDate)
    (h : forwardLoop o p fuel k next acc = .ok l) :
    ∃ (rolls : List PyDate) (last : PyDate), l = acc ++ rolls ∧
      (∀ x ∈ rolls, x.serial < p.termination.serial) ∧ p.termination.serial ≤ last.serial ∧
      (rolls = [] → last = next) ∧ (rolls ≠ [] → rollF o p (k + rolls.length - 1) = .ok last) := by
  induction fuel generalizing k next acc with
  | zero => simp [forwardLoop] at h
  | succ n ih =>
    unfold forwardLoop at h
    by_cases hlt : next.serial < p.termination.serial
    · simp only [hlt, if_true] at h
      cases hadd : o.addMonths p.effective (p.numMonths * (k : Int)) with
      | error er => simp [hadd] at h
      | ok nd =>
        simp only [hadd] at h
        obtain ⟨rolls, last, hl, hall, hge, h0, h1⟩ := ih (k + 1) nd (acc ++ [next]) h
        refine ⟨next :: rolls, last, by simp [hl], ?_, hge, by simp, ?_⟩
        · intro x hx
          simp only [List.mem_cons] at hx
          rcases hx with rfl | hx
          · exact hlt
          · exact hall x hx
        · intro _
          by_cases hr : rolls = []
          · subst hr
            have := h0 rfl; subst this
            simpa [rollF] using hadd
          · have := h1 hr
            have hpos : 0 < rolls.length := List.length_pos_iff.mpr hr
            have e : k + (next :: rolls).length - 1 = k + 1 + rolls.length - 1 := by simp only [List.length_cons]; omega
            rw [e]; exact this
    · simp only [hlt, if_false, Except.ok.injEq] at h
      exact ⟨[], next, by simp [h], by simp, by omega, fun _ => rfl, fun hc => absurd rfl hc⟩

/-! ### month indices of the model's roll dates -/

/-- on or before (by serial) implies not in a later month, for well-formed dates (the later one from 1901 on) -/
theorem monthIndex_le_of_serial_le (a b : PyDate) (ha : WF a) (hb : WF b) (hyb : 1901 ≤ b.y)
    (hle : a.serial ≤ b.serial) : monthIndex a ≤ monthIndex b := by
  by_contra hc
  have hlt : monthIndex b < monthIndex a := by omega
  have hya : 1901 ≤ a.y := by
    obtain ⟨_, ⟨_, a1, a2, _, _⟩⟩ := ha
    obtain ⟨_, ⟨_, b1, b2, _, _⟩⟩ := hb
    simp only [monthIndex] at hlt; omega
  have := serial_lt_of_monthIndex_lt b a hb ha hyb hya hlt
  omega

/-- `eom()` returns the last day of the date's own month -/
theorem eom_last_day (dt r : PyDate) (h : eom dt = .ok r) : r.d = monthDays r.y r.m ∧ r.m = dt.m ∧ r.y = dt.y := by
  simp only [eom] at h
  have := mkDateQ_ok _ _ _ _ h
  subst this
  simp [mkDate]

/-- C16 no drift, in months (BACKWARD, model): the k-th roll date lies exactly `k·p` months before the termination date
(month index), is a well-formed date, and — with the end-of-month flag — is the last day of its month. -/
theorem model_rollB_monthIndex (cal conv : Int) (p : Params) (k : Nat) (r : PyDate)
    (h : rollB (schedOps cal conv) p k = .ok r) :
    monthIndex r = monthIndex p.termination - p.numMonths * (k : Int) ∧ WF r ∧
      (p.endOfMonth = true → r.d = monthDays r.y r.m) := by
  simp only [rollB, schedOps] at h
  cases hadd : addMonths p.termination (-(p.numMonths * (k : Int))) with
  | error e => simp [hadd] at h
  | ok nd =>
    simp only [hadd] at h
    have hidx : monthIndex nd = monthIndex p.termination - p.numMonths * (k : Int) := by
      have := (addMonths_spec _ _ _ hadd).1
      simp only [monthIndex]; omega
    by_cases heom : p.endOfMonth = true
    · simp only [heom, if_true] at h
      obtain ⟨hwf, hm, hy⟩ := eom_wf _ _ h
      obtain ⟨hd, _, _⟩ := eom_last_day _ _ h
      refine ⟨?_, hwf, fun _ => hd⟩
      simp only [monthIndex, hm, hy]; simpa [monthIndex] using hidx
    · simp only [heom, Bool.false_eq_true, if_false, Except.ok.injEq] at h
      subst h
      exact ⟨hidx, addMonths_wf _ _ _ hadd, fun hc => absurd hc heom⟩

/-- C16 no drift, in months (FORWARD, model): the k-th roll date lies exactly `k·p` months after the effective date. -/
theorem model_rollF_monthIndex (cal conv : Int) (p : Params) (k : Nat) (r : PyDate)
    (h : rollF (schedOps cal conv) p k = .ok r) :
    monthIndex r = monthIndex p.effective + p.numMonths * (k : Int) ∧ WF r := by
  simp only [rollF, schedOps] at h
  refine ⟨?_, addMonths_wf _ _ _ h⟩
  have := (addMonths_spec _ _ _ h).1
  simp only [monthIndex]; omega

/-! ### BACKWARD: regular periods and the short front stub -/

/-- the unadjusted BACKWARD dates, position by position: `un[0]` = termination date and `un[i]` = the i-th roll -/
theorem backward_unadjusted_index (cal conv : Int) (p : Params) (fuel : Nat) (un : List PyDate)
    (h : backwardLoop (schedOps cal conv) p fuel 0 p.termination [] = .ok un) :
    ∀ i (hi : i < un.length), monthIndex un[i] = monthIndex p.termination - p.numMonths * (i : Int) ∧
      (1 ≤ i → WF un[i] ∧ (p.endOfMonth = true → un[i].d = monthDays un[i].y un[i].m)) := by
  obtain ⟨rolls, hl, hr⟩ := backwardLoop_rolls (schedOps cal conv) p fuel 0 p.termination [] un h
  simp only [List.nil_append, List.singleton_append] at hl
  subst hl
  intro i hi
  cases i with
  | zero => exact ⟨by simp, fun h0 => absurd h0 (by omega)⟩
  | succ j =>
    have hj : j < rolls.length := by simpa using hi
    have := hr j hj
    have e : 0 + 1 + j = j + 1 := by omega
    rw [e] at this
    obtain ⟨h1, h2, h3⟩ := model_rollB_monthIndex cal conv p (j + 1) _ this
    simp only [List.getElem_cons_succ]
    exact ⟨h1, fun _ => ⟨h2, h3⟩⟩

/-- C16 STUB clause (BACKWARD), regular part: consecutive unadjusted dates `T, T−p, T−2p, …, previous coupon date` are
exactly `p` months apart (month-index difference = `num_months`) — every period between roll dates is a whole regular
period, whatever the day-of-month clipping did. -/
theorem backward_periods_regular (cal conv : Int) (p : Params) (fuel : Nat) (un : List PyDate)
    (h : backwardLoop (schedOps cal conv) p fuel 0 p.termination [] = .ok un) :
    ∀ i (hi : i + 1 < un.length), monthIndex un[i] - monthIndex un[i + 1] = p.numMonths := by
  intro i hi
  have h1 := (backward_unadjusted_index cal conv p fuel un h i (by omega)).1
  have h2 := (backward_unadjusted_index cal conv p fuel un h (i + 1) hi).1
  rw [h1, h2]; push_cast; ring

/-- C16 END-OF-MONTH clause (BACKWARD): with `end_of_month = True` every roll date (every unadjusted date after the
termination date itself, including the previous coupon date) is the last day of its month. -/
theorem backward_rolls_month_end (cal conv : Int) (p : Params) (fuel : Nat) (un : List PyDate)
    (heom : p.endOfMonth = true)
    (h : backwardLoop (schedOps cal conv) p fuel 0 p.termination [] = .ok un) :
    ∀ i (hi : i < un.length), 1 ≤ i → isEom un[i] = true := by
  intro i hi h1
  have := ((backward_unadjusted_index cal conv p fuel un h i hi).2 h1).2 heom
  simp [isEom, this]

/-- C16 STUB clause (BACKWARD), the stub: the schedule's first period runs from the effective date to the first roll date
after it, `un[n−2]` (the previous coupon date `un[n−1]` is on or before the effective date and is replaced by it).  That
period is SHORT: between 0 and `p` months, while all the others are exactly `p` months (`backward_periods_regular`). -/
theorem backward_stub_short (cal conv : Int) (p : Params) (fuel : Nat) (un : List PyDate)
    (hE : WF p.effective) (hEy : 1901 ≤ p.effective.y) (hT : WF p.termination)
    (hlt : p.effective.serial < p.termination.serial)
    (h : backwardLoop (schedOps cal conv) p fuel 0 p.termination [] = .ok un) :
    ∃ (n : Nat) (hn : n + 2 = un.length),
      un[n + 1].serial ≤ p.effective.serial ∧ p.effective.serial < un[n].serial ∧
      0 ≤ monthIndex un[n] - monthIndex p.effective ∧ monthIndex un[n] - monthIndex p.effective ≤ p.numMonths := by
  obtain ⟨rolls, last, hl, hlast, hle, hall⟩ := backwardLoop_exit (schedOps cal conv) p fuel 0 p.termination [] un h
  simp only [List.nil_append, List.singleton_append] at hl
  -- the termination date is after the effective date, so at least one roll was appended
  have hne : rolls ≠ [] := by
    intro e; subst e
    simp at hlast; subst hlast; omega
  have hlen : un.length = rolls.length + 1 := by rw [hl]; simp
  have hpos : 0 < rolls.length := List.length_pos_iff.mpr hne
  refine ⟨rolls.length - 1, by omega, ?_⟩
  have hidx := backward_unadjusted_index cal conv p fuel un h
  have hreg := backward_periods_regular cal conv p fuel un h (rolls.length - 1) (by omega)
  -- un[n+1] is the last date
  have hlast' : un[rolls.length - 1 + 1]'(by omega) = last := by
    have : un.getLast? = some last := by rw [hl]; exact hlast
    rw [List.getLast?_eq_getElem?] at this
    have e : un.length - 1 = rolls.length - 1 + 1 := by omega
    rw [e, List.getElem?_eq_getElem (by omega)] at this
    exact Option.some.inj this
  -- un[n] passed the loop test
  have hgt : p.effective.serial < (un[rolls.length - 1]'(by omega)).serial := by
    apply hall
    rw [← hl]
    rw [List.mem_iff_getElem]
    refine ⟨rolls.length - 1, by simp; omega, ?_⟩
    simp [List.getElem_dropLast]
  have hwfn : WF (un[rolls.length - 1]'(by omega)) := by
    by_cases h0 : rolls.length - 1 = 0
    · have : un[rolls.length - 1]'(by omega) = p.termination := by
        simp only [h0]; subst hl; rfl
      rw [this]; exact hT
    · exact ((hidx (rolls.length - 1) (by omega)).2 (by omega)).1
  have hwfl : WF (un[rolls.length - 1 + 1]'(by omega)) := ((hidx (rolls.length - 1 + 1) (by omega)).2 (by omega)).1
  refine ⟨by rw [hlast']; exact hle, hgt, ?_, ?_⟩
  · have := monthIndex_le_of_serial_gt _ _ hwfn hE hEy hgt
    omega
  · have := monthIndex_le_of_serial_le _ _ hwfl hE hEy (by rw [hlast']; exact hle)
    omega

/-! ### FORWARD: regular periods and the short back stub -/

/-- the unadjusted FORWARD dates: `un = [E, E, E+p, E+2p, …]`, `un[i+1]` = the i-th roll (`un[1]` = effective date) -/
theorem forward_unadjusted_index (cal conv : Int) (p : Params) (fuel : Nat) (un : List PyDate)
    (h : forwardLoop (schedOps cal conv) p fuel 1 p.effective [p.effective] = .ok un) :
    ∀ i (hi : i + 1 < un.length), monthIndex un[i + 1] = monthIndex p.effective + p.numMonths * (i : Int) := by
  obtain ⟨rolls, hl, hh, hr⟩ := forwardLoop_rolls (schedOps cal conv) p fuel 1 p.effective [p.effective] un h
  simp only [List.singleton_append] at hl
  subst hl
  intro i hi
  simp only [List.getElem_cons_succ]
  have hi' : i < rolls.length := by simpa using hi
  cases i with
  | zero =>
    rcases hh with hh | hh
    · subst hh; simp at hi'
    · cases rolls with
      | nil => simp at hi'
      | cons x xs => simp at hh; subst hh; simp
  | succ j =>
    have := hr j hi'
    have e : 1 + j = j + 1 := by omega
    rw [e] at this
    exact (model_rollF_monthIndex cal conv p (j + 1) _ this).1

/-- C16 STUB clause (FORWARD), regular part: consecutive unadjusted dates `E, E+p, E+2p, …` are exactly `p` months
apart. -/
theorem forward_periods_regular (cal conv : Int) (p : Params) (fuel : Nat) (un : List PyDate)
    (h : forwardLoop (schedOps cal conv) p fuel 1 p.effective [p.effective] = .ok un) :
    ∀ i (hi : i + 2 < un.length), monthIndex un[i + 2] - monthIndex un[i + 1] = p.numMonths := by
  intro i hi
  have h1 := forward_unadjusted_index cal conv p fuel un h i (by omega)
  have h2 := forward_unadjusted_index cal conv p fuel un h (i + 1) hi
  rw [h1, h2]; push_cast; ring

/-- C16 STUB clause (FORWARD), the stub: the schedule's last period runs from the last roll date before the termination
date to the termination date; it is SHORT — between 0 and `p` months — because the next roll (computed by the loop but
not appended) is on or after the termination date. -/
theorem forward_stub_short (cal conv : Int) (p : Params) (fuel : Nat) (un : List PyDate)
    (hE : WF p.effective) (hEy : 1901 ≤ p.effective.y) (hT : WF p.termination) (hTy : 1901 ≤ p.termination.y)
    (hp : 0 ≤ p.numMonths) (hlt : p.effective.serial < p.termination.serial)
    (h : forwardLoop (schedOps cal conv) p fuel 1 p.effective [p.effective] = .ok un) :
    ∃ (n : Nat) (hn : n + 2 = un.length),
      un[n + 1].serial < p.termination.serial ∧
      0 ≤ monthIndex p.termination - monthIndex un[n + 1] ∧
      monthIndex p.termination - monthIndex un[n + 1] ≤ p.numMonths := by
  obtain ⟨rolls, last, hl, hall, hge, h0, h1⟩ :=
    forwardLoop_exit (schedOps cal conv) p fuel 1 p.effective [p.effective] un h
  simp only [List.singleton_append] at hl
  have hne : rolls ≠ [] := by
    intro e
    have := h0 e; subst this; omega
  have hpos : 0 < rolls.length := List.length_pos_iff.mpr hne
  have hlen : un.length = rolls.length + 1 := by rw [hl]; simp
  refine ⟨rolls.length - 1, by omega, ?_⟩
  have hidx := forward_unadjusted_index cal conv p fuel un h (rolls.length - 1) (by omega)
  have hmem : un[rolls.length - 1 + 1]'(by omega) ∈ rolls := by
    subst hl
    simp only [List.getElem_cons_succ]
    exact List.getElem_mem _
  have hltT := hall _ hmem
  -- the roll computed last: index k + |rolls| − 1 = |rolls|
  have hroll := h1 hne
  have e : 1 + rolls.length - 1 = rolls.length := by omega
  rw [e] at hroll
  obtain ⟨hlidx, hlwf⟩ := model_rollF_monthIndex cal conv p rolls.length last hroll
  -- well-formedness and year of un[n+1]
  have hwf : WF (un[rolls.length - 1 + 1]'(by omega)) := by
    by_cases hz : rolls.length - 1 = 0
    · obtain ⟨_, hl', hh, _⟩ := forwardLoop_rolls (schedOps cal conv) p fuel 1 p.effective [p.effective] un h
      have : un[rolls.length - 1 + 1]'(by omega) = p.effective := by
        have hi0 := forward_unadjusted_index cal conv p fuel un h 0 (by omega)
        subst hl
        simp only [hz, List.getElem_cons_succ]
        rcases rolls with _ | ⟨x, xs⟩
        · simp at hpos
        · simp only [List.singleton_append, List.cons.injEq, true_and] at hl'
          subst hl'
          rcases hh with hh | hh
          · cases hh
          · simp at hh; simp [hh]
      rw [this]; exact hE
    · obtain ⟨_, hl', _, hr⟩ := forwardLoop_rolls (schedOps cal conv) p fuel 1 p.effective [p.effective] un h
      subst hl
      simp only [List.singleton_append, List.cons.injEq, true_and] at hl'
      subst hl'
      have := hr (rolls.length - 1 - 1) (by omega)
      have e2 : rolls.length - 1 - 1 + 1 = rolls.length - 1 := by omega
      simp only [List.getElem_cons_succ]
      simp only [e2] at this
      exact (model_rollF_monthIndex cal conv p _ _ this).2
  have hge0 : 0 ≤ p.numMonths * ((rolls.length - 1 : Nat) : Int) := Int.mul_nonneg hp (Int.natCast_nonneg _)
  have hy : 1901 ≤ (un[rolls.length - 1 + 1]'(by omega)).y := by
    obtain ⟨_, ⟨_, a1, a2, _, _⟩⟩ := hwf
    obtain ⟨_, ⟨_, b1, b2, _, _⟩⟩ := hE
    simp only [monthIndex] at hidx; omega
  refine ⟨hltT, ?_, ?_⟩
  · have := monthIndex_le_of_serial_gt _ _ hT hwf hy hltT
    omega
  · -- last ≥ termination ⇒ not in an earlier month
    have hly : 1901 ≤ last.y := by
      obtain ⟨_, ⟨_, a1, a2, _, _⟩⟩ := hlwf
      obtain ⟨_, ⟨_, b1, b2, _, _⟩⟩ := hE
      have : 0 ≤ p.numMonths * (rolls.length : Int) := Int.mul_nonneg hp (Int.natCast_nonneg _)
      simp only [monthIndex] at hlidx; omega
    have := monthIndex_le_of_serial_le _ _ hT hlwf hly hge
    have e3 : ((rolls.length - 1 : Nat) : Int) = (rolls.length : Int) - 1 := by omega
    rw [hidx, e3]; rw [hlidx] at this
    have : p.numMonths * ((rolls.length : Int) - 1) = p.numMonths * (rolls.length : Int) - p.numMonths := by ring
    omega

/-- Non-vacuity / illustration: BACKWARD monthly 10-Jan-2020 → 31-Mar-2020 with the month-end flag: the unadjusted dates
are 31-Mar, 29-Feb, 31-Jan, 31-Dec (previous coupon date); the front stub 10-Jan → 31-Jan is shorter than a month. -/
example : (match backwardLoop (schedOps 2 2)
      { effective := mkDate 10 1 2020, termination := mkDate 31 3 2020, numMonths := 1, backward := true,
        adjustTermination := true, endOfMonth := true } 50 0 (mkDate 31 3 2020) [] with
    | .ok l => l.map (fun d => (d.d, d.m, d.y)) | .error _ => []) =
    [(31, 3, 2020), (29, 2, 2020), (31, 1, 2020), (31, 12, 2019)] := by decide +kernel

end FinVerif.Props.C16
