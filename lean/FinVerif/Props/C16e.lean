/-
  C16 — termination of the roll loops of the CDS premium-leg date generator
  (`CDS._generate_adjusted_cds_payment_dts`, financepy/products/credit/cds.py; modelled by
  `FinVerif.Sched.cdsBackLoop` / `cdsFwdLoop` / `cdsUnadjusted`) for the model of the code's `Date`:
  the fuel of the model is never the reason for a failure.  With period `p ≥ 1` months, the BACKWARD loop
  `while next_dt > start_dt` started at the maturity date needs at most
  `monthIndex(maturity) − monthIndex(step_in) + 2` iterations, and so does the FORWARD loop
  `while next_dt < maturity_dt`; the model's fuel of 5000 covers every CDS of up to 416 years, for every calendar
  and business-day convention.
-/
import FinVerif.Props.C16c
import FinVerif.Props.C16b
set_option linter.unusedVariables false
set_option linter.unusedSimpArgs false
namespace FinVerif.Props.C16
open FinVerif FinVerif.Sched FinVerif.Model FinVerif.Spec
open FinVerif.Props.C13 (monthIndex addMonths_spec mkDateQ_ok excelSerial_eq_spec serial_lt_of_month_lt serial_lt_of_year_lt monthDays_eq_monthLen)
open FinVerif.Props.C14 (WF ValidG mkDateQ_iff)

/-- a well-formed date whose serial is above the serial of a well-formed date `b` from 1901 on is not in an earlier
month than `b` (this covers dates of the year 1900, whose serial is below every serial from 1901 on); used for the
loop test `next_dt > start_dt` of the CDS BACKWARD loop -/
theorem monthIndex_le_of_serial_gt (a b : PyDate) (ha : WF a) (hb : WF b) (hyb : 1901 ≤ b.y)
    (hgt : a.serial > b.serial) : monthIndex b ≤ monthIndex a := by
  by_contra hc
  have hlt : monthIndex a < monthIndex b := by omega
  by_cases hny : 1901 ≤ a.y
  · have := serial_lt_of_monthIndex_lt a b ha hb hny hyb hlt
    omega
  · obtain ⟨en, ⟨hy0, n1, n2, n3, n4⟩⟩ := ha
    obtain ⟨ee, ⟨_, e1, e2, e3, e4⟩⟩ := hb
    have hyn : a.y = 1900 := by omega
    have : a.serial ≤ 366 := by
      rw [en]; simp only [mkDate, excelSerial, daysBeforeYear, daysBeforeMonth, excelLeap, leapsUpTo, hyn]
      have hb : a.d ≤ 31 := by
        have := (FinVerif.Props.C14.monthDays_range a.y a.m ⟨n1, n2⟩).2; omega
      generalize a.m = m at *
      interval_cases m <;> simp [pyIdxD, pyIdx?, cumDaysLeap] <;> omega
    have : 366 < b.serial := by
      rw [ee]; simp only [mkDate, excelSerial, daysBeforeYear, daysBeforeMonth, excelLeap, leapsUpTo]
      have hne : b.y ≠ 1900 := by omega
      simp only [hne, if_false]
      split <;> (generalize b.m = m at *; interval_cases m <;>
        simp [pyIdxD, pyIdx?, cumDaysLeap, cumDaysNonLeap] <;> omega)
    omega

/-- C16 termination (CDS BACKWARD loop `while next_dt > start_dt` of `CDS._generate_adjusted_cds_payment_dts`):
for the model's date arithmetic, with period `p ≥ 1` months and a well-formed step-in date from 1901 on, the loop never
runs out of fuel once `fuel + k ≥ monthIndex(maturity) − monthIndex(step_in) + 2` — whatever it returns (the dates, or
the library's error for a date before 1900) is not the "out of fuel" outcome. -/
theorem cdsBackLoop_fuel_suffices (cal conv : Int) (stepIn maturity : PyDate) (nm : Int) (hp : 1 ≤ nm)
    (hS : WF stepIn) (hSy : 1901 ≤ stepIn.y) (hM : WF maturity)
    (fuel k : Nat) (next : PyDate) (acc : List PyDate)
    (hnext : WF next) (hidx : monthIndex next = monthIndex maturity - nm * (k : Int))
    (hfuel1 : 1 ≤ fuel)
    (hfuel : monthIndex maturity - monthIndex stepIn + 2 ≤ (fuel : Int) + (k : Int)) :
    cdsBackLoop (schedOps cal conv) stepIn maturity nm fuel k next acc ≠ .error .other := by
  induction fuel generalizing k next acc with
  | zero => omega
  | succ n ih =>
    unfold cdsBackLoop
    by_cases hgt : next.serial > stepIn.serial
    · rw [if_pos hgt]
      have hge : monthIndex stepIn ≤ monthIndex next :=
        monthIndex_le_of_serial_gt next stepIn hnext hS hSy hgt
      have hk : nm * (k : Int) ≤ monthIndex maturity - monthIndex stepIn := by omega
      have hkk : (k : Int) ≤ monthIndex maturity - monthIndex stepIn := by
        have h1 : (1 : Int) * (k : Int) ≤ nm * (k : Int) :=
          Int.mul_le_mul_of_nonneg_right hp (Int.natCast_nonneg k)
        omega
      have hn1 : 1 ≤ n := by omega
      simp only [schedOps]
      cases hadd : addMonths maturity (-(nm * ((k + 1 : Nat) : Int))) with
      | error e =>
        simp only []
        intro hc; cases hc
        exact addMonths_not_other _ _ hadd
      | ok nd =>
        simp only []
        have hndwf := addMonths_wf _ _ _ hadd
        have hndidx : monthIndex nd = monthIndex maturity - nm * ((k + 1 : Nat) : Int) := by
          have := (addMonths_spec _ _ _ hadd).1
          simp only [monthIndex]; omega
        exact ih (k + 1) nd _ hndwf hndidx hn1 (by push_cast; omega)
    · rw [if_neg hgt]; simp

/-- … in particular the model's own fuel (5000) suffices for every BACKWARD CDS roll (`while next_dt > start_dt`,
started at `next_dt = maturity_dt` with `[maturity_dt]` already collected) spanning at most 4998 months (416 years). -/
theorem cds_backward_never_out_of_fuel (cal conv : Int) (stepIn maturity : PyDate) (nm : Int) (hp : 1 ≤ nm)
    (hS : WF stepIn) (hSy : 1901 ≤ stepIn.y) (hM : WF maturity)
    (hspan : monthIndex maturity - monthIndex stepIn ≤ 4998) :
    cdsBackLoop (schedOps cal conv) stepIn maturity nm 5000 0 maturity [maturity] ≠ .error .other :=
  cdsBackLoop_fuel_suffices cal conv stepIn maturity nm hp hS hSy hM 5000 0 maturity [maturity] hM (by simp)
    (by norm_num) (by push_cast; omega)

/-- C16 termination (CDS FORWARD loop `while next_dt < maturity_dt` of `CDS._generate_adjusted_cds_payment_dts`):
stepping whole periods forward from the step-in date (`next` is the roll `step_in + p·k`), the loop never runs out of
fuel once `fuel + k ≥ monthIndex(maturity) − monthIndex(step_in) + 2`. -/
theorem cdsFwdLoop_fuel_suffices (cal conv : Int) (stepIn maturity : PyDate) (nm : Int) (hp : 1 ≤ nm)
    (hM : WF maturity) (hMy : 1901 ≤ maturity.y)
    (fuel k : Nat) (next : PyDate) (acc : List PyDate)
    (hnext : WF next) (hny : 1901 ≤ next.y)
    (hidx : monthIndex next = monthIndex stepIn + nm * (k : Int))
    (hfuel1 : 1 ≤ fuel)
    (hfuel : monthIndex maturity - monthIndex stepIn + 2 ≤ (fuel : Int) + (k : Int)) :
    cdsFwdLoop (schedOps cal conv) stepIn maturity nm fuel k next acc ≠ .error .other := by
  induction fuel generalizing k next acc with
  | zero => omega
  | succ n ih =>
    unfold cdsFwdLoop
    by_cases hlt : next.serial < maturity.serial
    · rw [if_pos hlt]
      have hle : monthIndex next ≤ monthIndex maturity := by
        by_contra hc
        have := serial_lt_of_monthIndex_lt maturity next hM hnext hMy hny (by omega)
        omega
      have h1 : (1 : Int) * (k : Int) ≤ nm * (k : Int) :=
        Int.mul_le_mul_of_nonneg_right hp (Int.natCast_nonneg k)
      have hkk : (k : Int) ≤ monthIndex maturity - monthIndex stepIn := by omega
      have hn1 : 1 ≤ n := by omega
      simp only [schedOps]
      cases hadd : addMonths stepIn (nm * ((k + 1 : Nat) : Int)) with
      | error e =>
        simp only []
        intro hc; cases hc
        exact addMonths_not_other _ _ hadd
      | ok nd =>
        simp only []
        have hndwf := addMonths_wf _ _ _ hadd
        have hsp := addMonths_spec _ _ _ hadd
        have hndidx : monthIndex nd = monthIndex stepIn + nm * ((k + 1 : Nat) : Int) := by
          have := hsp.1
          simp only [monthIndex]; omega
        have hndy : 1901 ≤ nd.y := by
          -- the month index grew, so the year did not fall below the year of `next`
          have hge : monthIndex next ≤ monthIndex nd := by
            rw [hndidx, hidx]
            have e : nm * ((k + 1 : Nat) : Int) = nm * (k : Int) + nm := by push_cast; ring
            rw [e]; omega
          obtain ⟨_, ⟨_, e1, e2, _, _⟩⟩ := hnext
          have := hsp.2.1; have := hsp.2.2.1
          simp only [monthIndex] at hge
          omega
        exact ih (k + 1) nd _ hndwf hndy hndidx hn1 (by push_cast; omega)
    · rw [if_neg hlt]; simp

/-- … the model's fuel (5000) suffices for every FORWARD CDS roll (`while next_dt < maturity_dt`, started at
`next_dt = step_in_dt` with nothing collected yet) spanning at most 4998 months. -/
theorem cds_forward_never_out_of_fuel (cal conv : Int) (stepIn maturity : PyDate) (nm : Int) (hp : 1 ≤ nm)
    (hS : WF stepIn) (hSy : 1901 ≤ stepIn.y) (hM : WF maturity) (hMy : 1901 ≤ maturity.y)
    (hspan : monthIndex maturity - monthIndex stepIn ≤ 4998) :
    cdsFwdLoop (schedOps cal conv) stepIn maturity nm 5000 0 stepIn [] ≠ .error .other :=
  cdsFwdLoop_fuel_suffices cal conv stepIn maturity nm hp hM hMy 5000 0 stepIn [] hS hSy (by simp)
    (by norm_num) (by push_cast; omega)

/-- the unadjusted CDS roll dates of `CDS._generate_adjusted_cds_payment_dts` (either rule: BACKWARD
`while next_dt > start_dt` or FORWARD `while next_dt < maturity_dt`) are never "out of fuel" with the model's fuel of
5000, for step-in and maturity dates from 1901 on at most 4998 months apart. -/
theorem cdsUnadjusted_never_out_of_fuel (cal conv : Int) (stepIn maturity : PyDate) (nm : Int) (bw : Bool)
    (hp : 1 ≤ nm) (hS : WF stepIn) (hSy : 1901 ≤ stepIn.y) (hM : WF maturity) (hMy : 1901 ≤ maturity.y)
    (hspan : monthIndex maturity - monthIndex stepIn ≤ 4998) :
    cdsUnadjusted (schedOps cal conv) stepIn maturity nm bw 5000 ≠ .error .other := by
  unfold cdsUnadjusted
  cases bw with
  | true =>
    have hb := cds_backward_never_out_of_fuel cal conv stepIn maturity nm hp hS hSy hM hspan
    simp only [if_true]
    cases hr : cdsBackLoop (schedOps cal conv) stepIn maturity nm 5000 0 maturity [maturity] with
    | error e =>
      simp only []
      intro hc; cases hc
      exact hb hr
    | ok un => simp
  | false =>
    have hf := cds_forward_never_out_of_fuel cal conv stepIn maturity nm hp hS hSy hM hMy hspan
    simp only [Bool.false_eq_true, if_false]
    cases hr : cdsFwdLoop (schedOps cal conv) stepIn maturity nm 5000 0 stepIn [] with
    | error e =>
      simp only []
      intro hc; cases hc
      exact hf hr
    | ok un => simp

/-- Non-vacuity: 20-Dec-2008 (step-in) and 20-Mar-2010 (maturity) are well-formed dates from 1901 on, fifteen month
indices apart, so the hypotheses of the theorems above are satisfiable (quarterly period `3 ≥ 1`). -/
example : WF (mkDate 20 12 2008) ∧ WF (mkDate 20 3 2010) ∧ 1901 ≤ (mkDate 20 12 2008).y ∧
    1901 ≤ (mkDate 20 3 2010).y ∧
    monthIndex (mkDate 20 3 2010) - monthIndex (mkDate 20 12 2008) = 15 := by
  refine ⟨⟨rfl, ?_⟩, ⟨rfl, ?_⟩, by decide, by decide, by decide⟩ <;> (simp only [ValidG, mkDate]; decide)

/-- … and the conclusion at those dates, for every calendar, convention and rule. -/
example (cal conv : Int) (bw : Bool) :
    cdsUnadjusted (schedOps cal conv) (mkDate 20 12 2008) (mkDate 20 3 2010) 3 bw 5000 ≠ .error .other := by
  refine cdsUnadjusted_never_out_of_fuel cal conv _ _ 3 bw (by norm_num) ⟨rfl, ?_⟩ (by decide) ⟨rfl, ?_⟩ (by decide)
    (by decide) <;> (simp only [ValidG, mkDate]; decide)

end FinVerif.Props.C16
