/-
  C16 — products built on schedules inherit exactly the schedule's dates: theorems about the code that CONSUMES the
  roll dates (`Core/ScheduleUse.lean`), for EVERY input:

  * CDS accrual END dates (`accrual_end_dts`): as many as payments, each one is the day before the next accrual start
    (`cdsAccrualEnd_spec`, `cds_accrual_periods_tile`, on serial numbers for the model's `add_days`:
    `model_addDays_minus_one_serial`), the last is the unadjusted maturity date;
  * the FORWARD CDS loop never emits the maturity date itself: every unadjusted roll is strictly before maturity
    (`cdsFwdLoop_lt_maturity`, `cds_forward_unadjusted_strict`), so a duplicated payment date can only be produced by
    business-day adjustment — exactly when the last roll and the maturity adjust to the same day
    (`cds_forward_duplicate_only_by_adjustment`; kernel-checked witness of the known finding
    C16/cds-duplicate-payment-date: `cds_duplicate_payment_witness`);
  * swap legs (`SwapFixedLeg.generate_payments` / `SwapFloatLeg.generate_payment_dts`): the accrual start dates are the
    schedule without its last date, the accrual end dates the schedule without its first date, consecutive periods
    chain (`leg_accrual_dates_are_schedule`, `leg_periods_chain`), with `payment_lag = 0` the payment dates ARE the
    accrual end dates (`leg_payment_lag_zero`), otherwise each is `add_business_days(end, lag)` and is a business day
    (`leg_payment_is_abd`, `model_leg_payment_is_business_day`).
-/
import FinVerif.Core.ScheduleUse
import FinVerif.Model.ScheduleUse
import FinVerif.Props.C16b
import FinVerif.Props.C13b
import FinVerif.Props.C14b
import FinVerif.Props.C14e

set_option linter.unusedVariables false
set_option linter.unusedSimpArgs false

namespace FinVerif.Props.C16
open FinVerif FinVerif.Sched

/-! ### CDS accrual end dates -/

/-- `accrual_end_dts` as coded: one entry per accrual start after the first, each the result of `add_days(-1)` on that
accrual start, followed by the maturity date. -/
theorem cdsAccrualEnd_spec (ad : PyDate → Int → Except PyErr PyDate) (starts ends : List PyDate) (mat : PyDate)
    (h : cdsAccrualEnd ad starts mat = .ok ends) :
    ends.length = (starts.length - 1) + 1 ∧ ends.getLast? = some mat ∧
      ∀ i (hs : i + 1 < starts.length) (he : i < ends.length), ad starts[i + 1] (-1) = .ok ends[i] := by
  unfold cdsAccrualEnd at h
  cases hm : mapE (fun d => ad d (-1)) (starts.drop 1) with
  | error e => rw [hm] at h; cases h
  | ok es =>
    rw [hm] at h
    simp only [Except.ok.injEq] at h; subst h
    have hlen := mapE_length _ _ _ hm
    refine ⟨by simp [hlen], by simp, ?_⟩
    intro i hs he
    have hi : i < (starts.drop 1).length := by simp; omega
    have hi' : i < es.length := by omega
    have := mapE_getElem (fun d => ad d (-1)) (starts.drop 1) es hm i hi hi'
    simp only [List.getElem_drop] at this
    rw [List.getElem_append_left hi']
    have e : 1 + i = i + 1 := by omega
    simpa [e] using this

/-- C16 (CDS): the three date lists of a CDS have the same length (one entry per premium period) whenever there is at
least one payment, and the last accrual end is the unadjusted maturity date. -/
theorem cds_full_lengths (o : Ops) (ad : PyDate → Int → Except PyErr PyDate) (stepIn maturity : PyDate) (nm : Int)
    (bw : Bool) (fuel : Nat) (r : CdsDatesFull) (h : cdsGenerateFull o ad stepIn maturity nm bw fuel = .ok r)
    (hne : r.payment ≠ []) :
    r.accrualStart.length = r.payment.length ∧ r.accrualEnd.length = r.payment.length ∧
      r.accrualEnd.getLast? = some maturity := by
  unfold cdsGenerateFull at h
  cases hg : cdsGenerate o stepIn maturity nm bw fuel with
  | error e => simp [hg] at h
  | ok g =>
    simp only [hg] at h
    cases ha : cdsAccrualEnd ad g.accrualStart maturity with
    | error e => simp [ha] at h
    | ok ends =>
      simp only [ha, Except.ok.injEq] at h; subst h
      obtain ⟨hl, _⟩ := cds_accrual_chain o stepIn maturity nm bw fuel g hg
      obtain ⟨hel, hlast, _⟩ := cdsAccrualEnd_spec ad g.accrualStart ends maturity ha
      simp only at hne ⊢
      have : 0 < g.payment.length := List.length_pos_iff.mpr hne
      exact ⟨hl, by omega, hlast⟩

/-- C16 (CDS): accrual periods tile the premium leg — if `add_days(-1)` moves the serial number by −1 (which
`model_addDays_minus_one_serial` proves for the model of `Date.add_days`), then every accrual end date is exactly one
day before the next accrual start date (= the previous payment date): no gap and no overlap between periods. -/
theorem cds_accrual_periods_tile (o : Ops) (ad : PyDate → Int → Except PyErr PyDate) (stepIn maturity : PyDate)
    (nm : Int) (bw : Bool) (fuel : Nat) (r : CdsDatesFull)
    (had : ∀ d e, ad d (-1) = .ok e → e.serial + 1 = d.serial)
    (h : cdsGenerateFull o ad stepIn maturity nm bw fuel = .ok r) :
    ∀ i (hs : i + 1 < r.accrualStart.length) (he : i < r.accrualEnd.length) (hp : i < r.payment.length),
      r.accrualEnd[i].serial + 1 = r.accrualStart[i + 1].serial ∧ r.accrualStart[i + 1] = r.payment[i] := by
  unfold cdsGenerateFull at h
  cases hg : cdsGenerate o stepIn maturity nm bw fuel with
  | error e => simp [hg] at h
  | ok g =>
    simp only [hg] at h
    cases ha : cdsAccrualEnd ad g.accrualStart maturity with
    | error e => simp [ha] at h
    | ok ends =>
      simp only [ha, Except.ok.injEq] at h; subst h
      intro i hs he hp
      obtain ⟨_, _, hk⟩ := cdsAccrualEnd_spec ad g.accrualStart ends maturity ha
      obtain ⟨_, hc⟩ := cds_accrual_chain o stepIn maturity nm bw fuel g hg
      exact ⟨had _ _ (hk i hs he), hc i hs hp⟩

open FinVerif.Model in
/-- C13 at the model: for a date held in the date table from 1902 on, `add_days(-1)` returns the date whose serial number
is one less — the hypothesis of `cds_accrual_periods_tile`. -/
theorem model_addDays_minus_one_serial (d e : PyDate) (hh : FinVerif.Props.C14.Held d) (hy : 1902 ≤ d.y)
    (h : addDays d (-1) = .ok e) : e.serial + 1 = d.serial := by
  obtain ⟨hd, hv⟩ := hh
  rw [hd] at h
  have := FinVerif.Props.C13.addDays_serial d.d d.m d.y (-1) e hv (by omega) (by intro _; omega) h
  rw [← hd] at this
  omega

/-! ### the FORWARD CDS loop and the duplicated payment date -/

variable (o : Ops)

/-- Every date the FORWARD loop appends passed the loop test `next_dt < maturity_dt`. -/
theorem cdsFwdLoop_lt_maturity (stepIn maturity : PyDate) (nm : Int) (fuel k : Nat) (next : PyDate)
    (acc l : List PyDate) (hacc : ∀ x ∈ acc, x.serial < maturity.serial)
    (h : cdsFwdLoop o stepIn maturity nm fuel k next acc = .ok l) : ∀ x ∈ l, x.serial < maturity.serial := by
  induction fuel generalizing k next acc with
  | zero => simp [cdsFwdLoop] at h
  | succ n ih =>
    unfold cdsFwdLoop at h
    by_cases hlt : next.serial < maturity.serial
    · rw [if_pos hlt] at h
      cases hadd : o.addMonths stepIn (nm * ((k + 1 : Nat) : Int)) with
      | error er => rw [hadd] at h; cases h
      | ok nd =>
        simp only [hadd] at h
        refine ih (k + 1) nd (acc ++ [next]) ?_ h
        intro x hx
        simp only [List.mem_append, List.mem_singleton] at hx
        rcases hx with hx | rfl
        · exact hacc x hx
        · exact hlt
    · simp only [hlt, if_false, Except.ok.injEq] at h
      subst h; exact hacc

/-- C16 (CDS, FORWARD): the unadjusted dates are `rolls ++ [maturity]` with every roll STRICTLY before the maturity date —
the loop never emits the maturity date itself, so the unadjusted list contains it exactly once (at the end). -/
theorem cds_forward_unadjusted_strict (stepIn maturity : PyDate) (nm : Int) (fuel : Nat) (un : List PyDate)
    (h : cdsUnadjusted o stepIn maturity nm false fuel = .ok un) :
    ∃ rolls, un = rolls ++ [maturity] ∧ ∀ x ∈ rolls, x.serial < maturity.serial := by
  simp only [cdsUnadjusted, Bool.false_eq_true, if_false] at h
  cases hl : cdsFwdLoop o stepIn maturity nm fuel 0 stepIn [] with
  | error e => simp [hl] at h
  | ok rolls =>
    simp only [hl, Except.ok.injEq] at h
    exact ⟨rolls, h.symm, cdsFwdLoop_lt_maturity o stepIn maturity nm fuel 0 stepIn [] rolls (by simp) hl⟩

theorem mapE_append {α β} (f : α → Except PyErr β) (l1 l2 : List α) (r : List β) (h : mapE f (l1 ++ l2) = .ok r) :
    ∃ r1 r2, mapE f l1 = .ok r1 ∧ mapE f l2 = .ok r2 ∧ r = r1 ++ r2 := by
  induction l1 generalizing r with
  | nil => exact ⟨[], r, rfl, by simpa using h, rfl⟩
  | cons a as ih =>
    simp only [List.cons_append, mapE] at h
    cases hfa : f a with
    | error e => simp [hfa] at h
    | ok b =>
      simp only [hfa] at h
      cases hm : mapE f (as ++ l2) with
      | error e => simp [hm] at h
      | ok bs =>
        simp only [hm, Except.ok.injEq] at h; subst h
        obtain ⟨r1, r2, h1, h2, e⟩ := ih bs hm
        exact ⟨b :: r1, r2, by simp [mapE, hfa, h1], h2, by simp [e]⟩

/-- C16 (CDS, FORWARD) — the exact condition of the known finding C16/cds-duplicate-payment-date: when at least one roll
lies strictly between step-in and maturity, the last two payment dates are `adjust(last roll)` and `adjust(maturity)` with
`last roll < maturity` unadjusted; they coincide exactly when business-day adjustment maps the two different dates to the
same day.  (The generator, unlike `Schedule.generate`, has no merging step.) -/
theorem cds_forward_duplicate_only_by_adjustment (stepIn maturity : PyDate) (nm : Int) (fuel : Nat) (r : CdsDates)
    (h : cdsGenerate o stepIn maturity nm false fuel = .ok r) (h2 : 2 ≤ r.payment.length) :
    ∃ (pre : List PyDate) (x a b : PyDate), r.payment = pre ++ [a, b] ∧ o.adjust x = .ok a ∧
      o.adjust maturity = .ok b ∧ x.serial < maturity.serial := by
  unfold cdsGenerate at h
  split at h
  · cases h
  · split at h
    · cases h
    · cases hun : cdsUnadjusted o stepIn maturity nm false fuel with
      | error e => simp [hun] at h
      | ok un =>
        simp only [hun] at h
        cases hm : mapE o.adjust un with
        | error e => simp [hm] at h
        | ok adj =>
          simp only [hm, Except.ok.injEq] at h; subst h
          simp only [List.length_drop] at h2
          obtain ⟨rolls, hu, hlt⟩ := cds_forward_unadjusted_strict o stepIn maturity nm fuel un hun
          have hlen := mapE_length o.adjust un adj hm
          have hr : 2 ≤ rolls.length := by
            have : un.length = rolls.length + 1 := by rw [hu]; simp
            omega
          -- split the rolls as `init ++ [x]`
          have hne : rolls ≠ [] := by intro e; rw [e] at hr; simp at hr
          obtain ⟨init, x, hix⟩ : ∃ init x, rolls = init ++ [x] :=
            ⟨rolls.dropLast, rolls.getLast hne, (List.dropLast_concat_getLast hne).symm⟩
          subst hix
          rw [hu] at hm
          obtain ⟨r1, r2, h1, h2', e⟩ := mapE_append o.adjust (init ++ [x]) [maturity] adj hm
          obtain ⟨r11, r12, h11, h12, e1⟩ := mapE_append o.adjust init [x] r1 h1
          -- the two singletons
          simp only [mapE] at h12 h2'
          cases hax : o.adjust x with
          | error er => simp [hax] at h12
          | ok a =>
            cases hab : o.adjust maturity with
            | error er => simp [hab] at h2'
            | ok b =>
              simp only [hax, Except.ok.injEq] at h12
              simp only [hab, Except.ok.injEq] at h2'
              subst h12; subst h2'; subst e1; subst e
              have hinit : 1 ≤ init.length := by simp at hr; omega
              have h11len := mapE_length o.adjust init r11 h11
              refine ⟨r11.drop 1, x, a, b, ?_, hax, by first | exact hab | rfl, hlt x (by simp)⟩
              cases r11 with
              | nil => simp at h11len; omega
              | cons c cs => simp

/-- The known finding, kernel-checked on the model: `CDS(30-May-1990, 2-Dec-1991, semi-annual, ITALY, FOLLOWING,
FORWARD)` — the roll 30-Nov-1991 (a Saturday) adjusts to Monday 2-Dec-1991, the maturity date: the last two payment dates
coincide. -/
theorem cds_duplicate_payment_witness :
    (match Model.cdsDates (Model.mkDate 30 5 1990) (Model.mkDate 2 12 1991) 6 7 2 false with
      | .ok r => r.payment.map (fun d => (d.d, d.m, d.y)) | .error _ => []) =
    [(30, 11, 1990), (30, 5, 1991), (2, 12, 1991), (2, 12, 1991)] := by decide +kernel

/-! ### swap legs -/

variable (abd : PyDate → Int → Except PyErr PyDate)

/-- invariant of the period loop: it appends `prev :: rest` minus its last date to the accrual starts, `rest` to the
accrual ends, and the payment dates of `rest` to the payments -/
theorem legLoop_spec (lag : Int) (prev : PyDate) (rest : List PyDate) (acc r : LegDates)
    (h : legLoop abd lag prev rest acc = .ok r) :
    r.startAccrued = acc.startAccrued ++ (prev :: rest).dropLast ∧ r.endAccrued = acc.endAccrued ++ rest ∧
      ∃ pays, mapE (legPayment abd lag) rest = .ok pays ∧ r.payment = acc.payment ++ pays := by
  induction rest generalizing prev acc with
  | nil =>
    simp only [legLoop, Except.ok.injEq] at h; subst h
    exact ⟨by simp, by simp, [], rfl, by simp⟩
  | cons nd rest ih =>
    simp only [legLoop] at h
    cases hp : legPayment abd lag nd with
    | error e => simp [hp] at h
    | ok pay =>
      simp only [hp] at h
      obtain ⟨h1, h2, pays, h3, h4⟩ := ih nd _ h
      refine ⟨?_, by simp [h2], pay :: pays, by simp [mapE, hp, h3], by simp [h4]⟩
      rw [h1]; simp [List.dropLast]

/-- a leg that returns dates was built from a schedule of at least two dates, by the period loop -/
theorem legDates_ok (lag : Int) (sched : List PyDate) (r : LegDates) (h : legDates abd lag sched = .ok r) :
    ∃ first x xs, sched = first :: x :: xs ∧
      legLoop abd lag first (x :: xs) { startAccrued := [], endAccrued := [], payment := [] } = .ok r := by
  cases sched with
  | nil => simp [legDates] at h
  | cons first rest =>
    cases rest with
    | nil => simp [legDates] at h
    | cons x xs => exact ⟨first, x, xs, rfl, by simpa [legDates] using h⟩

/-- C16 inheritance (swap legs): the accrual dates of a leg are exactly the schedule's dates — accrual starts = the
schedule without its last date, accrual ends = the schedule without its first date; nothing lost, nothing added. -/
theorem leg_accrual_dates_are_schedule (lag : Int) (sched : List PyDate) (r : LegDates)
    (h : legDates abd lag sched = .ok r) :
    2 ≤ sched.length ∧ r.startAccrued = sched.dropLast ∧ r.endAccrued = sched.drop 1 ∧
      r.startAccrued.take 1 ++ r.endAccrued = sched := by
  obtain ⟨first, x, xs, rfl, h⟩ := legDates_ok abd lag sched r h
  obtain ⟨h1, h2, _⟩ := legLoop_spec abd lag first (x :: xs) _ r h
  simp only [List.nil_append] at h1 h2
  refine ⟨by simp, h1, by simp [h2], ?_⟩
  rw [h1, h2]; simp [List.dropLast]

/-- C16 inheritance (swap legs): periods chain — each accrual start after the first is the previous accrual end, and
there are as many starts as ends as payments. -/
theorem leg_periods_chain (lag : Int) (sched : List PyDate) (r : LegDates) (h : legDates abd lag sched = .ok r) :
    r.startAccrued.length = r.endAccrued.length ∧ r.payment.length = r.endAccrued.length ∧
      ∀ i (hs : i + 1 < r.startAccrued.length) (he : i < r.endAccrued.length),
        r.startAccrued[i + 1] = r.endAccrued[i] := by
  obtain ⟨hlen, h1, h2, _⟩ := leg_accrual_dates_are_schedule abd lag sched r h
  have hpay : r.payment.length = r.endAccrued.length := by
    obtain ⟨first, x, xs, rfl, h⟩ := legDates_ok abd lag sched r h
    obtain ⟨_, h2', pays, hm, hp⟩ := legLoop_spec abd lag first (x :: xs) _ r h
    have := mapE_length _ _ _ hm
    simp only [List.nil_append] at hp h2'
    rw [hp, h2', this]
  refine ⟨by rw [h1, h2]; simp, hpay, ?_⟩
  intro i hs he
  simp only [h1, h2, List.getElem_dropLast, List.getElem_drop]
  congr 1; omega

/-- the payment dates are the period-wise `legPayment` of the accrual end dates -/
theorem leg_payment_spec (lag : Int) (sched : List PyDate) (r : LegDates) (h : legDates abd lag sched = .ok r) :
    mapE (legPayment abd lag) r.endAccrued = .ok r.payment := by
  obtain ⟨first, x, xs, rfl, h⟩ := legDates_ok abd lag sched r h
  obtain ⟨_, h2, pays, hm, hp⟩ := legLoop_spec abd lag first (x :: xs) _ r h
  simp only [List.nil_append] at hp h2
  rw [hp, h2]; exact hm

theorem mapE_ok_id (l : List PyDate) : mapE (fun (d : PyDate) => (.ok d : Except PyErr PyDate)) l = .ok l := by
  induction l with
  | nil => rfl
  | cons a as ih => simp [mapE, ih]

/-- C16 inheritance (swap legs): with `payment_lag = 0` the payment dates ARE the accrual end dates, i.e. the schedule's
dates after the first. -/
theorem leg_payment_lag_zero (sched : List PyDate) (r : LegDates) (h : legDates abd 0 sched = .ok r) :
    r.payment = r.endAccrued ∧ r.payment = sched.drop 1 := by
  have hp := leg_payment_spec abd 0 sched r h
  have hf : legPayment abd 0 = fun (d : PyDate) => (.ok d : Except PyErr PyDate) := by
    funext d; simp [legPayment]
  rw [hf, mapE_ok_id] at hp
  have e : r.payment = r.endAccrued := by simpa using hp.symm
  exact ⟨e, by rw [e]; exact (leg_accrual_dates_are_schedule abd 0 sched r h).2.2.1⟩

/-- C16 inheritance (swap legs): with a non-zero lag each payment date is `add_business_days(accrual end, lag)`. -/
theorem leg_payment_is_abd (lag : Int) (hl : lag ≠ 0) (sched : List PyDate) (r : LegDates)
    (h : legDates abd lag sched = .ok r) :
    ∀ i (he : i < r.endAccrued.length) (hp : i < r.payment.length), abd r.endAccrued[i] lag = .ok r.payment[i] := by
  intro i he hp
  have := mapE_getElem _ _ _ (leg_payment_spec abd lag sched r h) i he hp
  simpa [legPayment, hl] using this

open FinVerif.Model in
/-- … and for the model of `Calendar.add_business_days` such a payment date is a business day of the leg's calendar. -/
theorem model_leg_payment_is_business_day (cal lag : Int) (hl : lag ≠ 0) (sched : List PyDate) (r : LegDates)
    (h : legDates (addBusinessDays cal) lag sched = .ok r) :
    ∀ i (hp : i < r.payment.length), isBusinessDay cal r.payment[i] = some true := by
  intro i hp
  have hlen := (leg_periods_chain _ lag sched r h).2.1
  have := leg_payment_is_abd (addBusinessDays cal) lag hl sched r h i (by omega) hp
  simp only [addBusinessDays] at this
  split at this
  · cases this
  · rename_i s0 hs0
    obtain ⟨n, hn⟩ : ∃ n, lag.natAbs = n + 1 := ⟨lag.natAbs - 1, by omega⟩
    rw [hn] at this
    exact FinVerif.Props.C14.abd_lands_on_business_day _ _ _ n s0 _ this

/-- C16 inheritance, end to end on the model: whatever `SwapFixedLeg`/`SwapFloatLeg` return with `payment_lag = 0`, the
first accrual start followed by the payment dates is exactly the `Schedule` built from the same inputs. -/
theorem model_leg_inherits_schedule (eff term : PyDate) (nm cal conv : Int) (bw eo : Bool) (r : LegDates)
    (h : Model.legDates eff term nm cal conv bw eo 0 = .ok r) :
    ∃ s, Model.schedule eff term nm cal conv bw true eo false = .ok s ∧
      r.startAccrued.take 1 ++ r.payment = s ∧ r.endAccrued = r.payment := by
  unfold Model.legDates at h
  split at h
  · cases h
  · split at h
    · cases h
    · split at h
      · cases h
      · rename_i s hs
        have h0 := leg_payment_lag_zero _ s r h
        refine ⟨s, by first | exact hs | rfl, ?_, h0.1.symm⟩
        rw [h0.1]
        exact (leg_accrual_dates_are_schedule _ 0 s r h).2.2.2

/-- Non-vacuity: the model of a 1-year quarterly leg from 4 Jan 2020 (WEEKEND calendar, FOLLOWING, BACKWARD) with a
payment lag of 2 business days. -/
example : (match Model.legDates (Model.mkDate 4 1 2020) (Model.mkDate 4 1 2021) 3 2 2 true false 2 with
    | .ok r => r.payment.map (fun d => (d.d, d.m, d.y)) | .error _ => []) =
    [(8, 4, 2020), (8, 7, 2020), (7, 10, 2020), (6, 1, 2021)] := by decide +kernel

/-- Non-vacuity (CDS accrual ends, the ISDA standard example): accrual ends 19-Mar-2009 … 20-Mar-2010. -/
example : (match Model.cdsDatesFull (Model.mkDate 20 12 2008) (Model.mkDate 20 3 2010) 3 2 2 true with
    | .ok r => r.accrualEnd.map (fun d => (d.d, d.m, d.y)) | .error _ => []) =
    [(19, 3, 2009), (21, 6, 2009), (20, 9, 2009), (20, 12, 2009), (20, 3, 2010)] := by decide +kernel

end FinVerif.Props.C16
