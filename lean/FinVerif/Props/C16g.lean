/-
  C16 — from "the output passes the acceptance check" (validated numerically by the harness) to a theorem about
  the model of `Schedule.generate`: whenever the model returns dates, they are `Spec.acceptable` with respect to
  the ideal schedule of the source-independent specification, provided the date arithmetic of the model agrees
  with the specification's wherever it succeeds (the content of C13 and C14).

  * A. `dedup` (the code's final loop) and `mergeEqual` (the spec's merge) agree on serial numbers;
  * B. acceptance follows from "the pre-merge list is the ideal schedule" (`acceptable_of_premerge`);
  * C. the loop guards: what the `while` conditions say about the dates appended and the fuel used;
  * D. `generate_acceptable_partial`: the main theorem, for generic operations;
  * E. the instance at the model of the code (`model_schedule_acceptable_partial`).
-/
import FinVerif.Props.C16b
import FinVerif.Spec.Schedule
set_option linter.unusedVariables false
set_option linter.unusedSimpArgs false
namespace FinVerif.Props.C16
open FinVerif FinVerif.Sched FinVerif.Spec

/-! ### A. `dedup` versus `mergeEqual` -/

/-- The spec's `strictlyIncreasing` (a `Bool`) is the `StrictInc` predicate used by the C16 theorems. -/
theorem strictlyIncreasing_iff_StrictInc (l : List PyDate) : strictlyIncreasing l = true ↔ StrictInc l := by
  induction l with
  | nil => simp [strictlyIncreasing, StrictInc]
  | cons a t ih =>
    cases t with
    | nil => simp [strictlyIncreasing, StrictInc]
    | cons b rest =>
      simp only [strictlyIncreasing, StrictInc, Bool.and_eq_true, decide_eq_true_eq]
      rw [ih]

/-- `strictlyIncreasing` depends only on the serial numbers. -/
theorem strictlyIncreasing_congr (a b : List PyDate) (h : a.map (·.serial) = b.map (·.serial)) :
    strictlyIncreasing a = strictlyIncreasing b := by
  induction a generalizing b with
  | nil =>
    cases b with
    | nil => rfl
    | cons y ys => simp at h
  | cons x xs ih =>
    cases b with
    | nil => simp at h
    | cons y ys =>
      simp only [List.map_cons, List.cons.injEq] at h
      obtain ⟨hxy, hrest⟩ := h
      cases xs with
      | nil =>
        cases ys with
        | nil => simp [strictlyIncreasing]
        | cons y2 ys2 => simp at hrest
      | cons x2 xs2 =>
        cases ys with
        | nil => simp at hrest
        | cons y2 ys2 =>
          have := ih (y2 :: ys2) hrest
          simp only [List.map_cons, List.cons.injEq] at hrest
          simp only [strictlyIncreasing, this, hxy, hrest.1]

/-- The serial numbers of `mergeEqual l` depend only on the serial numbers of `l`. -/
theorem mergeEqual_serials_congr (a b : List PyDate) (h : a.map (·.serial) = b.map (·.serial)) :
    (mergeEqual a).map (·.serial) = (mergeEqual b).map (·.serial) := by
  induction a generalizing b with
  | nil =>
    cases b with
    | nil => rfl
    | cons y ys => simp at h
  | cons x xs ih =>
    cases b with
    | nil => simp at h
    | cons y ys =>
      simp only [List.map_cons, List.cons.injEq] at h
      obtain ⟨hxy, hrest⟩ := h
      cases xs with
      | nil =>
        cases ys with
        | nil => simp [mergeEqual, hxy]
        | cons y2 ys2 => simp at hrest
      | cons x2 xs2 =>
        cases ys with
        | nil => simp at hrest
        | cons y2 ys2 =>
          have := ih (y2 :: ys2) hrest
          simp only [List.map_cons, List.cons.injEq] at hrest
          simp only [mergeEqual, hxy, hrest.1]
          split
          · exact this
          · simp only [List.map_cons, hxy, this]

/-- A strictly increasing list has nothing to merge. -/
theorem mergeEqual_of_strictInc (l : List PyDate) (h : StrictInc l) : mergeEqual l = l := by
  induction l with
  | nil => rfl
  | cons a t ih =>
    cases t with
    | nil => rfl
    | cons b rest =>
      obtain ⟨hab, hr⟩ := h
      have hne : ¬ a.serial = b.serial := by omega
      simp only [mergeEqual, hne, if_false, ih hr]

/-- On a strictly increasing list the code's final loop returns the list unchanged. -/
theorem dedup_of_strictInc (prev : PyDate) (l : List PyDate) (h : StrictInc (prev :: l)) :
    dedup prev l = .ok (prev :: l) := by
  induction l generalizing prev with
  | nil => rfl
  | cons dt rest ih =>
    obtain ⟨hab, hr⟩ := h
    have h1 : ¬ dt.serial < prev.serial := by omega
    have h2 : dt.serial > prev.serial := by omega
    simp only [dedup, h1, h2, if_false, if_true, ih dt hr]

/-- C16: the code's duplicate-merging loop and the spec's `mergeEqual` produce the same serial numbers (the code
keeps the first of a run of coinciding dates, the spec the last). -/
theorem dedup_serials_eq_mergeEqual (prev : PyDate) (l r : List PyDate) (h : dedup prev l = .ok r) :
    r.map (·.serial) = (mergeEqual (prev :: l)).map (·.serial) := by
  induction l generalizing prev r with
  | nil =>
    simp only [dedup, Except.ok.injEq] at h; subst h; rfl
  | cons dt rest ih =>
    simp only [dedup] at h
    split at h
    · cases h
    · split at h
      · rename_i hlt hgt
        split at h
        · cases h
        · rename_i r' hr'
          simp only [Except.ok.injEq] at h; subst h
          have hne : ¬ prev.serial = dt.serial := by omega
          simp only [mergeEqual, hne, if_false, List.map_cons, ih dt r' hr']
      · rename_i hlt hgt
        have he : prev.serial = dt.serial := by omega
        simp only [mergeEqual, he, if_true]
        rw [ih prev r h]
        exact mergeEqual_serials_congr (prev :: rest) (dt :: rest) (by simp [he])

/-- non-decreasing by serial number -/
def NonDec : List PyDate → Prop
  | [] => True
  | [_] => True
  | a :: b :: rest => a.serial ≤ b.serial ∧ NonDec (b :: rest)

/-- The only error of the final loop is the library's own error, and it is raised exactly on disorder. -/
theorem dedup_error_iff_not_sorted (prev : PyDate) (l : List PyDate) (e : PyErr) (h : dedup prev l = .error e) :
    e = .finError ∧ ¬ NonDec (prev :: l) := by
  induction l generalizing prev with
  | nil => simp [dedup] at h
  | cons dt rest ih =>
    simp only [dedup] at h
    split at h
    · rename_i hlt
      simp only [Except.error.injEq] at h
      exact ⟨h.symm, fun hn => by have := hn.1; omega⟩
    · split at h
      · split at h
        · rename_i e' he'
          simp only [Except.error.injEq] at h; subst h
          obtain ⟨h1, h2⟩ := ih dt he'
          exact ⟨h1, fun hn => h2 hn.2⟩
        · cases h
      · rename_i hlt hgt
        obtain ⟨h1, h2⟩ := ih prev h
        refine ⟨h1, fun hn => h2 ?_⟩
        obtain ⟨hpd, hrest⟩ := hn
        cases rest with
        | nil => trivial
        | cons x xs => exact ⟨by have := hrest.1; omega, hrest.2⟩

/-- Conversely the loop succeeds on every non-decreasing list. -/
theorem dedup_ok_of_nonDec (prev : PyDate) (l : List PyDate) (h : NonDec (prev :: l)) :
    ∃ r, dedup prev l = .ok r := by
  cases hd : dedup prev l with
  | ok r => exact ⟨r, rfl⟩
  | error e => exact absurd h (dedup_error_iff_not_sorted prev l e hd).2

/-- Non-vacuity of A: three dates, the last two coinciding. -/
example : dedup { d := 1, m := 1, y := 2020, serial := 10, wd := 0 }
    [{ d := 2, m := 1, y := 2020, serial := 11, wd := 1 }, { d := 2, m := 1, y := 2020, serial := 11, wd := 2 }]
    = .ok [{ d := 1, m := 1, y := 2020, serial := 10, wd := 0 }, { d := 2, m := 1, y := 2020, serial := 11, wd := 1 }] := by
  decide

/-! ### B. acceptance from the pre-merge list -/

/-- C16: if the list the code hands to its final loop is, on serial numbers, the ideal schedule of the spec, then
whatever the final loop returns (with at least two dates) is acceptable: the ideal schedule itself when that is
strictly increasing, the merged one otherwise. -/
theorem acceptable_of_premerge (s : SchedSpec) (fuel : Nat) (first : PyDate) (rest r : List PyDate)
    (hlt : s.effective.serial < s.termination.serial)
    (hL : (first :: rest).map (·.serial) = (idealSchedule s fuel).map (·.serial))
    (hd : dedup first rest = .ok r) (hlen : 2 ≤ r.length) : acceptable s fuel (some r) = true := by
  have hnot : ¬ s.effective.serial ≥ s.termination.serial := by omega
  simp only [acceptable, hnot, if_false]
  by_cases hsi : strictlyIncreasing (idealSchedule s fuel) = true
  · simp only [hsi, if_true]
    have h1 : strictlyIncreasing (first :: rest) = true := by
      rw [strictlyIncreasing_congr _ _ hL]; exact hsi
    have h2 := dedup_of_strictInc first rest ((strictlyIncreasing_iff_StrictInc _).1 h1)
    rw [h2] at hd
    simp only [Except.ok.injEq] at hd; subst hd
    simpa using hL
  · simp only [hsi, Bool.false_eq_true, if_false]
    have h1 : strictlyIncreasing r = true :=
      (strictlyIncreasing_iff_StrictInc r).2 (dedup_spec first rest r hd).2.1
    have h2 : r.map (·.serial) = (mergeEqual (idealSchedule s fuel)).map (·.serial) := by
      rw [dedup_serials_eq_mergeEqual first rest r hd]
      exact mergeEqual_serials_congr _ _ hL
    simp only [h1, Bool.true_and, Bool.and_eq_true, decide_eq_true_eq, beq_iff_eq]
    exact ⟨hlen, h2⟩

/-! ### C. loop guards -/

variable (o : Ops)

/-- C16 (BACKWARD, with the `while` condition): the loop returns `acc ++ [next] ++ rolls` where the rolls are
`rollB (k+1+i)`, every date but the last is strictly after the effective date, the last one (the previous coupon
date) is on or before it, and the number of iterations fits the fuel. -/
theorem backwardLoop_guard (p : Params) (fuel k : Nat) (next : PyDate) (acc l : List PyDate)
    (h : backwardLoop o p fuel k next acc = .ok l) :
    ∃ rolls : List PyDate, l = acc ++ [next] ++ rolls ∧
      (∀ i (hi : i < rolls.length), rollB o p (k + 1 + i) = .ok (rolls[i])) ∧
      (∀ x ∈ (next :: rolls).dropLast, x.serial > p.effective.serial) ∧
      (∃ z, (next :: rolls).getLast? = some z ∧ z.serial ≤ p.effective.serial) ∧
      rolls.length + 1 ≤ fuel := by
  induction fuel generalizing k next acc with
  | zero => simp [backwardLoop] at h
  | succ n ih =>
    unfold backwardLoop at h
    by_cases hgt : next.serial > p.effective.serial
    · simp only [hgt, if_true] at h
      have e : -(p.numMonths * (1 + (k : Int))) = -(p.numMonths * ((k + 1 + 0 : Nat) : Int)) := by
        push_cast; ring
      cases hadd : o.addMonths p.termination (-(p.numMonths * (1 + (k : Int)))) with
      | error er => simp [hadd] at h
      | ok nd =>
        simp only [hadd] at h
        -- the date the loop continues with
        have key : ∀ nd' : PyDate, rollB o p (k + 1 + 0) = .ok nd' →
            backwardLoop o p n (k + 1) nd' (acc ++ [next]) = .ok l →
            ∃ rolls : List PyDate, l = acc ++ [next] ++ rolls ∧
              (∀ i (hi : i < rolls.length), rollB o p (k + 1 + i) = .ok (rolls[i])) ∧
              (∀ x ∈ (next :: rolls).dropLast, x.serial > p.effective.serial) ∧
              (∃ z, (next :: rolls).getLast? = some z ∧ z.serial ≤ p.effective.serial) ∧
              rolls.length + 1 ≤ n + 1 := by
          intro nd' hroll hloop
          obtain ⟨rolls, hl, hr, hall, ⟨z, hz, hzle⟩, hfuel⟩ := ih (k + 1) nd' (acc ++ [next]) hloop
          refine ⟨nd' :: rolls, by simp [hl], ?_, ?_, ⟨z, ?_, hzle⟩, by simp; omega⟩
          · intro i hi
            cases i with
            | zero => simpa using hroll
            | succ j =>
              have := hr j (by simpa using hi)
              have e2 : k + 1 + (j + 1) = k + 1 + 1 + j := by omega
              simp only [List.getElem_cons_succ, e2]
              exact this
          · intro x hx
            rw [List.dropLast_cons_cons] at hx
            simp only [List.mem_cons] at hx
            rcases hx with rfl | hx
            · exact hgt
            · exact hall x hx
          · rw [List.getLast?_cons_cons]; exact hz
        by_cases heom : p.endOfMonth = true
        · simp only [heom, if_true] at h
          cases hem : o.eom nd with
          | error er => simp [hem] at h
          | ok nd' =>
            simp only [hem] at h
            exact key nd' (by simp only [rollB, ← e, hadd, heom, if_true, hem]) h
        · simp only [heom] at h
          have hf : p.endOfMonth = false := by simpa using heom
          exact key nd (by simp only [rollB, ← e, hadd, hf]; rfl) h
    · simp only [hgt, if_false, Except.ok.injEq] at h
      refine ⟨[], by simp [h], by intro i hi; simp at hi, by simp, ⟨next, by simp, by omega⟩, by simp⟩

/-- C16 (FORWARD, with the `while` condition): the loop returns `acc ++ rolls` where `rolls` starts with `next`
and continues with `rollF (k+i)`, every appended date is strictly before the termination date, the date computed
last — not appended — is on or after it, and the number of iterations fits the fuel. -/
theorem forwardLoop_guard (p : Params) (fuel k : Nat) (next : PyDate) (acc l : List PyDate)
    (h : forwardLoop o p fuel k next acc = .ok l) :
    ∃ rolls : List PyDate, (l = acc ++ rolls) ∧ (rolls = [] ∨ rolls.head? = some next) ∧
      (∀ i (hi : i + 1 < rolls.length), rollF o p (k + i) = .ok (rolls[i + 1])) ∧
      (∀ x ∈ rolls, x.serial < p.termination.serial) ∧
      (∃ z : PyDate, z.serial ≥ p.termination.serial ∧ (rolls = [] → z = next) ∧
        (rolls ≠ [] → rollF o p (k + rolls.length - 1) = .ok z)) ∧
      rolls.length + 1 ≤ fuel := by
  induction fuel generalizing k next acc with
  | zero => simp [forwardLoop] at h
  | succ n ih =>
    unfold forwardLoop at h
    by_cases hlt : next.serial < p.termination.serial
    · simp only [hlt, if_true] at h
      cases hadd : o.addMonths p.effective (p.numMonths * (k : Int)) with
      | error er => simp [hadd] at h
      | ok nd =>
        simp only [hadd] at h
        obtain ⟨rolls, hl, hh, hr, hall, ⟨z, hzge, hz0, hz1⟩, hfuel⟩ := ih (k + 1) nd (acc ++ [next]) h
        refine ⟨next :: rolls, by simp [hl], Or.inr rfl, ?_, ?_, ⟨z, hzge, by simp, ?_⟩, by simp; omega⟩
        · intro i hi
          cases i with
          | zero =>
            rcases hh with hh | hh
            · subst hh; simp at hi
            · cases rolls with
              | nil => simp at hi
              | cons x xs =>
                simp at hh; subst hh
                simp [rollF, hadd]
          | succ j =>
            have := hr j (by simpa using hi)
            have e2 : k + (j + 1) = k + 1 + j := by omega
            simp only [List.getElem_cons_succ, e2]
            exact this
        · intro x hx
          simp only [List.mem_cons] at hx
          rcases hx with rfl | hx
          · exact hlt
          · exact hall x hx
        · intro _
          by_cases hnil : rolls = []
          · subst hnil
            have := hz0 rfl
            subst this
            simpa [rollF] using hadd
          · have := hz1 hnil
            have hpos : 0 < rolls.length := List.length_pos_iff.mpr hnil
            have e2 : k + (next :: rolls).length - 1 = k + 1 + rolls.length - 1 := by
              simp only [List.length_cons]; omega
            rw [e2]; exact this
    · simp only [hlt, if_false, Except.ok.injEq] at h
      exact ⟨[], by simp [h], Or.inl rfl, by intro i hi; simp at hi, by simp,
        ⟨next, by omega, fun _ => rfl, fun hne => absurd rfl hne⟩, by simp⟩

/-! ### D. the model's output is acceptable -/

/-- The specification that corresponds to the parameters of a `generate` call (plus calendar and convention,
which the generic algorithm only sees through `Ops.adjust`). -/
def specOf (p : Params) (cal conv : Int) : SchedSpec :=
  { effective := p.effective, termination := p.termination, numMonths := p.numMonths, backward := p.backward,
    adjustTermination := p.adjustTermination, endOfMonth := p.endOfMonth, cal := cal, conv := conv }

/-- If `f` agrees with the total function `g` wherever it succeeds, a successful `mapE f` is `List.map g`. -/
theorem mapE_eq_map {α β} (f : α → Except PyErr β) (g : α → β) (hfg : ∀ a b, f a = .ok b → b = g a)
    (l : List α) (r : List β) (h : mapE f l = .ok r) : r = l.map g := by
  induction l generalizing r with
  | nil => simp [mapE] at h; subst h; rfl
  | cons a as ih =>
    simp only [mapE] at h
    cases hfa : f a with
    | error e => simp [hfa] at h
    | ok b =>
      simp only [hfa] at h
      cases hm : mapE f as with
      | error e => simp [hm] at h
      | ok bs =>
        simp only [hm, Except.ok.injEq] at h; subst h
        simp only [List.map_cons, hfg a b hfa, ih bs hm]

/-- `takeWhile` over an enumerated sequence stops at the first index where the predicate fails. -/
theorem takeWhile_map_range {α} (f : Nat → α) (P : α → Bool) (m N : Nat) (hm : m < N)
    (hpos : ∀ i, i < m → P (f i) = true) (hneg : P (f m) = false) :
    ((List.range N).map f).takeWhile P = (List.range m).map f := by
  induction m generalizing f N with
  | zero =>
    cases N with
    | zero => omega
    | succ N' =>
      rw [List.range_succ_eq_map]
      simp [List.takeWhile_cons, hneg]
  | succ m ih =>
    cases N with
    | zero => omega
    | succ N' =>
      rw [List.range_succ_eq_map, List.range_succ_eq_map]
      simp only [List.map_cons, List.map_map, List.takeWhile_cons, hpos 0 (by omega), if_true]
      congr 1
      exact ih (f ∘ Nat.succ) N' (by omega) (fun i hi => hpos (i + 1) (by omega)) hneg

/-- The spec's interior rolls (BACKWARD) from the facts the loop guard provides. -/
theorem interiorRolls_backward (s : SchedSpec) (fuel : Nat) (rolls : List PyDate) (hb : s.backward = true)
    (hpos : 0 < rolls.length)
    (hr : ∀ i (hi : i < rolls.length), rolls[i] = rollDate s (i + 1))
    (hgt : ∀ i (hi : i + 1 < rolls.length), (rolls[i]).serial > s.effective.serial)
    (hle : (rolls[rolls.length - 1]).serial ≤ s.effective.serial)
    (hfuel : rolls.length ≤ fuel) : interiorRolls s fuel = rolls.dropLast.reverse := by
  simp only [interiorRolls, hb, if_true, List.map_map]
  congr 1
  rw [takeWhile_map_range (rollDate s ∘ (· + 1)) _ (rolls.length - 1) fuel (by omega)]
  · apply List.ext_getElem
    · simp
    · intro i h1 h2
      simp only [List.length_map, List.length_range] at h1
      simp only [List.getElem_map, List.getElem_range, Function.comp, List.getElem_dropLast]
      exact (hr i (by omega)).symm
  · intro i hi
    simp only [Function.comp, decide_eq_true_eq]
    rw [← hr i (by omega)]
    exact hgt i (by omega)
  · simp only [Function.comp, decide_eq_false_iff_not]
    have e : rolls.length - 1 + 1 = rolls.length - 1 + 1 := rfl
    rw [← hr (rolls.length - 1) (by omega)]
    omega

/-- The spec's interior rolls (FORWARD) from the facts the loop guard provides. -/
theorem interiorRolls_forward (s : SchedSpec) (fuel : Nat) (rolls : List PyDate) (hb : s.backward = false)
    (hr : ∀ i (hi : i < rolls.length), rolls[i] = rollDate s (i + 1))
    (hlt : ∀ i (hi : i < rolls.length), (rolls[i]).serial < s.termination.serial)
    (hz : (rollDate s (rolls.length + 1)).serial ≥ s.termination.serial)
    (hfuel : rolls.length < fuel) : interiorRolls s fuel = rolls := by
  simp only [interiorRolls, hb, Bool.false_eq_true, if_false, List.map_map]
  rw [takeWhile_map_range (rollDate s ∘ (· + 1)) _ rolls.length fuel hfuel]
  · apply List.ext_getElem
    · simp
    · intro i h1 h2
      simp only [List.getElem_map, List.getElem_range, Function.comp]
      exact (hr i h2).symm
  · intro i hi
    simp only [Function.comp, decide_eq_true_eq]
    rw [← hr i hi]
    exact hlt i hi
  · simp only [Function.comp, decide_eq_false_iff_not]
    omega

/-- C16 (BACKWARD): after its first entry, the list built by `body` is the adjusted interior rolls of the spec
followed by the termination date. -/
theorem body_backward_drop_one (p : Params) (cal conv : Int) (fuel : Nat) (ds : List PyDate)
    (hb : p.backward = true) (hlt : p.effective.serial < p.termination.serial)
    (hB : ∀ (k : Nat) (x : PyDate), 1 ≤ k → rollB o p k = .ok x →
      (k = 1 ∨ ∃ y, rollB o p (k - 1) = .ok y ∧ y.serial > p.effective.serial) →
      x = rollDate (specOf p cal conv) k)
    (hA : ∀ d x, o.adjust d = .ok x → x = adjustS (specOf p cal conv) d)
    (h : body o p fuel = .ok ds) :
    ds.drop 1 = (interiorRolls (specOf p cal conv) fuel).map (adjustS (specOf p cal conv)) ++ [p.termination] := by
  simp only [body, hb, if_true] at h
  cases hl : backwardLoop o p fuel 0 p.termination [] with
  | error e => simp [hl] at h
  | ok un =>
    simp only [hl] at h
    obtain ⟨rolls, hun, hr, hall, ⟨z, hz, hzle⟩, hfuel⟩ := backwardLoop_guard o p fuel 0 p.termination [] un hl
    have hun' : un = p.termination :: rolls := by simpa using hun
    subst hun'
    simp only [List.drop_succ_cons, List.drop_zero] at h
    cases hm : mapE o.adjust (rolls.dropLast.reverse) with
    | error e => simp [hm] at h
    | ok adj =>
      simp only [hm, Except.ok.injEq] at h
      subst h
      have hadj := mapE_eq_map o.adjust (adjustS (specOf p cal conv)) hA _ adj hm
      have hne : rolls ≠ [] := by
        intro e; subst e
        simp at hz; subst hz; omega
      have hpos : 0 < rolls.length := List.length_pos_iff.mpr hne
      have hgt : ∀ i (hi : i + 1 < rolls.length), (rolls[i]).serial > p.effective.serial := by
        intro i hi
        apply hall
        rw [List.dropLast_cons_of_ne_nil hne]
        apply List.mem_cons_of_mem
        have : rolls[i] = rolls.dropLast[i]'(by simp; omega) := by simp [List.getElem_dropLast]
        rw [this]; exact List.getElem_mem _
      have hr' : ∀ i (hi : i < rolls.length), rollB o p (i + 1) = .ok (rolls[i]) := by
        intro i hi
        have := hr i hi
        simpa [Nat.add_comm] using this
      have hint : interiorRolls (specOf p cal conv) fuel = rolls.dropLast.reverse := by
        apply interiorRolls_backward (specOf p cal conv) fuel rolls hb hpos
        · intro i hi
          refine hB (i + 1) _ (by omega) (hr' i hi) ?_
          cases i with
          | zero => exact Or.inl rfl
          | succ j =>
            right
            refine ⟨rolls[j], ?_, hgt j hi⟩
            have := hr' j (by omega)
            simpa using this
        · exact hgt
        · rw [List.getLast?_cons_of_ne_nil hne, List.getLast?_eq_getElem?] at hz
          rw [List.getElem?_eq_getElem (by omega)] at hz
          simp only [Option.some.injEq] at hz
          rw [hz]; exact hzle
        · omega
      rw [hint, ← hadj]
      simp

/-- C16 (FORWARD): after its first entry (the adjusted effective date, which `post` overwrites), the list built by
`body` is the adjusted interior rolls of the spec followed by the termination date. -/
theorem body_forward_drop_one (p : Params) (cal conv : Int) (fuel : Nat) (ds : List PyDate)
    (hb : p.backward = false) (hlt : p.effective.serial < p.termination.serial)
    (hF : ∀ (k : Nat) (x : PyDate), 1 ≤ k → rollF o p k = .ok x → x = rollDate (specOf p cal conv) k)
    (hA : ∀ d x, o.adjust d = .ok x → x = adjustS (specOf p cal conv) d)
    (h : body o p fuel = .ok ds) :
    ds.drop 1 = (interiorRolls (specOf p cal conv) fuel).map (adjustS (specOf p cal conv)) ++ [p.termination] := by
  simp only [body, hb, Bool.false_eq_true, if_false] at h
  cases hl : forwardLoop o p fuel 1 p.effective [p.effective] with
  | error e => simp [hl] at h
  | ok un =>
    simp only [hl] at h
    obtain ⟨rolls, hun, hh, hr, hall, ⟨z, hzge, hz0, hz1⟩, hfuel⟩ :=
      forwardLoop_guard o p fuel 1 p.effective [p.effective] un hl
    subst hun
    simp only [List.singleton_append, List.drop_succ_cons, List.drop_zero] at h
    cases hm : mapE o.adjust rolls with
    | error e => simp [hm] at h
    | ok adj =>
      simp only [hm, Except.ok.injEq] at h
      subst h
      have hadj := mapE_eq_map o.adjust (adjustS (specOf p cal conv)) hA _ adj hm
      cases rolls with
      | nil =>
        have := hz0 rfl
        subst this; omega
      | cons e rs =>
        have hz := hz1 (by simp)
        have hint : interiorRolls (specOf p cal conv) fuel = rs := by
          apply interiorRolls_forward (specOf p cal conv) fuel rs hb
          · intro i hi
            have := hr i (by simpa using hi)
            simp only [List.getElem_cons_succ] at this
            exact hF (i + 1) _ (by omega) (by simpa [Nat.add_comm] using this)
          · intro i hi
            exact hall _ (List.mem_cons_of_mem _ (List.getElem_mem _))
          · have e2 : 1 + (e :: rs).length - 1 = rs.length + 1 := by simp only [List.length_cons]; omega
            rw [e2] at hz
            rw [← hF (rs.length + 1) z (by omega) hz]
            exact hzge
          · simp only [List.length_cons] at hfuel; omega
        rw [hint, hadj]
        simp

/-- C16: the list handed to the final loop is the ideal schedule of the spec. -/
theorem premerge_eq_ideal (p : Params) (cal conv : Int) (fuel : Nat) (ds : List PyDate) (t' first : PyDate)
    (rest : List PyDate)
    (hds : ds.drop 1 = (interiorRolls (specOf p cal conv) fuel).map (adjustS (specOf p cal conv)) ++ [p.termination])
    (ht' : if p.adjustTermination then t' = adjustS (specOf p cal conv) p.termination else t' = p.termination)
    (heq : (if p.adjustTermination then (p.effective :: ds.drop 1).dropLast ++ [t'] else p.effective :: ds.drop 1)
        = first :: rest) :
    first :: rest = idealSchedule (specOf p cal conv) fuel := by
  rw [← heq, hds]
  have h1 : (specOf p cal conv).adjustTermination = p.adjustTermination := rfl
  have h2 : (specOf p cal conv).termination = p.termination := rfl
  have h3 : (specOf p cal conv).effective = p.effective := rfl
  simp only [idealSchedule, h1, h2, h3]
  by_cases hat : p.adjustTermination = true
  · simp only [hat, if_true] at ht' ⊢
    rw [← List.cons_append, List.dropLast_concat, ht']
    simp
  · have hat' : p.adjustTermination = false := by simpa using hat
    simp only [hat', Bool.false_eq_true, if_false] at ht' ⊢
    simp

/-- C16 MAIN: whenever the model of `Schedule.generate` returns dates, they are acceptable with respect to the
ideal schedule of the specification — provided the operations agree with the spec's date arithmetic wherever they
succeed (roll dates: C13; business-day adjustment: C14).  For BACKWARD only the rolls the loop REACHES need to agree:
the first one, and those whose predecessor passed the test `next_dt > effective_dt`. -/
theorem generate_acceptable_reached_partial (p : Params) (cal conv : Int) (fuel : Nat) (r : Result)
    (hlt : p.effective.serial < p.termination.serial)
    (hB : p.backward = true → ∀ (k : Nat) (x : PyDate), 1 ≤ k → rollB o p k = .ok x →
      (k = 1 ∨ ∃ y, rollB o p (k - 1) = .ok y ∧ y.serial > p.effective.serial) →
      x = rollDate (specOf p cal conv) k)
    (hF : p.backward = false → ∀ (k : Nat) (x : PyDate), 1 ≤ k → rollF o p k = .ok x →
      x = rollDate (specOf p cal conv) k)
    (hA : ∀ d x, o.adjust d = .ok x → x = adjustS (specOf p cal conv) d)
    (h : generate o p fuel = .ok r) : acceptable (specOf p cal conv) fuel (some r.dates) = true := by
  unfold generate at h
  split at h
  · cases h
  · cases hbody : body o p fuel with
    | error e => simp [hbody] at h
    | ok ds =>
      simp only [hbody] at h
      obtain ⟨t', first, rest, ht', heq, hd, hlen, _⟩ := post_ok o p ds r h
      have hds : ds.drop 1 =
          (interiorRolls (specOf p cal conv) fuel).map (adjustS (specOf p cal conv)) ++ [p.termination] := by
        by_cases hb : p.backward = true
        · exact body_backward_drop_one o p cal conv fuel ds hb hlt (hB hb) hA hbody
        · have hb' : p.backward = false := by simpa using hb
          exact body_forward_drop_one o p cal conv fuel ds hb' hlt (hF hb') hA hbody
      have ht'' : if p.adjustTermination then t' = adjustS (specOf p cal conv) p.termination
          else t' = p.termination := by
        by_cases hat : p.adjustTermination = true
        · simp only [hat, if_true] at ht' ⊢
          exact hA _ _ ht'
        · have hat' : p.adjustTermination = false := by simpa using hat
          simp only [hat', Bool.false_eq_true, if_false] at ht' ⊢
          exact ht'
      have hideal := premerge_eq_ideal p cal conv fuel ds t' first rest hds ht'' heq
      exact acceptable_of_premerge (specOf p cal conv) fuel first rest r.dates hlt (by rw [hideal]) hd hlen

/-- C16 MAIN, with the agreement of the BACKWARD rolls assumed for every index (a corollary of the "reached" form). -/
theorem generate_acceptable_partial (p : Params) (cal conv : Int) (fuel : Nat) (r : Result)
    (hlt : p.effective.serial < p.termination.serial)
    (hB : p.backward = true → ∀ (k : Nat) (x : PyDate), 1 ≤ k → rollB o p k = .ok x →
      x = rollDate (specOf p cal conv) k)
    (hF : p.backward = false → ∀ (k : Nat) (x : PyDate), 1 ≤ k → rollF o p k = .ok x →
      x = rollDate (specOf p cal conv) k)
    (hA : ∀ d x, o.adjust d = .ok x → x = adjustS (specOf p cal conv) d)
    (h : generate o p fuel = .ok r) : acceptable (specOf p cal conv) fuel (some r.dates) = true :=
  generate_acceptable_reached_partial o p cal conv fuel r hlt (fun hb k x hk hx _ => hB hb k x hk hx) hF hA h

/-- Non-vacuity of the acceptance statement, strictly increasing branch: the model's monthly BACKWARD schedule
6-Jan-2020 → Saturday 6-Jun-2020 (WEEKEND calendar, FOLLOWING, termination adjusted) is acceptable for the spec,
checked by evaluation in the kernel. -/
example : (match Model.schedule (Model.mkDate 6 1 2020) (Model.mkDate 6 6 2020) 1 2 2 true true false false with
    | .ok l => l.length == 6 && acceptable ⟨Spec.mkDateS 6 1 2020, Spec.mkDateS 6 6 2020, 1, true, true, false, 2, 2⟩ 50 (some l)
    | .error _ => false) = true := by decide +kernel

/-- Non-vacuity, merging branch: FORWARD monthly from 6-Jan-2020 to Monday 8-Jun-2020; the roll of Saturday
6-Jun-2020 is adjusted onto the termination date, the ideal schedule is not strictly increasing, and the model's
merged output (6 dates, not 7) is acceptable. -/
example : (match Model.schedule (Model.mkDate 6 1 2020) (Model.mkDate 8 6 2020) 1 2 2 false true false false with
    | .ok l => l.length == 6 &&
        !strictlyIncreasing (idealSchedule ⟨Spec.mkDateS 6 1 2020, Spec.mkDateS 8 6 2020, 1, false, true, false, 2, 2⟩ 50) &&
        acceptable ⟨Spec.mkDateS 6 1 2020, Spec.mkDateS 8 6 2020, 1, false, true, false, 2, 2⟩ 50 (some l)
    | .error _ => false) = true := by decide +kernel

/-! ### E. the instance at the model of the code -/

/-- C16 at the model: whenever `Schedule(...)` (as modelled, no regeneration) returns dates, they are acceptable
for the spec with the same inputs — given that the model's roll dates and business-day adjustment agree with the
spec's wherever they succeed (what C13 and C14 establish). -/
theorem model_schedule_acceptable_reached_partial (eff term : PyDate) (nm cal conv : Int) (bw at_ eo : Bool)
    (l : List PyDate)
    (hB : bw = true → ∀ (k : Nat) (x : PyDate), 1 ≤ k →
      rollB (Model.schedOps cal conv) ⟨eff, term, nm, bw, at_, eo⟩ k = .ok x →
      (k = 1 ∨ ∃ y, rollB (Model.schedOps cal conv) ⟨eff, term, nm, bw, at_, eo⟩ (k - 1) = .ok y ∧
        y.serial > eff.serial) →
      x = rollDate ⟨eff, term, nm, bw, at_, eo, cal, conv⟩ k)
    (hF : bw = false → ∀ (k : Nat) (x : PyDate), 1 ≤ k →
      rollF (Model.schedOps cal conv) ⟨eff, term, nm, bw, at_, eo⟩ k = .ok x →
      x = rollDate ⟨eff, term, nm, bw, at_, eo, cal, conv⟩ k)
    (hA : ∀ d x, Model.adjust cal conv d = .ok x → x = adjustS ⟨eff, term, nm, bw, at_, eo, cal, conv⟩ d)
    (h : Model.schedule eff term nm cal conv bw at_ eo false = .ok l) :
    acceptable ⟨eff, term, nm, bw, at_, eo, cal, conv⟩ 5000 (some l) = true := by
  simp only [Model.schedule] at h
  split at h
  · cases h
  · rename_i hlt
    split at h
    · cases h
    · rename_i r hr
      simp only [Bool.false_eq_true, if_false, Except.ok.injEq] at h
      subst h
      exact generate_acceptable_reached_partial (Model.schedOps cal conv) ⟨eff, term, nm, bw, at_, eo⟩ cal conv 5000 r
        (by simpa using hlt) hB hF hA hr

/-- C16 at the model, with the agreement of the BACKWARD rolls assumed for every index. -/
theorem model_schedule_acceptable_partial (eff term : PyDate) (nm cal conv : Int) (bw at_ eo : Bool)
    (l : List PyDate)
    (hB : bw = true → ∀ (k : Nat) (x : PyDate), 1 ≤ k →
      rollB (Model.schedOps cal conv) ⟨eff, term, nm, bw, at_, eo⟩ k = .ok x →
      x = rollDate ⟨eff, term, nm, bw, at_, eo, cal, conv⟩ k)
    (hF : bw = false → ∀ (k : Nat) (x : PyDate), 1 ≤ k →
      rollF (Model.schedOps cal conv) ⟨eff, term, nm, bw, at_, eo⟩ k = .ok x →
      x = rollDate ⟨eff, term, nm, bw, at_, eo, cal, conv⟩ k)
    (hA : ∀ d x, Model.adjust cal conv d = .ok x → x = adjustS ⟨eff, term, nm, bw, at_, eo, cal, conv⟩ d)
    (h : Model.schedule eff term nm cal conv bw at_ eo false = .ok l) :
    acceptable ⟨eff, term, nm, bw, at_, eo, cal, conv⟩ 5000 (some l) = true :=
  model_schedule_acceptable_reached_partial eff term nm cal conv bw at_ eo l
    (fun hb k x hk hx _ => hB hb k x hk hx) hF hA h

/-- C16 at the model, the other branch: an effective date on or after the termination date is the library's
error, which is the acceptable outcome. -/
theorem model_schedule_error_when_not_before (eff term : PyDate) (nm cal conv : Int) (bw at_ eo regen : Bool)
    (fuel : Nat) (h : eff.serial ≥ term.serial) :
    Model.schedule eff term nm cal conv bw at_ eo regen = .error .finError ∧
      acceptable ⟨eff, term, nm, bw, at_, eo, cal, conv⟩ fuel none = true := by
  refine ⟨by simp only [Model.schedule, h, if_true], ?_⟩
  simp only [acceptable, h, if_true, Option.isNone_none]

/-- C16 at the model, both branches: the outcome of `Schedule(...)` — dates or the library's error for
`effective ≥ termination` — is acceptable; any other error is outside the statement. -/
theorem model_schedule_outcome_acceptable_partial (eff term : PyDate) (nm cal conv : Int) (bw at_ eo : Bool)
    (hB : bw = true → ∀ (k : Nat) (x : PyDate), 1 ≤ k →
      rollB (Model.schedOps cal conv) ⟨eff, term, nm, bw, at_, eo⟩ k = .ok x →
      x = rollDate ⟨eff, term, nm, bw, at_, eo, cal, conv⟩ k)
    (hF : bw = false → ∀ (k : Nat) (x : PyDate), 1 ≤ k →
      rollF (Model.schedOps cal conv) ⟨eff, term, nm, bw, at_, eo⟩ k = .ok x →
      x = rollDate ⟨eff, term, nm, bw, at_, eo, cal, conv⟩ k)
    (hA : ∀ d x, Model.adjust cal conv d = .ok x → x = adjustS ⟨eff, term, nm, bw, at_, eo, cal, conv⟩ d) :
    match Model.schedule eff term nm cal conv bw at_ eo false with
    | .ok l => acceptable ⟨eff, term, nm, bw, at_, eo, cal, conv⟩ 5000 (some l) = true
    | .error _ => eff.serial ≥ term.serial →
        acceptable ⟨eff, term, nm, bw, at_, eo, cal, conv⟩ 5000 none = true := by
  split
  · rename_i l hl
    exact model_schedule_acceptable_partial eff term nm cal conv bw at_ eo l hB hF hA hl
  · intro h
    exact (model_schedule_error_when_not_before eff term nm cal conv bw at_ eo false 5000 h).2

/-! ### The error outcome, and the algorithm run on the spec's own date arithmetic -/

/-- C16, error side of B: if the list handed to the final loop is, on serial numbers, the ideal schedule and the
final loop rejects it (disorder), or merges it down to fewer than two dates, then the ideal schedule is not
strictly increasing — the library's error is the acceptable outcome. -/
theorem acceptable_none_of_premerge (s : SchedSpec) (fuel : Nat) (first : PyDate) (rest : List PyDate)
    (hlt : s.effective.serial < s.termination.serial)
    (hL : (first :: rest).map (·.serial) = (idealSchedule s fuel).map (·.serial))
    (hd : (∃ e, dedup first rest = .error e) ∨ (∃ out, dedup first rest = .ok out ∧ out.length < 2)) :
    acceptable s fuel none = true := by
  have hnot : ¬ s.effective.serial ≥ s.termination.serial := by omega
  simp only [acceptable, hnot, if_false]
  by_cases hsi : strictlyIncreasing (idealSchedule s fuel) = true
  · exfalso
    have h1 : strictlyIncreasing (first :: rest) = true := by
      rw [strictlyIncreasing_congr _ _ hL]; exact hsi
    have h2 := dedup_of_strictInc first rest ((strictlyIncreasing_iff_StrictInc _).1 h1)
    rcases hd with ⟨e, he⟩ | ⟨out, ho, hlen⟩
    · rw [h2] at he; cases he
    · rw [h2] at ho
      simp only [Except.ok.injEq] at ho; subst ho
      have hl := congrArg List.length hL
      simp only [idealSchedule, List.length_map, List.length_append, List.length_cons, List.length_nil] at hl hlen
      omega
  · simp [hsi]

/-- unpack a failing `post`: the termination date could not be adjusted, or the final loop rejected the list, or
fewer than two dates were left. -/
theorem post_error (p : Params) (ds : List PyDate) (e : PyErr) (h : post o p ds = .error e) :
    (p.adjustTermination = true ∧ o.adjust p.termination = .error e) ∨
    ∃ (t' : PyDate) (first : PyDate) (rest : List PyDate),
      (if p.adjustTermination then o.adjust p.termination = .ok t' else t' = p.termination) ∧
      (if p.adjustTermination then (p.effective :: ds.drop 1).dropLast ++ [t'] else p.effective :: ds.drop 1)
        = first :: rest ∧
      ((∃ e', dedup first rest = .error e') ∨ (∃ out, dedup first rest = .ok out ∧ out.length < 2)) := by
  unfold post at h
  simp only at h
  by_cases hat : p.adjustTermination = true
  · simp only [hat, if_true] at h ⊢
    cases ha : o.adjust p.termination with
    | error e' =>
      simp only [ha, Except.error.injEq] at h
      subst h; exact Or.inl ⟨trivial, rfl⟩
    | ok t' =>
      simp only [ha] at h
      right
      split at h
      · rename_i heq
        simp at heq
      · rename_i first rest heq
        refine ⟨t', first, rest, rfl, heq, ?_⟩
        cases hd : dedup first rest with
        | error e' => exact Or.inl ⟨e', rfl⟩
        | ok out =>
          simp only [hd] at h
          split at h
          · rename_i hlen; exact Or.inr ⟨out, rfl, hlen⟩
          · cases h
  · have hat' : p.adjustTermination = false := by simpa using hat
    simp only [hat', Bool.false_eq_true, if_false] at h ⊢
    right
    refine ⟨p.termination, p.effective, ds.drop 1, rfl, rfl, ?_⟩
    cases hd : dedup p.effective (ds.drop 1) with
    | error e' => exact Or.inl ⟨e', rfl⟩
    | ok out =>
      simp only [hd] at h
      split at h
      · rename_i hlen; exact Or.inr ⟨out, rfl, hlen⟩
      · cases h

/-- C16, both outcomes: when the date arithmetic succeeded (the roll loop finished within the fuel, the termination
date could be adjusted), the outcome of `generate` — dates, or an error of the final loop — is acceptable. -/
theorem generate_outcome_acceptable_reached_partial (p : Params) (cal conv : Int) (fuel : Nat) (ds : List PyDate)
    (hlt : p.effective.serial < p.termination.serial) (hnm : 0 < p.numMonths)
    (hB : p.backward = true → ∀ (k : Nat) (x : PyDate), 1 ≤ k → rollB o p k = .ok x →
      (k = 1 ∨ ∃ y, rollB o p (k - 1) = .ok y ∧ y.serial > p.effective.serial) →
      x = rollDate (specOf p cal conv) k)
    (hF : p.backward = false → ∀ (k : Nat) (x : PyDate), 1 ≤ k → rollF o p k = .ok x →
      x = rollDate (specOf p cal conv) k)
    (hA : ∀ d x, o.adjust d = .ok x → x = adjustS (specOf p cal conv) d)
    (hbody : body o p fuel = .ok ds)
    (hT : p.adjustTermination = true → ∃ t', o.adjust p.termination = .ok t') :
    acceptable (specOf p cal conv) fuel
      (match generate o p fuel with | .ok r => some r.dates | .error _ => none) = true := by
  cases hg : generate o p fuel with
  | ok r => exact generate_acceptable_reached_partial o p cal conv fuel r hlt hB hF hA hg
  | error e =>
    simp only
    have hnm' : ¬ p.numMonths ≤ 0 := by omega
    simp only [generate, hnm', if_false, hbody] at hg
    have hds : ds.drop 1 =
        (interiorRolls (specOf p cal conv) fuel).map (adjustS (specOf p cal conv)) ++ [p.termination] := by
      by_cases hb : p.backward = true
      · exact body_backward_drop_one o p cal conv fuel ds hb hlt (hB hb) hA hbody
      · have hb' : p.backward = false := by simpa using hb
        exact body_forward_drop_one o p cal conv fuel ds hb' hlt (hF hb') hA hbody
    rcases post_error o p ds e hg with ⟨hat, herr⟩ | ⟨t', first, rest, ht', heq, hd⟩
    · obtain ⟨t', ht'⟩ := hT hat
      rw [ht'] at herr; cases herr
    · have ht'' : if p.adjustTermination then t' = adjustS (specOf p cal conv) p.termination
          else t' = p.termination := by
        by_cases hat : p.adjustTermination = true
        · simp only [hat, if_true] at ht' ⊢
          exact hA _ _ ht'
        · have hat' : p.adjustTermination = false := by simpa using hat
          simp only [hat', Bool.false_eq_true, if_false] at ht' ⊢
          exact ht'
      have hideal := premerge_eq_ideal p cal conv fuel ds t' first rest hds ht'' heq
      exact acceptable_none_of_premerge (specOf p cal conv) fuel first rest hlt (by rw [hideal]) hd

/-- C16, both outcomes, with the agreement of the BACKWARD rolls assumed for every index. -/
theorem generate_outcome_acceptable_partial (p : Params) (cal conv : Int) (fuel : Nat) (ds : List PyDate)
    (hlt : p.effective.serial < p.termination.serial) (hnm : 0 < p.numMonths)
    (hB : p.backward = true → ∀ (k : Nat) (x : PyDate), 1 ≤ k → rollB o p k = .ok x →
      x = rollDate (specOf p cal conv) k)
    (hF : p.backward = false → ∀ (k : Nat) (x : PyDate), 1 ≤ k → rollF o p k = .ok x →
      x = rollDate (specOf p cal conv) k)
    (hA : ∀ d x, o.adjust d = .ok x → x = adjustS (specOf p cal conv) d)
    (hbody : body o p fuel = .ok ds)
    (hT : p.adjustTermination = true → ∃ t', o.adjust p.termination = .ok t') :
    acceptable (specOf p cal conv) fuel
      (match generate o p fuel with | .ok r => some r.dates | .error _ => none) = true :=
  generate_outcome_acceptable_reached_partial o p cal conv fuel ds hlt hnm
    (fun hb k x hk hx _ => hB hb k x hk hx) hF hA hbody hT

/-- The spec's own (total) date arithmetic packaged as operations for the generic algorithm. -/
def specOps (s : SchedSpec) : Ops :=
  { adjust := fun d => .ok (adjustS s d), addMonths := fun d k => .ok (addMonthsS d k),
    eom := fun d => .ok (eomS d) }

/-- C16, the algorithm itself: `Schedule.generate` run on the spec's date arithmetic returns an acceptable
schedule, unconditionally — every difference between the model's output and the spec can only come from the date
arithmetic (C13, C14), not from the schedule logic. -/
theorem generate_specOps_acceptable (p : Params) (cal conv : Int) (fuel : Nat) (r : Result)
    (hlt : p.effective.serial < p.termination.serial)
    (h : generate (specOps (specOf p cal conv)) p fuel = .ok r) :
    acceptable (specOf p cal conv) fuel (some r.dates) = true := by
  refine generate_acceptable_partial (specOps (specOf p cal conv)) p cal conv fuel r hlt ?_ ?_ ?_ h
  · intro hb k x hk hx
    simp only [rollB, specOps] at hx
    simp only [rollDate, specOf, hb, and_true]
    split at hx
    · rename_i he; simp only [Except.ok.injEq] at hx; simp [he, hx]
    · rename_i he; simp only [Except.ok.injEq] at hx; simp [he, hx]
  · intro hb k x hk hx
    simp only [rollF, specOps, Except.ok.injEq] at hx
    simp [rollDate, specOf, hb, hx]
  · intro d x hx
    simp only [specOps, Except.ok.injEq] at hx
    exact hx.symm

end FinVerif.Props.C16
