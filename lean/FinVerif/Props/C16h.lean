/-
  C16 — the date-arithmetic hypotheses of `generate_acceptable_reached_partial` DISCHARGED for the model of the code's
  `Date` (`Model.schedOps`): the roll dates the loops reach are the spec's roll dates, so that the only remaining
  hypothesis of "the model's schedule is acceptable for the spec" is the agreement of the business-day adjustment (C14).

  * `model_addMonths_eq_spec`, `model_eom_eq_spec`: `Date.add_months` / `Date.eom` return the spec's date whenever the
    result lies in 1901 or later (from 1901 on the code's Excel serial is the true one, C13);
  * `model_rollB_eq_spec`, `model_rollF_eq_spec`: hence the k-th roll date is the spec's `rollDate`;
  * `model_rollB_reached_year`, `model_rollF_year`: every roll the loop REACHES lies in 1901 or later when the effective
    date is in 1902 or later and the period is at most 12 months (a BACKWARD roll is computed only while its predecessor
    is after the effective date, so it is at most one period before the effective date's month);
  * `model_schedule_acceptable_dates_partial`: MAIN.
-/
import FinVerif.Props.C16g
import FinVerif.Props.C16d

set_option linter.unusedVariables false
set_option linter.unusedSimpArgs false

namespace FinVerif.Props.C16
open FinVerif FinVerif.Sched FinVerif.Model FinVerif.Spec
open FinVerif.Props.C13 (monthIndex addMonths_spec mkDateQ_ok mkDate_eq_spec monthDays_eq_monthLen)
open FinVerif.Props.C14 (WF ValidG mkDateQ_iff)

/-! ### (a), (b): `add_months` and `eom` against the spec -/

/-- C13 for `add_months`: whenever the code's `dt.add_months(k)` succeeds with a result in 1901 or later, it is the
spec's calendar-correct month addition (same year/month by Euclidean division of the month count, same clipped day, the
true serial number and weekday). -/
theorem model_addMonths_eq_spec (dt r : PyDate) (k : Int) (h : addMonths dt k = .ok r) (hy : 1901 ≤ r.y) :
    r = addMonthsS dt k := by
  simp only [addMonths] at h
  have hr := mkDateQ_ok _ _ _ _ h
  have hm1 : 1 ≤ (dt.m + k - 1) % 12 + 1 := by omega
  have hm2 : (dt.m + k - 1) % 12 + 1 ≤ 12 := by omega
  have ey : (dt.y * 12 + (dt.m - 1) + k) / 12 = dt.y + (dt.m + k - 1) / 12 := by omega
  have em : (dt.y * 12 + (dt.m - 1) + k) % 12 = (dt.m + k - 1) % 12 := by omega
  have hy' : 1901 ≤ dt.y + (dt.m + k - 1) / 12 := by
    rw [hr] at hy; simpa [mkDate] using hy
  rw [hr]
  simp only [addMonthsS, ey, em]
  rw [monthDays_eq_monthLen _ _ ⟨hm1, hm2⟩]
  exact mkDate_eq_spec _ _ _ ⟨hm1, hm2⟩ hy'

/-- C13 for `eom`: whenever the code's `dt.eom()` succeeds for a date in 1901 or later, it is the spec's last day of the
month. -/
theorem model_eom_eq_spec (dt r : PyDate) (h : eom dt = .ok r) (hy : 1901 ≤ dt.y) : r = eomS dt := by
  simp only [eom] at h
  obtain ⟨hv, hr⟩ := (mkDateQ_iff _ _ _ _).mp h
  obtain ⟨_, hm1, hm2, _, _⟩ := hv
  rw [hr]
  simp only [eomS]
  rw [monthDays_eq_monthLen _ _ ⟨hm1, hm2⟩]
  exact mkDate_eq_spec _ _ _ ⟨hm1, hm2⟩ hy

/-! ### (c): the roll dates against the spec -/

/-- C16/C13 (BACKWARD): the model's k-th roll date, when in 1901 or later, is the spec's roll date (month-end included). -/
theorem model_rollB_eq_spec (cal conv : Int) (p : Params) (k : Nat) (x : PyDate) (hb : p.backward = true)
    (h : rollB (schedOps cal conv) p k = .ok x) (hy : 1901 ≤ x.y) : x = rollDate (specOf p cal conv) k := by
  simp only [rollB, schedOps] at h
  cases hadd : addMonths p.termination (-(p.numMonths * (k : Int))) with
  | error e => simp [hadd] at h
  | ok nd =>
    simp only [hadd] at h
    by_cases heom : p.endOfMonth = true
    · simp only [heom, if_true] at h
      obtain ⟨_, _, hyy⟩ := eom_wf _ _ h
      have hnd := model_addMonths_eq_spec _ _ _ hadd (by omega)
      have hx := model_eom_eq_spec _ _ h (by omega)
      simp only [rollDate, specOf, hb, heom, and_self, if_true]
      rw [hx, hnd]
    · have heom' : p.endOfMonth = false := by simpa using heom
      simp only [heom', Bool.false_eq_true, if_false, Except.ok.injEq] at h
      subst h
      have hnd := model_addMonths_eq_spec _ _ _ hadd hy
      simp only [rollDate, specOf, hb, heom', Bool.false_eq_true, false_and, if_false, if_true]
      exact hnd

/-- C16/C13 (FORWARD): the model's k-th roll date, when in 1901 or later, is the spec's roll date. -/
theorem model_rollF_eq_spec (cal conv : Int) (p : Params) (k : Nat) (x : PyDate) (hb : p.backward = false)
    (h : rollF (schedOps cal conv) p k = .ok x) (hy : 1901 ≤ x.y) : x = rollDate (specOf p cal conv) k := by
  simp only [rollF, schedOps] at h
  have hnd := model_addMonths_eq_spec _ _ _ h hy
  simp only [rollDate, specOf, hb, Bool.false_eq_true, and_false, if_false]
  exact hnd

/-! ### (d): the rolls the loops reach lie in 1901 or later -/

/-- A well-formed date whose month index is at least that of January 1901 lies in 1901 or later. -/
theorem year_ge_of_monthIndex_ge (x : PyDate) (hx : WF x) (h : 12 * 1901 ≤ monthIndex x) : 1901 ≤ x.y := by
  obtain ⟨_, ⟨_, a1, a2, _, _⟩⟩ := hx
  simp only [monthIndex] at h; omega

/-- C16 (BACKWARD): a roll the loop reaches — the first one, or one whose predecessor passed the test
`next_dt > effective_dt` — is at most one period before the effective date's month, hence in 1901 or later. -/
theorem model_rollB_reached_year (cal conv : Int) (p : Params) (k : Nat) (x : PyDate)
    (hE : WF p.effective) (hEy : 1902 ≤ p.effective.y) (hT : WF p.termination)
    (hlt : p.effective.serial < p.termination.serial) (hnm : p.numMonths ≤ 12) (hk : 1 ≤ k)
    (h : rollB (schedOps cal conv) p k = .ok x)
    (hreach : k = 1 ∨ ∃ y, rollB (schedOps cal conv) p (k - 1) = .ok y ∧ y.serial > p.effective.serial) :
    1901 ≤ x.y ∧ monthIndex p.effective - p.numMonths ≤ monthIndex x := by
  obtain ⟨hidx, hwf, _⟩ := model_rollB_monthIndex cal conv p k x h
  have hEm : 12 * 1902 ≤ monthIndex p.effective := by
    obtain ⟨_, ⟨_, e1, e2, _, _⟩⟩ := hE
    simp only [monthIndex]; omega
  have key : monthIndex p.effective - p.numMonths ≤ monthIndex x := by
    rcases hreach with rfl | ⟨y, hyr, hygt⟩
    · have := monthIndex_le_of_serial_gt p.termination p.effective hT hE (by omega) hlt
      rw [hidx]; push_cast; omega
    · obtain ⟨hyidx, hywf, _⟩ := model_rollB_monthIndex cal conv p (k - 1) y hyr
      have := monthIndex_le_of_serial_gt y p.effective hywf hE (by omega) hygt
      have e : p.numMonths * ((k - 1 : Nat) : Int) = p.numMonths * (k : Int) - p.numMonths := by
        rw [Nat.cast_sub hk]; push_cast; ring
      rw [e] at hyidx
      omega
  exact ⟨year_ge_of_monthIndex_ge x hwf (by omega), key⟩

/-- C16 (FORWARD): every roll date is in the effective date's month or later, hence in 1901 or later. -/
theorem model_rollF_year (cal conv : Int) (p : Params) (k : Nat) (x : PyDate)
    (hE : WF p.effective) (hEy : 1901 ≤ p.effective.y) (hnm : 0 ≤ p.numMonths)
    (h : rollF (schedOps cal conv) p k = .ok x) : 1901 ≤ x.y := by
  obtain ⟨hidx, hwf⟩ := model_rollF_monthIndex cal conv p k x h
  have hEm : 12 * 1901 ≤ monthIndex p.effective := by
    obtain ⟨_, ⟨_, e1, e2, _, _⟩⟩ := hE
    simp only [monthIndex]; omega
  have : 0 ≤ p.numMonths * (k : Int) := Int.mul_nonneg hnm (Int.natCast_nonneg _)
  exact year_ge_of_monthIndex_ge x hwf (by omega)

/-- C16: the "reached rolls agree" hypothesis of `generate_acceptable_reached_partial`, for the model (BACKWARD). -/
theorem model_rollB_reached_eq_spec (cal conv : Int) (p : Params) (hb : p.backward = true)
    (hE : WF p.effective) (hEy : 1902 ≤ p.effective.y) (hT : WF p.termination)
    (hlt : p.effective.serial < p.termination.serial) (hnm : p.numMonths ≤ 12) :
    ∀ (k : Nat) (x : PyDate), 1 ≤ k → rollB (schedOps cal conv) p k = .ok x →
      (k = 1 ∨ ∃ y, rollB (schedOps cal conv) p (k - 1) = .ok y ∧ y.serial > p.effective.serial) →
      x = rollDate (specOf p cal conv) k := by
  intro k x hk hx hreach
  exact model_rollB_eq_spec cal conv p k x hb hx
    (model_rollB_reached_year cal conv p k x hE hEy hT hlt hnm hk hx hreach).1

/-- C16: the "rolls agree" hypothesis of `generate_acceptable_reached_partial`, for the model (FORWARD). -/
theorem model_rollF_all_eq_spec (cal conv : Int) (p : Params) (hb : p.backward = false)
    (hE : WF p.effective) (hEy : 1901 ≤ p.effective.y) (hnm : 0 ≤ p.numMonths) :
    ∀ (k : Nat) (x : PyDate), 1 ≤ k → rollF (schedOps cal conv) p k = .ok x → x = rollDate (specOf p cal conv) k := by
  intro k x hk hx
  exact model_rollF_eq_spec cal conv p k x hb hx (model_rollF_year cal conv p k x hE hEy hnm hx)

/-! ### (e): MAIN -/

/-- a successful `Schedule(...)` means the effective date is before the termination date and the period is positive -/
theorem model_schedule_ok_inputs (eff term : PyDate) (nm cal conv : Int) (bw at_ eo regen : Bool) (l : List PyDate)
    (h : Model.schedule eff term nm cal conv bw at_ eo regen = .ok l) : eff.serial < term.serial ∧ 1 ≤ nm := by
  have hlt : eff.serial < term.serial := by
    by_contra hc
    have : eff.serial ≥ term.serial := by omega
    simp [Model.schedule, this] at h
  refine ⟨hlt, ?_⟩
  by_contra hc
  have h0 : nm ≤ 0 := by omega
  have hge : ¬ eff.serial ≥ term.serial := by omega
  simp [Model.schedule, hge, generate, h0] at h

/-- C16 MAIN for the model of the code: for well-formed dates (effective date in 1902 or later) and a period of at most
12 months, whenever `Schedule(...)` returns dates they are acceptable for the specification — the only remaining
hypothesis is that the code's business-day adjustment agrees with the spec's wherever it succeeds (C14). -/
theorem model_schedule_acceptable_dates_partial (eff term : PyDate) (nm cal conv : Int) (bw at_ eo : Bool)
    (l : List PyDate) (hE : WF eff) (hEy : 1902 ≤ eff.y) (hT : WF term) (hnm : nm ≤ 12)
    (hA : ∀ d x, Model.adjust cal conv d = .ok x → x = adjustS ⟨eff, term, nm, bw, at_, eo, cal, conv⟩ d)
    (h : Model.schedule eff term nm cal conv bw at_ eo false = .ok l) :
    acceptable ⟨eff, term, nm, bw, at_, eo, cal, conv⟩ 5000 (some l) = true := by
  obtain ⟨hlt, hnm1⟩ := model_schedule_ok_inputs eff term nm cal conv bw at_ eo false l h
  refine model_schedule_acceptable_reached_partial eff term nm cal conv bw at_ eo l ?_ ?_ hA h
  · intro hb
    exact model_rollB_reached_eq_spec cal conv ⟨eff, term, nm, bw, at_, eo⟩ hb hE hEy hT hlt hnm
  · intro hb
    exact model_rollF_all_eq_spec cal conv ⟨eff, term, nm, bw, at_, eo⟩ hb hE (by show (1901 : Int) ≤ eff.y; omega) (by show (0 : Int) ≤ nm; omega)

/-- Non-vacuity: the date hypotheses of the main theorem hold for 6-Jan-2020 → 6-Jun-2020 monthly, and the model returns
a schedule for these inputs (WEEKEND calendar, FOLLOWING, BACKWARD). -/
example : WF (mkDate 6 1 2020) ∧ 1902 ≤ (mkDate 6 1 2020).y ∧ WF (mkDate 6 6 2020) ∧ (1 : Int) ≤ 12 ∧
    (match Model.schedule (mkDate 6 1 2020) (mkDate 6 6 2020) 1 2 2 true true false false with
      | .ok l => l.length | .error _ => 0) = 6 := by
  refine ⟨⟨rfl, ?_⟩, by decide, ⟨rfl, ?_⟩, by decide, by decide +kernel⟩ <;> (simp only [ValidG, mkDate]; decide)

/-- Non-vacuity of (a)–(c): a BACKWARD month-end roll of the model (31-Mar-2020 minus one month) is the spec's. -/
example : rollB (schedOps 2 2) ⟨mkDate 10 1 2020, mkDate 31 3 2020, 1, true, true, true⟩ 1
    = .ok (rollDate ⟨mkDate 10 1 2020, mkDate 31 3 2020, 1, true, true, true, 2, 2⟩ 1) := by decide +kernel

end FinVerif.Props.C16
