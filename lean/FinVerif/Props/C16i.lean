/-
  C16 — UNCONDITIONAL instances of `model_schedule_acceptable_dates_partial`: when no business-day adjustment takes place
  the remaining hypothesis (model `adjust` = spec `adjust`) holds by computation, so the schedule the model of the code
  returns is accepted by the specification with no hypothesis beyond well-formed dates:

  * `CalendarTypes.NONE` (value 1) — this is the calendar `Bond` builds its coupon schedule with
    (`Bond._calculate_cpn_dts`: `Schedule(issue, maturity, freq, CalendarTypes.NONE, …)`), any convention;
  * `BusDayAdjustTypes.NONE` (value 1) with any calendar.
-/
import FinVerif.Props.C16h

set_option linter.unusedVariables false
set_option linter.unusedSimpArgs false

namespace FinVerif.Props.C16
open FinVerif FinVerif.Sched FinVerif.Model FinVerif.Spec
open FinVerif.Props.C14 (WF ValidG)

/-- with `CalendarTypes.NONE` the code's `adjust` and the spec's both return the date itself (or the code raises for an
unknown convention) -/
theorem adjust_agrees_calendar_none (s : SchedSpec) (hc : s.cal = 1) (d x : PyDate)
    (h : Model.adjust 1 s.conv d = .ok x) : x = adjustS s d := by
  simp only [Model.adjust, Algo.adjust] at h
  simp only [adjustS, specAdjust, Algo.adjust, hc]
  split_ifs at h ⊢ <;> simp_all

/-- with `BusDayAdjustTypes.NONE` likewise, for every calendar -/
theorem adjust_agrees_convention_none (s : SchedSpec) (hc : s.conv = 1) (d x : PyDate)
    (h : Model.adjust s.cal 1 d = .ok x) : x = adjustS s d := by
  simp only [Model.adjust, Algo.adjust] at h
  simp only [adjustS, specAdjust, Algo.adjust, hc]
  split_ifs at h ⊢ <;> simp_all

/-- C16 for schedules on `CalendarTypes.NONE` (bond coupon schedules), UNCONDITIONAL in the calendar logic: for well-formed
dates (effective date from 1902 on) and a period of at most 12 months, whatever dates `Schedule(...)` returns are the ideal
roll schedule of the spec (merged where dates coincide) — `judge()` of the harness as a theorem. -/
theorem model_schedule_acceptable_calendar_none (eff term : PyDate) (nm conv : Int) (bw at_ eo : Bool)
    (l : List PyDate) (hE : WF eff) (hEy : 1902 ≤ eff.y) (hT : WF term) (hnm : nm ≤ 12)
    (h : Model.schedule eff term nm 1 conv bw at_ eo false = .ok l) :
    acceptable ⟨eff, term, nm, bw, at_, eo, 1, conv⟩ 5000 (some l) = true :=
  model_schedule_acceptable_dates_partial eff term nm 1 conv bw at_ eo l hE hEy hT hnm
    (fun d x hx => adjust_agrees_calendar_none ⟨eff, term, nm, bw, at_, eo, 1, conv⟩ rfl d x hx) h

/-- C16 for schedules with `BusDayAdjustTypes.NONE`, any calendar, likewise unconditional. -/
theorem model_schedule_acceptable_convention_none (eff term : PyDate) (nm cal : Int) (bw at_ eo : Bool)
    (l : List PyDate) (hE : WF eff) (hEy : 1902 ≤ eff.y) (hT : WF term) (hnm : nm ≤ 12)
    (h : Model.schedule eff term nm cal 1 bw at_ eo false = .ok l) :
    acceptable ⟨eff, term, nm, bw, at_, eo, cal, 1⟩ 5000 (some l) = true :=
  model_schedule_acceptable_dates_partial eff term nm cal 1 bw at_ eo l hE hEy hT hnm
    (fun d x hx => adjust_agrees_convention_none ⟨eff, term, nm, bw, at_, eo, cal, 1⟩ rfl d x hx) h

/-- with `CalendarTypes.NONE` the code's `adjust` returns the date itself -/
theorem model_adjust_calendar_none (conv : Int) (d x : PyDate) (h : Model.adjust 1 conv d = .ok x) : x = d := by
  simp only [Model.adjust, Algo.adjust] at h
  split_ifs at h <;> simp_all

/-- C16 "regenerating returns the same dates", UNCONDITIONAL for `CalendarTypes.NONE`: `Bond._calculate_cpn_dts` calls
`Schedule(…, CalendarTypes.NONE, …).generate()`, i.e. generates twice; the second generation returns the same dates because
the first one cannot move the termination date. (For real calendars this fails: `regenerate_not_fixed_point`.) -/
theorem regenerate_fixed_point_calendar_none (eff term : PyDate) (nm conv : Int) (bw at_ eo : Bool) :
    Model.schedule eff term nm 1 conv bw at_ eo true = Model.schedule eff term nm 1 conv bw at_ eo false := by
  apply regenerate_fixed_point_partial
  intro r hr
  unfold generate at hr
  split at hr
  · cases hr
  · split at hr
    · cases hr
    · rename_i ds hds
      obtain ⟨t', _, _, ht', _, _, _, hterm⟩ := post_ok _ _ ds r hr
      rw [hterm]
      by_cases hat : at_ = true
      · simp only [hat, if_true] at ht'
        exact model_adjust_calendar_none conv term t' ht'
      · simp only [hat] at ht'
        exact ht'

/-- Non-vacuity: a 2-year semi-annual bond schedule 31-Aug-2020 → 28-Feb-2022 on `CalendarTypes.NONE` (BACKWARD, month-end
flag): the model returns four dates. -/
example : (match Model.schedule (mkDate 31 8 2020) (mkDate 28 2 2022) 6 1 2 true false true false with
    | .ok l => l.map (fun d => (d.d, d.m, d.y)) | .error _ => []) =
    [(31, 8, 2020), (28, 2, 2021), (31, 8, 2021), (28, 2, 2022)] := by decide +kernel

end FinVerif.Props.C16
