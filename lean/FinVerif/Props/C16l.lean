/-
  C16 (part l) — the LOOPS of `Schedule.generate` and `CDS._generate_adjusted_cds_payment_dts`.
  `Gen/SchedLoop.lean` is cut out of the source `while` / `for` statements on every run (initial values, `while` test,
  receiver and argument of the `add_months` call, the body with the date calls replaced by their results, the statements
  after the loop, range bounds and index expressions of the adjustment pass, the duplicate-removal body, slice bounds;
  `tools/py2lean/registry/schedloop.py`).  Here the hand-written loops of `Core/ScheduleAlgo.lean`, `Core/CDSAlgo.lean`
  and `Core/ScheduleUse.lean` are proved to BE those loops: same initial state, same guard (`>` / `<` on serials), fold step
  = generated step (anchor date, sign and factor of the month offset, counter update, what is appended and when), same tail,
  same table reads.  Then the facts that needed this: the flow counter equals the table length at every read, and every
  generated index is inside the table (no out-of-range read, the first and last entries are never adjusted).
-/
import FinVerif.Lemmas.C16Loop

set_option linter.unusedVariables false
set_option linter.unusedSimpArgs false

namespace FinVerif.Props.C16
open FinVerif FinVerif.Sched FinVerif.Lemmas.C16 FinVerif.Gen.SchedLoop

/-! ### `Schedule.generate`, BACKWARD `while` -/

/-- C16 (tie, initial state): the BACKWARD loop starts at the termination date with flow counter 0 and an empty table —
the arguments `body` passes to the hand-written loop. -/
theorem sch_back_init_is_generated (p : Params) :
    schBackInit p = { next := p.termination, flow := ((0 : Nat) : Int), un := [] } := rfl

/-- C16 (tie, guard): the `while` test is `next_dt > effective_dt` (strict) on serial numbers. -/
theorem sch_back_guard_is_generated (p : Params) (s : LoopState) :
    schBackGuard p s = decide (s.next.serial > p.effective.serial) := rfl

/-- C16 (tie, `add_months` call): the roll is taken from the TERMINATION date (the anchor, not the previous roll), by
`−num_months·(1 + flow_num)` months. -/
theorem sch_back_pre_is_generated (p : Params) (next : PyDate) (k : Int) :
    sch_back_pre next k p.numMonths p.termination p.effective p.endOfMonth p.adjustTermination
      = (p.termination, -(p.numMonths * (1 + k))) := rfl

/-- C16 (tie, one iteration): one unfolding of the hand-written BACKWARD loop is one call of the generated body. -/
theorem backwardLoop_step_is_generated (o : Ops) (p : Params) (fuel k : Nat) (next : PyDate) (acc : List PyDate) :
    backwardLoop o p (fuel + 1) k next acc
      = (if schBackGuard p ⟨next, k, acc⟩ then
          match schBackStep o p ⟨next, k, acc⟩ with
          | .error e => .error e
          | .ok s => backwardLoop o p fuel (k + 1) s.next s.un
         else .ok (acc ++ [(sch_back_tail next k p.termination p.effective p.endOfMonth p.adjustTermination).1])) := by
  conv => lhs; unfold backwardLoop
  simp only [sch_back_guard_is_generated, decide_eq_true_eq, schBackStep, sch_back_pre_is_generated, sch_back_eom_flag,
    sch_back_post, sch_back_tail]
  by_cases hg : next.serial > p.effective.serial
  · simp only [hg, if_true]
    cases o.addMonths p.termination (-(p.numMonths * (1 + (k : Int)))) with
    | error e => rfl
    | ok nd =>
      cases hE : p.endOfMonth with
      | false => simp
      | true =>
        simp only [beq_self_eq_true, if_true]
        cases o.eom nd with
        | error e => rfl
        | ok nd' => simp
  · simp [hg]

/-- the flow counter the generated body produces is the hand model's `k + 1` -/
theorem schBackStep_flow (o : Ops) (p : Params) (s s' : LoopState) (h : schBackStep o p s = .ok s') :
    s'.flow = s.flow + 1 ∧ s'.un = s.un ++ [s.next] := by
  unfold schBackStep at h
  simp only [sch_back_pre, sch_back_eom_flag, sch_back_post] at h
  split at h
  · simp at h
  · split at h
    · simp at h
    · cases hE : p.endOfMonth <;> simp [hE] at h <;> subst h <;> simp

/-- C16 (tie, whole loop): the hand model of the BACKWARD roll loop IS the Python loop
`while <generated test>: <generated body>` followed by the generated tail, for every input and every fuel. -/
theorem backwardLoop_is_generated_loop (o : Ops) (p : Params) (fuel k : Nat) (next : PyDate) (acc : List PyDate) :
    backwardLoop o p fuel k next acc
      = (match schBackRun o p fuel ⟨next, k, acc⟩ with
         | .error e => .error e
         | .ok r => .ok r.1) := by
  induction fuel generalizing k next acc with
  | zero => simp [backwardLoop, schBackRun, whileFuel]
  | succ n ih =>
    rw [backwardLoop_step_is_generated]
    unfold schBackRun whileFuel
    by_cases hg : schBackGuard p ⟨next, k, acc⟩ = true
    · simp only [hg, if_true]
      cases hs : schBackStep o p ⟨next, k, acc⟩ with
      | error e => simp
      | ok s =>
        simp only []
        obtain ⟨hf, _⟩ := schBackStep_flow o p _ s hs
        have hk : s.flow = ((k + 1 : Nat) : Int) := by simp at hf; omega
        rw [ih (k + 1) s.next s.un]
        unfold schBackRun
        have : (⟨s.next, ((k + 1 : Nat) : Int), s.un⟩ : LoopState) = s := by
          cases s; simp at hk ⊢; omega
        rw [this]
    · simp [hg]

/-- C16 (tie): `body`'s BACKWARD call is the generated loop from the generated initial state. -/
theorem body_backward_loop_is_generated (o : Ops) (p : Params) (fuel : Nat) :
    backwardLoop o p fuel 0 p.termination []
      = (match schBackRun o p fuel (schBackInit p) with
         | .error e => .error e
         | .ok r => .ok r.1) := by
  rw [backwardLoop_is_generated_loop]; rfl

/-- C16 (loop invariant on the generated step): when the BACKWARD loop and its tail have run, the flow counter is the
length of the unadjusted table — so `unadjusted_schedule_dts[flow_num − 1]` is its LAST entry. -/
theorem schBackRun_flow_eq_length (o : Ops) (p : Params) (fuel : Nat) (un : List PyDate) (n : Int)
    (h : schBackRun o p fuel (schBackInit p) = .ok (un, n)) : n = (un.length : Int) ∧ 1 ≤ un.length := by
  unfold schBackRun at h
  split at h
  · simp at h
  · rename_i s hs
    have := whileFuel_invariant (schBackGuard p) (schBackStep o p) (fun s => s.flow = (s.un.length : Int))
      (by
        intro s s' _ hstep hI
        obtain ⟨h1, h2⟩ := schBackStep_flow o p s s' hstep
        rw [h1, h2, hI]; simp) fuel _ s hs (by simp [schBackInit, sch_back_init])
    simp only [sch_back_tail, Except.ok.injEq, Prod.mk.injEq] at h
    obtain ⟨h1, h2⟩ := h
    subst h1
    simp only [List.length_append, List.length_cons, List.length_nil]
    constructor
    · rw [← h2, this.1]; simp
    · omega

/-- C16 (exit condition on the generated guard): the date appended after the BACKWARD loop is on or before the effective
date (the previous coupon date). -/
theorem schBackRun_last_le_effective (o : Ops) (p : Params) (fuel : Nat) (un : List PyDate) (n : Int)
    (h : schBackRun o p fuel (schBackInit p) = .ok (un, n)) :
    ∃ d, un.getLast? = some d ∧ d.serial ≤ p.effective.serial := by
  unfold schBackRun at h
  split at h
  · simp at h
  · rename_i s hs
    have := (whileFuel_invariant (schBackGuard p) (schBackStep o p) (fun _ => True) (by intros; trivial) fuel _ s hs trivial).2
    simp only [sch_back_tail, Except.ok.injEq, Prod.mk.injEq] at h
    refine ⟨s.next, ?_, ?_⟩
    · rw [← h.1]; simp
    · rw [sch_back_guard_is_generated] at this
      simpa using this

/-! ### the BACKWARD adjustment pass: reversal by index arithmetic -/

/-- C16 (tie, header and index of the adjustment pass): `for i in range(1, flow_num − 1)` reads
`unadjusted_schedule_dts[flow_num − i − 1]`; the first stored date is `unadjusted_schedule_dts[flow_num − 1]`. -/
theorem sch_back_adj_is_generated (n i : Int) :
    sch_back_adj_range n = (1, n - 1) ∧ sch_back_adj_idx n i = n - i - 1 ∧ sch_back_first_idx n = n - 1 :=
  ⟨rfl, rfl, rfl⟩

/-- C16 (no out-of-range read): every index the generated BACKWARD adjustment pass reads is inside the table and is
neither its first (termination) nor its last (previous coupon date) entry. -/
theorem sch_back_adj_idx_in_range (n i : Int) (h : (sch_back_adj_range n).1 ≤ i ∧ i < (sch_back_adj_range n).2) :
    1 ≤ sch_back_adj_idx n i ∧ sch_back_adj_idx n i ≤ n - 2 := by
  simp only [sch_back_adj_range, sch_back_adj_idx] at h ⊢
  omega

/-- C16 (tie, reversal): for a table whose length is the flow counter (`schBackRun_flow_eq_length`), the dates the hand
model adjusts — `(un.drop 1).dropLast.reverse` — are exactly the generated reads, in the generated order, and the date
it stores first — the last entry — is the generated read `un[flow_num − 1]`. -/
theorem body_backward_reads_are_generated (un : List PyDate) (dflt : PyDate) (hne : un ≠ []) :
    (un.drop 1).dropLast.reverse = schBackInterior un (un.length : Int) dflt
    ∧ un.getLast?.getD dflt = schBackFirst un (un.length : Int) dflt := by
  constructor
  · apply List.ext_getElem
    · simp [schBackInterior, forRangeMap, sch_back_adj_range]
    · intro k h1 h2
      simp only [schBackInterior, forRangeMap, sch_back_adj_range, sch_back_adj_idx, List.getElem_map, List.getElem_range,
        List.getElem_reverse, List.getElem_dropLast, List.getElem_drop]
      simp only [List.length_reverse, List.length_dropLast, List.length_drop] at h1
      have hidx : (((un.length : Int) - (1 + (k : Int)) - 1)).toNat = 1 + (un.length - 1 - 1 - 1 - k) := by omega
      rw [hidx, List.getD_eq_getElem?_getD, List.getElem?_eq_getElem (by omega)]
      simp
  · simp only [schBackFirst, sch_back_first_idx]
    have hlen : 1 ≤ un.length := List.length_pos_iff.mpr hne
    have hidx : ((un.length : Int) - 1).toNat = un.length - 1 := by omega
    rw [hidx, List.getLast?_eq_getElem?, List.getD_eq_getElem?_getD]

/-! ### `Schedule.generate`, FORWARD `while` -/

/-- C16 (tie, initial state): the FORWARD loop starts at the effective date with flow counter 1 and the effective date
already in the table. -/
theorem sch_fwd_init_is_generated (p : Params) :
    schFwdInit p = { next := p.effective, flow := ((1 : Nat) : Int), un := [p.effective] } := rfl

/-- C16 (tie, guard): the `while` test is `next_dt < termination_dt` (strict) on serial numbers. -/
theorem sch_fwd_guard_is_generated (p : Params) (s : LoopState) :
    schFwdGuard p s = decide (s.next.serial < p.termination.serial) := rfl

/-- C16 (tie, `add_months` call): the roll is taken from the EFFECTIVE date by `+num_months·flow_num` months. -/
theorem sch_fwd_pre_is_generated (p : Params) (next : PyDate) (k : Int) :
    sch_fwd_pre next k p.numMonths p.termination p.effective p.endOfMonth p.adjustTermination
      = (p.effective, p.numMonths * k) := rfl

theorem schFwdStep_flow (o : Ops) (p : Params) (s s' : LoopState) (h : schFwdStep o p s = .ok s') :
    s'.flow = s.flow + 1 ∧ s'.un = s.un ++ [s.next] := by
  unfold schFwdStep at h
  simp only [sch_fwd_pre, sch_fwd_post] at h
  split at h
  · simp at h
  · simp at h; subst h; simp

/-- C16 (tie, whole loop): the hand model of the FORWARD roll loop IS `while <generated test>: <generated body>`. -/
theorem forwardLoop_is_generated_loop (o : Ops) (p : Params) (fuel k : Nat) (next : PyDate) (acc : List PyDate) :
    forwardLoop o p fuel k next acc
      = (match whileFuel (schFwdGuard p) (schFwdStep o p) fuel ⟨next, k, acc⟩ with
         | .error e => .error e
         | .ok s => .ok s.un) := by
  induction fuel generalizing k next acc with
  | zero => simp [forwardLoop, whileFuel]
  | succ n ih =>
    unfold forwardLoop whileFuel
    simp only [sch_fwd_guard_is_generated, decide_eq_true_eq]
    by_cases hg : next.serial < p.termination.serial
    · simp only [hg, if_true]
      simp only [schFwdStep, sch_fwd_pre_is_generated, sch_fwd_post]
      cases o.addMonths p.effective (p.numMonths * (k : Int)) with
      | error e => rfl
      | ok nd =>
        simp only []
        rw [ih (k + 1) nd (acc ++ [next])]
        simp
    · simp [hg]

/-- C16 (tie): `body`'s FORWARD call is the generated loop from the generated initial state. -/
theorem body_forward_loop_is_generated (o : Ops) (p : Params) (fuel : Nat) :
    forwardLoop o p fuel 1 p.effective [p.effective]
      = (match whileFuel (schFwdGuard p) (schFwdStep o p) fuel (schFwdInit p) with
         | .error e => .error e
         | .ok s => .ok s.un) := by
  rw [forwardLoop_is_generated_loop]; rfl

/-- C16 (loop invariant on the generated step): at the exit of the FORWARD loop the flow counter is the length of the
unadjusted table, and the last roll computed is on or after the termination date. -/
theorem schFwd_flow_eq_length (o : Ops) (p : Params) (fuel : Nat) (s : LoopState)
    (h : whileFuel (schFwdGuard p) (schFwdStep o p) fuel (schFwdInit p) = .ok s) :
    s.flow = (s.un.length : Int) ∧ p.termination.serial ≤ s.next.serial := by
  have := whileFuel_invariant (schFwdGuard p) (schFwdStep o p) (fun s => s.flow = (s.un.length : Int))
    (by
      intro s s' _ hstep hI
      obtain ⟨h1, h2⟩ := schFwdStep_flow o p s s' hstep
      rw [h1, h2, hI]; simp) fuel _ s h (by simp [schFwdInit, sch_fwd_init])
  refine ⟨this.1, ?_⟩
  have h2 := this.2
  rw [sch_fwd_guard_is_generated] at h2
  simpa using h2

/-- C16 (tie + no out-of-range read, FORWARD adjustment pass): `for i in range(1, flow_num)` reads `un[i]`: with
`flow_num` = the table length these are exactly the dates the hand model adjusts (`un.drop 1`), all inside the table. -/
theorem body_forward_reads_are_generated (un : List PyDate) (dflt : PyDate) :
    un.drop 1 = schFwdInterior un (un.length : Int) dflt := by
  apply List.ext_getElem
  · simp [schFwdInterior, forRangeMap, sch_fwd_adj_range]
  · intro k h1 h2
    simp only [schFwdInterior, forRangeMap, sch_fwd_adj_range, sch_fwd_adj_idx, List.getElem_map, List.getElem_range,
      List.getElem_drop]
    simp only [List.length_drop] at h1
    have hidx : ((1 : Int) + (k : Int)).toNat = 1 + k := by omega
    rw [hidx, List.getD_eq_getElem?_getD, List.getElem?_eq_getElem (by omega)]
    simp

theorem sch_fwd_adj_idx_in_range (n i : Int) (h : (sch_fwd_adj_range n).1 ≤ i ∧ i < (sch_fwd_adj_range n).2) :
    1 ≤ sch_fwd_adj_idx n i ∧ sch_fwd_adj_idx n i < n := by
  simp only [sch_fwd_adj_range, sch_fwd_adj_idx] at h ⊢
  omega

/-- C16 (tie): both branches append the UNADJUSTED termination date last. -/
theorem sch_last_appended_is_generated (p : Params) :
    sch_back_last p.termination p.effective p.endOfMonth p.adjustTermination = p.termination
    ∧ sch_fwd_last p.termination p.effective p.endOfMonth p.adjustTermination = p.termination := ⟨rfl, rfl⟩

/-! ### the common tail: first-date override, termination-date special case, duplicate removal, length check -/

/-- C16 (tie, first-date override): `adjusted_dts[0] = effective_dt` — the hand model's `effective :: ds.drop 1`. -/
theorem post_first_override_is_generated (p : Params) (ds : List PyDate) (hne : ds ≠ []) :
    p.effective :: ds.drop 1
      = pySet ds (sch_first_override p.termination p.effective p.endOfMonth p.adjustTermination).1
          (sch_first_override p.termination p.effective p.endOfMonth p.adjustTermination).2 := by
  cases ds with
  | nil => exact absurd rfl hne
  | cons d t => simp [pySet, sch_first_override]

/-- C16 (tie, termination-date special case): the flag tested is `adjust_termination_dt`, the date adjusted is the
termination date, and it is stored at index −1 — the hand model's `ds.dropLast ++ [t']`. -/
theorem post_termination_is_generated (p : Params) (ds : List PyDate) (t' : PyDate) (hne : ds ≠ []) :
    sch_term_flag p.termination p.effective p.endOfMonth p.adjustTermination = p.adjustTermination
    ∧ sch_term_adjusted p.termination p.effective p.endOfMonth p.adjustTermination = p.termination
    ∧ ds.dropLast ++ [t'] = pySet ds sch_term_idx t' := by
  refine ⟨by simp [sch_term_flag], rfl, ?_⟩
  simp only [pySet, sch_term_idx]
  have hlen : 1 ≤ ds.length := List.length_pos_iff.mpr hne
  simp only [show ¬ ((0 : Int) ≤ -1) by omega, if_false]
  have : (-(-(1 : Int))).toNat = 1 := by decide
  rw [this]
  apply List.ext_getElem
  · simp; omega
  · intro k h1 h2
    simp only [List.length_set] at h2
    by_cases hk : k = ds.length - 1
    · subst hk; simp [List.getElem_append_right]
    · rw [List.getElem_append_left (by simp; omega), List.getElem_set_ne (by omega)]
      simp

/-- C16 (tie, duplicate-removal body): the generated body raises on a date strictly BEFORE the last kept one, keeps a date
strictly AFTER it, and drops an equal one. -/
theorem sch_dedup_step_spec (last dt : PyDate) :
    sch_dedup_step last dt
      = if dt.serial < last.serial then .error .finError
        else if dt.serial > last.serial then .ok true else .ok false := by
  unfold sch_dedup_step
  by_cases h1 : dt.serial < last.serial
  · simp [h1]
  · by_cases h2 : dt.serial > last.serial <;> simp [h1, h2]

/-- C16 (tie, one iteration): one unfolding of the hand-written `dedup` is one call of the generated body. -/
theorem dedup_step_is_generated (prev dt : PyDate) (rest : List PyDate) :
    dedup prev (dt :: rest)
      = (match sch_dedup_step prev dt with
         | .error e => .error e
         | .ok keep =>
           if keep then (match dedup dt rest with | .error e => .error e | .ok r => .ok (prev :: r))
           else dedup prev rest) := by
  rw [sch_dedup_step_spec]
  conv => lhs; unfold dedup
  by_cases h1 : dt.serial < prev.serial
  · simp [h1]
  · by_cases h2 : dt.serial > prev.serial
    · simp only [h1, h2, if_true, if_false]
      cases dedup dt rest <;> rfl
    · simp [h1, h2]

/-- C16 (tie, whole loop): `dedup` IS `deduped = [adjusted[0]]; for dt in adjusted[1:]: <generated body>`. -/
theorem dedup_is_generated_loop (pre : List PyDate) (prev : PyDate) (rest : List PyDate) :
    dedupFold (pre ++ [prev]) prev rest
      = (match dedup prev rest with | .error e => .error e | .ok r => .ok (pre ++ r)) := by
  induction rest generalizing pre prev with
  | nil => simp [dedupFold, dedup]
  | cons dt rest ih =>
    rw [dedup_step_is_generated]
    unfold dedupFold
    cases sch_dedup_step prev dt with
    | error e => rfl
    | ok keep =>
      cases keep with
      | false => simpa using ih pre prev
      | true =>
        simp only [if_true]
        have := ih (pre ++ [prev]) dt
        rw [this]
        cases dedup dt rest <;> simp

/-- C16 (tie): the slice and the initial element of the duplicate-removal loop, and the length check `< 2`. -/
theorem post_dedup_header_is_generated (first : PyDate) (rest : List PyDate) (n : Nat) :
    pySlice (first :: rest) sch_dedup_slice = rest
    ∧ (first :: rest).getD sch_dedup_init_idx.toNat first = first
    ∧ sch_too_short (n : Int) = decide (n < 2) := by
  refine ⟨by simp [pySlice, sch_dedup_slice], by simp [sch_dedup_init_idx], ?_⟩
  simp only [sch_too_short]
  by_cases h : n < 2 <;> simp [h] <;> omega

/-- C16 (tie, whole tail): `post`'s call `dedup first rest` is the generated loop over the generated slice started from
the generated initial list. -/
theorem post_dedup_is_generated (first : PyDate) (rest : List PyDate) :
    dedup first rest = dedupFold [(first :: rest).getD sch_dedup_init_idx.toNat first] first (pySlice (first :: rest) sch_dedup_slice) := by
  have := dedup_is_generated_loop [] first rest
  obtain ⟨h1, h2, _⟩ := post_dedup_header_is_generated first rest 0
  rw [h1, h2]
  simp only [List.nil_append] at this
  rw [this]
  cases dedup first rest <;> rfl

/-! ### CDS -/

theorem cds_init_is_generated (stepIn maturity : PyDate) :
    cdsBackInit stepIn maturity = { next := maturity, flow := ((0 : Nat) : Int), un := [maturity] }
    ∧ cdsFwdInit stepIn maturity = { next := stepIn, flow := ((0 : Nat) : Int), un := [] } := ⟨rfl, rfl⟩

/-- C16 (tie, guards): BACKWARD runs while `next_dt > step_in_dt`, FORWARD while `next_dt < maturity_dt` (both strict). -/
theorem cds_guard_is_generated (stepIn maturity : PyDate) (s : LoopState) :
    cdsBackGuard stepIn maturity s = decide (s.next.serial > stepIn.serial)
    ∧ cdsFwdGuard stepIn maturity s = decide (s.next.serial < maturity.serial) := ⟨rfl, rfl⟩

/-- C16 (tie, `add_months` calls): BACKWARD rolls from the MATURITY date by `−num_months·(flow_num + 1)`, FORWARD from the
step-in date by `+num_months·(flow_num + 1)` — whole multiples from the anchor, never from the previous roll. -/
theorem cds_pre_is_generated (stepIn maturity next : PyDate) (nm k : Int) :
    cds_back_pre next k nm (cds_start_dt maturity stepIn) maturity stepIn = (maturity, -(nm * (k + 1)))
    ∧ cds_fwd_pre next k nm (cds_start_dt maturity stepIn) maturity stepIn = (stepIn, nm * (k + 1)) := ⟨rfl, rfl⟩

/-- C16 (tie, whole loop): the hand model of the CDS BACKWARD loop IS `while <generated test>: <generated body>`. -/
theorem cdsBackLoop_is_generated_loop (o : Ops) (stepIn maturity : PyDate) (nm : Int) (fuel k : Nat) (next : PyDate)
    (acc : List PyDate) :
    cdsBackLoop o stepIn maturity nm fuel k next acc
      = (match whileFuel (cdsBackGuard stepIn maturity) (cdsBackStep o stepIn maturity nm) fuel ⟨next, k, acc⟩ with
         | .error e => .error e
         | .ok s => .ok s.un) := by
  induction fuel generalizing k next acc with
  | zero => simp [cdsBackLoop, whileFuel]
  | succ n ih =>
    unfold cdsBackLoop whileFuel
    simp only [(cds_guard_is_generated stepIn maturity _).1, decide_eq_true_eq]
    by_cases hg : next.serial > stepIn.serial
    · simp only [hg, if_true]
      simp only [cdsBackStep, (cds_pre_is_generated stepIn maturity _ nm _).1, cds_back_post]
      have hc : ((k + 1 : Nat) : Int) = (k : Int) + 1 := by push_cast; rfl
      rw [hc]
      cases o.addMonths maturity (-(nm * ((k : Int) + 1))) with
      | error e => rfl
      | ok nd =>
        simp only []
        rw [ih (k + 1) nd (acc ++ [nd]), hc]
    · simp [hg]

/-- C16 (tie, whole loop): the hand model of the CDS FORWARD loop IS `while <generated test>: <generated body>`. -/
theorem cdsFwdLoop_is_generated_loop (o : Ops) (stepIn maturity : PyDate) (nm : Int) (fuel k : Nat) (next : PyDate)
    (acc : List PyDate) :
    cdsFwdLoop o stepIn maturity nm fuel k next acc
      = (match whileFuel (cdsFwdGuard stepIn maturity) (cdsFwdStep o stepIn maturity nm) fuel ⟨next, k, acc⟩ with
         | .error e => .error e
         | .ok s => .ok s.un) := by
  induction fuel generalizing k next acc with
  | zero => simp [cdsFwdLoop, whileFuel]
  | succ n ih =>
    unfold cdsFwdLoop whileFuel
    simp only [(cds_guard_is_generated stepIn maturity _).2, decide_eq_true_eq]
    by_cases hg : next.serial < maturity.serial
    · simp only [hg, if_true]
      simp only [cdsFwdStep, (cds_pre_is_generated stepIn maturity _ nm _).2, cds_fwd_post]
      have hc : ((k + 1 : Nat) : Int) = (k : Int) + 1 := by push_cast; rfl
      rw [hc]
      cases o.addMonths stepIn (nm * ((k : Int) + 1)) with
      | error e => rfl
      | ok nd =>
        simp only []
        rw [ih (k + 1) nd (acc ++ [next]), hc]
    · simp [hg]

/-- C16 (tie): the unadjusted CDS dates of the hand model are the generated loops from the generated initial states,
traversed in the generated direction (`reversed(...)` for BACKWARD), with the maturity date appended for FORWARD. -/
theorem cdsUnadjusted_is_generated (o : Ops) (stepIn maturity : PyDate) (nm : Int) (backward : Bool) (fuel : Nat) :
    cdsUnadjusted o stepIn maturity nm backward fuel = cdsUnadjustedGen o stepIn maturity nm backward fuel := by
  unfold cdsUnadjusted cdsUnadjustedGen
  cases backward with
  | true =>
    simp only [if_true]
    rw [cdsBackLoop_is_generated_loop, (cds_init_is_generated stepIn maturity).1]
    cases whileFuel (cdsBackGuard stepIn maturity) (cdsBackStep o stepIn maturity nm) fuel _ <;> simp [cds_back_adjust_reversed]
  | false =>
    simp only [Bool.false_eq_true, if_false]
    rw [cdsFwdLoop_is_generated_loop, (cds_init_is_generated stepIn maturity).2]
    cases whileFuel (cdsFwdGuard stepIn maturity) (cdsFwdStep o stepIn maturity nm) fuel _ <;>
      simp [cds_fwd_adjust_reversed, cds_fwd_last]

/-- C16 (tie, slices): payment dates are `adjusted_dts[1:]`, accrual starts `adjusted_dts[:-1]` — the hand model's
`drop 1` / `dropLast`. -/
theorem cds_slices_are_generated (adj : List PyDate) :
    adj.drop 1 = pySlice adj cds_payment_slice ∧ adj.dropLast = pySlice adj cds_accrual_start_slice := by
  constructor
  · simp [pySlice, cds_payment_slice]
  · simp [pySlice, cds_accrual_start_slice, List.dropLast_eq_take]

/-- C16 (tie, accrual ends): `[d.add_days(−1) for d in accrual_start_dts[1:]] + [maturity_dt]`: offset, slice and the
last element are the generated ones. -/
theorem cdsAccrualEnd_is_generated (addDays : PyDate → Int → Except PyErr PyDate) (accrualStart : List PyDate)
    (maturity stepIn : PyDate) :
    cdsAccrualEnd addDays accrualStart maturity
      = (match mapE (fun d => addDays d cds_accrual_end_days) (pySlice accrualStart cds_accrual_end_slice) with
         | .error e => .error e
         | .ok ends => .ok (ends ++ [cds_accrual_end_last maturity stepIn])) := by
  unfold cdsAccrualEnd
  have hs : pySlice accrualStart cds_accrual_end_slice = accrualStart.drop 1 := by simp [pySlice, cds_accrual_end_slice]
  rw [hs]
  simp only [cds_accrual_end_days, cds_accrual_end_last]
  cases mapE (fun d => addDays d (-1)) (accrualStart.drop 1) <;> rfl

/-- C16 (loop invariant on the generated CDS steps): the flow counter counts the iterations — after the loops the table
has `flow_num + 1` (BACKWARD) / `flow_num` (FORWARD) entries, and the exit comparison holds for the last roll. -/
theorem cds_flow_counts (o : Ops) (stepIn maturity : PyDate) (nm : Int) (fuel : Nat) (s : LoopState) :
    (whileFuel (cdsBackGuard stepIn maturity) (cdsBackStep o stepIn maturity nm) fuel (cdsBackInit stepIn maturity) = .ok s →
      (s.un.length : Int) = s.flow + 1 ∧ s.un.getLast? = some s.next ∧ s.next.serial ≤ stepIn.serial)
    ∧ (whileFuel (cdsFwdGuard stepIn maturity) (cdsFwdStep o stepIn maturity nm) fuel (cdsFwdInit stepIn maturity) = .ok s →
      (s.un.length : Int) = s.flow ∧ maturity.serial ≤ s.next.serial) := by
  constructor
  · intro h
    have := whileFuel_invariant (cdsBackGuard stepIn maturity) (cdsBackStep o stepIn maturity nm)
      (fun s => (s.un.length : Int) = s.flow + 1 ∧ s.un.getLast? = some s.next)
      (by
        intro s s' _ hstep hI
        unfold cdsBackStep at hstep
        simp only [cds_back_pre, cds_back_post] at hstep
        split at hstep
        · simp at hstep
        · simp at hstep; subst hstep; simp; omega) fuel _ s h (by simp [cdsBackInit, cds_back_init])
    refine ⟨this.1.1, this.1.2, ?_⟩
    have h2 := this.2
    rw [(cds_guard_is_generated stepIn maturity s).1] at h2
    simpa using h2
  · intro h
    have := whileFuel_invariant (cdsFwdGuard stepIn maturity) (cdsFwdStep o stepIn maturity nm)
      (fun s => (s.un.length : Int) = s.flow)
      (by
        intro s s' _ hstep hI
        unfold cdsFwdStep at hstep
        simp only [cds_fwd_pre, cds_fwd_post] at hstep
        split at hstep
        · simp at hstep
        · simp at hstep; subst hstep; simp; omega) fuel _ s h (by simp [cdsFwdInit, cds_fwd_init])
    refine ⟨this.1, ?_⟩
    have h2 := this.2
    rw [(cds_guard_is_generated stepIn maturity s).2] at h2
    simpa using h2

/-- non-vacuity: the generated loops run (identity date operations, termination reached in one step). -/
example : ∃ r, schBackRun ⟨.ok, fun d _ => .ok { d with serial := d.serial - 10 }, .ok⟩
    ⟨⟨1, 1, 2020, 5, 0⟩, ⟨1, 1, 2021, 10, 0⟩, 6, true, false, false⟩ 5
    (schBackInit ⟨⟨1, 1, 2020, 5, 0⟩, ⟨1, 1, 2021, 10, 0⟩, 6, true, false, false⟩) = .ok r ∧ r.2 = 2 := by
  exact ⟨_, rfl, rfl⟩

end FinVerif.Props.C16
