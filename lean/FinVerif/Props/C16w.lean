/-
C16w — call-site wiring of conventions, decided on the GENERATED table of call sites.

`FinVerif.Gen.Wiring.callSites` is regenerated from /repo's working tree on every run (tools/py2lean/registry/wiring.py):
one entry per call `Schedule(...)`, `DayCount(...)`, `Calendar(...)`, `SwapFixedLeg(...)`, … anywhere under financepy/,
with every callee parameter resolved (positional → name, defaults included) and its argument classified.  The rules are
those of `FinVerif/Spec/Wiring.lean`.  Every theorem below quantifies over ALL extracted sites; the exception lists are
named constants of the spec, each with its reason, and `design_exceptions_are_needed` shows none of them is idle.
-/
import FinVerif.Gen.Wiring

namespace FinVerif.Props.C16w
open FinVerif.Spec.Wiring FinVerif.Gen.Wiring

/-! ## R1 — every `Schedule(...)` receives the product's own conventions -/

/-- **R1.** For every `Schedule` call site in a class K and every convention role (frequency, calendar, business-day
adjustment, date-generation rule, end-of-month, adjust-termination) for which K's constructor HAS a parameter, the
argument is exactly such a constructor parameter, stored unchanged (or the method's own parameter of that role) — except
at the named exceptions. -/
theorem r1_schedule_forwards :
    ∀ s ∈ callSites, s.callee = "Schedule" → ∀ a ∈ s.args,
      excused (designExceptions ++ knownDefects) s a = false → forwards s a = true := by
  decide +kernel

/-- **R2.** The same for every `DayCount(...)`: the class's own day-count parameter. -/
theorem r2_daycount_forwards :
    ∀ s ∈ callSites, s.callee = "DayCount" → ∀ a ∈ s.args,
      excused (designExceptions ++ knownDefects) s a = false → forwards s a = true := by
  decide +kernel

/-- … and for every `Calendar(...)`: the class's own calendar parameter, with NO exception. -/
theorem calendar_forwards :
    ∀ s ∈ callSites, s.callee = "Calendar" → ∀ a ∈ s.args, forwards s a = true := by
  decide +kernel

/-- Products built from products (swap → legs, swaption → swap, basket/tranche/option → CDS, callable bond → bond,
equity swap → legs): every convention the outer class takes is forwarded, except where an auxiliary instrument is built. -/
theorem product_ctor_forwards :
    ∀ s ∈ callSites, s.callee ∈ productCallees → ∀ a ∈ s.args,
      excused auxiliaryInstrumentSites s a = false → forwards s a = true := by
  decide +kernel

/-! ## R3 — never swapped; legs never mixed -/

/-- **R3.** At EVERY extracted site (all callees, no exception): an argument for a callee parameter of role r that comes
from a constructor or method parameter comes from one of role r (`bd_type` is never fed from `dg_type`, the effective
date never from the termination date, …). -/
theorem r3_never_swapped : ∀ s ∈ callSites, ∀ a ∈ s.args, notSwapped s a = true := by
  decide +kernel

/-- Two-leg classes: a `fixed_…` callee parameter is fed from a `fixed_…` parameter; one call never mixes legs; a method
named after a leg uses that leg's parameters.  Every site, no exception. -/
theorem legs_consistent :
    ∀ s ∈ callSites, oneLeg s = true ∧ ∀ a ∈ s.args, legTagOK s a = true ∧ methodLegOK s a = true := by
  decide +kernel

/-- The whole verdict as the driver prints it: no failure of any rule at any site, given the exception lists. -/
theorem wiring_no_failures : failures allExceptions (coreCallees ++ productCallees) callSites = [] := by
  decide +kernel

/-! ## the verdict list is complete (for ANY table) -/

/-- If `failures` is empty then every rule holds at every site — so the driver's empty list means what the theorems say.
Holds for every table, exception list and callee list. -/
theorem failures_nil_sound (exc : List Exc) (callees : List String) (tbl : List CallSite)
    (h : failures exc callees tbl = []) :
    ∀ s ∈ tbl, oneLeg s = true ∧ ∀ a ∈ s.args,
      (callees.contains s.callee = true → excused exc s a = false → forwards s a = true)
      ∧ notSwapped s a = true ∧ legTagOK s a = true ∧ methodLegOK s a = true := by
  intro s hs
  simp only [failures, List.flatMap_eq_nil_iff, List.append_eq_nil_iff] at h
  obtain ⟨hargs, hone⟩ := h s hs
  refine ⟨?_, ?_⟩
  · cases hc : oneLeg s
    · simp [hc] at hone
    · rfl
  · intro a ha
    obtain ⟨⟨⟨h1, h2⟩, h3⟩, h4⟩ := hargs a ha
    refine ⟨?_, ?_, ?_, ?_⟩
    · intro hc he
      cases hf : forwards s a
      · rw [hc, he, hf] at h1
        simp at h1
      · rfl
    · cases hf : notSwapped s a
      · simp [hf] at h2
      · rfl
    · cases hf : legTagOK s a
      · simp [hf] at h3
      · rfl
    · cases hf : methodLegOK s a
      · simp [hf] at h4
      · rfl

/-! ## coverage: the extractor skipped nothing -/

/-- number of `Schedule(...)` sites in the table (the harness compares the sites' `file:line` list with a plain textual
search of the tree on every run: 19 `Schedule(` + 5 legacy `FinSchedule(`) -/
theorem schedule_site_count : (callSites.filter (·.callee == "Schedule")).length = 24 := by decide +kernel
theorem daycount_site_count : (callSites.filter (·.callee == "DayCount")).length = 42 := by decide +kernel
theorem calendar_site_count : (callSites.filter (·.callee == "Calendar")).length = 24 := by decide +kernel

/-- every `Schedule` site resolved all ten parameters of `Schedule.__init__` (positional → names, defaults included) -/
theorem schedule_sites_fully_resolved :
    ∀ s ∈ callSites, s.callee = "Schedule" →
      s.args.map (·.formal.s) = ["effective_dt", "termination_dt", "freq_type", "cal_type", "bd_type", "dg_type",
        "adjust_termination_dt", "end_of_month", "first_dt", "next_to_last_dt"] := by
  decide +kernel

/-- the spec assigns a role to eight of those ten (the two stub dates are documented as unimplemented) -/
theorem schedule_formals_have_roles :
    ([["effective", "dt"], ["termination", "dt"], ["freq", "type"], ["cal", "type"], ["bd", "type"], ["dg", "type"],
      ["adjust", "termination", "dt"], ["end", "of", "month"]].map fun n => (classify n).map (·.1)) =
    [some .effective, some .termination, some .freq, some .cal, some .busDayAdj, some .dateGen,
     some .adjustTermination, some .endOfMonth] := by
  decide +kernel

/-! ## the exceptions are tight, the rules are not vacuous -/

/-- every by-design exception is NEEDED: it covers an argument of the current table that does not forward (an exception
that no longer applies breaks this theorem and must be deleted) -/
theorem design_exceptions_are_needed :
    ∀ e ∈ designExceptions, ∃ s ∈ callSites, ∃ a ∈ s.args, e.covers s a = true ∧ forwards s a = false := by
  decide +kernel

/-- the sites inheriting in full (these are the ones `notes/C16.md` listed as "validated only"): at the `Schedule` sites of
SwapFixedLeg, SwapFloatLeg, EquitySwapLeg the seven roles freq, cal, bd, dg, end_of_month and both dates' sources are the
class's own parameters; IborCapFloor, BondMortgage, EquityCliquetOption forward freq, cal, bd, dg -/
theorem legs_forward_all_five :
    ∀ s ∈ callSites, s.callee = "Schedule" → s.cls ∈ ["SwapFixedLeg", "SwapFloatLeg", "EquitySwapLeg"] →
      ∀ f ∈ ["freq_type", "cal_type", "bd_type", "dg_type", "end_of_month"],
        ∃ a ∈ s.args, a.formal.s = f ∧ a.kind = .param ∧ a.src.s = f := by
  decide +kernel

theorem plain_users_forward_all_four :
    ∀ s ∈ callSites, s.callee = "Schedule" →
      s.cls ∈ ["IborCapFloor", "BondMortgage", "EquityCliquetOption", "FinIborIborXCcySwap"] →
      ∀ f ∈ ["cal_type", "bd_type", "dg_type"], ∃ a ∈ s.args, a.formal.s = f ∧ a.kind = .param ∧ a.src.s = f := by
  decide +kernel

/-- those classes are present in the table (the two theorems above are not vacuous) -/
theorem named_classes_present :
    ∀ c ∈ ["SwapFixedLeg", "SwapFloatLeg", "EquitySwapLeg", "IborCapFloor", "BondMortgage", "EquityCliquetOption",
           "FinIborIborXCcySwap", "Bond", "BondFRN", "BondAnnuity"],
      ∃ s ∈ callSites, s.callee = "Schedule" ∧ s.cls = c := by
  decide +kernel

/-- `Bond` (exception `excBondCouponCalendar`): the coupon schedule gets the constant `CalendarTypes.NONE` — exactly the
call the unconditional theorems of Props/C16i are about — and every other convention is the bond's own parameter -/
theorem bond_schedule_is_calendar_none :
    ∀ s ∈ callSites, s.callee = "Schedule" → s.cls = "Bond" → s.method.s = "_calculate_cpn_dts" →
      (∃ a ∈ s.args, a.formal.s = "cal_type" ∧ a.kind = .const ∧ a.src.s = "CalendarTypes.NONE")
      ∧ ∀ f ∈ ["freq_type", "bd_type", "dg_type"], ∃ a ∈ s.args, a.formal.s = f ∧ a.kind = .param ∧ a.src.s = f := by
  decide +kernel

/-! ## the recorded defect, frozen as observed (finding C16/annuity-ignores-bd-dg) -/

/-- `BondAnnuity.calculate_payments` as extracted from the unchanged tree (frozen here so that this file keeps building
when the defect is repaired; `knownDefects` then merely becomes idle) -/
def annuitySiteObserved : CallSite :=
  { file := "financepy/products/bonds/bond_annuity.py", cls := "BondAnnuity",
    method := ⟨"calculate_payments", ["calculate", "payments"]⟩, callee := "Schedule", ordinal := 0, line := 113,
    ctor := [⟨"maturity_dt", ["maturity", "dt"]⟩, ⟨"cpn", ["cpn"]⟩, ⟨"freq_type", ["freq", "type"]⟩,
             ⟨"cal_type", ["cal", "type"]⟩, ⟨"bd_type", ["bd", "type"]⟩, ⟨"dg_type", ["dg", "type"]⟩,
             ⟨"dc_type", ["dc", "type"]⟩],
    margs := [⟨"settle_dt", ["settle", "dt"]⟩, ⟨"face", ["face"]⟩],
    args := [⟨⟨"freq_type", ["freq", "type"]⟩, .param, ⟨"freq_type", ["freq", "type"]⟩⟩,
             ⟨⟨"cal_type", ["cal", "type"]⟩, .param, ⟨"cal_type", ["cal", "type"]⟩⟩,
             ⟨⟨"bd_type", ["bd", "type"]⟩, .const, ⟨"BusDayAdjustTypes.FOLLOWING", []⟩⟩,
             ⟨⟨"dg_type", ["dg", "type"]⟩, .const, ⟨"DateGenRuleTypes.BACKWARD", []⟩⟩] }

/-- the full statement of R1 (no defect excused) -/
def R1Full (tbl : List CallSite) : Prop :=
  ∀ s ∈ tbl, s.callee = "Schedule" → ∀ a ∈ s.args, excused designExceptions s a = false → forwards s a = true

/-- … is FALSE on any table containing the observed annuity site: the class takes `bd_type` and `dg_type` and its
schedule gets constants -/
theorem r1_full_refuted_by_annuity (tbl : List CallSite) (h : annuitySiteObserved ∈ tbl) : ¬ R1Full tbl := by
  intro hr
  have := hr annuitySiteObserved h (by decide)
    ⟨⟨"bd_type", ["bd", "type"]⟩, .const, ⟨"BusDayAdjustTypes.FOLLOWING", []⟩⟩ (by decide +kernel) (by decide +kernel)
  revert this
  decide +kernel

/-- After the repair (fix ed33e4a) the full statement holds on the table regenerated from the current source: no
defect is excused any more. -/
theorem r1_full : R1Full callSites := by
  unfold R1Full
  decide +kernel

/-- the repaired annuity site as the current source has it: `bd_type` and `dg_type` are the constructor's own -/
theorem annuity_forwards_bd_dg :
    ∀ s ∈ callSites, s.callee = "Schedule" → s.cls = "BondAnnuity" →
      ∀ f ∈ ["freq_type", "cal_type", "bd_type", "dg_type"], ∃ a ∈ s.args, a.formal.s = f ∧ a.kind = .param ∧ a.src.s = f := by
  decide +kernel

/-- R1 in full for every table on which the two recorded defect arguments are the only non-forwarding ones -/
theorem r1_partial : ∀ s ∈ callSites, s.callee = "Schedule" → ∀ a ∈ s.args,
    excused designExceptions s a = false → excused knownDefects s a = false → forwards s a = true := by
  decide +kernel

/-! ## the rules DO reject wrong wiring (sanity of the spec on hand-made sites) -/

private def nm (s : String) : Name :=
  ⟨s, if s == "cal_type" then ["cal", "type"] else if s == "bd_type" then ["bd", "type"]
      else if s == "dg_type" then ["dg", "type"] else if s == "freq_type" then ["freq", "type"]
      else if s == "start_dt" then ["start", "dt"] else [s]⟩

/-- a cap that drops `dg_type`, swaps `bd_type`/`dg_type`, or feeds a stored constant is rejected -/
def capSite (cal bd dg : Arg) : CallSite :=
  { file := "x.py", cls := "IborCapFloor", method := nm "_generate_dts", callee := "Schedule", ordinal := 0, line := 1,
    ctor := [nm "start_dt", nm "freq_type", nm "cal_type", nm "bd_type", nm "dg_type"], margs := [],
    args := [cal, bd, dg] }

example : failures [] coreCallees [capSite ⟨nm "cal_type", .param, nm "cal_type"⟩ ⟨nm "bd_type", .param, nm "bd_type"⟩
    ⟨nm "dg_type", .param, nm "dg_type"⟩] = [] := by decide +kernel
theorem dropped_argument_is_rejected :
    (failures [] coreCallees [capSite ⟨nm "cal_type", .param, nm "cal_type"⟩ ⟨nm "bd_type", .param, nm "bd_type"⟩
      ⟨nm "dg_type", .dflt, ⟨"", []⟩⟩]).map (·.rule) = ["forward"] := by decide +kernel
theorem swapped_arguments_are_rejected :
    (failures [] coreCallees [capSite ⟨nm "cal_type", .param, nm "cal_type"⟩ ⟨nm "bd_type", .param, nm "dg_type"⟩
      ⟨nm "dg_type", .param, nm "bd_type"⟩]).map (·.rule) = ["forward", "swap", "forward", "swap"] := by decide +kernel
theorem stored_constant_is_rejected :
    (failures [] coreCallees [capSite ⟨nm "cal_type", .other, ⟨"self.cal_type", []⟩⟩ ⟨nm "bd_type", .param, nm "bd_type"⟩
      ⟨nm "dg_type", .param, nm "dg_type"⟩]).map (·.rule) = ["forward"] := by decide +kernel

/-- hypotheses of R1 are satisfiable on the table: there are forwarding arguments of each convention role -/
example : ∃ s ∈ callSites, s.callee = "Schedule" ∧ ∃ a ∈ s.args, roleOf a.formal = some .endOfMonth ∧ a.kind = .param := by
  decide +kernel
example : ∃ s ∈ callSites, s.callee = "DayCount" ∧ ∃ a ∈ s.args, roleOf a.formal = some .dcType ∧ a.kind = .param := by
  decide +kernel

end FinVerif.Props.C16w
