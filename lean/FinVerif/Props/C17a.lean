/-
  C17 (part a) — the conditional-independence recursion `indep_loss_dbn_recursion_gcd`
  (model: `FinVerif.Model.C17.indepRecursion`), for EVERY list of credits (no bound on n):
  non-negativity, mass one, mean = Σ pᵢ·lᵢ, equality with the exhaustive enumeration of the
  2ⁿ default states.  Mass one needs "the support fits the array"; the unchanged code does not
  guarantee that (array size from `int(l)`, shift from `int(l+1e-10)`): the full statement is
  refuted at a concrete witness and the partial theorem carries the hypothesis.
-/
import FinVerif.Lemmas.C17

namespace FinVerif.Props.C17
open FinVerif.Model.C17 FinVerif.Lemmas.C17 Polynomial Finset

/-- every conditional default probability is a probability -/
def ProbsOK (cs : List (Credit ℝ)) : Prop := ∀ c ∈ cs, 0 ≤ c.p ∧ c.p ≤ 1

/-- "the support fits the array": the largest reachable loss `Σ int(lᵢ+1e-10)` is an index of the
array of size `1 + Σ int(lᵢ)`.  True whenever every loss unit is integer-valued. -/
def Fits (cs : List (Credit ℝ)) : Prop := (cs.map (·.sh)).sum < arraySize cs

theorem fits_of_integer_units (cs : List (Credit ℝ)) (h : ∀ c ∈ cs, c.sh = c.sz) : Fits cs := by
  unfold Fits arraySize
  have : cs.map (·.sh) = cs.map (·.sz) := List.map_congr_left h
  rw [this]; omega

theorem length_foldl_step (n : ℕ) (cs : List (Credit ℝ)) (l : List ℝ) (h : l.length = n) :
    (cs.foldl (step n) l).length = n := by
  induction cs generalizing l with
  | nil => simpa
  | cons c cs ih => simp only [List.foldl_cons]; apply ih; simp [step]

theorem sum_eq_sum_range (l : List ℝ) : l.sum = ∑ i ∈ range l.length, getZ l i := by
  induction l with
  | nil => simp
  | cons a l ih =>
    rw [List.sum_cons, List.length_cons, Finset.sum_range_succ', ih]
    simp [getZ, add_comm]

theorem sumL_eq_sum (l : List ℝ) : sumL l = l.sum := by
  unfold sumL; rw [List.sum_eq_foldl]

/-- entries of the recursion (any non-empty portfolio) are the coefficients of the generating
polynomial `∏ ((1-pᵢ) + pᵢ·X^shᵢ)`, cut at the array size -/
theorem recursion_getZ (cs : List (Credit ℝ)) (hne : cs ≠ []) (i : ℕ) :
    getZ (indepRecursion cs) i = if i < arraySize cs then (genPoly cs).coeff i else 0 := by
  have : indepRecursion cs = cs.foldl (step (arraySize cs)) (unit (arraySize cs)) := by
    cases cs with
    | nil => exact absurd rfl hne
    | cons c cs => rfl
  rw [this, unit, foldl_step_getZ, fullFn_unit]

theorem recursion_length (cs : List (Credit ℝ)) : (indepRecursion cs).length = arraySize cs := by
  cases cs with
  | nil => simp [indepRecursion, zeros]
  | cons c cs => exact length_foldl_step _ _ _ (by simp [unit])

/-- **recursion_nonneg** — every entry is non-negative. -/
theorem recursion_nonneg (cs : List (Credit ℝ)) (hp : ProbsOK cs) :
    ∀ x ∈ indepRecursion cs, 0 ≤ x := by
  have key : ∀ (n : ℕ) (cs : List (Credit ℝ)) (l : List ℝ), ProbsOK cs → (∀ i, 0 ≤ getZ l i) →
      ∀ i, 0 ≤ getZ (cs.foldl (step n) l) i := by
    intro n cs
    induction cs with
    | nil => intro l _ h; simpa using h
    | cons c cs ih =>
      intro l hp h
      simp only [List.foldl_cons]
      apply ih _ (fun d hd => hp d (List.mem_cons_of_mem _ hd))
      intro i
      obtain ⟨h0, h1⟩ := hp c List.mem_cons_self
      rw [step, getA_toArray, getZ_range_map]
      split
      · unfold stepAt
        split
        · exact mul_nonneg (h _) (by linarith)
        · exact add_nonneg (mul_nonneg (h _) h0) (mul_nonneg (h _) (by linarith))
      · exact le_rfl
  intro x hx
  cases cs with
  | nil =>
    simp only [indepRecursion, zeros, List.mem_replicate] at hx
    rw [hx.2]
  | cons c cs =>
    obtain ⟨i, hi, rfl⟩ := List.getElem_of_mem hx
    have hz : getZ (indepRecursion (c :: cs)) i = (indepRecursion (c :: cs))[i] := by
      simp [getZ, List.getD_eq_getElem?_getD, hi]
    rw [← hz]
    apply key _ _ _ hp
    intro j
    rw [unit, getZ_range_map]
    split
    · unfold unitFn; split <;> norm_num
    · exact le_rfl

/-- **recursion_mass_one** (partial: under `Fits`) — the entries sum to one. -/
theorem recursion_mass_one_partial (cs : List (Credit ℝ)) (hne : cs ≠ []) (hfit : Fits cs) :
    (indepRecursion cs).sum = 1 := by
  rw [sum_eq_sum_range, recursion_length]
  have hdeg : (genPoly cs).natDegree < arraySize cs := lt_of_le_of_lt (natDegree_genPoly_le cs) hfit
  rw [← eval_one_genPoly cs, eval_eq_sum_range' hdeg]
  apply Finset.sum_congr rfl
  intro i hi
  rw [recursion_getZ cs hne, if_pos (Finset.mem_range.mp hi)]; simp

/-- the full statement the property asks for: mass one for every non-empty portfolio -/
def MassOneFull : Prop := ∀ cs : List (Credit ℝ), cs ≠ [] → ProbsOK cs → (indepRecursion cs).sum = 1

/-- **counterexample**: one credit with `p = 0.3` and a loss unit just below 3
(`int(l) = 2`, `int(l+1e-10) = 3`): the array has 3 entries, the defaulted state is shifted out,
the mass is 0.7. -/
theorem massOneFull_fails : ¬ MassOneFull := by
  intro h
  have := h [⟨3/10, 2, 3⟩] (by simp) (by intro c hc; simp at hc; subst hc; norm_num)
  norm_num [indepRecursion, arraySize, step, unit, stepAt, getA, unitFn, List.range_succ] at this

/-- **recursion_mean** — the mean of the distribution is `Σ pᵢ·shᵢ`. -/
theorem recursion_mean_partial (cs : List (Credit ℝ)) (hne : cs ≠ []) (hfit : Fits cs) :
    ∑ i ∈ range (arraySize cs), (i : ℝ) * getZ (indepRecursion cs) i
      = (cs.map fun c => c.p * (c.sh : ℝ)).sum := by
  have hdeg : (genPoly cs).natDegree < arraySize cs := lt_of_le_of_lt (natDegree_genPoly_le cs) hfit
  rw [← deriv_eval_one_genPoly, derivative_eval,
    sum_over_range' _ (by intro n; simp) _ hdeg]
  apply Finset.sum_congr rfl
  intro i hi
  rw [recursion_getZ cs hne, if_pos (Finset.mem_range.mp hi)]; simp [mul_comm]

/-- generating polynomial of the enumeration -/
theorem enum_poly (cs : List (Credit ℝ)) :
    ((enumStates cs).map fun s => C s.1 * X ^ s.2).sum = genPoly cs := by
  induction cs with
  | nil => simp [enumStates, genPoly]
  | cons c cs ih =>
    have h1 : ∀ (A : List (ℝ × ℕ)) (a : ℝ) (k : ℕ),
        (A.map fun s => C (s.1 * a) * X ^ (s.2 + k)).sum
          = (A.map fun s => C s.1 * X ^ s.2).sum * (C a * X ^ k : ℝ[X]) := by
      intro A a k
      rw [← List.sum_map_mul_right]
      congr 1
      apply List.map_congr_left
      intro s _
      rw [C_mul, pow_add]; ring
    have h0 := h1 (enumStates cs) (1 - c.p) 0
    have h2 := h1 (enumStates cs) c.p c.sh
    simp only [add_zero, pow_zero, mul_one] at h0
    simp only [enumStates, List.map_append, List.map_map, List.sum_append, Function.comp_def]
    rw [h0, h2, ih]
    simp only [genPoly, List.map_cons, List.prod_cons, factor]
    ring

theorem enumLaw_coeff (cs : List (Credit ℝ)) (i : ℕ) : enumLaw cs i = (genPoly cs).coeff i := by
  rw [← enum_poly, enumLaw]
  generalize enumStates cs = A
  induction A with
  | nil => simp
  | cons s A ih => simp [List.sum_cons, coeff_add, ih]

/-- **recursion_eq_enumeration** — for every portfolio (every n), every array entry equals the
probability of that loss obtained by enumerating all 2ⁿ default states of independent
Bernoulli(pᵢ) defaults with losses `shᵢ`.  No hypothesis: outside `Fits` the array is the
enumeration law cut at the array size. -/
theorem recursion_eq_enumeration (cs : List (Credit ℝ)) (hne : cs ≠ []) (i : ℕ)
    (hi : i < arraySize cs) : getZ (indepRecursion cs) i = enumLaw cs i := by
  rw [recursion_getZ cs hne, if_pos hi, enumLaw_coeff]

theorem enumStates_length (cs : List (Credit ℝ)) : (enumStates cs).length = 2 ^ cs.length := by
  induction cs with
  | nil => simp [enumStates]
  | cons c cs ih => simp [enumStates, ih, pow_succ]; ring

/-- hypotheses are satisfiable: a 3-name heterogeneous portfolio with integer units -/
example : Fits [⟨1/10, 2, 2⟩, ⟨1/2, 1, 1⟩, ⟨9/10, 3, 3⟩] ∧ ProbsOK [⟨1/10, 2, 2⟩, ⟨1/2, 1, 1⟩, ⟨9/10, 3, 3⟩] := by
  constructor
  · simp [Fits, arraySize]
  · intro c hc; simp at hc; rcases hc with rfl | rfl | rfl <;> norm_num

end FinVerif.Props.C17
