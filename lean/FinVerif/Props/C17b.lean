/-
  C17 (part b) — mixture over quadrature nodes (Gaussian one-factor copula), zero correlation,
  tranche expected-loss algebra, adjusted-binomial mass.  All for every portfolio size, every
  number of nodes, every attachment list.
-/
import FinVerif.Props.C17a
import Mathlib.Algebra.Order.BigOperators.Group.Finset
import Mathlib.Tactic.FieldSimp
import Mathlib.Tactic.Positivity

namespace FinVerif.Props.C17
open FinVerif.Model.C17 FinVerif.Lemmas.C17 Finset

theorem sum_range_map (m : ℕ) (f : ℕ → ℝ) : ((List.range m).map f).sum = ∑ i ∈ range m, f i := by
  induction m with
  | zero => simp
  | succ m ih => simp [List.range_succ, Finset.sum_range_succ, ih]

theorem foldl_add_eq (β : Type) (g : β → ℝ) (l : List β) (a : ℝ) :
    l.foldl (fun acc x => acc + g x) a = a + (l.map g).sum := by
  induction l generalizing a with
  | nil => simp
  | cons x l ih => simp [ih, add_assoc]

theorem sum_list_sum_comm (β : Type) (l : List β) (n : ℕ) (g : β → ℕ → ℝ) :
    ∑ i ∈ range n, (l.map fun x => g x i).sum = (l.map fun x => ∑ i ∈ range n, g x i).sum := by
  induction l with
  | nil => simp
  | cons x l ih => simp [Finset.sum_add_distrib, ih]

/-- entry `i` of the mixture -/
theorem mixture_getZ (n : ℕ) (nodes : List (ℝ × List ℝ)) (c : ℝ) (i : ℕ) :
    getZ (mixture n nodes c) i
      = if i < n then (nodes.map fun nd => getZ nd.2 i * nd.1).sum * c else 0 := by
  simp only [mixture, List.foldl_map, getA_toArray]
  rw [getZ_range_map]
  split
  · rw [foldl_add_eq]; simp
  · rfl

/-- **mixture_mass** — the mass of the mixture is `c · Σₖ wₖ · mass(dₖ)`. -/
theorem mixture_mass (n : ℕ) (nodes : List (ℝ × List ℝ)) (c : ℝ) :
    (mixture n nodes c).sum = c * (nodes.map fun nd => nd.1 * ∑ i ∈ range n, getZ nd.2 i).sum := by
  simp only [mixture, List.foldl_map, getA_toArray]
  rw [sum_range_map]
  simp only [foldl_add_eq, zero_add]
  rw [← Finset.sum_mul, sum_list_sum_comm, mul_comm]
  congr 2
  apply List.map_congr_left
  intro nd _
  rw [Finset.mul_sum]
  exact Finset.sum_congr rfl (fun i _ => mul_comm _ _)

/-- **mixture_mean** — the mean index of the mixture is `c · Σₖ wₖ · mean(dₖ)`. -/
theorem mixture_mean (n : ℕ) (nodes : List (ℝ × List ℝ)) (c : ℝ) :
    ∑ i ∈ range n, (i : ℝ) * getZ (mixture n nodes c) i
      = c * (nodes.map fun nd => nd.1 * ∑ i ∈ range n, (i : ℝ) * getZ nd.2 i).sum := by
  have : ∀ i ∈ range n, (i : ℝ) * getZ (mixture n nodes c) i
      = (nodes.map fun nd => (i : ℝ) * getZ nd.2 i * nd.1).sum * c := by
    intro i hi
    rw [mixture_getZ, if_pos (Finset.mem_range.mp hi), ← mul_assoc, ← List.sum_map_mul_left]
    congr 2
    apply List.map_congr_left
    intro nd _; ring
  rw [Finset.sum_congr rfl this, ← Finset.sum_mul, sum_list_sum_comm, mul_comm]
  congr 2
  apply List.map_congr_left
  intro nd _
  rw [Finset.mul_sum]
  exact Finset.sum_congr rfl (fun i _ => by ring)

/-- **mixture_mass** for nodes that are probability laws: `c · Σₖ wₖ` — the copula's mass claim
reduces to one scalar quadrature sum. -/
theorem mixture_mass_of_unit_nodes (n : ℕ) (nodes : List (ℝ × List ℝ)) (c : ℝ)
    (h : ∀ nd ∈ nodes, ∑ i ∈ range n, getZ nd.2 i = 1) :
    (mixture n nodes c).sum = c * (nodes.map (·.1)).sum := by
  rw [mixture_mass]
  congr 2
  apply List.map_congr_left
  intro nd hnd
  rw [h nd hnd, mul_one]

/-! ### the Gaussian one-factor loss distribution -/

theorem mkCredits_ne_nil (ps : List ℝ) (units : List (ℕ × ℕ)) (h1 : ps ≠ []) (h2 : units ≠ []) :
    mkCredits ps units ≠ [] := by
  cases ps with
  | nil => exact absurd rfl h1
  | cons p ps => cases units with
    | nil => exact absurd rfl h2
    | cons u us => simp [mkCredits]

theorem map_sz_mkCredits (ps : List ℝ) (units : List (ℕ × ℕ)) (h : ps.length = units.length) :
    (mkCredits ps units).map (·.sz) = units.map (·.1) := by
  induction ps generalizing units with
  | nil => cases units with
    | nil => rfl
    | cons u us => simp at h
  | cons p ps ih => cases units with
    | nil => simp at h
    | cons u us =>
      have := ih us (by simpa using h)
      simp only [mkCredits] at this
      simp only [mkCredits, List.zipWith_cons_cons, List.map_cons, this]

theorem arraySize_mkCredits (ps : List ℝ) (units : List (ℕ × ℕ)) (h : ps.length = units.length) :
    arraySize (mkCredits ps units) = 1 + (units.map (·.1)).sum := by
  unfold arraySize
  rw [map_sz_mkCredits ps units h]

theorem fits_mkCredits (ps : List ℝ) (units : List (ℕ × ℕ)) (h : ps.length = units.length)
    (hu : ∀ u ∈ units, u.2 = u.1) : Fits (mkCredits ps units) := by
  apply fits_of_integer_units
  intro c hc
  unfold mkCredits at hc
  obtain ⟨i, hi, rfl⟩ := List.getElem_of_mem hc
  simp only [List.getElem_zipWith]
  apply hu
  exact List.getElem_mem _

theorem condProbs_length (Nf sqrtf : ℝ → ℝ) (thr betas : List ℝ) (z : ℝ) (h : thr.length = betas.length) :
    (condProbs Nf sqrtf thr betas z).length = thr.length := by
  simp [condProbs, h]

/-- **gc_mass** — with integer-valued loss units the Gaussian-copula loss distribution has mass
`c · Σₖ exp(-zₖ²/2)` (whatever `N`, `sqrt`, `exp`, thresholds, betas are): the claim "sums to one"
is the scalar quadrature statement `INV_ROOT_2_PI·dz·Σₖ exp(-zₖ²/2) ≈ 1`. -/
theorem gc_mass (Nf sqrtf expf : ℝ → ℝ) (thr betas : List ℝ) (units : List (ℕ × ℕ)) (z0 dz c : ℝ)
    (steps : ℕ) (hl : thr.length = betas.length) (hl2 : thr.length = units.length) (hne : units ≠ [])
    (hu : ∀ u ∈ units, u.2 = u.1) :
    (lossDbnGC Nf sqrtf expf thr betas units z0 dz c steps).sum
      = c * ((zNodes z0 dz steps).map fun z => expf (-(z * z) / 2)).sum := by
  unfold lossDbnGC
  rw [mixture_mass_of_unit_nodes]
  · simp [gcNodes, Function.comp_def]
  · intro nd hnd
    simp only [gcNodes, List.mem_map] at hnd
    obtain ⟨z, _, rfl⟩ := hnd
    have hlen : (condProbs Nf sqrtf thr betas z).length = units.length := by
      rw [condProbs_length _ _ _ _ _ hl, hl2]
    have hthr : condProbs Nf sqrtf thr betas z ≠ [] := by
      intro h0; rw [h0] at hlen; cases units with
      | nil => exact hne rfl
      | cons u us => simp at hlen
    have hcs := mkCredits_ne_nil _ _ hthr hne
    have := recursion_mass_one_partial _ hcs (fits_mkCredits _ _ hlen hu)
    rw [sum_eq_sum_range, recursion_length, arraySize_mkCredits _ _ hlen] at this
    exact this

theorem mean_mkCredits (ps : List ℝ) (units : List (ℕ × ℕ)) :
    ((mkCredits ps units).map fun c => c.p * (c.sh : ℝ)).sum
      = (List.zipWith (fun p u => p * ((u.2 : ℕ) : ℝ)) ps units).sum := by
  unfold mkCredits
  rw [List.map_zipWith]

/-- **gc_mean** — the mean loss (in units) of the Gaussian-copula distribution is
`c · Σₖ wₖ · Σᵢ pᵢ(zₖ)·lᵢ`: "mean = Σ pᵢ lᵢ regardless of correlation" is the scalar quadrature
statement `c·Σₖ wₖ N(argᵢ(zₖ)) ≈ pᵢ` per credit. -/
theorem gc_mean (Nf sqrtf expf : ℝ → ℝ) (thr betas : List ℝ) (units : List (ℕ × ℕ)) (z0 dz c : ℝ)
    (steps : ℕ) (hl : thr.length = betas.length) (hl2 : thr.length = units.length) (hne : units ≠ [])
    (hu : ∀ u ∈ units, u.2 = u.1) :
    ∑ i ∈ range (1 + (units.map (·.1)).sum),
        (i : ℝ) * getZ (lossDbnGC Nf sqrtf expf thr betas units z0 dz c steps) i
      = c * ((zNodes z0 dz steps).map fun z => expf (-(z * z) / 2) *
          (List.zipWith (fun p u => p * ((u.2 : ℕ) : ℝ)) (condProbs Nf sqrtf thr betas z) units).sum).sum := by
  unfold lossDbnGC
  rw [mixture_mean]
  congr 1
  simp only [gcNodes, List.map_map, Function.comp_def]
  congr 1
  apply List.map_congr_left
  intro z _
  have hlen : (condProbs Nf sqrtf thr betas z).length = units.length := by
    rw [condProbs_length _ _ _ _ _ hl, hl2]
  have hthr : condProbs Nf sqrtf thr betas z ≠ [] := by
    intro h0; rw [h0] at hlen; cases units with
    | nil => exact hne rfl
    | cons u us => simp at hlen
  have hcs := mkCredits_ne_nil _ _ hthr hne
  have := recursion_mean_partial _ hcs (fits_mkCredits _ _ hlen hu)
  rw [arraySize_mkCredits _ _ hlen, mean_mkCredits] at this
  rw [this]

/-- with every beta zero the conditional probabilities do not depend on the factor -/
theorem condProbs_beta_zero (Nf sqrtf : ℝ → ℝ) (hs : sqrtf 1 = 1) (thr betas : List ℝ) (z : ℝ)
    (hl : thr.length = betas.length) (hb : ∀ b ∈ betas, b = 0) :
    condProbs Nf sqrtf thr betas z = thr.map Nf := by
  unfold condProbs
  induction thr generalizing betas with
  | nil => simp
  | cons t ts ih => cases betas with
    | nil => simp at hl
    | cons b bs =>
      have hb0 : b = 0 := hb b List.mem_cons_self
      simp only [List.zipWith_cons_cons, List.map_cons]
      rw [ih bs (by simpa using hl) (fun x hx => hb x (List.mem_cons_of_mem _ hx)), hb0]
      simp [hs]

/-- **beta_zero_reduces_to_independent** — zero correlation: every entry of the copula
distribution is (the scalar `c·Σₖ wₖ` ≈ 1 times) the independent recursion at `pᵢ = N(thresholdᵢ)`. -/
theorem beta_zero_reduces_to_independent (Nf sqrtf expf : ℝ → ℝ) (hs : sqrtf 1 = 1)
    (thr betas : List ℝ) (units : List (ℕ × ℕ)) (z0 dz c : ℝ) (steps : ℕ)
    (hl : thr.length = betas.length) (hl2 : thr.length = units.length) (hb : ∀ b ∈ betas, b = 0) (i : ℕ) :
    getZ (lossDbnGC Nf sqrtf expf thr betas units z0 dz c steps) i
      = (c * ((zNodes z0 dz steps).map fun z => expf (-(z * z) / 2)).sum)
        * getZ (indepRecursion (mkCredits (thr.map Nf) units)) i := by
  unfold lossDbnGC
  rw [mixture_getZ]
  simp only [gcNodes, List.map_map, Function.comp_def]
  have hc : ∀ z, condProbs Nf sqrtf thr betas z = thr.map Nf :=
    fun z => condProbs_beta_zero Nf sqrtf hs thr betas z hl hb
  simp only [hc]
  split
  · rw [List.sum_map_mul_left]; ring
  · rename_i hi
    have hlen : (thr.map Nf).length = units.length := by simpa using hl2
    have : getZ (indepRecursion (mkCredits (thr.map Nf) units)) i = 0 := by
      have hL := recursion_length (mkCredits (thr.map Nf) units)
      rw [arraySize_mkCredits _ _ hlen] at hL
      unfold getZ
      rw [List.getD_eq_getElem?_getD, List.getElem?_eq_none (by omega)]
      rfl
    rw [this, mul_zero]

/-! ### tranche algebra -/

theorem trancheEL_eq (k1 k2 gcd : ℝ) (dbn : List ℝ) (m : ℕ) :
    trancheEL k1 k2 gcd dbn m
      = ∑ i ∈ range m, (min ((i : ℝ) * gcd) k2 - min ((i : ℝ) * gcd) k1) * getZ dbn i := by
  simp only [trancheEL, getA_toArray]
  rw [sumL_eq_sum, sum_range_map]

theorem portfolioEL_eq (gcd : ℝ) (dbn : List ℝ) (m : ℕ) :
    portfolioEL gcd dbn m = ∑ i ∈ range m, ((i : ℝ) * gcd) * getZ dbn i := by
  simp only [portfolioEL, getA_toArray]
  rw [sumL_eq_sum, sum_range_map]

/-- adjacent tranches add: `EL[k1,k2] + EL[k2,k3] = EL[k1,k3]` (no ordering needed) -/
theorem trancheEL_add (k1 k2 k3 gcd : ℝ) (dbn : List ℝ) (m : ℕ) :
    trancheEL k1 k2 gcd dbn m + trancheEL k2 k3 gcd dbn m = trancheEL k1 k3 gcd dbn m := by
  simp only [trancheEL_eq, ← Finset.sum_add_distrib]
  exact Finset.sum_congr rfl (fun i _ => by ring)

theorem trancheEL_self (k gcd : ℝ) (dbn : List ℝ) (m : ℕ) : trancheEL k k gcd dbn m = 0 := by
  simp [trancheEL_eq]

/-- the width-weighted tranche expected losses over consecutive attachment points telescope -/
theorem partitionEL_telescope (gcd : ℝ) (dbn : List ℝ) (m : ℕ) (k0 : ℝ) (ks : List ℝ) :
    partitionEL gcd dbn m (k0 :: ks) = trancheEL k0 ((k0 :: ks).getLast (by simp)) gcd dbn m := by
  induction ks generalizing k0 with
  | nil => simp [partitionEL, trancheEL_self]
  | cons k ks ih =>
    rw [partitionEL, ih]
    simp only [List.getLast_cons_cons]
    exact trancheEL_add _ _ _ _ _ _

/-- **tranche_partition_adds_up** — attachment points `0 = k₀, k₁, …, k_m` with the last at or above
the largest loss: Σⱼ (width-weighted) tranche EL = portfolio EL. -/
theorem tranche_partition_adds_up (gcd : ℝ) (dbn : List ℝ) (m : ℕ) (ks : List ℝ) (hg : 0 ≤ gcd)
    (htop : ∀ i, i < m → (i : ℝ) * gcd ≤ (0 :: ks).getLast (by simp)) :
    partitionEL gcd dbn m (0 :: ks) = portfolioEL gcd dbn m := by
  rw [partitionEL_telescope, trancheEL_eq, portfolioEL_eq]
  apply Finset.sum_congr rfl
  intro i hi
  have h1 := htop i (Finset.mem_range.mp hi)
  have h2 : 0 ≤ (i : ℝ) * gcd := mul_nonneg (Nat.cast_nonneg _) hg
  rw [min_eq_left h1, min_eq_right h2, sub_zero]

/-- **tranche_EL_in_unit_interval** — for a sub-probability law with non-negative entries and
`k1 < k2` the tranche expected loss as a fraction of the width lies in [0,1], so the tranche
survival probability `1 - EL/(k2-k1)` lies in [0,1]. -/
theorem tranche_EL_in_unit_interval (k1 k2 gcd : ℝ) (dbn : List ℝ) (m : ℕ) (hk : k1 < k2)
    (hnn : ∀ i, 0 ≤ getZ dbn i) (hmass : ∑ i ∈ range m, getZ dbn i ≤ 1) :
    0 ≤ trancheEL k1 k2 gcd dbn m / (k2 - k1) ∧ trancheEL k1 k2 gcd dbn m / (k2 - k1) ≤ 1 ∧
    0 ≤ trancheSurv k1 k2 gcd dbn m ∧ trancheSurv k1 k2 gcd dbn m ≤ 1 := by
  have hw : 0 < k2 - k1 := by linarith
  have hlo : 0 ≤ trancheEL k1 k2 gcd dbn m := by
    rw [trancheEL_eq]
    apply Finset.sum_nonneg
    intro i _
    apply mul_nonneg _ (hnn i)
    have : min ((i : ℝ) * gcd) k1 ≤ min ((i : ℝ) * gcd) k2 := min_le_min_left _ hk.le
    linarith
  have hhi : trancheEL k1 k2 gcd dbn m ≤ k2 - k1 := by
    rw [trancheEL_eq]
    calc ∑ i ∈ range m, (min ((i : ℝ) * gcd) k2 - min ((i : ℝ) * gcd) k1) * getZ dbn i
        ≤ ∑ i ∈ range m, (k2 - k1) * getZ dbn i := by
          apply Finset.sum_le_sum
          intro i _
          apply mul_le_mul_of_nonneg_right _ (hnn i)
          rcases le_total ((i : ℝ) * gcd) k1 with h | h
          · rw [min_eq_left h, min_eq_left (h.trans hk.le)]; linarith
          · rw [min_eq_right h]
            have := min_le_right ((i : ℝ) * gcd) k2
            linarith
      _ = (k2 - k1) * ∑ i ∈ range m, getZ dbn i := by rw [Finset.mul_sum]
      _ ≤ (k2 - k1) * 1 := mul_le_mul_of_nonneg_left hmass hw.le
      _ = k2 - k1 := mul_one _
  have h1 : 0 ≤ trancheEL k1 k2 gcd dbn m / (k2 - k1) := div_nonneg hlo hw.le
  have h2 : trancheEL k1 k2 gcd dbn m / (k2 - k1) ≤ 1 := by
    rw [div_le_one hw]; exact hhi
  refine ⟨h1, h2, ?_, ?_⟩ <;> unfold trancheSurv <;> linarith

/-! ### adjusted binomial: the adjustment keeps the mass -/

theorem sum_modify_add (l : List ℝ) (i : ℕ) (e : ℝ) (h : i < l.length) :
    (l.modify i (· + e)).sum = l.sum + e := by
  induction l generalizing i with
  | nil => simp at h
  | cons a l ih => cases i with
    | zero => simp [List.modify_cons]; ring
    | succ i =>
      simp only [List.length_cons, Nat.add_lt_add_iff_right] at h
      simp [ih i h]; ring

/-- **adj_binomial_mass_one** — `indep_dbn[i] *= alpha`, then `+= epsilon_below`, `+= epsilon_above`
at two in-range indices with `epsilon_below + epsilon_above = 1 - alpha` (as coded:
`epsilon_above = (1-alpha) - epsilon_below`): if the base binomial has mass one, so has the result. -/
theorem adj_binomial_mass_one (base : List ℝ) (alpha epsBelow : ℝ) (iBelow iAbove : ℕ)
    (hb : base.sum = 1) (h1 : iBelow < base.length) (h2 : iAbove < base.length) :
    (adjust base alpha iBelow iAbove epsBelow ((1 - alpha) - epsBelow)).sum = 1 := by
  unfold adjust
  rw [sum_modify_add _ _ _ (by simpa using h2), sum_modify_add _ _ _ (by simpa using h1),
    List.sum_map_mul_right]
  simp only [List.map_id', hb]
  ring

/-- non-vacuity: a two-node mixture of two laws on {0,1,2} -/
example : (mixture 3 [((1/2 : ℝ), [1/2, 1/4, 1/4]), (1/2, [0, 1, 0])] 1).sum = 1 := by
  rw [mixture_mass_of_unit_nodes]
  · norm_num
  · intro nd hnd
    simp at hnd
    rcases hnd with rfl | rfl <;> norm_num [Finset.sum_range_succ, getZ]

end FinVerif.Props.C17
