/-
  C17 (part c) — default-time samplers: the inversion step `τ = Q⁻¹(F(g))`.

  * `marginal_of_inversion` / `marginal_of_inversion_anti`: whatever strictly increasing function `G` the code applies to
    the latent variable, the simulated default time has `P(τ ≤ T) = 1 − F(x)` (resp. `F(x)`), where `F` is the
    distribution function of `g`'s own law and `x` is the point with `G x = Q T` (resp. `1 − Q T`);
  * `inversion_marginal_correct` / `inversion_marginal_correct_anti`: with `G = F` this is `1 − Q T` — the property;
  * `inversion_marginal_correct_iff` / `…_anti_iff`: and ONLY then: the marginal is right at `T` iff `G` agrees with `F`
    at that point.  The harness therefore compares the function the code applies with SciPy's Student-t (normal)
    distribution function at the simulated points; every disagreement is, by these theorems, a horizon at which the
    simulated marginal default probability is `1 − F(x)` instead of `1 − Q(T)`;
  * `interpTime_eq`, `interpTime_roundtrip`, `interpTime_invertsAt`, `interpTime_swap`: the interpolation line of
    `uniform_to_default_time` is the inverse of the log-linear survival curve through the two pillars (Galois form
    `τ(u) ≤ T ↔ Q(T) ≤ u`), also in the wrap-around orientation used beyond the last pillar.

  Assumed, not proved (recorded in the evidence file): `IsCdfOf μ g F` (the law of `g`), measurability of `g`, strict
  monotonicity of `G`, `InvertsAt` for the whole piecewise curve (proved here for one interval; the interval search is
  tied by the correspondence `UDT` and the round-trip oracle).
-/
import FinVerif.Model.C17Inv
import FinVerif.Spec.C17
import Mathlib.MeasureTheory.Constructions.BorelSpace.Order
import Mathlib.MeasureTheory.Constructions.BorelSpace.Real
import Mathlib.Analysis.SpecialFunctions.Log.Basic
import Mathlib.Tactic.FieldSimp
import Mathlib.Tactic.Linarith

namespace FinVerif.Props.C17
open FinVerif.Model.C17Inv FinVerif.Spec.C17 MeasureTheory

section inversion
variable {Ω : Type*} [MeasurableSpace Ω] (μ : Measure Ω) [IsProbabilityMeasure μ]

/-- **marginal_of_inversion** — `u = G(g)`, `τ = Q⁻¹(u)`: `P(τ ≤ T) = 1 − F(x)` where `G x = Q T`. -/
theorem marginal_of_inversion (g : Ω → ℝ) (hg : Measurable g) (F G Q Qinv : ℝ → ℝ) (T x : ℝ)
    (hF : IsCdfOf μ g F) (hG : StrictMono G) (hQ : InvertsAt Q Qinv T) (hx : G x = Q T) :
    μ.real {ω | defaultTime Qinv G (g ω) ≤ T} = 1 - F x := by
  have hset : {ω | defaultTime Qinv G (g ω) ≤ T} = {ω | g ω < x}ᶜ := by
    ext ω
    simp only [defaultTime, Set.mem_ofPred_eq, Set.mem_compl_iff, not_lt]
    rw [hQ (G (g ω)), ← hx, hG.le_iff_le]
  rw [hset, probReal_compl_eq_one_sub (measurableSet_lt hg measurable_const), hF.lt]

omit [IsProbabilityMeasure μ] in
/-- **marginal_of_inversion_anti** — `u = 1 − G(g)`, `τ = Q⁻¹(u)`: `P(τ ≤ T) = F(x)` where `G x = 1 − Q T`. -/
theorem marginal_of_inversion_anti (g : Ω → ℝ) (F G Q Qinv : ℝ → ℝ) (T x : ℝ)
    (hF : IsCdfOf μ g F) (hG : StrictMono G) (hQ : InvertsAt Q Qinv T) (hx : G x = 1 - Q T) :
    μ.real {ω | defaultTimeAnti Qinv G (g ω) ≤ T} = F x := by
  have hset : {ω | defaultTimeAnti Qinv G (g ω) ≤ T} = {ω | g ω ≤ x} := by
    ext ω
    simp only [defaultTimeAnti, Set.mem_ofPred_eq]
    rw [hQ (1 - G (g ω)), ← hG.le_iff_le (a := g ω) (b := x), hx]
    constructor <;> intro h <;> linarith
  rw [hset, hF.le]

/-- **inversion_marginal_correct** — the code applies the distribution function of `g`'s own law: the simulated default
time has the marginal of the curve, `P(τ ≤ T) = 1 − Q(T)`. -/
theorem inversion_marginal_correct (g : Ω → ℝ) (hg : Measurable g) (F Q Qinv : ℝ → ℝ) (T x : ℝ)
    (hF : IsCdfOf μ g F) (hmono : StrictMono F) (hQ : InvertsAt Q Qinv T) (hx : F x = Q T) :
    MarginalCorrect μ (fun ω => defaultTime Qinv F (g ω)) Q T := by
  unfold MarginalCorrect
  rw [marginal_of_inversion μ g hg F F Q Qinv T x hF hmono hQ hx, hx]

omit [IsProbabilityMeasure μ] in
/-- **inversion_marginal_correct_anti** — the same for the antithetic uniform `1 − F(g)`. -/
theorem inversion_marginal_correct_anti (g : Ω → ℝ) (F Q Qinv : ℝ → ℝ) (T x : ℝ)
    (hF : IsCdfOf μ g F) (hmono : StrictMono F) (hQ : InvertsAt Q Qinv T) (hx : F x = 1 - Q T) :
    MarginalCorrect μ (fun ω => defaultTimeAnti Qinv F (g ω)) Q T := by
  unfold MarginalCorrect
  rw [marginal_of_inversion_anti μ g F F Q Qinv T x hF hmono hQ hx, hx]

/-- **inversion_marginal_correct_iff** — the marginal is right at `T` exactly when the applied function `G` agrees with
the distribution function `F` of `g` at the point `x` that `G` maps to `Q T`. -/
theorem inversion_marginal_correct_iff (g : Ω → ℝ) (hg : Measurable g) (F G Q Qinv : ℝ → ℝ) (T x : ℝ)
    (hF : IsCdfOf μ g F) (hG : StrictMono G) (hQ : InvertsAt Q Qinv T) (hx : G x = Q T) :
    MarginalCorrect μ (fun ω => defaultTime Qinv G (g ω)) Q T ↔ F x = G x := by
  unfold MarginalCorrect
  rw [marginal_of_inversion μ g hg F G Q Qinv T x hF hG hQ hx, hx]
  constructor <;> intro h <;> linarith

omit [IsProbabilityMeasure μ] in
/-- **inversion_marginal_correct_anti_iff** -/
theorem inversion_marginal_correct_anti_iff (g : Ω → ℝ) (F G Q Qinv : ℝ → ℝ) (T x : ℝ)
    (hF : IsCdfOf μ g F) (hG : StrictMono G) (hQ : InvertsAt Q Qinv T) (hx : G x = 1 - Q T) :
    MarginalCorrect μ (fun ω => defaultTimeAnti Qinv G (g ω)) Q T ↔ F x = G x := by
  unfold MarginalCorrect
  rw [marginal_of_inversion_anti μ g F G Q Qinv T x hF hG hQ hx, hx]

/-- **wrong_cdf_wrong_marginal** — a function `G` that differs from the distribution function of `g` at `x` gives a
wrong marginal default probability at every horizon `T` with `Q T = G x` (the shape of seed-type defects: a normal
distribution function applied to a Student-t variable). -/
theorem wrong_cdf_wrong_marginal (g : Ω → ℝ) (hg : Measurable g) (F G Q Qinv : ℝ → ℝ) (T x : ℝ)
    (hF : IsCdfOf μ g F) (hG : StrictMono G) (hQ : InvertsAt Q Qinv T) (hx : G x = Q T) (hne : F x ≠ G x) :
    ¬ MarginalCorrect μ (fun ω => defaultTime Qinv G (g ω)) Q T :=
  fun h => hne ((inversion_marginal_correct_iff μ g hg F G Q Qinv T x hF hG hQ hx).1 h)

end inversion

/-! ### the interpolation line of `uniform_to_default_time` -/

/-- log-linear survival curve through the pillars `(t1, q1)`, `(t2, q2)` -/
noncomputable def logLinQ (t1 q1 t2 q2 T : ℝ) : ℝ :=
  Real.exp (Real.log q1 + (T - t1) / (t2 - t1) * (Real.log q2 - Real.log q1))

/-- **interpTime_eq** — `tau = t1 + (t2 − t1)·(log u − log q1)/(log q2 − log q1)`. -/
theorem interpTime_eq (t1 q1 t2 q2 u : ℝ) (hq1 : 0 < q1) (hq2 : 0 < q2) (hu : 0 < u) (hne : q1 ≠ q2) :
    interpTime Real.log t1 q1 t2 q2 u
      = t1 + (t2 - t1) * (Real.log u - Real.log q1) / (Real.log q2 - Real.log q1) := by
  have hl : Real.log q2 - Real.log q1 ≠ 0 := by
    intro h
    exact hne (Real.log_injOn_pos (Set.mem_Ioi.2 hq1) (Set.mem_Ioi.2 hq2) (by linarith))
  simp only [interpTime]
  rw [Real.log_div hq2.ne' hu.ne', Real.log_div hu.ne' hq1.ne', Real.log_div hq2.ne' hq1.ne']
  field_simp
  ring

/-- **interpTime_roundtrip** — the survival curve at the returned time is the uniform: `Q(τ(u)) = u`. -/
theorem interpTime_roundtrip (t1 q1 t2 q2 u : ℝ) (hq1 : 0 < q1) (hq2 : 0 < q2) (hu : 0 < u) (hne : q1 ≠ q2)
    (ht : t1 ≠ t2) : logLinQ t1 q1 t2 q2 (interpTime Real.log t1 q1 t2 q2 u) = u := by
  have hl : Real.log q2 - Real.log q1 ≠ 0 := by
    intro h
    exact hne (Real.log_injOn_pos (Set.mem_Ioi.2 hq1) (Set.mem_Ioi.2 hq2) (by linarith))
  have ht' : t2 - t1 ≠ 0 := sub_ne_zero.2 (Ne.symm ht)
  rw [logLinQ, interpTime_eq t1 q1 t2 q2 u hq1 hq2 hu hne]
  have : Real.log q1 + (t1 + (t2 - t1) * (Real.log u - Real.log q1) / (Real.log q2 - Real.log q1) - t1) / (t2 - t1)
      * (Real.log q2 - Real.log q1) = Real.log u := by
    field_simp
    ring
  rw [this, Real.exp_log hu]

/-- **interpTime_invertsAt** — inside one pillar interval (`t1 < t2`, `q2 < q1`) the interpolation line inverts the
log-linear survival curve in the Galois form the marginal theorems assume: `τ(u) ≤ T ↔ Q(T) ≤ u`. -/
theorem interpTime_invertsAt (t1 q1 t2 q2 u T : ℝ) (hq2 : 0 < q2) (hq : q2 < q1) (hu : 0 < u) (ht : t1 < t2) :
    interpTime Real.log t1 q1 t2 q2 u ≤ T ↔ logLinQ t1 q1 t2 q2 T ≤ u := by
  have hq1 : 0 < q1 := hq2.trans hq
  have hl : Real.log q2 - Real.log q1 < 0 := sub_neg.2 (Real.log_lt_log hq2 hq)
  have ht' : 0 < t2 - t1 := sub_pos.2 ht
  rw [interpTime_eq t1 q1 t2 q2 u hq1 hq2 hu hq.ne', logLinQ, ← Real.le_log_iff_exp_le hu]
  have key : (T - t1) / (t2 - t1) * (Real.log q2 - Real.log q1) ≤ Real.log u - Real.log q1
      ↔ (t2 - t1) * (Real.log u - Real.log q1) / (Real.log q2 - Real.log q1) ≤ T - t1 := by
    rw [div_le_iff_of_neg hl, div_mul_eq_mul_div, div_le_iff₀ ht']
    constructor <;> intro h <;> nlinarith
  constructor
  · intro h
    have := key.2 (by linarith)
    linarith
  · intro h
    have := key.1 (by linarith)
    linarith

/-- **interpTime_swap** — the line does not depend on the order of the two pillars; beyond the last pillar the code
reads `(t[-1], v[-1])` as the first and `(t[0], v[0]) = (0, 1)` as the second point. -/
theorem interpTime_swap (t1 q1 t2 q2 u : ℝ) (hq1 : 0 < q1) (hq2 : 0 < q2) (hu : 0 < u) (hne : q1 ≠ q2) :
    interpTime Real.log t1 q1 t2 q2 u = interpTime Real.log t2 q2 t1 q1 u := by
  have hl : Real.log q2 - Real.log q1 ≠ 0 := by
    intro h
    exact hne (Real.log_injOn_pos (Set.mem_Ioi.2 hq1) (Set.mem_Ioi.2 hq2) (by linarith))
  have hl' : Real.log q1 - Real.log q2 ≠ 0 := by
    intro h; exact hl (by linarith)
  rw [interpTime_eq t1 q1 t2 q2 u hq1 hq2 hu hne, interpTime_eq t2 q2 t1 q1 u hq2 hq1 hu (Ne.symm hne)]
  field_simp
  ring

/-- **extrapolation_is_flat_hazard** — beyond the last pillar (`index = 0`): `τ = t_last · log u / log q_last`. -/
theorem extrapolation_is_flat_hazard (tl ql u : ℝ) (hql : 0 < ql) (hql1 : ql ≠ 1) (hu : 0 < u) :
    interpTime Real.log tl ql 0 1 u = tl * Real.log u / Real.log ql := by
  have hl : Real.log ql ≠ 0 := by
    intro h
    rcases Real.log_eq_zero.1 h with h0 | h1 | h2
    · exact hql.ne' h0
    · exact hql1 h1
    · linarith
  rw [interpTime_eq tl ql 0 1 u hql one_pos hu hql1, Real.log_one]
  field_simp
  ring

end FinVerif.Props.C17
