/-
  C17 (part d) — the assumption `IsCdfOf` of Props/C17c discharged for the Gaussian copula sampler with the exact normal
  distribution function, and shown satisfiable.

  * `isCdfOf_of_map`: a latent variable whose law `ν` on ℝ has no atoms has the distribution function `cdf ν`
    (Mathlib's `ProbabilityTheory.cdf`) in the sense of `Spec.C17.IsCdfOf`;
  * `strictMono_cdf_stdNormal`: the standard normal distribution function is strictly increasing (the Lebesgue measure is
    absolutely continuous with respect to the normal law);
  * `gaussian_sampler_marginal_correct`, `gaussian_sampler_antithetic_marginal_correct`: for ANY probability space and any
    latent variable with the standard normal law — in particular any row of `chol(corr)·x` with a unit-diagonal correlation
    matrix, whatever the correlation — `default_times_gc` with the exact Φ has `P(τ ≤ T) = 1 − Q(T)` in both halves.
    The code uses Hull's polynomial `N` for Φ (|N − Φ| ≤ 7.5e-8): tied numerically (harness, tolerance 1e-6).
  * `example`: every hypothesis of `inversion_marginal_correct` holds together for a concrete choice.
  The Student-t law is not in Mathlib: for `StudentTCopula` `IsCdfOf` stays an assumption.
-/
import FinVerif.Props.C17c
import Mathlib.Probability.Distributions.Gaussian.Real
import Mathlib.Probability.CDF

namespace FinVerif.Props.C17
open FinVerif.Model.C17Inv FinVerif.Spec.C17 MeasureTheory ProbabilityTheory

/-- **isCdfOf_of_map** — law `ν` without atoms ⇒ `IsCdfOf μ g (cdf ν)`. -/
theorem isCdfOf_of_map {Ω : Type*} [MeasurableSpace Ω] (μ : Measure Ω) (g : Ω → ℝ) (hg : Measurable g)
    (ν : Measure ℝ) [IsProbabilityMeasure ν] [NullSingletonClass ν] (hlaw : μ.map g = ν) : IsCdfOf μ g (cdf ν) := by
  have hle : ∀ x, μ.real {ω | g ω ≤ x} = ν.real (Set.Iic x) := by
    intro x
    rw [← hlaw, map_measureReal_apply hg measurableSet_Iic]; rfl
  have hlt : ∀ x, μ.real {ω | g ω < x} = ν.real (Set.Iio x) := by
    intro x
    rw [← hlaw, map_measureReal_apply hg measurableSet_Iio]; rfl
  refine ⟨fun x => ?_, fun x => ?_⟩
  · rw [hlt, cdf_eq_real]; exact measureReal_congr Iio_ae_eq_Iic
  · rw [hle, cdf_eq_real]

/-- **strictMono_cdf_stdNormal** -/
theorem strictMono_cdf_stdNormal : StrictMono (cdf (gaussianReal 0 1)) := by
  intro a b hab
  rw [cdf_eq_real, cdf_eq_real]
  have hpos : 0 < (gaussianReal 0 1).real (Set.Ioc a b) := by
    rw [measureReal_def, ENNReal.toReal_pos_iff]
    refine ⟨?_, measure_lt_top _ _⟩
    by_contra h
    have h0 : gaussianReal 0 1 (Set.Ioc a b) = 0 := le_zero_iff.1 (not_lt.1 h)
    have hv := gaussianReal_absolutelyContinuous' 0 (one_ne_zero) h0
    rw [Real.volume_Ioc, ENNReal.ofReal_eq_zero] at hv
    linarith
  have hsplit : (gaussianReal 0 1).real (Set.Iic b)
      = (gaussianReal 0 1).real (Set.Iic a) + (gaussianReal 0 1).real (Set.Ioc a b) := by
    rw [← measureReal_union _ measurableSet_Ioc, Set.Iic_union_Ioc_eq_Iic hab.le]
    exact Set.disjoint_left.2 fun y hy hy' => not_lt.2 hy hy'.1
  linarith

instance stdNormal_nullSingleton : NullSingletonClass (gaussianReal 0 1) :=
  nullSingletonClass_gaussianReal one_ne_zero

section gaussian
variable {Ω : Type*} [MeasurableSpace Ω] (μ : Measure Ω) [IsProbabilityMeasure μ]

/-- the exact standard normal distribution function -/
noncomputable abbrev Phi : ℝ → ℝ := cdf (gaussianReal 0 1)

omit [IsProbabilityMeasure μ] in
/-- **gaussian_sampler_marginal_correct** — first half of `default_times_gc` (`u1 = 1 − Φ(g)`). -/
theorem gaussian_sampler_marginal_correct (g : Ω → ℝ) (hg : Measurable g) (hlaw : μ.map g = gaussianReal 0 1)
    (Q Qinv : ℝ → ℝ) (T x : ℝ) (hQ : InvertsAt Q Qinv T) (hx : Phi x = 1 - Q T) :
    MarginalCorrect μ (fun ω => defaultTimeAnti Qinv Phi (g ω)) Q T :=
  inversion_marginal_correct_anti μ g Phi Q Qinv T x (isCdfOf_of_map μ g hg _ hlaw) strictMono_cdf_stdNormal hQ hx

/-- **gaussian_sampler_antithetic_marginal_correct** — second half (`u2 = 1 − u1 = Φ(g)`). -/
theorem gaussian_sampler_antithetic_marginal_correct (g : Ω → ℝ) (hg : Measurable g)
    (hlaw : μ.map g = gaussianReal 0 1) (Q Qinv : ℝ → ℝ) (T x : ℝ) (hQ : InvertsAt Q Qinv T) (hx : Phi x = Q T) :
    MarginalCorrect μ (fun ω => defaultTime Qinv Phi (g ω)) Q T :=
  inversion_marginal_correct μ g hg Phi Q Qinv T x (isCdfOf_of_map μ g hg _ hlaw) strictMono_cdf_stdNormal hQ hx

end gaussian

/-- the hypotheses of `inversion_marginal_correct` are jointly satisfiable: standard normal latent variable on `Ω = ℝ`,
a survival curve with `Q T = Φ(0)` and the step function that inverts it at `T`. -/
example (T : ℝ) : ∃ (μ : Measure ℝ) (_ : IsProbabilityMeasure μ) (g F Q Qinv : ℝ → ℝ) (x : ℝ),
    Measurable g ∧ IsCdfOf μ g F ∧ StrictMono F ∧ InvertsAt Q Qinv T ∧ F x = Q T ∧
      MarginalCorrect μ (fun ω => defaultTime Qinv F (g ω)) Q T := by
  have hinv : InvertsAt (fun _ => Phi 0) (fun u => if Phi 0 ≤ u then T else T + 1) T := by
    intro u
    by_cases h : Phi 0 ≤ u <;> simp [h]
  have hcdf : IsCdfOf (gaussianReal 0 1) id Phi :=
    isCdfOf_of_map (gaussianReal 0 1) id measurable_id _ Measure.map_id
  exact ⟨gaussianReal 0 1, inferInstance, id, Phi, fun _ => Phi 0, _, 0, measurable_id, hcdf,
    strictMono_cdf_stdNormal, hinv, rfl,
    inversion_marginal_correct (gaussianReal 0 1) id measurable_id Phi _ _ T 0 hcdf strictMono_cdf_stdNormal hinv rfl⟩

end FinVerif.Props.C17
