/-
  C17 (part e) — what C17a/b leave implicit:

  * the per-credit step of `indep_loss_dbn_recursion_gcd` made explicit (`new[k] = (1-p)·old[k] + p·old[k-u]`, two buffers),
    and its three loop invariants (support, mass, mean) proved per step and by induction over the credits for ANY integer loss
    units — a second derivation of mass one / mean = Σ pᵢ·uᵢ that does not go through generating polynomials;
  * the mixture over quadrature nodes IS a probability law (non-negative, mass one) once the scalar quadrature weights sum
    to one, and its mean is Σ pᵢ·uᵢ "regardless of correlation" once the weighted average of every conditional default
    probability is the unconditional one (the hypothesis is stated on the code's own nodes/weights and is what the harness
    checks numerically);
  * the tranche loss function `min(L,k2) - min(L,k1)` = `min(max(L-k1,0), k2-k1)`: bounds, monotone in the loss, pointwise
    additivity over any partition, and the lift through the expectation (the "adds up" clause as a pointwise identity);
  * nth-to-default: `basket_surv_curve = 1 - Σ_{i ≥ n} dbn[i]`; the probability of at least n defaults is non-increasing
    in n for any non-negative array, the basket survival probability non-decreasing in n and inside [0,1].
-/
import FinVerif.Props.C17b
import Mathlib.Algebra.Order.BigOperators.Group.List
import Mathlib.Algebra.BigOperators.Intervals

namespace FinVerif.Props.C17
open FinVerif.Model.C17 FinVerif.Lemmas.C17 Finset

/-! ### the per-credit step, as coded (two buffers) -/

/-- **step_getZ** — one pass of the two inner loops: `next[k] = prev[k]·(1-p)` below the shift,
`next[k] = prev[k-u]·p + prev[k]·(1-p)` from the shift on; every bucket is scaled, not only bucket 0, and `next` is
computed from the untouched `prev`. -/
theorem step_getZ (n : ℕ) (prev : List ℝ) (c : Credit ℝ) (k : ℕ) :
    getZ (step n prev c) k
      = if k < n then (if k < c.sh then getZ prev k * (1 - c.p)
                       else getZ prev (k - c.sh) * c.p + getZ prev k * (1 - c.p)) else 0 := by
  simp only [step, getA_toArray]
  rw [getZ_range_map]
  rfl

theorem stepAt_split (f : ℕ → ℝ) (p : ℝ) (sh k : ℕ) :
    stepAt f p sh k = (1 - p) * f k + p * (if k < sh then 0 else f (k - sh)) := by
  unfold stepAt; split <;> ring

theorem shift_sum_w (f w : ℕ → ℝ) (sh n : ℕ) :
    ∑ k ∈ range n, w k * (if k < sh then 0 else f (k - sh)) = ∑ j ∈ range (n - sh), w (j + sh) * f j := by
  induction n with
  | zero => simp
  | succ n ih =>
    rw [Finset.sum_range_succ, ih]
    by_cases h : n < sh
    · have e : n + 1 - sh = n - sh := by omega
      rw [e, if_pos h]; simp
    · have e : n + 1 - sh = (n - sh) + 1 := by omega
      rw [e, Finset.sum_range_succ, if_neg h]
      have e2 : n - sh + sh = n := by omega
      rw [e2]

theorem sum_range_of_zero_tail (g : ℕ → ℝ) (m n : ℕ) (hmn : m ≤ n) (h : ∀ j, m ≤ j → j < n → g j = 0) :
    ∑ j ∈ range m, g j = ∑ j ∈ range n, g j := by
  apply Finset.sum_subset (Finset.range_mono hmn)
  intro j hj hnj
  exact h j (by simpa using hnj) (by simpa using hj)

/-- any weighted sum after one step, when the shifted support stays inside the array -/
theorem step_weighted (n : ℕ) (prev : List ℝ) (c : Credit ℝ) (w : ℕ → ℝ)
    (hs : ∀ k, n ≤ k + c.sh → getZ prev k = 0) :
    ∑ k ∈ range n, w k * getZ (step n prev c) k
      = (1 - c.p) * ∑ k ∈ range n, w k * getZ prev k + c.p * ∑ k ∈ range n, w (k + c.sh) * getZ prev k := by
  have h1 : ∀ k ∈ range n, w k * getZ (step n prev c) k
      = (1 - c.p) * (w k * getZ prev k) + c.p * (w k * (if k < c.sh then 0 else getZ prev (k - c.sh))) := by
    intro k hk
    have hk' : k < n := Finset.mem_range.mp hk
    simp only [step, getA_toArray]
    rw [getZ_range_map, if_pos hk', stepAt_split]; ring
  rw [Finset.sum_congr rfl h1, Finset.sum_add_distrib, ← Finset.mul_sum, ← Finset.mul_sum,
    shift_sum_w (getZ prev) w,
    sum_range_of_zero_tail (fun j => w (j + c.sh) * getZ prev j) (n - c.sh) n (Nat.sub_le _ _)
      (fun j hj _ => by rw [hs j (by omega), mul_zero])]

/-- **step_mass** — one credit keeps the mass (shifted support inside the array). -/
theorem step_mass (n : ℕ) (prev : List ℝ) (c : Credit ℝ) (hs : ∀ k, n ≤ k + c.sh → getZ prev k = 0) :
    ∑ k ∈ range n, getZ (step n prev c) k = ∑ k ∈ range n, getZ prev k := by
  have := step_weighted n prev c (fun _ => 1) hs
  simp only [one_mul] at this
  rw [this]; ring

/-- **step_mean** — one credit adds `p·u·(mass)` to the mean. -/
theorem step_mean (n : ℕ) (prev : List ℝ) (c : Credit ℝ) (hs : ∀ k, n ≤ k + c.sh → getZ prev k = 0) :
    ∑ k ∈ range n, (k : ℝ) * getZ (step n prev c) k
      = ∑ k ∈ range n, (k : ℝ) * getZ prev k + c.p * (c.sh : ℝ) * ∑ k ∈ range n, getZ prev k := by
  rw [step_weighted n prev c (fun k => (k : ℝ)) hs]
  have : ∀ k ∈ range n, ((k + c.sh : ℕ) : ℝ) * getZ prev k = (k : ℝ) * getZ prev k + (c.sh : ℝ) * getZ prev k := by
    intro k _; push_cast; ring
  rw [Finset.sum_congr rfl this, Finset.sum_add_distrib, ← Finset.mul_sum]; ring

/-- **step_nonneg** — one credit keeps the entries non-negative. -/
theorem step_nonneg (n : ℕ) (prev : List ℝ) (c : Credit ℝ) (h0 : 0 ≤ c.p) (h1 : c.p ≤ 1)
    (h : ∀ k, 0 ≤ getZ prev k) (k : ℕ) : 0 ≤ getZ (step n prev c) k := by
  rw [step_getZ]
  split
  · split
    · exact mul_nonneg (h _) (by linarith)
    · exact add_nonneg (mul_nonneg (h _) h0) (mul_nonneg (h _) (by linarith))
  · exact le_rfl

/-- **step_support** — the largest reachable loss moves up by exactly the credit's units. -/
theorem step_support (n : ℕ) (prev : List ℝ) (c : Credit ℝ) (s : ℕ) (h : ∀ k, s < k → getZ prev k = 0) (k : ℕ)
    (hk : s + c.sh < k) : getZ (step n prev c) k = 0 := by
  rw [step_getZ]
  split
  · split
    · rw [h k (by omega), zero_mul]
    · rw [h k (by omega), h (k - c.sh) (by omega)]; ring
  · rfl

/-- the loop invariant of the recursion over credits: support, mass, mean -/
structure StepInv (n : ℕ) (l : List ℝ) (s : ℕ) (mass mean : ℝ) : Prop where
  supp : ∀ k, s < k → getZ l k = 0
  mass : ∑ k ∈ range n, getZ l k = mass
  mean : ∑ k ∈ range n, (k : ℝ) * getZ l k = mean

/-- **step_preserves_inv** — the invariant through one credit. -/
theorem step_preserves_inv (n : ℕ) (l : List ℝ) (c : Credit ℝ) (s : ℕ) (m μ : ℝ) (h : StepInv n l s m μ)
    (hfit : s + c.sh < n) : StepInv n (step n l c) (s + c.sh) m (μ + c.p * (c.sh : ℝ) * m) := by
  have hs : ∀ k, n ≤ k + c.sh → getZ l k = 0 := fun k hk => h.supp k (by omega)
  exact ⟨step_support n l c s h.supp, by rw [step_mass n l c hs, h.mass], by rw [step_mean n l c hs, h.mean, h.mass]⟩

/-- **foldl_step_inv** — induction over the credits (any integer units whose total fits the array). -/
theorem foldl_step_inv (n : ℕ) (cs : List (Credit ℝ)) (l : List ℝ) (s : ℕ) (m μ : ℝ) (h : StepInv n l s m μ)
    (hfit : s + (cs.map (·.sh)).sum < n) :
    StepInv n (cs.foldl (step n) l) (s + (cs.map (·.sh)).sum) m (μ + m * (cs.map fun c => c.p * (c.sh : ℝ)).sum) := by
  induction cs generalizing l s μ with
  | nil => simpa using h
  | cons c cs ih =>
    simp only [List.map_cons, List.sum_cons] at hfit ⊢
    simp only [List.foldl_cons]
    have h' := step_preserves_inv n l c s m μ h (by omega)
    have := ih (step n l c) (s + c.sh) (μ + c.p * (c.sh : ℝ) * m) h' (by omega)
    have e1 : s + c.sh + (cs.map (·.sh)).sum = s + (c.sh + (cs.map (·.sh)).sum) := by omega
    have e2 : μ + c.p * (c.sh : ℝ) * m + m * (cs.map fun c => c.p * (c.sh : ℝ)).sum
        = μ + m * (c.p * (c.sh : ℝ) + (cs.map fun c => c.p * (c.sh : ℝ)).sum) := by ring
    rw [e1, e2] at this
    exact this

theorem unit_inv (n : ℕ) (hn : 0 < n) : StepInv n (unit n : List ℝ) 0 1 0 := by
  have hg : ∀ k, getZ (unit n : List ℝ) k = if k < n then unitFn k else 0 := fun k => getZ_range_map n unitFn k
  refine ⟨?_, ?_, ?_⟩
  · intro k hk
    rw [hg]; split
    · unfold unitFn; rw [if_neg (by omega)]
    · rfl
  · rw [Finset.sum_eq_single 0]
    · rw [hg, if_pos hn]; simp [unitFn]
    · intro k _ hk; rw [hg]; split
      · unfold unitFn; rw [if_neg hk]
      · rfl
    · intro h0; exact absurd (Finset.mem_range.mpr hn) h0
  · apply Finset.sum_eq_zero
    intro k _
    rw [hg]; split
    · unfold unitFn; split
      · subst_vars; simp
      · ring
    · ring

/-- **recursion_law_by_induction** — `indep_loss_dbn_recursion_gcd` as the fold of the two-buffer step over the credits:
for any integer loss units whose total fits the array the result is supported on `0..Σuᵢ`, has mass one and mean `Σ pᵢ·uᵢ`
(loop-invariant proof; `recursion_mass_one_partial` / `recursion_mean_partial` obtain the same through generating
polynomials). -/
theorem recursion_law_by_induction (cs : List (Credit ℝ)) (hne : cs ≠ []) (hfit : Fits cs) :
    StepInv (arraySize cs) (indepRecursion cs) ((cs.map (·.sh)).sum) 1 ((cs.map fun c => c.p * (c.sh : ℝ)).sum) := by
  have e : indepRecursion cs = cs.foldl (step (arraySize cs)) (unit (arraySize cs)) := by
    cases cs with
    | nil => exact absurd rfl hne
    | cons c cs => rfl
  have := foldl_step_inv (arraySize cs) cs (unit (arraySize cs)) 0 1 0
    (unit_inv _ (by unfold arraySize; omega)) (by simpa [Fits] using hfit)
  rw [e]
  simpa using this

/-! ### the mixture over quadrature nodes is a law -/

theorem getZ_nonneg_of_mem (l : List ℝ) (h : ∀ x ∈ l, 0 ≤ x) (i : ℕ) : 0 ≤ getZ l i := by
  unfold getZ
  rw [List.getD_eq_getElem?_getD]
  by_cases hi : i < l.length
  · rw [List.getElem?_eq_getElem hi]; exact h _ (List.getElem_mem hi)
  · rw [List.getElem?_eq_none (by omega)]; exact le_rfl

/-- **mixture_nonneg** — non-negative weights and node laws give non-negative entries. -/
theorem mixture_nonneg (n : ℕ) (nodes : List (ℝ × List ℝ)) (c : ℝ) (hc : 0 ≤ c) (hw : ∀ nd ∈ nodes, 0 ≤ nd.1)
    (hd : ∀ nd ∈ nodes, ∀ i, 0 ≤ getZ nd.2 i) (i : ℕ) : 0 ≤ getZ (mixture n nodes c) i := by
  rw [mixture_getZ]
  split
  · apply mul_nonneg _ hc
    apply List.sum_nonneg
    intro x hx
    obtain ⟨nd, hnd, rfl⟩ := List.mem_map.mp hx
    exact mul_nonneg (hd nd hnd i) (hw nd hnd)
  · exact le_rfl

/-- **mixture_law** — for ANY quadrature weights `w_z ≥ 0` with `c·Σ w_z = 1` the mixture of per-node laws is a law:
non-negative, mass one, mean `c·Σ_z w_z·mean_z`. -/
theorem mixture_law (n : ℕ) (nodes : List (ℝ × List ℝ)) (c : ℝ) (hc : 0 ≤ c) (hw : ∀ nd ∈ nodes, 0 ≤ nd.1)
    (hq : c * (nodes.map (·.1)).sum = 1)
    (hd : ∀ nd ∈ nodes, ∀ i, 0 ≤ getZ nd.2 i) (h1 : ∀ nd ∈ nodes, ∑ i ∈ range n, getZ nd.2 i = 1) :
    (∀ i, 0 ≤ getZ (mixture n nodes c) i) ∧ (mixture n nodes c).sum = 1 ∧
    ∑ i ∈ range n, (i : ℝ) * getZ (mixture n nodes c) i
      = c * (nodes.map fun nd => nd.1 * ∑ i ∈ range n, (i : ℝ) * getZ nd.2 i).sum :=
  ⟨mixture_nonneg n nodes c hc hw hd, by rw [mixture_mass_of_unit_nodes n nodes c h1, hq], mixture_mean n nodes c⟩

theorem probsOK_mkCredits (ps : List ℝ) (units : List (ℕ × ℕ)) (h : ∀ p ∈ ps, 0 ≤ p ∧ p ≤ 1) :
    ProbsOK (mkCredits ps units) := by
  intro c hc
  unfold mkCredits at hc
  obtain ⟨i, hi, rfl⟩ := List.getElem_of_mem hc
  simp only [List.getElem_zipWith]
  exact h _ (List.getElem_mem _)

theorem condProbs_mem (Nf sqrtf : ℝ → ℝ) (thr betas : List ℝ) (z : ℝ) (hN : ∀ x, 0 ≤ Nf x ∧ Nf x ≤ 1) :
    ∀ p ∈ condProbs Nf sqrtf thr betas z, 0 ≤ p ∧ p ≤ 1 := by
  intro p hp
  unfold condProbs at hp
  obtain ⟨i, hi, rfl⟩ := List.getElem_of_mem hp
  simp only [List.getElem_zipWith]
  exact hN _

/-- **gc_nonneg** — the Gaussian one-factor loss distribution has no negative entry, for any correlation, as soon as the
applied `N` takes values in [0,1] and the weights `exp(·)` are non-negative. -/
theorem gc_nonneg (Nf sqrtf expf : ℝ → ℝ) (thr betas : List ℝ) (units : List (ℕ × ℕ)) (z0 dz c : ℝ) (steps : ℕ)
    (hc : 0 ≤ c) (hN : ∀ x, 0 ≤ Nf x ∧ Nf x ≤ 1) (he : ∀ x, 0 ≤ expf x) (i : ℕ) :
    0 ≤ getZ (lossDbnGC Nf sqrtf expf thr betas units z0 dz c steps) i := by
  unfold lossDbnGC
  apply mixture_nonneg _ _ _ hc
  · intro nd hnd
    simp only [gcNodes, List.mem_map] at hnd
    obtain ⟨z, _, rfl⟩ := hnd
    exact he _
  · intro nd hnd j
    simp only [gcNodes, List.mem_map] at hnd
    obtain ⟨z, _, rfl⟩ := hnd
    exact getZ_nonneg_of_mem _ (recursion_nonneg _ (probsOK_mkCredits _ _ (condProbs_mem Nf sqrtf thr betas z hN))) j

/-- **gc_mass_one** — the copula distribution sums to one exactly when the scalar quadrature of the factor density does:
hypothesis `c·Σₖ exp(-zₖ²/2) = 1` on the code's own nodes (checked numerically by the harness to 2e-8). -/
theorem gc_mass_one (Nf sqrtf expf : ℝ → ℝ) (thr betas : List ℝ) (units : List (ℕ × ℕ)) (z0 dz c : ℝ)
    (steps : ℕ) (hl : thr.length = betas.length) (hl2 : thr.length = units.length) (hne : units ≠ [])
    (hu : ∀ u ∈ units, u.2 = u.1)
    (hq : c * ((zNodes z0 dz steps).map fun z => expf (-(z * z) / 2)).sum = 1) :
    (lossDbnGC Nf sqrtf expf thr betas units z0 dz c steps).sum = 1 := by
  rw [gc_mass Nf sqrtf expf thr betas units z0 dz c steps hl hl2 hne hu, hq]

theorem zipWith_units_sum (l : List ℝ) (us : List (ℕ × ℕ)) (h : l.length = us.length) :
    (List.zipWith (fun p u => p * ((u.2 : ℕ) : ℝ)) l us).sum
      = ∑ i ∈ range us.length, getZ l i * (((us.getD i (0, 0)).2 : ℕ) : ℝ) := by
  induction l generalizing us with
  | nil => cases us with
    | nil => simp
    | cons u us => simp at h
  | cons a l ih => cases us with
    | nil => simp at h
    | cons u us =>
      simp only [List.zipWith_cons_cons, List.sum_cons, List.length_cons]
      rw [Finset.sum_range_succ', ih us (by simpa using h)]
      simp [getZ, add_comm]

/-- **gc_mean_regardless_of_correlation** — if for every credit the quadrature of its conditional default probability over
the code's own nodes and weights returns the unconditional probability, `c·Σₖ wₖ·pᵢ(zₖ) = pᵢ` (the tower property on the
grid; checked numerically by the harness), then the mean of the copula loss distribution is `Σ pᵢ·uᵢ` whatever the betas. -/
theorem gc_mean_regardless_of_correlation (Nf sqrtf expf : ℝ → ℝ) (thr betas ps : List ℝ) (units : List (ℕ × ℕ))
    (z0 dz c : ℝ) (steps : ℕ) (hl : thr.length = betas.length) (hl2 : thr.length = units.length)
    (hl3 : ps.length = units.length) (hne : units ≠ []) (hu : ∀ u ∈ units, u.2 = u.1)
    (hq : ∀ i, i < units.length →
      c * ((zNodes z0 dz steps).map fun z => expf (-(z * z) / 2) * getZ (condProbs Nf sqrtf thr betas z) i).sum
        = getZ ps i) :
    ∑ i ∈ range (1 + (units.map (·.1)).sum),
        (i : ℝ) * getZ (lossDbnGC Nf sqrtf expf thr betas units z0 dz c steps) i
      = (List.zipWith (fun p u => p * ((u.2 : ℕ) : ℝ)) ps units).sum := by
  rw [gc_mean Nf sqrtf expf thr betas units z0 dz c steps hl hl2 hne hu, zipWith_units_sum ps units hl3]
  have hlen : ∀ z, (condProbs Nf sqrtf thr betas z).length = units.length := by
    intro z; rw [condProbs_length _ _ _ _ _ hl, hl2]
  have h1 : ∀ z ∈ zNodes z0 dz steps, expf (-(z * z) / 2) *
        (List.zipWith (fun p u => p * ((u.2 : ℕ) : ℝ)) (condProbs Nf sqrtf thr betas z) units).sum
      = ∑ i ∈ range units.length,
          expf (-(z * z) / 2) * getZ (condProbs Nf sqrtf thr betas z) i * (((units.getD i (0, 0)).2 : ℕ) : ℝ) := by
    intro z _
    rw [zipWith_units_sum _ units (hlen z), Finset.mul_sum]
    exact Finset.sum_congr rfl (fun i _ => by ring)
  rw [List.map_congr_left h1,
    ← sum_list_sum_comm ℝ (zNodes z0 dz steps) units.length
      (fun z i => expf (-(z * z) / 2) * getZ (condProbs Nf sqrtf thr betas z) i * (((units.getD i (0, 0)).2 : ℕ) : ℝ)),
    Finset.mul_sum]
  apply Finset.sum_congr rfl
  intro i hi
  rw [← hq i (Finset.mem_range.mp hi), List.sum_map_mul_right]; ring

/-! ### the tranche loss function -/

/-- **trancheLoss_eq_minmax** — the coded `min(L,k2) - min(L,k1)` is the textbook `min(max(L-k1,0), k2-k1)`. -/
theorem trancheLoss_eq_minmax (L k1 k2 : ℝ) (h : k1 ≤ k2) :
    trancheLoss L k1 k2 = min (max (L - k1) 0) (k2 - k1) := by
  unfold trancheLoss
  simp only [min_def, max_def]
  split_ifs <;> linarith

/-- **trancheLoss_bounds** — between 0 and the width. -/
theorem trancheLoss_bounds (L k1 k2 : ℝ) (h : k1 ≤ k2) :
    0 ≤ trancheLoss L k1 k2 ∧ trancheLoss L k1 k2 ≤ k2 - k1 := by
  unfold trancheLoss
  simp only [min_def]
  split_ifs <;> constructor <;> linarith

/-- **trancheLoss_mono** — non-decreasing in the portfolio loss. -/
theorem trancheLoss_mono (L L' k1 k2 : ℝ) (h : k1 ≤ k2) (hL : L ≤ L') :
    trancheLoss L k1 k2 ≤ trancheLoss L' k1 k2 := by
  unfold trancheLoss
  simp only [min_def]
  split_ifs <;> linarith

/-- **partitionLoss_telescope** — pointwise in the loss, for ANY list of attachment points. -/
theorem partitionLoss_telescope (L k0 : ℝ) (ks : List ℝ) :
    partitionLoss L (k0 :: ks) = min L ((k0 :: ks).getLast (by simp)) - min L k0 := by
  induction ks generalizing k0 with
  | nil => simp [partitionLoss]
  | cons k ks ih =>
    rw [partitionLoss, ih]
    simp only [List.getLast_cons_cons, trancheLoss]
    ring

/-- **partitionLoss_adds_up** — `Σⱼ trancheⱼ(L) = min(L, k_top)` for a partition starting at 0 and a loss `L ≥ 0`; it is
`L` itself as soon as the top attachment point is at or above `L`. -/
theorem partitionLoss_adds_up (L : ℝ) (ks : List ℝ) (hL : 0 ≤ L) :
    partitionLoss L (0 :: ks) = min L ((0 :: ks).getLast (by simp)) ∧
    (L ≤ (0 :: ks).getLast (by simp) → partitionLoss L (0 :: ks) = L) := by
  rw [partitionLoss_telescope, min_eq_right hL, sub_zero]
  exact ⟨rfl, fun h => min_eq_left h⟩

/-- the tranche expected loss is the expectation of the tranche loss function -/
theorem trancheEL_eq_expect (k1 k2 gcd : ℝ) (dbn : List ℝ) (m : ℕ) :
    trancheEL k1 k2 gcd dbn m = ∑ i ∈ range m, trancheLoss ((i : ℝ) * gcd) k1 k2 * getZ dbn i := by
  rw [trancheEL_eq]; rfl

/-- **partitionEL_eq_expect** — linearity: the width-weighted sum of the tranche expected losses is the expectation of the
pointwise sum of the tranche loss functions (any array, any attachment points). -/
theorem partitionEL_eq_expect (gcd : ℝ) (dbn : List ℝ) (m : ℕ) (ks : List ℝ) :
    partitionEL gcd dbn m ks = ∑ i ∈ range m, partitionLoss ((i : ℝ) * gcd) ks * getZ dbn i := by
  induction ks with
  | nil => simp [partitionEL, partitionLoss]
  | cons k0 ks ih =>
    cases ks with
    | nil => simp [partitionEL, partitionLoss]
    | cons k1 ks =>
      rw [partitionEL, ih, trancheEL_eq_expect, ← Finset.sum_add_distrib]
      apply Finset.sum_congr rfl
      intro i _
      rw [partitionLoss]; ring

/-! ### nth-to-default: tails of the loss distribution -/

/-- probability of at least `n` defaults among `N` names, read off the array: `Σ_{i=n}^{N} dbn[i]` -/
noncomputable def tailProb (d : List ℝ) (n N : ℕ) : ℝ := ∑ i ∈ Ico n (N + 1), getZ d i

/-- **basketSurv_eq** — the loop of `CDSBasket.value_1f_gaussian_homo` computes `1 - P(at least n defaults)`. -/
theorem basketSurv_eq (d : List ℝ) (n N : ℕ) : basketSurv d n N = 1 - tailProb d n N := by
  have hf : ∀ (l : List ℕ) (a : ℝ),
      l.foldl (fun acc i => acc - getZ d (i + n)) a = a - (l.map fun i => getZ d (i + n)).sum := by
    intro l
    induction l with
    | nil => intro a; simp
    | cons x l ih => intro a; simp only [List.foldl_cons, List.map_cons, List.sum_cons]; rw [ih]; ring
  simp only [basketSurv, getA_toArray, List.foldl_map]
  rw [hf, sum_range_map, tailProb, Finset.sum_Ico_eq_sum_range]
  congr 1
  exact Finset.sum_congr rfl (fun i _ => by rw [add_comm])

/-- **tailProb_antitone** — for ANY non-negative array the probability of at least `n` defaults is non-increasing in `n`. -/
theorem tailProb_antitone (d : List ℝ) (hnn : ∀ i, 0 ≤ getZ d i) (n n' N : ℕ) (h : n ≤ n') :
    tailProb d n' N ≤ tailProb d n N := by
  unfold tailProb
  exact Finset.sum_le_sum_of_subset_of_nonneg (Finset.Ico_subset_Ico_left h) (fun i _ _ => hnn i)

/-- **basketSurv_mono_in_n** — the nth-to-default basket survival probability is non-decreasing in `n` at every date
(so the basket's default leg, hence its spread, can only decrease in `n`). -/
theorem basketSurv_mono_in_n (d : List ℝ) (hnn : ∀ i, 0 ≤ getZ d i) (n n' N : ℕ) (h : n ≤ n') :
    basketSurv d n N ≤ basketSurv d n' N := by
  rw [basketSurv_eq, basketSurv_eq]
  have := tailProb_antitone d hnn n n' N h
  linarith

/-- **basketSurv_unit_interval** — a survival probability, for any non-negative sub-probability array. -/
theorem basketSurv_unit_interval (d : List ℝ) (hnn : ∀ i, 0 ≤ getZ d i) (n N : ℕ)
    (hmass : ∑ i ∈ range (N + 1), getZ d i ≤ 1) : 0 ≤ basketSurv d n N ∧ basketSurv d n N ≤ 1 := by
  rw [basketSurv_eq]
  have h0 : 0 ≤ tailProb d n N := Finset.sum_nonneg (fun i _ => hnn i)
  have h1 : tailProb d n N ≤ ∑ i ∈ range (N + 1), getZ d i := by
    unfold tailProb
    apply Finset.sum_le_sum_of_subset_of_nonneg _ (fun i _ _ => hnn i)
    intro i hi
    simp only [Finset.mem_Ico] at hi
    exact Finset.mem_range.mpr hi.2
  constructor <;> linarith

/-- **basketSurv_first_to_default** — with mass one the first-to-default survival probability is the probability of no
default, `dbn[0]`. -/
theorem basketSurv_first_to_default (d : List ℝ) (N : ℕ) (hmass : ∑ i ∈ range (N + 1), getZ d i = 1) :
    basketSurv d 1 N = getZ d 0 := by
  rw [basketSurv_eq, tailProb]
  rw [Finset.sum_range_succ'] at hmass
  have : ∑ i ∈ Ico 1 (N + 1), getZ d i = ∑ i ∈ range N, getZ d (i + 1) := by
    rw [Finset.sum_Ico_eq_sum_range]
    simp only [Nat.add_sub_cancel]
    exact Finset.sum_congr rfl (fun i _ => by rw [add_comm])
  rw [this]; linarith

/-! ### expectations are monotone under tail dominance (tranche EL non-decreasing in time) -/

theorem expect_ge_of_tails (f e : ℕ → ℝ) (m : ℕ) (hf : ∀ i, i + 1 < m → f i ≤ f (i + 1))
    (hE : ∀ k, 0 < k → k < m → 0 ≤ ∑ i ∈ Ico k m, e i) :
    ∀ n, n ≤ m → f (m - n) * ∑ i ∈ Ico (m - n) m, e i ≤ ∑ i ∈ Ico (m - n) m, f i * e i := by
  intro n
  induction n with
  | zero => intro _; simp
  | succ n ih =>
    intro hn
    have hj : m - (n + 1) < m := by omega
    have e1 : m - (n + 1) + 1 = m - n := by omega
    rw [Finset.sum_eq_sum_Ico_succ_bot hj, Finset.sum_eq_sum_Ico_succ_bot hj (f := fun i => f i * e i), e1]
    have ih' := ih (by omega)
    by_cases hn0 : n = 0
    · subst hn0; simp
    · have hE' := hE (m - n) (by omega) (by omega)
      have hf' := hf (m - (n + 1)) (by omega)
      rw [e1] at hf'
      nlinarith [mul_le_mul_of_nonneg_right hf' hE']

/-- **expect_mono_of_tail_dominance** — Abel summation: if two arrays have the same mass and every tail sum of `d'` is at
least that of `d` (first-order stochastic dominance), the expectation of any non-decreasing function is at least as large. -/
theorem expect_mono_of_tail_dominance (f d d' : ℕ → ℝ) (m : ℕ) (hf : ∀ i, i + 1 < m → f i ≤ f (i + 1))
    (hmass : ∑ i ∈ range m, d i = ∑ i ∈ range m, d' i)
    (hdom : ∀ k, 0 < k → k < m → ∑ i ∈ Ico k m, d i ≤ ∑ i ∈ Ico k m, d' i) :
    ∑ i ∈ range m, f i * d i ≤ ∑ i ∈ range m, f i * d' i := by
  have key := expect_ge_of_tails f (fun i => d' i - d i) m hf
    (by intro k h1 h2; rw [Finset.sum_sub_distrib]; linarith [hdom k h1 h2]) m le_rfl
  simp only [Nat.sub_self, ← Finset.range_eq_Ico] at key
  rw [Finset.sum_sub_distrib, hmass, sub_self, mul_zero] at key
  have h2 : ∑ i ∈ range m, f i * (d' i - d i) = ∑ i ∈ range m, f i * d' i - ∑ i ∈ range m, f i * d i := by
    rw [← Finset.sum_sub_distrib]
    exact Finset.sum_congr rfl (fun i _ => by ring)
  linarith

/-- **trancheEL_mono_of_dominance** — "non-decreasing in time": when the loss law at the later date dominates the earlier one
(same mass, larger tails — default probabilities only grow), every tranche expected loss is at least as large and every
tranche survival probability at most as large. -/
theorem trancheEL_mono_of_dominance (k1 k2 gcd : ℝ) (d d' : List ℝ) (m : ℕ) (hk : k1 < k2) (hg : 0 ≤ gcd)
    (hmass : ∑ i ∈ range m, getZ d i = ∑ i ∈ range m, getZ d' i)
    (hdom : ∀ k, 0 < k → k < m → ∑ i ∈ Ico k m, getZ d i ≤ ∑ i ∈ Ico k m, getZ d' i) :
    trancheEL k1 k2 gcd d m ≤ trancheEL k1 k2 gcd d' m ∧ trancheSurv k1 k2 gcd d' m ≤ trancheSurv k1 k2 gcd d m := by
  have h : trancheEL k1 k2 gcd d m ≤ trancheEL k1 k2 gcd d' m := by
    rw [trancheEL_eq_expect, trancheEL_eq_expect]
    apply expect_mono_of_tail_dominance (fun i => trancheLoss ((i : ℝ) * gcd) k1 k2) (getZ d) (getZ d') m _ hmass hdom
    intro i _
    apply trancheLoss_mono _ _ _ _ hk.le
    push_cast
    nlinarith
  refine ⟨h, ?_⟩
  have hw : 0 < k2 - k1 := by linarith
  have := div_le_div_of_nonneg_right h hw.le
  unfold trancheSurv
  linarith

/-! ### recursion = enumeration, written out for two credits -/

theorem enumLaw_two (c1 c2 : Credit ℝ) (i : ℕ) :
    enumLaw [c1, c2] i
      = (if i = 0 then (1 - c1.p) * (1 - c2.p) else 0) + (if i = c2.sh then (1 - c1.p) * c2.p else 0)
        + (if i = c1.sh then c1.p * (1 - c2.p) else 0) + (if i = c2.sh + c1.sh then c1.p * c2.p else 0) := by
  simp only [enumLaw, enumStates, List.map_cons, List.map_nil, List.cons_append, List.nil_append, List.sum_cons,
    List.sum_nil, zero_add, one_mul]
  split_ifs <;> ring

/-- **recursion_two_credits** — two names with any integer units `u₁, u₂`: the array entry `i` is
`(1-p₁)(1-p₂)[i=0] + (1-p₁)p₂[i=u₂] + p₁(1-p₂)[i=u₁] + p₁p₂[i=u₁+u₂]` — the four default states. -/
theorem recursion_two_credits (c1 c2 : Credit ℝ) (i : ℕ) (hi : i < arraySize [c1, c2]) :
    getZ (indepRecursion [c1, c2]) i
      = (if i = 0 then (1 - c1.p) * (1 - c2.p) else 0) + (if i = c2.sh then (1 - c1.p) * c2.p else 0)
        + (if i = c1.sh then c1.p * (1 - c2.p) else 0) + (if i = c2.sh + c1.sh then c1.p * c2.p else 0) := by
  rw [recursion_eq_enumeration [c1, c2] (by simp) i hi, enumLaw_two]

/-! ### non-vacuity -/

/-- a two-name portfolio with units 2 and 1: the invariant's hypotheses hold and the result is the explicit law -/
example : Fits [⟨1/4, 2, 2⟩, ⟨1/2, 1, 1⟩] ∧
    indepRecursion [(⟨1/4, 2, 2⟩ : Credit ℝ), ⟨1/2, 1, 1⟩] = [3/8, 3/8, 1/8, 1/8] := by
  constructor
  · simp [Fits, arraySize]
  · norm_num [indepRecursion, arraySize, step, unit, stepAt, getA, unitFn, List.range_succ]

/-- the partition 0 / 3% / 7% / 100% at a loss of 5% -/
example : partitionLoss (0.05 : ℝ) [0, 0.03, 0.07, 1] = 0.05 := by
  norm_num [partitionLoss, trancheLoss, min_def]

/-- second-to-default on a 2-name law -/
example : basketSurv ([1/2, 1/4, 1/4] : List ℝ) 2 2 = 3/4 := by
  norm_num [basketSurv, getA, List.range_succ]

end FinVerif.Props.C17
