/-
  C17 (part f) — the two loop-free scalar kernels, on the GENERATED text of the source (`Gen/CreditP.lean`, regenerated from
  `gauss_copula_onefactor.py` / `gauss_copula_lhp.py` on every run; `N`, `norminvcdf` and the bivariate normal `M` are
  parameters, so every statement holds for whatever those functions compute):

  * `gauss_approx_tranche_loss`: its degenerate branch (`|σ| < 1e-6`) IS the tranche loss function at `μ`:
    `min(μ,k2) - min(μ,k1) = min(max(μ-k1,0), k2-k1)` — in particular `k2 - k1` (not `k2`) above the tranche, `0` below,
    inside `[0, k2-k1]`, monotone in `μ`, and additive over any partition;
  * `exp_min_lk` (LHP): the boundary branches — `p(1-R)` for `k ≥ 1-R`, `0` at `k = 0` and at `p = 0`;
  * hence the LHP tranche survival probabilities `1 - (E[min(L,k2)] - E[min(L,k1)])/(k2-k1)` of ANY partition from 0 to at or
    above the maximal loss `1-R` add up (width-weighted) to the portfolio expected loss `p(1-R)` — for any correlation.
-/
import FinVerif.Gen.CreditP
import FinVerif.Props.C17e

namespace FinVerif.Props.C17
open FinVerif.Model.C17 FinVerif.Gen.CreditP

/-! ### Gaussian fit: the degenerate branch -/

/-- **gauss_approx_degenerate** — shape of the `|σ| < 1e-6` branch: `(μ-k1)⁺ - (μ-k2)⁺`. -/
theorem gauss_approx_degenerate (Ncdf : ℝ → ℝ) (k1 k2 mu sigma : ℝ) (hs : |sigma| < 1e-6) :
    gauss_approx_tranche_loss Ncdf k1 k2 mu sigma = max (mu - k1) 0 - max (mu - k2) 0 := by
  simp only [gauss_approx_tranche_loss, decide_eq_true_eq, gt_iff_lt, hs, if_true, max_def]
  split_ifs <;> linarith

/-- **gauss_approx_degenerate_eq_trancheLoss** — for `k1 ≤ k2` the degenerate branch is the tranche loss function at the
conditional mean: `min(μ,k2) - min(μ,k1) = min(max(μ-k1,0), k2-k1)`. -/
theorem gauss_approx_degenerate_eq_trancheLoss (Ncdf : ℝ → ℝ) (k1 k2 mu sigma : ℝ) (hs : |sigma| < 1e-6)
    (hk : k1 ≤ k2) :
    gauss_approx_tranche_loss Ncdf k1 k2 mu sigma = trancheLoss mu k1 k2 ∧
    gauss_approx_tranche_loss Ncdf k1 k2 mu sigma = min (max (mu - k1) 0) (k2 - k1) := by
  have h : gauss_approx_tranche_loss Ncdf k1 k2 mu sigma = trancheLoss mu k1 k2 := by
    rw [gauss_approx_degenerate Ncdf k1 k2 mu sigma hs]
    unfold trancheLoss
    simp only [min_def, max_def]
    split_ifs <;> linarith
  exact ⟨h, by rw [h, trancheLoss_eq_minmax mu k1 k2 hk]⟩

/-- **gauss_approx_degenerate_above** — conditional mean above the tranche: the whole width `k2 - k1` is lost (not `k2`). -/
theorem gauss_approx_degenerate_above (Ncdf : ℝ → ℝ) (k1 k2 mu sigma : ℝ) (hs : |sigma| < 1e-6) (hk : k1 ≤ k2)
    (hmu : k2 ≤ mu) : gauss_approx_tranche_loss Ncdf k1 k2 mu sigma = k2 - k1 := by
  rw [(gauss_approx_degenerate_eq_trancheLoss Ncdf k1 k2 mu sigma hs hk).1]
  unfold trancheLoss
  rw [min_eq_right hmu, min_eq_right (hk.trans hmu)]

/-- **gauss_approx_degenerate_below** — conditional mean below the tranche: nothing is lost. -/
theorem gauss_approx_degenerate_below (Ncdf : ℝ → ℝ) (k1 k2 mu sigma : ℝ) (hs : |sigma| < 1e-6) (hk : k1 ≤ k2)
    (hmu : mu ≤ k1) : gauss_approx_tranche_loss Ncdf k1 k2 mu sigma = 0 := by
  rw [(gauss_approx_degenerate_eq_trancheLoss Ncdf k1 k2 mu sigma hs hk).1]
  unfold trancheLoss
  rw [min_eq_left hmu, min_eq_left (hmu.trans hk), sub_self]

/-- **gauss_approx_degenerate_bounds** — inside `[0, k2-k1]`, and non-decreasing in the conditional mean. -/
theorem gauss_approx_degenerate_bounds (Ncdf : ℝ → ℝ) (k1 k2 mu mu' sigma sigma' : ℝ) (hs : |sigma| < 1e-6)
    (hs' : |sigma'| < 1e-6) (hk : k1 ≤ k2) (hmu : mu ≤ mu') :
    0 ≤ gauss_approx_tranche_loss Ncdf k1 k2 mu sigma ∧ gauss_approx_tranche_loss Ncdf k1 k2 mu sigma ≤ k2 - k1 ∧
    gauss_approx_tranche_loss Ncdf k1 k2 mu sigma ≤ gauss_approx_tranche_loss Ncdf k1 k2 mu' sigma' := by
  rw [(gauss_approx_degenerate_eq_trancheLoss Ncdf k1 k2 mu sigma hs hk).1,
    (gauss_approx_degenerate_eq_trancheLoss Ncdf k1 k2 mu' sigma' hs' hk).1]
  exact ⟨(trancheLoss_bounds mu k1 k2 hk).1, (trancheLoss_bounds mu k1 k2 hk).2, trancheLoss_mono mu mu' k1 k2 hk hmu⟩

/-- Σ over consecutive attachment points of the Gaussian-fit tranche loss at one node -/
noncomputable def gaussPartition (Ncdf : ℝ → ℝ) (mu sigma : ℝ) : List ℝ → ℝ
  | k1 :: k2 :: ks => gauss_approx_tranche_loss Ncdf k1 k2 mu sigma + gaussPartition Ncdf mu sigma (k2 :: ks)
  | _ => 0

/-- **gauss_approx_degenerate_partition** — at a degenerate node the tranche losses of ANY list of attachment points
telescope to `(μ-k_0)⁺ - (μ-k_top)⁺` (no ordering needed); from 0 with `0 ≤ μ ≤ k_top` that is `μ`: degenerate nodes
contribute exactly their conditional expected loss to the partition. -/
theorem gauss_approx_degenerate_partition (Ncdf : ℝ → ℝ) (mu sigma : ℝ) (hs : |sigma| < 1e-6) (k0 : ℝ) (ks : List ℝ) :
    gaussPartition Ncdf mu sigma (k0 :: ks)
      = max (mu - k0) 0 - max (mu - (k0 :: ks).getLast (by simp)) 0 := by
  induction ks generalizing k0 with
  | nil => simp [gaussPartition]
  | cons k ks ih =>
    rw [gaussPartition, ih, gauss_approx_degenerate Ncdf k0 k mu sigma hs]
    simp only [List.getLast_cons_cons]
    ring

theorem gauss_approx_degenerate_partition_adds_up (Ncdf : ℝ → ℝ) (mu sigma : ℝ) (hs : |sigma| < 1e-6) (ks : List ℝ)
    (h0 : 0 ≤ mu) (htop : mu ≤ (0 :: ks).getLast (by simp)) :
    gaussPartition Ncdf mu sigma (0 :: ks) = mu := by
  rw [gauss_approx_degenerate_partition Ncdf mu sigma hs, sub_zero, max_eq_left h0, max_eq_right (by linarith), sub_zero]

/-! ### LHP: boundary branches of `exp_min_lk` -/

/-- the guard the code applies to beta: exactly zero is replaced by `1e-10` -/
noncomputable def betaEff (beta : ℝ) : ℝ := if beta = 0 then 1e-10 else beta

/-- **exp_min_lk_boundary** — `E[min(L,k)] = p(1-R)` (the whole expected loss) for `k ≥ 1-R`, whatever `N`, `norminvcdf`,
`M` are. -/
theorem exp_min_lk_boundary (Ncdf Ninv : ℝ → ℝ) (Mbiv : ℝ → ℝ → ℝ → ℝ) (k p r n beta : ℝ) (hb : |betaEff beta| ≤ 1)
    (hp : p ≠ 0) (hk0 : k ≠ 0) (hk : 1 - r ≤ k) : exp_min_lk Ncdf Ninv Mbiv k p r n beta = p * (1 - r) := by
  unfold betaEff at hb
  simp only [exp_min_lk, decide_eq_true_eq, Int.cast_zero, gt_iff_lt, ge_iff_le, not_lt.mpr hb, hp, hk0, hk, if_true,
    if_false]

/-- **exp_min_lk_zero** — `E[min(L,0)] = 0` and `E[min(L,k)] = 0` for an empty default probability. -/
theorem exp_min_lk_zero (Ncdf Ninv : ℝ → ℝ) (Mbiv : ℝ → ℝ → ℝ → ℝ) (k p r n beta : ℝ) (h : k = 0 ∨ p = 0) :
    exp_min_lk Ncdf Ninv Mbiv k p r n beta = 0 := by
  simp only [exp_min_lk, decide_eq_true_eq]
  split_ifs <;> first | rfl | (rcases h with h | h <;> contradiction)

/-- the LHP tranche survival probability as coded: `exp_min_lk` of the generated text inside the last two lines of
`tr_surv_prob_lhp` -/
noncomputable def lhpSurv (Ncdf Ninv : ℝ → ℝ) (Mbiv : ℝ → ℝ → ℝ → ℝ) (p r beta k1 k2 : ℝ) : ℝ :=
  trSurvLhpCore (fun k => exp_min_lk Ncdf Ninv Mbiv k p r 1 beta) k1 k2

theorem partitionOfSurv_core_telescope (elk : ℝ → ℝ) (k0 : ℝ) (ks : List ℝ)
    (hd : (k0 :: ks).Pairwise (· ≠ ·)) :
    partitionOfSurv (trSurvLhpCore elk) (k0 :: ks) = elk ((k0 :: ks).getLast (by simp)) - elk k0 := by
  induction ks generalizing k0 with
  | nil => simp [partitionOfSurv]
  | cons k ks ih =>
    rw [partitionOfSurv, ih k (List.Pairwise.of_cons hd)]
    simp only [List.getLast_cons_cons, trSurvLhpCore]
    have hne : k - k0 ≠ 0 := by
      have := (List.pairwise_cons.mp hd).1 k List.mem_cons_self
      exact sub_ne_zero.mpr (Ne.symm this)
    field_simp
    ring

/-- **lhp_partition_adds_up** — LHP method, any correlation `|β| ≤ 1`, any `N`/`norminvcdf`/`M`: for distinct attachment
points `0 = k₀, k₁, …, k_top` with `k_top ≥ 1-R` (and `k_top ≠ 0`) the width-weighted tranche expected losses
`Σ (k_{j+1}-k_j)(1 - q_j)` equal the portfolio expected loss `p(1-R)`. -/
theorem lhp_partition_adds_up (Ncdf Ninv : ℝ → ℝ) (Mbiv : ℝ → ℝ → ℝ → ℝ) (p r beta : ℝ) (ks : List ℝ)
    (hb : |betaEff beta| ≤ 1) (hp : p ≠ 0) (hd : ((0 : ℝ) :: ks).Pairwise (· ≠ ·))
    (htop : 1 - r ≤ (0 :: ks).getLast (by simp)) (htop0 : (0 :: ks).getLast (by simp) ≠ 0) :
    partitionOfSurv (lhpSurv Ncdf Ninv Mbiv p r beta) (0 :: ks) = p * (1 - r) := by
  have : lhpSurv Ncdf Ninv Mbiv p r beta = trSurvLhpCore (fun k => exp_min_lk Ncdf Ninv Mbiv k p r 1 beta) := by
    funext k1 k2; rfl
  rw [this, partitionOfSurv_core_telescope _ 0 ks hd]
  rw [exp_min_lk_boundary Ncdf Ninv Mbiv _ p r 1 beta hb hp htop0 htop,
    exp_min_lk_zero Ncdf Ninv Mbiv 0 p r 1 beta (Or.inl rfl), sub_zero]

/-- with the recovery the code forms, `R = 1 - EL/p`, that is the portfolio expected loss itself -/
theorem lhp_recovery_identity (p el : ℝ) (hp : p ≠ 0) : p * (1 - (1 - el / p)) = el := by
  field_simp; ring

/-! ### non-vacuity -/

example : |(0 : ℝ)| < 1e-6 ∧ (0.03 : ℝ) ≤ 0.07 ∧ (0.07 : ℝ) ≤ 0.2 := by norm_num

/-- the seeded defect's witness: above the tranche the degenerate branch returns the width 0.04, not the detachment 0.07 -/
example (Ncdf : ℝ → ℝ) : gauss_approx_tranche_loss Ncdf 0.03 0.07 0.2 0 = 0.04 := by
  rw [gauss_approx_degenerate_above Ncdf 0.03 0.07 0.2 0 (by norm_num) (by norm_num) (by norm_num)]; norm_num

/-- the standard capital structure with R = 40%, beta = 0.5, p = 2%: hypotheses of `lhp_partition_adds_up` hold -/
example : |betaEff 0.5| ≤ 1 ∧ ((0 : ℝ) :: [0.03, 0.07, 0.1, 0.15, 0.3, 1]).Pairwise (· ≠ ·)
    ∧ (1 : ℝ) - 0.4 ≤ ((0 : ℝ) :: [0.03, 0.07, 0.1, 0.15, 0.3, 1]).getLast (by simp) := by
  refine ⟨?_, ?_, ?_⟩
  · unfold betaEff; norm_num [abs_le]
  · simp only [List.pairwise_cons, List.mem_cons]; norm_num
  · norm_num

end FinVerif.Props.C17
