/-
  C17 (part g) — the LOOPS of the loss-distribution builders.  `Gen/CreditLoopR.lean` is cut out of the source `for`
  statements on every run (`tools/py2lean/registry/creditloops.py`): loop headers, initial values, loop bodies as step
  functions, the index expressions of every array read and store, tails.  Here the hand-written folds of `Model/C17.lean`
  are proved to BE those loops:

  * `indep_loss_dbn_recursion_gcd`: `stepAt` / `step` = the two generated inner loops run on memory cells, the copy
    loop, the whole credit loop = `indepRecursion`, the size loop = `arraySize`, the initial store = `unit`;
    every generated index of the upper and copy loops is inside the array, the lower loop's exactly when shift ≤ size;
  * `loss_dbn_recursion_gcd`: conditional probabilities, node weight, node spacing and first node, node list, the
    accumulate and scale loops = `condProbs`, `zNodes`, `gcNodes`, `mixture`, `lossDbnGC`;
  * `tranche_surv_prob_recursion` / `_adj_binomial`: the expected-tranche-loss loop and the tail = `trancheEL`, `trancheSurv`;
    the step is the tranche loss function, so the loop inherits `trancheLoss_bounds`; the step-doubling rule.
-/
import FinVerif.Props.C17e
import FinVerif.Lemmas.C17Loop
import FinVerif.Gen.CreditLoopR

set_option linter.unusedSimpArgs false
set_option linter.unusedVariables false

namespace FinVerif.Props.C17
open FinVerif.Model.C17 FinVerif.Lemmas.C17 FinVerif.Gen.CreditLoopR

/-! ### `indep_loss_dbn_recursion_gcd`: headers, initial values -/

/-- C17 (tie, loop headers): the ranges the source spells. -/
theorem rec_ranges_are_generated (n loss m : Int) :
    rec_size_range n = (0, n) ∧ rec_credit_range n = (0, n) ∧ rec_lower_range loss = (0, loss) ∧
    rec_upper_range loss m = (loss, m) ∧ rec_copy_range m = (0, m) := ⟨rfl, rfl, rfl, rfl, rfl⟩

/-- C17 (tie, size loop): `arraySize` IS `num_loss_units = 1; for i in range(0, len(loss_units)): num_loss_units +=
int(loss_units[i])` with the generated init, header and body. -/
theorem arraySize_is_generated_loop (cs : List (Credit ℝ)) :
    ((arraySize cs : ℕ) : Int)
      = forRange (rec_size_range (cs.length : Int))
          (fun s i => rec_size_step s (((cs.getD i.toNat ⟨0, 0, 0⟩).sz : ℕ) : Int)) rec_size_init := by
  have h : ∀ (l : List (Credit ℝ)) (a : Int), l.foldl (fun s c => s + ((c.sz : ℕ) : Int)) a = a + (((l.map (·.sz)).sum : ℕ) : Int) := by
    intro l
    induction l with
    | nil => intro a; simp
    | cons c t ih => intro a; rw [List.foldl_cons, ih]; simp; ring
  simp only [rec_size_range, forRange_zero, rec_size_step, rec_size_init, Int.toNat_natCast]
  rw [foldl_range_getD (fun s (c : Credit ℝ) => s + ((c.sz : ℕ) : Int)) ⟨0, 0, 0⟩ cs 1, h]
  simp [arraySize]

/-- C17 (tie, initial distribution): `prev_dbn = zeros; prev_dbn[0] = 1.0` IS `unit`. -/
theorem unit_is_generated_init (n k : ℕ) (hk : k < n) :
    getZ (unit n : List ℝ) k = store (fun _ => (0 : ℝ)) rec_unit_init.1 rec_unit_init.2 (k : Int) := by
  simp only [unit, getZ_range_map, if_pos hk, unitFn, rec_unit_init, store]
  by_cases h : k = 0
  · subst h; simp
  · have : ((k : Int)) ≠ 0 := by exact_mod_cast h
    simp [h, Function.update_of_ne this]

/-- C17 (tie): the shift of a credit is `int(loss_units[i] + 1e-10)`, the size contribution `int(loss_units[i])`. -/
theorem rec_shift_arg_is_generated (l : ℝ) : rec_shift_arg rec_small l = l + 1e-10 := by
  simp [rec_shift_arg, rec_small]

/-! ### the three inner loops on memory cells -/

/-- `for i_loss_unit in range(0, loss): next_dbn[i_loss_unit] = prev_dbn[i_loss_unit] * (1.0 - p)` -/
noncomputable def genLower (p : ℝ) (loss : Int) (prev next : Mem ℝ) : Mem ℝ :=
  forRange (rec_lower_range loss)
    (fun a j => store a (rec_lower_idx j).2 (rec_lower_step p (prev (rec_lower_idx j).1))) next

/-- `for i_loss_unit in range(loss, num_loss_units): next_dbn[i] = prev_dbn[i - loss] * p + prev_dbn[i] * (1.0 - p)` -/
noncomputable def genUpper (p : ℝ) (loss n : Int) (prev next : Mem ℝ) : Mem ℝ :=
  forRange (rec_upper_range loss n)
    (fun a j => store a (rec_upper_idx j loss).2.2
      (rec_upper_step p (prev (rec_upper_idx j loss).1) (prev (rec_upper_idx j loss).2.1))) next

/-- `for i_loss_unit in range(0, num_loss_units): prev_dbn[i_loss_unit] = next_dbn[i_loss_unit]` -/
noncomputable def genCopy (n : Int) (next prev : Mem ℝ) : Mem ℝ :=
  forRange (rec_copy_range n) (fun a j => store a (rec_copy_idx j).2 (rec_copy_step (next (rec_copy_idx j).1))) prev

/-- the body of the credit loop on the pair `(prev_dbn, next_dbn)` -/
noncomputable def genCreditBody (n : Int) (p : ℝ) (loss : Int) (s : Mem ℝ × Mem ℝ) : Mem ℝ × Mem ℝ :=
  let next := genUpper p loss n s.1 (genLower p loss s.1 s.2)
  (genCopy n next s.1, next)

theorem genLower_spec (p : ℝ) (loss : Int) (prev next : Mem ℝ) :
    genLower p loss prev next = fun j => if 0 ≤ j ∧ j < loss then prev j * (1 - p) else next j := by
  simp only [genLower, rec_lower_range, rec_lower_idx, rec_lower_step]
  exact forRange_store 0 loss (fun j => prev j * (1 - p)) next

theorem genUpper_spec (p : ℝ) (loss n : Int) (prev next : Mem ℝ) :
    genUpper p loss n prev next
      = fun j => if loss ≤ j ∧ j < n then prev (j - loss) * p + prev j * (1 - p) else next j := by
  simp only [genUpper, rec_upper_range, rec_upper_idx, rec_upper_step]
  exact forRange_store loss n (fun j => prev (j - loss) * p + prev j * (1 - p)) next

theorem genCopy_spec (n : Int) (next prev : Mem ℝ) :
    genCopy n next prev = fun j => if 0 ≤ j ∧ j < n then next j else prev j := by
  simp only [genCopy, rec_copy_range, rec_copy_idx, rec_copy_step]
  exact forRange_store 0 n (fun j => next j) prev

/-- C17 (tie, one bucket): the hand model's `stepAt` IS the value the two generated inner loops leave in
`next_dbn[k]`, for every bucket inside the array, any shift and any previous content of `next_dbn`. An edit of a
range bound, of the offset `i_loss_unit - loss`, or of a factor in either body breaks this theorem. -/
theorem stepAt_is_generated_loops (p : ℝ) (sh n k : ℕ) (hk : k < n) (prev next : Mem ℝ) :
    stepAt (fun i : ℕ => prev (i : Int)) p sh k
      = genUpper p (sh : Int) (n : Int) prev (genLower p (sh : Int) prev next) (k : Int) := by
  rw [genUpper_spec, genLower_spec]
  unfold stepAt
  by_cases h : k < sh
  · have h1 : ¬ (((sh : Int)) ≤ (k : Int) ∧ (k : Int) < (n : Int)) := by omega
    have h2 : (0 : Int) ≤ (k : Int) ∧ (k : Int) < (sh : Int) := by omega
    simp only [if_pos h, if_neg h1, if_pos h2]
  · have h1 : ((sh : Int)) ≤ (k : Int) ∧ (k : Int) < (n : Int) := by omega
    have h3 : ((k - sh : ℕ) : Int) = (k : Int) - (sh : Int) := by omega
    simp only [if_neg h, if_pos h1, h3]

/-- C17 (tie, one credit): the hand model's `step` IS the array the generated lower and upper loops write. -/
theorem step_is_generated_loops (n : ℕ) (prevL : List ℝ) (c : Credit ℝ) (next : Mem ℝ) :
    step n prevL c
      = (List.range n).map
          (fun (k : ℕ) => genUpper c.p (c.sh : Int) (n : Int) (rd prevL) (genLower c.p (c.sh : Int) (rd prevL) next) (k : Int)) := by
  simp only [step, getA_toArray]
  apply List.map_congr_left
  intro k hk
  rw [← stepAt_is_generated_loops c.p c.sh n k (List.mem_range.mp hk)]
  rfl

/-- C17 (no out-of-range access, upper loop): every index the generated upper loop reads or stores is inside
`[0, num_loss_units)` for any non-negative shift. -/
theorem rec_upper_idx_in_range (loss n j : Int) (h0 : 0 ≤ loss) (hj : (rec_upper_range loss n).1 ≤ j ∧ j < (rec_upper_range loss n).2) :
    (0 ≤ (rec_upper_idx j loss).1 ∧ (rec_upper_idx j loss).1 < n) ∧
    (0 ≤ (rec_upper_idx j loss).2.1 ∧ (rec_upper_idx j loss).2.1 < n) ∧
    (0 ≤ (rec_upper_idx j loss).2.2 ∧ (rec_upper_idx j loss).2.2 < n) := by
  simp only [rec_upper_range, rec_upper_idx] at *
  omega

/-- C17 (no out-of-range access, copy loop). -/
theorem rec_copy_idx_in_range (n j : Int) (hj : (rec_copy_range n).1 ≤ j ∧ j < (rec_copy_range n).2) :
    (0 ≤ (rec_copy_idx j).1 ∧ (rec_copy_idx j).1 < n) ∧ (0 ≤ (rec_copy_idx j).2 ∧ (rec_copy_idx j).2 < n) := by
  simp only [rec_copy_range, rec_copy_idx] at *
  omega

/-- C17 (out-of-range access, lower loop): the generated lower loop stays inside the arrays exactly when the shift
`int(l + 1e-10)` does not exceed the array size `1 + Σ int(l)` — the source has no such guard (finding
`C17/gcd-not-a-gcd`: that path reads past the array). -/
theorem rec_lower_idx_in_range_iff (loss n : Int) (hn : 0 ≤ n) :
    (∀ j, (rec_lower_range loss).1 ≤ j ∧ j < (rec_lower_range loss).2 →
        (0 ≤ (rec_lower_idx j).1 ∧ (rec_lower_idx j).1 < n) ∧ (0 ≤ (rec_lower_idx j).2 ∧ (rec_lower_idx j).2 < n))
      ↔ loss ≤ n := by
  simp only [rec_lower_range, rec_lower_idx]
  constructor
  · intro h
    by_contra hc
    have := h n ⟨hn, by omega⟩
    omega
  · intro h j hj
    omega

/-! ### the whole credit loop -/

/-- `indep_loss_dbn_recursion_gcd` as the source spells it, on memory cells: generated initial store, generated
credit range, generated loop body (three generated inner loops), `return next_dbn`. -/
noncomputable def genRecursion (cs : List (Credit ℝ)) : Mem ℝ :=
  (forRange (rec_credit_range (cs.length : Int))
    (fun s i => genCreditBody ((arraySize cs : ℕ) : Int) (cs.getD (rec_credit_idx i).1.toNat ⟨0, 0, 0⟩).p
                  (((cs.getD (rec_credit_idx i).2.toNat ⟨0, 0, 0⟩).sh : ℕ) : Int) s)
    (store (fun _ => (0 : ℝ)) rec_unit_init.1 rec_unit_init.2, fun _ => (0 : ℝ))).2

theorem genCreditBody_sim (N : ℕ) (c : Credit ℝ) (s : Mem ℝ × Mem ℝ) (L : List ℝ)
    (h : ∀ k : ℕ, k < N → s.1 (k : Int) = getZ L k) (k : ℕ) (hk : k < N) :
    (genCreditBody (N : Int) c.p (c.sh : Int) s).1 (k : Int) = getZ (step N L c) k ∧
    (genCreditBody (N : Int) c.p (c.sh : Int) s).2 (k : Int) = getZ (step N L c) k := by
  have key : genUpper c.p (c.sh : Int) (N : Int) s.1 (genLower c.p (c.sh : Int) s.1 s.2) (k : Int) = getZ (step N L c) k := by
    rw [← stepAt_is_generated_loops c.p c.sh N k hk, step_getZ, if_pos hk]
    have := stepAt_congr_le (f := fun i : ℕ => s.1 (i : Int)) (g := getZ L) c.p c.sh k
      (fun j hj => h j (lt_of_le_of_lt hj hk))
    rw [this]; rfl
  refine ⟨?_, key⟩
  simp only [genCreditBody]
  rw [genCopy_spec]
  have hr : (0 : Int) ≤ (k : Int) ∧ (k : Int) < (N : Int) := by omega
  simp only [if_pos hr]
  exact key

theorem foldl_genCreditBody_sim (N : ℕ) (l : List (Credit ℝ)) (s : Mem ℝ × Mem ℝ) (L : List ℝ)
    (h : ∀ k : ℕ, k < N → s.1 (k : Int) = getZ L k) :
    (∀ k : ℕ, k < N → (l.foldl (fun s c => genCreditBody (N : Int) c.p (c.sh : Int) s) s).1 (k : Int)
        = getZ (l.foldl (step N) L) k) ∧
    (l ≠ [] → ∀ k : ℕ, k < N → (l.foldl (fun s c => genCreditBody (N : Int) c.p (c.sh : Int) s) s).2 (k : Int)
        = getZ (l.foldl (step N) L) k) := by
  induction l generalizing s L with
  | nil => exact ⟨by simpa using h, by intro hne; exact absurd rfl hne⟩
  | cons c t ih =>
    have h1 : ∀ k : ℕ, k < N → (genCreditBody (N : Int) c.p (c.sh : Int) s).1 (k : Int) = getZ (step N L c) k :=
      fun k hk => (genCreditBody_sim N c s L h k hk).1
    obtain ⟨ia, ib⟩ := ih (genCreditBody (N : Int) c.p (c.sh : Int) s) (step N L c) h1
    refine ⟨by simpa using ia, ?_⟩
    intro _ k hk
    cases t with
    | nil => simpa using (genCreditBody_sim N c s L h k hk).2
    | cons c2 t2 => simpa using ib (by simp) k hk

/-- C17 (tie, whole function): the hand model `indepRecursion` IS the generated program — generated initial store,
`for i_credit in range(0, num_credits)` over the generated body with its three generated inner loops, `return next_dbn`
— for every portfolio, every probabilities and every loss units (an empty portfolio returns the untouched zeros). -/
theorem indepRecursion_is_generated_loop (cs : List (Credit ℝ)) :
    indepRecursion cs = (List.range (arraySize cs)).map (fun (k : ℕ) => genRecursion cs (k : Int)) := by
  have hfold : ∀ s : Mem ℝ × Mem ℝ,
      forRange (rec_credit_range (cs.length : Int))
        (fun s i => genCreditBody ((arraySize cs : ℕ) : Int) (cs.getD (rec_credit_idx i).1.toNat ⟨0, 0, 0⟩).p
                  (((cs.getD (rec_credit_idx i).2.toNat ⟨0, 0, 0⟩).sh : ℕ) : Int) s) s
      = cs.foldl (fun s c => genCreditBody ((arraySize cs : ℕ) : Int) c.p (c.sh : Int) s) s := by
    intro s
    simp only [rec_credit_range, rec_credit_idx, forRange_zero, Int.toNat_natCast]
    exact foldl_range_getD (fun s (c : Credit ℝ) => genCreditBody ((arraySize cs : ℕ) : Int) c.p (c.sh : Int) s) ⟨0, 0, 0⟩ cs s
  unfold genRecursion
  rw [hfold]
  generalize hN : arraySize cs = N
  have hunit : ∀ k : ℕ, k < N →
      (store (fun _ => (0 : ℝ)) rec_unit_init.1 rec_unit_init.2, fun _ : Int => (0 : ℝ)).1 (k : Int) = getZ (unit N : List ℝ) k :=
    fun k hk => (unit_is_generated_init N k hk).symm
  obtain ⟨_, hb⟩ := foldl_genCreditBody_sim N cs _ (unit N) hunit
  cases cs with
  | nil =>
    simp only [indepRecursion, hN, zeros, List.foldl_nil]
    apply List.ext_getElem <;> simp
  | cons c t =>
    simp only [indepRecursion, hN]
    apply List.ext_getElem
    · have : ∀ (l : List (Credit ℝ)) (L : List ℝ), L.length = N → (l.foldl (step N) L).length = N := by
        intro l
        induction l with
        | nil => intro L hL; simpa using hL
        | cons x xs ih => intro L _; rw [List.foldl_cons]; exact ih _ (by simp [step])
      rw [this _ _ (by simp [unit])]; simp
    · intro i h1 h2
      have hi : i < N := by simpa using h2
      have := hb (by simp) i hi
      simp only [List.getElem_map, List.getElem_range]
      have hz : ∀ (L : List ℝ) (j : ℕ) (h : j < L.length), getZ L j = L[j] := by
        intro L j h; simp [getZ, List.getD_eq_getElem?_getD, List.getElem?_eq_getElem h]
      rw [this, hz _ _ h1]

/-! ### `loss_dbn_recursion_gcd`: nodes, weights, conditional probabilities -/

/-- C17 (tie): first node `MIN_Z = -6` and spacing `2|z|/steps`. -/
theorem gc_z_init_is_generated (steps : Int) : gc_z_init steps = (-6, 12 / (steps : ℝ)) := by
  simp only [gc_z_init, abs_neg, Prod.mk.injEq, true_and]
  norm_num [abs_of_pos]

/-- C17 (tie, node list): `zNodes` advances by the generated `z += dz` and has as many nodes as the generated range. -/
theorem zNodes_step_is_generated (z dz : ℝ) (k : ℕ) : zNodes z dz (k + 1) = z :: zNodes (gc_z_next z dz) dz k := rfl

theorem zNodes_length (z dz : ℝ) (k : ℕ) : (zNodes z dz k).length = ((gc_quad_range (k : Int)).2 - (gc_quad_range (k : Int)).1).toNat := by
  have : ∀ z, (zNodes z dz k).length = k := by
    induction k with
    | zero => intro z; rfl
    | succ k ih => intro z; simp [zNodes, ih]
  simp [this, gc_quad_range]

/-- C17 (tie, conditional default probabilities): entry `i` of `condProbs` IS the generated body of the inner loop
`N((thresholds[i] - beta*z)/sqrt(1 - beta*beta))`, with `beta = beta_vector[i]`. -/
theorem condProbs_is_generated (Ncdf : ℝ → ℝ) (thr betas : List ℝ) (z : ℝ) :
    condProbs Ncdf Real.sqrt thr betas z = List.zipWith (fun t b => gc_cond_step Ncdf z b t) thr betas := rfl

/-- C17 (tie): all three arrays of the conditional-probability loop are accessed at the loop index itself, and the
threshold loop stores `norminvcdf(default_probs[i])` at `i`. -/
theorem gc_indices_are_generated (i : Int) :
    gc_cond_idx i = (i, i, i) ∧ gc_thr_idx i = (i, i) ∧ gc_acc_idx i = (i, i) ∧ gc_scale_idx i = i ∧
    gc_cond_range i = (0, i) ∧ gc_thr_range i = (0, i) := ⟨rfl, rfl, rfl, rfl, rfl, rfl⟩

theorem gc_thr_step_is_generated (Ninv : ℝ → ℝ) (p : ℝ) : gc_thr_step Ninv p = Ninv p := rfl

/-- C17 (tie): the node weight of `gcNodes` IS the generated `gauss_wt = exp(-(z*z)/2)`. -/
theorem gcNodes_is_generated (Ncdf : ℝ → ℝ) (thr betas : List ℝ) (units : List (ℕ × ℕ)) (z0 dz : ℝ) (steps : ℕ) :
    gcNodes Ncdf Real.sqrt Real.exp thr betas units z0 dz steps
      = (zNodes z0 dz steps).map fun z =>
          (gc_weight z, indepRecursion (mkCredits (List.zipWith (fun t b => gc_cond_step Ncdf z b t) thr betas) units)) := rfl

/-- C17 (tie): `loss_dbn_recursion_gcd` sizes its array with the same init and the same body as the recursion it calls
(`for lu in loss_units: num_loss_units += int(lu)`), so the mixture and the conditional laws have the same length. -/
theorem gc_size_is_generated (s u : Int) :
    gc_size_init = 1 ∧ gc_size_step s u = s + u ∧ gc_size_init = rec_size_init ∧ gc_size_step s u = rec_size_step s u :=
  ⟨rfl, rfl, rfl, rfl⟩

/-! ### the accumulate and scale loops = `mixture` -/

/-- `for i_unit in range(0, num_loss_units): uncond_loss_dbn[i_unit] += indep_dbn[i_unit] * gauss_wt` -/
noncomputable def genAcc (n : Int) (wt : ℝ) (indep u : Mem ℝ) : Mem ℝ :=
  forRange (gc_acc_range n)
    (fun a i => store a (gc_acc_idx i).2 (gc_acc_step wt (a (gc_acc_idx i).2) (indep (gc_acc_idx i).1))) u

/-- `for i_unit in range(0, num_loss_units): uncond_loss_dbn[i_unit] *= INV_ROOT_2_PI * dz` -/
noncomputable def genScale (n : Int) (dz : ℝ) (u : Mem ℝ) : Mem ℝ :=
  forRange (gc_scale_range n) (fun a i => store a (gc_scale_idx i) (gc_scale_step dz (a (gc_scale_idx i)))) u

/-- the quadrature loop (per node: accumulate) followed by the scaling loop, from the all-zero array -/
noncomputable def genMixture (n : Int) (nodes : List (ℝ × List ℝ)) (dz : ℝ) : Mem ℝ :=
  genScale n dz (nodes.foldl (fun u nd => genAcc n nd.1 (rd nd.2) u) (fun _ => 0))

theorem genAcc_spec (n : Int) (wt : ℝ) (indep u : Mem ℝ) :
    genAcc n wt indep u = fun j => if 0 ≤ j ∧ j < n then u j + indep j * wt else u j := by
  simp only [genAcc, gc_acc_range, gc_acc_idx, gc_acc_step]
  exact forRange_inplace 0 n (fun x j => x + indep j * wt) u

theorem genScale_spec (n : Int) (dz : ℝ) (u : Mem ℝ) :
    genScale n dz u = fun j => if 0 ≤ j ∧ j < n then u j * (0.3989422804014327 * dz) else u j := by
  simp only [genScale, gc_scale_range, gc_scale_idx, gc_scale_step]
  exact forRange_inplace 0 n (fun x _ => x * (0.3989422804014327 * dz)) u

theorem foldl_genAcc (n k : ℕ) (hk : k < n) (nodes : List (ℝ × List ℝ)) (u : Mem ℝ) :
    (nodes.foldl (fun u nd => genAcc (n : Int) nd.1 (rd nd.2) u) u) (k : Int)
      = nodes.foldl (fun acc nd => acc + getZ nd.2 k * nd.1) (u (k : Int)) := by
  induction nodes generalizing u with
  | nil => rfl
  | cons nd t ih =>
    rw [List.foldl_cons, List.foldl_cons, ih, genAcc_spec]
    have hr : (0 : Int) ≤ (k : Int) ∧ (k : Int) < (n : Int) := by omega
    simp only [if_pos hr, rd_natCast]

/-- C17 (tie, mixture): the hand model `mixture` IS the generated accumulate loop run once per node followed by the
generated scale loop, started from zeros; the constant is `INV_ROOT_2_PI * dz` as generated. -/
theorem mixture_is_generated_loops (n : ℕ) (nodes : List (ℝ × List ℝ)) (dz : ℝ) :
    mixture n nodes (0.3989422804014327 * dz) = (List.range n).map (fun (k : ℕ) => genMixture (n : Int) nodes dz (k : Int)) := by
  simp only [mixture, getA_toArray, List.foldl_map]
  apply List.map_congr_left
  intro k hk
  have hk' : k < n := List.mem_range.mp hk
  have hr : (0 : Int) ≤ (k : Int) ∧ (k : Int) < (n : Int) := by omega
  simp only [genMixture, genScale_spec, if_pos hr]
  rw [foldl_genAcc n k hk']

/-- C17 (tie, whole quadrature): `lossDbnGC` at the generated first node, spacing and constant IS the generated
program: generated node list, generated conditional probabilities and weight per node, the (tied) recursion, the
generated accumulate and scale loops. -/
theorem lossDbnGC_is_generated_loops (Ncdf : ℝ → ℝ) (thr betas : List ℝ) (units : List (ℕ × ℕ)) (steps : ℕ) :
    lossDbnGC Ncdf Real.sqrt Real.exp thr betas units (gc_z_init (steps : Int)).1 (gc_z_init (steps : Int)).2
        (0.3989422804014327 * (gc_z_init (steps : Int)).2) steps
      = (List.range (1 + (units.map (·.1)).sum)).map (fun (k : ℕ) =>
          genMixture ((1 + (units.map (·.1)).sum : ℕ) : Int)
            ((zNodes (gc_z_init (steps : Int)).1 (gc_z_init (steps : Int)).2 steps).map fun z =>
              (gc_weight z, indepRecursion (mkCredits (List.zipWith (fun t b => gc_cond_step Ncdf z b t) thr betas) units)))
            (gc_z_init (steps : Int)).2 (k : Int)) := by
  unfold lossDbnGC
  rw [mixture_is_generated_loops, gcNodes_is_generated]

/-- C17 (on the generated step): accumulating a non-negative conditional law with a non-negative weight keeps a cell
non-negative, and so does the scaling for `dz ≥ 0` — the generated loops preserve `0 ≤ uncond_loss_dbn[i]`. -/
theorem gc_acc_step_nonneg (wt cur x : ℝ) (hw : 0 ≤ wt) (hc : 0 ≤ cur) (hx : 0 ≤ x) : 0 ≤ gc_acc_step wt cur x := by
  simp only [gc_acc_step]; positivity

theorem gc_scale_step_nonneg (dz cur : ℝ) (hd : 0 ≤ dz) (hc : 0 ≤ cur) : 0 ≤ gc_scale_step dz cur := by
  simp only [gc_scale_step]; positivity

/-! ### the expected-tranche-loss loops -/

/-- C17 (tie, one iteration): the generated body adds `trancheLoss(i·gcd, k1, k2) · loss_dbn[i]`. -/
theorem trr_el_step_is_generated (k1 k2 gcd el : ℝ) (i : Int) (d : ℝ) :
    trr_el_step k1 k2 gcd el i d = el + trancheLoss ((i : ℝ) * gcd) k1 k2 * d ∧
    tra_el_step k1 k2 gcd el i d = el + trancheLoss ((i : ℝ) * gcd) k1 k2 * d := ⟨rfl, rfl⟩

/-- C17 (tie, whole loop): `trancheEL` IS `tranche_el = 0.0; for i_loss_unit in range(0, int(num_loss_units)): <generated
body>` reading `loss_dbn[i_loss_unit]`. -/
theorem trancheEL_is_generated_loop (k1 k2 gcd : ℝ) (dbn : List ℝ) (m : ℕ) :
    trancheEL k1 k2 gcd dbn m
      = forRange (trr_el_range (m : Int)) (fun el i => trr_el_step k1 k2 gcd el i (rd dbn (trr_el_idx i))) trr_el_init := by
  simp only [trancheEL, sumL, List.foldl_map, getA_toArray, trr_el_range, forRange_zero, trr_el_step, trr_el_idx,
    trr_el_init, rd_natCast, Int.cast_natCast]

/-- the same loop in `tranche_surv_prob_adj_binomial`, over `range(0, num_credits + 1)` -/
theorem trancheEL_is_generated_loop_ab (k1 k2 avg : ℝ) (dbn : List ℝ) (numCredits : ℕ) :
    trancheEL k1 k2 avg dbn (numCredits + 1)
      = forRange (tra_el_range (tra_el_size (numCredits : Int)))
          (fun el i => tra_el_step k1 k2 avg el i (rd dbn (tra_el_idx i))) tra_el_init := by
  have h : tra_el_size (numCredits : Int) = ((numCredits + 1 : ℕ) : Int) := by simp [tra_el_size]
  rw [h]
  simp only [trancheEL, sumL, List.foldl_map, getA_toArray, tra_el_range, forRange_zero, tra_el_step, tra_el_idx,
    tra_el_init, rd_natCast, Int.cast_natCast]

/-- C17 (tie, tail): `trancheSurv` IS the generated loop followed by the generated `q = 1.0 - tranche_el / (k2 - k1)`. -/
theorem trancheSurv_is_generated (k1 k2 gcd : ℝ) (dbn : List ℝ) (m : ℕ) :
    trancheSurv k1 k2 gcd dbn m
      = trr_tail k1 k2 (forRange (trr_el_range (m : Int))
          (fun el i => trr_el_step k1 k2 gcd el i (rd dbn (trr_el_idx i))) trr_el_init) ∧
    trancheSurv k1 k2 gcd dbn m = tra_tail k1 k2 (trancheEL k1 k2 gcd dbn m) := by
  rw [← trancheEL_is_generated_loop]
  exact ⟨rfl, rfl⟩

/-- C17 (on the generated step): with `k1 ≤ k2` and a non-negative probability the accumulator never decreases and
grows by at most `(k2 - k1)·loss_dbn[i]` per iteration. -/
theorem trr_el_step_monotone (k1 k2 gcd el : ℝ) (i : Int) (d : ℝ) (hk : k1 ≤ k2) (hd : 0 ≤ d) :
    el ≤ trr_el_step k1 k2 gcd el i d ∧ trr_el_step k1 k2 gcd el i d ≤ el + (k2 - k1) * d := by
  rw [(trr_el_step_is_generated k1 k2 gcd el i d).1]
  obtain ⟨h0, h1⟩ := trancheLoss_bounds ((i : ℝ) * gcd) k1 k2 hk
  constructor
  · nlinarith
  · nlinarith

/-- C17 (on the generated text): the recursion method doubles the number of quadrature steps exactly when the mean
beta exceeds 0.8 (strictly). -/
theorem trr_steps_is_generated (msum : ℝ) (nb steps : Int) :
    trr_steps msum nb steps = if msum / (nb : ℝ) > 0.8 then steps * 2 else steps := by
  simp only [trr_steps, decide_eq_true_eq]

/-- C17 (tie): the mean-beta accumulator starts at 0 and adds `beta_vector[i]`. -/
theorem trr_m_is_generated (m b : ℝ) (n i : Int) :
    trr_m_init = 0 ∧ trr_m_step m b = m + b ∧ trr_m_range n = (0, n) ∧ trr_m_idx i = i := ⟨rfl, rfl, rfl, rfl⟩

example : ∃ (p : ℝ) (sh n k : ℕ), k < n := ⟨0.3, 1, 3, 2, by norm_num⟩

end FinVerif.Props.C17
