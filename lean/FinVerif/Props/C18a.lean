/-
C18 — results depend only on the arguments: the read/write discipline implies history independence.

Generic part (proved once, for every store, every pool of objects, every finite history):

  * `result_independent_of_history`   a call whose read-before-write set is disjoint from everything the
                                       history may write returns what it returns on the initial store;
  * `discipline_sound`                if every call of a universe reads only immutable locations, then for EVERY
                                       finite history over that universe the last result equals the result on
                                       freshly constructed objects;
  * `discipline_sound_all`            … and so does every intermediate result of the history;
  * `rewrite_idempotent`              a call that recomputes attributes from locations it does not write leaves
                                       the same values when it runs again (derived tables: swap-leg schedules);
  * `summary_discipline_sound`        the bridge to the GENERATED data: calls that conform to effect summaries
                                       which pass the decidable check `disciplinedB` form a disciplined universe,
                                       for any pool of objects of any classes.
-/
import FinVerif.Model.C18

set_option linter.unusedVariables false
set_option linter.unusedSectionVars false

namespace FinVerif.Props.C18
open FinVerif.C18

section Store
variable {Loc Val Res : Type} [DecidableEq Loc] [Inhabited Val]

theorem exec_frame (c : Call Loc Val Res) (s : Loc → Val) (l : Loc) (h : l ∉ c.writes) :
    (exec c s).2 l = s l := by
  simp [exec, h]

theorem exec_result_congr (c : Call Loc Val Res) (s₁ s₂ : Loc → Val) (h : ∀ l ∈ c.reads, s₁ l = s₂ l) :
    (exec c s₁).1 = (exec c s₂).1 := by
  have hm : mask c.reads s₁ = mask c.reads s₂ := by
    funext l
    by_cases hl : l ∈ c.reads
    · simp [mask, hl, h l hl]
    · simp [mask, hl]
  simp [exec, hm]

theorem runHist_frame (hist : List (Call Loc Val Res)) (s : Loc → Val) (l : Loc)
    (h : ∀ c ∈ hist, l ∉ c.writes) : runHist hist s l = s l := by
  induction hist generalizing s with
  | nil => rfl
  | cons c rest ih =>
    have h1 : l ∉ c.writes := h c (List.mem_cons_self ..)
    have h2 : ∀ c' ∈ rest, l ∉ c'.writes := fun c' hc' => h c' (List.mem_cons_of_mem _ hc')
    show runHist rest (exec c s).2 l = s l
    rw [ih _ h2, exec_frame c s l h1]

/-- C18 (core lemma): what the history may write and what the call may read before writing are disjoint ⇒
the call returns what it returns on the initial store. -/
theorem result_independent_of_history (init : Loc → Val) (hist : List (Call Loc Val Res)) (c : Call Loc Val Res)
    (h : ∀ l ∈ c.reads, ∀ c' ∈ hist, l ∉ c'.writes) :
    resultAfter hist c init = (exec c init).1 := by
  unfold resultAfter
  exact exec_result_congr c _ _ (fun l hl => runHist_frame hist init l (h l hl))

/-- C18 `discipline_sound`: if every call of the universe `U` reads (before writing) only locations that no call
of `U` may write, then for every finite history over `U`, over any store (any pool of objects), the result of
the last call equals its result on the freshly constructed objects. -/
theorem discipline_sound (U : List (Call Loc Val Res)) (hU : ∀ c ∈ U, Disciplined U c)
    (init : Loc → Val) (hist : List (Call Loc Val Res)) (hsub : ∀ c ∈ hist, c ∈ U)
    (c : Call Loc Val Res) (hc : c ∈ U) :
    resultAfter hist c init = (exec c init).1 :=
  result_independent_of_history init hist c (fun l hl c' hc' => hU c hc l hl c' (hsub c' hc'))

/-- … and every result along the history is the fresh result. -/
theorem discipline_sound_all (U : List (Call Loc Val Res)) (hU : ∀ c ∈ U, Disciplined U c)
    (init : Loc → Val) (hist : List (Call Loc Val Res)) (hsub : ∀ c ∈ hist, c ∈ U) :
    allResults hist init = hist.map (fun c => (exec c init).1) := by
  suffices H : ∀ s : Loc → Val, (∀ l, Immutable U l → s l = init l) →
      allResults hist s = hist.map (fun c => (exec c init).1) from H init (fun _ _ => rfl)
  induction hist with
  | nil => intro s _; rfl
  | cons c rest ih =>
    intro s hs
    have hc : c ∈ U := hsub c (List.mem_cons_self ..)
    have hrest : ∀ c' ∈ rest, c' ∈ U := fun c' h => hsub c' (List.mem_cons_of_mem _ h)
    have e1 : (exec c s).1 = (exec c init).1 :=
      exec_result_congr c s init (fun l hl => hs l (hU c hc l hl))
    have e2 : ∀ l, Immutable U l → (exec c s).2 l = init l := by
      intro l hl
      rw [exec_frame c s l (hl c hc)]
      exact hs l hl
    simp only [allResults, List.map_cons, e1, ih hrest _ e2]

/-- A call that reads nothing it writes (it recomputes attributes from other locations) is idempotent on the
store: running it again leaves exactly the values of the first run. -/
theorem rewrite_idempotent (g : Call Loc Val Res) (s : Loc → Val) (h : ∀ l ∈ g.reads, l ∉ g.writes) :
    (exec g (exec g s).2).2 = (exec g s).2 ∧ (exec g (exec g s).2).1 = (exec g s).1 := by
  have hm : mask g.reads (exec g s).2 = mask g.reads s := by
    funext l
    by_cases hl : l ∈ g.reads
    · simp [mask, hl, exec_frame g s l (h l hl)]
    · simp [mask, hl]
  constructor
  · funext l
    show (if l ∈ g.writes then (match (g.body (mask g.reads (exec g s).2)).2 l with
          | some v => v | none => (exec g s).2 l) else (exec g s).2 l) = (exec g s).2 l
    rw [hm]
    by_cases hw : l ∈ g.writes
    · simp only [hw, if_true]
      cases hb : (g.body (mask g.reads s)).2 l with
      | none => rfl
      | some v => simp [exec, hw, hb]
    · simp only [hw, if_false]
  · show (g.body (mask g.reads (exec g s).2)).1 = (g.body (mask g.reads s)).1
    rw [hm]

end Store

/-! ### Bridge to the generated summaries -/

section Bridge
variable {Val Res : Type} [Inhabited Val]

/-- locations of object `o` named by a list of attributes -/
def locs (o : Nat) (as : List String) : List (Nat × String) := as.map (fun a => (o, a))

/-- the concrete call `c` is a call of the public method `m` on object `o`: it reads (before writing) and
writes only what the summary says -/
def Conforms (c : Call (Nat × String) Val Res) (o : Nat) (m : MethodEff) : Prop :=
  (∀ l ∈ c.reads, l ∈ locs o m.rbw) ∧ (∀ l ∈ c.writes, l ∈ locs o m.writes)

theorem mem_mutableAttrs (k : ClassEff) (m : MethodEff) (a : String) (hm : m ∈ k.methods) (hp : m.isPublic = true)
    (ha : a ∈ m.writes) : a ∈ k.mutableAttrs := by
  simp only [ClassEff.mutableAttrs, List.mem_flatMap, List.mem_filter]
  exact ⟨m, ⟨hm, hp⟩, ha⟩

/-- C18: for ANY pool of objects (`cls o` = the generated summary of the class of object `o`), a universe of
calls each of which conforms to a public method whose summary passes the decidable check `disciplinedB` is a
disciplined universe — so `discipline_sound` applies to every finite history over it. -/
theorem summary_discipline_sound (cls : Nat → ClassEff) (U : List (Call (Nat × String) Val Res))
    (hU : ∀ c ∈ U, ∃ o m, m ∈ (cls o).methods ∧ m.isPublic = true ∧ disciplinedB (cls o) m = true ∧ Conforms c o m) :
    ∀ c ∈ U, Disciplined U c := by
  intro c hc l hl c' hc' hw
  obtain ⟨o, m, hm, hp, hd, hr, _⟩ := hU c hc
  obtain ⟨o', m', hm', hp', _, _, hw'⟩ := hU c' hc'
  have h1 := hr l hl
  have h2 := hw' l hw
  simp only [locs, List.mem_map] at h1 h2
  obtain ⟨a, ha, rfl⟩ := h1
  obtain ⟨a', ha', he⟩ := h2
  have ho : o' = o := by
    have := congrArg Prod.fst he; simpa using this
  have haa : a' = a := by
    have := congrArg Prod.snd he; simpa using this
  subst ho; subst haa
  have hmut : a' ∈ (cls o').mutableAttrs := mem_mutableAttrs _ m' a' hm' hp' ha'
  simp only [disciplinedB, Bool.and_eq_true, List.all_eq_true] at hd
  have := hd.1.1 a' ha
  simp [hmut] at this

/-- Putting the two together: history independence of every result, for every finite history of disciplined
public-method calls over any pool of objects. -/
theorem history_independent_of_summaries (cls : Nat → ClassEff) (U : List (Call (Nat × String) Val Res))
    (hU : ∀ c ∈ U, ∃ o m, m ∈ (cls o).methods ∧ m.isPublic = true ∧ disciplinedB (cls o) m = true ∧ Conforms c o m)
    (init : Nat × String → Val) (hist : List (Call (Nat × String) Val Res)) (hsub : ∀ c ∈ hist, c ∈ U)
    (c : Call (Nat × String) Val Res) (hc : c ∈ U) :
    resultAfter hist c init = (exec c init).1 :=
  discipline_sound U (summary_discipline_sound cls U hU) init hist hsub c hc

end Bridge

/-- Non-vacuity: a two-attribute object; `get` reads the immutable attribute 0, `bump` rewrites the scratch
attribute 1 from attribute 0.  Both are disciplined, and after any number of `bump`s `get` returns the initial
value. -/
example : let get : Call Nat Nat Nat := ⟨[0], [], fun v => (v 0, fun _ => none)⟩
          let bump : Call Nat Nat Nat := ⟨[0], [1], fun v => (0, fun _ => some (v 0 + 1))⟩
          resultAfter [bump, bump, get, bump] get (fun l => if l = 0 then 7 else 0) = 7 := by
  decide

end FinVerif.Props.C18
