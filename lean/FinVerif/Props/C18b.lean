/-
C18 — the discipline decided on the GENERATED effect summaries, and one state machine per exception.

  * `discipline_holds_except`      every public method of every anchored class passes the read/write discipline
                                   except for the attributes / parameter writes / globals LISTED here (kernel
                                   evaluation of the check on lean/FinVerif/Gen/Effects.lean, which is
                                   regenerated from /repo on every run);
  * `exceptions_are_exact`         the list is tight: it is exactly the set of mutable attributes that some
                                   public method may read before writing;
  * per exception class, either a proof that it is harmless (`report_attrs_only_printed`,
    `derived_attrs_single_writer`, `leg_generators_read_only_immutables`, `calendar_cache_written_before_read`,
    `calendar_is_holiday_state_independent`, `tree_attrs_written_by_build`, `tree_value_independent_of_previous_tree`,
    `curve_build_once`, `date_table_harmless`, `date_format_only_read_by_printing`) or a kernel-checked counterexample,
    which is a known finding and is replayed on the implementation by harness/props/c18.py on every run
    (`calendar_direct_call_history_dependent`, `schedule_regenerate_differs`);
  * the five defects repaired in /repo (247d001, 53a2a33, b2f138f, 5c33524, 4de3863) now carry the TRUE statements,
    on the generated data (`blackscholes_stateless`, `bond_coupon_dates_written_before_read`,
    `no_parameter_write_to_rates_or_deposits`, `cap_day_counter_single_writer`) and on the state machines of
    Model/C18.lean (`bs_default_history_independent`, `bond_coupon_dates_independent_of_previous_call`,
    `caplet_direct_independent_of_value`, `deposits_list_not_mutated`, `krd_rates_not_mutated`).
-/
import FinVerif.Gen.Effects
import FinVerif.Gen.Calendar
import FinVerif.Props.C18a
import FinVerif.Props.C13
import FinVerif.Props.C16

set_option linter.unusedVariables false

namespace FinVerif.Props.C18
open FinVerif.C18 FinVerif.Gen.Effects

/-- why a stateful attribute is tolerated -/
inductive Why
  /-- genuine history dependence of a result: counterexample theorem below + known finding `id` -/
  | defect (id : String)
  /-- written by the entry point `entry` before any reader runs in the same call; calling a reader directly is the
  known finding `id` -/
  | entryWrites (entry : String) (id : String)
  /-- two-phase API: `build_tree` writes it, the queries read it; products build and query in one call -/
  | protocol
  /-- recomputed from constructor-immutable attributes by its single writer (idempotent re-derivation) -/
  | derived (writer : String)
  /-- read before write only by printing methods (`__repr__`, `print_*`): a report of the last valuation -/
  | report
  deriving DecidableEq, Repr

def treeAttrsHW : List String := ["Q", "df_times", "dfs", "dt", "pd", "pm", "pu", "r_t", "tree_times"]
def treeAttrsBK : List String := ["Q", "df_times", "dfs", "dt", "pd", "pm", "pu", "rt", "tree_times"]
def treeAttrsBDT : List String := ["Q", "df_times", "dfs", "dt", "rt", "tree_times"]

/-- THE exception list: (class, attribute, why).  (BlackScholes.bs_type and Bond.pcd/ncd left it with the repairs
247d001 and 53a2a33.) -/
def exceptions : List (String × String × Why) :=
  [("Calendar", "day_in_year", .entryWrites "is_holiday" "C18/calendar-holiday-direct-call"),
   ("Calendar", "weekday", .entryWrites "is_holiday" "C18/calendar-holiday-direct-call"),
   ("Schedule", "adjusted_dts", .defect "C18/schedule-regenerate-reanchors"),
   ("Schedule", "termination_dt", .defect "C18/schedule-regenerate-reanchors")] ++
  (["accrued_days", "end_accrued_dts", "payment_dts", "payments", "rates", "start_accrued_dts", "year_fracs"].map
    fun a => ("SwapFixedLeg", a, Why.derived "generate_payments")) ++
  (["cumulative_pvs", "payment_dfs", "payment_pvs"].map fun a => ("SwapFixedLeg", a, Why.report)) ++
  (["accrued_days", "end_accrued_dts", "payment_dts", "start_accrued_dts", "year_fracs"].map
    fun a => ("SwapFloatLeg", a, Why.derived "generate_payment_dts")) ++
  [("SwapFloatLeg", "cumulative_pvs", .report), ("SwapFloatLeg", "notional_array", .derived "value"),
   ("SwapFloatLeg", "payment_dfs", .report), ("SwapFloatLeg", "payment_pvs", .report),
   ("SwapFloatLeg", "payments", .report), ("SwapFloatLeg", "rates", .report)] ++
  (["forward_df", "fwd_swap_rate", "pv01", "underlying_swap"].map fun a => ("IborSwaption", a, Why.report)) ++
  (["capFloorLetDates", "cap_floor_let_alphas", "cap_floor_let_dfs", "cap_floor_let_fwd_rates", "cap_floor_let_intrinsic",
    "cap_floor_let_values", "cap_floor_pv"].map fun a => ("IborCapFloor", a, Why.report)) ++
  [("IborCapFloor", "day_counter", .derived "value"),     -- DayCount(self.dc_type), also created by the constructor
   ("IborCapFloor", "value_dt", .report)] ++
  (["_check_refit", "_dfs", "_interpolator", "_is_built", "_times"].map
    fun a => ("IborSingleCurve", a, Why.derived "build_curve")) ++
  (treeAttrsHW.map fun a => ("HWTree", a, Why.protocol)) ++
  (treeAttrsBK.map fun a => ("BKTree", a, Why.protocol)) ++
  (treeAttrsBDT.map fun a => ("BDTTree", a, Why.protocol))

/-- writes through parameters that are tolerated: (class, method, what) -/
def paramExceptions : List (String × String × String) :=
  [("BondEmbeddedOption", "value", "model:.num_time_steps+="),       -- += 1 … -= 1 : `tree_value_independent_of_previous_tree`
   ("IborSingleCurve", "__init__", "ibor_swaps:.start_dt="),         -- adds an unused attribute to a swap that is then rejected
   ("IborSingleCurve", "_validate_inputs", "ibor_swaps:.start_dt=")]

/-- module globals outside the date table that may be used: the print format and the lazily loaded Sobol tables -/
def globalExceptions : List String :=
  ["read date.g_date_type_format", "write date.g_date_type_format", "read sobol.a_arr", "read sobol.m_i", "read sobol.s_arr"]

def exceptionAttrs : List (String × String) := exceptions.map (fun e => (e.1, e.2.1))

/-- the discipline with the listed exceptions taken out -/
def disciplinedExceptB (c : ClassEff) (m : MethodEff) : Bool :=
  m.rbw.all (fun a => !(c.mutableAttrs.contains a) || exceptionAttrs.contains (c.name, a)) &&
  m.pwrites.all (fun p => paramExceptions.contains (c.name, m.name, p)) &&
  ((m.gwrites.map ("write " ++ ·)) ++ (m.greads.map ("read " ++ ·))).all
    (fun g => dateTableGlobals.any (fun t => g.endsWith t) || globalExceptions.contains g)

/-- C18 `discipline_holds_except`: on the summaries generated from the source as it is now, every method
(public or private, constructors included for their parameter writes) of every anchored class satisfies the
read/write discipline, except for the listed attributes, parameter writes and globals. -/
theorem discipline_holds_except :
    (classes.filter (·.anchored)).all (fun c => c.methods.all (fun m => disciplinedExceptB c m)) = true := by
  decide +kernel

/-- The attribute list is tight: it is exactly the set of (class, attribute) such that some public method may
write the attribute and some public method may read it before writing it. -/
theorem exceptions_are_exact : statefulAttrs classes = exceptionAttrs := by
  decide +kernel

/-- the parameter-write list is tight -/
theorem param_writes_are_exact : paramWrites classes = paramExceptions := by
  decide +kernel

/-- A method that touches none of the listed attributes and is not in the parameter/global lists passes the plain
check `disciplinedB` of `summary_discipline_sound`: the exception machinery does not weaken the discipline
elsewhere.  (BlackScholes, Black, Bond, Date arithmetic, FXVanillaOption, EquityVanillaOption, …) -/
theorem unlisted_methods_disciplined :
    (classes.filter (·.anchored)).all (fun c => (c.methods.filter (·.isPublic)).all (fun m =>
      disciplinedB c m || m.rbw.any (fun a => exceptionAttrs.contains (c.name, a)) || !m.pwrites.isEmpty ||
      !(m.gwrites ++ m.greads).all (fun g => dateTableGlobals.contains g))) = true := by
  decide +kernel

/-! ### report: read before write only by printing methods -/

def isPrinter (m : MethodEff) : Bool := m.text || m.name.startsWith "print"

theorem report_attrs_only_printed :
    (exceptions.filter (fun e => e.2.2 == Why.report)).all (fun e =>
      (classes.filter (·.name == e.1)).all (fun c =>
        ((c.methods.filter (·.isPublic)).filter (·.rbw.contains e.2.1)).all isPrinter)) = true := by
  decide +kernel

/-! ### derived: a single writer that recomputes from immutable attributes -/

theorem derived_attrs_single_writer :
    (exceptions.all fun e => match e.2.2 with
      | .derived w => writersOf classes e.1 e.2.1 == [w]
      | _ => true) = true := by
  decide +kernel

/-- The schedule tables of the two swap legs are rewritten only by `generate_payments` /
`generate_payment_dts`, which pass the plain discipline: they read constructor-immutable attributes only, so
(`rewrite_idempotent`) running them again leaves the values the constructor left. -/
theorem leg_generators_read_only_immutables :
    (SwapFixedLeg.method? "generate_payments").map (disciplinedB SwapFixedLeg) = some true ∧
    (SwapFloatLeg.method? "generate_payment_dts").map (disciplinedB SwapFloatLeg) = some true := by
  decide +kernel

theorem curve_build_once (fit : Nat) (hist : List Unit) :
    hist.foldl (fun s _ => buildCurve fit s) ⟨true, fit⟩ = ⟨true, fit⟩ := by
  induction hist with
  | nil => rfl
  | cons _ r ih => simpa [List.foldl, buildCurve] using ih

/-! ### Calendar: `is_holiday` writes `day_in_year` / `weekday` before the holiday functions read them -/

/-- on the generated summaries: `is_holiday` writes both on every path and does not read them first; the only
public readers are `holiday_*` functions; every other public method leaves them unread -/
theorem calendar_cache_written_before_read :
    (Calendar.method? "is_holiday").map (fun m => ["day_in_year", "weekday"].all m.must.contains &&
        !(m.rbw.contains "day_in_year") && !(m.rbw.contains "weekday")) = some true ∧
    ((readersOf classes "Calendar" "day_in_year" ++ readersOf classes "Calendar" "weekday").all
        (·.startsWith "holiday_")) = true := by
  decide +kernel

theorem calendar_is_holiday_state_independent (s s' : CalState) (m d y wd diy : Int) :
    (isHolidayUS s m d y wd diy).1 = (isHolidayUS s' m d y wd diy).1 ∧
    (isHolidayUS s m d y wd diy).2.wd = wd ∧ (isHolidayUS s m d y wd diy).2.diy = diy := by
  simp [isHolidayUS]

/-- Counterexample (finding C18/calendar-holiday-direct-call): after `is_holiday(Mon 13-Jan-2020)` the direct call
`holiday_united_states(Tue 21-Jan-2020)` says True (stale Monday: Martin Luther King day rule), on a fresh
calendar it says False. -/
theorem calendar_direct_call_history_dependent :
    holidayUSDirect (isHolidayUS CalState.fresh 1 13 2020 0 13).2 1 21 2020 = true ∧
    holidayUSDirect CalState.fresh 1 21 2020 = false := by
  decide +kernel

/-! ### tree models: build, then query -/

theorem tree_attrs_written_by_build :
    (HWTree.method? "build_tree").map (fun m => treeAttrsHW.all m.must.contains && disciplinedB HWTree m) = some true ∧
    (BKTree.method? "build_tree").map (fun m => treeAttrsBK.all m.must.contains && disciplinedB BKTree m) = some true ∧
    (BDTTree.method? "build_tree").map (fun m => treeAttrsBDT.all m.must.contains && disciplinedB BDTTree m) = some true := by
  decide +kernel

theorem tree_value_independent_of_previous_tree (f : Nat × Nat → Nat → Nat) (m m' : TreeModel) (arg x : Nat)
    (h : m.numSteps = m'.numSteps) :
    (embeddedValue f m arg x).1 = (embeddedValue f m' arg x).1 ∧
    (embeddedValue f m arg x).2.numSteps = m.numSteps := by
  simp [embeddedValue, TreeModel.build, TreeModel.query, h]

/-! ### process globals -/

/-- the date table (C13): neither `Date(d, m, y)` nor `add_days` depends on how far the table was extended -/
theorem date_table_harmless (s s' : Model.TableState) (d m y n : Int) (dt : FinVerif.PyDate) :
    (Model.construct s d m y).2 = (Model.construct s' d m y).2 ∧ (Model.addDaysT s dt n).2 = (Model.addDaysT s' dt n).2 :=
  FinVerif.Props.C13.results_independent_of_table_state s s' d m y n dt

/-- the print format is written by `set_date_format` only and read by `Date.__repr__` (and the debug helper
`test_type`) only — over ALL methods, constructors and private helpers included: it can reach a result only
through text -/
theorem date_format_only_read_by_printing :
    ((otherGlobals classes).filter (fun e => e.2.2.endsWith "g_date_type_format")) =
      [("Date", "__repr__", "read date.g_date_type_format"),
       ("<date>", "set_date_format", "write date.g_date_type_format"),
       ("<date>", "test_type", "read date.g_date_type_format")] := by
  decide +kernel

/-! ### BlackScholes (repaired by 247d001): DEFAULT is resolved in a local variable -/

/-- on the generated summaries: no method of `BlackScholes` writes any attribute any more -/
theorem blackscholes_stateless : BlackScholes.mutableAttrs = [] ∧ BlackScholes.methods.all (fun m => m.pwrites.isEmpty) = true := by
  decide +kernel

/-- state machine: the model's type is never rewritten, so for EVERY type (DEFAULT included) and every history
the engine that prices an option is the one a fresh model uses -/
theorem bs_default_history_independent (t : BsType) (hist : List Fam) (f : Fam) :
    bsAfter t hist = t ∧ (bsValue (bsAfter t hist) f).1 = (bsValue t f).1 := by
  have h : bsAfter t hist = t := by
    induction hist with
    | nil => rfl
    | cons g r ih =>
      have : (bsValue t g).2 = t := by cases g <;> rfl
      simp only [bsAfter, List.foldl] at ih ⊢
      rw [this]; exact ih
  exact ⟨h, by rw [h]⟩

/-- a DEFAULT model prices European options analytically and American ones on the tree, in either order -/
example : (bsValue (bsAfter .DEFAULT [.european]) .american).1 = .crr ∧
          (bsValue (bsAfter .DEFAULT [.american]) .european).1 = .analytical := by decide

/-! ### Bond (repaired by 53a2a33): previous / next coupon dates are written before they are read -/

/-- on the generated summaries: no public method of `Bond` may read `pcd` / `ncd` before writing them
(`_calc_pcd_ncd` assigns both or raises), and `_calc_pcd_ncd` must-writes both -/
theorem bond_coupon_dates_written_before_read :
    readersOf classes "Bond" "pcd" = [] ∧ readersOf classes "Bond" "ncd" = [] ∧
    (Bond.method? "_calc_pcd_ncd").map (fun m => ["pcd", "ncd"].all m.must.contains) = some true := by
  decide +kernel

/-- state machine: what `_calc_pcd_ncd` leaves does not depend on what the previous call left, for every coupon
schedule and settlement date (no hypothesis: with no coupon after the settlement date both are cleared) -/
theorem bond_coupon_dates_independent_of_previous_call (prev : Int) (cs : List Int) (settle : Int)
    (st st' : Option (Int × Int)) :
    calcPcdNcd prev cs settle st = calcPcdNcd prev cs settle st' := by
  induction cs generalizing prev with
  | nil => rfl
  | cons c rest ih =>
    by_cases hc : c > settle
    · simp [calcPcdNcd, hc]
    · simp only [calcPcdNcd, hc, if_false]
      exact ih c

/-- the former witness: settling on the maturity date after a call inside a period now gives "no coupon dates"
(FinError) exactly as on a fresh bond -/
example : calcPcdNcd 0 [100, 200, 300] 300 (calcPcdNcd 0 [100, 200, 300] 150 none) = none ∧
          calcPcdNcd 0 [100, 200, 300] 150 none = some (100, 200) := by decide

/-! ### IborCapFloor (repaired by 5c33524): the day counter is created by the constructor -/

/-- on the generated summaries: the constructor writes `day_counter`; its only other writer is `value` -/
theorem cap_day_counter_single_writer :
    IborCapFloor.ctor.contains "day_counter" = true ∧ writersOf classes "IborCapFloor" "day_counter" = ["value"] := by
  decide +kernel

theorem caplet_direct_independent_of_value (dcType : Nat) :
    capletDirect (capCtor dcType) = some dcType ∧ capletDirect (capValue (capCtor dcType) dcType) = capletDirect (capCtor dcType) := by
  simp [capletDirect, capValue, capCtor]

/-! ### caller-owned lists (repaired by 4de3863 and b2f138f) -/

/-- on the generated summaries: no method writes through a `rates` or `ibor_deposits` parameter any more -/
theorem no_parameter_write_to_rates_or_deposits :
    ((paramWrites classes).filter (fun e => e.2.2.startsWith "rates:" || e.2.2.startsWith "ibor_deposits:")) = [] := by
  decide +kernel

/-- the caller's deposit list is returned as it was, for every input; the curve still uses the bridged list -/
theorem deposits_list_not_mutated (v s : Int) (l : List Int) :
    (validateDeposits v s l).1 = l ∧ (validateDeposits 0 2 [2, 2]).2 = [0, 2, 2] := by
  constructor
  · cases l <;> rfl
  · decide

/-- the caller's key rates come back unchanged, for every input (the shifting happens on the copy) -/
theorem krd_rates_not_mutated (shift : Int) (rates : List Int) :
    (krdRatesAfter shift rates).1 = rates ∧ (krdRatesAfter shift rates).2 = rates.map (· - shift) := by
  refine ⟨rfl, ?_⟩
  simp only [krdRatesAfter]
  congr 1
  funext r
  omega

/-! ### Schedule (C16) -/

/-- `Schedule.generate()` overwrites `termination_dt`; generating again re-anchors on it (finding
C16/regenerate-reanchors, proved in Props/C16.lean — referenced, not duplicated). -/
theorem schedule_regenerate_differs : ¬ FinVerif.Props.C16.RegenerateFixedPoint :=
  FinVerif.Props.C16.regenerate_not_fixed_point

end FinVerif.Props.C18
