/-
C18 — the discipline decided on the GENERATED effect summaries, and one state machine per exception.

  * `discipline_holds_except`      every public method of every anchored class passes the read/write discipline
                                   except for the attributes / parameter writes / globals LISTED here (kernel
                                   evaluation of the check on lean/FinVerif/Gen/Effects.lean, which is
                                   regenerated from /repo on every run);
  * `exceptions_are_exact`         the list is tight: it is exactly the set of mutable attributes that some
                                   public method may read before writing;
  * per exception class, either a proof that it is harmless (`report_attrs_only_printed`,
    `derived_attrs_single_writer`, `leg_generators_read_only_immutables`, `calendar_cache_written_before_read`,
    `calendar_is_holiday_state_independent`, `tree_attrs_written_by_build`, `tree_value_independent_of_previous_tree`,
    `curve_build_once`, `date_table_harmless`, `date_format_only_read_by_printing`, `bs_nondefault_history_independent`,
    `bond_coupon_dates_fresh_when_coupon_follows`) or a kernel-checked counterexample, which is a known finding and
    is replayed on the implementation by harness/props/c18.py on every run (`bs_default_history_dependent`,
    `calendar_direct_call_history_dependent`, `bond_stale_coupon_dates`, `caplet_direct_needs_value`,
    `deposits_list_mutated`, `krd_rates_shifted`, `schedule_regenerate_differs`).
-/
import FinVerif.Gen.Effects
import FinVerif.Gen.Calendar
import FinVerif.Props.C18a
import FinVerif.Props.C13
import FinVerif.Props.C16

set_option linter.unusedVariables false

namespace FinVerif.Props.C18
open FinVerif.C18 FinVerif.Gen.Effects

/-- why a stateful attribute is tolerated -/
inductive Why
  /-- genuine history dependence of a result: counterexample theorem below + known finding `id` -/
  | defect (id : String)
  /-- written by the entry point `entry` before any reader runs in the same call; calling a reader directly is the
  known finding `id` -/
  | entryWrites (entry : String) (id : String)
  /-- two-phase API: `build_tree` writes it, the queries read it; products build and query in one call -/
  | protocol
  /-- recomputed from constructor-immutable attributes by its single writer (idempotent re-derivation) -/
  | derived (writer : String)
  /-- read before write only by printing methods (`__repr__`, `print_*`): a report of the last valuation -/
  | report
  deriving DecidableEq, Repr

def treeAttrsHW : List String := ["Q", "df_times", "dfs", "dt", "pd", "pm", "pu", "r_t", "tree_times"]
def treeAttrsBK : List String := ["Q", "df_times", "dfs", "dt", "pd", "pm", "pu", "rt", "tree_times"]
def treeAttrsBDT : List String := ["Q", "df_times", "dfs", "dt", "rt", "tree_times"]

/-- THE exception list: (class, attribute, why). -/
def exceptions : List (String × String × Why) :=
  [("BlackScholes", "bs_type", .defect "C18/bs-default-resolved-in-place"),
   ("Calendar", "day_in_year", .entryWrites "is_holiday" "C18/calendar-holiday-direct-call"),
   ("Calendar", "weekday", .entryWrites "is_holiday" "C18/calendar-holiday-direct-call"),
   ("Schedule", "adjusted_dts", .defect "C18/schedule-regenerate-reanchors"),
   ("Schedule", "termination_dt", .defect "C18/schedule-regenerate-reanchors"),
   ("Bond", "ncd", .defect "C18/bond-stale-coupon-dates-at-maturity"),
   ("Bond", "pcd", .defect "C18/bond-stale-coupon-dates-at-maturity")] ++
  (["accrued_days", "end_accrued_dts", "payment_dts", "payments", "rates", "start_accrued_dts", "year_fracs"].map
    fun a => ("SwapFixedLeg", a, Why.derived "generate_payments")) ++
  (["cumulative_pvs", "payment_dfs", "payment_pvs"].map fun a => ("SwapFixedLeg", a, Why.report)) ++
  (["accrued_days", "end_accrued_dts", "payment_dts", "start_accrued_dts", "year_fracs"].map
    fun a => ("SwapFloatLeg", a, Why.derived "generate_payment_dts")) ++
  [("SwapFloatLeg", "cumulative_pvs", .report), ("SwapFloatLeg", "notional_array", .derived "value"),
   ("SwapFloatLeg", "payment_dfs", .report), ("SwapFloatLeg", "payment_pvs", .report),
   ("SwapFloatLeg", "payments", .report), ("SwapFloatLeg", "rates", .report)] ++
  (["forward_df", "fwd_swap_rate", "pv01", "underlying_swap"].map fun a => ("IborSwaption", a, Why.report)) ++
  (["capFloorLetDates", "cap_floor_let_alphas", "cap_floor_let_dfs", "cap_floor_let_fwd_rates", "cap_floor_let_intrinsic",
    "cap_floor_let_values", "cap_floor_pv"].map fun a => ("IborCapFloor", a, Why.report)) ++
  [("IborCapFloor", "day_counter", .entryWrites "value" "C18/caplet-direct-needs-prior-value"),
   ("IborCapFloor", "value_dt", .report)] ++
  (["_check_refit", "_dfs", "_interpolator", "_is_built", "_times"].map
    fun a => ("IborSingleCurve", a, Why.derived "build_curve")) ++
  (treeAttrsHW.map fun a => ("HWTree", a, Why.protocol)) ++
  (treeAttrsBK.map fun a => ("BKTree", a, Why.protocol)) ++
  (treeAttrsBDT.map fun a => ("BDTTree", a, Why.protocol))

/-- writes through parameters that are tolerated: (class, method, what, finding or reason) -/
def paramExceptions : List (String × String × String) :=
  [("Bond", "key_rate_durations", "rates:[]="),                      -- finding C18/key-rate-durations-mutates-rates
   ("BondEmbeddedOption", "value", "model:.num_time_steps+="),       -- += 1 … -= 1 : `tree_value_independent_of_previous_tree`
   ("IborSingleCurve", "__init__", "ibor_deposits:.insert()"),       -- finding C18/deposits-list-mutated
   ("IborSingleCurve", "__init__", "ibor_swaps:.start_dt="),         -- adds an unused attribute to a swap that is then rejected
   ("IborSingleCurve", "_validate_inputs", "ibor_deposits:.insert()"),
   ("IborSingleCurve", "_validate_inputs", "ibor_swaps:.start_dt=")]

/-- module globals outside the date table that may be used: the print format and the lazily loaded Sobol tables -/
def globalExceptions : List String :=
  ["read date.g_date_type_format", "write date.g_date_type_format", "read sobol.a_arr", "read sobol.m_i", "read sobol.s_arr"]

def exceptionAttrs : List (String × String) := exceptions.map (fun e => (e.1, e.2.1))

/-- the discipline with the listed exceptions taken out -/
def disciplinedExceptB (c : ClassEff) (m : MethodEff) : Bool :=
  m.rbw.all (fun a => !(c.mutableAttrs.contains a) || exceptionAttrs.contains (c.name, a)) &&
  m.pwrites.all (fun p => paramExceptions.contains (c.name, m.name, p)) &&
  ((m.gwrites.map ("write " ++ ·)) ++ (m.greads.map ("read " ++ ·))).all
    (fun g => dateTableGlobals.any (fun t => g.endsWith t) || globalExceptions.contains g)

/-- C18 `discipline_holds_except`: on the summaries generated from the source as it is now, every method
(public or private, constructors included for their parameter writes) of every anchored class satisfies the
read/write discipline, except for the listed attributes, parameter writes and globals. -/
theorem discipline_holds_except :
    (classes.filter (·.anchored)).all (fun c => c.methods.all (fun m => disciplinedExceptB c m)) = true := by
  decide +kernel

/-- The attribute list is tight: it is exactly the set of (class, attribute) such that some public method may
write the attribute and some public method may read it before writing it. -/
theorem exceptions_are_exact : statefulAttrs classes = exceptionAttrs := by
  decide +kernel

/-- the parameter-write list is tight -/
theorem param_writes_are_exact : paramWrites classes = paramExceptions := by
  decide +kernel

/-- A method that touches none of the listed attributes and is not in the parameter/global lists passes the plain
check `disciplinedB` of `summary_discipline_sound`: the exception machinery does not weaken the discipline
elsewhere.  (Black, Date arithmetic, FXVanillaOption, EquityVanillaOption, BondEmbeddedOption's own state, …) -/
theorem unlisted_methods_disciplined :
    (classes.filter (·.anchored)).all (fun c => (c.methods.filter (·.isPublic)).all (fun m =>
      disciplinedB c m || m.rbw.any (fun a => exceptionAttrs.contains (c.name, a)) || !m.pwrites.isEmpty ||
      !(m.gwrites ++ m.greads).all (fun g => dateTableGlobals.contains g))) = true := by
  decide +kernel

/-! ### report: read before write only by printing methods -/

def isPrinter (m : MethodEff) : Bool := m.text || m.name.startsWith "print"

theorem report_attrs_only_printed :
    (exceptions.filter (fun e => e.2.2 == Why.report)).all (fun e =>
      (classes.filter (·.name == e.1)).all (fun c =>
        ((c.methods.filter (·.isPublic)).filter (·.rbw.contains e.2.1)).all isPrinter)) = true := by
  decide +kernel

/-! ### derived: a single writer that recomputes from immutable attributes -/

theorem derived_attrs_single_writer :
    (exceptions.all fun e => match e.2.2 with
      | .derived w => writersOf classes e.1 e.2.1 == [w]
      | _ => true) = true := by
  decide +kernel

/-- The schedule tables of the two swap legs are rewritten only by `generate_payments` /
`generate_payment_dts`, which pass the plain discipline: they read constructor-immutable attributes only, so
(`rewrite_idempotent`) running them again leaves the values the constructor left. -/
theorem leg_generators_read_only_immutables :
    (SwapFixedLeg.method? "generate_payments").map (disciplinedB SwapFixedLeg) = some true ∧
    (SwapFloatLeg.method? "generate_payment_dts").map (disciplinedB SwapFloatLeg) = some true := by
  decide +kernel

/-- `IborSingleCurve.build_curve` is a no-op once the curve is built (`_is_built` is set by the constructor
unless `do_build=False`): state machine of the flag and the tables. -/
structure CurveState where
  built : Bool
  tables : Nat
  deriving DecidableEq, Repr

def buildCurve (fit : Nat) (s : CurveState) : CurveState := if s.built then s else ⟨true, fit⟩

theorem curve_build_once (fit : Nat) (hist : List Unit) :
    hist.foldl (fun s _ => buildCurve fit s) ⟨true, fit⟩ = ⟨true, fit⟩ := by
  induction hist with
  | nil => rfl
  | cons _ r ih => simpa [List.foldl, buildCurve] using ih

/-! ### Calendar: `is_holiday` writes `day_in_year` / `weekday` before the holiday functions read them -/

/-- on the generated summaries: `is_holiday` writes both on every path and does not read them first; the only
public readers are `holiday_*` functions; every other public method leaves them unread -/
theorem calendar_cache_written_before_read :
    (Calendar.method? "is_holiday").map (fun m => ["day_in_year", "weekday"].all m.must.contains &&
        !(m.rbw.contains "day_in_year") && !(m.rbw.contains "weekday")) = some true ∧
    ((readersOf classes "Calendar" "day_in_year" ++ readersOf classes "Calendar" "weekday").all
        (·.startsWith "holiday_")) = true := by
  decide +kernel

/-- the state machine, with the US rule GENERATED from calendar.py: the calendar object caches the weekday and the
day in the year; −1 stands for Python's `None` (equal to no integer). -/
structure CalState where
  wd : Int
  diy : Int

def CalState.fresh : CalState := ⟨-1, -1⟩

/-- `Calendar.is_holiday(dt)` for the US calendar: store, then dispatch -/
def isHolidayUS (s : CalState) (m d y wd diy : Int) : Bool × CalState :=
  let s' : CalState := ⟨wd, diy⟩
  (Gen.Calendar.holiday_united_states m d y s'.wd s'.diy, s')

/-- `Calendar.holiday_united_states(dt)` called directly: reads whatever the last `is_holiday` left -/
def holidayUSDirect (s : CalState) (m d y : Int) : Bool := Gen.Calendar.holiday_united_states m d y s.wd s.diy

theorem calendar_is_holiday_state_independent (s s' : CalState) (m d y wd diy : Int) :
    (isHolidayUS s m d y wd diy).1 = (isHolidayUS s' m d y wd diy).1 ∧
    (isHolidayUS s m d y wd diy).2.wd = wd ∧ (isHolidayUS s m d y wd diy).2.diy = diy := by
  simp [isHolidayUS]

/-- Counterexample (finding C18/calendar-holiday-direct-call): after `is_holiday(Mon 13-Jan-2020)` the direct call
`holiday_united_states(Tue 21-Jan-2020)` says True (stale Monday: Martin Luther King day rule), on a fresh
calendar it says False. -/
theorem calendar_direct_call_history_dependent :
    holidayUSDirect (isHolidayUS CalState.fresh 1 13 2020 0 13).2 1 21 2020 = true ∧
    holidayUSDirect CalState.fresh 1 21 2020 = false := by
  decide +kernel

/-! ### tree models: build, then query -/

theorem tree_attrs_written_by_build :
    (HWTree.method? "build_tree").map (fun m => treeAttrsHW.all m.must.contains && disciplinedB HWTree m) = some true ∧
    (BKTree.method? "build_tree").map (fun m => treeAttrsBK.all m.must.contains && disciplinedB BKTree m) = some true ∧
    (BDTTree.method? "build_tree").map (fun m => treeAttrsBDT.all m.must.contains && disciplinedB BDTTree m) = some true := by
  decide +kernel

/-- the model object as `BondEmbeddedOption.value` uses it: `num_time_steps` and the tree last built (with how
many steps and for which curve / maturity argument) -/
structure TreeModel where
  numSteps : Nat
  tree : Option (Nat × Nat)

def TreeModel.build (m : TreeModel) (arg : Nat) : TreeModel := { m with tree := some (m.numSteps, arg) }
def TreeModel.query (f : Nat × Nat → Nat → Nat) (m : TreeModel) (x : Nat) : Option Nat := m.tree.map (fun t => f t x)

/-- build; query; `num_time_steps += 1`; build; query; `num_time_steps -= 1` -/
def embeddedValue (f : Nat × Nat → Nat → Nat) (m : TreeModel) (arg x : Nat) : (Option Nat × Option Nat) × TreeModel :=
  let m1 := m.build arg
  let v1 := m1.query f x
  let m2 := { m1 with numSteps := m1.numSteps + 1 }
  let m3 := m2.build arg
  let v2 := m3.query f x
  ((v1, v2), { m3 with numSteps := m3.numSteps - 1 })

theorem tree_value_independent_of_previous_tree (f : Nat × Nat → Nat → Nat) (m m' : TreeModel) (arg x : Nat)
    (h : m.numSteps = m'.numSteps) :
    (embeddedValue f m arg x).1 = (embeddedValue f m' arg x).1 ∧
    (embeddedValue f m arg x).2.numSteps = m.numSteps := by
  simp [embeddedValue, TreeModel.build, TreeModel.query, h]

/-! ### process globals -/

/-- the date table (C13): neither `Date(d, m, y)` nor `add_days` depends on how far the table was extended -/
theorem date_table_harmless (s s' : Model.TableState) (d m y n : Int) (dt : FinVerif.PyDate) :
    (Model.construct s d m y).2 = (Model.construct s' d m y).2 ∧ (Model.addDaysT s dt n).2 = (Model.addDaysT s' dt n).2 :=
  FinVerif.Props.C13.results_independent_of_table_state s s' d m y n dt

/-- the print format is written by `set_date_format` only and read by `Date.__repr__` (and the debug helper
`test_type`) only: it can reach a result only through text -/
theorem date_format_only_read_by_printing :
    ((otherGlobals classes).filter (fun e => e.2.2.endsWith "g_date_type_format")) =
      [("Date", "__repr__", "read date.g_date_type_format"),
       ("<date>", "set_date_format", "write date.g_date_type_format"),
       ("<date>", "test_type", "read date.g_date_type_format")] := by
  decide +kernel

/-! ### BlackScholes: DEFAULT resolved in place -/

inductive BsType | DEFAULT | ANALYTICAL | CRR_TREE | BARONE_ADESI | LSMC | BJERKSUND | FD | PSOR
  deriving DecidableEq, Repr
inductive Fam | european | american
  deriving DecidableEq, Repr
inductive Engine | analytical | crr | baw | lsmc | bjerksund | fd | psor | notAvailable
  deriving DecidableEq, Repr

/-- `BlackScholes.value`: which engine prices the option and what `self.bs_type` is afterwards -/
def bsValue (t : BsType) : Fam → Engine × BsType
  | .european =>
    let t := if t = .DEFAULT then .ANALYTICAL else t
    (match t with
      | .ANALYTICAL => .analytical | .CRR_TREE => .crr | .FD => .fd | .PSOR => .psor | .LSMC => .lsmc
      | _ => .notAvailable, t)
  | .american =>
    let t := if t = .DEFAULT then .CRR_TREE else t
    (match t with
      | .BARONE_ADESI => .baw | .CRR_TREE => .crr | .LSMC => .lsmc | .BJERKSUND => .bjerksund | .FD => .fd | .PSOR => .psor
      | _ => .notAvailable, t)

def bsAfter (t : BsType) (hist : List Fam) : BsType := hist.foldl (fun t f => (bsValue t f).2) t

/-- Counterexample (finding C18/bs-default-resolved-in-place): a DEFAULT model that priced a European option
refuses an American one; one that priced an American option prices a European option on the tree. -/
theorem bs_default_history_dependent :
    (bsValue (bsAfter .DEFAULT [.european]) .american).1 = .notAvailable ∧ (bsValue .DEFAULT .american).1 = .crr ∧
    (bsValue (bsAfter .DEFAULT [.american]) .european).1 = .crr ∧ (bsValue .DEFAULT .european).1 = .analytical := by
  decide

/-- … and only DEFAULT models are affected: any other type is never rewritten, for every history. -/
theorem bs_nondefault_history_independent (t : BsType) (ht : t ≠ .DEFAULT) (hist : List Fam) (f : Fam) :
    bsAfter t hist = t ∧ (bsValue (bsAfter t hist) f).1 = (bsValue t f).1 := by
  have h : bsAfter t hist = t := by
    induction hist with
    | nil => rfl
    | cons g r ih =>
      have : (bsValue t g).2 = t := by cases g <;> simp [bsValue, ht]
      simp only [bsAfter, List.foldl] at ih ⊢
      rw [this]; exact ih
  exact ⟨h, by rw [h]⟩

/-- the proposed repair (fixes/C18-bs-default-local.diff): resolve DEFAULT in a local variable -/
def bsValueFixed (t : BsType) (f : Fam) : Engine × BsType := ((bsValue t f).1, t)

theorem bs_fixed_history_independent (t : BsType) (hist : List Fam) (f : Fam) :
    (bsValueFixed (hist.foldl (fun t g => (bsValueFixed t g).2) t) f).1 = (bsValue t f).1 := by
  have : hist.foldl (fun t g => (bsValueFixed t g).2) t = t := by
    induction hist with
    | nil => rfl
    | cons g r ih => simpa [List.foldl, bsValueFixed] using ih
  rw [this]
  rfl

/-! ### Bond: previous / next coupon dates survive a call that finds no coupon after the settlement date -/

/-- `Bond._calc_pcd_ncd`: the first coupon date after `settle` and its predecessor; nothing is assigned when no
coupon date follows (serial numbers; `prev` = the date before the list element under inspection) -/
def calcPcdNcd : Int → List Int → Int → Option (Int × Int) → Option (Int × Int)
  | _, [], _, st => st
  | prev, c :: rest, settle, st => if c > settle then some (prev, c) else calcPcdNcd c rest settle st

theorem bond_coupon_dates_fresh_when_coupon_follows (prev : Int) (cs : List Int) (settle : Int)
    (h : ∃ c ∈ cs, c > settle) (st st' : Option (Int × Int)) :
    calcPcdNcd prev cs settle st = calcPcdNcd prev cs settle st' := by
  induction cs generalizing prev with
  | nil => obtain ⟨c, hc, _⟩ := h; cases hc
  | cons c rest ih =>
    by_cases hc : c > settle
    · simp [calcPcdNcd, hc]
    · simp only [calcPcdNcd, hc, if_false]
      apply ih
      obtain ⟨c', hc', hgt⟩ := h
      rcases List.mem_cons.mp hc' with rfl | hr
      · exact absurd hgt hc
      · exact ⟨c', hr, hgt⟩

/-- Counterexample (finding C18/bond-stale-coupon-dates-at-maturity): coupons at 100, 200, 300; settling at 300
(maturity) a fresh bond has no coupon dates (`None` → the caller raises), a bond that was asked about settlement
150 before still carries (100, 200). -/
theorem bond_stale_coupon_dates :
    calcPcdNcd 0 [100, 200, 300] 300 none = none ∧
    calcPcdNcd 0 [100, 200, 300] 300 (calcPcdNcd 0 [100, 200, 300] 150 none) = some (100, 200) := by
  decide

/-! ### IborCapFloor: the day counter exists only after `value()` -/

def capValue (_dc : Option Nat) (dcType : Nat) : Option Nat := some dcType          -- value(): self.day_counter = DayCount(...)
def capletDirect (dc : Option Nat) : Option Nat := dc                               -- none = AttributeError on None

theorem caplet_direct_needs_value (dcType : Nat) :
    capletDirect none = none ∧ capletDirect (capValue none dcType) = some dcType := by
  simp [capletDirect, capValue]

/-! ### caller-owned lists -/

/-- `IborSingleCurve._validate_inputs` on the caller's deposit list (start dates only): a synthetic deposit
starting on the valuation date is inserted in front when swaps and deposits start after it -/
def validateDeposits (valueDt swapStart : Int) (depoStarts : List Int) : List Int :=
  match depoStarts with
  | [] => []
  | d :: rest => if swapStart > valueDt ∧ d > valueDt then valueDt :: d :: rest else d :: rest

/-- Counterexample (finding C18/deposits-list-mutated): the caller's list has one more element afterwards … -/
theorem deposits_list_mutated : validateDeposits 0 2 [2, 2] = [0, 2, 2] := by decide

/-- … while a second curve built from the (already extended) list sees the same instruments: the insertion
happens once. -/
theorem deposits_insertion_idempotent (v s : Int) (l : List Int) :
    validateDeposits v s (validateDeposits v s l) = validateDeposits v s l := by
  cases l with
  | nil => rfl
  | cons d rest =>
    by_cases h : s > v ∧ d > v
    · simp [validateDeposits, h]
    · simp [validateDeposits, h]

/-- `Bond.key_rate_durations`: each key rate is shifted up by `shift`, then down by `2·shift`, and never put
back: the caller's `rates` come back lowered by `shift` (finding C18/key-rate-durations-mutates-rates). -/
def krdRatesAfter (shift : Int) (rates : List Int) : List Int := rates.map (fun r => r + shift - 2 * shift)

theorem krd_rates_shifted : krdRatesAfter 1 [300, 350] = [299, 349] ∧
    (∀ shift rates, krdRatesAfter shift rates = rates.map (· - shift)) := by
  refine ⟨by decide, ?_⟩
  intro shift rates
  simp only [krdRatesAfter]
  congr 1
  funext r
  omega

/-! ### Schedule (C16) -/

/-- `Schedule.generate()` overwrites `termination_dt`; generating again re-anchors on it (finding
C16/regenerate-reanchors, proved in Props/C16.lean — referenced, not duplicated). -/
theorem schedule_regenerate_differs : ¬ FinVerif.Props.C16.RegenerateFixedPoint :=
  FinVerif.Props.C16.regenerate_not_fixed_point

end FinVerif.Props.C18
