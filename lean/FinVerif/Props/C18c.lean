/-
C18 (growth round) — the discipline on the classes OUTSIDE the anchors in which the seeded caches of the earlier
rounds landed, and the package-wide list of module-level state.

All data is GENERATED (lean/FinVerif/Gen/Effects.lean: `extendedClasses`, `moduleState`; tools/effects/extract.py,
regenerated from /repo on every run) and every list below is EXACT, so a new cache attribute, a new write through a
parameter, a new module-level dict / memo decorator / mutable default / class-level registry anywhere under
financepy/ makes a theorem fail.

  extended classes (BondOption, FXForward, FX barrier/digital/one-touch, equity compound/chooser/barrier/digital/
  one-touch, CDS, CDSCurve, CDSBasket, SABR, SABRShifted, BlackShifted, Bachelier, Heston, IborDeposit, IborFRA,
  DiscountCurve, DiscountCurveFlat):
  * `extended_discipline_holds_except`, `extended_exceptions_are_exact`, `extended_param_writes_are_exact`,
    `extended_globals_date_table_only`, `extended_unlisted_methods_disciplined`, `extended_reads_only_ctor_attrs_except`,
    `extended_mutable_attrs_are_exactly`, `fxforward_scratch_never_read`, `sabr_alpha_written_only_by_setters`,
    `extended_param_writes_are_theta_bumps`;
  * the `theta` bump of the caller's curves (Model/C18x Part 5): `theta_restores_when_it_returns`,
    `theta_failure_before_bump_leaves_curves`, `theta_leaves_inputs_usable_partial`,
    counterexample `theta_at_expiry_leaves_curves_advanced` / `theta_not_always_restoring` (finding
    C18/theta-exception-leaves-curve-date, replayed on the implementation every run), `theta_fixed_always_restores`;
  module-level state:
  * `module_globals_written_are_exactly`, `module_state_writers_are_exactly`, `no_memo_decorator_default_or_metaclass`,
    `singleton_registry_unused`, `module_writers_covered_by_summaries`, `module_globals_outside_date_table`.
-/
import FinVerif.Gen.Effects
import FinVerif.Model.C18x
import FinVerif.Props.C18a

set_option linter.unusedVariables false

namespace FinVerif.Props.C18
open FinVerif.C18 FinVerif.Gen.Effects

/-! ### the extended classes -/

/-- THE exception list of the extended classes: (class, attribute, why) -/
def extExceptions : List (String × String × String) :=
  [("SABR", "alpha", "calibration: set_alpha_from_(atm_)black_vol are explicit setters; black_vol_with_alpha is their objective"),
   ("SABRShifted", "_alpha", "calibration: the same three methods")]

def extExceptionAttrs : List (String × String) := extExceptions.map (fun e => (e.1, e.2.1))

/-- writes through parameters in the extended classes: `theta` (inherited from EquityOption / FXOption) moves the
`value_dt` of BOTH curves it is given by one day, revalues, and sets it back (Model/C18x Part 5) -/
def extParamExceptions : List (String × String × String) :=
  [("FXBarrierOption", "theta", "domestic_curve:.value_dt="), ("FXBarrierOption", "theta", "foreign_curve:.value_dt="),
   ("FXOneTouchOption", "theta", "domestic_curve:.value_dt="), ("FXOneTouchOption", "theta", "foreign_curve:.value_dt="),
   ("EquityCompoundOption", "theta", "discount_curve:.value_dt="), ("EquityCompoundOption", "theta", "dividend_curve:.value_dt="),
   ("EquityChooserOption", "theta", "discount_curve:.value_dt="), ("EquityChooserOption", "theta", "dividend_curve:.value_dt="),
   ("EquityBarrierOption", "theta", "discount_curve:.value_dt="), ("EquityBarrierOption", "theta", "dividend_curve:.value_dt="),
   ("EquityDigitalOption", "theta", "discount_curve:.value_dt="), ("EquityDigitalOption", "theta", "dividend_curve:.value_dt="),
   ("EquityOneTouchOption", "theta", "discount_curve:.value_dt="), ("EquityOneTouchOption", "theta", "dividend_curve:.value_dt=")]

/-- the discipline with the two lists taken out; NO module global other than the date table is tolerated (not even the
print format) -/
def extDisciplinedExceptB (c : ClassEff) (m : MethodEff) : Bool :=
  m.rbw.all (fun a => !(c.mutableAttrs.contains a) || extExceptionAttrs.contains (c.name, a)) &&
  m.pwrites.all (fun p => extParamExceptions.contains (c.name, m.name, p)) &&
  (m.gwrites ++ m.greads).all (fun g => dateTableGlobals.contains g)

/-- C18 on the extended classes: every method (public or private, constructors included) reads before writing only
attributes that no public method may write — except `alpha` of the two SABR models —, writes through no parameter —
except the `theta` bump —, and touches no module global but the date table. -/
theorem extended_discipline_holds_except :
    extendedClasses.all (fun c => c.methods.all (fun m => extDisciplinedExceptB c m)) = true := by
  decide +kernel

/-- the attribute list is tight: a NEW attribute that one public method writes and another reads first (a cache) in any
of the 22 classes breaks this -/
theorem extended_exceptions_are_exact : statefulAttrsAll extendedClasses = extExceptionAttrs := by
  decide +kernel

/-- the parameter-write list is tight -/
theorem extended_param_writes_are_exact : paramWritesAll extendedClasses = extParamExceptions := by
  decide +kernel

/-- no method of an extended class reads or writes a module global outside the date table -/
theorem extended_globals_date_table_only : otherGlobals extendedClasses = [] := by
  decide +kernel

/-- every public method that touches neither `alpha` nor a caller's curve passes the plain check `disciplinedB`, so
`history_independent_of_summaries` (Props/C18a) applies to it as it stands -/
theorem extended_unlisted_methods_disciplined :
    extendedClasses.all (fun c => (c.methods.filter (·.isPublic)).all (fun m =>
      disciplinedB c m || m.rbw.any (fun a => extExceptionAttrs.contains (c.name, a)) || !m.pwrites.isEmpty)) = true := by
  decide +kernel

/-- "methods read only constructor-set attributes or scratch attributes they have themselves written earlier in the
same call": the only reads (before a write in the same call) of an attribute that the constructor does not set are two
reads of attributes that NOTHING sets (an AttributeError on those paths, not state): `IborFRA.value` (`pv_only=False`
branch, `self.acc_factor`) and `DiscountCurveFlat.df_t` (inherited; the flat curve overrides `df`). -/
theorem extended_reads_only_ctor_attrs_except :
    nonCtorReads extendedClasses = [("IborFRA", "value", "acc_factor"), ("DiscountCurveFlat", "df_t", "_interpolator")] ∧
    extendedClasses.all (fun c => c.methods.all (fun m =>
      !(m.writes.contains "acc_factor") && !(c.name == "DiscountCurveFlat" && m.writes.contains "_interpolator"))) = true := by
  decide +kernel

/-- the attributes a public non-constructor method may write at all, class by class: everything else in the 22 classes
is written by the constructor only -/
theorem extended_mutable_attrs_are_exactly :
    (extendedClasses.filter (fun c => !c.mutableAttrs.isEmpty)).map (fun c => (c.name, c.mutableAttrs.eraseDups)) =
      [("FXForward", ["cash_dom", "cash_for", "notional_dom", "notional_for"]), ("SABR", ["alpha"]), ("SABRShifted", ["_alpha"])] := by
  decide +kernel

/-- `FXForward.value` leaves four scratch attributes behind; no public method reads any of them before writing it -/
theorem fxforward_scratch_never_read :
    (["cash_dom", "cash_for", "notional_dom", "notional_for"].flatMap (readersOf extendedClasses "FXForward")) = [] := by
  decide +kernel

/-- `alpha` is written by the calibration methods only; pricing (`value`, `black_vol`) reads it and writes nothing -/
theorem sabr_alpha_written_only_by_setters :
    writersOf extendedClasses "SABR" "alpha" = ["black_vol_with_alpha", "set_alpha_from_atm_black_vol", "set_alpha_from_black_vol"] ∧
    writersOf extendedClasses "SABRShifted" "_alpha" = ["black_vol_with_alpha", "set_alpha_from_atm_black_vol", "set_alpha_from_black_vol"] ∧
    readersOf extendedClasses "SABR" "alpha" = ["__repr__", "black_vol", "value"] ∧
    readersOf extendedClasses "SABRShifted" "_alpha" = ["__repr__", "black_vol", "value"] ∧
    ((SABR.method? "value").map (·.writes) = some []) ∧ ((SABRShifted.method? "value").map (·.writes) = some []) := by
  decide +kernel

/-- every write through a parameter in the extended classes is the `value_dt` bump of a curve by `theta` -/
theorem extended_param_writes_are_theta_bumps :
    (paramWritesAll extendedClasses).all (fun e => e.2.1 == "theta" && e.2.2.endsWith "_curve:.value_dt=") = true := by
  decide +kernel

/-! ### `theta`: bump, revalue, restore (state machine of Model/C18x Part 5) -/

/-- when `theta` returns, both curves hold what they held before the call -/
theorem theta_restores_when_it_returns (f : Int → Int) (expiry vd c1 c2 : Int) (r : Int × Int)
    (h : (exoticTheta f expiry vd c1 c2).1 = some r) :
    (exoticTheta f expiry vd c1 c2).2 = (c1, c2) := by
  unfold exoticTheta at h ⊢
  cases h1 : exoticValue f expiry vd c1 c2 with
  | none => rfl
  | some v =>
    have hc : c1 = vd ∧ c2 = vd := by
      unfold exoticValue at h1
      split at h1
      · rename_i hh; exact ⟨hh.1, hh.2.1⟩
      · cases h1
    rw [h1] at h
    cases h2 : exoticValue f expiry (vd + 1) (vd + 1) (vd + 1) with
    | none => rw [h2] at h; cases h
    | some vb => simp only [hc.1, hc.2]

/-- when the FIRST valuation raises (curves anchored elsewhere, value date after expiry) nothing has been touched -/
theorem theta_failure_before_bump_leaves_curves (f : Int → Int) (expiry vd c1 c2 : Int)
    (h : exoticValue f expiry vd c1 c2 = none) : exoticTheta f expiry vd c1 c2 = (none, c1, c2) := by
  unfold exoticTheta; rw [h]

/-- the full statement the property asks for ("valuation leaves its inputs usable") -/
def ThetaLeavesInputsUsable : Prop :=
  ∀ (f : Int → Int) (expiry vd c1 c2 : Int), (exoticTheta f expiry vd c1 c2).2 = (c1, c2)

/-- Counterexample (finding C18/theta-exception-leaves-curve-date): `theta` ON the expiry date values the option,
moves both curves to expiry + 1, the revaluation raises "valuation date after expiry", and the curves stay there:
the same `value` call that returned a price before the failed `theta` now raises. -/
theorem theta_at_expiry_leaves_curves_advanced (f : Int → Int) (expiry : Int) :
    exoticTheta f expiry expiry expiry expiry = (none, expiry + 1, expiry + 1) ∧
    exoticValue f expiry expiry expiry expiry = some (f expiry) ∧
    exoticValue f expiry expiry (expiry + 1) (expiry + 1) = none := by
  refine ⟨?_, ?_, ?_⟩
  · have h2 : exoticValue f expiry (expiry + 1) (expiry + 1) (expiry + 1) = none := by
      unfold exoticValue; rw [if_neg]; omega
    have h1 : exoticValue f expiry expiry expiry expiry = some (f expiry) := by
      unfold exoticValue; rw [if_pos]; omega
    unfold exoticTheta; rw [h1]; simp only [h2]
  · unfold exoticValue; rw [if_pos]; omega
  · unfold exoticValue; rw [if_neg]; omega

theorem theta_not_always_restoring : ¬ ThetaLeavesInputsUsable := by
  intro h
  have := h (fun _ => 0) 10 10 10 10
  rw [(theta_at_expiry_leaves_curves_advanced (fun _ => 0) 10).1] at this
  revert this
  decide

/-- … and it holds strictly before the expiry date, whatever else happens -/
theorem theta_leaves_inputs_usable_partial (f : Int → Int) (expiry vd c1 c2 : Int) (h : vd < expiry) :
    (exoticTheta f expiry vd c1 c2).2 = (c1, c2) := by
  unfold exoticTheta
  cases h1 : exoticValue f expiry vd c1 c2 with
  | none => rfl
  | some v =>
    have hc : c1 = vd ∧ c2 = vd := by
      unfold exoticValue at h1
      split at h1
      · rename_i hh; exact ⟨hh.1, hh.2.1⟩
      · cases h1
    have h2 : exoticValue f expiry (vd + 1) (vd + 1) (vd + 1) = some (f (vd + 1)) := by
      unfold exoticValue; rw [if_pos]; omega
    simp only [h2, hc.1, hc.2]

/-- the proposed repair restores on every path, and returns what the code returns -/
theorem theta_fixed_always_restores (f : Int → Int) (expiry vd c1 c2 : Int) :
    (exoticThetaFixed f expiry vd c1 c2).2 = (c1, c2) ∧
    (exoticThetaFixed f expiry vd c1 c2).1 = (exoticTheta f expiry vd c1 c2).1 := by
  unfold exoticThetaFixed exoticTheta
  cases exoticValue f expiry vd c1 c2 with
  | none => exact ⟨rfl, rfl⟩
  | some v =>
    cases exoticValue f expiry (vd + 1) (vd + 1) (vd + 1) with
    | none => exact ⟨rfl, rfl⟩
    | some vb => exact ⟨rfl, rfl⟩

/-- Non-vacuity: one year before expiry with both curves on the value date `theta` returns and restores. -/
example : exoticTheta (fun t => 100 - t) 365 0 0 0 = (some (100, 99), 0, 0) := by decide

/-! ### module-level state of the whole package -/

/-- C18 `module_globals_written_are_exactly`: over EVERY module under financepy/, the module-level objects that some
function or method body assigns (`global`), stores into, mutates in place (also through a local alias), and the
class-level containers mutated through `self` / `cls`, are exactly: the date table, the print format, and the instance
registry of the (unused) `Singleton` metaclass. -/
theorem module_globals_written_are_exactly :
    (moduleState.map (fun r => (r.1, r.2.2.2))).eraseDups =
      [("financepy/utils/date.py", "g_end_year"), ("financepy/utils/date.py", "g_start_year"),
       ("financepy/utils/date.py", "g_dt_counter_list"), ("financepy/utils/date.py", "g_date_type_format"),
       ("financepy/utils/singleton.py", "Singleton._instances")] := by
  decide +kernel

/-- … and these are all the places that write them -/
theorem module_state_writers_are_exactly :
    moduleState =
      [("financepy/utils/date.py", "Date.__init__", "global=", "g_end_year"),
       ("financepy/utils/date.py", "Date.__init__", "global=", "g_start_year"),
       ("financepy/utils/date.py", "Date.add_days", "global=", "g_end_year"),
       ("financepy/utils/date.py", "calculate_list", ".append()", "g_dt_counter_list"),
       ("financepy/utils/date.py", "calculate_list", "global=", "g_dt_counter_list"),
       ("financepy/utils/date.py", "set_date_format", "global=", "g_date_type_format"),
       ("financepy/utils/singleton.py", "Singleton.__call__", "class[]=", "Singleton._instances")] := by
  decide +kernel

/-- no memoising decorator, no mutated mutable default argument, no class created through a metaclass anywhere -/
theorem no_memo_decorator_default_or_metaclass :
    moduleState.filter (fun r => r.2.2.1 == "@decorator" || r.2.2.1 == "metaclass=" || r.2.2.1.startsWith "default") = [] := by
  decide +kernel

/-- the `Singleton` registry can only be written by calling a class whose metaclass is `Singleton`; there is none, so
its only writer is unreachable from the package -/
theorem singleton_registry_unused :
    moduleState.filter (fun r => r.1 == "financepy/utils/singleton.py") =
      [("financepy/utils/singleton.py", "Singleton.__call__", "class[]=", "Singleton._instances")] ∧
    moduleState.all (fun r => r.2.2.1 != "metaclass=") = true := by
  decide +kernel

/-- the two analyses agree on date.py: every writer the package-wide scan finds there is a method / function whose
GENERATED summary (`classes`) lists that global among its possible global writes -/
theorem module_writers_covered_by_summaries :
    (moduleState.filter (fun r => r.1 == "financepy/utils/date.py")).all (fun r =>
      classes.any (fun c => c.methods.any (fun m =>
        (r.2.1 == m.name || r.2.1 == c.name ++ "." ++ m.name) && m.gwrites.contains ("date." ++ r.2.2.2)))) = true := by
  decide +kernel

/-- outside the date table (whose content never changes a result: C13 `results_independent_of_table_state`,
`date_table_harmless`) the only module-level state a reachable function writes is the print format (read only by
printing: `date_format_only_read_by_printing`) -/
theorem module_globals_outside_date_table :
    ((moduleState.filter (fun r => !(dateTableGlobals.contains ("date." ++ r.2.2.2)) &&
        r.1 != "financepy/utils/singleton.py")).map (fun r => (r.2.1, r.2.2.2))) =
      [("set_date_format", "g_date_type_format")] ∧
    mutableGlobals = ["date.g_date_type_format", "date.g_dt_counter_list", "date.g_end_year", "date.g_start_year"] := by
  decide +kernel

end FinVerif.Props.C18
