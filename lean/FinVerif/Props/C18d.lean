/-
C18 (growth round) — "not on whether the same quantity is requested alone or as one element of a vectorised call":
the list branch of `Date.add_months`, `Date.add_years`, `Date.add_tenor` is `List.map` of the scalar call.

  * `loop_eq_map`                        generic: a loop whose iteration does not depend on the locals the previous
                                         iteration left behind computes the element-wise map (with the exception
                                         behaviour of a loop: the first failing element fails the call);
  * `add_months_iteration_is_scalar`     one iteration of the loop as coded = the scalar model `Model.addMonths`
                                         (tied to the implementation by C13's driver and by Driver/C18);
  * `add_months_list_eq_map_scalar`      the list call = element-wise scalar calls;  `add_months_list_total`,
    `add_months_list_length`, `add_months_list_elem`: the `List.map` / element-by-element forms;
  * `add_months_scalar_is_singleton`     the scalar call as coded (`[k]`, loop, `[0]`) = the scalar model;
  * `add_months_elem_independent_of_neighbours`   an element's date does not depend on what else is in the list;
  * `add_years_list_eq_map_scalar`, `add_tenor_list_eq_map_scalar`;
  * `add_months_hoisted_differs`         the seeded defect of round 3 (`d = self.d` hoisted) is NOT the map: the generic
                                         theorem's hypothesis is what rules it out (`hoisted_iteration_reads_carried_local`).
-/
import FinVerif.Model.C18x

set_option linter.unusedVariables false

namespace FinVerif.Props.C18
open FinVerif FinVerif.Model FinVerif.C18

/-- equality of `Except` values is decidable when it is for both components (used by the `decide` witnesses) -/
instance {ε α : Type} [DecidableEq ε] [DecidableEq α] : DecidableEq (Except ε α)
  | .ok a, .ok b => if h : a = b then isTrue (by rw [h]) else isFalse (fun e => h (Except.ok.inj e))
  | .error a, .error b => if h : a = b then isTrue (by rw [h]) else isFalse (fun e => h (Except.error.inj e))
  | .ok _, .error _ => isFalse (fun e => by cases e)
  | .error _, .ok _ => isFalse (fun e => by cases e)

section Generic
variable {σ α β ε : Type}

theorem mapE_eq_mapM (f : α → Except ε β) (xs : List α) : mapE f xs = xs.mapM f := by
  induction xs with
  | nil => rfl
  | cons a as ih =>
    rw [List.mapM_cons, ← ih]
    simp only [mapE]
    cases f a with
    | error e => rfl
    | ok b =>
      cases mapE f as with
      | error e => rfl
      | ok bs => rfl

/-- C18 (vectorised = scalar, generic): if what an iteration yields does not depend on the loop-carried locals, the
loop started with ANY locals `s` and accumulator `acc` returns `acc ++` the element-wise map of the scalar function
`yield body s₀` (for any reference locals `s₀`), and fails exactly where the first element fails. -/
theorem loop_eq_map (body : σ → α → Except ε (σ × β))
    (hfresh : ∀ s s' a, yield body s a = yield body s' a) (s₀ : σ) (xs : List α) (s : σ) (acc : List β) :
    loopE body xs s acc =
      (match mapE (yield body s₀) xs with | .error e => .error e | .ok bs => .ok (acc ++ bs)) := by
  induction xs generalizing s acc with
  | nil => simp [loopE, mapE]
  | cons a as ih =>
    have h := hfresh s s₀ a
    cases hb : body s a with
    | error e =>
      cases hb0 : body s₀ a with
      | error e0 =>
        simp only [yield, hb, hb0] at h
        simp only [loopE, mapE, yield, hb, hb0]
        rw [Except.error.inj h]
      | ok p => simp only [yield, hb, hb0] at h; cases h
    | ok p =>
      obtain ⟨s1, b⟩ := p
      cases hb0 : body s₀ a with
      | error e0 => simp only [yield, hb, hb0] at h; cases h
      | ok p0 =>
        obtain ⟨s2, b0⟩ := p0
        simp only [yield, hb, hb0] at h
        have hbb : b = b0 := Except.ok.inj h
        subst hbb
        simp only [loopE, mapE, yield, hb, hb0]
        rw [ih s1 (acc ++ [b])]
        cases mapE (yield body s₀) as with
        | error e => rfl
        | ok bs => simp
end Generic

/-- a successful element-wise map is `List.map` of the total scalar function -/
theorem mapE_ok_of_all_ok {α β ε : Type} (f : α → Except ε β) (g : α → β) (xs : List α)
    (h : ∀ a ∈ xs, f a = .ok (g a)) : mapE f xs = .ok (xs.map g) := by
  induction xs with
  | nil => rfl
  | cons a as ih =>
    have h1 := h a (List.mem_cons_self ..)
    have h2 := ih (fun x hx => h x (List.mem_cons_of_mem _ hx))
    simp [mapE, h1, h2]

/-! ### add_months -/

/-- one iteration of the loop of `Date.add_months`, whatever the locals held, yields the scalar model's date -/
theorem add_months_iteration_is_scalar (self : PyDate) (loc : Int × Int × Int) (k : Int) :
    yield (addMonthsBody self) loc k = addMonths self k := by
  simp only [yield, addMonthsBody, addMonths]
  cases mkDate? _ _ _ <;> rfl

/-- C18: `dt.add_months([k₁, …, kₙ])` = `[dt.add_months(k₁), …, dt.add_months(kₙ)]` (first failure fails the call) -/
theorem add_months_list_eq_map_scalar (self : PyDate) (ks : List Int) :
    addMonthsVec self ks = mapE (addMonths self) ks := by
  have h := loop_eq_map (addMonthsBody self)
    (fun s s' a => by rw [add_months_iteration_is_scalar, add_months_iteration_is_scalar])
    (self.d, self.m, self.y) ks (self.d, self.m, self.y) []
  have hy : yield (addMonthsBody self) (self.d, self.m, self.y) = addMonths self := by
    funext k; exact add_months_iteration_is_scalar self _ k
  rw [hy] at h
  unfold addMonthsVec
  rw [h]
  cases mapE (addMonths self) ks <;> simp

/-- the same with Lean's own monadic map -/
theorem add_months_list_eq_mapM (self : PyDate) (ks : List Int) :
    addMonthsVec self ks = ks.mapM (addMonths self) := by
  rw [add_months_list_eq_map_scalar, mapE_eq_mapM]

/-- the scalar call as coded (`mm_vector = [k]`, the loop, `date_list[0]`) is the scalar model -/
theorem add_months_scalar_is_singleton (self : PyDate) (k : Int) : addMonthsScalar self k = addMonths self k := by
  unfold addMonthsScalar
  rw [add_months_list_eq_map_scalar]
  simp only [mapE]
  cases addMonths self k <;> rfl

/-- where every scalar call returns a date, the list call returns `List.map` of the scalar results -/
theorem add_months_list_total (self : PyDate) (ks : List Int) (g : Int → PyDate)
    (h : ∀ k ∈ ks, addMonths self k = .ok (g k)) : addMonthsVec self ks = .ok (ks.map g) := by
  rw [add_months_list_eq_map_scalar]
  exact mapE_ok_of_all_ok _ g ks h

theorem add_months_list_length (self : PyDate) (ks : List Int) (out : List PyDate)
    (h : addMonthsVec self ks = .ok out) : out.length = ks.length := by
  rw [add_months_list_eq_map_scalar] at h
  induction ks generalizing out with
  | nil => simp [mapE] at h; subst h; rfl
  | cons k ks ih =>
    simp only [mapE] at h
    cases h1 : addMonths self k with
    | error e => rw [h1] at h; simp at h
    | ok b =>
      rw [h1] at h
      cases h2 : mapE (addMonths self) ks with
      | error e => rw [h2] at h; simp at h
      | ok bs =>
        rw [h2] at h
        simp at h
        subst h
        simp [ih bs h2]

/-- element by element: the `i`-th date of the list call is what the scalar call returns for the `i`-th element -/
theorem add_months_list_elem (self : PyDate) (ks : List Int) (out : List PyDate)
    (h : addMonthsVec self ks = .ok out) (i : Nat) (hi : i < ks.length) (ho : i < out.length) :
    addMonths self ks[i] = .ok out[i] := by
  rw [add_months_list_eq_map_scalar] at h
  induction ks generalizing out i with
  | nil => simp at hi
  | cons k ks ih =>
    simp only [mapE] at h
    cases h1 : addMonths self k with
    | error e => rw [h1] at h; simp at h
    | ok b =>
      rw [h1] at h
      cases h2 : mapE (addMonths self) ks with
      | error e => rw [h2] at h; simp at h
      | ok bs =>
        rw [h2] at h
        simp at h
        subst h
        cases i with
        | zero => simpa using h1
        | succ j =>
          simp only [List.getElem_cons_succ]
          exact ih bs h2 j (by simpa using hi) (by simpa using ho)

/-- an element's date does not depend on its neighbours: in two lists that both succeed, equal arguments at
positions `i` and `j` give equal dates -/
theorem add_months_elem_independent_of_neighbours (self : PyDate) (ks ks' : List Int) (out out' : List PyDate)
    (h : addMonthsVec self ks = .ok out) (h' : addMonthsVec self ks' = .ok out')
    (i j : Nat) (hi : i < ks.length) (hj : j < ks'.length) (ho : i < out.length) (ho' : j < out'.length)
    (he : ks[i] = ks'[j]) : out[i] = out'[j] := by
  have e1 := add_months_list_elem self ks out h i hi ho
  have e2 := add_months_list_elem self ks' out' h' j hj ho'
  rw [he, e2] at e1
  exact (Except.ok.inj e1).symm

/-! ### the hoisted variant (seeded defect, round 3) -/

/-- the hoisted body DOES read the carried local: the generic theorem's hypothesis fails for it -/
theorem hoisted_iteration_reads_carried_local :
    ¬ (∀ s s' k, yield (addMonthsBodyHoisted (mkDate 31 12 2088)) s k = yield (addMonthsBodyHoisted (mkDate 31 12 2088)) s' k) := by
  intro h
  have e := h (31, 12, 2088) (28, 2, 2089) 3
  have a : yield (addMonthsBodyHoisted (mkDate 31 12 2088)) (31, 12, 2088) 3 = .ok (mkDate 31 3 2089) := by decide +kernel
  have b : yield (addMonthsBodyHoisted (mkDate 31 12 2088)) (28, 2, 2089) 3 = .ok (mkDate 28 3 2089) := by decide +kernel
  rw [a, b] at e
  have := Except.ok.inj e
  revert this
  decide

/-- `Date(31,12,2088).add_months([1, 2, 3])`: the loop as coded gives 31-Jan, 28-Feb, 31-Mar-2089 (= the scalar calls);
with `d` hoisted it gives 28-Mar-2089 for the third element -/
theorem add_months_hoisted_differs :
    addMonthsVec (mkDate 31 12 2088) [1, 2, 3] = .ok [mkDate 31 1 2089, mkDate 28 2 2089, mkDate 31 3 2089] ∧
    addMonthsVecHoisted (mkDate 31 12 2088) [1, 2, 3] = .ok [mkDate 31 1 2089, mkDate 28 2 2089, mkDate 28 3 2089] := by
  decide +kernel

/-! ### add_years (whole years), add_tenor -/

theorem add_years_list_eq_map_scalar (self : PyDate) (ys : List Int) :
    addYearsVec self ys = mapE (addYearsInt self) ys := by
  have hy : ∀ s, yield (addYearsBody self) s = addYearsInt self := by
    intro s; funext y
    simp only [yield, addYearsBody]
    cases addYearsInt self y <;> rfl
  have h := loop_eq_map (addYearsBody self) (fun s s' a => by rw [hy s, hy s']) self ys self []
  rw [hy] at h
  unfold addYearsVec
  rw [h]
  cases mapE (addYearsInt self) ys <;> simp

/-- whole years go through the scalar month arithmetic: `add_years(y)` = `add_months(12 y)` then `add_days(0)` -/
theorem add_years_is_add_months (self : PyDate) (y : Int) :
    addYearsInt self y = (match addMonths self (12 * y) with | .error e => .error e | .ok r => addDays r 0) := by
  unfold addYearsInt
  rw [add_months_scalar_is_singleton]
  rfl

theorem add_tenor_list_eq_map_scalar (self : PyDate) (ts : List (Int × Int)) :
    addTenorVec self ts = mapE (fun t => addTenor self t.1 t.2) ts := by
  have hy : ∀ s, yield (addTenorBody self) s = (fun t => addTenor self t.1 t.2) := by
    intro s; funext t
    simp only [yield, addTenorBody]
    cases addTenor self t.1 t.2 <;> rfl
  have h := loop_eq_map (addTenorBody self) (fun s s' a => by rw [hy s, hy s']) self ts self []
  rw [hy] at h
  unfold addTenorVec
  rw [h]
  cases mapE (fun t => addTenor self t.1 t.2) ts <;> simp

/-- Non-vacuity: a list that crosses month ends and a year end, with mixed signs; and a failing element (year < 1900)
fails the whole call, as the loop does. -/
example : addMonthsVec (mkDate 31 1 2024) [1, -2, 13] = .ok [mkDate 29 2 2024, mkDate 30 11 2023, mkDate 28 2 2025] ∧
          addMonthsVec (mkDate 31 1 1900) [1, -2, 13] = .error .finError ∧
          addTenorVec (mkDate 29 2 2024) [(1, 4), (12, 3), (2, 2)] =
            .ok [mkDate 28 2 2025, mkDate 28 2 2025, mkDate 14 3 2024] := by
  decide +kernel

end FinVerif.Props.C18
