/-
  C18 (growth round 7) — "an element of a vectorised call = the same quantity requested alone" for the curve entry
  points, as theorems about the dispatch models GENERATED from the source (`Gen/VecShape.lean`).

  For every kernel bundle `K` (i.e. whatever the opaque element-level expressions, predicates and configuration tests
  evaluate to) and every NON-EMPTY list: the call on the list = the element-wise scalar calls (`vecOf (scalarOf f)`:
  first failing element fails the call with its error).  The empty list is separate (`times_from_dates([])` is an
  IndexError in the code).  The statement fails for the spline interpolation types at |t| < g_small (the scalar path
  of `Interpolator.interpolate` returns 1.0 early, the array path does not): counterexample theorem + `_partial`.
-/
import FinVerif.Gen.VecShape
import FinVerif.Props.C18d
import Mathlib.Tactic.SplitIfs

namespace FinVerif.Props.C18
open FinVerif FinVerif.C18 FinVerif.C18v FinVerif.Gen.VecShape

variable {α β δ : Type}

/-! ### vocabulary lemmas -/

@[simp] theorem unS_error (e : PyErr) : unS (α := α) (.error e) = .error e := rfl
@[simp] theorem unS_ok_s (y : α) : unS (.ok (.s y)) = .ok y := rfl
@[simp] theorem unS_ok_v (y : List α) : unS (.ok (.v y)) = .error .typeError := rfl
theorem unS_ite (c : Prop) [Decidable c] (a b : Except PyErr (Val α)) :
    unS (if c then a else b) = if c then unS a else unS b := by
  split_ifs <;> rfl

theorem scalarOf_eq (f : Val δ → Except PyErr (Val α)) : scalarOf f = fun x => unS (f (.s x)) := rfl

/-- a loop whose body cannot fail is `List.map` -/
theorem mapE_pure (g : β → α) (xs : List β) : mapE (ε := PyErr) (fun x => Except.ok (g x)) xs = .ok (xs.map g) := by
  induction xs with
  | nil => rfl
  | cons a as ih => simp [mapE, ih]

/-- element-wise scalar calls each guarded by `if p x: raise` = one `np.any(p)` guard in front of the map -/
theorem mapE_guard (p : β → Bool) (e : PyErr) (g : β → α) (xs : List β) :
    mapE (fun x => if p x = true then Except.error e else Except.ok (g x)) xs
      = if xs.any p = true then .error e else .ok (xs.map g) := by
  induction xs with
  | nil => rfl
  | cons a as ih =>
    by_cases h : p a = true
    · simp [mapE, h]
    · by_cases h2 : as.any p = true
      · simp only [mapE, h, ih, h2, List.any_cons, Bool.or_true]; simp
      · simp only [mapE, h, ih, h2, List.any_cons]; simp

/-- case split on a configuration test of the object (interpolation type, frequency, day count given or not) -/
macro "cfgc " K:term:max s:str : tactic =>
  `(tactic| rcases Bool.eq_false_or_eq_true (Kern.cfg $K $s) with h | h)

/-- after the configuration is fixed both sides are straight-line: normalise, split the remaining guards -/
macro "vec_close " f:ident : tactic =>
  `(tactic| (simp [$f:ident, scalarOf_eq, vecOf, *, unS_ite, mapE_pure, mapE_guard, mapE, List.map_map, Function.comp_def,
      Val.map, Val.map2, Val.first] <;> (try split_ifs) <;> (try simp_all)))

/-! ### helpers.times_from_dates -/

/-- C18: `times_from_dates(list)` = the scalar conversions, for every non-empty list, both day-count branches. -/
theorem times_from_dates_vec (K : Kern α δ) (d : δ) (ds : List δ) :
    times_from_dates K (.v (d :: ds)) = vecOf (scalarOf (times_from_dates K)) (d :: ds) := by
  cfgc K "isinstance(value_dt, Date) is False" <;> cfgc K "day_count_type is None" <;> vec_close times_from_dates

/-- the empty list is an error (`dt[0]` in the isinstance test), never an empty array -/
theorem times_from_dates_empty (K : Kern α δ) :
    times_from_dates K (.v []) = .error .finError ∨ times_from_dates K (.v ([] : List δ)) = .error .indexError := by
  cfgc K "isinstance(value_dt, Date) is False" <;> cfgc K "day_count_type is None" <;> simp [times_from_dates, *]

/-- a single date gives a scalar, and it is the element of the one-element list call -/
theorem times_from_dates_singleton (K : Kern α δ) (d : δ) :
    times_from_dates K (.v [d]) = (match times_from_dates K (.s d) with
      | .error e => .error e | .ok (.s y) => .ok (.v [y]) | .ok (.v ys) => .ok (.v ys)) := by
  cfgc K "isinstance(value_dt, Date) is False" <;> cfgc K "day_count_type is None" <;>
    simp [times_from_dates, *, mapE]

/-! ### interpolator.interpolate / _vinterpolate / Interpolator.interpolate -/

/-- C18: `interpolate(ndarray)` (guard `np.any(t < 0)`, then the `_vinterpolate` loop) = element-wise `interpolate(float)`
(guard per element, then `_uinterpolate`): same kernel expression in both branches, for EVERY array incl. the empty one. -/
theorem interpolate_vec (K : Kern α δ) (ts : List α) :
    interpolate K (.v ts) = vecOf (scalarOf (interpolate K)) ts := by
  vec_close interpolate

/-- `_vinterpolate` is the map of the `_uinterpolate` call over the array: no element is treated differently -/
theorem vinterpolate_eq_map (K : Kern α δ) (xs : List α) :
    vinterpolate K xs = .ok (.v (xs.map (fun x => K.ew "_uinterpolate(_1, xvector, dfs, method)" [x]))) := by
  simp [vinterpolate, mapE_pure]

theorem vinterpolate_length (K : Kern α δ) (xs : List α) :
    ∃ ys, vinterpolate K xs = .ok (.v ys) ∧ ys.length = xs.length := by
  exact ⟨_, vinterpolate_eq_map K xs, by simp⟩

/-- the full statement for the class method -/
def InterpolatorVecIsScalar (K : Kern α δ) : Prop :=
  ∀ t ts, Interpolator_interpolate K (.v (t :: ts)) = vecOf (scalarOf (Interpolator_interpolate K)) (t :: ts)

/-- C18 (partial): `Interpolator.interpolate(ndarray)` = element-wise scalar calls when no time is within `g_small` of 0 -/
theorem Interpolator_interpolate_vec_partial (K : Kern α δ)
    (hsmall : ∀ x, K.tst "np.abs(_1) < g_small" x = false) : InterpolatorVecIsScalar K := by
  intro t ts
  cfgc K "self._dfs is None" <;>
  cfgc K "self._interp_type in [InterpTypes.PCHIP_LOG_DISCOUNT, InterpTypes.NATCUBIC_LOG_DISCOUNT]" <;>
  cfgc K "self._interp_type in [InterpTypes.PCHIP_ZERO_RATES, InterpTypes.FINCUBIC_ZERO_RATES, InterpTypes.NATCUBIC_ZERO_RATES, InterpTypes.TENSION_ZERO_RATES]" <;>
  cfgc K "self._interp_type == InterpTypes.LINEAR_ONFWD_RATES" <;>
  cfgc K "self._interp_fn is None" <;>
  cfgc K "len(self._dfs) == 0 or self.times[0] == 0.0" <;>
  vec_close Interpolator_interpolate

/-- a kernel bundle in which the spline of the log discount factors is not 1 at t = 0 (a `DiscountCurveZeros` without a
pillar at the value date, or a `DiscountCurve` whose first pillar is the value date with df ≠ 1) -/
def splineK : Kern Nat Nat where
  ew := fun k _ => if k = "1.0" then 1 else 2
  dw := fun _ d => d
  tst := fun k x => k = "np.abs(_1) < g_small" && x = 0
  cfg := fun k => k = "self._interp_type in [InterpTypes.PCHIP_LOG_DISCOUNT, InterpTypes.NATCUBIC_LOG_DISCOUNT]"
    || k = "self._interpolator._interp_type in [InterpTypes.PCHIP_LOG_DISCOUNT, InterpTypes.NATCUBIC_LOG_DISCOUNT]"

/-- COUNTEREXAMPLE (finding C18/interpolator-zero-time-shortcut): at t = 0 the scalar call returns 1.0 by the early
`if np.abs(t) < g_small: return 1.0`, the one-element array call returns exp(spline(0)). -/
theorem interpolator_scalar_shortcut_differs :
    Interpolator_interpolate splineK (.s 0) = .ok (.s 1) ∧ Interpolator_interpolate splineK (.v [0]) = .ok (.v [2]) := by
  constructor <;> simp [Interpolator_interpolate, splineK]

theorem interpolator_vec_not_always_scalar : ¬ InterpolatorVecIsScalar splineK := by
  intro h
  have h1 := h 0 []
  simp [Interpolator_interpolate, splineK, vecOf, scalarOf_eq, mapE] at h1

example : ∃ K : Kern Nat Nat, ∀ x, K.tst "np.abs(_1) < g_small" x = false :=
  ⟨⟨fun _ _ => 0, fun _ d => d, fun _ _ => false, fun _ => false⟩, fun _ => rfl⟩

/-! ### DiscountCurve.df_t / df (and DiscountCurveZeros.df, inherited) -/

/-- C18: for the three kernel interpolation types (the default FLAT_FWD_RATES among them) `df_t(ndarray)` = element-wise
`df_t(float)`, unconditionally -/
theorem DiscountCurve_df_t_vec_kernel (K : Kern α δ) (ts : List α)
    (hk : K.cfg "self._interp_type is InterpTypes.FLAT_FWD_RATES or self._interp_type is InterpTypes.LINEAR_ZERO_RATES or self._interp_type is InterpTypes.LINEAR_FWD_RATES" = true) :
    DiscountCurve_df_t K (.v ts) = vecOf (scalarOf (DiscountCurve_df_t K)) ts := by
  vec_close DiscountCurve_df_t

/-- C18: `DiscountCurve.df(list of dates)` = element-wise `df(date)` for the kernel interpolation types: day-count
conversion (`times_from_dates`, whichever day count is passed), negative-time guard and interpolation agree per element -/
theorem DiscountCurve_df_vec_kernel (K : Kern α δ) (d : δ) (ds : List δ)
    (hk : K.cfg "self._interp_type is InterpTypes.FLAT_FWD_RATES or self._interp_type is InterpTypes.LINEAR_ZERO_RATES or self._interp_type is InterpTypes.LINEAR_FWD_RATES" = true) :
    DiscountCurve_df K (.v (d :: ds)) = vecOf (scalarOf (DiscountCurve_df K)) (d :: ds) := by
  cfgc K "isinstance(self.value_dt, Date) is False" <;> cfgc K "day_count is None" <;> vec_close DiscountCurve_df

theorem DiscountCurveZeros_df_vec_kernel (K : Kern α δ) (d : δ) (ds : List δ)
    (hk : K.cfg "self._interp_type is InterpTypes.FLAT_FWD_RATES or self._interp_type is InterpTypes.LINEAR_ZERO_RATES or self._interp_type is InterpTypes.LINEAR_FWD_RATES" = true) :
    DiscountCurveZeros_df K (.v (d :: ds)) = vecOf (scalarOf (DiscountCurveZeros_df K)) (d :: ds) := by
  cfgc K "isinstance(self.value_dt, Date) is False" <;> cfgc K "day_count is None" <;> vec_close DiscountCurveZeros_df

/-- `DiscountCurveZeros` inherits `df`: the two generated models are the same function -/
theorem DiscountCurveZeros_df_is_inherited (K : Kern α δ) (x : Val δ) : DiscountCurveZeros_df K x = DiscountCurve_df K x := rfl

/-- C18 (partial): `df_t` for the spline interpolation types, when no time is within `g_small` of 0 -/
theorem DiscountCurve_df_t_vec_partial (K : Kern α δ) (t : α) (ts : List α)
    (hsmall : ∀ x, K.tst "np.abs(_1) < g_small" x = false) :
    DiscountCurve_df_t K (.v (t :: ts)) = vecOf (scalarOf (DiscountCurve_df_t K)) (t :: ts) := by
  cfgc K "self._interp_type is InterpTypes.FLAT_FWD_RATES or self._interp_type is InterpTypes.LINEAR_ZERO_RATES or self._interp_type is InterpTypes.LINEAR_FWD_RATES" <;>
  cfgc K "self._interpolator._dfs is None" <;>
  cfgc K "self._interpolator._interp_type in [InterpTypes.PCHIP_LOG_DISCOUNT, InterpTypes.NATCUBIC_LOG_DISCOUNT]" <;>
  cfgc K "self._interpolator._interp_type in [InterpTypes.PCHIP_ZERO_RATES, InterpTypes.FINCUBIC_ZERO_RATES, InterpTypes.NATCUBIC_ZERO_RATES, InterpTypes.TENSION_ZERO_RATES]" <;>
  cfgc K "self._interpolator._interp_type == InterpTypes.LINEAR_ONFWD_RATES" <;>
  cfgc K "self._interpolator._interp_fn is None" <;>
  cfgc K "len(self._interpolator._dfs) == 0 or self._interpolator.times[0] == 0.0" <;>
  vec_close DiscountCurve_df_t

/-- COUNTEREXAMPLE on the date entry point: `df(value_dt)` = 1.0 but `df([value_dt])[0]` = exp(spline(0)) -/
theorem discount_curve_df_value_date_differs :
    DiscountCurve_df splineK (.s 0) = .ok (.s 1) ∧ DiscountCurve_df splineK (.v [0]) = .ok (.v [2]) := by
  constructor <;> simp [DiscountCurve_df, splineK, mapE]

/-! ### the rate-parameterised curves: `df` through `_zero_to_df` (scalar wrapped by `np.array([t])`, unwrapped by `[0]`) -/

macro "freq_cases " K:term:max : tactic =>
  `(tactic| (cfgc $K "isinstance(self.value_dt, Date) is False" <;> cfgc $K "self.dc_type is None" <;>
     cfgc $K "self.freq_type == FrequencyTypes.CONTINUOUS" <;> cfgc $K "self.freq_type == FrequencyTypes.SIMPLE" <;>
     cfgc $K "self.freq_type == FrequencyTypes.ANNUAL or self.freq_type == FrequencyTypes.SEMI_ANNUAL or self.freq_type == FrequencyTypes.QUARTERLY or (self.freq_type == FrequencyTypes.MONTHLY)"))

/-- C18: `DiscountCurveFlat.df(list)` = element-wise `df(date)`, every frequency and day count -/
theorem DiscountCurveFlat_df_vec (K : Kern α δ) (d : δ) (ds : List δ) :
    DiscountCurveFlat_df K (.v (d :: ds)) = vecOf (scalarOf (DiscountCurveFlat_df K)) (d :: ds) := by
  freq_cases K <;> vec_close DiscountCurveFlat_df

theorem DiscountCurveNS_df_vec (K : Kern α δ) (d : δ) (ds : List δ) :
    DiscountCurveNS_df K (.v (d :: ds)) = vecOf (scalarOf (DiscountCurveNS_df K)) (d :: ds) := by
  freq_cases K <;> vec_close DiscountCurveNS_df

theorem DiscountCurveNSS_df_vec (K : Kern α δ) (d : δ) (ds : List δ) :
    DiscountCurveNSS_df K (.v (d :: ds)) = vecOf (scalarOf (DiscountCurveNSS_df K)) (d :: ds) := by
  freq_cases K <;> vec_close DiscountCurveNSS_df

end FinVerif.Props.C18
