/-
  C19 (part a) — reproducibility as purity, the exact GBM step, antithetic estimators.
  All statements are about the hand-written model `FinVerif.Model.C19` (tied to the compiled kernels by
  the draw-for-draw correspondence of `harness/props/c19.py`), read over the reals (`R : Ops ℝ`).
-/
import FinVerif.Lemmas.C19

namespace FinVerif.Props.C19
open FinVerif.Model.C19 FinVerif.Lemmas.C19

/-! ### Reproducibility: the result is a function of (parameters, seed) only -/

/-- **seeded_history_independent** — a routine that seeds the generator first returns the same result AND
leaves the same generator state whatever global state it found (no leakage from earlier calls). -/
theorem seeded_history_independent {σ α π ρ : Type} (g : Gen σ α) (n : π → Nat) (f : π → List α → ρ)
    (p : π) (seed : Int) (st₁ st₂ : σ) :
    seededRoutine g n f p seed st₁ = seededRoutine g n f p seed st₂ := rfl

/-- **seeded_call_sequence_independent** — calling any other seeded routine in between does not change
the result: the second call's result does not depend on what the first call was. -/
theorem seeded_call_sequence_independent {σ α π ρ π' ρ' : Type} (g : Gen σ α) (n : π → Nat)
    (f : π → List α → ρ) (n' : π' → Nat) (f' : π' → List α → ρ') (p : π) (seed : Int) (p' : π') (seed' : Int)
    (st : σ) :
    (seededRoutine g n f p seed (seededRoutine g n' f' p' seed' st).2).1 = (seededRoutine g n f p seed st).1 := rfl

/-- **seeded_depends_on_draws_only** — two generators (NumPy's and Numba's, say) that deliver the same
draws for that seed give the same result: the seed enters only through the draws. -/
theorem seeded_depends_on_draws_only {σ σ' α π ρ : Type} (g : Gen σ α) (g' : Gen σ' α) (n : π → Nat)
    (f : π → List α → ρ) (p : π) (seed : Int) (st : σ) (st' : σ')
    (h : (g.draws (n p) (g.seed seed)).1 = (g'.draws (n p) (g'.seed seed)).1) :
    (seededRoutine g n f p seed st).1 = (seededRoutine g' n f p seed st').1 := by
  simp only [seededRoutine, h]

/-- the counter `0,1,2,…` as a generator; `seed k` starts at `k` -/
def counterGen : Gen Nat Nat := ⟨fun k => k.toNat, fun s => (s, s + 1)⟩

/-- **unseeded_routine_leaks** — without the `np.random.seed` call the same (parameters, seed) give
different results after different histories (kernel-checked instance). -/
theorem unseeded_routine_leaks :
    (unseededRoutine counterGen (fun _ : Unit => 2) (fun _ d => d) () 7 0).1
      ≠ (unseededRoutine counterGen (fun _ : Unit => 2) (fun _ d => d) () 7 5).1 := by
  decide

/-- every modelled estimator is a function of its draws (congruence; listed for the value_mc kernel) -/
theorem bsmcLoop_congr (o : Ops ℝ) (c : Bool) (s t k r q v : ℝ) (g₁ g₂ : List ℝ) (h : g₁ = g₂) :
    bsmcLoop o c s t k r q v g₁ = bsmcLoop o c s t k r q v g₂ := by rw [h]

/-! ### The exact GBM step -/

/-- **gbmUp_shape** — the coded step `s*m*w` is `S·exp((μ−σ²/2)dt + σ√dt·g)`. -/
theorem gbmUp_shape (mu sigma dt s g : ℝ) :
    gbmUp R (gbmM R mu sigma dt) (gbmVs R sigma dt) s g
      = s * Real.exp ((mu - sigma ^ 2 / 2) * dt + sigma * Real.sqrt dt * g) := by
  simp only [gbmUp, gbmM, gbmVs, R_exp, R_sqrt, R_two]
  rw [mul_assoc, ← Real.exp_add]
  congr 2; ring

/-- **gbmDn_shape** — the antithetic partner `s*m/w` is the same step at `−g`. -/
theorem gbmDn_shape (mu sigma dt s g : ℝ) :
    gbmDn R (gbmM R mu sigma dt) (gbmVs R sigma dt) s g
      = s * Real.exp ((mu - sigma ^ 2 / 2) * dt - sigma * Real.sqrt dt * g) := by
  simp only [gbmDn, gbmM, gbmVs, R_exp, R_sqrt, R_two]
  rw [mul_div_assoc, ← Real.exp_sub]
  congr 2; ring

theorem gbmDn_eq_gbmUp_neg (mu sigma dt s g : ℝ) :
    gbmDn R (gbmM R mu sigma dt) (gbmVs R sigma dt) s g
      = gbmUp R (gbmM R mu sigma dt) (gbmVs R sigma dt) s (-g) := by
  rw [gbmDn_shape, gbmUp_shape]; congr 2; ring

/-- **gbm_flow** — two steps compose by adding exponents (multiplicative flow property). -/
theorem gbm_flow (mu sigma dt₁ dt₂ s g₁ g₂ : ℝ) :
    gbmUp R (gbmM R mu sigma dt₂) (gbmVs R sigma dt₂) (gbmUp R (gbmM R mu sigma dt₁) (gbmVs R sigma dt₁) s g₁) g₂
      = s * Real.exp ((mu - sigma ^ 2 / 2) * (dt₁ + dt₂)
          + sigma * (Real.sqrt dt₁ * g₁ + Real.sqrt dt₂ * g₂)) := by
  rw [gbmUp_shape, gbmUp_shape, mul_assoc, ← Real.exp_add]
  congr 2; ring

/-- **gbm_path_terminal** — for every number of steps, the last point of a simulated path is
`S₀·exp(n(μ−σ²/2)dt + σ√dt·Σg)`. -/
theorem gbm_path_terminal (mu sigma dt s0 : ℝ) (gs : List ℝ) :
    (gbmPathUp R mu sigma dt s0 gs).getLast?
      = some (s0 * Real.exp (gs.length * ((mu - sigma ^ 2 / 2) * dt) + sigma * Real.sqrt dt * gs.sum)) := by
  unfold gbmPathUp
  rw [scan_getLast]
  congr 1
  induction gs generalizing s0 with
  | nil => simp [runL]
  | cons g gs ih =>
    rw [runL_cons, ih, gbmUp_shape, mul_assoc, ← Real.exp_add]
    congr 2
    simp only [List.length_cons, List.sum_cons, Nat.cast_add, Nat.cast_one]
    ring

theorem gbm_path_terminal_dn (mu sigma dt s0 : ℝ) (gs : List ℝ) :
    (gbmPathDn R mu sigma dt s0 gs).getLast?
      = some (s0 * Real.exp (gs.length * ((mu - sigma ^ 2 / 2) * dt) - sigma * Real.sqrt dt * gs.sum)) := by
  unfold gbmPathDn
  rw [scan_getLast]
  congr 1
  induction gs generalizing s0 with
  | nil => simp [runL]
  | cons g gs ih =>
    rw [runL_cons, ih, gbmDn_shape, mul_assoc, ← Real.exp_add]
    congr 2
    simp only [List.length_cons, List.sum_cons, Nat.cast_add, Nat.cast_one]
    ring

/-- **gbm_antithetic_pair_product** — the product of the terminal values of an antithetic pair is
deterministic: `(S₀·e^{n(μ−σ²/2)dt})²` whatever the draws. -/
theorem gbm_antithetic_pair_product (mu sigma dt s0 : ℝ) (gs : List ℝ) (a b : ℝ)
    (ha : (gbmPathUp R mu sigma dt s0 gs).getLast? = some a)
    (hb : (gbmPathDn R mu sigma dt s0 gs).getLast? = some b) :
    a * b = (s0 * Real.exp (gs.length * ((mu - sigma ^ 2 / 2) * dt))) ^ 2 := by
  rw [gbm_path_terminal] at ha
  rw [gbm_path_terminal_dn] at hb
  obtain rfl := Option.some.inj ha
  obtain rfl := Option.some.inj hb
  have hE : Real.exp (gs.length * ((mu - sigma ^ 2 / 2) * dt) + sigma * Real.sqrt dt * gs.sum)
      * Real.exp (gs.length * ((mu - sigma ^ 2 / 2) * dt) - sigma * Real.sqrt dt * gs.sum)
      = Real.exp (gs.length * ((mu - sigma ^ 2 / 2) * dt)) * Real.exp (gs.length * ((mu - sigma ^ 2 / 2) * dt)) := by
    rw [← Real.exp_add, ← Real.exp_add]; congr 1; ring
  rw [mul_mul_mul_comm, hE]; ring

/-! ### Cholesky-correlated draws -/

/-- **correlate_neg** — the correlated vector of the antithetic draws is the negated correlated vector
(so the coded `s*v/w` is the path of `−g`). -/
theorem correlate_neg (c : List (List ℝ)) (g : List ℝ) :
    correlate c (g.map Neg.neg) = (correlate c g).map Neg.neg := by
  unfold correlate
  rw [List.map_map]
  apply List.map_congr_left
  intro row hrow
  simp only [Function.comp, sumL_eq_sum]
  clear hrow c
  induction g generalizing row with
  | nil => simp
  | cons x xs ih =>
    cases row with
    | nil => simp
    | cons y ys =>
      simp only [List.map_cons, List.zipWith_cons_cons, List.sum_cons]; rw [ih]; ring

/-- **correlate_entry** — each correlated draw is the row of `c` against the draw vector, `Σ_b g_b·c_ab`
(row `a` of the Cholesky factor, not column `a`). -/
theorem correlate_entry (c : List (List ℝ)) (g : List ℝ) (a : Nat) (h : a < c.length) :
    (correlate c g)[a]'(by simpa [correlate] using h) = (List.zipWith (· * ·) g c[a]).sum := by
  simp [correlate, sumL_eq_sum]

/-! ### Antithetic estimators -/

/-- **bsmc_shapes_agree** — the three arithmetic shapes of the five `_value_mc_*` kernels are the same
real number for every list of draws. -/
theorem bsmc_shapes_agree (c : Bool) (s t k r q v : ℝ) (gs : List ℝ) :
    bsmcLoop R c s t k r q v gs = bsmcTwoAcc R c s t k r q v gs
      ∧ bsmcTwoAcc R c s t k r q v gs = bsmcVec R c s t k r q v gs := by
  constructor
  · simp only [bsmcLoop, bsmcTwoAcc, foldl_two_terms, sumL_eq_sum, R_two, zero_add]
    ring
  · simp only [bsmcTwoAcc, bsmcVec, meanL, sumL_eq_sum, R_two, List.length_map, R_exp]
    have e : ∀ g : ℝ, bsSS R s t r q v / Real.exp (g * (v * R.sqrt t))
        = bsSS R s t r q v * Real.exp (-g * (v * R.sqrt t)) := by
      intro g; rw [div_eq_mul_inv, ← Real.exp_neg]; congr 2; ring
    simp only [e]
    ring

/-- **bsmc_antithetic_symm** — `estimate(z) = estimate(−z)`: flipping the sign of every draw leaves the
estimate unchanged (the pair `(s_1, s_2)` is swapped). -/
theorem bsmc_antithetic_symm (c : Bool) (s t k r q v : ℝ) (gs : List ℝ) :
    bsmcLoop R c s t k r q v (gs.map Neg.neg) = bsmcLoop R c s t k r q v gs := by
  simp only [bsmcLoop, foldl_two_terms, List.map_map, List.length_map, zero_add]
  congr 3
  have h1 : ((fun g => payoff R c k (bsSS R s t r q v * R.exp (g * (v * R.sqrt t)))) ∘ Neg.neg)
      = fun g => payoff R c k (bsSS R s t r q v * R.exp (-g * (v * R.sqrt t))) := by
    funext g; simp [Function.comp]
  have h2 : ((fun g => payoff R c k (bsSS R s t r q v * R.exp (-g * (v * R.sqrt t)))) ∘ Neg.neg)
      = fun g => payoff R c k (bsSS R s t r q v * R.exp (g * (v * R.sqrt t))) := by
    funext g; simp [Function.comp]
  rw [h1, h2]; ring

/-- **antithetic_symm** — the generic antithetic estimator of any payoff is even in the draws. -/
theorem antithetic_symm (f : ℝ → ℝ) (df : ℝ) (gs : List ℝ) :
    antitheticEstimate R f df (gs.map Neg.neg) = antitheticEstimate R f df gs := by
  simp only [antitheticEstimate, meanL, List.map_map, List.length_map]
  congr 3
  apply List.map_congr_left
  intro g _
  simp only [Function.comp, neg_neg]; ring

/-- **antithetic_linear_payoff** — for a payoff that is linear in the draw the antithetic pair average is
the value at `z = 0`, so the estimate is exact (`df·a`) for every non-empty sample. -/
theorem antithetic_linear_payoff (a b df : ℝ) (gs : List ℝ) (hne : gs ≠ []) :
    antitheticEstimate R (fun z => a + b * z) df gs = df * a := by
  simp only [antitheticEstimate, meanL, sumL_eq_sum, R_two, List.length_map]
  have h : (gs.map fun g => (a + b * g + (a + b * -g)) / 2) = gs.map fun _ => a := by
    apply List.map_congr_left; intro g _; ring
  rw [h, List.map_const', List.sum_replicate, nsmul_eq_mul]
  have : (gs.length : ℝ) ≠ 0 := by
    simpa using hne
  field_simp

/-- the terminal forward: the antithetic average of `S_T` itself is `ss·cosh(v√t·g)` -/
theorem antithetic_pair_forward (ss vst g : ℝ) :
    (ss * Real.exp (g * vst) + ss * Real.exp (-g * vst)) / 2 = ss * Real.cosh (g * vst) := by
  rw [Real.cosh_eq]; ring_nf

example : antitheticEstimate R (fun z => 3 + 2 * z) 1 [0.3, -1.2] = 3 := by
  rw [antithetic_linear_payoff 3 2 1 _ (by simp)]; ring

end FinVerif.Props.C19
