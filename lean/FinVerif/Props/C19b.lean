/-
  C19 (part b) — first-moment algebra of the short-rate and Heston schemes (pairing identities: the sum
  of a step at `z` and at `−z`, which is twice the conditional mean whenever `E z = 0`, `E z² = 1`),
  the antithetic Vasicek path, the LMM driftless forward, and the default-time map as the inverse of the
  survival curve.  Exact algebra over the reals; no measure theory.
-/
import FinVerif.Lemmas.C19
import FinVerif.Spec.C19

namespace FinVerif.Props.C19
open FinVerif FinVerif.Model.C19 FinVerif.Lemmas.C19 FinVerif.Spec.C19

/-! ### Vasicek -/

/-- **vasStep_pairing** — `step(z) + step(−z) = 2·(x + κ(θ−x)dt)`. -/
theorem vasStep_pairing (a b dt ssd r z : ℝ) :
    vasStep a b dt ssd r z + vasStep a b dt ssd r (-z) = 2 * eulerMean a b dt r := by
  unfold vasStep eulerMean; ring

theorem vasStepAnti_eq (a b dt ssd r z : ℝ) : vasStepAnti a b dt ssd r z = vasStep a b dt ssd r (-z) := by
  unfold vasStepAnti vasStep; ring

/-- **vas_antithetic_mean_path** — for every number of steps and every draws, the average of the two
antithetic Vasicek paths is the deterministic Euler mean recursion (no sampling error in the mean). -/
theorem vas_antithetic_mean_path (a b dt ssd : ℝ) (zs : List ℝ) (r1 r2 : ℝ) :
    (runL (vasStep a b dt ssd) r1 zs + runL (vasStepAnti a b dt ssd) r2 zs) / 2
      = (eulerMean a b dt)^[zs.length] ((r1 + r2) / 2) := by
  induction zs generalizing r1 r2 with
  | nil => simp [runL]
  | cons z zs ih =>
    rw [runL_cons, runL_cons, ih, List.length_cons, Function.iterate_succ_apply]
    congr 1
    unfold vasStep vasStepAnti eulerMean; ring

/-- **euler_mean_closed_form** — the Euler mean after `n` steps: `θ + (x−θ)(1−κdt)ⁿ`. -/
theorem euler_mean_closed_form (a b dt x : ℝ) (n : ℕ) :
    (eulerMean a b dt)^[n] x = b + (x - b) * (1 - a * dt) ^ n := by
  induction n generalizing x with
  | zero => simp
  | succ n ih => rw [Function.iterate_succ_apply, ih]; unfold eulerMean; ring

/-- one path of `zero_price_mc`: the accumulated integral is `dt·Σ r_k` over the states AFTER each step
(right-endpoint rule). -/
theorem vasAccum_snd (a b dt ssd : ℝ) (zs : List ℝ) (r acc : ℝ) :
    (runL (vasAccum a b dt ssd) (r, acc) zs).2
      = acc + dt * (((scan (vasStep a b dt ssd) r zs).drop 1).sum) := by
  induction zs generalizing r acc with
  | nil => simp [runL, scan]
  | cons z zs ih =>
    rw [runL_cons]
    simp only [vasAccum]
    rw [ih]
    cases zs with
    | nil => simp [scan]; ring
    | cons z' zs' => simp only [scan, List.drop_succ_cons, List.drop_zero, List.sum_cons]; ring

/-! ### CIR -/

/-- **cirEulerPS_pairing** — `get_cir_paths` EULER: `2·(r + κ(θ − r⁺)dt)` (full truncation in the drift). -/
theorem cirEulerPS_pairing (kappa theta dt ssd r z : ℝ) :
    cirEulerPS R kappa theta dt ssd r z + cirEulerPS R kappa theta dt ssd r (-z)
      = 2 * (r + kappa * (theta - max r 0) * dt) := by
  simp only [cirEulerPS, R_max, R_sqrt]; ring

/-- **cirEulerMC_pairing** — `cir_montecarlo` EULER: `2·(r + a(b−r)dt)`. -/
theorem cirEulerMC_pairing (a b dt ssd r z : ℝ) :
    cirEulerMC R a b dt ssd r z + cirEulerMC R a b dt ssd r (-z) = 2 * eulerMean a b dt r := by
  simp only [cirEulerMC, eulerMean, R_max, R_sqrt]; ring

/-- **cirMilstein_pairing** — the Milstein correction is even in `z`: the pair sum is
`2·(r + κ(θ−r)dt + σ²dt/4·(z²−1))`, whose mean is the Euler mean when `E z² = 1`. -/
theorem cirMilstein_pairing (kappa theta sigma dt r z : ℝ) :
    cirMilstein R kappa theta sigma dt r z + cirMilstein R kappa theta sigma dt r (-z)
      = 2 * (eulerMean kappa theta dt r + sigma ^ 2 * dt / 4 * (z ^ 2 - 1)) := by
  simp only [cirMilstein, eulerMean, R_max, R_sqrt, R_four]; ring

/-- **cirKJ_pairing** — Kahl–Jäckel as coded: the pair sum is
`2·(r + κ(b̂−r)(1−κdt/2)dt + σ²z²dt/4)` with `b̂ = θ − σ²/(4κ)`. -/
theorem cirKJ_pairing (fl kappa theta sigma dt r z : ℝ) (hdt : 0 < dt) (hr : 0 < max r fl) :
    cirKJ R fl kappa theta sigma dt r z + cirKJ R fl kappa theta sigma dt r (-z)
      = 2 * (r + kappa * (theta - sigma ^ 2 / 4 / kappa - r) * (1 - kappa * dt / 2) * dt
              + sigma ^ 2 * z ^ 2 * dt / 4) := by
  simp only [cirKJ, R_max, R_sqrt, R_four, R_two]
  have h1 : Real.sqrt dt ≠ 0 := (Real.sqrt_pos.mpr hdt).ne'
  have h2 : Real.sqrt (max r fl) ≠ 0 := (Real.sqrt_pos.mpr hr).ne'
  have h3 : Real.sqrt dt * Real.sqrt dt = dt := Real.mul_self_sqrt hdt.le
  field_simp
  ring_nf
  have h4 : Real.sqrt dt ^ 2 = dt := by rw [sq]; exact h3
  simp only [h4]
  ring

/-- the moment-matched lognormal scheme has the form `mean·exp(−s²/2 + s·z)` (a driftless exact GBM step
of the conditional mean) -/
theorem cirLognormal_shape (kappa theta sigma dt r : ℝ) :
    ∃ mean s : ℝ, mean = Real.exp (-kappa * dt) * r + theta * (1 - Real.exp (-kappa * dt))
      ∧ ∀ z, cirLognormal R kappa theta sigma dt r z = mean * Real.exp (-(s ^ 2) / 2 + s * z) := by
  refine ⟨_, Real.sqrt (Real.log (1 + sigma * sigma * (1 - Real.exp (-kappa * dt))
      * (Real.exp (-kappa * dt) * r + 1 / 2 * theta * (1 - Real.exp (-kappa * dt))) / kappa
      / ((Real.exp (-kappa * dt) * r + theta * (1 - Real.exp (-kappa * dt)))
        * (Real.exp (-kappa * dt) * r + theta * (1 - Real.exp (-kappa * dt)))))), rfl, ?_⟩
  intro z
  simp only [cirLognormal, R_exp, R_log, R_sqrt, R_half]
  congr 2; ring

/-! ### Heston -/

/-- **hestonEulerLog_pairing** — EULERLOG: flipping both normals, the log-price pair sum is
`2·(x + (μ − v⁺/2)dt)` and the variance pair sum `2·(v + κ(θ−v⁺)dt + σ²/4·(z_V² − dt))`. -/
theorem hestonEulerLog_pairing (mu kappa theta sigma rho dt x v n1 n2 : ℝ) :
    let a := hestonEulerLog R mu kappa theta sigma rho dt (x, v) (n1, n2)
    let b := hestonEulerLog R mu kappa theta sigma rho dt (x, v) (-n1, -n2)
    a.1 + b.1 = 2 * (x + (mu - max v 0 / 2) * dt)
      ∧ a.2 + b.2 = 2 * (v + kappa * (theta - max v 0) * dt
          + sigma ^ 2 / 4 * ((n1 * Real.sqrt dt) ^ 2 - dt)) := by
  simp only [hestonEulerLog, R_max, R_sqrt, R_four, R_half]
  constructor <;> ring

/-- **hestonEuler_pairing** — EULER: the asset pair sum is `2·s·(1 + μdt) + s·v⁺·(z_V² − dt)`; its mean is
`2·s·(1+μdt)` when `E z_V² = dt` (the discounted asset is a martingale to first order). -/
theorem hestonEuler_pairing (mu kappa theta sigma rho dt s v n1 n2 : ℝ) :
    let a := hestonEuler R mu kappa theta sigma rho dt (s, v) (n1, n2)
    let b := hestonEuler R mu kappa theta sigma rho dt (s, v) (-n1, -n2)
    a.1 + b.1 = 2 * s * (1 + mu * dt) + s * max v 0 * ((n1 * Real.sqrt dt) ^ 2 - dt)
      ∧ a.2 + b.2 = 2 * (v + kappa * (theta - max v 0) * dt
          + sigma ^ 2 / 4 * ((n1 * Real.sqrt dt) ^ 2 - dt)) := by
  simp only [hestonEuler, R_max, R_sqrt, R_quarter, R_half]
  constructor <;> ring

/-! ### LMM, one factor -/

/-- **lmm_numeraire_forward_driftless** — the forward that resets next (`k = j`) has no drift term: its step
is the driftless exact GBM step `f·exp(−γ²dt/2 + γ·w·√dt)`. -/
theorem lmm_numeraire_forward_driftless (dtj w : ℝ) (cur taus gammas : List ℝ) :
    lmmStep1F R dtj w cur taus gammas 0
      = cur.getD 0 0 * Real.exp (-(gammas.getD 0 0) ^ 2 / 2 * dtj + gammas.getD 0 0 * w * Real.sqrt dtj) := by
  simp only [lmmStep1F, lmmDrift, List.range_zero, List.map_nil, List.foldl_nil, R_exp, R_sqrt, R_half]
  congr 2; ring

/-- **lmm_zero_vol_constant** — with zero volatility a forward does not move. -/
theorem lmm_zero_vol_constant (dtj w : ℝ) (cur taus gammas : List ℝ) (m : ℕ) (h : gammas.getD m 0 = 0) :
    lmmStep1F R dtj w cur taus gammas m = cur.getD m 0 := by
  have hz : ∀ (l : List (ℝ × ℝ × ℝ)), lmmDrift (0 : ℝ) l = 0 := by
    intro l; unfold lmmDrift
    induction l with
    | nil => simp
    | cons x xs _ => simp only [List.foldl_cons]; simp
  simp only [lmmStep1F, h, hz, R_exp, R_half]
  simp

/-- **lmm_antithetic_pair** — the step at `−w` is the step at `w` with the diffusion sign flipped, in
particular `step(w)·step(−w)` of the driftless forward is `f²·exp(−γ²dt)`. -/
theorem lmm_driftless_pair_product (dtj w : ℝ) (cur taus gammas : List ℝ) :
    lmmStep1F R dtj w cur taus gammas 0 * lmmStep1F R dtj (-w) cur taus gammas 0
      = (cur.getD 0 0) ^ 2 * Real.exp (-(gammas.getD 0 0) ^ 2 * dtj) := by
  rw [lmm_numeraire_forward_driftless, lmm_numeraire_forward_driftless, mul_mul_mul_comm, ← Real.exp_add,
    ← sq (cur.getD 0 0)]
  congr 2; ring

/-! ### Default time: the inverse of the survival curve -/

/-- **invSurvival_inverse** — `Q(uniform_to_default_time(u)) = u` on a bracket `(t₁,q₁)`–`(t₂,q₂)` of a
piecewise-flat-hazard curve (interpolation kernel as coded). -/
theorem invSurvival_inverse (t1 q1 t2 q2 u : ℝ) (hq1 : 0 < q1) (hq2 : 0 < q2) (hu : 0 < u)
    (hq : q2 ≠ q1) (ht : t1 ≠ t2) :
    flatHazardQ t1 q1 t2 q2 (invSurvival R t1 q1 t2 q2 u) = u := by
  unfold flatHazardQ invSurvival
  simp only [R_log]
  have hl : Real.log (q2 / q1) ≠ 0 := by
    rw [Real.log_div hq2.ne' hq1.ne']
    intro h
    exact hq (Real.log_injOn_pos (Set.mem_Ioi.mpr hq2) (Set.mem_Ioi.mpr hq1) (by linarith))
  have e : -(Real.log (q1 / q2) / (t2 - t1))
      * ((t1 * Real.log (q2 / u) + t2 * Real.log (u / q1)) / Real.log (q2 / q1) - t1) = Real.log (u / q1) := by
    rw [Real.log_div hq1.ne' hq2.ne', Real.log_div hq2.ne' hu.ne', Real.log_div hu.ne' hq1.ne'] at *
    rw [Real.log_div hq2.ne' hq1.ne'] at hl ⊢
    have ht' : t2 - t1 ≠ 0 := sub_ne_zero.mpr (Ne.symm ht)
    field_simp
    ring
  rw [e, Real.exp_log (div_pos hu hq1)]
  field_simp

/-- **invSurvival_in_bracket** — for `q₂ < u ≤ q₁` the default time lies in `[t₁, t₂)`. -/
theorem invSurvival_in_bracket (t1 q1 t2 q2 u : ℝ) (hq2 : 0 < q2) (hlo : q2 < u) (hhi : u ≤ q1) (ht : t1 < t2) :
    t1 ≤ invSurvival R t1 q1 t2 q2 u ∧ invSurvival R t1 q1 t2 q2 u < t2 := by
  have hu : 0 < u := lt_trans hq2 hlo
  have hq1 : 0 < q1 := lt_of_lt_of_le hu hhi
  unfold invSurvival
  simp only [R_log]
  rw [Real.log_div hq2.ne' hu.ne', Real.log_div hu.ne' hq1.ne', Real.log_div hq2.ne' hq1.ne']
  have h21 : Real.log q2 < Real.log q1 := Real.log_lt_log hq2 (lt_of_lt_of_le hlo hhi)
  have h2u : Real.log q2 < Real.log u := Real.log_lt_log hq2 hlo
  have hu1 : Real.log u ≤ Real.log q1 := Real.log_le_log hu hhi
  have hneg : Real.log q2 - Real.log q1 < 0 := by linarith
  constructor
  · rw [le_div_iff_of_neg hneg]; nlinarith
  · rw [div_lt_iff_of_neg hneg]; nlinarith

/-- **invSurvival_strictAnti** — on a bracket the map `u ↦ τ(u)` is strictly decreasing: a smaller uniform is
a later default. -/
theorem invSurvival_strictAnti (t1 q1 t2 q2 u u' : ℝ) (hq1 : 0 < q1) (hq2 : q2 < q1) (hq2' : 0 < q2)
    (hu : 0 < u) (huu : u < u') (ht : t1 < t2) :
    invSurvival R t1 q1 t2 q2 u' < invSurvival R t1 q1 t2 q2 u := by
  have hu' : 0 < u' := lt_trans hu huu
  unfold invSurvival
  simp only [R_log]
  rw [Real.log_div hq2'.ne' hu.ne', Real.log_div hu.ne' hq1.ne', Real.log_div hq2'.ne' hq1.ne',
    Real.log_div hq2'.ne' hu'.ne', Real.log_div hu'.ne' hq1.ne']
  have h21 : Real.log q2 < Real.log q1 := Real.log_lt_log hq2' hq2
  have hlu : Real.log u < Real.log u' := Real.log_lt_log hu huu
  have hneg : Real.log q2 - Real.log q1 < 0 := by linarith
  rw [div_lt_div_right_of_neg hneg]
  nlinarith

/-- **default_time_law_kernel** — for `t` inside the bracket, `τ(u) > t ⇔ u < Q(t)`: under a uniform `u`
the event `{τ > t}` is the interval below the survival probability, i.e. `P(τ > t) = Q(t)`. -/
theorem default_time_law_kernel (t1 q1 t2 q2 u t : ℝ) (hq1 : 0 < q1) (hq2 : q2 < q1) (hq2' : 0 < q2)
    (hu : 0 < u) (ht : t1 < t2) :
    t < invSurvival R t1 q1 t2 q2 u ↔ u < flatHazardQ t1 q1 t2 q2 t := by
  have key : invSurvival R t1 q1 t2 q2 (flatHazardQ t1 q1 t2 q2 t) = t := by
    unfold invSurvival flatHazardQ
    simp only [R_log]
    have hpos : 0 < q1 * Real.exp (-(Real.log (q1 / q2) / (t2 - t1)) * (t - t1)) :=
      mul_pos hq1 (Real.exp_pos _)
    rw [Real.log_div hq2'.ne' hpos.ne', Real.log_div hpos.ne' hq1.ne', Real.log_div hq2'.ne' hq1.ne',
      Real.log_mul hq1.ne' (Real.exp_pos _).ne', Real.log_exp, Real.log_div hq1.ne' hq2'.ne']
    have h21 : Real.log q2 - Real.log q1 ≠ 0 := by
      have := Real.log_lt_log hq2' hq2; linarith
    have ht' : t2 - t1 ≠ 0 := by linarith
    field_simp
    ring
  have hQ : 0 < flatHazardQ t1 q1 t2 q2 t := mul_pos hq1 (Real.exp_pos _)
  constructor
  · intro h
    by_contra hcon
    rcases (not_lt.mp hcon).lt_or_eq with h' | h'
    · have := invSurvival_strictAnti t1 q1 t2 q2 _ _ hq1 hq2 hq2' hQ h' ht
      rw [key] at this; linarith
    · rw [← h', key] at h; exact lt_irrefl _ h
  · intro h
    have := invSurvival_strictAnti t1 q1 t2 q2 _ _ hq1 hq2 hq2' hu h ht
    rwa [key] at this

/-- the search loop returns either 0 (no bracket) or an index whose neighbours bracket `u` -/
theorem findBracket_spec (u : ℝ) (vs : List ℝ) (k : ℕ) (hk : 1 ≤ k) (i : ℕ)
    (h : findBracket u k vs = i) (hi : i ≠ 0) :
    k ≤ i ∧ i - k + 1 < vs.length ∧ u ≤ vs.getD (i - k) 0 ∧ vs.getD (i - k + 1) 0 < u := by
  induction vs generalizing k with
  | nil => simp [findBracket] at h; exact absurd h.symm hi
  | cons a rest ih =>
    cases rest with
    | nil => simp [findBracket] at h; exact absurd h.symm hi
    | cons b rest' =>
      simp only [findBracket] at h
      split at h
      · rename_i hc
        subst h
        simp [hc.1, hc.2]
      · have := ih (k + 1) (by omega) h
        obtain ⟨h1, h2, h3, h4⟩ := this
        refine ⟨by omega, ?_, ?_, ?_⟩
        · simp only [List.length_cons] at h2 ⊢; omega
        · have e : i - k = (i - (k + 1)) + 1 := by omega
          rw [e, List.getD_cons_succ]; exact h3
        · have e : i - k + 1 = (i - (k + 1) + 1) + 1 := by omega
          rw [e, List.getD_cons_succ]; exact h4

/-- **uniformToDefaultTime_inverse** — the routine as coded (search loop, index arithmetic, interpolation):
whenever the loop finds a bracket `i ≥ 1` on a curve with positive, strictly decreasing survival values at
the bracket and increasing times, the returned time lies in `[t_{i−1}, t_i)` and the curve's survival
probability at that time is `u`. -/
theorem uniformToDefaultTime_inverse (u : ℝ) (t v : List ℝ) (i : ℕ) (hu0 : 0 < u) (hu1 : u < 1)
    (hi : findBracket u 1 v = i) (hpos : i ≠ 0) (hlen : t.length = v.length)
    (hv : 0 < v.getD i 0) (ht : t.getD (i - 1) 0 < t.getD i 0) :
    let tau := uniformToDefaultTime R u t v
    t.getD (i - 1) 0 ≤ tau ∧ tau < t.getD i 0
      ∧ flatHazardQ (t.getD (i - 1) 0) (v.getD (i - 1) 0) (t.getD i 0) (v.getD i 0) tau = u := by
  obtain ⟨h1, h2, h3, h4⟩ := findBracket_spec u v 1 le_rfl i hi hpos
  have e1 : i - 1 + 1 = i := by omega
  rw [e1] at h2 h4
  have hidx : ∀ l : List ℝ, l.length = v.length → pyIdxD l ((i : Int) - 1) 0 = l.getD (i - 1) 0 := by
    intro l hl
    unfold pyIdxD pyIdx?
    have : (0 : Int) ≤ (i : Int) - 1 ∧ (i : Int) - 1 < (l.length : Int) := by omega
    simp only [this, and_self, if_true]
    have e : ((i : Int) - 1).toNat = i - 1 := by omega
    rw [e]; simp [List.getD]
  have hτ : uniformToDefaultTime R u t v
      = invSurvival R (t.getD (i - 1) 0) (v.getD (i - 1) 0) (t.getD i 0) (v.getD i 0) u := by
    unfold uniformToDefaultTime
    have n0 : ¬ (u ≤ 0 ∧ 0 ≤ u) := fun h => absurd h.1 (not_le.mpr hu0)
    have n1 : ¬ (u ≤ 1 ∧ 1 ≤ u) := fun h => absurd h.2 (not_le.mpr hu1)
    simp only [n0, n1, if_false, hi, hidx t hlen, hidx v rfl]
  intro tau
  have hq1 : 0 < v.getD (i - 1) 0 := lt_of_lt_of_le hu0 h3
  have hb := invSurvival_in_bracket _ _ _ _ u hv h4 h3 ht
  refine ⟨by simpa [tau, hτ] using hb.1, by simpa [tau, hτ] using hb.2, ?_⟩
  simp only [tau, hτ]
  exact invSurvival_inverse _ _ _ _ u hq1 hv hu0 (ne_of_lt (lt_of_lt_of_le h4 h3)) (ne_of_lt ht)

example : findBracket (0.95 : ℝ) 1 [1, 0.97, 0.93] = 2 := by
  norm_num [findBracket]

end FinVerif.Props.C19
