/-
  C19 (part c) — first moments under the standard normal law (Mathlib `gaussianReal 0 1`):
  the exact GBM step is a martingale after discounting (one application of the Gaussian moment generating
  function), its antithetic partner too, the moment-matched CIR step and the driftless LMM forward have the
  stated mean, and the Vasicek / CIR Euler steps have conditional mean `x + κ(θ−x)dt`.
-/
import FinVerif.Lemmas.C19
import FinVerif.Spec.C19
import FinVerif.Props.C19a
import FinVerif.Props.C19b
import Mathlib.Probability.Distributions.Gaussian.Real
import Mathlib.Probability.Moments.Basic

namespace FinVerif.Props.C19
open FinVerif.Model.C19 FinVerif.Lemmas.C19 FinVerif.Spec.C19 MeasureTheory ProbabilityTheory

/-- the standard normal law of one draw -/
noncomputable abbrev stdNormal : Measure ℝ := gaussianReal 0 1

/-- `E[exp(c·Z)] = exp(c²/2)` for a standard normal `Z` -/
theorem integral_exp_mul_stdNormal (c : ℝ) : ∫ z, Real.exp (c * z) ∂stdNormal = Real.exp (c ^ 2 / 2) := by
  have h := congrFun (mgf_id_gaussianReal (μ := 0) (v := 1)) c
  simp only [mgf, id, NNReal.coe_one, zero_mul, one_mul, zero_add] at h
  exact h

/-- `E[a·exp(b + c·Z)] = a·exp(b + c²/2)` -/
theorem integral_lognormal (a b c : ℝ) :
    ∫ z, a * Real.exp (b + c * z) ∂stdNormal = a * Real.exp (b + c ^ 2 / 2) := by
  have : (fun z : ℝ => a * Real.exp (b + c * z)) = fun z => (a * Real.exp b) * Real.exp (c * z) := by
    funext z; rw [Real.exp_add]; ring
  rw [this, integral_const_mul, integral_exp_mul_stdNormal, Real.exp_add]; ring

/-- **gbm_step_martingale** — `E[S·exp((μ−σ²/2)dt + σ√dt·Z)]·e^{−μ·dt} = S` for the step AS CODED
(`μ = r − q`): the discounted, dividend-adjusted asset is a martingale over one step. -/
theorem gbm_step_martingale (mu sigma dt s : ℝ) (hdt : 0 ≤ dt) :
    (∫ z, gbmUp R (gbmM R mu sigma dt) (gbmVs R sigma dt) s z ∂stdNormal) * Real.exp (-mu * dt) = s := by
  simp only [gbmUp_shape]
  rw [integral_lognormal, mul_assoc, ← Real.exp_add]
  have h : (sigma * Real.sqrt dt) ^ 2 = sigma ^ 2 * dt := by
    rw [mul_pow, Real.sq_sqrt hdt]
  rw [h]
  have : (mu - sigma ^ 2 / 2) * dt + sigma ^ 2 * dt / 2 + -mu * dt = 0 := by ring
  rw [this, Real.exp_zero, mul_one]

/-- **gbm_antithetic_step_martingale** — the antithetic partner `s*m/w` has the same mean. -/
theorem gbm_antithetic_step_martingale (mu sigma dt s : ℝ) (hdt : 0 ≤ dt) :
    (∫ z, gbmDn R (gbmM R mu sigma dt) (gbmVs R sigma dt) s z ∂stdNormal) * Real.exp (-mu * dt) = s := by
  simp only [gbmDn_shape]
  have : (fun z : ℝ => s * Real.exp ((mu - sigma ^ 2 / 2) * dt - sigma * Real.sqrt dt * z))
      = fun z => s * Real.exp ((mu - sigma ^ 2 / 2) * dt + (-(sigma * Real.sqrt dt)) * z) := by
    funext z; congr 2; ring
  rw [this, integral_lognormal, mul_assoc, ← Real.exp_add]
  have h : (-(sigma * Real.sqrt dt)) ^ 2 = sigma ^ 2 * dt := by
    rw [neg_sq, mul_pow, Real.sq_sqrt hdt]
  rw [h]
  have : (mu - sigma ^ 2 / 2) * dt + sigma ^ 2 * dt / 2 + -mu * dt = 0 := by ring
  rw [this, Real.exp_zero, mul_one]

/-- **gbm_step_wrong_drift_not_martingale** — the same step WITHOUT the `−σ²/2` correction is not a
martingale: its discounted mean is `S·exp(σ²dt/2) ≠ S` whenever `σ²dt > 0`, `S ≠ 0`. -/
theorem gbm_step_wrong_drift_not_martingale (mu sigma dt s : ℝ) (hdt : 0 < dt) (hs : s ≠ 0) (hsig : sigma ≠ 0) :
    (∫ z, s * Real.exp (mu * dt + sigma * Real.sqrt dt * z) ∂stdNormal) * Real.exp (-mu * dt) ≠ s := by
  rw [integral_lognormal, mul_assoc, ← Real.exp_add]
  have h : (sigma * Real.sqrt dt) ^ 2 = sigma ^ 2 * dt := by
    rw [mul_pow, Real.sq_sqrt hdt.le]
  rw [h]
  have e : mu * dt + sigma ^ 2 * dt / 2 + -mu * dt = sigma ^ 2 * dt / 2 := by ring
  rw [e]
  intro hcon
  have hpos : 0 < sigma ^ 2 * dt / 2 := by positivity
  have h1 : Real.exp (sigma ^ 2 * dt / 2) = 1 := by
    have := mul_left_cancel₀ hs (hcon.trans (mul_one s).symm)
    exact this
  have := Real.add_one_lt_exp hpos.ne'
  linarith

/-- `E[Z] = 0`, and `Z` is integrable -/
theorem integral_id_stdNormal : ∫ z, z ∂stdNormal = 0 := integral_id_gaussianReal

theorem integrable_id_stdNormal : Integrable (fun z : ℝ => z) stdNormal := by
  exact (memLp_id_gaussianReal' (μ := 0) (v := 1) 1 ENNReal.one_ne_top).integrable le_rfl

/-- `E[a + c·Z] = a` -/
theorem integral_affine (a c : ℝ) : ∫ z, a + z * c ∂stdNormal = a := by
  rw [integral_add (integrable_const _) (integrable_id_stdNormal.mul_const c), integral_mul_const,
    integral_id_stdNormal]
  simp

/-- **vasStep_mean** — Vasicek Euler step: `E[step(Z)] = x + κ(θ−x)dt`. -/
theorem vasStep_mean (a b dt ssd r : ℝ) : ∫ z, vasStep a b dt ssd r z ∂stdNormal = eulerMean a b dt r := by
  unfold vasStep eulerMean
  exact integral_affine _ _

/-- **cirEulerMC_mean** — `cir_montecarlo` Euler step: `E[step(Z)] = x + a(b−x)dt`. -/
theorem cirEulerMC_mean (a b dt ssd r : ℝ) : ∫ z, cirEulerMC R a b dt ssd r z ∂stdNormal = eulerMean a b dt r := by
  have : (fun z => cirEulerMC R a b dt ssd r z)
      = fun z => (r + a * (b - r) * dt) + z * (ssd * Real.sqrt (max r 0)) := by
    funext z; simp only [cirEulerMC, R_max, R_sqrt]; ring
  rw [this]; exact integral_affine _ _

/-- **cirEulerPS_mean** — `get_cir_paths` Euler step (full truncation): `E[step(Z)] = x + κ(θ−x⁺)dt`. -/
theorem cirEulerPS_mean (kappa theta dt ssd r : ℝ) :
    ∫ z, cirEulerPS R kappa theta dt ssd r z ∂stdNormal = r + kappa * (theta - max r 0) * dt := by
  have : (fun z => cirEulerPS R kappa theta dt ssd r z)
      = fun z => (r + kappa * (theta - max r 0) * dt) + z * (ssd * Real.sqrt (max r 0)) := by
    funext z; simp only [cirEulerPS, R_max, R_sqrt]; ring
  rw [this]; exact integral_affine _ _

/-- **cirLognormal_mean** — the moment-matched lognormal CIR step has the exact CIR conditional mean
`e^{−κdt}·r + θ(1−e^{−κdt})`. -/
theorem cirLognormal_mean (kappa theta sigma dt r : ℝ) :
    ∫ z, cirLognormal R kappa theta sigma dt r z ∂stdNormal
      = Real.exp (-kappa * dt) * r + theta * (1 - Real.exp (-kappa * dt)) := by
  obtain ⟨mean, s, hm, hall⟩ := cirLognormal_shape kappa theta sigma dt r
  simp only [hall]
  rw [integral_lognormal, hm]
  have : -(s ^ 2) / 2 + s ^ 2 / 2 = 0 := by ring
  rw [this, Real.exp_zero, mul_one]

/-- **lmm_numeraire_forward_martingale** — the forward that resets next is a martingale over the step:
`E[f·exp(−γ²dt/2 + γ√dt·Z)] = f`. -/
theorem lmm_numeraire_forward_martingale (dtj : ℝ) (hdt : 0 ≤ dtj) (cur taus gammas : List ℝ) :
    ∫ w, lmmStep1F R dtj w cur taus gammas 0 ∂stdNormal = cur.getD 0 0 := by
  simp only [lmm_numeraire_forward_driftless]
  have : (fun w : ℝ => cur.getD 0 0 * Real.exp (-(gammas.getD 0 0) ^ 2 / 2 * dtj + gammas.getD 0 0 * w * Real.sqrt dtj))
      = fun w => cur.getD 0 0 * Real.exp (-(gammas.getD 0 0) ^ 2 / 2 * dtj + (gammas.getD 0 0 * Real.sqrt dtj) * w) := by
    funext w; congr 2; ring
  rw [this, integral_lognormal]
  have h : (gammas.getD 0 0 * Real.sqrt dtj) ^ 2 = (gammas.getD 0 0) ^ 2 * dtj := by
    rw [mul_pow, Real.sq_sqrt hdt]
  rw [h]
  have : -(gammas.getD 0 0) ^ 2 / 2 * dtj + (gammas.getD 0 0) ^ 2 * dtj / 2 = 0 := by ring
  rw [this, Real.exp_zero, mul_one]

/-- **antithetic_pair_unbiased** — for any integrable payoff the antithetic pair average has the same mean
as the plain payoff (the standard normal law is symmetric). -/
theorem antithetic_pair_unbiased (f : ℝ → ℝ) (hf : Integrable f stdNormal) :
    ∫ z, (f z + f (-z)) / 2 ∂stdNormal = ∫ z, f z ∂stdNormal := by
  have hneg : stdNormal.map (fun z => -z) = stdNormal := by
    simpa using gaussianReal_map_neg (μ := 0) (v := 1)
  have hf' : Integrable (fun z => f (-z)) stdNormal := by
    have : Integrable f (stdNormal.map (fun z => -z)) := by rw [hneg]; exact hf
    exact (integrable_map_measure this.aestronglyMeasurable (by fun_prop)).mp this
  have h2 : ∫ z, f (-z) ∂stdNormal = ∫ z, f z ∂stdNormal := by
    have := integral_map (μ := stdNormal) (φ := fun z : ℝ => -z) (by fun_prop)
      (f := f) (by rw [hneg]; exact hf.aestronglyMeasurable)
    rw [hneg] at this
    exact this.symm
  rw [integral_div, integral_add hf hf', h2]; ring

end FinVerif.Props.C19
