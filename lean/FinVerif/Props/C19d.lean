/-
  C19 (part d) — the two routines repaired in /repo (commits 760047e, cf96daa), as modelled after the repair:
  the Asian fast Monte-Carlo observation schedule ends at expiry (and the previous order of statements did not),
  the averaging-period rescaling is the documented payoff on the total average, and the LMM cap/floor pricer's
  cash flows and numeraire satisfy cap − floor = forward-rate-agreement cash flow with a positive numeraire.
-/
import FinVerif.Lemmas.C19

namespace FinVerif.Props.C19
open FinVerif.Model.C19 FinVerif.Lemmas.C19

/-- **asian_schedule_ends_at_expiry** — with `dt` computed after the adjustment, the `nAdj` simulated
observations `t0' + i·dt` end exactly at expiry `t`, inside and outside the averaging period. -/
theorem asian_schedule_ends_at_expiry (t0 t tau k acc : ℝ) (nAdj : ℕ) (hn : nAdj ≠ 0) :
    let sc := asianSchedule t0 t tau k acc nAdj
    sc.2.2.1 + nAdj * sc.2.2.2 = t := by
  have h : (nAdj : ℝ) ≠ 0 := Nat.cast_ne_zero.mpr hn
  unfold asianSchedule
  split <;> simp only <;> field_simp <;> ring

/-- **asian_stale_dt_overshoots** — the order of statements before commit 760047e (`dt = (t − t0)/n` with the
un-adjusted `t0 < 0`, `n`) simulates past expiry: 146 days into a 365-day period with 12 observations the 8
remaining observations end at 2/3 instead of 0.6. -/
theorem asian_stale_dt_overshoots :
    let t0 : ℝ := -0.4; let t : ℝ := 0.6; let n : ℝ := 12; let nAdj : ℝ := 8
    (0 : ℝ) + nAdj * ((t - t0) / n) ≠ t := by
  norm_num

/-- **asian_in_period_payoff** — inside the averaging period the rescaled strike and notional reproduce the
documented payoff on the TOTAL average `(accrued·(−t0) + A·t)/tau`. -/
theorem asian_in_period_payoff (t0 t tau k acc A : ℝ) (ht0 : t0 < 0) (ht : 0 < t) (htau : 0 < tau) (nAdj : ℕ) :
    let sc := asianSchedule t0 t tau k acc nAdj
    sc.2.1 * max (A - sc.1) 0 = max ((acc * (-t0) + A * t) / tau - k) 0 := by
  unfold asianSchedule
  simp only [ht0, if_true]
  have hc : 0 ≤ t / tau := (div_pos ht htau).le
  have e : (acc * -t0 + A * t) / tau - k = t / tau * (A - (k * tau + acc * t0) / t) := by
    field_simp
    ring
  rw [e]
  rcases le_total 0 (A - (k * tau + acc * t0) / t) with h | h
  · rw [max_eq_left h, max_eq_left (mul_nonneg hc h)]
  · rw [max_eq_right h, max_eq_right (mul_nonpos_of_nonneg_of_nonpos hc h), mul_zero]

/-- **capFlrLets_parity** — caplet minus floorlet cash flow is the FRA cash flow `(libor − K)·tau`, for every
number of periods. -/
theorem capFlrLets_parity (k : ℝ) (libors taus : List ℝ) :
    List.zipWith (· - ·) (capFlrLets R true k libors taus) (capFlrLets R false k libors taus)
      = List.zipWith (fun l tau => (l - k) * tau) libors taus := by
  unfold capFlrLets
  have hmax : ∀ l : ℝ, max (l - k) 0 - max (k - l) 0 = l - k := by
    intro l
    rcases le_total k l with h | h
    · rw [max_eq_left (by linarith), max_eq_right (by linarith)]; ring
    · rw [max_eq_right (by linarith), max_eq_left (by linarith)]; ring
  induction libors generalizing taus with
  | nil => simp
  | cons l ls ih =>
    cases taus with
    | nil => simp
    | cons tau ts =>
      have ih' := ih ts
      simp only [List.zipWith_cons_cons, if_true, R_max, Bool.false_eq_true, if_false] at ih' ⊢
      rw [ih', ← sub_mul, hmax]

/-- **capFlrNumeraire_pos** — the numeraire of the repaired pricer is positive along every path with
`1 + libor·tau > 0` (in particular never the uninitialised `1/0` of the old code). -/
theorem capFlrNumeraire_pos (n0 : ℝ) (h0 : 0 < n0) (rest : List (ℝ × ℝ)) (h : ∀ p ∈ rest, 0 < 1 + p.1 * p.2) :
    ∀ x ∈ capFlrNumeraire n0 rest, 0 < x := by
  induction rest generalizing n0 with
  | nil => intro x hx; simp [capFlrNumeraire] at hx; rw [hx]; exact h0
  | cons p ps ih =>
    intro x hx
    obtain ⟨l, tau⟩ := p
    simp only [capFlrNumeraire, List.mem_cons] at hx
    rcases hx with rfl | hx
    · exact h0
    · exact ih (n0 * (1 + l * tau)) (mul_pos h0 (h (l, tau) List.mem_cons_self))
        (fun q hq => h q (List.mem_cons_of_mem _ hq)) x hx

/-- the first numeraire is `1 + fwd0[0]·taus[0]` -/
theorem capFlr_first_numeraire (f00 tau0 : ℝ) (h : 1 + f00 * tau0 ≠ 0) : 1 / (1 / (1 + f00 * tau0)) = 1 + f00 * tau0 := by
  field_simp

end FinVerif.Props.C19
