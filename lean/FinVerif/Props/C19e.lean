/-
  C19 (part e) — payoff functionals of the lookback Monte-Carlo pricers are non-negative and equal the documented
  payoff on every path and every strike (on either side of the running extreme), and the exact CIR transition
  `c·(χ²_{d−1} + (Z+√λ)²)` has the closed-form CIR conditional mean — which one degree of freedom more does not.
-/
import FinVerif.Lemmas.C19
import FinVerif.Props.C19c

namespace FinVerif.Props.C19
open FinVerif.Model.C19 FinVerif.Lemmas.C19 MeasureTheory ProbabilityTheory

/-- **fixedLookbackPayoff_nonneg** — for every path, strike and running extreme. -/
theorem fixedLookbackPayoff_nonneg (isCall : Bool) (k hist : ℝ) (path : List ℝ) :
    0 ≤ fixedLookbackPayoff R isCall k hist path := by
  unfold fixedLookbackPayoff
  split <;> simp only [R_max] <;> exact le_max_of_le_left (le_max_right _ _)

/-- **fixedLookbackPayoff_documented** — the two nested maxima as coded are the documented payoff
`max(max(S_max_path, hist) − K, 0)` (call) / `max(K − min(S_min_path, hist), 0)` (put), also when the strike is beyond
the running extreme. -/
theorem fixedLookbackPayoff_documented (isCall : Bool) (k hist : ℝ) (path : List ℝ) :
    fixedLookbackPayoff R isCall k hist path
      = if isCall then max (max (pathMax R path) hist - k) 0 else max (k - min (pathMin R path) hist) 0 := by
  unfold fixedLookbackPayoff
  split
  · simp only [R_max]
    rcases le_total (pathMax R path) hist with h | h
    · rw [max_eq_right h]
      rcases le_total (hist - k) 0 with h0 | h0
      · rw [max_eq_right h0, max_eq_left (le_trans h0 (le_max_right _ _))]
        exact max_eq_right (by linarith)
      · rw [max_eq_left h0]
        exact max_eq_right (max_le (by linarith) h0)
    · rw [max_eq_left h]
      exact max_eq_left (le_trans (by linarith) (le_max_left _ _))
  · simp only [R_max]
    rcases le_total (pathMin R path) hist with h | h
    · rw [min_eq_left h]
      exact max_eq_left (le_trans (by linarith) (le_max_left _ _))
    · rw [min_eq_right h]
      rcases le_total (k - hist) 0 with h0 | h0
      · rw [max_eq_right h0, max_eq_left (le_trans h0 (le_max_right _ _))]
        exact max_eq_right (by linarith)
      · rw [max_eq_left h0]
        exact max_eq_right (max_le (by linarith) h0)

/-- the floor matters exactly beyond the running extreme: without it the call payoff is negative on a path that
never reaches the strike (kernel-checked instance: K = 130, hist = 110, path 100 → 105 → 98). -/
theorem lookback_floor_needed :
    max (max (pathMax R [100, 105, 98]) 110) (0 : ℝ) - 130 < 0
      ∧ fixedLookbackPayoff R true 130 110 [100, 105, 98] = 0 := by
  constructor
  · norm_num [pathMax]
  · norm_num [fixedLookbackPayoff, pathMax]

/-- **floatLookbackPayoff_nonneg** -/
theorem floatLookbackPayoff_nonneg (isCall : Bool) (hist : ℝ) (path : List ℝ) :
    0 ≤ floatLookbackPayoff R isCall hist path := by
  unfold floatLookbackPayoff
  simp only [R_max]
  split <;> exact le_max_right _ _

/-- **lookbackMC_nonneg** — the estimate of a non-negative payoff with a non-negative discount factor is
non-negative, for every set of paths. -/
theorem lookbackMC_nonneg (payoff : List ℝ → ℝ) (hp : ∀ p, 0 ≤ payoff p) (df : ℝ) (hdf : 0 ≤ df) (paths : List (List ℝ)) :
    0 ≤ lookbackMC payoff df paths := by
  unfold lookbackMC meanL
  rw [sumL_eq_sum]
  refine mul_nonneg (div_nonneg (List.sum_nonneg ?_) (Nat.cast_nonneg _)) hdf
  intro x hx
  obtain ⟨p, _, rfl⟩ := List.mem_map.mp hx
  exact hp p

/-! ### CIR exact transition -/

/-- **noncentral_pairing** — `(z+s)² + (−z+s)² = 2(z² + s²)`. -/
theorem noncentral_pairing (z s : ℝ) : (z + s) * (z + s) + (-z + s) * (-z + s) = 2 * (z * z + s * s) := by ring

/-- `E[Z²] = 1` -/
theorem integral_sq_stdNormal : ∫ z, z ^ 2 ∂stdNormal = 1 := by
  have h := variance_id_gaussianReal (μ := 0) (v := 1)
  rw [variance_eq_integral (by fun_prop)] at h
  simpa [integral_id_gaussianReal] using h

/-- **noncentral_mean** — `E[(Z+s)²] = 1 + s²` (one-degree non-central chi-square). -/
theorem noncentral_mean (s : ℝ) : ∫ z, (z + s) * (z + s) ∂stdNormal = 1 + s ^ 2 := by
  have hsq : Integrable (fun z : ℝ => z ^ 2) stdNormal :=
    (memLp_id_gaussianReal' (μ := 0) (v := 1) 2 (by simp)).integrable_sq
  have e : (fun z : ℝ => (z + s) * (z + s)) = fun z => z ^ 2 + (s ^ 2 + z * (2 * s)) := by
    funext z; ring
  have hlin : Integrable (fun z : ℝ => s ^ 2 + z * (2 * s)) stdNormal :=
    Integrable.add (integrable_const _) (integrable_id_stdNormal.mul_const _)
  have hadd : ∫ z, z ^ 2 + (s ^ 2 + z * (2 * s)) ∂stdNormal
      = ∫ z, z ^ 2 ∂stdNormal + ∫ z, s ^ 2 + z * (2 * s) ∂stdNormal := integral_add hsq hlin
  rw [e, hadd, integral_sq_stdNormal, integral_affine]

/-- **cir_exact_mean** — with `E[x] = d − 1` (chi-square with `d−1` degrees of freedom) the draw
`c·(x + (Z+√λ)²)` has mean `c·(d + λ)`, which is the CIR conditional mean `r·e^{−a·dt} + b·(1 − e^{−a·dt})`. -/
theorem cir_exact_mean (rt a b sigma dt Ex : ℝ) (ha : a ≠ 0) (hs : sigma ≠ 0) (he : 1 - Real.exp (-a * dt) ≠ 0)
    (hll : 0 ≤ (cirExactCoeffs R rt a b sigma dt).2.1)
    (hEx : Ex = (cirExactCoeffs R rt a b sigma dt).1 - 1) :
    let co := cirExactCoeffs R rt a b sigma dt
    co.2.2 * (Ex + ∫ z, (z + Real.sqrt co.2.1) * (z + Real.sqrt co.2.1) ∂stdNormal)
      = rt * Real.exp (-a * dt) + b * (1 - Real.exp (-a * dt)) := by
  intro co
  rw [noncentral_mean, Real.sq_sqrt hll, hEx]
  have he' : 1 - Real.exp (-(a * dt)) ≠ 0 := by simpa [neg_mul] using he
  simp only [co, cirExactCoeffs, R_exp, R_four, neg_mul]
  field_simp
  ring

/-- **cir_exact_wrong_dof** — with one degree of freedom too many (`E[x] = d`) the mean is off by exactly
`c = σ²(1−e^{−a·dt})/(4a)` per step. -/
theorem cir_exact_wrong_dof (rt a b sigma dt : ℝ) (ha : a ≠ 0) (hs : sigma ≠ 0) (he : 1 - Real.exp (-a * dt) ≠ 0)
    (hll : 0 ≤ (cirExactCoeffs R rt a b sigma dt).2.1) :
    let co := cirExactCoeffs R rt a b sigma dt
    co.2.2 * (co.1 + ∫ z, (z + Real.sqrt co.2.1) * (z + Real.sqrt co.2.1) ∂stdNormal)
      = rt * Real.exp (-a * dt) + b * (1 - Real.exp (-a * dt)) + sigma ^ 2 * (1 - Real.exp (-a * dt)) / 4 / a := by
  intro co
  rw [noncentral_mean, Real.sq_sqrt hll]
  have he' : 1 - Real.exp (-(a * dt)) ≠ 0 := by simpa [neg_mul] using he
  simp only [co, cirExactCoeffs, R_exp, R_four, neg_mul]
  field_simp
  ring

end FinVerif.Props.C19

namespace FinVerif.Props.C19
open FinVerif.Model.C19 FinVerif.Lemmas.C19

/-- **cirKJ_odd_part** — the part of the Kahl–Jäckel step (as coded) that is odd in the draw:
`step(z) − step(−z) = 2·z·√dt·( κ(b̂−r)·σ·dt/(4·√max(r,fl)) + σ·√max(r,fl)·(1−κdt/2) )`, `b̂ = θ − σ²/(4κ)`.
The first summand is the drift `κ(b̂−r)` DIVIDED by the square root: at the floor (`r ≤ fl = 1e-8`, square root 1e-4) it is
a noise term of size `κ|b̂−r|σ·dt^{3/2}/(4e-4)` per unit draw — proportional to the distance from `b̂` (which is NEGATIVE when
`4κθ/σ² < 1`), where the CIR diffusion itself has no noise at all. -/
theorem cirKJ_odd_part (fl kappa theta sigma dt r z : ℝ) (hdt : 0 < dt) (hr : 0 < max r fl) :
    cirKJ R fl kappa theta sigma dt r z - cirKJ R fl kappa theta sigma dt r (-z)
      = 2 * z * Real.sqrt dt * (kappa * (theta - sigma ^ 2 / 4 / kappa - r) * sigma * dt / (4 * Real.sqrt (max r fl))
          + sigma * Real.sqrt (max r fl) * (1 - kappa * dt / 2)) := by
  simp only [cirKJ, R_max, R_sqrt, R_four, R_two]
  have h1 : Real.sqrt dt ≠ 0 := (Real.sqrt_pos.mpr hdt).ne'
  have h2 : Real.sqrt (max r fl) ≠ 0 := (Real.sqrt_pos.mpr hr).ne'
  have h4 : Real.sqrt dt ^ 2 = dt := Real.sq_sqrt hdt.le
  have h5 : Real.sqrt dt * Real.sqrt dt = dt := Real.mul_self_sqrt hdt.le
  field_simp
  have h6 : Real.sqrt dt ^ 3 = dt * Real.sqrt dt := by rw [pow_succ, h4]
  ring_nf
  simp only [h6]
  ring

/-- **cirKJ_floor_amplification** — at or below the floor `fl = s²` the odd part is
`2·z·√dt·( κ(b̂−r)·σ·dt/(4s) + σ·s·(1−κdt/2) )`: with `s = 1e-4` the drift is amplified 2500-fold into noise. -/
theorem cirKJ_floor_amplification (s kappa theta sigma dt r z : ℝ) (hs : 0 < s) (hdt : 0 < dt) (hr : r ≤ s ^ 2) :
    cirKJ R (s ^ 2) kappa theta sigma dt r z - cirKJ R (s ^ 2) kappa theta sigma dt r (-z)
      = 2 * z * Real.sqrt dt * (kappa * (theta - sigma ^ 2 / 4 / kappa - r) * sigma * dt / (4 * s)
          + sigma * s * (1 - kappa * dt / 2)) := by
  have hm : max r (s ^ 2) = s ^ 2 := max_eq_right hr
  have hpos : 0 < max r (s ^ 2) := by rw [hm]; positivity
  rw [cirKJ_odd_part _ _ _ _ _ _ _ hdt hpos, hm, Real.sqrt_sq hs.le]

end FinVerif.Props.C19

namespace FinVerif.Props.C19
open FinVerif.Model.C19 FinVerif.Lemmas.C19

/-- the multi-factor drift sum with one factor is the one-factor drift sum -/
theorem lmmDriftMF_one_factor (zkj : ℝ) (l : List (ℝ × ℝ × ℝ)) :
    lmmDriftMF (l.map fun x => (x.1, x.2.1, x.2.2 * zkj)) = lmmDrift zkj l := by
  unfold lmmDriftMF lmmDrift
  rw [List.foldl_map]
  congr 1
  funext acc x
  ring

/-- **lmmStepMF_one_factor** — with a single factor the multi-factor predictor–corrector step IS the one-factor step
(same accrual `taus[i]` of forward `i` in the predictor AND the corrector sums), for every forward and every step. -/
theorem lmmStepMF_one_factor (dtj w : ℝ) (cur taus gammas : List ℝ) (m : ℕ) :
    lmmStepMF R dtj [w] cur taus [gammas] m = lmmStep1F R dtj w cur taus gammas m := by
  unfold lmmStepMF lmmStep1F
  simp only [lmmZZ, sumL_eq_sum, List.map_cons, List.map_nil, List.sum_cons, List.sum_nil, add_zero,
    List.zipWith_cons_cons, List.zipWith_nil_right, R_exp, R_sqrt, R_half]
  have hA : ∀ (f : ℕ → ℝ),
      lmmDriftMF (List.map (fun i => (f i, taus.getD i 0, gammas.getD i 0 * gammas.getD m 0)) (List.map (· + 1) (List.range m)))
        = lmmDrift (gammas.getD m 0) (List.map (fun i => (f i, taus.getD i 0, gammas.getD i 0)) (List.map (· + 1) (List.range m))) := by
    intro f
    rw [← lmmDriftMF_one_factor]
    simp only [List.map_map]
    rfl
  rw [hA (fun i => cur.getD i 0), hA (fun _ => _)]

/-- **lmmStepMF_driftless** — the forward that resets next has no drift in the multi-factor simulator either. -/
theorem lmmStepMF_driftless (dtj : ℝ) (ws cur taus : List ℝ) (lams : List (List ℝ)) :
    lmmStepMF R dtj ws cur taus lams 0
      = cur.getD 0 0 * Real.exp (-(1 / 2) * (lams.map fun l => l.getD 0 0 * l.getD 0 0).sum * dtj
          + (List.zipWith (fun (l : List ℝ) w => l.getD 0 0 * w) lams ws).sum * Real.sqrt dtj) := by
  simp only [lmmStepMF, lmmDriftMF, List.range_zero, List.map_nil, List.foldl_nil, sumL_eq_sum, R_exp, R_sqrt, R_half]
  congr 2; ring

end FinVerif.Props.C19
