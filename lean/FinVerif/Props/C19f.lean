/-
  C19 (part f) — the Heston QUADEXP step (Andersen 2006) AS CODED in `get_heston_paths` / `heston.get_paths`:
  * the step of `Model/C19.hestonQE` is, branch by branch, the named pieces `qeQuadDraw`, `qeQuadM`, `qeExpDraw`,
    `qeExpM`, `qeLogIncr` (shape lemmas — so every statement below is about the coded arithmetic);
  * quadratic branch (`psi ≤ 1.5`): `b²` is a root of the moment-matching equation, the sampled variance `a(b+Z)²` has mean
    `m` (Gaussian integral) and variance `psi·m²` (given `E Z⁴ = 3`), and is non-negative;
  * exponential branch (`psi > 1.5`): `p ∈ [0,1)`, the atom/exponential mixture has mean `m` and variance `psi·m²`, the coded
    inverse-cdf draw has exactly the mixture's distribution function under a uniform `u`, is non-negative, and the coded
    `M = p + β(1−p)/(β−A)` IS the moment generating function of that mixture at `A < β` (improper integral, proved) and
    IS `∫₀¹ exp(A·draw(u)) du` for the coded draw (interval integral split at the atom, proved), hence
    `hestonQE_exponential_step_martingale`: on that branch too `E[S'] = S·e^{μ·dt}` exactly;
  * the coded `M` of the quadratic branch IS the moment generating function of `a(b+Z)²` (Gaussian integral, proved), hence
    `hestonQE_quadratic_step_martingale`: on that branch `E[S'] = S·e^{μ·dt}` exactly, all three draws integrated;
  * martingale correction: conditional on the sampled variance the discounted asset has mean `exp(A·v')/M` (iterated
    Gaussian integral over the two normals, correlation `ρ`, `|ρ| ≤ 1`), hence mean one exactly when `M` is the moment
    generating function of `v'` at `A`; with the sign of `A` flipped in the denominator of `M` it is NOT.
-/
import FinVerif.Lemmas.C19
import FinVerif.Spec.C19
import FinVerif.Props.C19c
import FinVerif.Props.C19e
import Mathlib.Analysis.SpecialFunctions.ImproperIntegrals
import Mathlib.Analysis.SpecialFunctions.Integrals.Basic
import Mathlib.Analysis.SpecialFunctions.Gaussian.GaussianIntegral

set_option linter.unusedVariables false

namespace FinVerif.Props.C19
open FinVerif FinVerif.Model.C19 FinVerif.Lemmas.C19 FinVerif.Spec.C19 MeasureTheory ProbabilityTheory

/-! ### the coded step is its named pieces -/

/-- **hestonQE_quadratic** — for `psi ≤ 1.5` the coded step samples `qeQuadDraw` and corrects with `qeQuadM`. -/
theorem hestonQE_quadratic (mu kappa theta sigma rho dt x vn : ℝ) (d : QEDraw ℝ)
    (h : qePsi R kappa theta sigma (Real.exp (-kappa * dt)) vn ≤ 3 / 2) :
    hestonQE R mu kappa theta sigma rho dt (x, vn) d
      = (x + qeLogIncr R mu kappa sigma rho dt vn
            (qeQuadDraw R (qeMean theta (Real.exp (-kappa * dt)) vn)
              (qeB2 R (qePsi R kappa theta sigma (Real.exp (-kappa * dt)) vn)) d.w)
            (qeQuadM R (qeAconst R kappa sigma rho dt) (qeMean theta (Real.exp (-kappa * dt)) vn)
              (qeB2 R (qePsi R kappa theta sigma (Real.exp (-kappa * dt)) vn)))
            (rho * d.n1 + Real.sqrt (1 - rho * rho) * d.n2),
          qeQuadDraw R (qeMean theta (Real.exp (-kappa * dt)) vn)
            (qeB2 R (qePsi R kappa theta sigma (Real.exp (-kappa * dt)) vn)) d.w) := by
  have h' : qePsi R kappa theta sigma (R.exp (-kappa * dt)) vn ≤ R.two - R.half := by
    simp only [R_two, R_half, R_exp]; linarith
  unfold hestonQE
  simp only [if_pos h']
  rfl

/-- **hestonQE_exponential** — for `psi > 1.5` the coded step samples `qeExpDraw` and corrects with `qeExpM`. -/
theorem hestonQE_exponential (mu kappa theta sigma rho dt x vn : ℝ) (d : QEDraw ℝ)
    (h : 3 / 2 < qePsi R kappa theta sigma (Real.exp (-kappa * dt)) vn) :
    hestonQE R mu kappa theta sigma rho dt (x, vn) d
      = (x + qeLogIncr R mu kappa sigma rho dt vn
            (qeExpDraw R (qeP (qePsi R kappa theta sigma (Real.exp (-kappa * dt)) vn))
              (qeBeta (qeP (qePsi R kappa theta sigma (Real.exp (-kappa * dt)) vn))
                (qeMean theta (Real.exp (-kappa * dt)) vn)) d.u)
            (qeExpM (qeP (qePsi R kappa theta sigma (Real.exp (-kappa * dt)) vn))
              (qeBeta (qeP (qePsi R kappa theta sigma (Real.exp (-kappa * dt)) vn))
                (qeMean theta (Real.exp (-kappa * dt)) vn)) (qeAconst R kappa sigma rho dt))
            (rho * d.n1 + Real.sqrt (1 - rho * rho) * d.n2),
          qeExpDraw R (qeP (qePsi R kappa theta sigma (Real.exp (-kappa * dt)) vn))
              (qeBeta (qeP (qePsi R kappa theta sigma (Real.exp (-kappa * dt)) vn))
                (qeMean theta (Real.exp (-kappa * dt)) vn)) d.u) := by
  have h' : ¬ qePsi R kappa theta sigma (R.exp (-kappa * dt)) vn ≤ R.two - R.half := by
    simp only [R_two, R_half, R_exp]; intro hc; linarith
  unfold hestonQE
  simp only [if_neg h']
  rfl

/-! ### moments of the standard normal used below -/

/-- every power of a standard normal is integrable -/
theorem integrable_pow_stdNormal (n : ℕ) : Integrable (fun z : ℝ => z ^ n) stdNormal := by
  have hp : Integrable (fun z : ℝ => Real.exp (1 * id z)) stdNormal := by
    simpa using integrable_exp_mul_gaussianReal (μ := 0) (v := 1) 1
  have hn : Integrable (fun z : ℝ => Real.exp (-1 * id z)) stdNormal := by
    simpa using integrable_exp_mul_gaussianReal (μ := 0) (v := 1) (-1)
  exact integrable_pow_of_integrable_exp_mul (X := id) one_ne_zero hp hn n

/-- **integral_odd_stdNormal** — the expectation of ANY odd functional of a standard normal is zero (no integrability
needed: the law is invariant under `z ↦ −z`).  This is why the antithetic half `−Z` removes every odd component. -/
theorem integral_odd_stdNormal (f : ℝ → ℝ) (hodd : ∀ z, f (-z) = -f z) : ∫ z, f z ∂stdNormal = 0 := by
  have hneg : stdNormal.map (MeasurableEquiv.neg ℝ) = stdNormal := by
    have := gaussianReal_map_neg (μ := 0) (v := 1)
    simpa using this
  have h1 : ∫ z, f (-z) ∂stdNormal = ∫ z, f z ∂stdNormal := by
    have := MeasureTheory.integral_map_equiv (μ := stdNormal) (MeasurableEquiv.neg ℝ) f
    rw [hneg] at this
    simpa using this.symm
  have h2 : ∫ z, f (-z) ∂stdNormal = -∫ z, f z ∂stdNormal := by
    simp only [hodd]; exact integral_neg _
  linarith

/-- `E Z³ = 0` -/
theorem integral_cube_stdNormal : ∫ z, z ^ 3 ∂stdNormal = 0 :=
  integral_odd_stdNormal (fun z => z ^ 3) (fun z => by ring)

/-- the expectation of a quartic polynomial of a standard normal, given `E Z⁴ = 3` -/
theorem integral_poly4_stdNormal (h4 : ∫ z, z ^ 4 ∂stdNormal = 3) (c0 c1 c2 c3 c4 : ℝ) :
    ∫ z, c0 + c1 * z + c2 * z ^ 2 + c3 * z ^ 3 + c4 * z ^ 4 ∂stdNormal = c0 + c2 + 3 * c4 := by
  have i1 : Integrable (fun z : ℝ => c1 * z) stdNormal := integrable_id_stdNormal.const_mul c1
  have i2 : Integrable (fun z : ℝ => c2 * z ^ 2) stdNormal := (integrable_pow_stdNormal 2).const_mul c2
  have i3 : Integrable (fun z : ℝ => c3 * z ^ 3) stdNormal := (integrable_pow_stdNormal 3).const_mul c3
  have i4 : Integrable (fun z : ℝ => c4 * z ^ 4) stdNormal := (integrable_pow_stdNormal 4).const_mul c4
  have i0 : Integrable (fun _ : ℝ => c0) stdNormal := integrable_const _
  have j1 : Integrable (fun z : ℝ => c0 + c1 * z) stdNormal := i0.add i1
  have j2 : Integrable (fun z : ℝ => c0 + c1 * z + c2 * z ^ 2) stdNormal := j1.add i2
  have j3 : Integrable (fun z : ℝ => c0 + c1 * z + c2 * z ^ 2 + c3 * z ^ 3) stdNormal := j2.add i3
  rw [integral_add j3 i4, integral_add j2 i3, integral_add j1 i2, integral_add i0 i1, integral_const_mul, integral_const_mul, integral_const_mul,
    integral_const_mul, integral_id_stdNormal, integral_sq_stdNormal, integral_cube_stdNormal, h4]
  simp
  ring

/-- `E[c0 + c1·Z + c2·Z²] = c0 + c2` -/
theorem integral_quadratic_stdNormal (c0 c1 c2 : ℝ) :
    ∫ z, c0 + c1 * z + c2 * z ^ 2 ∂stdNormal = c0 + c2 := by
  have i1 : Integrable (fun z : ℝ => c1 * z) stdNormal := integrable_id_stdNormal.const_mul c1
  have i2 : Integrable (fun z : ℝ => c2 * z ^ 2) stdNormal := (integrable_pow_stdNormal 2).const_mul c2
  have i0 : Integrable (fun _ : ℝ => c0) stdNormal := integrable_const _
  have j1 : Integrable (fun z : ℝ => c0 + c1 * z) stdNormal := i0.add i1
  rw [integral_add j1 i2, integral_add i0 i1, integral_const_mul, integral_const_mul,
    integral_id_stdNormal, integral_sq_stdNormal]
  simp

/-! ### quadratic branch: `v' = a(b+Z)²` -/

/-- **qeB2_nonneg** — on the quadratic branch (`0 < psi ≤ 2`; the code switches at 1.5) `b² ≥ 0`, so `b = sqrt(b²)` is real. -/
theorem qeB2_nonneg (psi : ℝ) (h0 : 0 < psi) (h2 : psi ≤ 2) : 0 ≤ qeB2 R psi := by
  simp only [qeB2, R_two, R_sqrt]
  have ht : 1 ≤ 2 / psi := by rw [le_div_iff₀ h0]; linarith
  have := Real.sqrt_nonneg (2 / psi * (2 / psi - 1))
  linarith

/-- **qeB2_moment_equation** — the coded `b²` solves Andersen's moment-matching equation `psi·(1+b²)² = 2·(1+2b²)`
(i.e. `Var/mean² = psi` for `a(b+Z)²`). -/
theorem qeB2_moment_equation (psi : ℝ) (h0 : 0 < psi) (h2 : psi ≤ 2) :
    psi * (1 + qeB2 R psi) ^ 2 = 2 * (1 + 2 * qeB2 R psi) := by
  simp only [qeB2, R_two, R_sqrt]
  have ht : 1 ≤ 2 / psi := by rw [le_div_iff₀ h0]; linarith
  have hs : Real.sqrt (2 / psi * (2 / psi - 1)) * Real.sqrt (2 / psi * (2 / psi - 1)) = 2 / psi * (2 / psi - 1) :=
    Real.mul_self_sqrt (mul_nonneg (by linarith) (by linarith))
  have hpt : psi * (2 / psi) = 2 := by field_simp
  generalize Real.sqrt (2 / psi * (2 / psi - 1)) = s at hs
  generalize 2 / psi = t at hs hpt
  linear_combination psi * hs + (2 * t - 1 + 2 * s) * hpt

/-- **qe_quad_draw_nonneg** — the sampled variance is non-negative whenever `m ≥ 0` (QUADEXP never leaves `v ≥ 0`). -/
theorem qe_quad_draw_nonneg (m b2 w : ℝ) (hm : 0 ≤ m) (hb : 0 ≤ b2) : 0 ≤ qeQuadDraw R m b2 w := by
  simp only [qeQuadDraw, R_sqrt]
  exact mul_nonneg (div_nonneg hm (by linarith)) (mul_self_nonneg _)

/-- **qe_quad_mean** — `E[a(b+Z)²] = m` for `a = m/(1+b²)`: the first moment is matched exactly (Gaussian integral). -/
theorem qe_quad_mean (m b2 : ℝ) (hb : 0 ≤ b2) : ∫ w, qeQuadDraw R m b2 w ∂stdNormal = m := by
  have e : (fun w => qeQuadDraw R m b2 w)
      = fun w => m / (1 + b2) * ((w + Real.sqrt b2) * (w + Real.sqrt b2)) := by
    funext w; simp only [qeQuadDraw, R_sqrt]; ring
  rw [e, integral_const_mul, noncentral_mean, Real.sq_sqrt hb]
  have : 1 + b2 ≠ 0 := by linarith
  field_simp

/-- **qe_quad_variance** — `Var[a(b+Z)²] = psi·m²` when `b²` satisfies the moment equation (given `E Z⁴ = 3`). -/
theorem qe_quad_variance (h4 : ∫ z, z ^ 4 ∂stdNormal = 3) (psi m b2 : ℝ) (hb : 0 ≤ b2)
    (heq : psi * (1 + b2) ^ 2 = 2 * (1 + 2 * b2)) :
    ∫ w, (qeQuadDraw R m b2 w - m) ^ 2 ∂stdNormal = psi * m ^ 2 := by
  have hne : 1 + b2 ≠ 0 := by linarith
  obtain ⟨a, ha⟩ : ∃ a, m = a * (1 + b2) := ⟨m / (1 + b2), by field_simp⟩
  have hs : Real.sqrt b2 * Real.sqrt b2 = b2 := Real.mul_self_sqrt hb
  have hda : m / (1 + b2) = a := by rw [ha]; field_simp
  generalize hsd : Real.sqrt b2 = s at hs
  have e : (fun w => (qeQuadDraw R m b2 w - m) ^ 2)
      = fun w => (a * s ^ 2 - m) ^ 2 + (4 * a * s * (a * s ^ 2 - m)) * w + (4 * a ^ 2 * s ^ 2 + 2 * a * (a * s ^ 2 - m)) * w ^ 2
          + (4 * a ^ 2 * s) * w ^ 3 + a ^ 2 * w ^ 4 := by
    funext w; simp only [qeQuadDraw, R_sqrt, hda, hsd]; ring
  rw [e, integral_poly4_stdNormal h4, ha]
  linear_combination a ^ 2 * (s * s - b2 + 4) * hs - a ^ 2 * heq

/-- **qe_quad_moments_as_coded** — with the coded `b² = qeB2 psi`, `0 < psi ≤ 2`: mean `m` and variance `psi·m²`. -/
theorem qe_quad_moments_as_coded (h4 : ∫ z, z ^ 4 ∂stdNormal = 3) (psi m : ℝ) (h0 : 0 < psi) (h2 : psi ≤ 2) :
    ∫ w, qeQuadDraw R m (qeB2 R psi) w ∂stdNormal = m
      ∧ ∫ w, (qeQuadDraw R m (qeB2 R psi) w - m) ^ 2 ∂stdNormal = psi * m ^ 2 :=
  ⟨qe_quad_mean m _ (qeB2_nonneg psi h0 h2),
   qe_quad_variance h4 psi m _ (qeB2_nonneg psi h0 h2) (qeB2_moment_equation psi h0 h2)⟩

/-- non-vacuity: `psi = 1` is on the quadratic branch, `b² = 1 + √2` -/
example : qeB2 R 1 = 1 + Real.sqrt 2 := by simp only [qeB2, R_two, R_sqrt]; norm_num

/-! ### exponential branch: `v' = 0` with probability `p`, else exponential with rate `β` -/

/-- **qe_exp_p_range** — for `psi ≥ 1` (the code uses the branch for `psi > 1.5`) the atom's mass is a probability `p ∈ [0,1)`. -/
theorem qe_exp_p_range (psi : ℝ) (h : 1 ≤ psi) : 0 ≤ qeP psi ∧ qeP psi < 1 := by
  unfold qeP
  have hp : 0 < psi + 1 := by linarith
  exact ⟨div_nonneg (by linarith) hp.le, by rw [div_lt_one hp]; linarith⟩

/-- **qe_exp_moments** — the mixture (mass `p` at 0, exponential of rate `β` — first moment `1/β`, second `2/β²` — with
mass `1−p`) with the coded `p`, `β` has mean `m` and variance `psi·m²`. -/
theorem qe_exp_moments (psi m : ℝ) (hpsi : 0 < psi) (hm : m ≠ 0) :
    let p := qeP psi
    let beta := qeBeta p m
    (1 - p) * (1 / beta) = m ∧ (1 - p) * (2 / beta ^ 2) - m ^ 2 = psi * m ^ 2 := by
  have hp : psi + 1 ≠ 0 := by linarith
  have h1p : 1 - qeP psi = 2 / (psi + 1) := by unfold qeP; field_simp; ring
  simp only [qeBeta, h1p]
  constructor
  · field_simp
  · field_simp; ring

/-- **qe_exp_draw_nonneg** — the coded inverse-cdf draw is non-negative. -/
theorem qe_exp_draw_nonneg (p beta u : ℝ) (hp1 : p < 1) (hb : 0 < beta) (hu : u < 1) :
    0 ≤ qeExpDraw R p beta u := by
  simp only [qeExpDraw, R_log]
  split_ifs with h
  · exact le_refl 0
  · push Not at h
    apply div_nonneg _ hb.le
    apply Real.log_nonneg
    rw [le_div_iff₀ (by linarith)]; linarith

/-- **qe_exp_draw_law** — under a uniform `u` the coded draw has the mixture's distribution function:
`v'(u) ≤ v  ⇔  u ≤ 1 − (1−p)·e^{−βv}` for every `v ≥ 0`. -/
theorem qe_exp_draw_law (p beta u v : ℝ) (hp0 : 0 ≤ p) (hp1 : p < 1) (hb : 0 < beta) (hu : u < 1) (hv : 0 ≤ v) :
    qeExpDraw R p beta u ≤ v ↔ u ≤ 1 - (1 - p) * Real.exp (-beta * v) := by
  simp only [qeExpDraw, R_log]
  have hexp1 : Real.exp (-beta * v) ≤ 1 := by
    rw [Real.exp_le_one_iff]; nlinarith
  have hexp0 : 0 < Real.exp (-beta * v) := Real.exp_pos _
  split_ifs with h
  · constructor
    · intro _; nlinarith
    · intro _; exact hv
  · push Not at h
    have h1u : 0 < 1 - u := by linarith
    have h1p : 0 < 1 - p := by linarith
    rw [div_le_iff₀ hb, Real.log_le_iff_le_exp (div_pos h1p h1u), div_le_iff₀ h1u]
    have hprod : Real.exp (v * beta) * Real.exp (-beta * v) = 1 := by
      rw [← Real.exp_add]; ring_nf; exact Real.exp_zero
    have hpos : 0 < Real.exp (v * beta) := Real.exp_pos _
    constructor
    · intro hle
      have : (1 - p) * Real.exp (-beta * v) ≤ Real.exp (v * beta) * (1 - u) * Real.exp (-beta * v) :=
        mul_le_mul_of_nonneg_right hle hexp0.le
      have e : Real.exp (v * beta) * (1 - u) * Real.exp (-beta * v) = 1 - u := by
        rw [mul_right_comm, hprod, one_mul]
      linarith
    · intro hle
      have h' : (1 - p) * Real.exp (-beta * v) ≤ 1 - u := by linarith
      have : Real.exp (v * beta) * ((1 - p) * Real.exp (-beta * v)) ≤ Real.exp (v * beta) * (1 - u) :=
        mul_le_mul_of_nonneg_left h' hpos.le
      have e : Real.exp (v * beta) * ((1 - p) * Real.exp (-beta * v)) = 1 - p := by
        rw [mul_left_comm, hprod, mul_one]
      linarith

example : qeExpDraw R (1 / 5) 2 (1 / 10) = 0 := by simp [qeExpDraw]; norm_num

/-! ### the martingale correction `K0 = −log M − (K1 + K3/2)·v` -/

/-- **qe_A_closed_form** — `A = K2 + K4/2` as coded is Andersen's `ρ/σ·(1 + κ·γ₂·dt) − γ₂·dt·ρ²/2` with `γ₂ = 1/2`. -/
theorem qe_A_closed_form (kappa sigma rho dt : ℝ) (hs : sigma ≠ 0) :
    qeAconst R kappa sigma rho dt = rho / sigma * (1 + kappa * dt / 2) - dt * rho ^ 2 / 4 := by
  simp only [qeAconst, R_half]; field_simp; ring

/-- **qe_A_nonpos** — for non-positive correlation (the equity case) `A ≤ 0`: then both moment generating functions exist
(`1 − 2·A·a ≥ 1 > 0` for `a ≥ 0`, and `A ≤ 0 < β`), i.e. the regularity hypotheses of the two step-martingale theorems hold. -/
theorem qe_A_nonpos (kappa sigma rho dt : ℝ) (hs : 0 < sigma) (hr : rho ≤ 0) (hk : 0 ≤ kappa * dt) (hdt : 0 ≤ dt) :
    qeAconst R kappa sigma rho dt ≤ 0
      ∧ (∀ a : ℝ, 0 ≤ a → 0 < 1 - 2 * qeAconst R kappa sigma rho dt * a)
      ∧ (∀ beta : ℝ, 0 < beta → qeAconst R kappa sigma rho dt < beta) := by
  have hA : qeAconst R kappa sigma rho dt ≤ 0 := by
    rw [qe_A_closed_form kappa sigma rho dt hs.ne']
    have h1 : rho / sigma ≤ 0 := div_nonpos_of_nonpos_of_nonneg hr hs.le
    have h2 : rho / sigma * (1 + kappa * dt / 2) ≤ 0 := mul_nonpos_of_nonpos_of_nonneg h1 (by linarith)
    have h3 : 0 ≤ dt * rho ^ 2 / 4 := by positivity
    linarith
  refine ⟨hA, fun a ha => ?_, fun beta hb => lt_of_le_of_lt hA hb⟩
  nlinarith [mul_nonneg (neg_nonneg.mpr hA) ha]

/-- **qe_asset_conditional_mean** — the coded log-asset increment, given the sampled variance `v'` and whatever constant `M`
the code divides by: integrating the two independent normals (asset draw `ρ·n1 + √(1−ρ²)·n2`) gives
`E[S'/S | v'] = e^{μ·dt}·e^{A·v'}/M`. -/
theorem qe_asset_conditional_mean (mu kappa sigma rho dt x vn vnp mM : ℝ) (hrho : rho * rho ≤ 1) (hM : 0 < mM)
    (hvar : 0 ≤ 1 / 2 * dt * (1 - rho * rho) * vn + 1 / 2 * dt * (1 - rho * rho) * vnp) :
    ∫ n1, ∫ n2, Real.exp (x + qeLogIncr R mu kappa sigma rho dt vn vnp mM (rho * n1 + Real.sqrt (1 - rho * rho) * n2))
        ∂stdNormal ∂stdNormal
      = Real.exp (x + mu * dt) * Real.exp (qeAconst R kappa sigma rho dt * vnp) / mM := by
  have hr : Real.sqrt (1 - rho * rho) ^ 2 = 1 - rho * rho := Real.sq_sqrt (by linarith)
  have hS : Real.sqrt (1 / 2 * dt * (1 - rho * rho) * vn + 1 / 2 * dt * (1 - rho * rho) * vnp) ^ 2
      = 1 / 2 * dt * (1 - rho * rho) * vn + 1 / 2 * dt * (1 - rho * rho) * vnp := Real.sq_sqrt hvar
  generalize hS' : Real.sqrt (1 / 2 * dt * (1 - rho * rho) * vn + 1 / 2 * dt * (1 - rho * rho) * vnp) = S at hS
  generalize hrh : Real.sqrt (1 - rho * rho) = rh at hr
  -- the part of the exponent that does not depend on the draws
  set c : ℝ := x + (mu * dt + (-(Real.log mM) - ((1 / 2 * dt * (kappa * rho / sigma - 1 / 2) - rho / sigma)
      + 1 / 2 * (1 / 2 * dt * (1 - rho * rho))) * vn)
      + ((1 / 2 * dt * (kappa * rho / sigma - 1 / 2) - rho / sigma) * vn
        + (1 / 2 * dt * (kappa * rho / sigma - 1 / 2) + rho / sigma) * vnp)) with hc
  have e : ∀ n1 n2 : ℝ, Real.exp (x + qeLogIncr R mu kappa sigma rho dt vn vnp mM (rho * n1 + rh * n2))
      = 1 * Real.exp ((c + S * rho * n1) + (S * rh) * n2) := by
    intro n1 n2
    simp only [qeLogIncr, R_half, R_log, R_sqrt, hS']
    rw [one_mul]; congr 1; rw [hc]; ring
  simp only [e, integral_lognormal]
  have e2 : ∀ n1 : ℝ, 1 * Real.exp (c + S * rho * n1 + (S * rh) ^ 2 / 2)
      = 1 * Real.exp ((c + (S * rh) ^ 2 / 2) + (S * rho) * n1) := by
    intro n1; congr 2; ring
  simp only [e2, integral_lognormal]
  rw [one_mul]
  have hexp : c + (S * rh) ^ 2 / 2 + (S * rho) ^ 2 / 2
      = (x + mu * dt) + qeAconst R kappa sigma rho dt * vnp + -(Real.log mM) := by
    have h1 : (S * rh) ^ 2 / 2 + (S * rho) ^ 2 / 2 = S ^ 2 / 2 := by
      have : (S * rh) ^ 2 + (S * rho) ^ 2 = S ^ 2 * (rh ^ 2 + rho * rho) := by ring
      rw [hr] at this; linarith [this]
    simp only [qeAconst, R_half]
    rw [hc]
    linear_combination h1 + (1 / 2 : ℝ) * hS
  rw [hexp, Real.exp_add, Real.exp_add, Real.exp_neg, Real.exp_log hM]
  ring

/-- non-central chi-square (one degree of freedom) moment generating function: `E[exp(c·(s+Z)²)] = exp(c·s²/(1−2c))/√(1−2c)` -/
theorem integral_exp_sq_shift_stdNormal (c s : ℝ) (hc : c < 1 / 2) :
    ∫ z, Real.exp (c * (s + z) ^ 2) ∂stdNormal = Real.exp (c * s ^ 2 / (1 - 2 * c)) / Real.sqrt (1 - 2 * c) := by
  have hk : 0 < 1 / 2 - c := by linarith
  have hk2 : 0 < 1 - 2 * c := by linarith
  rw [integral_gaussianReal_eq_integral_smul (by norm_num)]
  have e : ∀ x : ℝ, gaussianPDFReal 0 1 x • Real.exp (c * (s + x) ^ 2)
      = ((Real.sqrt (2 * Real.pi))⁻¹ * Real.exp (c * s ^ 2 / (1 - 2 * c)))
          * Real.exp (-(1 / 2 - c) * (x - c * s / (1 / 2 - c)) ^ 2) := by
    intro x
    simp only [gaussianPDFReal, smul_eq_mul, NNReal.coe_one, mul_one, sub_zero]
    rw [mul_assoc, mul_assoc, ← Real.exp_add, ← Real.exp_add]
    congr 2
    field_simp
    ring
  simp only [e]
  rw [integral_const_mul, integral_sub_right_eq_self (fun x : ℝ => Real.exp (-(1 / 2 - c) * x ^ 2)), integral_gaussian]
  have hs : Real.sqrt (Real.pi / (1 / 2 - c)) = Real.sqrt (2 * Real.pi) / Real.sqrt (1 - 2 * c) := by
    rw [← Real.sqrt_div (by positivity)]
    congr 1
    field_simp
  rw [hs]
  have h2pi : Real.sqrt (2 * Real.pi) ≠ 0 := (Real.sqrt_pos.mpr (by positivity)).ne'
  field_simp

/-- **qe_quad_mgf** — quadratic branch: the coded `M = exp(A·b²·a/d)/√d`, `d = 1 − 2·A·a`, IS the moment generating function at `A`
of the sampled variance `a(b+Z)²` (for `d > 0`, where it exists). -/
theorem qe_quad_mgf (a' m b2 : ℝ) (hb : 0 ≤ b2) (hd : 0 < 1 - 2 * a' * (m / (1 + b2))) :
    ∫ w, Real.exp (a' * qeQuadDraw R m b2 w) ∂stdNormal = qeQuadM R a' m b2 := by
  have e : (fun w => Real.exp (a' * qeQuadDraw R m b2 w))
      = fun w => Real.exp ((a' * (m / (1 + b2))) * (Real.sqrt b2 + w) ^ 2) := by
    funext w; simp only [qeQuadDraw, R_sqrt]; congr 1; ring
  rw [e, integral_exp_sq_shift_stdNormal _ _ (by linarith), Real.sq_sqrt hb]
  simp only [qeQuadM, R_exp, R_sqrt, R_two]
  congr 2 <;> ring

/-- **qe_exp_mixture_mgf** — exponential branch: the coded `M = p + β(1−p)/(β−A)` IS the moment generating function at `A < β` of
the mixture (mass `p` at zero, density `(1−p)·β·e^{−βv}` on `v > 0`) whose distribution function the coded draw has
(`qe_exp_draw_law`). -/
theorem qe_exp_mixture_mgf (p beta a' : ℝ) (hb : a' < beta) :
    p * Real.exp (a' * 0) + (1 - p) * ∫ v in Set.Ioi (0 : ℝ), Real.exp (a' * v) * (beta * Real.exp (-beta * v))
      = qeExpM p beta a' := by
  have e : ∀ v : ℝ, Real.exp (a' * v) * (beta * Real.exp (-beta * v)) = beta * Real.exp ((a' - beta) * v) := by
    intro v; rw [mul_left_comm, ← Real.exp_add]; congr 2; ring
  simp only [e]
  rw [integral_const_mul, integral_exp_mul_Ioi (by linarith) 0]
  have h1 : beta - a' ≠ 0 := by linarith
  have h2 : a' - beta ≠ 0 := by linarith
  simp only [qeExpM, mul_zero, Real.exp_zero]
  field_simp
  ring

/-- **hestonQE_quadratic_step_martingale** — the coded QUADEXP step on its quadratic branch, all three draws integrated
(`w = norminvcdf(u)` standard normal, the two asset normals): `E[S'] = S·e^{μ·dt}` EXACTLY — the discounted asset is a
martingale over the step, with no discretisation bias. -/
theorem hestonQE_quadratic_step_martingale (mu kappa theta sigma rho dt x vn u : ℝ)
    (hpsi0 : 0 < qePsi R kappa theta sigma (Real.exp (-kappa * dt)) vn)
    (hpsi : qePsi R kappa theta sigma (Real.exp (-kappa * dt)) vn ≤ 3 / 2)
    (hrho : rho * rho ≤ 1) (hdt : 0 ≤ dt) (hvn : 0 ≤ vn) (hm : 0 ≤ qeMean theta (Real.exp (-kappa * dt)) vn)
    (hd : 0 < 1 - 2 * qeAconst R kappa sigma rho dt * (qeMean theta (Real.exp (-kappa * dt)) vn
      / (1 + qeB2 R (qePsi R kappa theta sigma (Real.exp (-kappa * dt)) vn)))) :
    ∫ w, ∫ n1, ∫ n2, Real.exp ((hestonQE R mu kappa theta sigma rho dt (x, vn) ⟨n1, n2, u, w⟩).1)
        ∂stdNormal ∂stdNormal ∂stdNormal
      = Real.exp (x + mu * dt) := by
  have hb2 : 0 ≤ qeB2 R (qePsi R kappa theta sigma (Real.exp (-kappa * dt)) vn) := qeB2_nonneg _ hpsi0 (by linarith)
  generalize hA : qeAconst R kappa sigma rho dt = A at hd
  generalize hmm : qeMean theta (Real.exp (-kappa * dt)) vn = m at hm hd
  generalize hbb : qeB2 R (qePsi R kappa theta sigma (Real.exp (-kappa * dt)) vn) = b2 at hb2 hd
  have hMpos : 0 < qeQuadM R A m b2 := by
    simp only [qeQuadM, R_exp, R_sqrt, R_two]
    exact div_pos (Real.exp_pos _) (Real.sqrt_pos.mpr hd)
  have inner : ∀ w : ℝ, ∫ n1, ∫ n2, Real.exp ((hestonQE R mu kappa theta sigma rho dt (x, vn) ⟨n1, n2, u, w⟩).1)
        ∂stdNormal ∂stdNormal
      = Real.exp (x + mu * dt) / qeQuadM R A m b2 * Real.exp (A * qeQuadDraw R m b2 w) := by
    intro w
    simp only [hestonQE_quadratic mu kappa theta sigma rho dt x vn _ hpsi, hA, hmm, hbb]
    rw [← hA, qe_asset_conditional_mean mu kappa sigma rho dt x vn (qeQuadDraw R m b2 w) _ hrho (hA ▸ hMpos)]
    · rw [hA]; ring
    · have h1 : 0 ≤ 1 - rho * rho := by linarith
      have h0 := mul_nonneg (mul_nonneg (by norm_num : (0 : ℝ) ≤ 1 / 2) hdt) h1
      have hq := qe_quad_draw_nonneg m b2 w hm hb2
      nlinarith [mul_nonneg h0 hvn, mul_nonneg h0 hq]
  simp only [inner]
  rw [integral_const_mul, qe_quad_mgf A m b2 hb2 hd]
  field_simp

/-- **hestonQE_step_martingale** — if the constant `M` the code divides by IS the moment generating function of the sampled
variance at `A` (law `ν` of `v'`, `ν`-almost surely `v' ≥ 0`), the discounted asset is a martingale over the step:
`E[S'] = S·e^{μ·dt}` exactly (no discretisation bias in the first moment — QUADEXP's martingale correction). -/
theorem hestonQE_step_martingale (ν : Measure ℝ) (mu kappa sigma rho dt x vn mM : ℝ) (hrho : rho * rho ≤ 1)
    (hdt : 0 ≤ dt) (hvn : 0 ≤ vn) (hM : 0 < mM) (hpos : ∀ᵐ v ∂ν, 0 ≤ v)
    (hmgf : ∫ v, Real.exp (qeAconst R kappa sigma rho dt * v) ∂ν = mM) :
    ∫ v, ∫ n1, ∫ n2, Real.exp (x + qeLogIncr R mu kappa sigma rho dt vn v mM (rho * n1 + Real.sqrt (1 - rho * rho) * n2))
        ∂stdNormal ∂stdNormal ∂ν
      = Real.exp (x + mu * dt) := by
  have hcongr : (fun v => ∫ n1, ∫ n2, Real.exp (x + qeLogIncr R mu kappa sigma rho dt vn v mM
        (rho * n1 + Real.sqrt (1 - rho * rho) * n2)) ∂stdNormal ∂stdNormal)
      =ᵐ[ν] fun v => Real.exp (x + mu * dt) / mM * Real.exp (qeAconst R kappa sigma rho dt * v) := by
    filter_upwards [hpos] with v hv
    rw [qe_asset_conditional_mean mu kappa sigma rho dt x vn v mM hrho hM]
    · ring
    · have h1 : 0 ≤ 1 - rho * rho := by linarith
      have := mul_nonneg (mul_nonneg (by norm_num : (0 : ℝ) ≤ 1 / 2) hdt) h1
      nlinarith [mul_nonneg this hvn, mul_nonneg this hv]
  rw [integral_congr_ae hcongr, integral_const_mul, hmgf]
  field_simp

/-- **qeExpM_sign_flip_ne** — `M` with the sign of `A` flipped in the denominator, `p + β(1−p)/(β+A)`, is a different number
whenever the asset loads on the variance (`A ≠ 0`). -/
theorem qeExpM_sign_flip_ne (p beta a' : ℝ) (ha : a' ≠ 0) (hb : beta ≠ 0) (hp : p ≠ 1) (h1 : beta - a' ≠ 0)
    (h2 : beta + a' ≠ 0) : p + beta * (1 - p) / (beta + a') ≠ qeExpM p beta a' := by
  unfold qeExpM
  intro h
  have h3 : beta * (1 - p) / (beta + a') = beta * (1 - p) / (beta - a') := by linarith
  rw [div_eq_div_iff h2 h1] at h3
  have h4 : beta * (1 - p) * (2 * a') = 0 := by linarith
  have h1p : 1 - p ≠ 0 := sub_ne_zero.mpr (Ne.symm hp)
  have : beta * (1 - p) * (2 * a') ≠ 0 := by positivity
  exact this h4

/-- **hestonQE_sign_flip_not_martingale** — with the true moment generating function `qeExpM p β A` of the sampled variance,
a step that divides by the sign-flipped constant has `E[S'] = S·e^{μ·dt}·M/M' ≠ S·e^{μ·dt}`. -/
theorem hestonQE_sign_flip_not_martingale (ν : Measure ℝ) (mu kappa sigma rho dt x vn p beta : ℝ) (hrho : rho * rho ≤ 1)
    (hdt : 0 ≤ dt) (hvn : 0 ≤ vn) (hpos : ∀ᵐ v ∂ν, 0 ≤ v)
    (hmgf : ∫ v, Real.exp (qeAconst R kappa sigma rho dt * v) ∂ν = qeExpM p beta (qeAconst R kappa sigma rho dt))
    (hM' : 0 < p + beta * (1 - p) / (beta + qeAconst R kappa sigma rho dt))
    (ha : qeAconst R kappa sigma rho dt ≠ 0) (hb : beta ≠ 0) (hp : p ≠ 1)
    (h1 : beta - qeAconst R kappa sigma rho dt ≠ 0) (h2 : beta + qeAconst R kappa sigma rho dt ≠ 0) :
    ∫ v, ∫ n1, ∫ n2, Real.exp (x + qeLogIncr R mu kappa sigma rho dt vn v
          (p + beta * (1 - p) / (beta + qeAconst R kappa sigma rho dt))
          (rho * n1 + Real.sqrt (1 - rho * rho) * n2)) ∂stdNormal ∂stdNormal ∂ν
      ≠ Real.exp (x + mu * dt) := by
  set mM' := p + beta * (1 - p) / (beta + qeAconst R kappa sigma rho dt) with hmM'
  have hcongr : (fun v => ∫ n1, ∫ n2, Real.exp (x + qeLogIncr R mu kappa sigma rho dt vn v mM'
        (rho * n1 + Real.sqrt (1 - rho * rho) * n2)) ∂stdNormal ∂stdNormal)
      =ᵐ[ν] fun v => Real.exp (x + mu * dt) / mM' * Real.exp (qeAconst R kappa sigma rho dt * v) := by
    filter_upwards [hpos] with v hv
    rw [qe_asset_conditional_mean mu kappa sigma rho dt x vn v mM' hrho hM']
    · ring
    · have h1 : 0 ≤ 1 - rho * rho := by linarith
      have := mul_nonneg (mul_nonneg (by norm_num : (0 : ℝ) ≤ 1 / 2) hdt) h1
      nlinarith [mul_nonneg this hvn, mul_nonneg this hv]
  rw [integral_congr_ae hcongr, integral_const_mul, hmgf]
  intro hcon
  have hne := qeExpM_sign_flip_ne p beta _ ha hb hp h1 h2
  have hE : Real.exp (x + mu * dt) ≠ 0 := (Real.exp_pos _).ne'
  apply hne
  have : Real.exp (x + mu * dt) / mM' * qeExpM p beta (qeAconst R kappa sigma rho dt)
      = Real.exp (x + mu * dt) / mM' * mM' := by
    rw [hcon]; field_simp
  have hfac : Real.exp (x + mu * dt) / mM' ≠ 0 := div_ne_zero hE hM'.ne'
  exact (mul_left_cancel₀ hfac this).symm

/-! ### the exponential branch under the uniform draw itself -/

/-- **qe_exp_mgf_uniform** — exponential branch, the coded inverse-cdf draw itself under a uniform `u` on `(0,1)` (integral
split at the atom `u = p`): `∫₀¹ exp(A·v'(u)) du = p + β(1−p)/(β−A)`, the coded `M`. -/
theorem qe_exp_mgf_uniform (p beta a' : ℝ) (hp0 : 0 ≤ p) (hp1 : p < 1) (hb : 0 < beta) (hA : a' < beta) :
    (∫ u in (0 : ℝ)..p, Real.exp (a' * qeExpDraw R p beta u)) + (∫ u in p..1, Real.exp (a' * qeExpDraw R p beta u))
      = qeExpM p beta a' := by
  have h1p : 0 < 1 - p := by linarith
  -- the atom
  have part1 : (∫ u in (0 : ℝ)..p, Real.exp (a' * qeExpDraw R p beta u)) = p := by
    have : (∫ u in (0 : ℝ)..p, Real.exp (a' * qeExpDraw R p beta u)) = ∫ u in (0 : ℝ)..p, (1 : ℝ) := by
      apply intervalIntegral.integral_congr_uIoo
      intro u hu
      rw [Set.uIoo_of_le hp0] at hu
      simp only [qeExpDraw, if_pos hu.2.le, mul_zero, Real.exp_zero]
    rw [this]; simp
  -- the exponential part
  set c := a' / beta with hc
  have hc1 : c < 1 := by rw [hc, div_lt_one hb]; exact hA
  have part2 : (∫ u in p..1, Real.exp (a' * qeExpDraw R p beta u)) = (1 - p) / (1 - c) := by
    have e : (∫ u in p..1, Real.exp (a' * qeExpDraw R p beta u))
        = ∫ u in p..1, (fun t : ℝ => (1 - p) ^ c * t ^ (-c)) (1 - u) := by
      apply intervalIntegral.integral_congr_uIoo
      intro u hu
      rw [Set.uIoo_of_le hp1.le] at hu
      have hu1 : 0 < 1 - u := by linarith [hu.2]
      have hnot : ¬ u ≤ p := not_le.mpr hu.1
      simp only [qeExpDraw, if_neg hnot, R_log]
      rw [Real.rpow_neg hu1.le, ← div_eq_mul_inv, ← Real.div_rpow h1p.le hu1.le,
        Real.rpow_def_of_pos (div_pos h1p hu1)]
      congr 1; rw [hc]; field_simp
    rw [e, intervalIntegral.integral_comp_sub_left (fun t : ℝ => (1 - p) ^ c * t ^ (-c)) 1]
    simp only [sub_self]
    rw [intervalIntegral.integral_const_mul, integral_rpow (Or.inl (by linarith))]
    have hne : -c + 1 ≠ 0 := by linarith
    rw [Real.zero_rpow hne, sub_zero, ← mul_div_assoc, ← Real.rpow_add h1p]
    have : c + (-c + 1) = 1 := by ring
    rw [this, Real.rpow_one]
    congr 1; ring
  rw [part1, part2, hc]
  have h1 : beta - a' ≠ 0 := by linarith
  unfold qeExpM
  field_simp

/-- **hestonQE_exponential_step_martingale** — the coded QUADEXP step on its exponential branch (`psi > 1.5`), the uniform and the
two asset normals integrated (the uniform's integral split at the atom `u = p`): `E[S'] = S·e^{μ·dt}` EXACTLY. -/
theorem hestonQE_exponential_step_martingale (mu kappa theta sigma rho dt x vn w : ℝ)
    (hpsi : 3 / 2 < qePsi R kappa theta sigma (Real.exp (-kappa * dt)) vn)
    (hrho : rho * rho ≤ 1) (hdt : 0 ≤ dt) (hvn : 0 ≤ vn) (hm : 0 < qeMean theta (Real.exp (-kappa * dt)) vn)
    (hA : qeAconst R kappa sigma rho dt
      < qeBeta (qeP (qePsi R kappa theta sigma (Real.exp (-kappa * dt)) vn)) (qeMean theta (Real.exp (-kappa * dt)) vn)) :
    (∫ u in (0 : ℝ)..qeP (qePsi R kappa theta sigma (Real.exp (-kappa * dt)) vn),
        ∫ n1, ∫ n2, Real.exp ((hestonQE R mu kappa theta sigma rho dt (x, vn) ⟨n1, n2, u, w⟩).1) ∂stdNormal ∂stdNormal)
    + (∫ u in qeP (qePsi R kappa theta sigma (Real.exp (-kappa * dt)) vn)..1,
        ∫ n1, ∫ n2, Real.exp ((hestonQE R mu kappa theta sigma rho dt (x, vn) ⟨n1, n2, u, w⟩).1) ∂stdNormal ∂stdNormal)
      = Real.exp (x + mu * dt) := by
  obtain ⟨hp0, hp1⟩ := qe_exp_p_range (qePsi R kappa theta sigma (Real.exp (-kappa * dt)) vn) (by linarith)
  have hshape := fun d => hestonQE_exponential mu kappa theta sigma rho dt x vn d hpsi
  generalize hAA : qeAconst R kappa sigma rho dt = A at hA hshape
  generalize hmm : qeMean theta (Real.exp (-kappa * dt)) vn = m at hm hA hshape
  generalize hpp : qeP (qePsi R kappa theta sigma (Real.exp (-kappa * dt)) vn) = p at hp0 hp1 hA hshape
  have hbeta : 0 < qeBeta p m := by unfold qeBeta; exact div_pos (by linarith) hm
  generalize hbb : qeBeta p m = beta at hbeta hA hshape
  have hMpos : 0 < qeExpM p beta A := by
    unfold qeExpM
    have : 0 < beta * (1 - p) / (beta - A) := div_pos (mul_pos hbeta (by linarith)) (by linarith)
    linarith
  have inner : ∀ u : ℝ, u < 1 → ∫ n1, ∫ n2, Real.exp ((hestonQE R mu kappa theta sigma rho dt (x, vn) ⟨n1, n2, u, w⟩).1)
        ∂stdNormal ∂stdNormal
      = Real.exp (x + mu * dt) / qeExpM p beta A * Real.exp (A * qeExpDraw R p beta u) := by
    intro u hu
    simp only [hshape]
    rw [← hAA, qe_asset_conditional_mean mu kappa sigma rho dt x vn (qeExpDraw R p beta u) _ hrho (hAA ▸ hMpos)]
    · rw [hAA]; ring
    · have h1 : 0 ≤ 1 - rho * rho := by linarith
      have h0 := mul_nonneg (mul_nonneg (by norm_num : (0 : ℝ) ≤ 1 / 2) hdt) h1
      have hq := qe_exp_draw_nonneg p beta u hp1 hbeta hu
      nlinarith [mul_nonneg h0 hvn, mul_nonneg h0 hq]
  have i1 : (∫ u in (0 : ℝ)..p, ∫ n1, ∫ n2, Real.exp ((hestonQE R mu kappa theta sigma rho dt (x, vn) ⟨n1, n2, u, w⟩).1)
        ∂stdNormal ∂stdNormal)
      = ∫ u in (0 : ℝ)..p, Real.exp (x + mu * dt) / qeExpM p beta A * Real.exp (A * qeExpDraw R p beta u) := by
    apply intervalIntegral.integral_congr_uIoo
    intro u hu
    rw [Set.uIoo_of_le hp0] at hu
    exact inner u (by linarith [hu.2])
  have i2 : (∫ u in p..1, ∫ n1, ∫ n2, Real.exp ((hestonQE R mu kappa theta sigma rho dt (x, vn) ⟨n1, n2, u, w⟩).1)
        ∂stdNormal ∂stdNormal)
      = ∫ u in p..1, Real.exp (x + mu * dt) / qeExpM p beta A * Real.exp (A * qeExpDraw R p beta u) := by
    apply intervalIntegral.integral_congr_uIoo
    intro u hu
    rw [Set.uIoo_of_le hp1.le] at hu
    exact inner u hu.2
  rw [i1, i2, intervalIntegral.integral_const_mul, intervalIntegral.integral_const_mul, ← mul_add,
    qe_exp_mgf_uniform p beta A hp0 hp1 hbeta hA]
  field_simp

/-! ### non-vacuity of the two step-martingale theorems -/

/-- non-vacuity: κ = θ = σ = v = 1, ρ = 0, dt = 1 lies on the quadratic branch (`psi = (1−e^{−2})/2`) and meets every hypothesis. -/
example (x u : ℝ) :
    ∫ w, ∫ n1, ∫ n2, Real.exp ((hestonQE R 0 1 1 1 0 1 (x, 1) ⟨n1, n2, u, w⟩).1) ∂stdNormal ∂stdNormal ∂stdNormal
      = Real.exp (x + 0 * 1) := by
  have hq0 : 0 < Real.exp (-1 * 1) := Real.exp_pos _
  have hq1 : Real.exp (-1 * 1) < 1 := by rw [Real.exp_lt_one_iff]; norm_num
  have hpsi : qePsi R 1 1 1 (Real.exp (-1 * 1)) 1 = (1 - Real.exp (-1 * 1) ^ 2) / 2 := by
    simp only [qePsi, qeMean, R_two]; ring
  have hA : qeAconst R 1 1 0 1 = 0 := by simp only [qeAconst, R_half]; norm_num
  have hb : 0 < (1 - Real.exp (-1 * 1) ^ 2) / 2 ∧ (1 - Real.exp (-1 * 1) ^ 2) / 2 ≤ 3 / 2 := by
    generalize Real.exp (-1 * 1) = q at hq0 hq1
    constructor <;> nlinarith [mul_pos (sub_pos.2 hq1) (by linarith : 0 < 1 + q), sq_nonneg q]
  apply hestonQE_quadratic_step_martingale
  · rw [hpsi]; exact hb.1
  · rw [hpsi]; exact hb.2
  · norm_num
  · norm_num
  · norm_num
  · simp [qeMean]
  · rw [hA]; norm_num

/-- non-vacuity: κ = θ = v = 1, σ = 2, ρ = 0, dt = 1 lies on the exponential branch (`psi = 2(1−e^{−2}) > 1.5`). -/
example (x w : ℝ) :
    (∫ u in (0 : ℝ)..qeP (qePsi R 1 1 2 (Real.exp (-1 * 1)) 1),
        ∫ n1, ∫ n2, Real.exp ((hestonQE R 0 1 1 2 0 1 (x, 1) ⟨n1, n2, u, w⟩).1) ∂stdNormal ∂stdNormal)
    + (∫ u in qeP (qePsi R 1 1 2 (Real.exp (-1 * 1)) 1)..1,
        ∫ n1, ∫ n2, Real.exp ((hestonQE R 0 1 1 2 0 1 (x, 1) ⟨n1, n2, u, w⟩).1) ∂stdNormal ∂stdNormal)
      = Real.exp (x + 0 * 1) := by
  have hq0 : 0 < Real.exp (-1 * 1) := Real.exp_pos _
  have hq1 : Real.exp (-1 * 1) < 1 / 2 := by
    have h : (1 : ℝ) + 1 < Real.exp 1 := Real.add_one_lt_exp (by norm_num)
    have e : Real.exp (-1 * 1) = (Real.exp 1)⁻¹ := by rw [← Real.exp_neg]; norm_num
    rw [e, inv_lt_comm₀ (Real.exp_pos 1) (by norm_num)]
    generalize Real.exp 1 = E at h
    norm_num; linarith
  have hpsi : qePsi R 1 1 2 (Real.exp (-1 * 1)) 1 = 2 * (1 - Real.exp (-1 * 1) ^ 2) := by
    simp only [qePsi, qeMean, R_two]; ring
  have hA : qeAconst R 1 2 0 1 = 0 := by simp only [qeAconst, R_half]; norm_num
  have hm : qeMean 1 (Real.exp (-1 * 1)) 1 = 1 := by simp [qeMean]
  have hb : 3 / 2 < 2 * (1 - Real.exp (-1 * 1) ^ 2) := by
    generalize Real.exp (-1 * 1) = q at hq0 hq1
    nlinarith [mul_pos (sub_pos.2 hq1) (by linarith : 0 < 1 / 2 + q)]
  have hlt : 3 / 2 < qePsi R 1 1 2 (Real.exp (-1 * 1)) 1 := by rw [hpsi]; exact hb
  have hge : (1 : ℝ) ≤ qePsi R 1 1 2 (Real.exp (-1 * 1)) 1 := le_trans (by norm_num) hlt.le
  obtain ⟨_, hp1⟩ := qe_exp_p_range _ hge
  apply hestonQE_exponential_step_martingale
  · exact hlt
  · norm_num
  · norm_num
  · norm_num
  · rw [hm]; norm_num
  · rw [hA, hm]
    unfold qeBeta; simp only [div_one]
    exact sub_pos.2 hp1

end FinVerif.Props.C19
