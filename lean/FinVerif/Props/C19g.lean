/-
  C19 (part g) — first- and second-moment exactness of the discretisation steps AS CODED, the antithetic half at the
  sample level, the closed forms the Monte-Carlo short-rate routines are compared with (GENERATED from
  `vasicek_mc.py` / `cir_montecarlo.py`: `Gen/ShortRateR`), and the LMM spot-measure drift.

  * conditional mean of one step = the SDE drift step (Gaussian integrals): CIR Milstein and Kahl–Jäckel, Heston EULER and
    EULERLOG (both components; iterated integral over the two normals); one-step variances of the Vasicek / CIR Euler steps;
  * full truncation: below zero the CIR Euler step is deterministic and upward; the Heston variance recovers at rate
    `κθ − σ²/4`; the CIR Milstein step is a square plus drift;
  * antithetic variates: the estimate of any ODD functional is exactly 0 for every sample, adding an odd functional does not
    change an estimate;
  * Vasicek `meanr` is a flow, `variancer` composes, `zero_price` is `E[exp(−∫r)]` for the Gaussian integrated rate; the Euler
    scheme's mean is biased DOWNWARD for `r₀ ≥ b` (towards `b` too fast) and its one-step variance is an OVER-estimate;
    the moment-matched CIR step has the generated `meanr` / `variancer` as its mean and variance;
  * LMM: the drift accumulator is the documented sum `Σ σ_k σ_i τ_i F_i/(1+τ_i F_i)`, non-negative for non-negative inputs;
    forwards stay positive; the multi-factor step with one factor leaves the next-to-reset forward a martingale.
-/
import FinVerif.Lemmas.C19
import FinVerif.Spec.C19
import FinVerif.Props.C19c
import FinVerif.Props.C19e
import FinVerif.Props.C19f
import FinVerif.Gen.ShortRateR

set_option linter.unusedVariables false

namespace FinVerif.Props.C19
open FinVerif FinVerif.Model.C19 FinVerif.Lemmas.C19 FinVerif.Spec.C19 FinVerif.Gen.ShortRateR MeasureTheory ProbabilityTheory

/-! ### conditional means and variances of the steps -/

/-- **cirMilstein_mean** — the Milstein correction has mean zero: `E[step(Z)] = r + κ(θ−r)dt`. -/
theorem cirMilstein_mean (kappa theta sigma dt r : ℝ) :
    ∫ z, cirMilstein R kappa theta sigma dt r z ∂stdNormal = eulerMean kappa theta dt r := by
  have e : (fun z => cirMilstein R kappa theta sigma dt r z)
      = fun z => (r + kappa * (theta - r) * dt - sigma * sigma * dt / 4)
          + (sigma * Real.sqrt dt * Real.sqrt (max r 0)) * z + (sigma * sigma * dt / 4) * z ^ 2 := by
    funext z; simp only [cirMilstein, R_max, R_sqrt, R_four]; ring
  rw [e, integral_quadratic_stdNormal]; unfold eulerMean; ring

/-- **cirKJ_mean** — Kahl–Jäckel as coded: `E[step(Z)] = r + κ(b̂−r)(1−κdt/2)dt + σ²dt/4`, `b̂ = θ − σ²/(4κ)`; to first
order in `dt` this is `r + κ(θ−r)dt` (the `σ²dt/4` cancels the shift in `b̂`). -/
theorem cirKJ_mean (fl kappa theta sigma dt r : ℝ) (hdt : 0 < dt) (hr : 0 < max r fl) :
    ∫ z, cirKJ R fl kappa theta sigma dt r z ∂stdNormal
      = r + kappa * (theta - sigma ^ 2 / 4 / kappa - r) * (1 - kappa * dt / 2) * dt + sigma ^ 2 * dt / 4 := by
  have e : (fun z => cirKJ R fl kappa theta sigma dt r z)
      = fun z => (r + kappa * (theta - sigma ^ 2 / 4 / kappa - r) * (1 - kappa * dt / 2) * dt)
          + (Real.sqrt dt * (kappa * (theta - sigma ^ 2 / 4 / kappa - r) * sigma * dt / (4 * Real.sqrt (max r fl))
              + sigma * Real.sqrt (max r fl) * (1 - kappa * dt / 2))) * z
          + (sigma ^ 2 * dt / 4) * z ^ 2 := by
    funext z
    have hp := cirKJ_pairing fl kappa theta sigma dt r z hdt hr
    have ho := cirKJ_odd_part fl kappa theta sigma dt r z hdt hr
    linear_combination (1 / 2 : ℝ) * hp + (1 / 2 : ℝ) * ho
  rw [e, integral_quadratic_stdNormal]

/-- **cirKJ_mean_first_order** — the same mean is `r + κ(θ−r)dt − κ²(b̂−r)dt²/2`: Euler's drift step up to `O(dt²)`. -/
theorem cirKJ_mean_first_order (kappa theta sigma dt r : ℝ) (hk : kappa ≠ 0) :
    r + kappa * (theta - sigma ^ 2 / 4 / kappa - r) * (1 - kappa * dt / 2) * dt + sigma ^ 2 * dt / 4
      = eulerMean kappa theta dt r - kappa ^ 2 * (theta - sigma ^ 2 / 4 / kappa - r) * dt ^ 2 / 2 := by
  unfold eulerMean; field_simp; ring

/-- **vasStep_variance** — `Var[step(Z)] = (σ√dt)²`. -/
theorem vasStep_variance (a b dt ssd r : ℝ) :
    ∫ z, (vasStep a b dt ssd r z - eulerMean a b dt r) ^ 2 ∂stdNormal = ssd ^ 2 := by
  have e : (fun z => (vasStep a b dt ssd r z - eulerMean a b dt r) ^ 2) = fun z => 0 + 0 * z + ssd ^ 2 * z ^ 2 := by
    funext z; unfold vasStep eulerMean; ring
  rw [e, integral_quadratic_stdNormal]; ring

/-- **cirEulerMC_variance** — `Var[step(Z)] = (σ√dt)²·r⁺` (the CIR diffusion coefficient squared). -/
theorem cirEulerMC_variance (a b dt ssd r : ℝ) :
    ∫ z, (cirEulerMC R a b dt ssd r z - eulerMean a b dt r) ^ 2 ∂stdNormal = ssd ^ 2 * max r 0 := by
  have hs : Real.sqrt (max r 0) ^ 2 = max r 0 := Real.sq_sqrt (le_max_right _ _)
  have e : (fun z => (cirEulerMC R a b dt ssd r z - eulerMean a b dt r) ^ 2)
      = fun z => 0 + 0 * z + (ssd ^ 2 * max r 0) * z ^ 2 := by
    funext z; simp only [cirEulerMC, eulerMean, R_max, R_sqrt]
    linear_combination (ssd ^ 2 * z ^ 2) * hs
  rw [e, integral_quadratic_stdNormal]; ring

/-- **hestonEuler_mean** — Heston EULER as coded, both normals integrated: `E[s'] = s·(1 + μ·dt)` EXACTLY (the Milstein-type
term `½·s·v⁺·(z_V² − dt)` has mean zero), and `E[v'] = v + κ(θ − v⁺)dt`. -/
theorem hestonEuler_mean (mu kappa theta sigma rho dt s v : ℝ) (hdt : 0 ≤ dt) :
    (∫ n1, ∫ n2, (hestonEuler R mu kappa theta sigma rho dt (s, v) (n1, n2)).1 ∂stdNormal ∂stdNormal = s * (1 + mu * dt))
    ∧ (∫ n1, ∫ n2, (hestonEuler R mu kappa theta sigma rho dt (s, v) (n1, n2)).2 ∂stdNormal ∂stdNormal
        = v + kappa * (theta - max v 0) * dt) := by
  have hsd : Real.sqrt dt ^ 2 = dt := Real.sq_sqrt hdt
  constructor
  · have inner : ∀ n1 : ℝ, ∫ n2, (hestonEuler R mu kappa theta sigma rho dt (s, v) (n1, n2)).1 ∂stdNormal
        = (s + mu * s * dt - 1 / 2 * s * max v 0 * dt) + (Real.sqrt (max v 0) * s * rho * Real.sqrt dt) * n1
          + (1 / 2 * s * max v 0 * Real.sqrt dt ^ 2) * n1 ^ 2 := by
      intro n1
      have e : (fun n2 => (hestonEuler R mu kappa theta sigma rho dt (s, v) (n1, n2)).1)
          = fun n2 => ((s + mu * s * dt - 1 / 2 * s * max v 0 * dt) + (Real.sqrt (max v 0) * s * rho * Real.sqrt dt) * n1
              + (1 / 2 * s * max v 0 * Real.sqrt dt ^ 2) * n1 ^ 2)
            + n2 * (Real.sqrt (max v 0) * s * Real.sqrt (1 - rho * rho) * Real.sqrt dt) := by
        funext n2; simp only [hestonEuler, R_max, R_sqrt, R_half]; ring
      rw [e, integral_affine]
    simp only [inner]
    rw [integral_quadratic_stdNormal, hsd]; ring
  · have inner : ∀ n1 : ℝ, ∫ n2, (hestonEuler R mu kappa theta sigma rho dt (s, v) (n1, n2)).2 ∂stdNormal
        = (v + kappa * (theta - max v 0) * dt - 1 / 4 * (sigma * sigma) * dt) + (sigma * Real.sqrt (max v 0) * Real.sqrt dt) * n1
          + (1 / 4 * (sigma * sigma) * Real.sqrt dt ^ 2) * n1 ^ 2 := by
      intro n1
      have e : (fun n2 : ℝ => (hestonEuler R mu kappa theta sigma rho dt (s, v) (n1, n2)).2)
          = fun _ => (v + kappa * (theta - max v 0) * dt - 1 / 4 * (sigma * sigma) * dt)
              + (sigma * Real.sqrt (max v 0) * Real.sqrt dt) * n1 + (1 / 4 * (sigma * sigma) * Real.sqrt dt ^ 2) * n1 ^ 2 := by
        funext n2; simp only [hestonEuler, R_max, R_sqrt, R_quarter]; ring
      rw [e]; simp
    simp only [inner]
    rw [integral_quadratic_stdNormal, hsd]; ring

/-- **hestonEulerLog_mean** — Heston EULERLOG as coded: `E[x'] = x + (μ − v⁺/2)·dt` (the log-price drift of the SDE) and
`E[v'] = v + κ(θ − v⁺)dt`. -/
theorem hestonEulerLog_mean (mu kappa theta sigma rho dt x v : ℝ) (hdt : 0 ≤ dt) :
    (∫ n1, ∫ n2, (hestonEulerLog R mu kappa theta sigma rho dt (x, v) (n1, n2)).1 ∂stdNormal ∂stdNormal
        = x + (mu - max v 0 / 2) * dt)
    ∧ (∫ n1, ∫ n2, (hestonEulerLog R mu kappa theta sigma rho dt (x, v) (n1, n2)).2 ∂stdNormal ∂stdNormal
        = v + kappa * (theta - max v 0) * dt) := by
  have hsd : Real.sqrt dt ^ 2 = dt := Real.sq_sqrt hdt
  constructor
  · have inner : ∀ n1 : ℝ, ∫ n2, (hestonEulerLog R mu kappa theta sigma rho dt (x, v) (n1, n2)).1 ∂stdNormal
        = (x + (mu - 1 / 2 * max v 0) * dt) + (Real.sqrt (max v 0) * rho * Real.sqrt dt) * n1 + 0 * n1 ^ 2 := by
      intro n1
      have e : (fun n2 => (hestonEulerLog R mu kappa theta sigma rho dt (x, v) (n1, n2)).1)
          = fun n2 => ((x + (mu - 1 / 2 * max v 0) * dt) + (Real.sqrt (max v 0) * rho * Real.sqrt dt) * n1 + 0 * n1 ^ 2)
            + n2 * (Real.sqrt (max v 0) * Real.sqrt (1 - rho * rho) * Real.sqrt dt) := by
        funext n2; simp only [hestonEulerLog, R_max, R_sqrt, R_half]; ring
      rw [e, integral_affine]
    simp only [inner]
    rw [integral_quadratic_stdNormal]; ring
  · have inner : ∀ n1 : ℝ, ∫ n2, (hestonEulerLog R mu kappa theta sigma rho dt (x, v) (n1, n2)).2 ∂stdNormal
        = (v + kappa * (theta - max v 0) * dt - sigma * sigma * dt / 4) + (sigma * Real.sqrt (max v 0) * Real.sqrt dt) * n1
          + (sigma * sigma * Real.sqrt dt ^ 2 / 4) * n1 ^ 2 := by
      intro n1
      have e : (fun n2 : ℝ => (hestonEulerLog R mu kappa theta sigma rho dt (x, v) (n1, n2)).2)
          = fun _ => (v + kappa * (theta - max v 0) * dt - sigma * sigma * dt / 4)
              + (sigma * Real.sqrt (max v 0) * Real.sqrt dt) * n1 + (sigma * sigma * Real.sqrt dt ^ 2 / 4) * n1 ^ 2 := by
        funext n2; simp only [hestonEulerLog, R_max, R_sqrt, R_four]; ring
      rw [e]; simp
    simp only [inner]
    rw [integral_quadratic_stdNormal, hsd]; ring

/-! ### full truncation -/

/-- **cirEulerPS_below_zero_deterministic** — `get_cir_paths` EULER (full truncation): at or below zero the step has no noise
and moves up by exactly `κθ·dt`. -/
theorem cirEulerPS_below_zero_deterministic (kappa theta dt ssd r z : ℝ) (hr : r ≤ 0) :
    cirEulerPS R kappa theta dt ssd r z = r + kappa * theta * dt := by
  simp only [cirEulerPS, R_max, R_sqrt, max_eq_right hr, Real.sqrt_zero]; ring

/-- **hestonEuler_negative_variance_recovers** — when the Heston variance state is at or below zero, the next value is at
least `v + (κθ − σ²/4)·dt`: with `4κθ ≥ σ²` a negative excursion can only shrink. -/
theorem hestonEuler_negative_variance_recovers (mu kappa theta sigma rho dt s v n1 n2 : ℝ) (hv : v ≤ 0) (hdt : 0 ≤ dt) :
    v + (kappa * theta - sigma ^ 2 / 4) * dt ≤ (hestonEuler R mu kappa theta sigma rho dt (s, v) (n1, n2)).2 := by
  simp only [hestonEuler, R_max, R_sqrt, R_quarter, max_eq_right hv, Real.sqrt_zero]
  have : 0 ≤ sigma ^ 2 / 4 * (n1 * Real.sqrt dt * (n1 * Real.sqrt dt)) :=
    mul_nonneg (by positivity) (mul_self_nonneg _)
  nlinarith

/-- **cirMilstein_square_form** — for `r ≥ 0` the Milstein step is a perfect square plus the drift shifted by `−σ²/4`:
`(√r + σ√dt·z/2)² + (κ(θ−r) − σ²/4)·dt`. -/
theorem cirMilstein_square_form (kappa theta sigma dt r z : ℝ) (hr : 0 ≤ r) (hdt : 0 ≤ dt) :
    cirMilstein R kappa theta sigma dt r z
      = (Real.sqrt r + sigma * Real.sqrt dt * z / 2) ^ 2 + (kappa * (theta - r) - sigma ^ 2 / 4) * dt := by
  simp only [cirMilstein, R_max, R_sqrt, R_four, max_eq_left hr]
  have h1 : Real.sqrt r ^ 2 = r := Real.sq_sqrt hr
  have h2 : Real.sqrt dt ^ 2 = dt := Real.sq_sqrt hdt
  linear_combination (-1 : ℝ) * h1 - (sigma ^ 2 * z ^ 2 / 4) * h2

/-- **cirMilstein_lower_bound** — hence `step ≥ (κ(θ−r) − σ²/4)·dt` whatever the draw. -/
theorem cirMilstein_lower_bound (kappa theta sigma dt r z : ℝ) (hr : 0 ≤ r) (hdt : 0 ≤ dt) :
    (kappa * (theta - r) - sigma ^ 2 / 4) * dt ≤ cirMilstein R kappa theta sigma dt r z := by
  rw [cirMilstein_square_form _ _ _ _ _ _ hr hdt]
  have := sq_nonneg (Real.sqrt r + sigma * Real.sqrt dt * z / 2)
  linarith

/-! ### antithetic variates at the sample level -/

/-- **antithetic_odd_exact_zero** — the antithetic half uses `−Z`: the estimate of ANY odd functional is exactly zero, for
every sample (no sampling error at all in the odd part of a payoff). -/
theorem antithetic_odd_exact_zero (f : ℝ → ℝ) (hodd : ∀ z, f (-z) = -f z) (df : ℝ) (gs : List ℝ) :
    antitheticEstimate R f df gs = 0 := by
  simp only [antitheticEstimate, meanL, sumL_eq_sum, R_two, List.length_map]
  have h : (gs.map fun g => (f g + f (-g)) / 2) = gs.map fun _ => (0 : ℝ) := by
    apply List.map_congr_left; intro g _; rw [hodd]; ring
  rw [h]; simp

/-- **antithetic_add_odd** — adding an odd functional to the payoff does not change the antithetic estimate. -/
theorem antithetic_add_odd (f g : ℝ → ℝ) (hodd : ∀ z, g (-z) = -g z) (df : ℝ) (gs : List ℝ) :
    antitheticEstimate R (fun z => f z + g z) df gs = antitheticEstimate R f df gs := by
  simp only [antitheticEstimate]
  congr 2
  apply List.map_congr_left; intro z _; rw [hodd]; ring

example : antitheticEstimate R (fun z => z ^ 3 - 2 * z) 1 [0.3, -1.2, 2] = 0 :=
  antithetic_odd_exact_zero _ (fun z => by ring) _ _

/-! ### the closed forms of `vasicek_mc.py` / `cir_montecarlo.py` (generated) -/

/-- **vas_meanr_semigroup** — the coded conditional mean is a flow: the mean after `s` then `t` is the mean after `s+t`. -/
theorem vas_meanr_semigroup (r0 a b s t : ℝ) :
    vas_meanr (vas_meanr r0 a b s) a b t = vas_meanr r0 a b (s + t) := by
  simp only [vas_meanr, Int.cast_one]
  have : Real.exp (-a * (s + t)) = Real.exp (-a * s) * Real.exp (-a * t) := by rw [← Real.exp_add]; ring_nf
  rw [this]; ring

/-- **vas_variancer_compose** — the coded variance composes like the variance of an OU flow:
`Var(s+t) = e^{−2at}·Var(s) + Var(t)`. -/
theorem vas_variancer_compose (a sigma s t : ℝ) :
    vas_variancer a sigma (s + t) = Real.exp (-2 * a * t) * vas_variancer a sigma s + vas_variancer a sigma t := by
  simp only [vas_variancer]
  have : Real.exp (-2 * a * (s + t)) = Real.exp (-2 * a * s) * Real.exp (-2 * a * t) := by rw [← Real.exp_add]; ring_nf
  rw [this]; ring

/-- **vasStep_mean_vs_meanr** — one Euler step against the exact conditional mean: `E[step] − meanr(dt) = (r−b)(e^{−a·dt} − 1 + a·dt)`
with the opposite sign, i.e. the Euler mean is `meanr` with `e^{−a·dt}` replaced by `1 − a·dt`. -/
theorem vasStep_mean_vs_meanr (r a b dt ssd : ℝ) :
    (∫ z, vasStep a b dt ssd r z ∂stdNormal) - vas_meanr r a b dt = (r - b) * ((1 - a * dt) - Real.exp (-a * dt)) := by
  rw [vasStep_mean]; simp only [vas_meanr, eulerMean, Int.cast_one]; ring

/-- **vas_euler_mean_le_exact** — for `0 ≤ a·dt ≤ 1` and `r₀ ≥ b` the `n`-step Euler mean is at most the coded exact mean at
`n·dt` (the scheme decays towards `b` too fast: `(1−a·dt)ⁿ ≤ e^{−a·n·dt}`); for `r₀ ≤ b` the inequality reverses. -/
theorem vas_euler_mean_le_exact (r0 a b dt : ℝ) (n : ℕ) (h0 : 0 ≤ a * dt) (h1 : a * dt ≤ 1) :
    (b ≤ r0 → (eulerMean a b dt)^[n] r0 ≤ vas_meanr r0 a b (n * dt))
    ∧ (r0 ≤ b → vas_meanr r0 a b (n * dt) ≤ (eulerMean a b dt)^[n] r0) := by
  have hpow : (1 - a * dt) ^ n ≤ Real.exp (-a * (n * dt)) := by
    have h2 : 1 - a * dt ≤ Real.exp (-(a * dt)) := Real.one_sub_le_exp_neg _
    have h3 : (1 - a * dt) ^ n ≤ Real.exp (-(a * dt)) ^ n := pow_le_pow_left₀ (by linarith) h2 n
    have h4 : Real.exp (-(a * dt)) ^ n = Real.exp (-a * (n * dt)) := by
      rw [← Real.exp_nat_mul]; ring_nf
    rwa [h4] at h3
  rw [euler_mean_closed_form]
  simp only [vas_meanr, Int.cast_one]
  constructor
  · intro h; nlinarith [mul_le_mul_of_nonneg_left hpow (sub_nonneg.mpr h)]
  · intro h; nlinarith [mul_le_mul_of_nonneg_left hpow (sub_nonneg.mpr h)]

/-- **vas_euler_variance_ge_exact** — one Euler step has variance `σ²dt`, at least the coded exact variance
`σ²(1−e^{−2a·dt})/(2a)` (for `a > 0`). -/
theorem vas_euler_variance_ge_exact (a sigma dt : ℝ) (ha : 0 < a) :
    vas_variancer a sigma dt ≤ sigma ^ 2 * dt := by
  simp only [vas_variancer]
  have h := Real.add_one_le_exp (-2 * a * dt)
  rw [div_div, div_le_iff₀ (by positivity)]
  nlinarith [sq_nonneg sigma]

/-- **vas_zero_price_exponent** — the coded zero price is `exp(−M + V/2)` with `M`, `V` the mean and variance of the
integrated Ornstein–Uhlenbeck rate. -/
theorem vas_zero_price_exponent (r0 a b sigma t : ℝ) (ha : a ≠ 0) :
    vas_zero_price r0 a b sigma t = Real.exp (-(vasIntegratedMean r0 a b t) + vasIntegratedVar a sigma t / 2) := by
  simp only [vas_zero_price, vasIntegratedMean, vasIntegratedVar]
  rw [← Real.exp_add]
  congr 1
  have h2 : Real.exp (-2 * a * t) = Real.exp (-a * t) * Real.exp (-a * t) := by rw [← Real.exp_add]; ring_nf
  rw [h2]
  field_simp
  ring

/-- **vas_zero_price_is_expectation** — “short-rate paths reproduce the analytic zero price”: with the integrated rate
`∫r = M + √V·Z` Gaussian, `E[exp(−∫r)]` IS the coded `zero_price`. -/
theorem vas_zero_price_is_expectation (r0 a b sigma t : ℝ) (ha : a ≠ 0) (hV : 0 ≤ vasIntegratedVar a sigma t) :
    ∫ z, Real.exp (-(vasIntegratedMean r0 a b t + Real.sqrt (vasIntegratedVar a sigma t) * z)) ∂stdNormal
      = vas_zero_price r0 a b sigma t := by
  have e : (fun z : ℝ => Real.exp (-(vasIntegratedMean r0 a b t + Real.sqrt (vasIntegratedVar a sigma t) * z)))
      = fun z => 1 * Real.exp (-(vasIntegratedMean r0 a b t) + (-Real.sqrt (vasIntegratedVar a sigma t)) * z) := by
    funext z; rw [one_mul]; congr 1; ring
  rw [e, integral_lognormal, one_mul, neg_sq, Real.sq_sqrt hV, vas_zero_price_exponent _ _ _ _ _ ha]

/-- **cir_meanr_eq_vas_meanr** — the two coded conditional means are the same function. -/
theorem cir_meanr_eq_vas_meanr (r0 a b t : ℝ) : cir_meanr r0 a b t = vas_meanr r0 a b t := by
  simp only [cir_meanr, vas_meanr, Int.cast_one]

/-- **cirLognormal_mean_is_meanr** — the moment-matched CIR step has the coded `meanr` as conditional mean. -/
theorem cirLognormal_mean_is_meanr (kappa theta sigma dt r : ℝ) :
    ∫ z, cirLognormal R kappa theta sigma dt r z ∂stdNormal = cir_meanr r kappa theta dt := by
  rw [cirLognormal_mean]; simp only [cir_meanr]; ring

/-- **cirLognormal_variance_is_variancer** — and the coded `variancer` as conditional variance (second moment matched),
whenever the conditional mean is non-zero and that variance is non-negative. -/
theorem cirLognormal_variance_is_variancer (kappa theta sigma dt r : ℝ) (hm : cir_meanr r kappa theta dt ≠ 0)
    (hv : 0 ≤ cir_variancer r kappa theta sigma dt) :
    (∫ z, (cirLognormal R kappa theta sigma dt r z) ^ 2 ∂stdNormal) - (cir_meanr r kappa theta dt) ^ 2
      = cir_variancer r kappa theta sigma dt := by
  have hx2 : Real.exp (-2 * kappa * dt) = Real.exp (-kappa * dt) * Real.exp (-kappa * dt) := by
    rw [← Real.exp_add]; ring_nf
  obtain ⟨mean, hmean⟩ : ∃ m, m = Real.exp (-kappa * dt) * r + theta * (1 - Real.exp (-kappa * dt)) := ⟨_, rfl⟩
  obtain ⟨var, hvar⟩ : ∃ w, w = sigma * sigma * (1 - Real.exp (-kappa * dt))
      * (Real.exp (-kappa * dt) * r + 1 / 2 * theta * (1 - Real.exp (-kappa * dt))) / kappa := ⟨_, rfl⟩
  have hmean_eq : cir_meanr r kappa theta dt = mean := by rw [hmean]; simp only [cir_meanr]; ring
  have hvar_eq : cir_variancer r kappa theta sigma dt = var := by
    rw [hvar]; simp only [cir_variancer]; rw [hx2]; ring
  rw [hmean_eq] at hm ⊢
  rw [hvar_eq] at hv ⊢
  obtain ⟨L, hL⟩ : ∃ l, l = Real.log (1 + var / (mean * mean)) := ⟨_, rfl⟩
  have hshape : ∀ z, cirLognormal R kappa theta sigma dt r z
      = mean * Real.exp (-(1 / 2) * Real.sqrt L * Real.sqrt L + Real.sqrt L * z) := by
    intro z
    simp only [cirLognormal, R_exp, R_log, R_sqrt, R_half]
    rw [← hmean, ← hvar, ← hL]
  have hfrac : 0 ≤ var / (mean * mean) := div_nonneg hv (mul_self_nonneg _)
  have hL0 : 0 ≤ L := by rw [hL]; exact Real.log_nonneg (by linarith)
  have hsq : Real.sqrt L * Real.sqrt L = L := Real.mul_self_sqrt hL0
  have hexpL : Real.exp L = 1 + var / (mean * mean) := by rw [hL]; exact Real.exp_log (by linarith)
  have e : (fun z => (cirLognormal R kappa theta sigma dt r z) ^ 2)
      = fun z => mean ^ 2 * Real.exp (-L + (2 * Real.sqrt L) * z) := by
    funext z
    rw [hshape z, mul_pow, sq (Real.exp _), ← Real.exp_add]
    congr 2
    linear_combination (-1 : ℝ) * hsq
  rw [e, integral_lognormal]
  have h2 : -L + (2 * Real.sqrt L) ^ 2 / 2 = L := by linear_combination (2 : ℝ) * hsq
  rw [h2, hexpL]
  field_simp
  ring

/-- non-vacuity of `vas_euler_mean_le_exact` / `vas_zero_price_is_expectation`: `a = 1/2`, `dt = 1/12` has `0 ≤ a·dt ≤ 1`; at `t = 0`
the integrated variance is `0 ≥ 0`. -/
example : (0 : ℝ) ≤ 1 / 2 * (1 / 12) ∧ (1 / 2 : ℝ) * (1 / 12) ≤ 1 := by norm_num
example : 0 ≤ vasIntegratedVar 1 1 0 := by simp [vasIntegratedVar]

/-! ### LMM spot-measure drift -/

/-- **lmmDrift_eq_sum** — the drift accumulator of `lmm_simulate_fwds_1f` is the documented spot-measure drift
`Σ_i σ_k·σ_i·τ_i·F_i/(1 + τ_i·F_i)` over the forwards between the numeraire and `k`. -/
theorem lmmDrift_eq_sum (zkj : ℝ) (terms : List (ℝ × ℝ × ℝ)) :
    lmmDrift zkj terms = (terms.map fun x => zkj * x.2.2 * (x.2.1 * x.1) / (1 + x.2.1 * x.1)).sum := by
  unfold lmmDrift
  have h : ∀ (acc : ℝ), terms.foldl (fun acc x => acc + zkj * x.1 * x.2.1 * x.2.2 / (1 + x.1 * x.2.1)) acc
      = acc + (terms.map fun x => zkj * x.2.2 * (x.2.1 * x.1) / (1 + x.2.1 * x.1)).sum := by
    induction terms with
    | nil => intro acc; simp
    | cons x xs ih =>
      intro acc
      simp only [List.foldl_cons, List.map_cons, List.sum_cons]
      rw [ih]
      have : zkj * x.1 * x.2.1 * x.2.2 / (1 + x.1 * x.2.1) = zkj * x.2.2 * (x.2.1 * x.1) / (1 + x.2.1 * x.1) := by
        congr 1 <;> ring
      rw [this]; ring
  rw [h 0, zero_add]

/-- **lmmDrift_nonneg** — with non-negative forwards, accruals and volatilities the spot-measure drift is non-negative
(forwards beyond the numeraire drift upward). -/
theorem lmmDrift_nonneg (zkj : ℝ) (hz : 0 ≤ zkj) (terms : List (ℝ × ℝ × ℝ))
    (h : ∀ x ∈ terms, 0 ≤ x.1 ∧ 0 ≤ x.2.1 ∧ 0 ≤ x.2.2) : 0 ≤ lmmDrift zkj terms := by
  rw [lmmDrift_eq_sum]
  apply List.sum_nonneg
  intro y hy
  rw [List.mem_map] at hy
  obtain ⟨x, hx, rfl⟩ := hy
  obtain ⟨h1, h2, h3⟩ := h x hx
  have : 0 ≤ x.2.1 * x.1 := mul_nonneg h2 h1
  exact div_nonneg (mul_nonneg (mul_nonneg hz h3) this) (by linarith)

example : lmmDrift (2 : ℝ) [(1, 1, 3)] = 3 := by rw [lmmDrift_eq_sum]; norm_num

/-- **lmmStep1F_pos** — a positive forward stays positive through the predictor–corrector step, whatever the draw. -/
theorem lmmStep1F_pos (dtj w : ℝ) (cur taus gammas : List ℝ) (m : ℕ) (h : 0 < cur.getD m 0) :
    0 < lmmStep1F R dtj w cur taus gammas m := by
  simp only [lmmStep1F, R_exp]
  exact mul_pos h (Real.exp_pos _)

/-- **lmmStepMF_pos** — the same in the multi-factor simulator. -/
theorem lmmStepMF_pos (dtj : ℝ) (ws cur taus : List ℝ) (lams : List (List ℝ)) (m : ℕ) (h : 0 < cur.getD m 0) :
    0 < lmmStepMF R dtj ws cur taus lams m := by
  simp only [lmmStepMF, R_exp]
  exact mul_pos h (Real.exp_pos _)

/-- **lmmMF_one_factor_numeraire_martingale** — in `lmm_simulate_fwds_mf` with one factor the forward that resets next is a
martingale over the step. -/
theorem lmmMF_one_factor_numeraire_martingale (dtj : ℝ) (hdt : 0 ≤ dtj) (cur taus gammas : List ℝ) :
    ∫ w, lmmStepMF R dtj [w] cur taus [gammas] 0 ∂stdNormal = cur.getD 0 0 := by
  simp only [lmmStepMF_one_factor]
  exact lmm_numeraire_forward_martingale dtj hdt cur taus gammas

end FinVerif.Props.C19
