/-
  C19 (part h) — seed discipline of the Monte-Carlo entry points of the product classes, decided on the GENERATED effect
  summaries (lean/FinVerif/Gen/Effects.lean, produced by tools/effects/extract.py from /repo on every run — the extractor of
  C18, used the same way by Props/C05p):

    the six `EquityVanillaOption.value_mc*` methods and `FXVanillaOption.value_mc` exist, are public, write NO attribute of
    the object, write through NO parameter, write NO module global, read (before writing) only attributes that no public
    method of the class ever writes (constructor-set), and the only module globals they read are the Sobol direction-number
    tables (which none of them writes).

  So between two calls nothing is carried on the object, on an argument or in the module: the result is a function of
  (arguments incl. `seed`, constructor attributes, the generator's draws) — and, by `seeded_history_independent`
  (Props/C19a), of the seed rather than of the generator state found.  A memo attribute, a cached path array on `self`,
  or a module-level counter added to any of these methods turns the theorem false on the next run.
-/
import FinVerif.Gen.Effects
import FinVerif.Props.C19a

set_option linter.unusedVariables false

namespace FinVerif.Props.C19
open FinVerif.C18 FinVerif.Gen.Effects

/-- the Monte-Carlo entry points of `EquityVanillaOption` -/
def vanillaMCMethods : List String :=
  ["value_mc", "value_mc_nonumba_nonumpy", "value_mc_numba_only", "value_mc_numba_parallel", "value_mc_numpy_numba",
   "value_mc_numpy_only"]

/-- module constants an MC method may read: the Sobol direction numbers -/
def sobolTables : List String := ["sobol.a_arr", "sobol.m_i", "sobol.s_arr"]

/-- the effect discipline of one MC entry point -/
def mcStatelessB (c : ClassEff) (m : MethodEff) : Bool :=
  m.isPublic && m.writes.isEmpty && m.pwrites.isEmpty && m.gwrites.isEmpty &&
    m.rbw.all (fun a => !(c.mutableAttrs.contains a)) && m.greads.all (fun g => sobolTables.contains g)

/-- **vanilla_value_mc_stateless** — every `EquityVanillaOption.value_mc*` keeps no state anywhere. -/
theorem vanilla_value_mc_stateless :
    vanillaMCMethods.all (fun n => match EquityVanillaOption.method? n with
      | some m => mcStatelessB EquityVanillaOption m
      | none => false) = true := by
  decide +kernel

/-- **fx_value_mc_stateless** — `FXVanillaOption.value_mc` likewise (and reads no module global at all). -/
theorem fx_value_mc_stateless :
    (match FXVanillaOption.method? "value_mc" with
      | some m => mcStatelessB FXVanillaOption m && m.greads.isEmpty
      | none => false) = true := by
  decide +kernel

/-- **value_mc_reads_only_ctor_attrs** — the attributes these methods read are set by the constructor. -/
theorem value_mc_reads_only_ctor_attrs :
    vanillaMCMethods.all (fun n => match EquityVanillaOption.method? n with
      | some m => m.rbw.all (fun a => EquityVanillaOption.ctor.contains a)
      | none => false) = true ∧
    (match FXVanillaOption.method? "value_mc" with
      | some m => m.rbw.all (fun a => FXVanillaOption.ctor.contains a)
      | none => false) = true := by
  constructor <;> decide +kernel

end FinVerif.Props.C19
