/-
  C19 (part i) — the last column of a path array is the state AT the requested horizon.

  `process_simulator.py` turns a horizon `t` and a number `n` of steps per year into a number of steps by one of two rules
  applied to the COMPUTED quotient `x ≈ t/dt` (`dt = 1/n`; a fastmath kernel evaluates the product `t·n`):
      `int(x + 0.5)`  (`get_gbm_paths`)         — `stepsNearest`
      `int(x)`        (the other three kernels) — `stepsFloor`
  For a horizon on the step lattice (`t = k·dt`, `k` whole) the computed `x` is `k` up to rounding.  The theorems say,
  over the reals and for every `k`:
    * `stepsNearest` returns `k` for ANY error below half a step (`stepsNearest_on_lattice`), in particular for any
      relative rounding error `u` with `k·u < 1/2` (`stepsNearest_rel_error`: a few ulp, k < 10¹⁵);
    * `stepsFloor` returns `k − 1` as soon as the error is negative, however small (`stepsFloor_below_loses_step`), and is
      right exactly when the computed quotient is not below `k` (`stepsFloor_on_lattice_iff`) — the classifier of finding
      `C19/process-simulator-horizon-floor-rounding` is this predicate evaluated in floating point;
    * with `k` steps of length `dt` and `t = k·dt` the last point of the simulated GBM path is the exact GBM value at `t`
      and the antithetic pair product there is `(S₀·exp((μ−σ²/2)·t))²` (`gbm_terminal_at_horizon`,
      `gbm_pair_product_at_horizon`), while with `k − 1` steps it is that of `t − dt`
      (`gbm_pair_product_one_step_short`) — the exact (non-statistical) clause the harness checks on the last column of
      `get_gbm_paths` (ANTITHETIC) for horizons `k/n` whose float product lands below `k`.
-/
import Mathlib.Algebra.Order.Floor.Ring
import Mathlib.Algebra.Order.Archimedean.Real.Basic
import FinVerif.Props.C19a

namespace FinVerif.Props.C19
open FinVerif.Model.C19 FinVerif.Lemmas.C19

/-- `int(x + 0.5)` for `x ≥ 0` -/
noncomputable def stepsNearest (x : ℝ) : ℤ := ⌊x + 1 / 2⌋

/-- `int(x)` for `x ≥ 0` -/
noncomputable def stepsFloor (x : ℝ) : ℤ := ⌊x⌋

/-- **stepsNearest_on_lattice** — rounding to nearest recovers the whole number of steps from any computed quotient
less than half a step away from it. -/
theorem stepsNearest_on_lattice (k : ℤ) (x : ℝ) (h : |x - k| < 1 / 2) : stepsNearest x = k := by
  unfold stepsNearest
  rw [abs_lt] at h
  rw [Int.floor_eq_iff]
  constructor <;> linarith [h.1, h.2]

/-- **stepsNearest_rel_error** — in particular from `k·(1+δ)` with `|δ| ≤ u`, `k·u < 1/2`. -/
theorem stepsNearest_rel_error (k : ℕ) (δ u : ℝ) (hδ : |δ| ≤ u) (hk : (k : ℝ) * u < 1 / 2) :
    stepsNearest ((k : ℝ) * (1 + δ)) = (k : ℤ) := by
  apply stepsNearest_on_lattice
  have hk0 : (0 : ℝ) ≤ k := Nat.cast_nonneg k
  have : (k : ℝ) * (1 + δ) - ((k : ℤ) : ℝ) = (k : ℝ) * δ := by push_cast; ring
  rw [this, abs_mul, abs_of_nonneg hk0]
  calc (k : ℝ) * |δ| ≤ (k : ℝ) * u := mul_le_mul_of_nonneg_left hδ hk0
    _ < 1 / 2 := hk

/-- **stepsFloor_below_loses_step** — the floor rule returns one step less as soon as the computed quotient is below
the whole number, by however little. -/
theorem stepsFloor_below_loses_step (k : ℤ) (x : ℝ) (h1 : (k : ℝ) - 1 ≤ x) (h2 : x < k) : stepsFloor x = k - 1 := by
  unfold stepsFloor
  rw [Int.floor_eq_iff]
  constructor
  · push_cast; linarith
  · push_cast; linarith

/-- **stepsFloor_on_lattice_iff** — near the lattice the floor rule is right exactly when the computed quotient is not
below the whole number. -/
theorem stepsFloor_on_lattice_iff (k : ℤ) (x : ℝ) (h : |x - k| < 1 / 2) : stepsFloor x = k ↔ (k : ℝ) ≤ x := by
  rw [abs_lt] at h
  unfold stepsFloor
  rw [Int.floor_eq_iff]
  constructor
  · intro hh; exact hh.1
  · intro hh; exact ⟨hh, by linarith [h.2]⟩

/-- the two rules differ on a concrete computed quotient one part in 10¹⁶ below 29 (the shape of `0.58·50`) -/
example : stepsNearest (29 - 1 / 10 ^ 16) = 29 ∧ stepsFloor (29 - 1 / 10 ^ 16) = 28 := by
  constructor
  · have := stepsNearest_on_lattice 29 (29 - 1 / 10 ^ 16) (by rw [abs_lt]; constructor <;> norm_num)
    simpa using this
  · have := stepsFloor_below_loses_step 29 (29 - 1 / 10 ^ 16) (by norm_num) (by norm_num)
    simpa using this

/-- **gbm_terminal_at_horizon** — `k` steps of length `dt` with `t = k·dt`: the last point of the path is the exact GBM
value at the horizon `t`. -/
theorem gbm_terminal_at_horizon (mu sigma dt t s0 : ℝ) (gs : List ℝ) (k : ℕ) (hk : gs.length = k) (ht : t = k * dt) :
    (gbmPathUp R mu sigma dt s0 gs).getLast?
      = some (s0 * Real.exp ((mu - sigma ^ 2 / 2) * t + sigma * Real.sqrt dt * gs.sum)) := by
  rw [gbm_path_terminal, hk, ht]
  congr 3
  ring

/-- **gbm_pair_product_at_horizon** — … and the product of an antithetic pair there is `(S₀·exp((μ−σ²/2)·t))²`,
whatever the draws. -/
theorem gbm_pair_product_at_horizon (mu sigma dt t s0 : ℝ) (gs : List ℝ) (k : ℕ) (hk : gs.length = k) (ht : t = k * dt)
    (a b : ℝ) (ha : (gbmPathUp R mu sigma dt s0 gs).getLast? = some a)
    (hb : (gbmPathDn R mu sigma dt s0 gs).getLast? = some b) :
    a * b = (s0 * Real.exp ((mu - sigma ^ 2 / 2) * t)) ^ 2 := by
  rw [gbm_antithetic_pair_product mu sigma dt s0 gs a b ha hb, hk, ht]
  congr 3
  ring

/-- **gbm_pair_product_one_step_short** — with one step less the product is that of the horizon `t − dt`: it differs
from the documented one by the factor `exp(−2(μ−σ²/2)·dt)`. -/
theorem gbm_pair_product_one_step_short (mu sigma dt t s0 : ℝ) (gs : List ℝ) (k : ℕ) (hk : gs.length + 1 = k)
    (ht : t = k * dt) (a b : ℝ) (ha : (gbmPathUp R mu sigma dt s0 gs).getLast? = some a)
    (hb : (gbmPathDn R mu sigma dt s0 gs).getLast? = some b) :
    a * b = (s0 * Real.exp ((mu - sigma ^ 2 / 2) * t)) ^ 2 * Real.exp (-(2 * ((mu - sigma ^ 2 / 2) * dt))) := by
  rw [gbm_antithetic_pair_product mu sigma dt s0 gs a b ha hb, ht, ← hk]
  push_cast
  rw [mul_pow, mul_pow, mul_assoc, ← Real.exp_nat_mul, ← Real.exp_nat_mul, ← Real.exp_add]
  congr 2
  push_cast
  ring

end FinVerif.Props.C19
