/-
  C19 (part j) — the loops of `process_simulator.py:get_gbm_paths` (NORMAL and ANTITHETIC) as GENERATED from the source
  (`FinVerif/Gen/McLoopR.lean`, builder `tools/py2lean/registry/mcloops.py`: loop headers, initial values, subscripts and
  bodies cut out of the `for` statements on every run) against the hand model `FinVerif.Model.C19`
  (`gbmM`, `gbmVs`, `gbmUp`, `gbmDn`, `gbmPathUp`, `gbmPathDn`).  An edit of a range bound, an index offset, a factor or an
  initial value in the Python changes the generated text and breaks the theorem named after it.
-/
import FinVerif.Lemmas.C19
import FinVerif.Lemmas.C20Loop
import FinVerif.Gen.McLoopR
import Mathlib.Tactic.Positivity

namespace FinVerif.Props.C19
open FinVerif.Model.C19 FinVerif.Lemmas.C19 FinVerif.Lemmas.C20 FinVerif.Gen.McLoopR

/-! ### the straight-line pieces: the hand model's definitions ARE the generated ones -/

/-- **gbm_consts_is_generated** — `(vsqrt_dt, m)` of the source are the hand model's `(gbmVs, gbmM)`. -/
theorem gbm_consts_is_generated (mu sigma dt : ℝ) :
    gbm_consts mu sigma dt = (gbmVs R sigma dt, gbmM R mu sigma dt) := rfl

/-- **gbm_dt_is_generated** — `dt = 1.0 / num_annual_steps`. -/
theorem gbm_dt_is_generated (N : Int) : gbm_dt N = 1 / (N : ℝ) := rfl

/-- **gbm_steps_arg_is_generated** — the step count is `int(t / dt + 0.5)` (round half up of `t / dt`, NOT its floor). -/
theorem gbm_steps_arg_is_generated (t dt : ℝ) : gbm_steps_arg t dt = t / dt + 1 / 2 := by
  unfold gbm_steps_arg; norm_num

/-- **gbm_steps_arg_whole_years** — for `t = y` whole years and `N ≠ 0` steps a year the argument of `int(·)` is
`y·N + 1/2`: strictly inside `(y·N, y·N + 1)`, so truncation gives exactly `y·N` steps. -/
theorem gbm_steps_arg_whole_years (y N : Int) (hN : N ≠ 0) :
    gbm_steps_arg (y : ℝ) (gbm_dt N) = ((y * N : Int) : ℝ) + 1 / 2 := by
  have h : (N : ℝ) ≠ 0 := by exact_mod_cast hN
  rw [gbm_steps_arg_is_generated, gbm_dt_is_generated]; push_cast; field_simp

/-- **gbm_n_step_is_generated** — the NORMAL inner body is the hand model's `gbmUp`. -/
theorem gbm_n_step_is_generated (m vs s g : ℝ) : gbm_n_step s g m vs = gbmUp R m vs s g := rfl

/-- **gbm_a_step_is_generated** — the ANTITHETIC inner body is `(gbmUp, gbmDn)` on (row `ip`, row `ip + num_paths`). -/
theorem gbm_a_step_is_generated (m vs s s2 g : ℝ) :
    gbm_a_step s s2 g m vs = (gbmUp R m vs s g, gbmDn R m vs s2 g) := rfl

/-- **gbm_init_is_generated** — column 0 of every row is the spot, in both branches. -/
theorem gbm_init_is_generated (s0 : ℝ) : gbm_n_init s0 = s0 ∧ gbm_a_init s0 = s0 := ⟨rfl, rfl⟩

/-- **gbm_time_range_is_generated** — `for it in range(1, num_time_steps + 1)` in both branches. -/
theorem gbm_time_range_is_generated (n : Int) :
    gbm_n_time_range n = (1, n + 1) ∧ gbm_a_time_range n = (1, n + 1) := ⟨rfl, rfl⟩

/-- **gbm_path_range_is_generated** — `for ip in range(0, num_paths)` in both branches. -/
theorem gbm_path_range_is_generated (P : Int) :
    gbm_n_path_range P = (0, P) ∧ gbm_a_path_range P = (0, P) := ⟨rfl, rfl⟩

/-- **gbm_shape_is_generated** — `num_paths` rows (NORMAL), `2·num_paths` rows (ANTITHETIC), `num_time_steps + 1` columns. -/
theorem gbm_shape_is_generated (P n : Int) :
    gbm_n_shape P n = (P, n + 1) ∧ gbm_a_shape P n = (2 * P, n + 1) := ⟨rfl, rfl⟩

/-- **gbm_n_idx_is_generated** — NORMAL: store at `(ip, it)`, read of the previous value at `(ip, it − 1)`, draw `g1D[ip]`. -/
theorem gbm_n_idx_is_generated (ip it P : Int) : gbm_n_idx ip it P = (ip, it, ip, it - 1, ip) := rfl

/-- **gbm_a_idx_is_generated** — ANTITHETIC: stores at `(ip, it)` and `(ip + P, it)`, reads at `(ip, it − 1)` and
`(ip + P, it − 1)`, ONE draw `g1D[ip]` for the pair. -/
theorem gbm_a_idx_is_generated (ip it P : Int) :
    gbm_a_idx ip it P = (ip, it, ip + P, it, ip, it - 1, ip + P, it - 1, ip) := rfl

/-! ### index bounds: no out-of-range read or store, every cell written exactly once -/

/-- **gbm_n_idx_in_bounds** — for every `(it, ip)` the generated loops visit, every generated subscript of the NORMAL body
lies inside the generated extents of `s_all`, the draw subscript inside `g1D` (length `num_paths`), and the value read was
written by the previous time step (column `it − 1 ≥ 0`, same row). -/
theorem gbm_n_idx_in_bounds (P n ip it : Int)
    (hit : it ∈ pyRange ((gbm_n_time_range n).1, (gbm_n_time_range n).2, 1))
    (hip : ip ∈ pyRange ((gbm_n_path_range P).1, (gbm_n_path_range P).2, 1)) :
    let ix := gbm_n_idx ip it P
    let sh := gbm_n_shape P n
    (0 ≤ ix.1 ∧ ix.1 < sh.1) ∧ (0 ≤ ix.2.1 ∧ ix.2.1 < sh.2) ∧ (0 ≤ ix.2.2.1 ∧ ix.2.2.1 < sh.1)
      ∧ (0 ≤ ix.2.2.2.1 ∧ ix.2.2.2.1 < sh.2) ∧ (0 ≤ ix.2.2.2.2 ∧ ix.2.2.2.2 < P)
      ∧ ix.2.2.1 = ix.1 ∧ ix.2.2.2.1 = ix.2.1 - 1 := by
  rw [mem_pyRange_up] at hit hip
  dsimp only [gbm_n_time_range, gbm_n_path_range, gbm_n_idx, gbm_n_shape] at hit hip ⊢
  omega

/-- **gbm_a_idx_in_bounds** — the same for the ANTITHETIC body; moreover the down row `ip + P` is never an up row
(`≥ P`), so the two halves of `s_all` do not overwrite each other, and each half reads its own previous column. -/
theorem gbm_a_idx_in_bounds (P n ip it : Int)
    (hit : it ∈ pyRange ((gbm_a_time_range n).1, (gbm_a_time_range n).2, 1))
    (hip : ip ∈ pyRange ((gbm_a_path_range P).1, (gbm_a_path_range P).2, 1)) :
    let ix := gbm_a_idx ip it P
    let sh := gbm_a_shape P n
    (0 ≤ ix.1 ∧ ix.1 < P) ∧ (0 ≤ ix.2.1 ∧ ix.2.1 < sh.2) ∧ (P ≤ ix.2.2.1 ∧ ix.2.2.1 < sh.1)
      ∧ (0 ≤ ix.2.2.2.1 ∧ ix.2.2.2.1 < sh.2)
      ∧ ix.2.2.2.2.1 = ix.1 ∧ ix.2.2.2.2.2.1 = ix.2.1 - 1
      ∧ ix.2.2.2.2.2.2.1 = ix.2.2.1 ∧ ix.2.2.2.2.2.2.2.1 = ix.2.2.2.1 - 1
      ∧ (0 ≤ ix.2.2.2.2.2.2.2.2 ∧ ix.2.2.2.2.2.2.2.2 < P) := by
  rw [mem_pyRange_up] at hit hip
  dsimp only [gbm_a_time_range, gbm_a_path_range, gbm_a_idx, gbm_a_shape] at hit hip ⊢
  omega

/-- **gbm_time_loop_count** — the time loop runs exactly `num_time_steps` times and the path loop `num_paths` times:
`num_paths · num_time_steps` draws are consumed, time-major (one vector per time step). -/
theorem gbm_time_loop_count (n P : Nat) :
    (pyRange ((gbm_n_time_range n).1, (gbm_n_time_range n).2, 1)).length = n
      ∧ (pyRange ((gbm_a_time_range n).1, (gbm_a_time_range n).2, 1)).length = n
      ∧ (pyRange ((gbm_n_path_range P).1, (gbm_n_path_range P).2, 1)).length = P
      ∧ (pyRange ((gbm_a_path_range P).1, (gbm_a_path_range P).2, 1)).length = P := by
  simp only [gbm_n_time_range, gbm_a_time_range, gbm_n_path_range, gbm_a_path_range, length_pyRange_up]
  omega

/-! ### the whole row: the hand path is the fold of the generated step over the generated range

By `gbm_n_idx_in_bounds` / `gbm_a_idx_in_bounds` an iteration `(it, ip)` reads only row `ip` (and `ip + P`), column
`it − 1`, and writes the same row(s), column `it`: rows do not interact, so row `ip` of `s_all` is the time loop run on
that row alone with the draws `g it = g1D_it[ip]`. -/

/-- row `ip` (NORMAL), last column: the generated time loop from the generated initial value. -/
noncomputable def gbmRowGen (mu sigma dt s0 : ℝ) (n : Int) (g : Int → ℝ) : ℝ :=
  forRange ((gbm_n_time_range n).1, (gbm_n_time_range n).2, 1)
    (fun s it => gbm_n_step s (g it) (gbm_consts mu sigma dt).2 (gbm_consts mu sigma dt).1) (gbm_n_init s0)

/-- rows `(ip, ip + P)` (ANTITHETIC), last column. -/
noncomputable def gbmRowPairGen (mu sigma dt s0 : ℝ) (n : Int) (g : Int → ℝ) : ℝ × ℝ :=
  forRange ((gbm_a_time_range n).1, (gbm_a_time_range n).2, 1)
    (fun s it => gbm_a_step s.1 s.2 (g it) (gbm_consts mu sigma dt).2 (gbm_consts mu sigma dt).1)
    (gbm_a_init s0, gbm_a_init s0)

/-- the draws of one row in the order of the time loop: `g 1, …, g n` -/
def rowDraws (n : Nat) (g : Int → ℝ) : List ℝ := (List.range n).map fun (k : Nat) => g (1 + (k : Int))

theorem pyRange_time (n : Nat) :
    pyRange ((1 : Int), (n : Int) + 1, 1) = (List.range n).map (fun (k : Nat) => (1 : Int) + (k : Int)) := by
  rw [pyRange_up]; congr 2; omega

/-- **gbmRow_is_generated_loop** — for every step count `n`, the terminal value of the hand model's path
(`runL gbmUp`, the last element of `gbmPathUp` by `scan_getLast`) IS the generated step folded over the generated range
from the generated initial value. -/
theorem gbmRow_is_generated_loop (mu sigma dt s0 : ℝ) (n : Nat) (g : Int → ℝ) :
    gbmRowGen mu sigma dt s0 n g
      = runL (gbmUp R (gbmM R mu sigma dt) (gbmVs R sigma dt)) s0 (rowDraws n g) := by
  unfold gbmRowGen forRange runL rowDraws
  rw [(gbm_time_range_is_generated n).1, pyRange_time, List.foldl_map, List.foldl_map]
  rfl

/-- **gbmPathUp_last_is_generated_loop** — the same, stated on the hand path itself. -/
theorem gbmPathUp_last_is_generated_loop (mu sigma dt s0 : ℝ) (n : Nat) (g : Int → ℝ) :
    (gbmPathUp R mu sigma dt s0 (rowDraws n g)).getLast? = some (gbmRowGen mu sigma dt s0 n g) := by
  rw [gbmRow_is_generated_loop]; exact scan_getLast _ _ _

theorem foldl_pair {σ τ β : Type} (f : σ → β → σ) (h : τ → β → τ) (l : List β) (a : σ) (b : τ) :
    l.foldl (fun (s : σ × τ) x => (f s.1 x, h s.2 x)) (a, b) = (l.foldl f a, l.foldl h b) := by
  induction l generalizing a b with
  | nil => rfl
  | cons x xs ih => simp only [List.foldl_cons]; exact ih _ _

/-- **gbmRowPair_is_generated_loop** — ANTITHETIC: the pair of rows is (`gbmUp` path, `gbmDn` path) on the SAME draws. -/
theorem gbmRowPair_is_generated_loop (mu sigma dt s0 : ℝ) (n : Nat) (g : Int → ℝ) :
    gbmRowPairGen mu sigma dt s0 n g
      = (runL (gbmUp R (gbmM R mu sigma dt) (gbmVs R sigma dt)) s0 (rowDraws n g),
         runL (gbmDn R (gbmM R mu sigma dt) (gbmVs R sigma dt)) s0 (rowDraws n g)) := by
  unfold gbmRowPairGen forRange runL rowDraws
  rw [(gbm_time_range_is_generated n).2, pyRange_time, List.foldl_map, List.foldl_map, List.foldl_map]
  exact foldl_pair (fun s (k : Nat) => gbmUp R (gbmM R mu sigma dt) (gbmVs R sigma dt) s (g (1 + (k : Int))))
    (fun s (k : Nat) => gbmDn R (gbmM R mu sigma dt) (gbmVs R sigma dt) s (g (1 + (k : Int)))) _ _ _

/-- **gbmRowPair_up_is_normal_row** — the up half of the ANTITHETIC array is the NORMAL array on the same draws. -/
theorem gbmRowPair_up_is_normal_row (mu sigma dt s0 : ℝ) (n : Nat) (g : Int → ℝ) :
    (gbmRowPairGen mu sigma dt s0 n g).1 = gbmRowGen mu sigma dt s0 n g := by
  rw [gbmRowPair_is_generated_loop, gbmRow_is_generated_loop]

/-! ### invariants of the loop, stated on the generated step -/

/-- **gbm_n_step_pos** — the generated step keeps a positive price positive (any draw, any volatility). -/
theorem gbm_n_step_pos (s g m vs : ℝ) (hs : 0 < s) (hm : 0 < m) : 0 < gbm_n_step s g m vs := by
  unfold gbm_n_step; positivity

/-- **gbm_a_step_product** — one generated ANTITHETIC iteration multiplies the product of the pair by `m²` whatever
the draw: `w` cancels (a `*` for the `/`, or a second draw, would break this). -/
theorem gbm_a_step_product (s s2 g m vs : ℝ) :
    (gbm_a_step s s2 g m vs).1 * (gbm_a_step s s2 g m vs).2 = s * s2 * m ^ 2 := by
  unfold gbm_a_step
  have h : Real.exp (g * vs) ≠ 0 := (Real.exp_pos _).ne'
  field_simp

theorem foldl_invariant {σ β : Type} (p : σ → Prop) (f : σ → β → σ) (hf : ∀ s x, p s → p (f s x)) (l : List β) (s : σ)
    (hs : p s) : p (l.foldl f s) := by
  induction l generalizing s with
  | nil => exact hs
  | cons x xs ih => exact ih _ (hf _ _ hs)

/-- **gbmRowGen_pos** — every simulated price is positive: the generated loop from a positive spot, for every step
count (also negative `n`: no iteration), every drift, volatility and draws. -/
theorem gbmRowGen_pos (mu sigma dt s0 : ℝ) (n : Int) (g : Int → ℝ) (hs : 0 < s0) : 0 < gbmRowGen mu sigma dt s0 n g := by
  unfold gbmRowGen forRange
  refine foldl_invariant (fun s => 0 < s) _ (fun s it h => gbm_n_step_pos s _ _ _ h ?_) _ _ hs
  rw [gbm_consts_is_generated]; exact Real.exp_pos _

/-- **gbmRowPairGen_product** — the product of the terminal values of an antithetic pair of the generated loop is
`s0² · m^(2n)` for every `n` and all draws. -/
theorem gbmRowPairGen_product (mu sigma dt s0 : ℝ) (n : Nat) (g : Int → ℝ) :
    (gbmRowPairGen mu sigma dt s0 n g).1 * (gbmRowPairGen mu sigma dt s0 n g).2
      = s0 ^ 2 * (gbmM R mu sigma dt) ^ (2 * n) := by
  unfold gbmRowPairGen forRange
  rw [(gbm_time_range_is_generated n).2, pyRange_time, List.foldl_map]
  have key : ∀ (l : List Nat) (p : ℝ × ℝ),
      ((l.foldl (fun (s : ℝ × ℝ) (k : Nat) => gbm_a_step s.1 s.2 (g (1 + (k : Int))) (gbm_consts mu sigma dt).2
        (gbm_consts mu sigma dt).1) p).1
      * (l.foldl (fun (s : ℝ × ℝ) (k : Nat) => gbm_a_step s.1 s.2 (g (1 + (k : Int))) (gbm_consts mu sigma dt).2
        (gbm_consts mu sigma dt).1) p).2) = p.1 * p.2 * (gbmM R mu sigma dt) ^ (2 * l.length) := by
    intro l
    induction l with
    | nil => intro p; simp
    | cons x xs ih =>
      intro p
      simp only [List.foldl_cons, List.length_cons]
      rw [ih, gbm_a_step_product, gbm_consts_is_generated]; ring
  rw [key, List.length_range]; simp only [gbm_a_init]; ring

/-! ### non-vacuity -/

example : (2 : Int) ∈ pyRange ((gbm_n_time_range 3).1, (gbm_n_time_range 3).2, 1)
    ∧ (1 : Int) ∈ pyRange ((gbm_a_path_range 2).1, (gbm_a_path_range 2).2, 1) := by
  rw [mem_pyRange_up, mem_pyRange_up]; simp [gbm_n_time_range, gbm_a_path_range]

example : gbmRowGen 0 0 1 5 ((2 : Nat) : Int) (fun _ => 7) = 5 := by
  rw [gbmRow_is_generated_loop]; simp [rowDraws, runL, gbmUp, gbmM, gbmVs, List.range_succ]

end FinVerif.Props.C19
