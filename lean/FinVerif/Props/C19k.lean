/-
  C19 (part k) — the loops of `process_simulator.py:get_vasicek_paths` (NORMAL and ANTITHETIC) as GENERATED from the
  source (`FinVerif/Gen/VasLoopR.lean`, builder `tools/py2lean/registry/vasloops.py`) against the hand model
  `FinVerif.Model.C19` (`vasStep`, `vasStepAnti`, `vasPath`, `vasPathAnti`).  Unlike `get_gbm_paths` the loop nest is
  path-major (one vector `z` of `num_steps` draws per path, read at `z[i_step - 1]`) and the step count is the FLOOR
  `int(t / dt)` (finding C19/process-simulator-horizon-floor-rounding), both now pinned by named theorems.
-/
import FinVerif.Lemmas.C19
import FinVerif.Lemmas.C20Loop
import FinVerif.Gen.VasLoopR

namespace FinVerif.Props.C19
open FinVerif.Model.C19 FinVerif.Lemmas.C19 FinVerif.Lemmas.C20 FinVerif.Gen.VasLoopR

/-! ### the straight-line pieces -/

/-- **vas_dt_ssd_is_generated** — `dt = 1.0 / num_annual_steps`, `sigma_sqrt_dt = sigma * sqrt(dt)` (the `ssd` the hand
paths `vasPath` / `vasPathAnti` pass to the step). -/
theorem vas_dt_ssd_is_generated (N : Int) (sigma dt : ℝ) :
    vas_dt N = 1 / (N : ℝ) ∧ vas_ssd sigma dt = sigma * R.sqrt dt := ⟨rfl, rfl⟩

/-- **vas_steps_arg_is_generated** — the step count is `int(t / dt)`: NO `+ 0.5`, unlike `get_gbm_paths`
(`gbm_steps_arg_is_generated`); the source of the known horizon finding. -/
theorem vas_steps_arg_is_generated (t dt : ℝ) : vas_steps_arg t dt = t / dt := rfl

/-- **vas_n_step_is_generated** — the NORMAL inner body is the hand model's `vasStep` (as real numbers: the source
associates `r + (drift + noise)`, the hand model `(r + drift) + noise`), and the stored value is the new state. -/
theorem vas_n_step_is_generated (r z kappa theta dt ssd : ℝ) :
    vas_n_step r z kappa theta dt ssd = (vasStep kappa theta dt ssd r z, vasStep kappa theta dt ssd r z) := by
  unfold vas_n_step vasStep; simp only [Prod.mk.injEq]; constructor <;> ring

/-- **vas_a_step_is_generated** — the ANTITHETIC inner body is `(vasStep, vasStepAnti)` on the SAME draw, stored in rows
`i_path` and `i_path + num_paths`. -/
theorem vas_a_step_is_generated (r1 r2 z kappa theta dt ssd : ℝ) :
    vas_a_step r1 r2 z kappa theta dt ssd
      = (vasStep kappa theta dt ssd r1 z, vasStepAnti kappa theta dt ssd r2 z,
         vasStep kappa theta dt ssd r1 z, vasStepAnti kappa theta dt ssd r2 z) := rfl

/-- **vas_init_is_generated** — column 0 of every row and the state at the top of every path are `r0`. -/
theorem vas_init_is_generated (r0 : ℝ) :
    vas_n_init r0 = r0 ∧ vas_a_init r0 = r0 ∧ vas_n_path_init r0 = r0 ∧ vas_a_path_init r0 = (r0, r0) := ⟨rfl, rfl, rfl, rfl⟩

/-- **vas_ranges_are_generated** — `for i_path in range(0, num_paths)`, `for i_step in range(1, num_steps + 1)`. -/
theorem vas_ranges_are_generated (P n : Int) :
    vas_n_path_range P = (0, P) ∧ vas_a_path_range P = (0, P)
      ∧ vas_n_step_range n = (1, n + 1) ∧ vas_a_step_range n = (1, n + 1) := ⟨rfl, rfl, rfl, rfl⟩

/-- **vas_shape_is_generated** -/
theorem vas_shape_is_generated (P n : Int) : vas_n_shape P n = (P, n + 1) ∧ vas_a_shape P n = (2 * P, n + 1) := ⟨rfl, rfl⟩

/-- **vas_idx_is_generated** — stores at `(i_path, i_step)` (and `(i_path + P, i_step)`), draw `z[i_step − 1]`. -/
theorem vas_idx_is_generated (ip it P : Int) :
    vas_n_idx ip it P = (ip, it, it - 1) ∧ vas_a_idx ip it P = (ip, it, ip + P, it, it - 1) := ⟨rfl, rfl⟩

/-! ### index bounds -/

/-- **vas_idx_in_bounds** — for every `(i_path, i_step)` the generated loops visit, every store lies inside the generated
extents of `rate_path` (up rows `< P ≤` down rows: the halves are disjoint), columns `1 … num_steps` (column 0 keeps the
initial value), and the draw subscript lies in `[0, num_steps)` = the length of `z`. -/
theorem vas_idx_in_bounds (P n ip it : Int)
    (hip : ip ∈ pyRange ((vas_a_path_range P).1, (vas_a_path_range P).2, 1))
    (hit : it ∈ pyRange ((vas_a_step_range n).1, (vas_a_step_range n).2, 1)) :
    let ix := vas_a_idx ip it P
    let sh := vas_a_shape P n
    let jx := vas_n_idx ip it P
    let th := vas_n_shape P n
    (0 ≤ ix.1 ∧ ix.1 < P) ∧ (1 ≤ ix.2.1 ∧ ix.2.1 < sh.2) ∧ (P ≤ ix.2.2.1 ∧ ix.2.2.1 < sh.1) ∧ (1 ≤ ix.2.2.2.1 ∧ ix.2.2.2.1 < sh.2)
      ∧ (0 ≤ ix.2.2.2.2 ∧ ix.2.2.2.2 < n)
      ∧ (0 ≤ jx.1 ∧ jx.1 < th.1) ∧ (1 ≤ jx.2.1 ∧ jx.2.1 < th.2) ∧ (0 ≤ jx.2.2 ∧ jx.2.2 < n) := by
  rw [mem_pyRange_up] at hit hip
  dsimp only [vas_a_step_range, vas_a_path_range, vas_a_idx, vas_a_shape, vas_n_idx, vas_n_shape] at hit hip ⊢
  omega

/-- **vas_loop_counts** — `num_paths` paths of `num_steps` steps: `num_paths · num_steps` draws, path-major. -/
theorem vas_loop_counts (n P : Nat) :
    (pyRange ((vas_n_step_range n).1, (vas_n_step_range n).2, 1)).length = n
      ∧ (pyRange ((vas_a_step_range n).1, (vas_a_step_range n).2, 1)).length = n
      ∧ (pyRange ((vas_n_path_range P).1, (vas_n_path_range P).2, 1)).length = P
      ∧ (pyRange ((vas_a_path_range P).1, (vas_a_path_range P).2, 1)).length = P := by
  simp only [vas_n_step_range, vas_a_step_range, vas_n_path_range, vas_a_path_range, length_pyRange_up]
  omega

/-! ### the whole path: the hand path is the fold of the generated step over the generated range -/

/-- one path (NORMAL), final state: the generated inner loop from the generated path initial value, the draw read at the
GENERATED subscript of `z`. -/
noncomputable def vasRowGen (kappa theta sigma dt r0 : ℝ) (n : Int) (z : Int → ℝ) : ℝ :=
  forRange ((vas_n_step_range n).1, (vas_n_step_range n).2, 1)
    (fun r it => (vas_n_step r (z (vas_n_idx 0 it 0).2.2) kappa theta dt (vas_ssd sigma dt)).1) (vas_n_path_init r0)

/-- one pair of paths (ANTITHETIC), final state. -/
noncomputable def vasRowPairGen (kappa theta sigma dt r0 : ℝ) (n : Int) (z : Int → ℝ) : ℝ × ℝ :=
  forRange ((vas_a_step_range n).1, (vas_a_step_range n).2, 1)
    (fun (s : ℝ × ℝ) it =>
      let o := vas_a_step s.1 s.2 (z (vas_a_idx 0 it 0).2.2.2.2) kappa theta dt (vas_ssd sigma dt)
      (o.1, o.2.1)) (vas_a_path_init r0)

/-- the draws of one path in the order of the step loop: `z[0], …, z[n − 1]` -/
def vasDraws (n : Nat) (z : Int → ℝ) : List ℝ := (List.range n).map fun (k : Nat) => z (k : Int)

theorem pyRange_steps (n : Nat) :
    pyRange ((1 : Int), (n : Int) + 1, 1) = (List.range n).map (fun (k : Nat) => (1 : Int) + (k : Int)) := by
  rw [pyRange_up]; congr 2; omega

theorem foldl_congr_fun {σ β : Type} (f h : σ → β → σ) (hfh : ∀ s x, f s x = h s x) (l : List β) (s : σ) :
    l.foldl f s = l.foldl h s := by
  have : f = h := by funext s x; exact hfh s x
  rw [this]

/-- **vasRow_is_generated_loop** — for every step count, the terminal state of the hand path (`runL vasStep`, last element
of `vasPath`) IS the generated step folded over the generated range, reading `z[i_step − 1]`. -/
theorem vasRow_is_generated_loop (kappa theta sigma dt r0 : ℝ) (n : Nat) (z : Int → ℝ) :
    vasRowGen kappa theta sigma dt r0 n z = runL (vasStep kappa theta dt (sigma * R.sqrt dt)) r0 (vasDraws n z) := by
  unfold vasRowGen forRange runL vasDraws
  rw [(vas_ranges_are_generated 0 n).2.2.1, pyRange_steps, List.foldl_map, List.foldl_map]
  refine foldl_congr_fun _ _ (fun s k => ?_) _ _
  rw [vas_n_step_is_generated, (vas_idx_is_generated 0 _ 0).1]
  simp only [vas_ssd, R_sqrt]; congr 2; ring

/-- **vasPath_last_is_generated_loop** — the same on the hand path itself. -/
theorem vasPath_last_is_generated_loop (kappa theta sigma dt r0 : ℝ) (n : Nat) (z : Int → ℝ) :
    (vasPath R kappa theta sigma dt r0 (vasDraws n z)).getLast? = some (vasRowGen kappa theta sigma dt r0 n z) := by
  rw [vasRow_is_generated_loop]; exact scan_getLast _ _ _

/-! ### invariants of the loop, stated on the generated step -/

/-- **vas_a_step_sum** — one generated ANTITHETIC iteration: the noise cancels in the sum of the pair, which follows the
deterministic mean recursion (a `+` for the `−`, or a second draw, breaks this). -/
theorem vas_a_step_sum (r1 r2 z kappa theta dt ssd : ℝ) :
    (vas_a_step r1 r2 z kappa theta dt ssd).1 + (vas_a_step r1 r2 z kappa theta dt ssd).2.1 - 2 * theta
      = (r1 + r2 - 2 * theta) * (1 - kappa * dt) := by
  unfold vas_a_step; ring

/-- **vas_n_step_mean_reversion** — one generated NORMAL iteration contracts the distance to `theta` by `1 − κ·dt` and
adds the noise `z · σ√dt`. -/
theorem vas_n_step_mean_reversion (r z kappa theta dt ssd : ℝ) :
    (vas_n_step r z kappa theta dt ssd).1 - theta = (r - theta) * (1 - kappa * dt) + z * ssd := by
  unfold vas_n_step; ring

/-- **vasRowPairGen_mean** — the average of an antithetic pair of the generated loop is deterministic:
`θ + (r0 − θ)(1 − κ dt)^n` for every `n` and all draws (the Euler mean). -/
theorem vasRowPairGen_mean (kappa theta sigma dt r0 : ℝ) (n : Nat) (z : Int → ℝ) :
    ((vasRowPairGen kappa theta sigma dt r0 n z).1 + (vasRowPairGen kappa theta sigma dt r0 n z).2) / 2
      = theta + (r0 - theta) * (1 - kappa * dt) ^ n := by
  unfold vasRowPairGen forRange
  rw [(vas_ranges_are_generated 0 n).2.2.2, pyRange_steps, List.foldl_map]
  have key : ∀ (l : List Nat) (p : ℝ × ℝ),
      (l.foldl (fun (s : ℝ × ℝ) (k : Nat) =>
          let o := vas_a_step s.1 s.2 (z (vas_a_idx 0 (1 + (k : Int)) 0).2.2.2.2) kappa theta dt (vas_ssd sigma dt)
          (o.1, o.2.1)) p).1
      + (l.foldl (fun (s : ℝ × ℝ) (k : Nat) =>
          let o := vas_a_step s.1 s.2 (z (vas_a_idx 0 (1 + (k : Int)) 0).2.2.2.2) kappa theta dt (vas_ssd sigma dt)
          (o.1, o.2.1)) p).2 - 2 * theta = (p.1 + p.2 - 2 * theta) * (1 - kappa * dt) ^ l.length := by
    intro l
    induction l with
    | nil => intro p; simp
    | cons x xs ih =>
      intro p
      simp only [List.foldl_cons, List.length_cons]
      rw [ih, vas_a_step_sum]; ring
  have h := key (List.range n) (vas_a_path_init r0)
  rw [List.length_range] at h
  simp only [vas_a_path_init] at h ⊢
  linarith

/-! ### non-vacuity -/

example : (1 : Int) ∈ pyRange ((vas_a_path_range 2).1, (vas_a_path_range 2).2, 1)
    ∧ (3 : Int) ∈ pyRange ((vas_a_step_range 3).1, (vas_a_step_range 3).2, 1) := by
  rw [mem_pyRange_up, mem_pyRange_up]; simp [vas_a_path_range, vas_a_step_range]

example : vasRowGen 0 0 0 1 5 ((2 : Nat) : Int) (fun _ => 7) = 5 := by
  rw [vasRow_is_generated_loop]; simp [vasDraws, runL, vasStep, List.range_succ]

end FinVerif.Props.C19
