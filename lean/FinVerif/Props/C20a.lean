/-
  C20 (part a) — root finders of `financepy/utils/solver_1d.py`, for an ARBITRARY function `f : ℝ → ℝ`,
  any tolerance, any iteration count (induction on the iteration counter).

  The model (`FinVerif/Model/C20.lean`) is one definition used at `Float` (correspondence with the code)
  and at `ℝ` (here).
-/
import FinVerif.Model.C20
import Mathlib.Data.Real.Basic
import Mathlib.Tactic.Linarith
import Mathlib.Tactic.Ring
import Mathlib.Tactic.FieldSimp
import Mathlib.Tactic.NormNum
import Mathlib.Tactic.Positivity
import Mathlib.Algebra.Order.Field.Basic

namespace FinVerif.Props.C20
open FinVerif FinVerif.Model.C20

theorem absG_eq_abs (x : ℝ) : absG x = |x| := by
  unfold absG
  split
  · rw [abs_of_neg (by assumption)]
  · rw [abs_of_nonneg (by linarith)]

/-! ## bisection -/

/-- The loop invariant of `bisection`: the bracket is ordered, `f` at the left end has the sign of the
(never updated) `f1` or is zero, `f` at the right end has the strictly opposite sign. -/
def SignBracket (f : ℝ → ℝ) (f1 : ℝ) (s : ℝ × ℝ) : Prop :=
  s.1 ≤ s.2 ∧ 0 ≤ f1 * f s.1 ∧ f1 * f s.2 < 0

/-- The invariant means a sign change is bracketed. -/
theorem bracket_sign_change {f : ℝ → ℝ} {f1 : ℝ} {s : ℝ × ℝ} (h : SignBracket f f1 s) :
    f s.1 * f s.2 ≤ 0 := by
  obtain ⟨_, h1, h2⟩ := h
  by_contra hc
  have hc : 0 < f s.1 * f s.2 := lt_of_not_ge hc
  have hf1 : f1 ≠ 0 := by rintro rfl; simp at h2
  have h4 : 0 < f1 ^ 2 := by positivity
  have h5 : 0 < f1 ^ 2 * (f s.1 * f s.2) := mul_pos h4 hc
  nlinarith

theorem bisectStep_bracket {f : ℝ → ℝ} {f1 : ℝ} {s : ℝ × ℝ} (h : SignBracket f f1 s) :
    SignBracket f f1 (bisectStep f f1 s) := by
  obtain ⟨h0, h1, h2⟩ := h
  unfold bisectStep
  simp only
  split
  · refine ⟨?_, h1, by assumption⟩
    simp only; linarith
  · refine ⟨?_, ?_, h2⟩
    · simp only; linarith
    · simp only; linarith

theorem bisectStep_width (f : ℝ → ℝ) (f1 : ℝ) (s : ℝ × ℝ) :
    (bisectStep f f1 s).2 - (bisectStep f f1 s).1 = (s.2 - s.1) / 2 := by
  unfold bisectStep
  simp only
  split <;> simp only <;> ring

theorem bisectStep_inside (f : ℝ → ℝ) (f1 : ℝ) (s : ℝ × ℝ) (h : s.1 ≤ s.2) :
    s.1 ≤ (bisectStep f f1 s).1 ∧ (bisectStep f f1 s).2 ≤ s.2 := by
  unfold bisectStep
  simp only
  split <;> simp only <;> constructor <;> linarith

/-- C20 `bisection_invariant`, part 1: after ANY number `k` of passes of the loop body the sign change is
still bracketed, the bracket lies inside the original one, and its width is the original width / 2^k. -/
theorem bisection_invariant (f : ℝ → ℝ) (f1 : ℝ) (s : ℝ × ℝ) (h : SignBracket f f1 s) (k : Nat) :
    let sk := (bisectStep f f1)^[k] s
    SignBracket f f1 sk ∧ f sk.1 * f sk.2 ≤ 0 ∧ s.1 ≤ sk.1 ∧ sk.2 ≤ s.2 ∧
      sk.2 - sk.1 = (s.2 - s.1) / 2 ^ k := by
  induction k with
  | zero => simp [h, bracket_sign_change h]
  | succ k ih =>
    simp only [Function.iterate_succ_apply'] at ih ⊢
    obtain ⟨hb, _, hl, hr, hw⟩ := ih
    have hb' := bisectStep_bracket hb
    have hin := bisectStep_inside f f1 _ hb.1
    refine ⟨hb', bracket_sign_change hb', by linarith [hin.1], by linarith [hin.2], ?_⟩
    rw [bisectStep_width, hw, pow_succ]
    field_simp

/-- The loop only ever returns a point of the current bracket where `|f| < xtol`. -/
theorem bisectLoop_post (f : ℝ → ℝ) (f1 xtol : ℝ) (n : Nat) (s : ℝ × ℝ) (r : ℝ)
    (hs : s.1 ≤ s.2) (h : bisectLoop f f1 xtol n s = some r) :
    |f r| < xtol ∧ s.1 ≤ r ∧ r ≤ s.2 := by
  induction n generalizing s with
  | zero => simp [bisectLoop] at h
  | succ n ih =>
    unfold bisectLoop at h
    simp only at h
    split at h
    · rename_i hlt
      simp at h; subst h
      rw [absG_eq_abs] at hlt
      exact ⟨hlt, by linarith, by linarith⟩
    · have hin := bisectStep_inside f f1 s hs
      have hw := bisectStep_width f f1 s
      have := ih (bisectStep f f1 s) (by linarith) h
      exact ⟨this.1, by linarith [this.2.1], by linarith [this.2.2]⟩

/-- The loop's state after `k` passes without a return is the `k`-fold step (ties `bisectLoop` to the
iterates of `bisection_invariant`). -/
theorem bisectLoop_none_or_iter (f : ℝ → ℝ) (f1 xtol : ℝ) (n : Nat) (s : ℝ × ℝ) :
    bisectLoop f f1 xtol n s = none ∨
    ∃ k, k < n ∧ bisectLoop f f1 xtol n s =
      some ((((bisectStep f f1)^[k] s).1 + ((bisectStep f f1)^[k] s).2) / 2) := by
  induction n generalizing s with
  | zero => left; rfl
  | succ n ih =>
    unfold bisectLoop
    simp only
    split
    · right; exact ⟨0, Nat.succ_pos n, rfl⟩
    · rcases ih (bisectStep f f1 s) with h | ⟨k, hk, h⟩
      · left; exact h
      · right; exact ⟨k + 1, Nat.succ_lt_succ hk, by rw [h, Function.iterate_succ_apply]⟩

/-- C20 `bisection_invariant`, part 2 (postcondition of the whole routine, for every `f`, bracket, tolerance
and iteration budget): the routine either raises `FinError`, or returns `None` (failure is REPORTED: root
not bracketed / iterations exceeded), or returns a point `r` of the ORIGINAL bracket with `|f r| < xtol`.
It never returns a number that is not a root to tolerance. -/
theorem bisection_returns_root_or_error (f : ℝ → ℝ) (eqtol x1 x2 xtol : ℝ) (maxiter : Nat) :
    bisection f eqtol x1 x2 xtol maxiter = .error .finError ∨
    bisection f eqtol x1 x2 xtol maxiter = .ok none ∨
    ∃ r, bisection f eqtol x1 x2 xtol maxiter = .ok (some r) ∧ |f r| < xtol ∧ x1 ≤ r ∧ r ≤ x2 := by
  unfold bisection
  split
  · left; rfl
  · split
    · left; rfl
    · rename_i _ hle
      have hle : x1 ≤ x2 := le_of_not_gt hle
      simp only
      split
      · rename_i h; rw [absG_eq_abs] at h
        right; right; exact ⟨x1, rfl, h, le_refl _, hle⟩
      · split
        · rename_i h; rw [absG_eq_abs] at h
          right; right; exact ⟨x2, rfl, h, hle, le_refl _⟩
        · split
          · right; left; rfl
          · cases hres : bisectLoop f (f x1) xtol maxiter (x1, x2) with
            | none => right; left; rfl
            | some r =>
              right; right
              have := bisectLoop_post f (f x1) xtol maxiter (x1, x2) r hle hres
              exact ⟨r, rfl, this⟩

/-- When the loop is entered, the initial state satisfies the invariant (so `bisection_invariant`
applies to every iterate the code ever visits). -/
theorem bisection_enters_with_bracket (f : ℝ → ℝ) (x1 x2 : ℝ) (hle : x1 ≤ x2)
    (hsign : ¬ (f x1 * f x2 ≥ 0)) : SignBracket f (f x1) (x1, x2) := by
  refine ⟨hle, ?_, lt_of_not_ge hsign⟩
  simp only
  nlinarith [sq_nonneg (f x1)]

/-- non-vacuity: `f x = x − 1` on `[0, 3]`. -/
example : SignBracket (fun x => x - 1) ((fun x : ℝ => x - 1) 0) (0, 3) := by
  refine ⟨by norm_num, by norm_num, by norm_num⟩

/-! ## newton (Newton–Raphson branch) -/

/-- What each kind of result guarantees. -/
def NewtonPost (f f' : ℝ → ℝ) (tol rtol : ℝ) : NewtonRes ℝ → Prop
  | .root p => f p = 0
  | .step p p0 => f' p0 ≠ 0 ∧ p = p0 - f p0 / f' p0 ∧ |p - p0| ≤ tol + rtol * |p0| ∧
      |f p0| ≤ (tol + rtol * |p0|) * |f' p0|
  | .zeroDer => True
  | .noconv _ => True

theorem isclose_iff (p p0 rtol tol : ℝ) : isclose p p0 rtol tol = true ↔ |p - p0| ≤ tol + rtol * |p0| := by
  unfold isclose
  rw [decide_eq_true_eq, absG_eq_abs, absG_eq_abs]

/-- C20 `newton_returns_root_or_error` (postcondition form, any `f`, `f'`, start, tolerances, budget):
a `root` result is an exact zero; a `step` result is one Newton step from a point whose residual is
bounded by `(tol + rtol·|p0|)·|f' p0|`; the other two results carry no guarantee. -/
theorem newton_returns_root_or_error (f f' : ℝ → ℝ) (tol rtol : ℝ) (n : Nat) (p0 : ℝ) :
    NewtonPost f f' tol rtol (newtonLoop f f' tol rtol n p0) := by
  induction n generalizing p0 with
  | zero => simp [newtonLoop, NewtonPost]
  | succ n ih =>
    unfold newtonLoop
    simp only
    split
    · rename_i h; simpa [NewtonPost] using h
    · split
      · simp [NewtonPost]
      · rename_i hder
        have hder : f' p0 ≠ 0 := by simpa using hder
        split
        · rename_i hc
          rw [isclose_iff] at hc
          refine ⟨hder, rfl, hc, ?_⟩
          have h1 : p0 - f p0 / f' p0 - p0 = -(f p0 / f' p0) := by ring
          rw [h1, abs_neg, abs_div] at hc
          have hpos : 0 < |f' p0| := abs_pos.mpr hder
          rwa [div_le_iff₀ hpos] at hc
        · exact ih _

/-- The property's clause "failure is reported rather than a wrong root", for `newton`: whenever the
caller receives a number, that number is a root or the last step was small. -/
def NewtonReportsFailure : Prop :=
  ∀ (f f' : ℝ → ℝ) (tol rtol : ℝ) (n : Nat) (p0 x : ℝ),
    (newtonLoop f f' tol rtol n p0).value = some x →
      f x = 0 ∨ ∃ q, |x - q| ≤ tol + rtol * |q|

/-- The unchanged code does NOT satisfy it: when `maxiter` is exhausted `newton` falls out of the loop
and returns the last iterate as if it were a root.  Witness: `f x = x² + 1` (no real root), `x0 = 1`,
`maxiter = 1`, `tol = 1e-8`: the caller receives `0`, where `f 0 = 1`. -/
theorem newton_silent_nonconvergence_witness :
    (newtonLoop (fun x : ℝ => x ^ 2 + 1) (fun x => 2 * x) (1e-8) 0 1 1).value = some 0 := by
  have h1 : ¬ ((1:ℝ) + 1 = 0) := by norm_num
  have h3 : isclose (0:ℝ) 1 0 1e-8 = false := by
    rw [Bool.eq_false_iff, Ne, isclose_iff]; norm_num
  simp [newtonLoop, NewtonRes.value, h1, h3]

/-- …and with the exhausted budget excluded, it does (the `_partial` theorem; its hypothesis is the
classifier of known finding `C20/newton-silent-nonconvergence`). -/
theorem newton_reports_failure_partial (f f' : ℝ → ℝ) (tol rtol : ℝ) (n : Nat) (p0 x : ℝ)
    (hconv : ∀ p, newtonLoop f f' tol rtol n p0 ≠ .noconv p)
    (h : (newtonLoop f f' tol rtol n p0).value = some x) :
    f x = 0 ∨ ∃ q, |x - q| ≤ tol + rtol * |q| := by
  have hp := newton_returns_root_or_error f f' tol rtol n p0
  cases hres : newtonLoop f f' tol rtol n p0 with
  | root p => rw [hres] at hp h; simp [NewtonRes.value] at h; subst h; left; exact hp
  | step p q => rw [hres] at hp h; simp [NewtonRes.value] at h; subst h; right; exact ⟨q, hp.2.2.1⟩
  | zeroDer => rw [hres] at h; simp [NewtonRes.value] at h
  | noconv p => exact absurd hres (hconv p)

/-! ## newton_secant -/

/-- Postcondition of the jitted secant with `disp = True` (the default): it returns a number only if the
two current abscissae coincide (then that point) or the last secant update moved by less than `tol`;
every other exit is a `FinError`. -/
theorem secant_returns_small_step_or_error (f : ℝ → ℝ) (tol : ℝ) (n : Nat) (p0 p1 q0 q1 pl x : ℝ)
    (h : secantLoop f tol true n p0 p1 q0 q1 pl = .ok x) :
    ∃ a b : ℝ, (a = b ∧ x = (b + a) / 2) ∨ |x - b| < tol := by
  induction n generalizing p0 p1 q0 q1 pl with
  | zero => simp [secantLoop] at h
  | succ n ih =>
    unfold secantLoop at h
    split at h
    · split at h
      · simp at h
      · rename_i hne
        have : p1 = p0 := by simpa using hne
        simp at h
        exact ⟨p0, p1, Or.inl ⟨this.symm, h.symm⟩⟩
    · simp only at h
      split at h
      · rename_i hlt
        rw [absG_eq_abs] at hlt
        simp at h; subst h
        exact ⟨p0, p1, Or.inr hlt⟩
      · exact ih _ _ _ _ _ h

/-- The property's clause "failure is reported rather than a wrong root" at a flat secant: two DISTINCT abscissae with
equal ordinates leave no secant step, and the loop raises `FinError("Tolerance reached")` — whatever `disp`, whatever
budget is left.  (The midpoint is only returned when the two abscissae coincide.) -/
theorem secant_flat_reports_failure (f : ℝ → ℝ) (tol : ℝ) (disp : Bool) (n : Nat) (p0 p1 q pl : ℝ) (hne : p1 ≠ p0) :
    secantLoop f tol disp (n + 1) p0 p1 q q pl = .error .finError := by
  unfold secantLoop
  simp [hne]

/-- Entry form: if `f` takes the same value at the two starting abscissae `x0` and `x0(1+eps) ± eps` (an objective that
is locally flat around the start: an option payoff started out of the money, a clipped objective started outside its
active range, a step function) then `newton_secant` reports failure for every tolerance, budget and `disp`. -/
theorem newton_secant_flat_start_reports_failure (f : ℝ → ℝ) (eps x0 tol : ℝ) (maxiter : Int) (disp : Bool)
    (heps : 0 < eps) (htol : 0 < tol) (hmi : 1 ≤ maxiter)
    (hflat : f (1 * x0) = f (if x0 * (1 + eps) > 0 then x0 * (1 + eps) + eps else x0 * (1 + eps) - eps)) :
    newton_secant f eps x0 tol maxiter disp = .error .finError := by
  unfold newton_secant
  rw [if_neg (not_le.mpr htol), if_neg (by omega)]
  simp only
  obtain ⟨n, hn⟩ : ∃ n, maxiter.toNat = n + 1 := ⟨maxiter.toNat - 1, by omega⟩
  have hne : (if x0 * (1 + eps) > 0 then x0 * (1 + eps) + eps else x0 * (1 + eps) - eps) ≠ 1 * x0 := by
    split
    · rename_i h
      have hx : 0 < x0 := by
        by_contra hc
        have : x0 * (1 + eps) ≤ 0 := mul_nonpos_of_nonpos_of_nonneg (not_lt.mp hc) (by linarith)
        linarith
      nlinarith
    · rename_i h
      have hx : x0 ≤ 0 := by
        by_contra hc
        have : 0 < x0 * (1 + eps) := mul_pos (lt_of_not_ge hc) (by linarith)
        exact h this
      nlinarith
  rw [← hflat, if_neg (lt_irrefl _), hn]
  exact secant_flat_reports_failure f tol disp n _ _ _ _ hne

/-- What a number handed back by the secant loop (`disp = True`) is, with the ordinates tied to `f`: either the two
current abscissae coincide (that point), or it is the secant update of two abscissae with DIFFERENT ordinates and the
update moved by less than `tol`. -/
def SecantPost (f : ℝ → ℝ) (tol x : ℝ) : Prop :=
  ∃ a b : ℝ, (f b = f a ∧ b = a ∧ x = b) ∨ (f b ≠ f a ∧ x = secantUpdate a b (f a) (f b) ∧ |x - b| < tol)

theorem secant_returns_post (f : ℝ → ℝ) (tol : ℝ) (n : Nat) (p0 p1 q0 q1 pl x : ℝ)
    (hq0 : q0 = f p0) (hq1 : q1 = f p1)
    (h : secantLoop f tol true n p0 p1 q0 q1 pl = .ok x) : SecantPost f tol x := by
  induction n generalizing p0 p1 q0 q1 pl with
  | zero => simp [secantLoop] at h
  | succ n ih =>
    unfold secantLoop at h
    split at h
    · rename_i heq
      have heq : q1 = q0 := by simpa using heq
      split at h
      · simp at h
      · rename_i hne
        have hp : p1 = p0 := by simpa using hne
        simp at h
        refine ⟨p0, p1, Or.inl ⟨by rw [← hq0, ← hq1, heq], hp, ?_⟩⟩
        rw [← h, hp]; ring
    · rename_i hneq
      have hneq : q1 ≠ q0 := by simpa using hneq
      simp only at h
      split at h
      · rename_i hlt
        rw [absG_eq_abs] at hlt
        simp at h; subst h
        exact ⟨p0, p1, Or.inr ⟨by rw [← hq0, ← hq1]; exact hneq, by rw [← hq0, ← hq1], hlt⟩⟩
      · exact ih _ _ _ _ _ hq1 rfl h

end FinVerif.Props.C20
