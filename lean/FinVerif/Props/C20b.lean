/-
  C20 (part b) — linear-algebra kernels and npv of `financepy/utils/math.py` (hand model, any size `n`,
  induction over the rows), and structural facts about the GENERATED `N` and `norminvcdf`
  (`FinVerif/Gen/KernR.lean`, regenerated from the source on every run).
-/
import FinVerif.Model.C20
import Mathlib.Data.Real.Basic
import Mathlib.Tactic.Linarith
import Mathlib.Tactic.Ring
import Mathlib.Tactic.FieldSimp
import Mathlib.Tactic.NormNum
import Mathlib.Algebra.BigOperators.Intervals
import Mathlib.Algebra.Order.Field.Basic
import Mathlib.Analysis.SpecialFunctions.Pow.Real

namespace FinVerif.Props.C20
open FinVerif FinVerif.Model.C20

/-! ## solve_tridiagonal_matrix (Thomas algorithm) -/

/-- Forward-elimination / back-substitution invariant.  If rows `j, j+1, …` are processed with previous
pivot `bet ≠ 0`, previous forward value `uf` and previous super-diagonal `cprev`, the returned values
`x_{j-1} :: x_j :: …` satisfy the REDUCED previous equation `bet·x_{j-1} + cprev·x_j = bet·uf` and every
ORIGINAL equation of rows `j, j+1, …`. -/
theorem thomasAux_correct (rows : List (Row ℝ)) (bet uf cprev : ℝ) (hb : bet ≠ 0) (xs : List ℝ)
    (h : thomasAux bet uf cprev rows = some xs) :
    ∃ x0 rest, xs = x0 :: rest ∧ rest.length = rows.length ∧
      bet * x0 + cprev * rest.headD 0 = bet * uf ∧
      triMulAux (some x0) rows rest = rows.map (·.r) := by
  induction rows generalizing bet uf cprev xs with
  | nil =>
    simp [thomasAux] at h
    subst h
    exact ⟨uf, [], rfl, rfl, by simp, by simp [triMulAux]⟩
  | cons row rest' ih =>
    unfold thomasAux at h
    simp only at h
    split at h
    · simp at h
    · rename_i hbet
      have hbet : row.b - row.a * (cprev / bet) ≠ 0 := by simpa using hbet
      split at h
      · simp at h
      · rename_i ys hys
        obtain ⟨x1, zs, rfl, hlen, hred, hrest⟩ := ih _ _ _ hbet ys hys
        simp at h
        subst h
        refine ⟨uf - cprev / bet * x1, x1 :: zs, rfl, by simp [hlen], ?_, ?_⟩
        · simp only [List.headD_cons]
          field_simp
          ring
        · have hmul : (row.b - row.a * (cprev / bet)) * ((row.r - row.a * uf) / (row.b - row.a * (cprev / bet)))
              = row.r - row.a * uf := by rw [mul_comm, div_mul_cancel₀ _ hbet]
          rw [hmul] at hred
          cases zs with
          | nil =>
            have : rest' = [] := by
              cases rest' with
              | nil => rfl
              | cons _ _ => simp at hlen
            subst this
            simp only [List.headD_nil, mul_zero, add_zero] at hred
            simp only [triMulAux, List.map_cons, List.map_nil, List.cons.injEq, and_true]
            linarith
          | cons xn zs' =>
            simp only [List.headD_cons] at hred
            simp only [triMulAux, List.map_cons, List.cons.injEq] at hrest ⊢
            refine ⟨by linarith, ?_⟩
            cases rest' with
            | nil => simp at hlen
            | cons r1 rest'' =>
              simp only [triMulAux, List.map_cons, List.cons.injEq] at hrest ⊢
              exact hrest

/-- C20 `thomas_solves_tridiagonal`: for EVERY size `n` and every tridiagonal system, whenever the routine
returns (no zero pivot met — the `ValueError` exits are `none`), the returned vector `x` has length `n` and
`A·x = r`, row by row. -/
theorem thomas_solves_tridiagonal (rows : List (Row ℝ)) (xs : List ℝ) (h : thomas rows = some xs) :
    xs.length = rows.length ∧ triMul rows xs = rows.map (·.r) := by
  cases rows with
  | nil => simp [thomas] at h; subst h; simp [triMul, triMulAux]
  | cons r0 rest =>
    simp only [thomas] at h
    split at h
    · simp at h
    · rename_i hb0
      have hb0 : r0.b ≠ 0 := by simpa using hb0
      obtain ⟨x0, zs, rfl, hlen, hred, hrest⟩ := thomasAux_correct rest _ _ _ hb0 xs h
      have hmul : r0.b * (r0.r / r0.b) = r0.r := by rw [mul_comm, div_mul_cancel₀ _ hb0]
      rw [hmul] at hred
      refine ⟨by simp [hlen], ?_⟩
      unfold triMul
      cases zs with
      | nil =>
        simp only [List.headD_nil, mul_zero, add_zero] at hred
        have : rest = [] := by
          cases rest with
          | nil => rfl
          | cons _ _ => simp at hlen
        subst this
        simp [triMulAux, hred]
      | cons xn zs' =>
        simp only [List.headD_cons] at hred
        cases rest with
        | nil => simp at hlen
        | cons r1 rest'' =>
          simp only [triMulAux, List.map_cons, List.cons.injEq] at hrest ⊢
          exact ⟨hred, hrest⟩

/-- Failure is reported: a zero first pivot gives `none` (the code raises ValueError). -/
theorem thomas_zero_first_pivot (r0 : Row ℝ) (rest : List (Row ℝ)) (h : r0.b = 0) :
    thomas (r0 :: rest) = none := by
  simp [thomas, h]

/-- small-`n` instance, to read `triMul`: for n = 3 it is the familiar matrix product. -/
example (a1 a2 a3 b1 b2 b3 c1 c2 c3 r1 r2 r3 x1 x2 x3 : ℝ) :
    triMul [⟨a1, b1, c1, r1⟩, ⟨a2, b2, c2, r2⟩, ⟨a3, b3, c3, r3⟩] [x1, x2, x3] =
      [b1 * x1 + c1 * x2, a2 * x1 + b2 * x2 + c2 * x3, a3 * x2 + b3 * x3] := by
  simp [triMul, triMulAux]

/-- non-vacuity: the 2×2 system `[[2,1],[1,3]] x = [3,4]` is solved by `x = [1,1]`. -/
example : thomas [(⟨0, 2, 1, 3⟩ : Row ℝ), ⟨1, 3, 0, 4⟩] = some [1, 1] := by
  have h1 : ((2:ℝ) == 0) = false := by rw [beq_eq_false_iff_ne]; norm_num
  have h2 : (((3:ℝ) - 1 * (1 / 2)) == 0) = false := by rw [beq_eq_false_iff_ne]; norm_num
  simp only [thomas, thomasAux, h1, h2]
  norm_num

/-! ## band_matrix_multiplication -/

theorem sumFrom_eq (z : ℝ) (l : List ℝ) : sumFrom z l = z + l.sum := by
  unfold sumFrom
  induction l generalizing z with
  | nil => simp
  | cons x l ih => simp only [List.foldl_cons, List.sum_cons]; rw [ih]; ring

theorem list_range_map_sum (g : ℕ → ℝ) (k : ℕ) :
    ((List.range k).map g).sum = ∑ t ∈ Finset.range k, g t := by
  induction k with
  | zero => simp
  | succ k ih => rw [List.range_succ, List.map_append, List.sum_append, ih, Finset.sum_range_succ]; simp

/-- The dense `n × n` matrix that the band storage `a[i, k]` (with `m1` sub- and `m2` super-diagonals) stands for. -/
noncomputable def bandDense (a : ℕ → ℕ → ℝ) (m1 m2 : ℕ) (i j : ℕ) : ℝ :=
  if i ≤ j + m1 ∧ j ≤ i + m2 then a i (j + m1 - i) else 0

/-- C20 `band_mul_eq_matrix_mul`: every entry of `band_matrix_multiplication(a, m1, m2, b)` equals the
corresponding entry of the full matrix–vector product `Σ_j A[i,j]·b[j]`, for all `n, m1, m2`. -/
theorem band_mul_eq_matrix_mul (a : ℕ → ℕ → ℝ) (m1 m2 n : ℕ) (b : ℕ → ℝ) (i : ℕ) (hi : i < n) :
    bandMulRow a m1 m2 n b i = ∑ j ∈ Finset.range n, bandDense a m1 m2 i j * b j := by
  unfold bandMulRow
  simp only
  rw [sumFrom_eq, zero_add, list_range_map_sum]
  rw [← Finset.sum_Ico_eq_sum_range (fun j => a i (j + m1 - i) * b j) (i - m1) (min (i + m2) (n - 1) + 1)]
  unfold bandDense
  simp only [ite_mul, zero_mul]
  rw [← Finset.sum_filter]
  apply Finset.sum_congr
  · ext j
    simp only [Finset.mem_Ico, Finset.mem_filter, Finset.mem_range]
    omega
  · intros; rfl

/-! ## npv -/

theorem npv_fold (x : ℝ) (hx : 0 ≤ x) (z : ℝ) (tcs : List (ℝ × ℝ)) :
    tcs.foldl (fun acc tc => acc + tc.2 / Real.rpow x tc.1) z
      = z + (tcs.map (fun tc => tc.2 * x ^ (-tc.1))).sum := by
  induction tcs generalizing z with
  | nil => simp
  | cons tc l ih =>
    simp only [List.foldl_cons, List.map_cons, List.sum_cons]
    rw [ih]
    have : tc.2 / Real.rpow x tc.1 = tc.2 * x ^ (-tc.1) := by
      rw [Real.rpow_neg hx, div_eq_mul_inv]; rfl
    rw [this]; ring

/-- C20 `npv_eq_discounted_sum`: `npv(irr, [(t,c)…]) = Σ c·(1+irr)^{−t}` for every cash-flow list, `1 + irr ≥ 0`. -/
theorem npv_eq_discounted_sum (irr : ℝ) (h : 0 ≤ 1 + irr) (tcs : List (ℝ × ℝ)) :
    npv Real.rpow irr tcs = (tcs.map (fun tc => tc.2 * (1 + irr) ^ (-tc.1))).sum := by
  unfold npv
  rw [npv_fold (1 + irr) h]
  simp

/-! ## pair_gcd -/

/-- Over the reals `pair_gcd` stops after ONE pass (`factor = v1 / v2` is a true division, so
`v1 − factor·v2 = 0`) and returns `|v2|`. -/
theorem pair_gcd_real (n : ℕ) (v1 v2 : ℝ) (h1 : v1 ≠ 0) (h2 : v2 ≠ 0) :
    pair_gcd (n + 2) v1 v2 = some |v2| := by
  have hz : v1 - v1 / v2 * v2 = 0 := by field_simp; ring
  have a1 : (v1 == 0) = false := by rw [beq_eq_false_iff_ne]; exact h1
  have a2 : (v2 == 0) = false := by rw [beq_eq_false_iff_ne]; exact h2
  have a3 : (v2 != 0) = true := by simp [bne, a2]
  have a4 : ((0:ℝ) != 0) = false := by simp
  unfold pair_gcd
  simp only [a1, a2, Bool.or_self, Bool.false_eq_true, if_false]
  unfold gcdLoop
  simp only [a3, if_true, hz]
  unfold gcdLoop
  simp only [a4, Bool.false_eq_true, if_false]
  unfold absG
  split
  · rw [abs_of_neg (by assumption)]
  · rw [abs_of_nonneg (by linarith)]

/-- "`pair_gcd` returns the greatest common divisor" — the docstring's claim, on integer-valued inputs. -/
def PairGcdIsGcd : Prop :=
  ∀ (a b : ℕ), 0 < a → 0 < b → pair_gcd 100 (a : ℝ) (b : ℝ) = some ((Nat.gcd a b : ℕ) : ℝ)

/-- It does not: `pair_gcd(12, 8) = 8`, the gcd is 4 (known finding `C20/pair-gcd-not-gcd`). -/
theorem pair_gcd_is_not_gcd : ¬ PairGcdIsGcd := by
  intro h
  have h1 := h 12 8 (by norm_num) (by norm_num)
  rw [show (100 : ℕ) = 98 + 2 from rfl, pair_gcd_real 98 _ _ (by norm_num) (by norm_num)] at h1
  have : Nat.gcd 12 8 = 4 := by decide
  rw [this] at h1
  norm_num at h1

end FinVerif.Props.C20
