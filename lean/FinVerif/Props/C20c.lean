/-
  C20 (part c) — structural facts about the GENERATED kernels `N`, `nprime`, `normpdf`, `heaviside`,
  `norminvcdf` (`FinVerif/Gen/KernR.lean`, regenerated from `financepy/utils/math.py` on every run; these
  theorems are therefore statements about what the source says now, read over ℝ).
-/
import FinVerif.Gen.KernR
import Mathlib.Tactic.Linarith
import Mathlib.Tactic.Ring
import Mathlib.Tactic.NormNum

namespace FinVerif.Props.C20
open FinVerif FinVerif.Gen.KernR

/-- The closed form of the `x ≥ 0` branch of Hull's polynomial `N`. -/
noncomputable def hullUpper (x : ℝ) : ℝ :=
  let k := 1 / (1 + 0.2316419 * |x|)
  1 - (0.31938153 * k + (-0.356563782) * (k * k) + 1.781477937 * (k * k * k)
        + (-1.821255978) * (k * k * k * k) + 1.330274429 * (k * k * k * k * k))
      * Real.exp (-x * x / 2) * 0.3989422804014327

theorem N_fuel_of_nonneg (n : ℕ) (x : ℝ) (hx : 0 ≤ x) : N_fuel (n + 1) x = hullUpper x := by
  simp only [N_fuel, hullUpper, ge_iff_le, decide_eq_true_eq, hx, if_true]

theorem N_fuel_of_neg (n : ℕ) (x : ℝ) (hx : x < 0) : N_fuel (n + 1) x = 1 - N_fuel n (-x) := by
  have h : ¬ (0 ≤ x) := not_le.mpr hx
  simp only [N_fuel, ge_iff_le, decide_eq_true_eq, h, if_false]

theorem N_of_nonneg (x : ℝ) (hx : 0 ≤ x) : N x = hullUpper x := N_fuel_of_nonneg 1 x hx

theorem N_of_neg (x : ℝ) (hx : x < 0) : N x = 1 - hullUpper (-x) := by
  unfold N
  rw [show (2 : ℕ) = 1 + 1 from rfl, N_fuel_of_neg 1 x hx, N_fuel_of_nonneg 0 (-x) (by linarith)]

/-- C20 `N_symmetry`: `x ≠ 0 → N x + N (−x) = 1` — by the code's own `1 − N(−x)` branch. -/
theorem N_symmetry (x : ℝ) (hx : x ≠ 0) : N x + N (-x) = 1 := by
  rcases lt_or_gt_of_ne hx with h | h
  · rw [N_of_neg x h, N_of_nonneg (-x) (by linarith)]; ring
  · rw [N_of_nonneg x (le_of_lt h), N_of_neg (-x) (by linarith), neg_neg]; ring

/-- At `x = 0` the symmetry is NOT exact: `N 0` is the polynomial's value, not ½ (the coefficients sum to
1.253314… · 0.39894… = 0.4999999995…); stated so that nobody assumes `N 0 = ½`. -/
theorem N_zero_value : N 0 = 1 - 1.253314136 * 0.3989422804014327 := by
  rw [N_of_nonneg 0 (le_refl _)]
  unfold hullUpper
  norm_num

/-- `nprime` and `normpdf` are the same function, and even. -/
theorem nprime_eq_normpdf (x : ℝ) : nprime x = normpdf x := rfl

theorem normpdf_even (x : ℝ) : normpdf (-x) = normpdf x := by
  unfold normpdf; congr 2; ring

theorem normpdf_pos (x : ℝ) : 0 < normpdf x := by
  unfold normpdf
  have := Real.exp_pos (-x * x / 2)
  positivity

theorem heaviside_values (x : ℝ) : heaviside x = 0 ∨ heaviside x = 1 := by
  unfold heaviside; split <;> simp

/-- C20 `norminvcdf_branch_symmetry`: for every `0 < p < 1` the Acklam routine returns a value `v` and
returns exactly `−v` at `1 − p` (lower tail ↔ upper tail use the same rational function of the same `q`;
the central branch is odd in `p − ½`). -/
theorem norminvcdf_branch_symmetry (p : ℝ) (h0 : 0 < p) (h1 : p < 1) :
    ∃ v, norminvcdf p = .ok v ∧ norminvcdf (1 - p) = .ok (-v) := by
  have e1 : ¬ (p < 0) := by linarith
  have e2 : ¬ (p > 1) := by linarith
  have e3 : ¬ (p = 0) := by linarith
  have e4 : ¬ (p = 1) := by linarith
  have g1 : ¬ (1 - p < 0) := by linarith
  have g2 : ¬ (1 - p > 1) := by linarith
  have g3 : ¬ (1 - p = 0) := by intro h; linarith
  have g4 : ¬ (1 - p = 1) := by intro h; linarith
  have g5 : (1 - p < 1) := by linarith
  rcases lt_or_ge p 0.02425 with hl | hl
  · -- lower tail at p, upper tail at 1 - p
    have k1 : ¬ (1 - p < 0.02425) := by norm_num; linarith
    have k2 : ¬ (1 - p ≤ 1 - 0.02425) := by linarith
    refine ⟨?_, ?_, ?_⟩
    rotate_left
    ·
      simp only [norminvcdf, decide_eq_true_eq, e1, e2, e3, e4, hl, Bool.or_self, if_true, if_false,
        Bool.false_eq_true]
      rfl
    ·
      simp only [norminvcdf, decide_eq_true_eq, g1, g2, g3, g4, g5, k1, k2, Bool.or_self, if_true, if_false,
        Bool.false_eq_true, Int.cast_one, sub_sub_cancel, neg_div]
  · rcases le_or_gt p (1 - 0.02425) with hm | hm
    · -- central branch at both
      have k1 : ¬ (1 - p < 0.02425) := by norm_num at hm ⊢; linarith
      have k2 : (1 - p ≤ 1 - 0.02425) := by linarith
      have hl' : ¬ (p < 0.02425) := not_lt.mpr hl
      refine ⟨?_, ?_, ?_⟩
      rotate_left
      ·
        simp only [norminvcdf, decide_eq_true_eq, e1, e2, e3, e4, hl', hm, Bool.or_self, if_true, if_false,
          Bool.false_eq_true]
        rfl
      ·
        simp only [norminvcdf, decide_eq_true_eq, g1, g2, g3, g4, k1, k2, Bool.or_self, if_true, if_false,
          Bool.false_eq_true]
        congr 1
        ring
    · -- upper tail at p, lower tail at 1 - p
      have k1 : (1 - p < 0.02425) := by linarith
      have hl' : ¬ (p < 0.02425) := not_lt.mpr hl
      have hm' : ¬ (p ≤ 1 - 0.02425) := not_le.mpr hm
      refine ⟨?_, ?_, ?_⟩
      rotate_left
      ·
        simp only [norminvcdf, decide_eq_true_eq, e1, e2, e3, e4, hl', hm', h1, Bool.or_self, if_true, if_false,
          Bool.false_eq_true]
        rfl
      ·
        simp only [norminvcdf, decide_eq_true_eq, g1, g2, g3, g4, k1, Bool.or_self, if_true, if_false,
          Bool.false_eq_true, Int.cast_one, neg_div, neg_neg]

/-- Out-of-range arguments are rejected with `FinError`. -/
theorem norminvcdf_rejects_out_of_range (p : ℝ) (h : p < 0 ∨ 1 < p) : norminvcdf p = .error .finError := by
  rcases h with h | h
  · simp [norminvcdf, h]
  · simp [norminvcdf, h]

end FinVerif.Props.C20
