/-
  C20 — theorems about the integer skeleton of the Sobol generator (Model/C20Sobol.lean).

  * every table read `v[c[i-1]]`, `1 ≤ i ≤ N`, is inside a table of `ll+1` entries whenever `N < 2^ll`
    (`firstZeroIdx_le_of_lt_pow`), the exact bit count satisfies that (`sobolLL_spec`), hence the walk never
    raises IndexError and returns `N` points (`sobolDim1_ok`, `sobolDim1Src_ok`);
  * the bound is tight: at `N = 2^k` the last point reads entry `k+1` (`firstZeroIdx_pow_sub_one`), so a table
    sized by `⌈log₂ N⌉ = k` is one entry short (`sobol_table_size_necessary`,
    `sobolDim1_short_table_index_error`);
  * kernel-checked instances of the van der Corput property of the first coordinate (`sobol_dim1_stratified`).
-/
import FinVerif.Model.C20Sobol

namespace FinVerif.Props.C20
open FinVerif FinVerif.Model.C20Sobol

/-- `2^c[i] ≤ 2(i+1)` for every fuel: the first zero bit of `i` sits at most one above its bit length. -/
theorem firstZeroAux_pow_le (fuel i : Nat) : 2 ^ firstZeroAux fuel i ≤ 2 * (i + 1) := by
  induction fuel generalizing i with
  | zero => simp [firstZeroAux]; omega
  | succ f ih =>
    unfold firstZeroAux
    split
    · rename_i h
      have := ih (i / 2)
      rw [Nat.pow_succ]
      omega
    · simp; omega

/-- C20 Sobol index safety: with `N < 2^ll` every read `v[c[i]]`, `i < N`, is inside `v[0..ll]`. -/
theorem firstZeroIdx_le_of_lt_pow {i n ll : Nat} (hi : i < n) (hn : n < 2 ^ ll) : firstZeroIdx i ≤ ll := by
  have h := firstZeroAux_pow_le i i
  have h2 : 2 ^ firstZeroIdx i < 2 ^ (ll + 1) := by
    unfold firstZeroIdx
    rw [Nat.pow_succ]
    omega
  have := (Nat.pow_lt_pow_iff_right (by decide : 1 < 2)).mp h2
  omega

/-- The exact bit count `⌈log₂(N+1)⌉` satisfies the hypothesis, for every `N` (including exact powers of two). -/
theorem sobolLL_spec (n : Nat) : n < 2 ^ sobolLL n := by
  unfold sobolLL
  split
  · rename_i h; subst h; simp
  · exact Nat.lt_log2_self

/-- … and it is the least such exponent (`N ≥ 1`): one entry fewer does not cover `N`. -/
theorem sobolLL_least (n : Nat) (hn : 0 < n) : 2 ^ (sobolLL n - 1) ≤ n := by
  unfold sobolLL
  rw [if_neg (by omega)]
  simp only [Nat.add_sub_cancel]
  exact Nat.log2_self_le (by omega)

theorem firstZeroAux_pow_sub_one (k fuel : Nat) (h : k ≤ fuel) : firstZeroAux fuel (2 ^ k - 1) = k + 1 := by
  induction k generalizing fuel with
  | zero => cases fuel <;> simp [firstZeroAux]
  | succ k ih =>
    cases fuel with
    | zero => omega
    | succ f =>
      unfold firstZeroAux
      have hp : 0 < 2 ^ k := Nat.two_pow_pos _
      have h1 : (2 ^ (k + 1) - 1) % 2 = 1 := by rw [Nat.pow_succ]; omega
      have h2 : (2 ^ (k + 1) - 1) / 2 = 2 ^ k - 1 := by rw [Nat.pow_succ]; omega
      rw [if_pos h1, h2, ih f (by omega)]

/-- The last point of a run of `N = 2^k` points reads table entry `k+1`. -/
theorem firstZeroIdx_pow_sub_one (k : Nat) : firstZeroIdx (2 ^ k - 1) = k + 1 := by
  unfold firstZeroIdx
  apply firstZeroAux_pow_sub_one
  have : k < 2 ^ k := Nat.lt_two_pow_self
  omega

/-- Sizing the table with `⌈log₂ N⌉` (which is `k` at `N = 2^k`) instead of `⌈log₂(N+1)⌉` is one entry short:
the read of the last point is outside `v[0..k]`. -/
theorem sobol_table_size_necessary (k : Nat) : ¬ firstZeroIdx (2 ^ k - 1) ≤ k := by
  rw [firstZeroIdx_pow_sub_one]; omega

theorem dirNum1_size (ll : Nat) : (dirNum1 ll).size = ll + 1 := by simp [dirNum1]

/-- Folding the walk over indices whose reads are all inside the table succeeds and adds one point per index. -/
theorem sobol_fold_ok (v : Array Nat) (l : List Nat) (hl : ∀ i ∈ l, firstZeroIdx i < v.size) (st : Nat × List Nat) :
    ∃ st', l.foldlM (sobolStep v) st = .ok st' ∧ st'.2.length = st.2.length + l.length := by
  induction l generalizing st with
  | nil => exact ⟨st, rfl, by simp⟩
  | cons a t ih =>
    have ha : firstZeroIdx a < v.size := hl a (by simp)
    have hstep : sobolStep v st a = .ok (st.1 ^^^ v[firstZeroIdx a], (st.1 ^^^ v[firstZeroIdx a]) :: st.2) := by
      unfold sobolStep
      rw [Array.getElem?_eq_getElem ha]
    obtain ⟨st', h1, h2⟩ := ih (fun i hi => hl i (by simp [hi])) (st.1 ^^^ v[firstZeroIdx a], (st.1 ^^^ v[firstZeroIdx a]) :: st.2)
    refine ⟨st', ?_, ?_⟩
    · rw [List.foldlM_cons, hstep]; exact h1
    · rw [h2]; simp; omega

/-- C20 Sobol: with `N < 2^ll` the first coordinate is produced without IndexError and has `N` points. -/
theorem sobolDim1_ok (ll n : Nat) (h : n < 2 ^ ll) : ∃ xs, sobolDim1 ll n = .ok xs ∧ xs.length = n := by
  obtain ⟨st', h1, h2⟩ := sobol_fold_ok (dirNum1 ll) (List.range n)
    (fun i hi => by
      rw [dirNum1_size]
      have := firstZeroIdx_le_of_lt_pow (List.mem_range.mp hi) h
      omega) (0, [])
  refine ⟨st'.2.reverse, ?_, ?_⟩
  · unfold sobolDim1 sobolWalk
    rw [h1]; rfl
  · simpa using h2

/-- The table as sized by the exact bit count: for EVERY `N` the walk succeeds. -/
theorem sobolDim1Src_ok (n : Nat) : ∃ xs, sobolDim1Src n = .ok xs ∧ xs.length = n :=
  sobolDim1_ok _ _ (sobolLL_spec n)

/-- The statement "a table of `⌈log₂ N⌉ + 1` entries suffices". -/
def SobolLog2TableSuffices : Prop := ∀ k : Nat, ∃ xs, sobolDim1 k (2 ^ k) = .ok xs

/-- With the shorter table the interpreter raises IndexError on the last point of every power-of-two run. -/
theorem sobolDim1_short_table_index_error (k : Nat) : sobolDim1 k (2 ^ k) = .error .indexError := by
  have hp : 0 < 2 ^ k := Nat.two_pow_pos _
  have hr : List.range (2 ^ k) = List.range (2 ^ k - 1) ++ [2 ^ k - 1] := by
    have : 2 ^ k = (2 ^ k - 1) + 1 := by omega
    rw [this, List.range_succ]; simp
  obtain ⟨st', h1, _⟩ := sobol_fold_ok (dirNum1 k) (List.range (2 ^ k - 1))
    (fun i hi => by
      rw [dirNum1_size]
      have := firstZeroIdx_le_of_lt_pow (n := 2 ^ k - 1) (ll := k) (List.mem_range.mp hi) (by omega)
      omega) (0, [])
  have hlast : sobolStep (dirNum1 k) st' (2 ^ k - 1) = .error .indexError := by
    unfold sobolStep
    rw [firstZeroIdx_pow_sub_one, Array.getElem?_eq_none (by rw [dirNum1_size]; omega)]
  unfold sobolDim1 sobolWalk
  rw [hr, List.foldlM_append, h1]
  simp only [List.foldlM_cons, List.foldlM_nil]
  show Except.map _ (sobolStep (dirNum1 k) st' (2 ^ k - 1) >>= pure) = _
  rw [hlast]; rfl

theorem sobol_log2_table_does_not_suffice : ¬ SobolLog2TableSuffices := by
  intro h
  obtain ⟨xs, hx⟩ := h 3
  rw [sobolDim1_short_table_index_error] at hx
  cases hx

/-- Kernel-checked instances of the van der Corput property of the first coordinate: for `k < 8` the origin and the
first `2^k − 1` points are exactly the multiples `j/2^k`, each once (scaled by 2**32).  The general statement is
validated by the harness on every run, not proved. -/
theorem sobol_dim1_stratified :
    ∀ k ∈ List.range 8, (sobolDim1Src (2 ^ k - 1)).toOption.map (stratified k) = some true := by
  decide +kernel

/-- … and the `2^k`-th point (the one a table sized by `⌈log₂ N⌉` cannot produce) exists and lies on the next dyadic
level: a multiple of `2^(31−k)` that is not a multiple of `2^(32−k)` (an odd multiple of `2^-(k+1)`), for `k < 8`. -/
theorem sobol_dim1_power_of_two_last_point :
    ∀ k ∈ List.range 8, (sobolDim1Src (2 ^ k)).toOption.map
      (fun xs => xs.length == 2 ^ k && xs.getLast! % 2 ^ (32 - k) != 0 && xs.getLast! % 2 ^ (31 - k) == 0) = some true := by
  decide +kernel

end FinVerif.Props.C20
