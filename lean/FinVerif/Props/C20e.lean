/-
  C20 — the Sobol generator's "number of bits needed" AS WRITTEN IN THE SOURCE, read over ℝ:
      ll = int(np.ceil(np.log(num_points+1)/np.log(2.0)))        (financepy/models/sobol.py)
  The harness compares the AST of that assignment in the current source with this shape on every run, and evaluates
  the source expression on all powers of two (and their neighbours) against the hypothesis `N < 2^ll`.

  * `sobolLLReal_spec`: the expression satisfies `N < 2^ll` for EVERY `N` — in particular at exact powers of two;
  * hence (Props/C20d `sobolDim1_ok`) no read of the direction table is out of range: `sobolDim1_ok_source_expr`;
  * the tidier-looking `⌈log₂ N⌉` does not: `sobolLLLog2_fails`, `sobol_log2_sizing_index_error`.
-/
import FinVerif.Props.C20d
import Mathlib.Analysis.SpecialFunctions.Log.Base
import Mathlib.Analysis.SpecialFunctions.Pow.Real

namespace FinVerif.Props.C20
open FinVerif FinVerif.Model.C20Sobol

/-- `int(np.ceil(np.log(num_points+1)/np.log(2.0)))` over ℝ. -/
noncomputable def sobolLLReal (n : ℕ) : ℕ := ⌈Real.log ((n : ℝ) + 1) / Real.log 2⌉₊

/-- The source's bit count covers `N`: `N < 2^ll` for every `N` (no exception at `N = 2^k`). -/
theorem sobolLLReal_spec (n : ℕ) : n < 2 ^ sobolLLReal n := by
  have h2 : (1 : ℝ) < 2 := by norm_num
  have hpos : (0 : ℝ) < (n : ℝ) + 1 := by positivity
  have hy : Real.log ((n : ℝ) + 1) / Real.log 2 = Real.logb 2 ((n : ℝ) + 1) := by
    rw [Real.logb]
  have hle : Real.logb 2 ((n : ℝ) + 1) ≤ (sobolLLReal n : ℝ) := by
    unfold sobolLLReal; rw [hy]; exact Nat.le_ceil _
  have h1 : (2 : ℝ) ^ (Real.logb 2 ((n : ℝ) + 1)) ≤ (2 : ℝ) ^ ((sobolLLReal n : ℕ) : ℝ) :=
    Real.rpow_le_rpow_of_exponent_le h2.le hle
  rw [Real.rpow_logb (by norm_num) (by norm_num) hpos, Real.rpow_natCast] at h1
  have : ((n : ℝ)) < ((2 ^ sobolLLReal n : ℕ) : ℝ) := by push_cast; linarith
  exact_mod_cast this

/-- With the table sized as the source writes it, the first coordinate is produced for every point count. -/
theorem sobolDim1_ok_source_expr (n : ℕ) : ∃ xs, sobolDim1 (sobolLLReal n) n = .ok xs ∧ xs.length = n :=
  sobolDim1_ok _ _ (sobolLLReal_spec n)

/-- `int(np.ceil(np.log2(num_points)))` over ℝ — the sizing that looks equivalent. -/
noncomputable def sobolLLLog2 (n : ℕ) : ℕ := ⌈Real.logb 2 (n : ℝ)⌉₊

theorem sobolLLLog2_pow (k : ℕ) : sobolLLLog2 (2 ^ k) = k := by
  unfold sobolLLLog2
  push_cast
  rw [Real.logb_pow, Real.logb_self_eq_one (by norm_num)]
  simp

/-- It is one short exactly at the powers of two … -/
theorem sobolLLLog2_fails (k : ℕ) : ¬ (2 ^ k < 2 ^ sobolLLLog2 (2 ^ k)) := by
  rw [sobolLLLog2_pow]; exact lt_irrefl _

/-- … where the interpreter then raises IndexError on the last point. -/
theorem sobol_log2_sizing_index_error (k : ℕ) :
    sobolDim1 (sobolLLLog2 (2 ^ k)) (2 ^ k) = .error .indexError := by
  rw [sobolLLLog2_pow]; exact sobolDim1_short_table_index_error k

end FinVerif.Props.C20
