/-
  C20 (part f) — more about the root finders of `financepy/utils/solver_1d.py`, for ARBITRARY `f`:

  * the HALLEY path of `newton` (model `Model/C20Halley.lean`): what the step is, that the guard `|adj| < 1`
    keeps it in the Newton direction and within a factor 2 of the Newton step, the post-condition of a returned
    number, and that it is the Newton–Raphson path when `fprime2 ≡ 0`;
  * the start-point perturbation of the two secant variants: the two starting abscissae are distinct for EVERY
    `x0` (in particular `x0 = 0`), how far apart they are, and where the two variants differ;
  * the secant update: both coded forms are the textbook secant formula, the update is the zero of the chord,
    and the step-size criterion bounds the residual by `tol · |chord slope|`;
  * bisection: a returned point is the midpoint of a bracket of width `(x2 − x1)/2^k` that contains a sign
    change; the loop reports failure exactly when no midpoint met the tolerance; with a Lipschitz objective
    and a sufficient budget it does not fail.
-/
import FinVerif.Model.C20Halley
import FinVerif.Props.C20a

namespace FinVerif.Props.C20
open FinVerif FinVerif.Model.C20

/-! ## newton — Halley path -/

/-- The `adj` of the source: `newton_step * fder2 / fder / 2`. -/
noncomputable def halleyAdj (fval fder fder2 : ℝ) : ℝ := fval / fder * fder2 / fder / 2

theorem halleyStep_of_guard (fval fder fder2 : ℝ) (h : |halleyAdj fval fder fder2| < 1) :
    halleyStep fval fder fder2 = fval / fder / (1 - halleyAdj fval fder fder2) := by
  unfold halleyStep halleyAdj at *
  simp only [absG_eq_abs, h, if_true]

theorem halleyStep_of_not_guard (fval fder fder2 : ℝ) (h : ¬ |halleyAdj fval fder fder2| < 1) :
    halleyStep fval fder fder2 = fval / fder := by
  unfold halleyStep halleyAdj at *
  simp only [absG_eq_abs, h, if_false]

/-- Inside the guard the coded step is the classical Halley step `2 f f' / (2 f'² − f f'')`. -/
theorem halleyStep_classic (fval fder fder2 : ℝ) (hd : fder ≠ 0) (h : |halleyAdj fval fder fder2| < 1) :
    halleyStep fval fder fder2 = 2 * fval * fder / (2 * fder ^ 2 - fval * fder2) := by
  rw [halleyStep_of_guard _ _ _ h]
  have h1 : 1 - halleyAdj fval fder fder2 ≠ 0 := by
    have := abs_lt.mp h; intro hc; linarith
  have h2 : 2 * fder ^ 2 - fval * fder2 ≠ 0 := by
    intro hc
    apply h1
    unfold halleyAdj
    field_simp
    linarith
  unfold halleyAdj at h1 ⊢
  field_simp

/-- non-vacuity: `f = x² − 2` at `x = 1`: `f = −1, f' = 2, f'' = 2`, `adj = −1/4`. -/
example : halleyStep (-1 : ℝ) 2 2 = 2 * (-1) * 2 / (2 * 2 ^ 2 - (-1) * 2) :=
  halleyStep_classic _ _ _ (by norm_num) (by unfold halleyAdj; rw [abs_lt]; constructor <;> norm_num)

/-- The source's rationale for the guard ("if `1 − adj < 0` Halley sends `x` in the opposite direction to
Newton"), as a theorem: whatever `f, f', f''` are, the coded step never points against the Newton step. -/
theorem halleyStep_same_direction (fval fder fder2 : ℝ) :
    0 ≤ fval / fder * halleyStep fval fder fder2 := by
  by_cases h : |halleyAdj fval fder fder2| < 1
  · rw [halleyStep_of_guard _ _ _ h]
    have hpos : 0 < 1 - halleyAdj fval fder fder2 := by have := abs_lt.mp h; linarith
    rw [mul_div_assoc']
    exact div_nonneg (mul_self_nonneg _) hpos.le
  · rw [halleyStep_of_not_guard _ _ _ h]; exact mul_self_nonneg _

/-- … and it is longer than half the Newton step: `|f/f'| ≤ 2·|step|` (strictly inside the guard, where
`0 < 1 − adj < 2`).  This is what turns the step-size stopping test into a residual bound. -/
theorem halleyStep_newton_le (fval fder fder2 : ℝ) :
    |fval / fder| ≤ 2 * |halleyStep fval fder fder2| := by
  by_cases h : |halleyAdj fval fder fder2| < 1
  · rw [halleyStep_of_guard _ _ _ h]
    have hb := abs_lt.mp h
    have hpos : 0 < 1 - halleyAdj fval fder fder2 := by linarith
    have habs : |fval / fder / (1 - halleyAdj fval fder fder2)| = |fval / fder| / (1 - halleyAdj fval fder fder2) := by
      rw [abs_div (fval / fder), abs_of_pos hpos]
    rw [habs, mul_div_assoc', le_div_iff₀ hpos]
    nlinarith [abs_nonneg (fval / fder)]
  · rw [halleyStep_of_not_guard _ _ _ h]; linarith [abs_nonneg (fval / fder)]

/-- With a vanishing second derivative the Halley step is the Newton step. -/
theorem halleyStep_fder2_zero (fval fder : ℝ) : halleyStep fval fder 0 = fval / fder := by
  have h : |halleyAdj fval fder 0| < 1 := by unfold halleyAdj; simp
  rw [halleyStep_of_guard _ _ _ h]
  unfold halleyAdj; simp

/-- The Halley path with `fprime2 ≡ 0` IS the Newton–Raphson path (same result constructor, same numbers). -/
theorem halleyLoop_eq_newtonLoop (f f' f'' : ℝ → ℝ) (h2 : ∀ x, f'' x = 0) (tol rtol : ℝ) (n : Nat) (p0 : ℝ) :
    halleyLoop f f' f'' tol rtol n p0 = newtonLoop f f' tol rtol n p0 := by
  induction n generalizing p0 with
  | zero => rfl
  | succ n ih =>
    unfold halleyLoop newtonLoop
    simp only [h2, halleyStep_fder2_zero, ih]

/-- What each kind of result of the Halley path guarantees. -/
def HalleyPost (f f' f'' : ℝ → ℝ) (tol rtol : ℝ) : NewtonRes ℝ → Prop
  | .root p => f p = 0
  | .step p p0 => f' p0 ≠ 0 ∧ p = p0 - halleyStep (f p0) (f' p0) (f'' p0) ∧ |p - p0| ≤ tol + rtol * |p0| ∧
      |f p0| ≤ 2 * (tol + rtol * |p0|) * |f' p0|
  | .zeroDer => True
  | .noconv _ => True

/-- C20 post-condition of `newton` on the Halley path (any `f, f', f''`, start, tolerances, budget): a `root` result
is an exact zero; a `step` result is one (guarded) Halley step from a point `p0` with `f' p0 ≠ 0`, of length
`≤ tol + rtol|p0|`, and the residual THERE is bounded: `|f p0| ≤ 2 (tol + rtol |p0|) |f' p0|`. -/
theorem halley_returns_root_or_error (f f' f'' : ℝ → ℝ) (tol rtol : ℝ) (n : Nat) (p0 : ℝ) :
    HalleyPost f f' f'' tol rtol (halleyLoop f f' f'' tol rtol n p0) := by
  induction n generalizing p0 with
  | zero => simp [halleyLoop, HalleyPost]
  | succ n ih =>
    unfold halleyLoop
    simp only
    split
    · rename_i h; simpa [HalleyPost] using h
    · split
      · simp [HalleyPost]
      · rename_i hder
        have hder : f' p0 ≠ 0 := by simpa using hder
        split
        · rename_i hc
          rw [isclose_iff] at hc
          refine ⟨hder, rfl, hc, ?_⟩
          have h1 : p0 - halleyStep (f p0) (f' p0) (f'' p0) - p0 = -halleyStep (f p0) (f' p0) (f'' p0) := by ring
          rw [h1, abs_neg] at hc
          have h2 := halleyStep_newton_le (f p0) (f' p0) (f'' p0)
          have hpos : 0 < |f' p0| := abs_pos.mpr hder
          have h3 : |f p0| / |f' p0| ≤ 2 * (tol + rtol * |p0|) := by rw [← abs_div]; linarith
          rwa [div_le_iff₀ hpos] at h3
        · exact ih _

/-- non-vacuity: `f = x − 1` from `x0 = 0` returns after one pass with a `step` (the whole step is `1`, `tol = 2`). -/
example : halleyLoop (fun x : ℝ => x - 1) (fun _ => 1) (fun _ => 0) 2 0 1 0 = .step 1 0 := by
  have h3 : isclose (1:ℝ) 0 0 2 = true := by rw [isclose_iff]; norm_num
  simp [halleyLoop, halleyStep_fder2_zero, h3]

/-- "failure is reported rather than a wrong root" on the Halley path, with the exhausted budget excluded (same
hypothesis as `newton_reports_failure_partial`; the full statement fails for the same reason — `return p` after the
loop — already at `f'' ≡ 0` by `halleyLoop_eq_newtonLoop` and `newton_silent_nonconvergence_witness`). -/
theorem halley_reports_failure_partial (f f' f'' : ℝ → ℝ) (tol rtol : ℝ) (n : Nat) (p0 x : ℝ)
    (hconv : ∀ p, halleyLoop f f' f'' tol rtol n p0 ≠ .noconv p)
    (h : (halleyLoop f f' f'' tol rtol n p0).value = some x) :
    f x = 0 ∨ ∃ q, |x - q| ≤ tol + rtol * |q| ∧ |f q| ≤ 2 * (tol + rtol * |q|) * |f' q| := by
  have hp := halley_returns_root_or_error f f' f'' tol rtol n p0
  cases hres : halleyLoop f f' f'' tol rtol n p0 with
  | root p => rw [hres] at hp h; simp [NewtonRes.value] at h; subst h; left; exact hp
  | step p q => rw [hres] at hp h; simp [NewtonRes.value] at h; subst h; right; exact ⟨q, hp.2.2.1, hp.2.2.2⟩
  | zeroDer => rw [hres] at h; simp [NewtonRes.value] at h
  | noconv p => exact absurd hres (hconv p)

/-- The Halley path inherits the silent non-convergence of the Newton path (known finding
`C20/newton-silent-nonconvergence`): `f = x² + 1`, `f'' = 0` passed, `x0 = 1`, `maxiter = 1` hands back `0`. -/
theorem halley_silent_nonconvergence_witness :
    (halleyLoop (fun x : ℝ => x ^ 2 + 1) (fun x => 2 * x) (fun _ => 0) (1e-8) 0 1 1).value = some 0 := by
  rw [halleyLoop_eq_newtonLoop _ _ _ (fun _ => rfl)]
  exact newton_silent_nonconvergence_witness

/-! ## start-point perturbation of the secant variants -/

/-- `newton_secant` (Model/C20.lean) is written with exactly this start point. -/
theorem newton_secant_start (f : ℝ → ℝ) (eps x0 tol : ℝ) (maxiter : Int) (disp : Bool) :
    newton_secant f eps x0 tol maxiter disp =
      if tol ≤ 0 then .error .finError
      else if maxiter < 1 then .error .finError
      else
        if absG (f (secantStart eps x0)) < absG (f (1 * x0)) then
          secantLoop f tol disp maxiter.toNat (secantStart eps x0) (1 * x0) (f (secantStart eps x0)) (f (1 * x0)) (1 * x0)
        else
          secantLoop f tol disp maxiter.toNat (1 * x0) (secantStart eps x0) (f (1 * x0)) (f (secantStart eps x0)) (1 * x0) :=
  rfl

/-- Closed form of the perturbation: away from the origin by `eps·(|x0| + 1)`, on the side of `x0`'s sign
(`x0 ≤ 0` goes left — including `x0 = 0`). -/
theorem secantStart_eq (eps x0 : ℝ) (heps : 0 < eps) :
    secantStart eps x0 = if 0 < x0 then x0 + eps * (x0 + 1) else x0 - eps * (1 - x0) := by
  unfold secantStart
  simp only [gt_iff_lt]
  have hiff : 0 < x0 * (1 + eps) ↔ 0 < x0 := by
    constructor
    · intro h
      by_contra hc
      have : x0 * (1 + eps) ≤ 0 := mul_nonpos_of_nonpos_of_nonneg (not_lt.mp hc) (by linarith)
      linarith
    · intro h; exact mul_pos h (by linarith)
  by_cases h : 0 < x0
  · rw [if_pos (hiff.mpr h), if_pos h]; ring
  · rw [if_neg (fun hc => h (hiff.mp hc)), if_neg h]; ring

/-- C20 (the seeded defect broke exactly this): the two starting abscissae of `newton_secant` are at distance
`eps·(|x0| + 1) ≥ eps` — for EVERY `x0`. -/
theorem secantStart_dist (eps x0 : ℝ) (heps : 0 < eps) :
    |secantStart eps x0 - 1 * x0| = eps * (|x0| + 1) := by
  rw [secantStart_eq eps x0 heps, one_mul]
  by_cases h : 0 < x0
  · rw [if_pos h, abs_of_pos h]
    have : x0 + eps * (x0 + 1) - x0 = eps * (x0 + 1) := by ring
    rw [this, abs_of_pos (by positivity)]
  · rw [if_neg h, abs_of_nonpos (not_lt.mp h)]
    have : x0 - eps * (1 - x0) - x0 = -(eps * (-x0 + 1)) := by ring
    rw [this, abs_neg, abs_of_pos (mul_pos heps (by linarith))]

/-- … hence `p1 ≠ p0` as coded, for every `x0` and every `eps > 0` (so the first secant is never the degenerate
`p1 = p0` one, and a flat first secant is always REPORTED — `newton_secant_flat_start_reports_failure`). -/
theorem secantStart_ne (eps x0 : ℝ) (heps : 0 < eps) : secantStart eps x0 ≠ 1 * x0 := by
  intro h
  have hd := secantStart_dist eps x0 heps
  rw [h, sub_self, abs_zero] at hd
  have : 0 < eps * (|x0| + 1) := mul_pos heps (by positivity)
  linarith

/-- The `x0 = 0` case: `p0 = 0`, `p1 = −eps` (the relative perturbation vanishes, the absolute one does not). -/
theorem secantStart_zero (eps : ℝ) : secantStart eps 0 = -eps := by
  unfold secantStart; simp

/-- The plain-Python secant branch of `newton` perturbs with `>=` instead of `>`: closed form. -/
theorem secantStartNewton_eq (eps x0 : ℝ) (heps : 0 < eps) :
    secantStartNewton eps x0 = if 0 ≤ x0 then x0 + eps * (x0 + 1) else x0 - eps * (1 - x0) := by
  unfold secantStartNewton
  simp only [ge_iff_le]
  have hiff : 0 ≤ x0 * (1 + eps) ↔ 0 ≤ x0 := by
    constructor
    · intro h
      by_contra hc
      have : x0 * (1 + eps) < 0 := mul_neg_of_neg_of_pos (not_le.mp hc) (by linarith)
      linarith
    · intro h; exact mul_nonneg h (by linarith)
  by_cases h : 0 ≤ x0
  · rw [if_pos (hiff.mpr h), if_pos h]; ring
  · rw [if_neg (fun hc => h (hiff.mp hc)), if_neg h]; ring

theorem secantStartNewton_ne (eps x0 : ℝ) (heps : 0 < eps) : secantStartNewton eps x0 ≠ x0 := by
  rw [secantStartNewton_eq eps x0 heps]
  split
  · rename_i h; nlinarith
  · rename_i h; nlinarith

/-- The two variants use the same second abscissa except at `x0 = 0`, where they step to opposite sides
(`newton_secant`: `−eps`; `newton`: `+eps`). -/
theorem secantStart_eq_secantStartNewton_iff (eps x0 : ℝ) (heps : 0 < eps) :
    secantStart eps x0 = secantStartNewton eps x0 ↔ x0 ≠ 0 := by
  rw [secantStart_eq eps x0 heps, secantStartNewton_eq eps x0 heps]
  constructor
  · intro h h0
    subst h0
    simp at h
    linarith
  · intro h0
    rcases lt_or_gt_of_ne h0 with h | h
    · rw [if_neg (by linarith), if_neg (by linarith)]
    · rw [if_pos h, if_pos h.le]

example : secantStart (1e-4 : ℝ) 0 = -1e-4 ∧ secantStartNewton (1e-4 : ℝ) 0 = 1e-4 := by
  constructor
  · exact secantStart_zero _
  · unfold secantStartNewton; norm_num

/-! ## the secant update -/

/-- Both coded forms of the update are the textbook secant formula — whenever the ordinates differ, which is the only
situation in which the code evaluates it (no further hypothesis: the branch on `|q1| > |q0|` always divides by the
non-zero ordinate). -/
theorem secantUpdate_eq (p0 p1 q0 q1 : ℝ) (hq : q1 ≠ q0) :
    secantUpdate p0 p1 q0 q1 = p1 - q1 * (p1 - p0) / (q1 - q0) := by
  have hd : q1 - q0 ≠ 0 := sub_ne_zero.mpr hq
  unfold secantUpdate
  rw [absG_eq_abs, absG_eq_abs]
  split
  · rename_i h
    have h1 : q1 ≠ 0 := by
      intro hc; rw [hc, abs_zero] at h; exact absurd h (not_lt.mpr (abs_nonneg _))
    have h2 : 1 - q0 / q1 ≠ 0 := by
      intro hc
      apply hq
      field_simp at hc
      linarith
    field_simp
    ring
  · rename_i h
    have h0 : q0 ≠ 0 := by
      intro hc
      apply hq
      rw [hc, abs_zero] at h
      rw [hc]
      exact abs_eq_zero.mp (le_antisymm (not_lt.mp h) (abs_nonneg _))
    have h2 : 1 - q1 / q0 ≠ 0 := by
      intro hc
      apply hq
      field_simp at hc
      linarith
    field_simp
    ring

/-- The update is the zero of the chord through `(p0, q0)` and `(p1, q1)`. -/
theorem secantUpdate_chord_zero (p0 p1 q0 q1 : ℝ) (hq : q1 ≠ q0) (hp : p1 ≠ p0) :
    q1 + (q1 - q0) / (p1 - p0) * (secantUpdate p0 p1 q0 q1 - p1) = 0 := by
  rw [secantUpdate_eq p0 p1 q0 q1 hq]
  have hd : q1 - q0 ≠ 0 := sub_ne_zero.mpr hq
  have he : p1 - p0 ≠ 0 := sub_ne_zero.mpr hp
  field_simp
  ring

/-- On an affine objective one update from ANY two distinct points is the exact root. -/
theorem secantUpdate_affine_exact (m c a b : ℝ) (hm : m ≠ 0) (hab : b ≠ a) :
    (fun x => m * x + c) (secantUpdate a b (m * a + c) (m * b + c)) = 0 := by
  have hq : m * b + c ≠ m * a + c := by
    intro h
    apply hab
    have : m * (b - a) = 0 := by linarith
    rcases mul_eq_zero.mp this with h1 | h1
    · exact absurd h1 hm
    · linarith
  have hd : m * b + c - (m * a + c) ≠ 0 := sub_ne_zero.mpr hq
  simp only
  rw [secantUpdate_eq a b _ _ hq]
  field_simp
  ring

/-- What the step-size criterion `|p − p1| < tol` of the secant says about the residual: at the last evaluated
abscissa `b` it is below `tol` times the slope of the last chord.  (Known finding `C20/secant-step-criterion-nonroot`
is the case of an enormous chord slope: the bound is then vacuous although the criterion fires.) -/
theorem secant_step_residual (f : ℝ → ℝ) (tol a b : ℝ) (hq : f b ≠ f a) (hab : b ≠ a)
    (hs : |secantUpdate a b (f a) (f b) - b| < tol) :
    |f b| < tol * |(f b - f a) / (b - a)| := by
  rw [secantUpdate_eq a b _ _ hq] at hs
  have hd : f b - f a ≠ 0 := sub_ne_zero.mpr hq
  have he : b - a ≠ 0 := sub_ne_zero.mpr hab
  have h1 : b - f b * (b - a) / (f b - f a) - b = -(f b * ((b - a) / (f b - f a))) := by ring
  rw [h1, abs_neg, abs_mul] at hs
  have hpos : 0 < |(f b - f a) / (b - a)| := abs_pos.mpr (div_ne_zero hd he)
  have h2 : |(b - a) / (f b - f a)| * |(f b - f a) / (b - a)| = 1 := by
    rw [← abs_mul]
    have : (b - a) / (f b - f a) * ((f b - f a) / (b - a)) = 1 := by field_simp
    rw [this, abs_one]
  calc |f b| = |f b| * (|(b - a) / (f b - f a)| * |(f b - f a) / (b - a)|) := by rw [h2, mul_one]
    _ = (|f b| * |(b - a) / (f b - f a)|) * |(f b - f a) / (b - a)| := by ring
    _ < tol * |(f b - f a) / (b - a)| := mul_lt_mul_of_pos_right hs hpos

/-- non-vacuity: `f x = 2x − 2`, `a = 0, b = 2`: the update is the root `1`, `|1 − 2| < 1.5`. -/
example : |(fun x : ℝ => 2 * x - 2) 2| < 1.5 * |((fun x : ℝ => 2 * x - 2) 2 - (fun x : ℝ => 2 * x - 2) 0) / (2 - 0)| := by
  norm_num

/-- Post-condition of the jitted secant at full strength (disp = True): a returned number is the common point of
coinciding abscissae, or the secant update from two DISTINCT abscissae `a ≠ b` with different ordinates, it lies
within `tol` of `b`, and `|f b| < tol·|chord slope|`. -/
theorem secant_returns_post_residual (f : ℝ → ℝ) (tol : ℝ) (n : Nat) (p0 p1 q0 q1 pl x : ℝ)
    (hq0 : q0 = f p0) (hq1 : q1 = f p1)
    (h : secantLoop f tol true n p0 p1 q0 q1 pl = .ok x) :
    ∃ a b : ℝ, (f b = f a ∧ b = a ∧ x = b) ∨
      (f b ≠ f a ∧ b ≠ a ∧ x = b - f b * (b - a) / (f b - f a) ∧ |x - b| < tol ∧
        |f b| < tol * |(f b - f a) / (b - a)|) := by
  obtain ⟨a, b, hab | ⟨hne, hx, hs⟩⟩ := secant_returns_post f tol n p0 p1 q0 q1 pl x hq0 hq1 h
  · exact ⟨a, b, Or.inl hab⟩
  · have hba : b ≠ a := by intro hc; apply hne; rw [hc]
    refine ⟨a, b, Or.inr ⟨hne, hba, ?_, hs, ?_⟩⟩
    · rw [hx, secantUpdate_eq a b _ _ hne]
    · rw [hx] at hs; exact secant_step_residual f tol a b hne hba hs

/-! ## bisection: the returned point, reported failure, and success under a Lipschitz bound -/

/-- Midpoint of the bracket after `k` passes. -/
noncomputable def bisectMid (f : ℝ → ℝ) (f1 : ℝ) (s : ℝ × ℝ) (k : ℕ) : ℝ :=
  (((bisectStep f f1)^[k] s).1 + ((bisectStep f f1)^[k] s).2) / 2

/-- Failure (`None`, "exceeded number of iterations") is reported EXACTLY when none of the `n` midpoints met the
tolerance; otherwise the FIRST midpoint that does is returned. -/
theorem bisectLoop_eq_none_iff (f : ℝ → ℝ) (f1 xtol : ℝ) (n : Nat) (s : ℝ × ℝ) :
    bisectLoop f f1 xtol n s = none ↔ ∀ k < n, ¬ |f (bisectMid f f1 s k)| < xtol := by
  induction n generalizing s with
  | zero => simp [bisectLoop]
  | succ n ih =>
    unfold bisectLoop
    simp only
    split
    · rename_i h
      rw [absG_eq_abs] at h
      constructor
      · intro hc; cases hc
      · intro hall; exact absurd h (hall 0 (Nat.succ_pos n))
    · rename_i h
      rw [absG_eq_abs] at h
      rw [ih]
      constructor
      · intro hall k hk
        cases k with
        | zero => exact h
        | succ k =>
          have := hall k (by omega)
          unfold bisectMid at this ⊢
          rwa [Function.iterate_succ_apply]
      · intro hall k hk
        have := hall (k + 1) (by omega)
        unfold bisectMid at this ⊢
        rwa [Function.iterate_succ_apply] at this

/-- C20 bisection, the returned point: it is the midpoint of a bracket `[a, b]` obtained after some `k < maxiter`
halvings — `b − a = (x2 − x1)/2^k` — that still contains a sign change (`f a · f b ≤ 0`); so a sign change lies
within `(x2 − x1)/2^(k+1)` of the returned point, and `|f r| < xtol`. -/
theorem bisectLoop_result_near_sign_change (f : ℝ → ℝ) (f1 xtol : ℝ) (n : Nat) (s : ℝ × ℝ) (r : ℝ)
    (hs : SignBracket f f1 s) (h : bisectLoop f f1 xtol n s = some r) :
    ∃ k, k < n ∧ ∃ a b : ℝ, s.1 ≤ a ∧ b ≤ s.2 ∧ f a * f b ≤ 0 ∧ b - a = (s.2 - s.1) / 2 ^ k ∧
      r = (a + b) / 2 ∧ |r - a| = (s.2 - s.1) / 2 ^ (k + 1) ∧ |b - r| = (s.2 - s.1) / 2 ^ (k + 1) ∧ |f r| < xtol := by
  rcases bisectLoop_none_or_iter f f1 xtol n s with hn | ⟨k, hk, hres⟩
  · rw [hn] at h; cases h
  · rw [h] at hres
    have hr : r = _ := Option.some.inj hres
    obtain ⟨hb, hsc, hl, hrr, hw⟩ := bisection_invariant f f1 s hs k
    have hpost := bisectLoop_post f f1 xtol n s r hs.1 h
    have hwn : 0 ≤ (s.2 - s.1) / 2 ^ k := div_nonneg (by linarith [hs.1]) (by positivity)
    have hhalf : (s.2 - s.1) / 2 ^ (k + 1) = (s.2 - s.1) / 2 ^ k / 2 := by rw [pow_succ]; field_simp
    refine ⟨k, hk, ((bisectStep f f1)^[k] s).1, ((bisectStep f f1)^[k] s).2, hl, hrr, hsc, hw, hr, ?_, ?_, hpost.1⟩
    · rw [hr, hhalf, ← hw]
      have : (((bisectStep f f1)^[k] s).1 + ((bisectStep f f1)^[k] s).2) / 2 - ((bisectStep f f1)^[k] s).1
          = (((bisectStep f f1)^[k] s).2 - ((bisectStep f f1)^[k] s).1) / 2 := by ring
      rw [this, abs_of_nonneg (by rw [hw]; linarith)]
    · rw [hr, hhalf, ← hw]
      have : ((bisectStep f f1)^[k] s).2 - (((bisectStep f f1)^[k] s).1 + ((bisectStep f f1)^[k] s).2) / 2
          = (((bisectStep f f1)^[k] s).2 - ((bisectStep f f1)^[k] s).1) / 2 := by ring
      rw [this, abs_of_nonneg (by rw [hw]; linarith)]

/-- Under the loop invariant, a Lipschitz objective is small at the midpoint of the `k`-th bracket:
`|f mid_k| ≤ L·(x2 − x1)/2^(k+1)`. -/
theorem bisectMid_residual_le (f : ℝ → ℝ) (f1 L : ℝ) (s : ℝ × ℝ) (hs : SignBracket f f1 s)
    (hL : ∀ x y, s.1 ≤ x → x ≤ y → y ≤ s.2 → |f y - f x| ≤ L * (y - x)) (k : ℕ) :
    |f (bisectMid f f1 s k)| ≤ L * ((s.2 - s.1) / 2 ^ (k + 1)) := by
  obtain ⟨hb, hsc, hl, hrr, hw⟩ := bisection_invariant f f1 s hs k
  set a := ((bisectStep f f1)^[k] s).1 with ha
  set b := ((bisectStep f f1)^[k] s).2 with hbdef
  have hab : a ≤ b := hb.1
  have hm : bisectMid f f1 s k = (a + b) / 2 := rfl
  have hhalf : (s.2 - s.1) / 2 ^ (k + 1) = (b - a) / 2 := by rw [hw, pow_succ]; field_simp
  rw [hm, hhalf]
  have h1 := hL a ((a + b) / 2) hl (by linarith) (by linarith)
  have h2 := hL ((a + b) / 2) b (by linarith) (by linarith) hrr
  have e1 : (a + b) / 2 - a = (b - a) / 2 := by ring
  have e2 : b - (a + b) / 2 = (b - a) / 2 := by ring
  rw [e1] at h1; rw [e2] at h2
  have h1' := abs_le.mp h1
  have h2' := abs_le.mp h2
  rcases eq_or_ne (f a) 0 with h0 | h0
  · rw [h0, sub_zero] at h1; exact h1
  · rw [abs_le]
    rcases lt_or_gt_of_ne h0 with hneg | hpos'
    · have hfb : 0 ≤ f b := by
        by_contra hc
        have : 0 < f a * f b := mul_pos_of_neg_of_neg hneg (lt_of_not_ge hc)
        linarith
      constructor <;> linarith [h1'.1, h1'.2, h2'.1, h2'.2]
    · have hfb : f b ≤ 0 := by
        by_contra hc
        have : 0 < f a * f b := mul_pos hpos' (lt_of_not_ge hc)
        linarith
      constructor <;> linarith [h1'.1, h1'.2, h2'.1, h2'.2]

/-- C20 bisection does not give up on a Lipschitz objective when the budget suffices: if the invariant holds at
entry, `f` is `L`-Lipschitz on the bracket and `L·(x2 − x1)/2^n < xtol` with `n ≥ 1` passes allowed, the loop
returns a point (it does NOT report failure) — and by `bisectLoop_result_near_sign_change` that point is near a
sign change with `|f| < xtol`. -/
theorem bisectLoop_succeeds_of_lipschitz (f : ℝ → ℝ) (f1 xtol L : ℝ) (n : Nat) (s : ℝ × ℝ)
    (hs : SignBracket f f1 s)
    (hL : ∀ x y, s.1 ≤ x → x ≤ y → y ≤ s.2 → |f y - f x| ≤ L * (y - x))
    (hn : L * ((s.2 - s.1) / 2 ^ (n + 1)) < xtol) :
    ∃ r, bisectLoop f f1 xtol (n + 1) s = some r := by
  cases hres : bisectLoop f f1 xtol (n + 1) s with
  | some r => exact ⟨r, rfl⟩
  | none =>
    exfalso
    rw [bisectLoop_eq_none_iff] at hres
    exact hres n (Nat.lt_succ_self n) (lt_of_le_of_lt (bisectMid_residual_le f f1 L s hs hL n) hn)

/-- non-vacuity: `f x = x − 1` on `[0, 3]` is 1-Lipschitz; `1·3/2^(n+1) < xtol` for `n = 9`, `xtol = 0.01`. -/
example : ∃ r, bisectLoop (fun x : ℝ => x - 1) ((fun x : ℝ => x - 1) 0) 0.01 10 (0, 3) = some r := by
  apply bisectLoop_succeeds_of_lipschitz (L := 1)
  · refine ⟨by norm_num, by norm_num, by norm_num⟩
  · intro x y _ hxy _
    have : y - 1 - (x - 1) = y - x := by ring
    rw [this, abs_of_nonneg (by linarith)]; linarith
  · norm_num

end FinVerif.Props.C20
