/-
  C20 (part g) — further theorems about the hand models of `financepy/utils/math.py`:
  npv / IRR (monotonicity in the rate, uniqueness of the IRR of an investment, linearity),
  the Thomas tridiagonal solver (n = 1, n = 2 closed forms, uniqueness of the solution, linearity in the
  right-hand side) and Cholesky (n = 1, 2, 3: L·Lᵀ = A; shape of the factor for every n).
-/
import FinVerif.Props.C20b

namespace FinVerif.Props.C20
open FinVerif FinVerif.Model.C20

/-! ## npv / IRR -/

/-- The accumulation loop of `npv` as a sum of quotients `c / x^t`; no sign condition on `x` (division,
unlike `x^(-t)`, needs none). -/
theorem npv_fold_div (x z : ℝ) (tcs : List (ℝ × ℝ)) :
    tcs.foldl (fun acc tc => acc + tc.2 / Real.rpow x tc.1) z
      = z + (tcs.map (fun tc => tc.2 / x ^ tc.1)).sum := by
  induction tcs generalizing z with
  | nil => simp
  | cons tc l ih =>
    simp only [List.foldl_cons, List.map_cons, List.sum_cons]
    rw [ih]
    have : tc.2 / Real.rpow x tc.1 = tc.2 / x ^ tc.1 := rfl
    rw [this]; ring

/-- `npv` is the sum of `c / (1+irr)^t`, for EVERY rate (no sign condition). -/
theorem npv_eq_sum_div (irr : ℝ) (tcs : List (ℝ × ℝ)) :
    npv Real.rpow irr tcs = (tcs.map (fun tc => tc.2 / (1 + irr) ^ tc.1)).sum := by
  unfold npv
  rw [npv_fold_div]; simp

/-- `npv` of no flows is 0. -/
theorem npv_nil (irr : ℝ) : npv Real.rpow irr [] = 0 := by simp [npv]

/-- `npv` peels off the first flow. -/
theorem npv_cons (irr : ℝ) (tc : ℝ × ℝ) (l : List (ℝ × ℝ)) :
    npv Real.rpow irr (tc :: l) = tc.2 / (1 + irr) ^ tc.1 + npv Real.rpow irr l := by
  simp [npv_eq_sum_div]

/-- One discounted flow is antitone in the rate when `t ≥ 0` and (`t > 0 → c ≥ 0`). -/
theorem term_antitone (t c x1 x2 : ℝ) (ht : 0 ≤ t) (hc : 0 < t → 0 ≤ c) (hx1 : 0 < x1) (h12 : x1 ≤ x2) :
    c / x2 ^ t ≤ c / x1 ^ t := by
  rcases eq_or_lt_of_le ht with h0 | hpos
  · subst h0; simp
  · have hc' := hc hpos
    have hp1 : 0 < x1 ^ t := Real.rpow_pos_of_pos hx1 t
    have hle : x1 ^ t ≤ x2 ^ t := Real.rpow_le_rpow hx1.le h12 ht
    exact div_le_div_of_nonneg_left hc' hp1 hle

/-- One discounted flow with `t > 0`, `c > 0` is STRICTLY decreasing in the rate. -/
theorem term_strictAnti (t c x1 x2 : ℝ) (ht : 0 < t) (hc : 0 < c) (hx1 : 0 < x1) (h12 : x1 < x2) :
    c / x2 ^ t < c / x1 ^ t := by
  have hp1 : 0 < x1 ^ t := Real.rpow_pos_of_pos hx1 t
  have hlt : x1 ^ t < x2 ^ t := Real.rpow_lt_rpow hx1.le h12 ht
  exact div_lt_div_of_pos_left hc hp1 hlt

/-- The flows of the examples: pay 100 now, receive 60 after one and after two years. -/
def exFlows : List (ℝ × ℝ) := [(0, -100), (1, 60), (2, 60)]

theorem exFlows_times : ∀ tc ∈ exFlows, 0 ≤ tc.1 := by
  intro tc h; simp only [exFlows, List.mem_cons, List.not_mem_nil, or_false] at h
  rcases h with rfl | rfl | rfl <;> norm_num

theorem exFlows_signs : ∀ tc ∈ exFlows, 0 < tc.1 → 0 ≤ tc.2 := by
  intro tc h; simp only [exFlows, List.mem_cons, List.not_mem_nil, or_false] at h
  rcases h with rfl | rfl | rfl <;> norm_num

theorem exFlows_inflow : ∃ tc ∈ exFlows, 0 < tc.1 ∧ 0 < tc.2 :=
  ⟨(1, 60), by simp [exFlows], by norm_num, by norm_num⟩

/-- C20 `npv_antitone_of_investment`: if every flow is at a time `t ≥ 0` and every flow at a time `t > 0` is
an inflow (`c ≥ 0`; the flows at `t = 0`, the initial outlay, may have any sign), then `npv` is a
non-increasing function of the rate on `(-1, ∞)`. -/
theorem npv_antitone_of_investment (tcs : List (ℝ × ℝ))
    (ht : ∀ tc ∈ tcs, 0 ≤ tc.1) (hc : ∀ tc ∈ tcs, 0 < tc.1 → 0 ≤ tc.2)
    (r1 r2 : ℝ) (h1 : -1 < r1) (h12 : r1 ≤ r2) :
    npv Real.rpow r2 tcs ≤ npv Real.rpow r1 tcs := by
  induction tcs with
  | nil => simp [npv_nil]
  | cons tc l ih =>
    rw [npv_cons, npv_cons]
    have hh := term_antitone tc.1 tc.2 (1 + r1) (1 + r2) (ht tc (by simp)) (hc tc (by simp))
      (by linarith) (by linarith)
    have ht' := ih (fun x hx => ht x (by simp [hx])) (fun x hx => hc x (by simp [hx]))
    linarith

/-- non-vacuity: the example investment meets the hypotheses. -/
example : npv Real.rpow (1 / 10) exFlows ≤ npv Real.rpow 0 exFlows :=
  npv_antitone_of_investment exFlows exFlows_times exFlows_signs 0 (1 / 10) (by norm_num) (by norm_num)

/-- C20 `npv_strictAnti_of_investment`: if moreover some flow at a time `t > 0` is strictly positive, `npv` is
STRICTLY decreasing in the rate on `(-1, ∞)`. -/
theorem npv_strictAnti_of_investment (tcs : List (ℝ × ℝ))
    (ht : ∀ tc ∈ tcs, 0 ≤ tc.1) (hc : ∀ tc ∈ tcs, 0 < tc.1 → 0 ≤ tc.2)
    (hex : ∃ tc ∈ tcs, 0 < tc.1 ∧ 0 < tc.2)
    (r1 r2 : ℝ) (h1 : -1 < r1) (h12 : r1 < r2) :
    npv Real.rpow r2 tcs < npv Real.rpow r1 tcs := by
  induction tcs with
  | nil => obtain ⟨tc, hm, _⟩ := hex; simp at hm
  | cons tc l ih =>
    rw [npv_cons, npv_cons]
    have htl : ∀ x ∈ l, 0 ≤ x.1 := fun x hx => ht x (by simp [hx])
    have hcl : ∀ x ∈ l, 0 < x.1 → 0 ≤ x.2 := fun x hx => hc x (by simp [hx])
    obtain ⟨w, hw, hwt, hwc⟩ := hex
    rcases List.mem_cons.mp hw with rfl | hwl
    · have hh := term_strictAnti w.1 w.2 (1 + r1) (1 + r2) hwt hwc (by linarith) (by linarith)
      have ht' := npv_antitone_of_investment l htl hcl r1 r2 h1 h12.le
      linarith
    · have hh := term_antitone tc.1 tc.2 (1 + r1) (1 + r2) (ht tc (by simp)) (hc tc (by simp))
        (by linarith) (by linarith)
      have ht' := ih htl hcl ⟨w, hwl, hwt, hwc⟩
      linarith

/-- non-vacuity: the example investment meets the hypotheses. -/
example : npv Real.rpow (1 / 10) exFlows < npv Real.rpow 0 exFlows :=
  npv_strictAnti_of_investment exFlows exFlows_times exFlows_signs exFlows_inflow 0 (1 / 10)
    (by norm_num) (by norm_num)

/-- C20 `irr_unique`: an investment (hypotheses of `npv_strictAnti_of_investment`) has AT MOST ONE internal
rate of return in `(-1, ∞)`. -/
theorem irr_unique (tcs : List (ℝ × ℝ))
    (ht : ∀ tc ∈ tcs, 0 ≤ tc.1) (hc : ∀ tc ∈ tcs, 0 < tc.1 → 0 ≤ tc.2)
    (hex : ∃ tc ∈ tcs, 0 < tc.1 ∧ 0 < tc.2)
    (r1 r2 : ℝ) (h1 : -1 < r1) (h2 : -1 < r2)
    (hz1 : npv Real.rpow r1 tcs = 0) (hz2 : npv Real.rpow r2 tcs = 0) : r1 = r2 := by
  rcases lt_trichotomy r1 r2 with h | h | h
  · have := npv_strictAnti_of_investment tcs ht hc hex r1 r2 h1 h; linarith
  · exact h
  · have := npv_strictAnti_of_investment tcs ht hc hex r2 r1 h2 h; linarith

/-- non-vacuity: `[(0, -100), (1, 110)]` meets the hypotheses and HAS an IRR (10 %), which is therefore the
only one. -/
example : ∀ r : ℝ, -1 < r → npv Real.rpow r [((0:ℝ), (-100:ℝ)), (1, 110)] = 0 → r = 1 / 10 := by
  intro r hr h0
  have hz : npv Real.rpow (1 / 10) [((0:ℝ), (-100:ℝ)), (1, 110)] = 0 := by
    rw [npv_eq_sum_div]; norm_num
  refine irr_unique _ ?_ ?_ ⟨(1, 110), by simp, by norm_num, by norm_num⟩ r (1 / 10) hr (by norm_num) h0 hz
  · intro tc h; simp only [List.mem_cons, List.not_mem_nil, or_false] at h
    rcases h with rfl | rfl <;> norm_num
  · intro tc h; simp only [List.mem_cons, List.not_mem_nil, or_false] at h
    rcases h with rfl | rfl <;> norm_num

/-- C20 `npv_linear`: scaling every cash flow by `k` scales `npv` by `k` (every rate). -/
theorem npv_linear (irr k : ℝ) (tcs : List (ℝ × ℝ)) :
    npv Real.rpow irr (tcs.map (fun tc => (tc.1, k * tc.2))) = k * npv Real.rpow irr tcs := by
  induction tcs with
  | nil => simp [npv_nil]
  | cons tc l ih => rw [List.map_cons, npv_cons, npv_cons, ih]; ring

/-- C20 `npv_append`: `npv` of a concatenation is the sum of the `npv`s (every rate). -/
theorem npv_append (irr : ℝ) (l1 l2 : List (ℝ × ℝ)) :
    npv Real.rpow irr (l1 ++ l2) = npv Real.rpow irr l1 + npv Real.rpow irr l2 := by
  simp [npv_eq_sum_div]

/-- C20 `npv_zero_rate`: at a zero rate `npv` is the plain sum of the cash flows (any times). -/
theorem npv_zero_rate (tcs : List (ℝ × ℝ)) :
    npv Real.rpow 0 tcs = (tcs.map (·.2)).sum := by
  rw [npv_eq_sum_div]; simp

/-- instance -/
example : npv Real.rpow 0 exFlows = 20 := by
  rw [npv_zero_rate]; norm_num [exFlows]

/-! ## Thomas: edge cases and uniqueness -/

/-- `==` on `ℝ` is decidable equality. -/
theorem beq_zero_false {x : ℝ} (h : x ≠ 0) : (x == 0) = false := by
  rw [beq_eq_false_iff_ne]; exact h

/-- C20 `thomas_n1`: a 1×1 system `b·x = r` with `b ≠ 0` returns `x = r / b`, and that solves it. -/
theorem thomas_n1 (row : Row ℝ) (hb : row.b ≠ 0) :
    thomas [row] = some [row.r / row.b] ∧ row.b * (row.r / row.b) = row.r := by
  refine ⟨by simp [thomas, thomasAux, beq_zero_false hb], ?_⟩
  field_simp

/-- 1×1 with `b = 0`: the singular matrix is reported (`none` = ValueError). -/
theorem thomas_n1_singular (row : Row ℝ) (hb : row.b = 0) : thomas [row] = none := by
  simp [thomas, hb]

/-- instance -/
example : thomas [(⟨0, 2, 0, 6⟩ : Row ℝ)] = some [3] := by
  have := (thomas_n1 (⟨0, 2, 0, 6⟩ : Row ℝ) (by norm_num)).1
  rw [this]; norm_num

/-- C20 `thomas_n2`: for a 2×2 system with `b1 ≠ 0` and determinant `b1·b2 − a2·c1 ≠ 0` the routine returns
Cramer's solution.  (`a1` and `c2` are outside the matrix and ignored.) -/
theorem thomas_n2 (a1 b1 c1 r1 a2 b2 c2 r2 : ℝ) (hb1 : b1 ≠ 0) (hdet : b1 * b2 - a2 * c1 ≠ 0) :
    thomas [⟨a1, b1, c1, r1⟩, ⟨a2, b2, c2, r2⟩] =
      some [(r1 * b2 - c1 * r2) / (b1 * b2 - a2 * c1), (b1 * r2 - a2 * r1) / (b1 * b2 - a2 * c1)] := by
  have hp : b2 - a2 * (c1 / b1) ≠ 0 := by
    intro h; apply hdet; field_simp at h; linarith
  simp only [thomas, thomasAux, beq_zero_false hb1, beq_zero_false hp, Bool.false_eq_true, if_false,
    List.headD_cons, Option.some.injEq, List.cons.injEq, and_true]
  have hp' : b2 - a2 * (c1 / b1) = (b1 * b2 - a2 * c1) / b1 := by field_simp
  rw [hp']
  obtain ⟨D, hD⟩ : ∃ D, D = b1 * b2 - a2 * c1 := ⟨_, rfl⟩
  rw [← hD] at hdet ⊢
  constructor
  · field_simp; rw [hD]; ring
  · field_simp

/-- 2×2 with `b1 ≠ 0` and zero determinant: the singular matrix is reported (`none` = ValueError). -/
theorem thomas_n2_singular (a1 b1 c1 r1 a2 b2 c2 r2 : ℝ) (hb1 : b1 ≠ 0) (hdet : b1 * b2 - a2 * c1 = 0) :
    thomas [⟨a1, b1, c1, r1⟩, ⟨a2, b2, c2, r2⟩] = none := by
  have hp : b2 - a2 * (c1 / b1) = 0 := by
    field_simp; linarith
  simp [thomas, thomasAux, beq_zero_false hb1, hp]

/-- instances: `[[2,1],[1,3]] x = [3,4]` gives `x = [1,1]`; `[[1,2],[2,4]]` is singular. -/
example : thomas [(⟨0, 2, 1, 3⟩ : Row ℝ), ⟨1, 3, 0, 4⟩] = some [1, 1] := by
  rw [thomas_n2 _ _ _ _ _ _ _ _ (by norm_num) (by norm_num)]; norm_num

example : thomas [(⟨0, 1, 2, 3⟩ : Row ℝ), ⟨2, 4, 0, 4⟩] = none :=
  thomas_n2_singular _ _ _ _ _ _ _ _ (by norm_num) (by norm_num)

/-- Uniqueness invariant mirroring `thomasAux_correct`: if the elimination from row `j` on returns `xs`, then
ANY vector `y_{j-1} :: y_j :: …` of the right length that satisfies the reduced previous equation
`bet·y_{j-1} + cprev·y_j = bet·uf` and every original equation of rows `j, j+1, …` IS `xs`. -/
theorem thomasAux_unique (rows : List (Row ℝ)) (bet uf cprev : ℝ) (hb : bet ≠ 0) (xs : List ℝ)
    (h : thomasAux bet uf cprev rows = some xs) (y0 : ℝ) (yrest : List ℝ)
    (hlen : yrest.length = rows.length)
    (hred : bet * y0 + cprev * yrest.headD 0 = bet * uf)
    (hmul : triMulAux (some y0) rows yrest = rows.map (·.r)) :
    y0 :: yrest = xs := by
  induction rows generalizing bet uf cprev xs y0 yrest with
  | nil =>
    simp [thomasAux] at h
    subst h
    have : yrest = [] := by simpa using hlen
    subst this
    simp only [List.headD_nil, mul_zero, add_zero] at hred
    have := mul_left_cancel₀ hb hred
    simp [this]
  | cons row rest' ih =>
    unfold thomasAux at h
    simp only at h
    split at h
    · simp at h
    · rename_i hbet
      have hbet : row.b - row.a * (cprev / bet) ≠ 0 := by simpa using hbet
      split at h
      · simp at h
      · rename_i ys hys
        simp at h
        subst h
        cases yrest with
        | nil => simp at hlen
        | cons y1 yrest' =>
          simp only [List.length_cons, Nat.add_right_cancel_iff] at hlen
          simp only [List.headD_cons] at hred
          have hy0 : y0 = uf - cprev / bet * y1 := by
            field_simp; linarith
          have hmulb : (row.b - row.a * (cprev / bet)) * ((row.r - row.a * uf) / (row.b - row.a * (cprev / bet)))
              = row.r - row.a * uf := by rw [mul_comm, div_mul_cancel₀ _ hbet]
          have key : y1 :: yrest' = ys := by
            apply ih _ _ _ hbet ys hys y1 yrest' hlen
            · rw [hmulb]
              cases yrest' with
              | nil =>
                simp only [triMulAux, List.map_cons, List.cons.injEq] at hmul
                simp only [List.headD_nil, mul_zero, add_zero]
                rw [hy0] at hmul
                linarith [hmul.1]
              | cons y2 yr =>
                simp only [triMulAux, List.map_cons, List.cons.injEq] at hmul
                simp only [List.headD_cons]
                rw [hy0] at hmul
                linarith [hmul.1]
            · cases yrest' with
              | nil =>
                have : rest' = [] := by
                  cases rest' with
                  | nil => rfl
                  | cons _ _ => simp at hlen
                subst this
                simp [triMulAux]
              | cons y2 yr =>
                simp only [triMulAux, List.map_cons, List.cons.injEq] at hmul
                exact hmul.2
          subst key
          simp [hy0]

/-- C20 `thomas_solution_unique` (the inverse relation): whenever the routine returns `xs`, every vector `ys` of
length `n` with `A·ys = r` equals `xs` — the returned vector is THE solution (with
`thomas_solves_tridiagonal`: exists and is unique), so a returning run certifies that `A` is injective. -/
theorem thomas_solution_unique (rows : List (Row ℝ)) (xs ys : List ℝ) (h : thomas rows = some xs)
    (hlen : ys.length = rows.length) (hmul : triMul rows ys = rows.map (·.r)) : ys = xs := by
  cases rows with
  | nil =>
    simp [thomas] at h; subst h
    simpa using hlen
  | cons r0 rest =>
    simp only [thomas] at h
    split at h
    · simp at h
    · rename_i hb0
      have hb0 : r0.b ≠ 0 := by simpa using hb0
      cases ys with
      | nil => simp at hlen
      | cons y0 yrest =>
        simp only [List.length_cons, Nat.add_right_cancel_iff] at hlen
        have hmulb : r0.b * (r0.r / r0.b) = r0.r := by rw [mul_comm, div_mul_cancel₀ _ hb0]
        unfold triMul at hmul
        apply thomasAux_unique rest _ _ _ hb0 xs h y0 yrest hlen
        · rw [hmulb]
          cases yrest with
          | nil =>
            simp only [triMulAux, List.map_cons, List.cons.injEq] at hmul
            simp only [List.headD_nil, mul_zero, add_zero]
            exact hmul.1
          | cons y1 yr =>
            simp only [triMulAux, List.map_cons, List.cons.injEq] at hmul
            simp only [List.headD_cons]
            exact hmul.1
        · cases yrest with
          | nil =>
            have : rest = [] := by
              cases rest with
              | nil => rfl
              | cons _ _ => simp at hlen
            subst this
            simp [triMulAux]
          | cons y1 yr =>
            simp only [triMulAux, List.map_cons, List.cons.injEq] at hmul
            exact hmul.2

/-- non-vacuity: for `[[2,1],[1,3]] x = [3,4]` the routine returns, so `[1,1]` is the only solution. -/
example (ys : List ℝ) (hl : ys.length = 2)
    (hm : triMul [(⟨0, 2, 1, 3⟩ : Row ℝ), ⟨1, 3, 0, 4⟩] ys = [3, 4]) : ys = [1, 1] := by
  have h : thomas [(⟨0, 2, 1, 3⟩ : Row ℝ), ⟨1, 3, 0, 4⟩] = some [1, 1] := by
    rw [thomas_n2 _ _ _ _ _ _ _ _ (by norm_num) (by norm_num)]; norm_num
  exact thomas_solution_unique _ _ ys h (by simpa using hl) (by simpa using hm)

/-- Elimination from row `j` on is homogeneous of degree one in (`uf`, the right-hand sides). -/
theorem thomasAux_linear_rhs (k : ℝ) (rows : List (Row ℝ)) (bet uf cprev : ℝ) :
    thomasAux bet (k * uf) cprev (rows.map (fun row => ({ row with r := k * row.r } : Row ℝ)))
      = (thomasAux bet uf cprev rows).map (List.map (k * ·)) := by
  induction rows generalizing bet uf cprev with
  | nil => simp [thomasAux]
  | cons row rest ih =>
    simp only [List.map_cons, thomasAux]
    by_cases hz : row.b - row.a * (cprev / bet) = 0
    · simp [hz]
    · have hz' : ((row.b - row.a * (cprev / bet)) == 0) = false := by
        rw [beq_eq_false_iff_ne]; exact hz
      simp only [hz', Bool.false_eq_true, if_false]
      have e : (k * row.r - row.a * (k * uf)) / (row.b - row.a * (cprev / bet))
          = k * ((row.r - row.a * uf) / (row.b - row.a * (cprev / bet))) := by ring
      rw [e, ih]
      cases thomasAux (row.b - row.a * (cprev / bet))
          ((row.r - row.a * uf) / (row.b - row.a * (cprev / bet))) row.c rest with
      | none => simp
      | some xs =>
        cases xs with
        | nil => simp
        | cons x xs => simp; ring

/-- C20 `thomas_linear_rhs`: scaling the right-hand side by `k` scales the returned solution by `k`, and the
failure exits (`none`) do not depend on the right-hand side at all. -/
theorem thomas_linear_rhs (k : ℝ) (rows : List (Row ℝ)) :
    thomas (rows.map (fun row => ({ row with r := k * row.r } : Row ℝ)))
      = (thomas rows).map (List.map (k * ·)) := by
  cases rows with
  | nil => simp [thomas]
  | cons r0 rest =>
    simp only [List.map_cons, thomas]
    by_cases hz : r0.b = 0
    · simp [hz]
    · have hz' : (r0.b == 0) = false := by rw [beq_eq_false_iff_ne]; exact hz
      simp only [hz', Bool.false_eq_true, if_false]
      rw [show k * r0.r / r0.b = k * (r0.r / r0.b) by ring, thomasAux_linear_rhs]

/-! ## Cholesky -/

/-- C20 `cholesky_n1`: the 1×1 factor is `[[√a]]`. -/
theorem cholesky_n1 (a : ℝ) : cholesky Real.sqrt [[a]] = [[Real.sqrt a]] := by
  simp [cholesky, cholRow, dotPrefix, sumFrom]

/-- 1×1: `L·Lᵀ = A` for `a ≥ 0`. -/
theorem cholesky_n1_LLt (a : ℝ) (ha : 0 ≤ a) : Real.sqrt a * Real.sqrt a = a :=
  Real.mul_self_sqrt ha


/-- instance -/
example : cholesky Real.sqrt [[(4:ℝ)]] = [[Real.sqrt 4]] ∧ Real.sqrt 4 * Real.sqrt 4 = (4:ℝ) :=
  ⟨cholesky_n1 4, cholesky_n1_LLt 4 (by norm_num)⟩

/-- explicit value, n = 2, exactly as the recurrence computes it (the upper entry `u` is never read). -/
theorem cholesky_n2 (a b c u : ℝ) :
    cholesky Real.sqrt [[a, u], [b, c]] =
      [[Real.sqrt a], [b / Real.sqrt a, Real.sqrt (c - b / Real.sqrt a * (b / Real.sqrt a))]] := by
  simp [cholesky, cholRow, dotPrefix, sumFrom, List.range_succ]

/-- `(x/√a)·(y/√a) = x·y/a` for `a ≥ 0`. -/
theorem div_sqrt_mul_div_sqrt (x y a : ℝ) (ha : 0 ≤ a) :
    x / Real.sqrt a * (y / Real.sqrt a) = x * y / a := by
  rw [div_mul_div_comm, Real.mul_self_sqrt ha]

/-- C20 `cholesky_n2_LLt`: for `[[a, ·], [b, c]]` with positive pivots (`a > 0`, `c − b²/a ≥ 0`) the model returns
the lower-triangular `L = [[√a], [b/√a, √(c − b²/a)]]` and `L·Lᵀ = A` (three equations). -/
theorem cholesky_n2_LLt (a b c u : ℝ) (ha : 0 < a) (hp : 0 ≤ c - b * b / a) :
    ∃ l11 l21 l22 : ℝ,
      l11 = Real.sqrt a ∧ l21 = b / Real.sqrt a ∧ l22 = Real.sqrt (c - b * b / a) ∧
      cholesky Real.sqrt [[a, u], [b, c]] = [[l11], [l21, l22]] ∧
      l11 * l11 = a ∧ l21 * l11 = b ∧ l21 * l21 + l22 * l22 = c := by
  have n11 : Real.sqrt a ≠ 0 := (Real.sqrt_pos.mpr ha).ne'
  refine ⟨_, _, _, rfl, rfl, rfl, ?_, Real.mul_self_sqrt ha.le, div_mul_cancel₀ _ n11, ?_⟩
  · rw [cholesky_n2, div_sqrt_mul_div_sqrt _ _ _ ha.le]
  · rw [div_sqrt_mul_div_sqrt _ _ _ ha.le, Real.mul_self_sqrt hp]; ring


/-- non-vacuity: `[[4,2],[2,5]]`. -/
example : ∃ l11 l21 l22 : ℝ, cholesky Real.sqrt [[4, 2], [2, 5]] = [[l11], [l21, l22]] ∧
    l11 * l11 = 4 ∧ l21 * l11 = 2 ∧ l21 * l21 + l22 * l22 = 5 := by
  obtain ⟨l11, l21, l22, -, -, -, h⟩ := cholesky_n2_LLt 4 2 5 2 (by norm_num) (by norm_num)
  exact ⟨l11, l21, l22, h⟩

/-- explicit value, n = 3, exactly as the recurrence computes it (the upper entries `u..` are never read). -/
theorem cholesky_n3 (a11 a21 a22 a31 a32 a33 u12 u13 u23 : ℝ) :
    cholesky Real.sqrt [[a11, u12, u13], [a21, a22, u23], [a31, a32, a33]] =
      [[Real.sqrt a11],
       [a21 / Real.sqrt a11, Real.sqrt (a22 - a21 / Real.sqrt a11 * (a21 / Real.sqrt a11))],
       [a31 / Real.sqrt a11,
        (a32 - a31 / Real.sqrt a11 * (a21 / Real.sqrt a11)) /
          Real.sqrt (a22 - a21 / Real.sqrt a11 * (a21 / Real.sqrt a11)),
        Real.sqrt (a33 - (a31 / Real.sqrt a11 * (a31 / Real.sqrt a11) +
          (a32 - a31 / Real.sqrt a11 * (a21 / Real.sqrt a11)) /
            Real.sqrt (a22 - a21 / Real.sqrt a11 * (a21 / Real.sqrt a11)) *
          ((a32 - a31 / Real.sqrt a11 * (a21 / Real.sqrt a11)) /
            Real.sqrt (a22 - a21 / Real.sqrt a11 * (a21 / Real.sqrt a11)))))]] := by
  simp [cholesky, cholRow, dotPrefix, sumFrom, List.range_succ]

/-- C20 `cholesky_n3_LLt`: 3×3, pivots stated on the entries of `L` as the recurrence produces them.  If the
three quantities under the square roots are `> 0, > 0, ≥ 0`, the model returns the lower-triangular `L`
(rows of lengths 1, 2, 3) and all six equations of `L·Lᵀ = A` hold. -/
theorem cholesky_n3_LLt (a11 a21 a22 a31 a32 a33 u12 u13 u23 : ℝ)
    (l11 l21 l22 l31 l32 l33 : ℝ)
    (h11 : l11 = Real.sqrt a11) (h21 : l21 = a21 / l11)
    (h22 : l22 = Real.sqrt (a22 - l21 * l21)) (h31 : l31 = a31 / l11)
    (h32 : l32 = (a32 - l31 * l21) / l22)
    (h33 : l33 = Real.sqrt (a33 - (l31 * l31 + l32 * l32)))
    (p1 : 0 < a11) (p2 : 0 < a22 - l21 * l21) (p3 : 0 ≤ a33 - (l31 * l31 + l32 * l32)) :
    cholesky Real.sqrt [[a11, u12, u13], [a21, a22, u23], [a31, a32, a33]] =
        [[l11], [l21, l22], [l31, l32, l33]] ∧
      l11 * l11 = a11 ∧
      l21 * l11 = a21 ∧ l21 * l21 + l22 * l22 = a22 ∧
      l31 * l11 = a31 ∧ l31 * l21 + l32 * l22 = a32 ∧ l31 * l31 + l32 * l32 + l33 * l33 = a33 := by
  have e11 : l11 * l11 = a11 := by rw [h11]; exact Real.mul_self_sqrt p1.le
  have n11 : l11 ≠ 0 := by rw [h11]; exact (Real.sqrt_pos.mpr p1).ne'
  have e22 : l22 * l22 = a22 - l21 * l21 := by rw [h22]; exact Real.mul_self_sqrt p2.le
  have n22 : l22 ≠ 0 := by rw [h22]; exact (Real.sqrt_pos.mpr p2).ne'
  have e33 : l33 * l33 = a33 - (l31 * l31 + l32 * l32) := by rw [h33]; exact Real.mul_self_sqrt p3
  refine ⟨?_, e11, ?_, ?_, ?_, ?_, ?_⟩
  · rw [cholesky_n3]
    subst h11; subst h21; subst h22; subst h31; subst h32; subst h33; rfl
  · rw [h21, div_mul_cancel₀ _ n11]
  · linarith
  · rw [h31, div_mul_cancel₀ _ n11]
  · rw [h32, div_mul_cancel₀ _ n22]; ring
  · linarith

/-- C20 `cholesky_n3_LLt_of_pivots`: the same with the pivots stated on the entries of `A` only:
`d1 = a11 > 0`, `d2 = a22 − a21²/a11 > 0`, `d3 = a33 − a31²/a11 − (a32 − a31·a21/a11)²/d2 ≥ 0`. -/
theorem cholesky_n3_LLt_of_pivots (a11 a21 a22 a31 a32 a33 u12 u13 u23 : ℝ)
    (p1 : 0 < a11) (p2 : 0 < a22 - a21 * a21 / a11)
    (p3 : 0 ≤ a33 - a31 * a31 / a11
      - (a32 - a31 * a21 / a11) * (a32 - a31 * a21 / a11) / (a22 - a21 * a21 / a11)) :
    ∃ l11 l21 l22 l31 l32 l33 : ℝ,
      cholesky Real.sqrt [[a11, u12, u13], [a21, a22, u23], [a31, a32, a33]] =
        [[l11], [l21, l22], [l31, l32, l33]] ∧
      l11 * l11 = a11 ∧
      l21 * l11 = a21 ∧ l21 * l21 + l22 * l22 = a22 ∧
      l31 * l11 = a31 ∧ l31 * l21 + l32 * l22 = a32 ∧ l31 * l31 + l32 * l32 + l33 * l33 = a33 := by
  have k1 := div_sqrt_mul_div_sqrt a21 a21 a11 p1.le
  have k2 := div_sqrt_mul_div_sqrt a31 a21 a11 p1.le
  have k3 := div_sqrt_mul_div_sqrt a31 a31 a11 p1.le
  have q2 : 0 < a22 - a21 / Real.sqrt a11 * (a21 / Real.sqrt a11) := by rw [k1]; exact p2
  refine ⟨_, _, _, _, _, _, cholesky_n3_LLt a11 a21 a22 a31 a32 a33 u12 u13 u23
    _ _ _ _ _ _ rfl rfl rfl rfl rfl rfl p1 q2 ?_⟩
  rw [div_sqrt_mul_div_sqrt _ _ _ q2.le, k1, k2, k3]
  linarith

/-- non-vacuity: `[[4,2,2],[2,5,3],[2,3,6]]` has pivots 4, 4, 4. -/
example : ∃ l11 l21 l22 l31 l32 l33 : ℝ,
    cholesky Real.sqrt [[4, 2, 2], [2, 5, 3], [2, 3, 6]] = [[l11], [l21, l22], [l31, l32, l33]] ∧
      l11 * l11 = 4 ∧ l21 * l11 = 2 ∧ l21 * l21 + l22 * l22 = 5 ∧
      l31 * l11 = 2 ∧ l31 * l21 + l32 * l22 = 3 ∧ l31 * l31 + l32 * l32 + l33 * l33 = 6 :=
  cholesky_n3_LLt_of_pivots 4 2 5 2 3 6 2 2 3 (by norm_num) (by norm_num) (by norm_num)

/-- A loop that appends one entry per pass adds as many entries as passes. -/
theorem foldl_snoc_length {β : Type} (g : List ℝ → β → ℝ) (l : List β) (acc : List ℝ) :
    (l.foldl (fun acc j => acc ++ [g acc j]) acc).length = acc.length + l.length := by
  induction l generalizing acc with
  | nil => simp
  | cons j l ih => simp only [List.foldl_cons]; rw [ih]; simp; omega

/-- Row `i` of the factor has `i + 1` entries. -/
theorem cholRow_length (sq : ℝ → ℝ) (rhoRow : List ℝ) (prev : List (List ℝ)) :
    (cholRow sq rhoRow prev).length = prev.length + 1 := by
  unfold cholRow
  simp only [List.length_append, List.length_cons, List.length_nil]
  rw [foldl_snoc_length (fun acc j => ((rhoRow.getD j 0) - dotPrefix acc (prev.getD j [])) / ((prev.getD j []).getD j 0))]
  simp

/-- Row count of the outer loop, from any accumulator. -/
theorem cholesky_foldl_length (sq : ℝ → ℝ) (rho acc : List (List ℝ)) :
    (rho.foldl (fun prev rhoRow => prev ++ [cholRow sq rhoRow prev]) acc).length
      = acc.length + rho.length := by
  induction rho generalizing acc with
  | nil => simp
  | cons r l ih => simp only [List.foldl_cons]; rw [ih]; simp; omega

/-- C20 `cholesky_length`: the factor has as many rows as `rho`, for EVERY `rho` (ragged or not) and any `sqrt`. -/
theorem cholesky_length (sq : ℝ → ℝ) (rho : List (List ℝ)) :
    (cholesky sq rho).length = rho.length := by
  unfold cholesky; rw [cholesky_foldl_length]; simp

/-- Row-length invariant of the outer loop, from any accumulator that satisfies it. -/
theorem cholesky_foldl_rows (sq : ℝ → ℝ) (rho acc : List (List ℝ))
    (hacc : ∀ i, i < acc.length → (acc.getD i []).length = i + 1) (i : ℕ)
    (hi : i < acc.length + rho.length) :
    ((rho.foldl (fun prev rhoRow => prev ++ [cholRow sq rhoRow prev]) acc).getD i []).length = i + 1 := by
  induction rho generalizing acc with
  | nil => simpa using hacc i (by simpa using hi)
  | cons r l ih =>
    simp only [List.foldl_cons]
    apply ih
    · intro k hk
      simp only [List.length_append, List.length_cons, List.length_nil] at hk
      by_cases hk' : k < acc.length
      · have := hacc k hk'
        simp only [List.getD_eq_getElem?_getD] at this ⊢
        rw [List.getElem?_append_left hk']; exact this
      · have : k = acc.length := by omega
        subst this
        simp [List.getD_eq_getElem?_getD, cholRow_length]
    · simp only [List.length_append, List.length_cons, List.length_nil] at hi ⊢; omega

/-- instance -/
example : (cholesky Real.sqrt [[1, 0.5], [0.5, 1]]).length = 2 := by rw [cholesky_length]; rfl

/-- C20 `cholesky_row_length`: row `i` of the factor has exactly `i + 1` entries — the result is lower-triangular
in shape, for every `rho` and any `sqrt`. -/
theorem cholesky_row_length (sq : ℝ → ℝ) (rho : List (List ℝ)) (i : ℕ) (hi : i < rho.length) :
    ((cholesky sq rho).getD i []).length = i + 1 := by
  unfold cholesky
  exact cholesky_foldl_rows sq rho [] (by simp) i (by simpa using hi)

/-- instance -/
example : ((cholesky Real.sqrt [[1, 0.5], [0.5, 1]]).getD 1 []).length = 2 :=
  cholesky_row_length _ _ 1 (by simp)

end FinVerif.Props.C20
