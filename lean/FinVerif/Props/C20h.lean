/-
  C20 (part h) — `financepy/utils/math.py:phi2` (Drezner–Wesolowsky bivariate normal CDF) and `M`:
  branch structure and exact algebraic identities of the CODE, over ℝ, with `exp`, `sqrt`, `N` ABSTRACT
  (arbitrary functions ℝ → ℝ) and — unless stated otherwise — arbitrary literals `c : Phi2Consts ℝ`.

  The model (`FinVerif/Model/C20Phi2G.lean`) is one definition used at `Float` (`phi2GF`, correspondence
  with the code) and at `ℝ` (here).  Nothing here says that the quadrature approximates the bivariate
  normal integral; what is proved is what the `r < 0` / `r2 != 0` / `min(h1, h2)` control flow computes
  from whatever `N`, `exp`, `sqrt` it is given.
-/
import FinVerif.Model.C20Phi2G
import Mathlib.Data.Real.Basic
import Mathlib.Tactic.Linarith
import Mathlib.Tactic.Ring
import Mathlib.Tactic.NormNum

namespace FinVerif.Props.C20
open FinVerif FinVerif.Model.C20

noncomputable section

/-! ## Named pieces of the control flow -/

/-- The branch condition of the source: `np.abs(r) < 0.7 or np.abs(h1) > 35 or np.abs(h2) > 35`. -/
def Phi2Low (c : Phi2Consts ℝ) (h1 hk r : ℝ) : Prop :=
  absG r < c.c07 ∨ absG h1 > c.c35 ∨ absG hk > c.c35

/-- The five-point sum of the low-correlation branch (the first `for` loop, started at `bv = 0`). -/
def phi2LowSum (c : Phi2Consts ℝ) (exp sqrt : ℝ → ℝ) (h1 h2 r : ℝ) : ℝ :=
  (List.zip c.x c.w).foldl (fun bv (xw : ℝ × ℝ) =>
    let r1 := r * xw.1
    let rr2 := 1 - r1 * r1
    bv + xw.2 * exp ((r1 * (h1 * h2) - (h1 * h1 + h2 * h2) * c.half) / rr2) / sqrt rr2) 0

/-- The folded sum of the high-correlation branch when the guard `r2 != 0` is TRUE: the closed-form
start value followed by the second `for` loop.  `h2` is the (possibly negated) second argument and `r2`
the value `1 - r*r` on entry (inside the loop the source overwrites `r2`). -/
def phi2HighSum (c : Phi2Consts ℝ) (exp sqrt N : ℝ → ℝ) (h1 h2 r2 : ℝ) : ℝ :=
  let r3 := sqrt r2
  let h3 := h1 * h2
  let h7 := exp (-h3 * c.half)
  let h6 := absG (h1 - h2)
  let h5 := h6 * h6 * c.half
  let h6 := h6 / r3
  let aa := c.half - h3 * c.c0125
  let ab := c.three - c.two * aa * h5
  let bv := c.k13298076 * h6 * ab * N (-h6) - exp (-h5 / r2) * (ab + aa * r2) * c.k053051647
  (List.zip c.x c.w).foldl (fun bv (xw : ℝ × ℝ) =>
    let r1 := r3 * xw.1
    let rr := r1 * r1
    let r2 := sqrt (1 - rr)
    bv - xw.2 * exp (-h5 / rr) * (exp (-h3 / (1 + r2)) / r2 / h7 - 1 - aa * rr)) bv

/-- `bv` after the guarded block `if r2 != 0.0: …` (it stays at its initial `0.0` when the guard fails). -/
def phi2HighBv (c : Phi2Consts ℝ) (exp sqrt N : ℝ → ℝ) (h1 h2 r2 : ℝ) : ℝ :=
  if r2 != 0 then phi2HighSum c exp sqrt N h1 h2 r2 else 0

theorem phi2_absG_eq_abs (x : ℝ) : absG x = |x| := by
  unfold absG
  split
  · rw [abs_of_neg (by assumption)]
  · rw [abs_of_nonneg (by linarith)]

theorem phi2_absG_neg (x : ℝ) : absG (-x) = absG x := by
  rw [phi2_absG_eq_abs, phi2_absG_eq_abs, abs_neg]

/-- The branch condition in terms of `|·|`: the HIGH branch is `0.7 ≤ |r| ∧ |h1| ≤ 35 ∧ |hk| ≤ 35`. -/
theorem not_phi2Low_iff (c : Phi2Consts ℝ) (h1 hk r : ℝ) :
    ¬ Phi2Low c h1 hk r ↔ c.c07 ≤ |r| ∧ |h1| ≤ c.c35 ∧ |hk| ≤ c.c35 := by
  unfold Phi2Low
  simp only [phi2_absG_eq_abs, not_or, not_lt, gt_iff_lt]

theorem phi2Low_neg_neg (c : Phi2Consts ℝ) (h1 hk r : ℝ) :
    Phi2Low c h1 (-hk) (-r) ↔ Phi2Low c h1 hk r := by
  unfold Phi2Low
  rw [phi2_absG_neg, phi2_absG_neg]

theorem phi2Low_swap (c : Phi2Consts ℝ) (h1 hk r : ℝ) :
    Phi2Low c hk h1 r ↔ Phi2Low c h1 hk r := by
  unfold Phi2Low
  constructor <;> (rintro (h | h | h); exacts [.inl h, .inr (.inr h), .inr (.inl h)])

theorem phi2HighBv_of_ne (c : Phi2Consts ℝ) (exp sqrt N : ℝ → ℝ) (h1 h2 : ℝ) {r2 : ℝ} (h : r2 ≠ 0) :
    phi2HighBv c exp sqrt N h1 h2 r2 = phi2HighSum c exp sqrt N h1 h2 r2 := by
  unfold phi2HighBv
  rw [if_pos (by simpa using h)]

/-- Guard false: `bv` keeps its initial value `0.0`, whatever `exp`, `sqrt`, `N` are. -/
theorem phi2HighBv_zero (c : Phi2Consts ℝ) (exp sqrt N : ℝ → ℝ) (h1 h2 : ℝ) :
    phi2HighBv c exp sqrt N h1 h2 0 = 0 := by
  unfold phi2HighBv
  simp

/-! ## (c) Shape lemmas: what each branch returns -/

/-- Low branch (`|r| < 0.7` or `|h1| > 35` or `|hk| > 35`): `N(h1)·N(hk) + r·Σ`. -/
theorem phi2G_low_shape (c : Phi2Consts ℝ) (exp sqrt N : ℝ → ℝ) (h1 hk r : ℝ)
    (hlow : Phi2Low c h1 hk r) :
    phi2G c exp sqrt N h1 hk r = N h1 * N hk + r * phi2LowSum c exp sqrt h1 hk r := by
  unfold Phi2Low at hlow
  unfold phi2G
  simp only
  rw [if_pos hlow]
  rfl

/-- High branch, all cases at once: `h2` is `-hk` exactly when `r < 0`; the `N(hk)` of the last line
uses the ORIGINAL `hk`. -/
theorem phi2G_high_shape (c : Phi2Consts ℝ) (exp sqrt N : ℝ → ℝ) (h1 hk r : ℝ)
    (hhigh : ¬ Phi2Low c h1 hk r) :
    phi2G c exp sqrt N h1 hk r =
      (let h2 := if r < 0 then -hk else hk
       let r2 := 1 - r * r
       let r3 := sqrt r2
       let h7 := exp (-(h1 * h2) * c.half)
       let bv := phi2HighBv c exp sqrt N h1 h2 r2
       if r > 0 then bv * r3 * h7 + N (minG h1 h2)
       else if h1 < h2 then -bv * r3 * h7
       else -bv * r3 * h7 + N h1 + N hk - 1) := by
  unfold Phi2Low at hhigh
  unfold phi2G
  simp only
  rw [if_neg hhigh]
  rfl

/-- High branch, `r > 0`: `bv·r3·h7 + N(min(h1, hk))`. -/
theorem phi2G_high_pos_shape (c : Phi2Consts ℝ) (exp sqrt N : ℝ → ℝ) (h1 hk r : ℝ)
    (hhigh : ¬ Phi2Low c h1 hk r) (hr : 0 < r) :
    phi2G c exp sqrt N h1 hk r =
      phi2HighBv c exp sqrt N h1 hk (1 - r * r) * sqrt (1 - r * r) * exp (-(h1 * hk) * c.half)
        + N (minG h1 hk) := by
  rw [phi2G_high_shape c exp sqrt N h1 hk r hhigh]
  simp only
  rw [if_neg (not_lt.mpr hr.le), if_pos hr]

/-- High branch, `r > 0`, guard true (`r2 ≠ 0`): `bv·r3·h7 + N(min(h1, hk))` with `bv` the folded sum. -/
theorem phi2G_high_pos_shape_of_ne (c : Phi2Consts ℝ) (exp sqrt N : ℝ → ℝ) (h1 hk r : ℝ)
    (hhigh : ¬ Phi2Low c h1 hk r) (hr : 0 < r) (hr2 : 1 - r * r ≠ 0) :
    phi2G c exp sqrt N h1 hk r =
      phi2HighSum c exp sqrt N h1 hk (1 - r * r) * sqrt (1 - r * r) * exp (-(h1 * hk) * c.half)
        + N (minG h1 hk) := by
  rw [phi2G_high_pos_shape c exp sqrt N h1 hk r hhigh hr, phi2HighBv_of_ne _ _ _ _ _ _ hr2]

/-- High branch, `r < 0`: the second argument is negated everywhere except in the final `N(hk)`. -/
theorem phi2G_high_neg_shape (c : Phi2Consts ℝ) (exp sqrt N : ℝ → ℝ) (h1 hk r : ℝ)
    (hhigh : ¬ Phi2Low c h1 hk r) (hr : r < 0) :
    phi2G c exp sqrt N h1 hk r =
      if h1 < -hk then
        -phi2HighBv c exp sqrt N h1 (-hk) (1 - r * r) * sqrt (1 - r * r) * exp (-(h1 * -hk) * c.half)
      else
        -phi2HighBv c exp sqrt N h1 (-hk) (1 - r * r) * sqrt (1 - r * r) * exp (-(h1 * -hk) * c.half)
          + N h1 + N hk - 1 := by
  rw [phi2G_high_shape c exp sqrt N h1 hk r hhigh]
  simp only
  rw [if_pos hr, if_neg (not_lt.mpr hr.le)]

/-- Independence at `r = 0`, exactly, for every `exp`/`sqrt`/`N`: the sum is multiplied by `r`.
(`0 < c.c07` puts `r = 0` on the low branch; it holds for the source literal 0.7.) -/
theorem phi2G_rho_zero (c : Phi2Consts ℝ) (exp sqrt N : ℝ → ℝ) (h1 hk : ℝ) (hc : 0 < c.c07) :
    phi2G c exp sqrt N h1 hk 0 = N h1 * N hk := by
  have hlow : Phi2Low c h1 hk 0 := by
    left; rw [phi2_absG_eq_abs, abs_zero]; exact hc
  rw [phi2G_low_shape c exp sqrt N h1 hk 0 hlow, zero_mul, add_zero]

/-! ## (d) Symmetry on the low branch -/

theorem phi2LowSum_swap (c : Phi2Consts ℝ) (exp sqrt : ℝ → ℝ) (h1 hk r : ℝ) :
    phi2LowSum c exp sqrt hk h1 r = phi2LowSum c exp sqrt h1 hk r := by
  unfold phi2LowSum
  rw [mul_comm hk h1, add_comm (hk * hk) (h1 * h1)]

/-- On the low branch the code is symmetric in its two arguments (the branch condition itself is
symmetric, so the swapped call is on the low branch as well). -/
theorem phi2G_low_symmetric (c : Phi2Consts ℝ) (exp sqrt N : ℝ → ℝ) (h1 hk r : ℝ)
    (hlow : Phi2Low c h1 hk r) :
    phi2G c exp sqrt N hk h1 r = phi2G c exp sqrt N h1 hk r := by
  rw [phi2G_low_shape c exp sqrt N h1 hk r hlow,
    phi2G_low_shape c exp sqrt N hk h1 r ((phi2Low_swap c h1 hk r).mpr hlow),
    phi2LowSum_swap, mul_comm (N hk) (N h1)]

/-! ## (a) The reflection implemented by the `r < 0` branches -/

/-- Exact form, no hypothesis on `N`: on the high branch with `r < 0`,
`phi2(h1, hk, r) + phi2(h1, -hk, -r)` is `N(h1)` when `h1 < -hk`, and
`N(h1) + (N(hk) + N(-hk) - 1)` otherwise. -/
theorem phi2G_high_neg_reflection_exact (c : Phi2Consts ℝ) (exp sqrt N : ℝ → ℝ) (h1 hk r : ℝ)
    (hhigh : ¬ Phi2Low c h1 hk r) (hr : r < 0) :
    phi2G c exp sqrt N h1 hk r + phi2G c exp sqrt N h1 (-hk) (-r) =
      if h1 < -hk then N h1 else N h1 + (N hk + N (-hk) - 1) := by
  have hhigh' : ¬ Phi2Low c h1 (-hk) (-r) := by rwa [phi2Low_neg_neg]
  have hr' : 0 < -r := by linarith
  rw [phi2G_high_neg_shape c exp sqrt N h1 hk r hhigh hr,
    phi2G_high_pos_shape c exp sqrt N h1 (-hk) (-r) hhigh' hr', neg_mul_neg]
  by_cases hlt : h1 < -hk
  · rw [if_pos hlt, if_pos hlt]
    have hmin : minG h1 (-hk) = h1 := by
      unfold minG; rw [if_neg (not_lt.mpr hlt.le)]
    rw [hmin]; ring
  · rw [if_neg hlt, if_neg hlt]
    have hmin : N (minG h1 (-hk)) = N (-hk) := by
      unfold minG
      by_cases h : -hk < h1
      · rw [if_pos h]
      · rw [if_neg h]
        have : h1 = -hk := le_antisymm (not_lt.mp h) (not_lt.mp hlt)
        rw [this]
    rw [hmin]; ring

/-- `h1 < -hk`: the reflection holds with NO hypothesis on `N`, `exp`, `sqrt`. -/
theorem phi2G_high_neg_reflection_of_lt (c : Phi2Consts ℝ) (exp sqrt N : ℝ → ℝ) (h1 hk r : ℝ)
    (hhigh : ¬ Phi2Low c h1 hk r) (hr : r < 0) (hlt : h1 < -hk) :
    phi2G c exp sqrt N h1 hk r + phi2G c exp sqrt N h1 (-hk) (-r) = N h1 := by
  rw [phi2G_high_neg_reflection_exact c exp sqrt N h1 hk r hhigh hr, if_pos hlt]

/-- `¬ h1 < -hk`: the exact deviation from the reflection is `N(hk) + N(-hk) - 1`. -/
theorem phi2G_high_neg_reflection_of_not_lt (c : Phi2Consts ℝ) (exp sqrt N : ℝ → ℝ) (h1 hk r : ℝ)
    (hhigh : ¬ Phi2Low c h1 hk r) (hr : r < 0) (hlt : ¬ h1 < -hk) :
    phi2G c exp sqrt N h1 hk r + phi2G c exp sqrt N h1 (-hk) (-r) = N h1 + (N hk + N (-hk) - 1) := by
  rw [phi2G_high_neg_reflection_exact c exp sqrt N h1 hk r hhigh hr, if_neg hlt]

/-- Φ2(h, k, ρ) = Φ(h) − Φ2(h, −k, −ρ) as implemented: on the high branch with `r < 0`, if `N` is
symmetric AT `hk` (`N hk + N (-hk) = 1`; only this one instance is used). -/
theorem phi2G_high_neg_reflection (c : Phi2Consts ℝ) (exp sqrt N : ℝ → ℝ) (h1 hk r : ℝ)
    (hhigh : ¬ Phi2Low c h1 hk r) (hr : r < 0) (hN : N hk + N (-hk) = 1) :
    phi2G c exp sqrt N h1 hk r + phi2G c exp sqrt N h1 (-hk) (-r) = N h1 := by
  rw [phi2G_high_neg_reflection_exact c exp sqrt N h1 hk r hhigh hr]
  split
  · rfl
  · rw [hN]; ring

/-! ## (b) Perfect correlation: the guard `r2 != 0` is false -/

/-- `1 - r*r = 0`, `r > 0` (i.e. r = 1) on the high branch: exactly `N(min(h1, hk))` (the Fréchet upper
bound), for every `exp`/`sqrt`/`N` — `bv` is still `0`, so no assumption on `sqrt 0` is needed. -/
theorem phi2G_rho_one (c : Phi2Consts ℝ) (exp sqrt N : ℝ → ℝ) (h1 hk r : ℝ)
    (hhigh : ¬ Phi2Low c h1 hk r) (hr : 0 < r) (hr2 : 1 - r * r = 0) :
    phi2G c exp sqrt N h1 hk r = N (minG h1 hk) := by
  rw [phi2G_high_pos_shape c exp sqrt N h1 hk r hhigh hr, hr2, phi2HighBv_zero]
  ring

/-- `1 - r*r = 0`, `r < 0` (i.e. r = −1) on the high branch: `0` if `h1 < -hk`, else
`N(h1) + N(hk) − 1` (the Fréchet lower bound max(0, Φ(h)+Φ(k)−1) when `N` is increasing and symmetric). -/
theorem phi2G_rho_neg_one (c : Phi2Consts ℝ) (exp sqrt N : ℝ → ℝ) (h1 hk r : ℝ)
    (hhigh : ¬ Phi2Low c h1 hk r) (hr : r < 0) (hr2 : 1 - r * r = 0) :
    phi2G c exp sqrt N h1 hk r = if h1 < -hk then 0 else N h1 + N hk - 1 := by
  rw [phi2G_high_neg_shape c exp sqrt N h1 hk r hhigh hr, hr2, phi2HighBv_zero]
  split <;> ring

/-- The guard matters: WITHOUT it (`r2 = 0`, so `r3 = sqrt 0`) the block would evaluate `h6 / r3`,
`-h5 / r2`; the code returns the value above instead.  This lemma records that for `r2 = 0` the result
does not depend on `exp`, `sqrt` at all. -/
theorem phi2G_rho_one_indep (c : Phi2Consts ℝ) (exp exp' sqrt sqrt' N : ℝ → ℝ) (h1 hk r : ℝ)
    (hhigh : ¬ Phi2Low c h1 hk r) (hr0 : r ≠ 0) (hr2 : 1 - r * r = 0) :
    phi2G c exp sqrt N h1 hk r = phi2G c exp' sqrt' N h1 hk r := by
  rcases lt_or_gt_of_ne hr0 with hr | hr
  · rw [phi2G_rho_neg_one c exp sqrt N h1 hk r hhigh hr hr2,
      phi2G_rho_neg_one c exp' sqrt' N h1 hk r hhigh hr hr2]
  · rw [phi2G_rho_one c exp sqrt N h1 hk r hhigh hr hr2,
      phi2G_rho_one c exp' sqrt' N h1 hk r hhigh hr hr2]

/-! ## (e) `M` -/

theorem M_eq_phi2 (c : Phi2Consts ℝ) (exp sqrt N : ℝ → ℝ) (a b r : ℝ) :
    MG c exp sqrt N a b r = phi2G c exp sqrt N a b r := rfl

/-! ## The source literals -/

/-- The literals of the source, at `ℝ`. -/
abbrev phi2ConstsR : Phi2Consts ℝ := phi2Consts

theorem phi2ConstsR_c07 : phi2ConstsR.c07 = 7 / 10 := by
  show (0.7 : ℝ) = 7 / 10; norm_num
theorem phi2ConstsR_c35 : phi2ConstsR.c35 = 35 := by
  show (35.0 : ℝ) = 35; norm_num

/-- With the source literals the high branch is `0.7 ≤ |r| ∧ |h1| ≤ 35 ∧ |hk| ≤ 35`. -/
theorem not_phi2Low_src_iff (h1 hk r : ℝ) :
    ¬ Phi2Low phi2ConstsR h1 hk r ↔ 7 / 10 ≤ |r| ∧ |h1| ≤ 35 ∧ |hk| ≤ 35 := by
  rw [not_phi2Low_iff, phi2ConstsR_c07, phi2ConstsR_c35]

/-- Source literals: `phi2(h1, hk, 0) = N(h1)·N(hk)` for all inputs. -/
theorem phi2G_src_rho_zero (exp sqrt N : ℝ → ℝ) (h1 hk : ℝ) :
    phi2G phi2ConstsR exp sqrt N h1 hk 0 = N h1 * N hk :=
  phi2G_rho_zero _ exp sqrt N h1 hk (by rw [phi2ConstsR_c07]; norm_num)

/-- Source literals: `phi2(h1, hk, 1) = N(min(h1, hk))` for `|h1|, |hk| ≤ 35`. -/
theorem phi2G_src_rho_one (exp sqrt N : ℝ → ℝ) (h1 hk : ℝ) (h1b : |h1| ≤ 35) (hkb : |hk| ≤ 35) :
    phi2G phi2ConstsR exp sqrt N h1 hk 1 = N (minG h1 hk) :=
  phi2G_rho_one _ exp sqrt N h1 hk 1
    ((not_phi2Low_src_iff h1 hk 1).mpr ⟨by norm_num, h1b, hkb⟩) (by norm_num) (by norm_num)

/-- Source literals: `phi2(h1, hk, -1)` for `|h1|, |hk| ≤ 35`. -/
theorem phi2G_src_rho_neg_one (exp sqrt N : ℝ → ℝ) (h1 hk : ℝ) (h1b : |h1| ≤ 35) (hkb : |hk| ≤ 35) :
    phi2G phi2ConstsR exp sqrt N h1 hk (-1) = if h1 < -hk then 0 else N h1 + N hk - 1 :=
  phi2G_rho_neg_one _ exp sqrt N h1 hk (-1)
    ((not_phi2Low_src_iff h1 hk (-1)).mpr ⟨by norm_num, h1b, hkb⟩) (by norm_num) (by norm_num)

/-- Source literals: the reflection for `r ≤ -0.7`, `|h1|, |hk| ≤ 35`. -/
theorem phi2G_src_high_neg_reflection (exp sqrt N : ℝ → ℝ) (h1 hk r : ℝ)
    (hr : r ≤ -(7 / 10)) (h1b : |h1| ≤ 35) (hkb : |hk| ≤ 35) (hN : N hk + N (-hk) = 1) :
    phi2G phi2ConstsR exp sqrt N h1 hk r + phi2G phi2ConstsR exp sqrt N h1 (-hk) (-r) = N h1 :=
  phi2G_high_neg_reflection _ exp sqrt N h1 hk r
    ((not_phi2Low_src_iff h1 hk r).mpr
      ⟨by rw [abs_of_neg (by linarith)]; linarith, h1b, hkb⟩) (by linarith) hN

/-! ## Non-vacuity: the hypotheses are satisfiable and both sides are what they look like -/

/-- (a) `h1 = 1, hk = 2, r = -0.8`, `N = 1/2` (so `N hk + N (-hk) = 1`): case `¬ h1 < -hk`. -/
example : phi2G phi2ConstsR (fun _ => 1) (fun _ => 1) (fun _ => 1 / 2) 1 2 (-(4 / 5))
    + phi2G phi2ConstsR (fun _ => 1) (fun _ => 1) (fun _ => 1 / 2) 1 (-2) (-(-(4 / 5))) = 1 / 2 :=
  phi2G_src_high_neg_reflection _ _ _ 1 2 _ (by norm_num) (by norm_num) (by norm_num) (by norm_num)

/-- (a) the case `h1 < -hk` (`h1 = -3, hk = 2`), with an `N` that is NOT symmetric (`N = id`). -/
example : phi2G phi2ConstsR (fun _ => 1) (fun _ => 1) id (-3) 2 (-(4 / 5))
    + phi2G phi2ConstsR (fun _ => 1) (fun _ => 1) id (-3) (-2) (-(-(4 / 5))) = -3 :=
  phi2G_high_neg_reflection_of_lt _ _ _ _ (-3) 2 _
    ((not_phi2Low_src_iff _ _ _).mpr ⟨by norm_num [abs_of_neg], by norm_num [abs_of_neg], by norm_num⟩)
    (by norm_num) (by norm_num)

/-- (a) the deviation is real: with the non-symmetric `N = fun x => x + 1` and `¬ h1 < -hk` the sum is
`N h1 + 1`, not `N h1`. -/
example : phi2G phi2ConstsR (fun _ => 1) (fun _ => 1) (fun x => x + 1) 1 2 (-(4 / 5))
    + phi2G phi2ConstsR (fun _ => 1) (fun _ => 1) (fun x => x + 1) 1 (-2) (-(-(4 / 5))) = (1 + 1) + 1 := by
  rw [phi2G_high_neg_reflection_of_not_lt _ _ _ _ 1 2 _
    ((not_phi2Low_src_iff _ _ _).mpr ⟨by norm_num [abs_of_neg], by norm_num, by norm_num⟩)
    (by norm_num) (by norm_num)]
  norm_num

/-- (b) r = 1. -/
example : phi2G phi2ConstsR (fun _ => 7) (fun _ => 9) (fun x => x) 3 2 1 = 2 := by
  rw [phi2G_src_rho_one _ _ _ 3 2 (by norm_num) (by norm_num)]
  norm_num [minG]

/-- (b) r = −1, both cases. -/
example : phi2G phi2ConstsR (fun _ => 7) (fun _ => 9) (fun x => x) (-3) 2 (-1) = 0 := by
  rw [phi2G_src_rho_neg_one _ _ _ (-3) 2 (by norm_num [abs_of_neg]) (by norm_num)]
  norm_num
example : phi2G phi2ConstsR (fun _ => 7) (fun _ => 9) (fun x => x) 3 2 (-1) = 4 := by
  rw [phi2G_src_rho_neg_one _ _ _ 3 2 (by norm_num) (by norm_num)]
  norm_num

/-- (c) r = 0. -/
example : phi2G phi2ConstsR (fun _ => 7) (fun _ => 9) (fun x => x) 3 2 0 = 6 := by
  rw [phi2G_src_rho_zero]; norm_num

/-- (c) the low-branch shape at concrete numbers (`r = 1/2`), and (d) the symmetric call. -/
example : Phi2Low phi2ConstsR 3 2 (1 / 2) := by
  left; rw [phi2_absG_eq_abs, phi2ConstsR_c07]; norm_num [abs_of_pos]
example (exp sqrt N : ℝ → ℝ) :
    phi2G phi2ConstsR exp sqrt N 2 3 (1 / 2) = phi2G phi2ConstsR exp sqrt N 3 2 (1 / 2) :=
  phi2G_low_symmetric _ exp sqrt N 3 2 (1 / 2)
    (by left; rw [phi2_absG_eq_abs, phi2ConstsR_c07]; norm_num [abs_of_pos])

/-- (c) the high-branch shape with the guard true is applicable: `r = 4/5`. -/
example (exp sqrt N : ℝ → ℝ) :
    phi2G phi2ConstsR exp sqrt N 1 2 (4 / 5) =
      phi2HighSum phi2ConstsR exp sqrt N 1 2 (1 - 4 / 5 * (4 / 5)) * sqrt (1 - 4 / 5 * (4 / 5))
        * exp (-(1 * 2) * phi2ConstsR.half) + N (minG 1 2) :=
  phi2G_high_pos_shape_of_ne _ exp sqrt N 1 2 (4 / 5)
    ((not_phi2Low_src_iff _ _ _).mpr ⟨by norm_num [abs_of_pos], by norm_num, by norm_num⟩)
    (by norm_num) (by norm_num)

end

end FinVerif.Props.C20
