/-
  C20 (part i) — closed forms, totality, clamps and division-safety of the GENERATED Acklam inverse normal
  CDF `norminvcdf` (`FinVerif/Gen/KernR.lean`, regenerated from `financepy/utils/math.py` on every run; the
  theorems are statements about what the source says now, read over ℝ).
-/
import FinVerif.Props.C20c
import Mathlib.Analysis.SpecialFunctions.Log.Basic
import Mathlib.Analysis.SpecialFunctions.Sqrt
import Mathlib.Analysis.Complex.ExponentialBounds
import Mathlib.Tactic.Positivity
import Mathlib.Tactic.Linarith
import Mathlib.Tactic.Ring
import Mathlib.Tactic.NormNum

namespace FinVerif.Props.C20
open FinVerif FinVerif.Gen.KernR

/-! ## 1. Closed forms of the three branches -/

/-- Numerator of the tail rational function `c(q)`, Horner association exactly as generated. -/
noncomputable def acklamTailNum (q : ℝ) : ℝ :=
  ((((-(0.00778489400243029 : ℝ) * q + -(0.322396458041136 : ℝ)) * q + -(2.40075827716184 : ℝ)) * q
    + -(2.54973253934373 : ℝ)) * q + (4.37466414146497 : ℝ)) * q + (2.93816398269878 : ℝ)

/-- Denominator of the tail rational function `d(q)`. -/
noncomputable def acklamTailDen (q : ℝ) : ℝ :=
  ((((0.00778469570904146 : ℝ) * q + (0.32246712907004 : ℝ)) * q + (2.445134137143 : ℝ)) * q
    + (3.75440866190742 : ℝ)) * q + (1 : ℝ)

/-- The tail rational function `c(q) / d(q)` of Acklam's algorithm. -/
noncomputable def acklamTail (q : ℝ) : ℝ := acklamTailNum q / acklamTailDen q

/-- Denominator `b(r)` of the central rational function. -/
noncomputable def acklamCentralDen (r : ℝ) : ℝ :=
  ((((-(54.4760987982241 : ℝ) * r + (161.585836858041 : ℝ)) * r + -(155.698979859887 : ℝ)) * r
    + (66.8013118877197 : ℝ)) * r + -(13.2806815528857 : ℝ)) * r + (1 : ℝ)

/-- Numerator polynomial `a(r)` of the central rational function (before the factor `q`). -/
noncomputable def acklamCentralNum (r : ℝ) : ℝ :=
  ((((-(39.6968302866538 : ℝ) * r + (220.946098424521 : ℝ)) * r + -(275.928510446969 : ℝ)) * r
    + (138.357751867269 : ℝ)) * r + -(30.6647980661472 : ℝ)) * r + (2.50662827745924 : ℝ)

/-- The central rational function `a(q²)·q / b(q²)` of Acklam's algorithm. -/
noncomputable def acklamCentral (q : ℝ) : ℝ :=
  (acklamCentralNum (q * q) * q) / acklamCentralDen (q * q)

/-- Lower tail `0 < p < 0.02425`: the result is `c(q)/d(q)` at `q = √(−2 ln p)`. -/
theorem norminvcdf_lower (p : ℝ) (h0 : 0 < p) (hl : p < 0.02425) :
    norminvcdf p = .ok (acklamTail (Real.sqrt (-2 * Real.log p))) := by
  have e1 : ¬ (p < 0) := by linarith
  have e2 : ¬ (p > 1) := by norm_num at hl ⊢; linarith
  have e3 : ¬ (p = 0) := by intro h; linarith
  have e4 : ¬ (p = 1) := by intro h; norm_num [h] at hl
  simp only [norminvcdf, acklamTail, acklamTailNum, acklamTailDen, decide_eq_true_eq, e1, e2, e3, e4, hl,
    Bool.or_self, if_true, if_false]

example : norminvcdf 0.01 = .ok (acklamTail (Real.sqrt (-2 * Real.log 0.01))) :=
  norminvcdf_lower 0.01 (by norm_num) (by norm_num)

/-- Central branch `0.02425 ≤ p ≤ 1 − 0.02425`: the result is `a(q²)·q / b(q²)` at `q = p − ½`. -/
theorem norminvcdf_central (p : ℝ) (hl : 0.02425 ≤ p) (hm : p ≤ 1 - 0.02425) :
    norminvcdf p = .ok (acklamCentral (p - 0.5)) := by
  have e1 : ¬ (p < 0) := by norm_num at hl ⊢; linarith
  have e2 : ¬ (p > 1) := by norm_num at hm ⊢; linarith
  have e3 : ¬ (p = 0) := by intro h; norm_num [h] at hl
  have e4 : ¬ (p = 1) := by intro h; norm_num [h] at hm
  have hl' : ¬ (p < 0.02425) := not_lt.mpr hl
  simp only [norminvcdf, acklamCentral, acklamCentralNum, acklamCentralDen, decide_eq_true_eq, e1, e2, e3, e4,
    hl', hm, Bool.or_self, if_true, if_false]

example : norminvcdf 0.5 = .ok (acklamCentral (0.5 - 0.5)) :=
  norminvcdf_central 0.5 (by norm_num) (by norm_num)

/-- Upper tail `1 − 0.02425 < p < 1`: the result is `−c(q)/d(q)` at `q = √(−2 ln (1 − p))`. -/
theorem norminvcdf_upper (p : ℝ) (hm : 1 - 0.02425 < p) (h1 : p < 1) :
    norminvcdf p = .ok (-acklamTail (Real.sqrt (-2 * Real.log (1 - p)))) := by
  have e1 : ¬ (p < 0) := by norm_num at hm ⊢; linarith
  have e2 : ¬ (p > 1) := by linarith
  have e3 : ¬ (p = 0) := by intro h; norm_num [h] at hm
  have e4 : ¬ (p = 1) := by intro h; linarith
  have hl' : ¬ (p < 0.02425) := by norm_num at hm ⊢; linarith
  have hm' : ¬ (p ≤ 1 - 0.02425) := not_le.mpr hm
  simp only [norminvcdf, acklamTail, acklamTailNum, acklamTailDen, decide_eq_true_eq, e1, e2, e3, e4, hl', hm',
    h1, Bool.or_self, if_true, if_false, Int.cast_one, neg_div]

example : norminvcdf 0.99 = .ok (-acklamTail (Real.sqrt (-2 * Real.log (1 - 0.99)))) :=
  norminvcdf_upper 0.99 (by norm_num) (by norm_num)

/-! ## 3. Clamps at the endpoints and the value at ½ -/

/-- `norminvcdf 0` is computed as `norminvcdf 1e-10` (the source clamps `p = 0` to `1e-10`), so the function
returns a FINITE value (about −6.36) at `p = 0`, not `−∞`. -/
theorem norminvcdf_clamp_zero : norminvcdf 0 = norminvcdf 1e-10 := by
  rw [norminvcdf_lower 1e-10 (by norm_num) (by norm_num)]
  have f1 : ¬ ((0 : ℝ) > 1) := by norm_num
  have f2 : ¬ ((1e-10 : ℝ) = 1) := by norm_num
  have f3 : (1e-10 : ℝ) < 0.02425 := by norm_num
  simp only [norminvcdf, acklamTail, acklamTailNum, acklamTailDen, decide_eq_true_eq, lt_self_iff_false, f1, f2,
    f3, Bool.or_self, if_true, if_false]

/-- `norminvcdf 1` is computed as `norminvcdf (1 − 1e-10)` (the source clamps `p = 1`), so the function
returns a FINITE value (about +6.36) at `p = 1`, not `+∞`. -/
theorem norminvcdf_clamp_one : norminvcdf 1 = norminvcdf (1 - 1e-10) := by
  rw [norminvcdf_upper (1 - 1e-10) (by norm_num) (by norm_num)]
  have f0 : ¬ ((1 : ℝ) < 0) := by norm_num
  have f1 : ¬ ((1 : ℝ) = 0) := by norm_num
  have f2 : ¬ ((1 : ℝ) - 1e-10 < 0.02425) := by norm_num
  have f3 : ¬ ((1 : ℝ) - 1e-10 ≤ 1 - 0.02425) := by norm_num
  have f4 : (1 : ℝ) - 1e-10 < 1 := by norm_num
  simp only [norminvcdf, acklamTail, acklamTailNum, acklamTailDen, decide_eq_true_eq, gt_iff_lt,
    lt_self_iff_false, f0, f1, f2, f3, f4, Bool.or_self, if_true, if_false, Int.cast_one,
    neg_div]

/-- The two clamped endpoint values are exact negatives of each other. -/
theorem norminvcdf_clamp_symmetric :
    ∃ v, norminvcdf 0 = .ok v ∧ norminvcdf 1 = .ok (-v) := by
  rw [norminvcdf_clamp_zero, norminvcdf_clamp_one]
  exact norminvcdf_branch_symmetry 1e-10 (by norm_num) (by norm_num)

/-- Explicit finite endpoint values. -/
theorem norminvcdf_zero_value :
    norminvcdf 0 = .ok (acklamTail (Real.sqrt (-2 * Real.log 1e-10))) := by
  rw [norminvcdf_clamp_zero, norminvcdf_lower 1e-10 (by norm_num) (by norm_num)]

/-- The median is exact: `norminvcdf 0.5 = 0`. -/
theorem norminvcdf_half : norminvcdf 0.5 = .ok 0 := by
  rw [norminvcdf_central 0.5 (by norm_num) (by norm_num)]
  simp [acklamCentral]

/-! ## 2. The three guards partition (0,1); totality on [0,1] -/

/-- For `0 < p < 1` exactly one of the three branch guards holds. -/
theorem norminvcdf_regions_partition (p : ℝ) (_h0 : 0 < p) (_h1 : p < 1) :
    (p < 0.02425 ∧ ¬ (0.02425 ≤ p ∧ p ≤ 1 - 0.02425) ∧ ¬ (1 - 0.02425 < p))
    ∨ (¬ (p < 0.02425) ∧ (0.02425 ≤ p ∧ p ≤ 1 - 0.02425) ∧ ¬ (1 - 0.02425 < p))
    ∨ (¬ (p < 0.02425) ∧ ¬ (0.02425 ≤ p ∧ p ≤ 1 - 0.02425) ∧ (1 - 0.02425 < p)) := by
  rcases lt_or_ge p 0.02425 with hl | hl
  · left
    refine ⟨hl, fun h => absurd hl (not_lt.mpr h.1), ?_⟩
    norm_num at hl ⊢; linarith
  · rcases le_or_gt p (1 - 0.02425) with hm | hm
    · right; left
      exact ⟨not_lt.mpr hl, ⟨hl, hm⟩, not_lt.mpr hm⟩
    · right; right
      exact ⟨not_lt.mpr hl, fun h => absurd hm (not_lt.mpr h.2), hm⟩

example : (0.01 : ℝ) < 0.02425 ∧ ¬ ((0.02425 : ℝ) ≤ 0.01 ∧ (0.01 : ℝ) ≤ 1 - 0.02425)
    ∧ ¬ ((1 : ℝ) - 0.02425 < 0.01) := by
  rcases norminvcdf_regions_partition 0.01 (by norm_num) (by norm_num) with h | h | h
  · exact h
  · exact absurd (by norm_num : (0.01 : ℝ) < 0.02425) h.1
  · exact absurd (by norm_num : (0.01 : ℝ) < 0.02425) h.1

/-- On the whole closed interval `[0,1]` the routine returns a value, never an error. -/
theorem norminvcdf_total (p : ℝ) (h0 : 0 ≤ p) (h1 : p ≤ 1) : ∃ v, norminvcdf p = .ok v := by
  rcases eq_or_lt_of_le h0 with h | h
  · subst h
    obtain ⟨v, hv, _⟩ := norminvcdf_clamp_symmetric
    exact ⟨v, hv⟩
  · rcases eq_or_lt_of_le h1 with h' | h'
    · subst h'
      obtain ⟨v, _, hv⟩ := norminvcdf_clamp_symmetric
      exact ⟨-v, hv⟩
    · obtain ⟨v, hv, _⟩ := norminvcdf_branch_symmetry p h h'
      exact ⟨v, hv⟩

example : ∃ v, norminvcdf 0 = .ok v := norminvcdf_total 0 (by norm_num) (by norm_num)
example : ∃ v, norminvcdf 1 = .ok v := norminvcdf_total 1 (by norm_num) (by norm_num)

/-- The routine fails exactly on `p < 0 ∨ 1 < p`. -/
theorem norminvcdf_error_iff (p : ℝ) : norminvcdf p = .error .finError ↔ p < 0 ∨ 1 < p := by
  constructor
  · intro he
    by_contra hn
    obtain ⟨a, b⟩ := not_or.mp hn
    obtain ⟨v, hv⟩ := norminvcdf_total p (not_lt.mp a) (not_lt.mp b)
    rw [hv] at he
    cases he
  · exact norminvcdf_rejects_out_of_range p

/-! ## 4. Oddness of the central function -/

theorem acklamCentral_odd (q : ℝ) : acklamCentral (-q) = -acklamCentral q := by
  unfold acklamCentral
  rw [neg_mul_neg, mul_neg, neg_div]

example : acklamCentral (-0.3) = -acklamCentral 0.3 := acklamCentral_odd 0.3

/-! ## 5. No division by zero in the tails -/

/-- All `d_i > 0`, so for `q ≥ 0` the tail denominator is at least 1. -/
theorem acklamTail_den_pos (q : ℝ) (hq : 0 ≤ q) : 1 ≤ acklamTailDen q ∧ 0 < acklamTailDen q := by
  have h : 0 ≤ ((((0.00778469570904146 : ℝ) * q + (0.32246712907004 : ℝ)) * q + (2.445134137143 : ℝ)) * q
    + (3.75440866190742 : ℝ)) * q := by positivity
  unfold acklamTailDen
  constructor <;> linarith

/-- The `q` actually used in the tails is a square root, hence `≥ 0`: neither tail branch ever divides by
zero, for any argument of the logarithm whatsoever. -/
theorem norminvcdf_tail_den_pos (p : ℝ) :
    0 < acklamTailDen (Real.sqrt (-2 * Real.log p))
    ∧ 0 < acklamTailDen (Real.sqrt (-2 * Real.log (1 - p))) :=
  ⟨(acklamTail_den_pos _ (Real.sqrt_nonneg _)).2, (acklamTail_den_pos _ (Real.sqrt_nonneg _)).2⟩

example : 0 < acklamTailDen (Real.sqrt (-2 * Real.log 0.01)) := (norminvcdf_tail_den_pos 0.01).1

/-! ## 6. No division by zero in the central branch -/

/-- Writing `r = 0.2264 − s` with `s ≥ 0`, every coefficient of `b(0.2264 − s)` as a polynomial in `s` is
positive, the constant one being `b(0.2264) ≈ 0.00259`.  (The margin is small: `b` has a root near
`r ≈ 0.24`, i.e. `|q| ≈ 0.49`, just outside the central region `|q| ≤ 0.47575`.) -/
theorem acklamCentralDen_gt_of_le (r : ℝ) (hr : r ≤ 0.2264) : 0.0025 < acklamCentralDen r := by
  obtain ⟨s, hs, rfl⟩ : ∃ s : ℝ, 0 ≤ s ∧ r = 0.2264 - s := ⟨0.2264 - r, by linarith, by ring⟩
  unfold acklamCentralDen
  rw [← sub_pos]
  ring_nf
  positivity

/-- On the central region `|q| ≤ 0.47575` the denominator `b(q²)` is positive. -/
theorem acklamCentral_den_pos (q : ℝ) (hq : |q| ≤ 0.47575) : 0 < acklamCentralDen (q * q) := by
  have h : q * q ≤ 0.2264 := by
    have := abs_le.mp hq
    nlinarith [this.1, this.2]
  linarith [acklamCentralDen_gt_of_le _ h]

/-- Stated for the actual `q = p − ½` of the central branch. -/
theorem norminvcdf_central_den_pos (p : ℝ) (hl : 0.02425 ≤ p) (hm : p ≤ 1 - 0.02425) :
    0 < acklamCentralDen ((p - 0.5) * (p - 0.5)) := by
  apply acklamCentral_den_pos
  rw [abs_le]
  constructor <;> norm_num at hl hm ⊢ <;> linarith

example : 0 < acklamCentralDen ((0.3 - 0.5) * (0.3 - 0.5)) :=
  norminvcdf_central_den_pos 0.3 (by norm_num) (by norm_num)

/-- The central numerator polynomial `a(r)` is positive on the same range (same shift argument). -/
theorem acklamCentralNum_gt_of_le (r : ℝ) (hr : r ≤ 0.2264) : 0.01 < acklamCentralNum r := by
  obtain ⟨s, hs, rfl⟩ : ∃ s : ℝ, 0 ≤ s ∧ r = 0.2264 - s := ⟨0.2264 - r, by linarith, by ring⟩
  unfold acklamCentralNum
  rw [← sub_pos]
  ring_nf
  positivity

/-- On the central region `acklamCentral q` has the sign of `q`. -/
theorem acklamCentral_pos (q : ℝ) (h0 : 0 < q) (hq : q ≤ 0.47575) : 0 < acklamCentral q := by
  have h : q * q ≤ 0.2264 := by nlinarith
  have hn := acklamCentralNum_gt_of_le _ h
  have hd := acklamCentralDen_gt_of_le _ h
  unfold acklamCentral
  exact div_pos (mul_pos (by linarith) h0) (by linarith)

theorem acklamCentral_neg (q : ℝ) (h0 : q < 0) (hq : -0.47575 ≤ q) : acklamCentral q < 0 := by
  have := acklamCentral_pos (-q) (by linarith) (by linarith)
  rw [acklamCentral_odd] at this
  linarith

/-! ## 7. Sign of the tails and of the whole function -/

/-- Writing `q = 1.6 + t`, `t ≥ 0`, every coefficient of `−c(1.6 + t)` in `t` is positive (the only positive
root of `c` is near 1.177). -/
theorem acklamTailNum_neg (q : ℝ) (hq : 1.6 ≤ q) : acklamTailNum q < 0 := by
  obtain ⟨t, ht, rfl⟩ : ∃ t : ℝ, 0 ≤ t ∧ q = 1.6 + t := ⟨q - 1.6, by linarith, by ring⟩
  unfold acklamTailNum
  rw [← neg_pos]
  ring_nf
  positivity

/-- Stronger form of `acklamTail_neg`: already from `q ≥ 1.6`. -/
theorem acklamTail_neg_of_le (q : ℝ) (hq : 1.6 ≤ q) : acklamTail q < 0 :=
  div_neg_of_neg_of_pos (acklamTailNum_neg q hq) (acklamTail_den_pos q (by linarith)).2

theorem acklamTail_neg (q : ℝ) (hq : 2.7 ≤ q) : acklamTail q < 0 :=
  acklamTail_neg_of_le q (by linarith)

example : acklamTail 3 < 0 := acklamTail_neg 3 (by norm_num)

/-- `e^3.7 < 41.2` (from `e < 2.7182818286`, comparing 10th powers: `e^37 < 41.2^10`). -/
theorem exp_three_point_seven_lt : Real.exp 3.7 < 41.2 := by
  have h : Real.exp 3.7 ^ 10 = Real.exp 1 ^ 37 := by
    rw [← Real.exp_nat_mul, ← Real.exp_nat_mul]; norm_num
  have h2 : Real.exp 1 ^ 37 < (2.7182818286 : ℝ) ^ 37 :=
    pow_lt_pow_left₀ Real.exp_one_lt_d9 (Real.exp_nonneg 1) (by norm_num)
  have h3 : (2.7182818286 : ℝ) ^ 37 < 41.2 ^ 10 := by norm_num
  exact lt_of_pow_lt_pow_left₀ 10 (by norm_num) (by rw [h]; exact h2.trans h3)

/-- In the lower tail `ln p < −3.7` (true bound: `ln 0.02425 ≈ −3.7193`). -/
theorem log_lt_of_lower (p : ℝ) (h0 : 0 < p) (hl : p < 0.02425) : Real.log p < -3.7 := by
  rw [Real.log_lt_iff_lt_exp h0, Real.exp_neg]
  have h1 : (41.2 : ℝ)⁻¹ < (Real.exp 3.7)⁻¹ :=
    inv_strictAnti₀ (Real.exp_pos _) exp_three_point_seven_lt
  have h2 : (0.02425 : ℝ) < (41.2 : ℝ)⁻¹ := by norm_num
  linarith

/-- Hence the `q` fed to the tail rational function is at least 2.72 (`2.72² = 7.3984 ≤ 7.4`). -/
theorem norminvcdf_lower_q_ge (p : ℝ) (h0 : 0 < p) (hl : p < 0.02425) :
    2.72 ≤ Real.sqrt (-2 * Real.log p) := by
  have := log_lt_of_lower p h0 hl
  apply Real.le_sqrt_of_sq_le
  norm_num; linarith

/-- The lower-tail value is strictly negative. -/
theorem norminvcdf_lower_neg (p : ℝ) (h0 : 0 < p) (hl : p < 0.02425) :
    ∃ v, norminvcdf p = .ok v ∧ v < 0 :=
  ⟨_, norminvcdf_lower p h0 hl, acklamTail_neg _ (by linarith [norminvcdf_lower_q_ge p h0 hl])⟩

example : ∃ v, norminvcdf 0.01 = .ok v ∧ v < 0 := norminvcdf_lower_neg 0.01 (by norm_num) (by norm_num)

/-- The upper-tail value is strictly positive. -/
theorem norminvcdf_upper_pos (p : ℝ) (hm : 1 - 0.02425 < p) (h1 : p < 1) :
    ∃ v, norminvcdf p = .ok v ∧ 0 < v := by
  refine ⟨_, norminvcdf_upper p hm h1, ?_⟩
  have := acklamTail_neg _ (by linarith [norminvcdf_lower_q_ge (1 - p) (by linarith) (by linarith)] :
    2.7 ≤ Real.sqrt (-2 * Real.log (1 - p)))
  linarith

example : ∃ v, norminvcdf 0.99 = .ok v ∧ 0 < v := norminvcdf_upper_pos 0.99 (by norm_num) (by norm_num)

/-- Sign of the whole routine on the open interval: negative below the median, positive above it
(and exactly 0 at ½ by `norminvcdf_half`). -/
theorem norminvcdf_neg_of_lt_half (p : ℝ) (h0 : 0 < p) (hh : p < 0.5) :
    ∃ v, norminvcdf p = .ok v ∧ v < 0 := by
  rcases lt_or_ge p 0.02425 with hl | hl
  · exact norminvcdf_lower_neg p h0 hl
  · have hm : p ≤ 1 - 0.02425 := by norm_num at hh ⊢; linarith
    exact ⟨_, norminvcdf_central p hl hm,
      acklamCentral_neg _ (by linarith) (by norm_num at hl ⊢; linarith)⟩

theorem norminvcdf_pos_of_gt_half (p : ℝ) (hh : 0.5 < p) (h1 : p < 1) :
    ∃ v, norminvcdf p = .ok v ∧ 0 < v := by
  rcases le_or_gt p (1 - 0.02425) with hm | hm
  · have hl : 0.02425 ≤ p := by norm_num at hh ⊢; linarith
    exact ⟨_, norminvcdf_central p hl hm,
      acklamCentral_pos _ (by linarith) (by norm_num at hm ⊢; linarith)⟩
  · exact norminvcdf_upper_pos p hm h1

example : ∃ v, norminvcdf 0.3 = .ok v ∧ v < 0 := norminvcdf_neg_of_lt_half 0.3 (by norm_num) (by norm_num)
example : ∃ v, norminvcdf 0.7 = .ok v ∧ 0 < v := norminvcdf_pos_of_gt_half 0.7 (by norm_num) (by norm_num)

/-- The clamped endpoint values are finite and strictly signed: `norminvcdf 0 < 0 < norminvcdf 1`. -/
theorem norminvcdf_endpoints_signed :
    (∃ v, norminvcdf 0 = .ok v ∧ v < 0) ∧ (∃ v, norminvcdf 1 = .ok v ∧ 0 < v) := by
  rw [norminvcdf_clamp_zero, norminvcdf_clamp_one]
  exact ⟨norminvcdf_lower_neg _ (by norm_num) (by norm_num),
    norminvcdf_upper_pos _ (by norm_num) (by norm_num)⟩

end FinVerif.Props.C20
