/-
  C20 (part j) — the band-matrix multiply / tridiagonal solve inverse relation of `financepy/utils/math.py`.
  `solve_tridiagonal_matrix(a_matrix, r)` stores the matrix as rows (sub-diagonal, diagonal, super-diagonal),
  which is exactly the compact band storage of `band_matrix_multiplication(a, m1, m2, b)` with `m1 = m2 = 1`
  (`a[i,0] = a_i`, `a[i,1] = b_i`, `a[i,2] = c_i`).  Here: the band product with `m1 = m2 = 1` IS the
  tridiagonal product `triMul` of the Thomas theorems (every size `n`), hence
  solve-then-multiply and multiply-then-solve are both the identity whenever the solver returns.
-/
import FinVerif.Props.C20g

namespace FinVerif.Props.C20
open FinVerif FinVerif.Model.C20

noncomputable section

/-- The all-zero row, the default for out-of-range row look-ups. -/
def zeroRow : Row ℝ := ⟨0, 0, 0, 0⟩

/-- The rows of `a_matrix` read as compact band storage with `m1 = m2 = 1`: column `k = j + 1 − i` of row `i`
is the sub-diagonal (`k = 0`), the diagonal (`k = 1`) or the super-diagonal (`k = 2`) entry. -/
def triBand (rows : List (Row ℝ)) : ℕ → ℕ → ℝ := fun i k =>
  match k with
  | 0 => (rows.getD i zeroRow).a
  | 1 => (rows.getD i zeroRow).b
  | 2 => (rows.getD i zeroRow).c
  | _ => 0

/-- A vector given as a list, read as the index function `band_matrix_multiplication` consumes. -/
def vecFn (xs : List ℝ) : ℕ → ℝ := fun j => xs.getD j 0

/-- Three-term closed form of a row of `band_matrix_multiplication` with `m1 = m2 = 1`, for any storage `a`
and vector `b`: no sub-diagonal term in row `0` (`jl = 0`), no super-diagonal term in row `n−1`
(`ju = n−1`); covers `n = 1`. -/
theorem bandMulRow_m1m2_one (a : ℕ → ℕ → ℝ) (n : ℕ) (b : ℕ → ℝ) (i : ℕ) (hi : i < n) :
    bandMulRow a 1 1 n b i =
      (if 0 < i then a i 0 * b (i - 1) else 0) + a i 1 * b i
        + (if i + 1 < n then a i 2 * b (i + 1) else 0) := by
  unfold bandMulRow
  simp only
  rw [sumFrom_eq, zero_add]
  rcases i with _ | k
  · by_cases h : 1 < n
    · have : min (0 + 1) (n - 1) + 1 - (0 - 1) = 2 := by omega
      rw [this]
      simp [List.range_succ, h]
    · have : min (0 + 1) (n - 1) + 1 - (0 - 1) = 1 := by omega
      rw [this]
      simp [List.range_succ, h]
  · by_cases h : k + 1 + 1 < n
    · have : min (k + 1 + 1) (n - 1) + 1 - (k + 1 - 1) = 3 := by omega
      rw [this]
      have e1 : k + 1 + 1 - (k + 1) = 1 := by omega
      have e2 : k + 2 + 1 - (k + 1) = 2 := by omega
      simp [List.range_succ, h, e1, e2, add_assoc]
    · have : min (k + 1 + 1) (n - 1) + 1 - (k + 1 - 1) = 2 := by omega
      rw [this]
      have e1 : k + 1 + 1 - (k + 1) = 1 := by omega
      simp [List.range_succ, h]

/-- `triMulAux` returns one entry per row when the vector has as many entries as there are rows. -/
theorem triMulAux_length (rows : List (Row ℝ)) (xprev : Option ℝ) (xs : List ℝ)
    (h : xs.length = rows.length) : (triMulAux xprev rows xs).length = rows.length := by
  induction rows generalizing xprev xs with
  | nil => cases xs <;> simp [triMulAux]
  | cons row rest ih =>
    cases xs with
    | nil => simp at h
    | cons x xs' =>
      simp only [triMulAux, List.length_cons]
      rw [ih (some x) xs' (by simpa using h)]

/-- Entry `i` of `triMulAux xprev rows xs`: the three-term closed form, where in row `0` the sub-diagonal term
uses the carried previous value `xprev` (absent when `none`). -/
theorem triMulAux_getD (rows : List (Row ℝ)) (xprev : Option ℝ) (xs : List ℝ) (i : ℕ)
    (h : xs.length = rows.length) (hi : i < rows.length) :
    (triMulAux xprev rows xs).getD i 0 =
      (if i = 0 then (match xprev with | some xp => (rows.getD 0 zeroRow).a * xp | none => 0)
        else (rows.getD i zeroRow).a * xs.getD (i - 1) 0)
        + (rows.getD i zeroRow).b * xs.getD i 0
        + (if i + 1 < rows.length then (rows.getD i zeroRow).c * xs.getD (i + 1) 0 else 0) := by
  induction rows generalizing xprev xs i with
  | nil => simp at hi
  | cons row rest ih =>
    cases xs with
    | nil => simp at h
    | cons x xs' =>
      have h' : xs'.length = rest.length := by simpa using h
      cases i with
      | zero =>
        cases xs' with
        | nil =>
          have : rest = [] := by
            cases rest with
            | nil => rfl
            | cons _ _ => simp at h'
          subst this
          cases xprev <;> simp [triMulAux]
        | cons xn xs'' =>
          cases rest with
          | nil => simp at h'
          | cons r1 rest' =>
            cases xprev <;> simp [triMulAux]
      | succ k =>
        have hk : k < rest.length := by simpa using hi
        simp only [triMulAux, List.getD_cons_succ]
        rw [ih (some x) xs' k h' hk]
        cases k with
        | zero => simp; rfl
        | succ m => simp

/-- Entry `i` of the tridiagonal product `triMul rows xs` in three-term closed form. -/
theorem triMul_getD (rows : List (Row ℝ)) (xs : List ℝ) (i : ℕ)
    (h : xs.length = rows.length) (hi : i < rows.length) :
    (triMul rows xs).getD i 0 =
      (if 0 < i then (rows.getD i zeroRow).a * xs.getD (i - 1) 0 else 0)
        + (rows.getD i zeroRow).b * xs.getD i 0
        + (if i + 1 < rows.length then (rows.getD i zeroRow).c * xs.getD (i + 1) 0 else 0) := by
  unfold triMul
  rw [triMulAux_getD rows none xs i h hi]
  cases i <;> simp

/-- C20 `bandMulRow_tri`: row `i` of the band product of the tridiagonal rows (`m1 = m2 = 1`) in the same
three-term closed form as `triMul_getD`. -/
theorem bandMulRow_tri (rows : List (Row ℝ)) (xs : List ℝ) (n i : ℕ) (hi : i < n) :
    bandMulRow (triBand rows) 1 1 n (vecFn xs) i =
      (if 0 < i then (rows.getD i zeroRow).a * xs.getD (i - 1) 0 else 0)
        + (rows.getD i zeroRow).b * xs.getD i 0
        + (if i + 1 < n then (rows.getD i zeroRow).c * xs.getD (i + 1) 0 else 0) := by
  rw [bandMulRow_m1m2_one _ _ _ _ hi]
  rfl

/-- C20 `bandMul_tri_eq_triMul`: for every size `n`, `band_matrix_multiplication` applied to the tridiagonal
rows stored as a band (`m1 = m2 = 1`) returns exactly the tridiagonal product `triMul` that
`thomas_solves_tridiagonal` and `thomas_solution_unique` speak about (including rows `0`, `n−1` and `n = 1`). -/
theorem bandMul_tri_eq_triMul (rows : List (Row ℝ)) (xs : List ℝ) (n : ℕ)
    (hx : xs.length = n) (hr : rows.length = n) :
    bandMul (triBand rows) 1 1 n (vecFn xs) = triMul rows xs := by
  subst hr
  have hlen : (triMul rows xs).length = rows.length := triMulAux_length rows none xs hx
  apply List.ext_getElem
  · simp [bandMul, hlen]
  · intro i h1 h2
    have hi : i < rows.length := by simpa [bandMul] using h1
    have e2 : (triMul rows xs)[i] = (triMul rows xs).getD i 0 := by
      simp [List.getD_eq_getElem?_getD, h2]
    rw [e2, triMul_getD rows xs i hx hi, ← bandMulRow_tri rows xs rows.length i hi]
    simp [bandMul]


/-- instance, to read `bandMul (triBand ·) 1 1`: for `n = 3` it is the familiar tridiagonal product. -/
example (a1 a2 a3 b1 b2 b3 c1 c2 c3 r1 r2 r3 x1 x2 x3 : ℝ) :
    bandMul (triBand [⟨a1, b1, c1, r1⟩, ⟨a2, b2, c2, r2⟩, ⟨a3, b3, c3, r3⟩]) 1 1 3 (vecFn [x1, x2, x3]) =
      [b1 * x1 + c1 * x2, a2 * x1 + b2 * x2 + c2 * x3, a3 * x2 + b3 * x3] := by
  rw [bandMul_tri_eq_triMul _ _ 3 rfl rfl]
  simp [triMul, triMulAux]

/-- instance `n = 1`: a single row has neither neighbour term. -/
example (a b c r x : ℝ) : bandMul (triBand [⟨a, b, c, r⟩]) 1 1 1 (vecFn [x]) = [b * x] := by
  rw [bandMul_tri_eq_triMul _ _ 1 rfl rfl]
  simp [triMul, triMulAux]

/-- C20 `band_mul_thomas_inverse` (solve, then multiply = identity): whenever `solve_tridiagonal_matrix`
returns `xs`, `band_matrix_multiplication(a_matrix, 1, 1, xs)` gives back the right-hand side, for every `n`. -/
theorem band_mul_thomas_inverse (rows : List (Row ℝ)) (xs : List ℝ) (h : thomas rows = some xs) :
    bandMul (triBand rows) 1 1 rows.length (vecFn xs) = rows.map (·.r) := by
  obtain ⟨hl, hm⟩ := thomas_solves_tridiagonal rows xs h
  rw [bandMul_tri_eq_triMul rows xs rows.length hl rfl, hm]


/-- non-vacuity of `band_mul_thomas_inverse`: `[[2,1],[1,3]] x = [3,4]` is solved by `[1,1]` (the hypothesis
holds), and the band product of `[1,1]` is the right-hand side `[3,4]`. -/
example : thomas [(⟨0, 2, 1, 3⟩ : Row ℝ), ⟨1, 3, 0, 4⟩] = some [1, 1] ∧
    bandMul (triBand [(⟨0, 2, 1, 3⟩ : Row ℝ), ⟨1, 3, 0, 4⟩]) 1 1 2 (vecFn [1, 1]) = [3, 4] := by
  have h : thomas [(⟨0, 2, 1, 3⟩ : Row ℝ), ⟨1, 3, 0, 4⟩] = some [1, 1] := by
    rw [thomas_n2 _ _ _ _ _ _ _ _ (by norm_num) (by norm_num)]; norm_num
  exact ⟨h, by simpa using band_mul_thomas_inverse _ _ h⟩

/-- C20 `thomas_band_mul_inverse` (multiply, then solve = identity): if the right-hand sides of `rows` are the
band product `band_matrix_multiplication(a_matrix, 1, 1, ys)` of some vector `ys` of length `n`, then a
returning run of `solve_tridiagonal_matrix` returns exactly `ys`. -/
theorem thomas_band_mul_inverse (rows : List (Row ℝ)) (xs ys : List ℝ)
    (hy : ys.length = rows.length)
    (hr : rows.map (·.r) = bandMul (triBand rows) 1 1 rows.length (vecFn ys))
    (h : thomas rows = some xs) : xs = ys := by
  have hm : triMul rows ys = rows.map (·.r) := by
    rw [hr, bandMul_tri_eq_triMul rows ys rows.length hy rfl]
  exact (thomas_solution_unique rows xs ys h hy hm).symm

/-- non-vacuity of `thomas_band_mul_inverse`: the right-hand side `[3,4]` IS the band product of `ys = [1,1]`
with `[[2,1],[1,3]]`, the solver does return on these rows, and what it returns is `ys`. -/
example : (∃ xs, thomas [(⟨0, 2, 1, 3⟩ : Row ℝ), ⟨1, 3, 0, 4⟩] = some xs) ∧
    ∀ xs, thomas [(⟨0, 2, 1, 3⟩ : Row ℝ), ⟨1, 3, 0, 4⟩] = some xs → xs = [1, 1] := by
  refine ⟨⟨[1, 1], ?_⟩, ?_⟩
  · rw [thomas_n2 _ _ _ _ _ _ _ _ (by norm_num) (by norm_num)]; norm_num
  · intro xs h
    refine thomas_band_mul_inverse _ xs [1, 1] rfl ?_ h
    show _ = bandMul _ 1 1 2 _
    rw [bandMul_tri_eq_triMul [(⟨0, 2, 1, 3⟩ : Row ℝ), ⟨1, 3, 0, 4⟩] [1, 1] 2 rfl rfl]
    simp [triMul, triMulAux]
    norm_num

/-- a 3×3 instance: the rows of `[[2,1,0],[1,3,1],[0,1,2]]` with right-hand side the band product of
`ys = [1,2,3]`, i.e. `[4,10,8]`; any returning run of the solver returns `[1,2,3]`. -/
example (xs : List ℝ)
    (h : thomas [(⟨0, 2, 1, 4⟩ : Row ℝ), ⟨1, 3, 1, 10⟩, ⟨1, 2, 0, 8⟩] = some xs) : xs = [1, 2, 3] := by
  refine thomas_band_mul_inverse _ xs [1, 2, 3] rfl ?_ h
  show _ = bandMul _ 1 1 3 _
  rw [bandMul_tri_eq_triMul [(⟨0, 2, 1, 4⟩ : Row ℝ), ⟨1, 3, 1, 10⟩, ⟨1, 2, 0, 8⟩] [1, 2, 3] 3 rfl rfl]
  simp [triMul, triMulAux]
  norm_num

end

end FinVerif.Props.C20
